/-
  EasyMl.Lemmas.DetMinor — core-Lean lemmas about the model of minors and the inverse:

  * `detView_congr`: `determinant_less_generic` reads a view only inside its shape;
  * closed forms and index formulas of `remove_row` / `remove_column` (`retainRC`);
  * `minor_agree`: removal on a clone (matrices) and the mask view (tensors) give the same minor;
  * the cofactor loop, row-major index pairs, in-place square transposition.

  No Mathlib here.
-/
import EasyMl.Lemmas.DetHeaps
import EasyMl.Model.Det

namespace EasyMl.Det
set_option linter.unusedSectionVars false

/-! ### `detView` only looks at the view inside its shape -/

section Congr
variable {α : Type} [Add α] [Sub α] [Mul α] [Zero α] [One α]

theorem foldl_congr_mem {β γ : Type} (f g : γ → β → γ) (l : List β) (a : γ)
    (h : ∀ s, ∀ x ∈ l, f s x = g s x) : l.foldl f a = l.foldl g a := by
  induction l generalizing a with
  | nil => rfl
  | cons x xs ih =>
    simp only [List.foldl_cons]
    rw [h a x (by simp)]
    exact ih _ (fun s y hy => h s y (by simp [hy]))

theorem permProduct_congr (n : Nat) (g1 g2 : Nat → Nat → α)
    (h : ∀ r c, r < n → c < n → g1 r c = g2 r c) (p : List Nat) (hlen : p.length = n)
    (hlt : ∀ x ∈ p, x < n) : permProduct g1 p = permProduct g2 p := by
  unfold permProduct
  apply foldl_congr_mem
  intro s x hx
  have h1 := List.mem_zipIdx hx
  have hx1 : x.1 < n := hlt _ (by
    obtain ⟨_, hlt2, heq⟩ := h1
    rw [heq]; exact List.getElem_mem _)
  have hx2 : x.2 < n := by
    obtain ⟨_, hlt2, _⟩ := h1
    omega
  rw [h x.2 x.1 hx2 hx1]

theorem detModel_congr (n : Nat) (g1 g2 : Nat → Nat → α)
    (h : ∀ r c, r < n → c < n → g1 r c = g2 r c) : detModel n g1 = detModel n g2 := by
  unfold detModel
  rw [withEach_eq, withEach_eq]
  apply foldl_congr_mem
  intro s pe hpe
  obtain ⟨hlen, hlt⟩ := generatePermutations_range_inv n pe hpe
  simp only [detStep]
  rw [permProduct_congr n g1 g2 h pe.1 hlen hlt]

theorem detView_eq (v : View α) :
    detView v = if v.rows != v.cols then none else if v.rows == 0 then none
      else if v.rows == 1 then some (v.get 0 0) else some (detModel v.rows v.get) := rfl

/-- `determinant_less_generic` reads the view only at `[r, c]` with `r, c` inside the shape. -/
theorem detView_congr (n : Nat) (g1 g2 : Nat → Nat → α)
    (h : ∀ r c, r < n → c < n → g1 r c = g2 r c) : detView ⟨n, n, g1⟩ = detView ⟨n, n, g2⟩ := by
  simp only [detView_eq]
  split
  · rfl
  · split
    · rfl
    · split
      · rename_i h1
        have : n = 1 := by simpa using h1
        subst this
        rw [h 0 0 (by omega) (by omega)]
      · rw [detModel_congr n g1 g2 h]

end Congr

variable {α : Type}

/-! ### `remove_row` / `remove_column` -/

/-- one full remaining row under the row-removal predicate -/
theorem retainRC_row_append (cols i : Nat) (row rest : List α) (r0 c0 : Nat)
    (hrow : row ≠ []) (hlen : row.length + c0 = cols) :
    retainRC cols (fun r _ => r != i) (row ++ rest) r0 c0
      = (if r0 != i then row else []) ++ retainRC cols (fun r _ => r != i) rest (r0 + 1) 0 := by
  induction row generalizing c0 with
  | nil => exact absurd rfl hrow
  | cons x xs ih =>
    cases xs with
    | nil =>
      simp only [List.length_cons, List.length_nil] at hlen
      have hc : ¬ c0 < cols - 1 := by omega
      simp only [List.cons_append, List.nil_append, retainRC, hc, if_false]
      split <;> simp
    | cons y ys =>
      simp only [List.length_cons] at hlen
      have hc : c0 < cols - 1 := by omega
      have := ih (c0 + 1) (by simp) (by simp only [List.length_cons]; omega)
      simp only [List.cons_append, retainRC, hc, if_true] at this ⊢
      rw [this]
      split <;> simp

theorem retainRC_row_gt (cols i R : Nat) (hc : 1 ≤ cols) (data : List α) (r0 : Nat)
    (hlen : data.length = R * cols) (hr : i < r0) :
    retainRC cols (fun r _ => r != i) data r0 0 = data := by
  induction R generalizing data r0 with
  | zero =>
    have : data = [] := by simpa using hlen
    subst this; rfl
  | succ R ih =>
    have hsplit : data = data.take cols ++ data.drop cols := (List.take_append_drop _ _).symm
    have h1 : (data.take cols).length = cols := by
      rw [List.length_take, hlen, Nat.succ_mul]; omega
    rw [hsplit, retainRC_row_append cols i _ _ r0 0 (by
      intro h; rw [h] at h1; simp at h1; omega) (by omega)]
    rw [ih (data.drop cols) (r0 + 1) (by rw [List.length_drop, hlen, Nat.succ_mul]; omega) (by omega)]
    have : (r0 != i) = true := by simp; omega
    simp [this]

/-- closed form of `remove_row`: the `cols` entries of row `i` are dropped -/
theorem retainRC_row (cols i R : Nat) (hc : 1 ≤ cols) (data : List α) (r0 : Nat)
    (hlen : data.length = R * cols) (hr : r0 ≤ i) :
    retainRC cols (fun r _ => r != i) data r0 0
      = data.take ((i - r0) * cols) ++ data.drop ((i - r0 + 1) * cols) := by
  induction R generalizing data r0 with
  | zero =>
    have : data = [] := by simpa using hlen
    subst this; simp [retainRC]
  | succ R ih =>
    have hsplit : data = data.take cols ++ data.drop cols := (List.take_append_drop _ _).symm
    have h1 : (data.take cols).length = cols := by
      rw [List.length_take, hlen, Nat.succ_mul]; omega
    have h2 : (data.drop cols).length = R * cols := by
      rw [List.length_drop, hlen, Nat.succ_mul]; omega
    have hne : data.take cols ≠ [] := by
      intro h; rw [h] at h1; simp at h1; omega
    conv => lhs; rw [hsplit]
    rw [retainRC_row_append cols i _ _ r0 0 hne (by omega)]
    by_cases heq : r0 = i
    · subst heq
      rw [retainRC_row_gt cols r0 R hc _ _ h2 (by omega)]
      simp
    · have hlt : r0 < i := by omega
      rw [ih (data.drop cols) (r0 + 1) h2 (by omega)]
      have : (r0 != i) = true := by simp; omega
      simp only [this, if_true]
      have e1 : (i - r0) * cols = cols + (i - (r0 + 1)) * cols := by
        have : i - r0 = (i - (r0 + 1)) + 1 := by omega
        rw [this, Nat.succ_mul]; omega
      have e2 : (i - r0 + 1) * cols = cols + (i - (r0 + 1) + 1) * cols := by
        have : i - r0 + 1 = (i - (r0 + 1) + 1) + 1 := by omega
        rw [this, Nat.succ_mul (i - (r0 + 1) + 1)]; omega
      rw [e1, e2, List.take_add, List.drop_drop]
      simp [List.append_assoc]


theorem mul_lt_of_lt_rows {r R c cols : Nat} (hr : r < R) (hc : c < cols) : c + r * cols < R * cols := by
  have : (r + 1) * cols ≤ R * cols := Nat.mul_le_mul_right _ hr
  rw [Nat.succ_mul] at this
  omega

/-- element `[r, c]` after `remove_row(i)` is element `[mask(r), c]` before -/
theorem removeRow_get (cols i R : Nat) (hc : 1 ≤ cols) (data : List α)
    (hlen : data.length = R * cols) (hi : i < R) (r c : Nat) (hcc : c < cols) :
    (retainRC cols (fun r _ => r != i) data 0 0)[c + r * cols]?
      = data[c + maskIdx i 1 r * cols]? := by
  rw [retainRC_row cols i R hc data 0 hlen (by omega)]
  simp only [Nat.sub_zero]
  have hle : i * cols ≤ data.length := by rw [hlen]; exact Nat.mul_le_mul_right _ (by omega)
  have htl : (data.take (i * cols)).length = i * cols := by rw [List.length_take]; omega
  unfold maskIdx
  by_cases hri : r < i
  · have hk : c + r * cols < i * cols := mul_lt_of_lt_rows hri hcc
    rw [List.getElem?_append_left (by omega), List.getElem?_take_of_lt hk]
    simp [hri]
  · have hk : i * cols ≤ c + r * cols := by
      have : i * cols ≤ r * cols := Nat.mul_le_mul_right _ (by omega)
      omega
    rw [List.getElem?_append_right (by omega), htl, List.getElem?_drop]
    simp only [hri, if_false]
    congr 1
    rw [Nat.succ_mul, Nat.succ_mul]
    omega

/-- one full remaining row under the column-removal predicate -/
theorem retainRC_col_append (cols j : Nat) (row rest : List α) (r0 c0 : Nat)
    (hrow : row ≠ []) (hlen : row.length + c0 = cols) :
    retainRC cols (fun _ c => c != j) (row ++ rest) r0 c0
      = (if c0 ≤ j then row.eraseIdx (j - c0) else row)
          ++ retainRC cols (fun _ c => c != j) rest (r0 + 1) 0 := by
  induction row generalizing c0 with
  | nil => exact absurd rfl hrow
  | cons x xs ih =>
    cases xs with
    | nil =>
      simp only [List.length_cons, List.length_nil] at hlen
      have hc : ¬ c0 < cols - 1 := by omega
      simp only [List.cons_append, List.nil_append, retainRC, hc, if_false]
      by_cases h1 : c0 = j
      · subst h1; simp
      · by_cases h2 : c0 ≤ j
        · have : j - c0 = (j - c0 - 1) + 1 := by omega
          rw [this]; simp [h1, h2]
        · simp [h1, h2]
    | cons y ys =>
      simp only [List.length_cons] at hlen
      have hc : c0 < cols - 1 := by omega
      have := ih (c0 + 1) (by simp) (by simp only [List.length_cons]; omega)
      simp only [List.cons_append, retainRC, hc, if_true] at this ⊢
      rw [this]
      by_cases h1 : c0 = j
      · subst h1
        have : ¬ (c0 + 1 ≤ c0) := by omega
        simp [this]
      · by_cases h2 : c0 ≤ j
        · have h3 : c0 + 1 ≤ j := by omega
          have : j - c0 = (j - (c0 + 1)) + 1 := by omega
          rw [this]; simp [h1, h2, h3]
        · have h3 : ¬ (c0 + 1 ≤ j) := by omega
          simp [h1, h2, h3]

/-- element `[r, c]` after `remove_column(j)` is element `[r, mask(c)]` before -/
theorem removeColumn_get (cols j R : Nat) (hj : j < cols) (data : List α) (r0 : Nat)
    (hlen : data.length = R * cols) (r c : Nat) (hr : r < R) (hcc : c < cols - 1) :
    (retainRC cols (fun _ c => c != j) data r0 0)[c + r * (cols - 1)]?
      = data[maskIdx j 1 c + r * cols]? := by
  induction R generalizing data r0 r with
  | zero => omega
  | succ R ih =>
    have hsplit : data = data.take cols ++ data.drop cols := (List.take_append_drop _ _).symm
    have h1 : (data.take cols).length = cols := by
      rw [List.length_take, hlen, Nat.succ_mul]; omega
    have h2 : (data.drop cols).length = R * cols := by
      rw [List.length_drop, hlen, Nat.succ_mul]; omega
    have hne : data.take cols ≠ [] := by
      intro h; rw [h] at h1; simp at h1; omega
    conv => lhs; rw [hsplit]
    rw [retainRC_col_append cols j _ _ r0 0 hne (by omega)]
    simp only [Nat.zero_le, if_true, Nat.sub_zero]
    have h3 : ((data.take cols).eraseIdx j).length = cols - 1 := by
      rw [List.length_eraseIdx, h1]; simp [hj]
    have hm : maskIdx j 1 c < cols := by unfold maskIdx; split <;> omega
    cases r with
    | zero =>
      simp only [Nat.zero_mul, Nat.add_zero]
      rw [List.getElem?_append_left (by omega), List.getElem?_eraseIdx]
      unfold maskIdx
      split
      · rw [List.getElem?_take_of_lt (by omega)]
      · rw [List.getElem?_take_of_lt (by omega)]
    | succ r =>
      have e1 : c + (r + 1) * (cols - 1) = (cols - 1) + (c + r * (cols - 1)) := by
        rw [Nat.succ_mul]; omega
      rw [e1, List.getElem?_append_right (by omega), h3]
      simp only [Nat.add_sub_cancel_left]
      rw [ih (data.drop cols) (r0 + 1) h2 r (by omega), List.getElem?_drop]
      congr 1
      rw [Nat.succ_mul]; omega


section Minor
variable [Add α] [Sub α] [Mul α] [Zero α] [One α]

/-- `determinant` of a `Matrix` is `determinant_less_generic` of its `TensorRefMatrix` view
    (the 1×1 shortcut `matrix.scalar()` reads the same element). -/
theorem determinant_eq_detView (m : Matrix α) : determinant m = detView (viewOfMatrix m) := by
  unfold determinant detView viewOfMatrix
  simp only [Matrix.getIndex]
  split
  · rfl
  · split
    · rfl
    · split
      · simp
      · rfl

theorem retainRC_row_length (cols i R : Nat) (hc : 1 ≤ cols) (data : List α)
    (hlen : data.length = R * cols) (hi : i < R) :
    (retainRC cols (fun r _ => r != i) data 0 0).length = (R - 1) * cols := by
  rw [retainRC_row cols i R hc data 0 hlen (by omega)]
  simp only [Nat.sub_zero, List.length_append, List.length_take, List.length_drop, hlen]
  have h1 : i * cols ≤ R * cols := Nat.mul_le_mul_right _ (by omega)
  have h2 : (i + 1) * cols ≤ R * cols := Nat.mul_le_mul_right _ (by omega)
  have h3 : R * cols = (R - 1) * cols + cols := by
    have : R = (R - 1) + 1 := by omega
    conv => lhs; rw [this, Nat.succ_mul]
  rw [Nat.succ_mul] at h2 ⊢
  omega

theorem clipLen_one (i n : Nat) (h : i < n) : clipLen i 1 n = 1 := by
  unfold clipLen; omega

/-- The minor computed on a clone with row and column removed (matrices) is the minor computed
    through the mask view (tensors): any size, any element type. -/
theorem minor_agree (m : Matrix α) (hinv : m.Inv) (i j : Nat) (hi : i < m.rows)
    (hj : j < m.columns) : minorTensor (viewOfMatrix m) i j = .ok (minorMatrix m i j) := by
  obtain ⟨hlen, hr1, hc1⟩ := hinv
  unfold minorTensor minorMatrix
  have hv1 : (viewOfMatrix m).rows = m.rows := rfl
  have hv2 : (viewOfMatrix m).cols = m.columns := rfl
  rw [hv1, hv2]
  split
  · rfl
  · rename_i h1
    split
    · rfl
    · rename_i h2
      have hsq : m.rows = m.columns := by simpa using h2
      have hn2 : 2 ≤ m.rows := by
        simp only [Bool.or_eq_true, beq_iff_eq, not_or] at h1
        omega
      have hmask : maskView (viewOfMatrix m) i j
          = some ⟨m.rows - 1, m.columns - 1,
              fun r c => (viewOfMatrix m).get (maskIdx i 1 r) (maskIdx j 1 c)⟩ := by
        unfold maskView
        simp only [hv1, hv2, clipLen_one i _ hi, clipLen_one j _ hj]
        have : ¬ (m.rows - 1 = 0 ∨ m.columns - 1 = 0) := by omega
        simp [this]
      rw [hmask]
      simp only
      rw [determinant_eq_detView]
      congr 1
      have hrows : (removeColumn (removeRow m i) j).rows = m.rows - 1 := rfl
      have hcols : (removeColumn (removeRow m i) j).columns = m.columns - 1 := rfl
      have e1 : viewOfMatrix (removeColumn (removeRow m i) j)
          = ⟨m.rows - 1, m.rows - 1, (viewOfMatrix (removeColumn (removeRow m i) j)).get⟩ := by
        simp [viewOfMatrix, hrows, hcols, hsq]
      rw [e1, ← hsq]
      apply (detView_congr (m.rows - 1) _ _ _).symm
      intro r c hr hc
      simp only [viewOfMatrix, Matrix.getIndex, removeColumn, removeRow]
      rw [List.getD_eq_getElem?_getD, List.getD_eq_getElem?_getD]
      congr 1
      have hlen' := retainRC_row_length m.columns i m.rows hc1 m.data hlen hi
      rw [← hsq]
      have := removeColumn_get m.columns j (m.rows - 1) hj
        (retainRC m.columns (fun r _ => r != i) m.data 0 0) 0 hlen' r c hr (by omega)
      rw [← hsq] at this
      rw [this]
      have := removeRow_get m.columns i m.rows hc1 m.data hlen hi r (maskIdx j 1 c) (by
        unfold maskIdx; split <;> omega)
      rw [← hsq] at this
      rw [this]

end Minor
/-! ### Row-major index pairs -/

theorem indexPairs_succ (r c : Nat) :
    indexPairs (r + 1) c = indexPairs r c ++ (List.range c).map fun j => (r, j) := by
  simp [indexPairs, List.range_succ, List.flatMap_append]

theorem indexPairs_length (r c : Nat) : (indexPairs r c).length = r * c := by
  induction r with
  | zero => simp [indexPairs]
  | succ r ih => rw [indexPairs_succ, List.length_append, ih, Nat.succ_mul]; simp

theorem indexPairs_get (r c i j : Nat) (hi : i < r) (hj : j < c) :
    (indexPairs r c)[j + i * c]? = some (i, j) := by
  induction r with
  | zero => omega
  | succ r ih =>
    rw [indexPairs_succ]
    by_cases h : i < r
    · rw [List.getElem?_append_left (by rw [indexPairs_length]; exact mul_lt_of_lt_rows h hj)]
      exact ih h
    · have : i = r := by omega
      subst this
      rw [List.getElem?_append_right (by rw [indexPairs_length]; omega), indexPairs_length]
      simp [hj]

theorem mem_indexPairs (r c : Nat) (ij : Nat × Nat) (h : ij ∈ indexPairs r c) :
    ij.1 < r ∧ ij.2 < c := by
  simp only [indexPairs, List.mem_flatMap, List.mem_range, List.mem_map] at h
  obtain ⟨i, hi, j, hj, rfl⟩ := h
  exact ⟨hi, hj⟩

/-- `(indexPairs n n).map f` read at `[i, j]` -/
theorem getD_map_indexPairs [Zero α] (n : Nat) (f : Nat × Nat → α) (i j : Nat) (hi : i < n) (hj : j < n) :
    ((indexPairs n n).map f).getD (j + i * n) 0 = f (i, j) := by
  rw [List.getD_eq_getElem?_getD, List.getElem?_map, indexPairs_get n n i j hi hj]
  rfl

/-! ### The cofactor loop -/

section Cof
variable [Add α] [Sub α] [Mul α] [Zero α] [One α]

theorem cofactorLoop_ok (minor : Nat → Nat → Outcome (Option α)) (f : Nat → Nat → α)
    (pairs : List (Nat × Nat)) (acc : List α)
    (h : ∀ ij ∈ pairs, minor ij.1 ij.2 = .ok (some (f ij.1 ij.2))) :
    cofactorLoop minor pairs acc
      = .ok (some (acc ++ pairs.map fun ij => cofactorSign ij.1 ij.2 * f ij.1 ij.2)) := by
  induction pairs generalizing acc with
  | nil => simp [cofactorLoop]
  | cons ij rest ih =>
    obtain ⟨i, j⟩ := ij
    have h1 := h (i, j) (by simp)
    simp only at h1
    simp only [cofactorLoop, h1]
    rw [ih _ (fun ij hij => h ij (by simp [hij]))]
    simp

end Cof

/-! ### In-place transposition of a square buffer -/

theorem transposeSquare_length (n : Nat) (data : List α) :
    (transposeSquare n data).length = data.length := by
  unfold transposeSquare
  generalize indexPairs n n = ps
  induction ps generalizing data with
  | nil => rfl
  | cons p ps ih =>
    simp only [List.foldl_cons]
    rw [ih]
    split
    · rfl
    · exact swap_length _ _ _

theorem swap_map {β : Type} (f : α → β) (l : List α) (i j : Nat) :
    swap (l.map f) i j = (swap l i j).map f := by
  unfold swap
  simp only [List.getElem?_map]
  cases hi : l[i]? <;> cases hj : l[j]? <;> simp [List.map_set]

theorem transposeSquare_map {β : Type} (f : α → β) (n : Nat) (data : List α) :
    transposeSquare n (data.map f) = (transposeSquare n data).map f := by
  unfold transposeSquare
  generalize indexPairs n n = ps
  induction ps generalizing data with
  | nil => rfl
  | cons p ps ih =>
    simp only [List.foldl_cons]
    split
    · exact ih data
    · rw [swap_map, ih]

theorem swap_getElem? (l : List α) (x y k : Nat) (hx : x < l.length) (hy : y < l.length) :
    (swap l x y)[k]? = if k = x then l[y]? else if k = y then l[x]? else l[k]? := by
  unfold swap
  rw [List.getElem?_eq_getElem hx, List.getElem?_eq_getElem hy]
  simp only [List.getElem?_set, List.length_set]
  by_cases hky : y = k
  · subst hky
    by_cases hkx : x = y
    · subst hkx; simp [hx]
    · have : ¬ (y = x) := fun h => hkx h.symm
      simp [hy, this]
  · by_cases hkx : x = k
    · subst hkx; simp [hky, hx]
    · have h1 : ¬ (k = x) := fun h => hkx h.symm
      have h2 : ¬ (k = y) := fun h => hky h.symm
      simp [hky, hkx, h1, h2]

theorem cell_inj (n a b a' b' : Nat) (hb : b < n) (hb' : b' < n) (h : b + a * n = b' + a' * n) :
    a = a' ∧ b = b' := by
  have h1 : (b + a * n) % n = b := by rw [Nat.add_mul_mod_self_right, Nat.mod_eq_of_lt hb]
  have h2 : (b' + a' * n) % n = b' := by rw [Nat.add_mul_mod_self_right, Nat.mod_eq_of_lt hb']
  have hbb : b = b' := by rw [← h1, ← h2, h]
  subst hbb
  have hn : 0 < n := by omega
  have : a * n = a' * n := by omega
  exact ⟨Nat.eq_of_mul_eq_mul_right hn this, rfl⟩

theorem indexPairs_nodup (r c : Nat) : (indexPairs r c).Nodup := by
  induction r with
  | zero => simp [indexPairs]
  | succ r ih =>
    rw [indexPairs_succ, List.nodup_append]
    refine ⟨ih, ?_, ?_⟩
    · rw [List.Nodup, List.pairwise_map]
      exact List.nodup_range.imp (fun h h' => h (by simpa using h'))
    · intro a ha b hb hab
      subst hab
      have h1 := (mem_indexPairs r c a ha).1
      simp only [List.mem_map, List.mem_range] at hb
      obtain ⟨j, _, rfl⟩ := hb
      simp at h1


theorem swapCell_get (n i j x y : Nat) (hi : i < n) (hj : j < n) (_hx : x < n) (hy : y < n)
    (data : List α) (hlen : data.length = n * n) :
    (swap data (j + i * n) (i + j * n))[y + x * n]?
      = if x = i ∧ y = j then data[i + j * n]? else if x = j ∧ y = i then data[j + i * n]?
        else data[y + x * n]? := by
  rw [swap_getElem? data _ _ _ (by rw [hlen]; exact mul_lt_of_lt_rows hi hj)
    (by rw [hlen]; exact mul_lt_of_lt_rows hj hi)]
  by_cases h1 : x = i ∧ y = j
  · obtain ⟨rfl, rfl⟩ := h1; simp
  · have h1' : ¬ (y + x * n = j + i * n) := fun h => h1 (cell_inj n x y i j hy hj h)
    rw [if_neg h1', if_neg h1]
    by_cases h2 : x = j ∧ y = i
    · obtain ⟨rfl, rfl⟩ := h2; simp
    · have h2' : ¬ (y + x * n = i + j * n) := fun h => h2 (cell_inj n x y j i hy hi h)
      rw [if_neg h2', if_neg h2]

/-- one step of the transposition loop -/
def tstep (n : Nat) (d : List α) (ij : Nat × Nat) : List α :=
  if ij.1 > ij.2 then d else swap d (ij.2 + ij.1 * n) (ij.1 + ij.2 * n)

theorem tstep_length (n : Nat) (d : List α) (ij : Nat × Nat) : (tstep n d ij).length = d.length := by
  unfold tstep; split
  · rfl
  · exact swap_length _ _ _

/-- The swap loop over any duplicate-free list of index pairs: cell `[a, b]` ends up holding the
    original `[b, a]` exactly when the unordered pair was visited. -/
theorem transpose_fold (n : Nat) (ps : List (Nat × Nat)) (hnd : ps.Nodup)
    (hlt : ∀ p ∈ ps, p.1 < n ∧ p.2 < n) (data : List α) (hlen : data.length = n * n)
    (a b : Nat) (ha : a < n) (hb : b < n) :
    (ps.foldl (tstep n) data)[b + a * n]?
      = if (min a b, max a b) ∈ ps then data[a + b * n]? else data[b + a * n]? := by
  induction ps generalizing data with
  | nil => simp
  | cons p ps ih =>
    obtain ⟨i, j⟩ := p
    have hij := hlt (i, j) (by simp)
    simp only at hij
    rw [List.nodup_cons] at hnd
    simp only [List.foldl_cons]
    rw [ih hnd.2 (fun p hp => hlt p (by simp [hp])) _ (by rw [tstep_length]; exact hlen)]
    unfold tstep
    simp only
    by_cases hgt : i > j
    · rw [if_pos hgt]
      have : (min a b, max a b) ≠ (i, j) := by
        intro h; rw [Prod.mk.injEq] at h; omega
      simp [this]
    · rw [if_neg hgt]
      rw [swapCell_get n i j b a hij.1 hij.2 hb ha data hlen,
        swapCell_get n i j a b hij.1 hij.2 ha hb data hlen]
      by_cases hm : (min a b, max a b) = (i, j)
      · rw [hm]
        have hnot : (i, j) ∉ ps := hnd.1
        simp only [hnot, if_false, List.mem_cons, true_or, if_true]
        rw [Prod.mk.injEq] at hm
        by_cases h1 : a = i ∧ b = j
        · rw [if_pos h1]; obtain ⟨rfl, rfl⟩ := h1; rfl
        · rw [if_neg h1]
          have h2 : a = j ∧ b = i := by omega
          rw [if_pos h2]; obtain ⟨rfl, rfl⟩ := h2; rfl
      · simp only [List.mem_cons, hm, false_or]
        rw [Prod.mk.injEq] at hm
        have h1 : ¬ (a = i ∧ b = j) := by omega
        have h2 : ¬ (a = j ∧ b = i) := by omega
        have h3 : ¬ (b = i ∧ a = j) := by omega
        have h4 : ¬ (b = j ∧ a = i) := by omega
        simp only [h1, h2, h3, h4, if_false]

/-- In-place transposition of a square buffer, every size: `[i, j]` holds the old `[j, i]`. -/
theorem transposeSquare_spec [Zero α] (n : Nat) (data : List α) (hlen : data.length = n * n) :
    transposeSquare n data = (indexPairs n n).map fun ij => data.getD (ij.1 + ij.2 * n) 0 := by
  have hfold : transposeSquare n data = (indexPairs n n).foldl (tstep n) data := rfl
  apply List.ext_getElem?
  intro k
  by_cases hk : k < n * n
  · have hn : 0 < n := by
      rcases Nat.eq_zero_or_pos n with h | h
      · subst h; omega
      · exact h
    have hb : k % n < n := Nat.mod_lt _ hn
    have ha : k / n < n := by
      apply Nat.div_lt_of_lt_mul; exact hk
    have hk' : k = k % n + k / n * n := by
      rw [Nat.mul_comm]; exact (Nat.mod_add_div k n).symm
    rw [hk', hfold, transpose_fold n _ (indexPairs_nodup n n)
      (fun p hp => mem_indexPairs n n p hp) data hlen _ _ ha hb]
    have hmem : (min (k / n) (k % n), max (k / n) (k % n)) ∈ indexPairs n n := by
      have := indexPairs_get n n (min (k / n) (k % n)) (max (k / n) (k % n)) (by omega) (by omega)
      exact List.mem_of_getElem? this
    rw [if_pos hmem, List.getElem?_map, indexPairs_get n n _ _ ha hb]
    simp only [Option.map_some]
    rw [List.getD_eq_getElem?_getD]
    have hlt2 : k / n + k % n * n < data.length := by rw [hlen]; exact mul_lt_of_lt_rows hb ha
    rw [List.getElem?_eq_getElem hlt2]
    rfl
  · rw [List.getElem?_eq_none (by rw [transposeSquare_length, hlen]; omega),
      List.getElem?_eq_none (by rw [List.length_map, indexPairs_length]; omega)]

/-! ### Inverse -/

/-! #### `Tensor::transpose_mut` on the cofactor tensor: names resolved through `DimensionMappings` -/

section Names
variable {ν : Type} [DecidableEq ν] [Inhabited ν]

theorem mappings_swap (a b : ν) (n m : Nat) (h : a ≠ b) :
    DimensionMappings.new [(a, n), (b, m)] [b, a] = some ⟨[1, 0], [1, 0]⟩ := by
  have h' : b ≠ a := fun e => h e.symm
  simp [DimensionMappings.new, mappingAt, findPos, h, h', List.range, List.range.loop]

theorem mappings_dup (a : ν) (n m : Nat) :
    DimensionMappings.new [(a, n), (a, m)] [a, a] = some ⟨[0, 1], [0, 1]⟩ := by
  simp [DimensionMappings.new, mappingAt, findPos, List.range, List.range.loop]

/-- with two different names the requested order `[name₁, name₀]` is the exchange of the two
    dimensions: the buffer is transposed in place and the shape (names and lengths) is unchanged -/
theorem transposeMutSquare_distinct (a b : ν) (h : a ≠ b) (n : Nat) (data : List α) :
    transposeMutSquare [(a, n), (b, n)] n data = .ok (transposeSquare n data, [(a, n), (b, n)]) := by
  unfold transposeMutSquare
  simp only [List.getD_cons_succ, List.getD_cons_zero]
  rw [mappings_swap a b n n h]
  simp only [DimensionMappings.mapShapeToRequested, DimensionMappings.mapDimensionsToSource,
    List.map_cons, List.map_nil, List.getD_cons_succ, List.getD_cons_zero, List.zipWith_cons_cons,
    List.zipWith_nil_left]
  congr 2
  unfold transposeSquare
  congr 1
  funext d ij
  by_cases hij : ij.1 > ij.2
  · have : ¬ (ij.2 ≥ ij.1) := by omega
    simp [hij, this]
  · have : ij.2 ≥ ij.1 := by omega
    simp [hij, this]

/-- with two equal names (which `TensorRef` forbids) the mapping is the identity: nothing moves -/
theorem transposeMutSquare_dup (a : ν) (n : Nat) (data : List α) :
    transposeMutSquare [(a, n), (a, n)] n data = .ok (data, [(a, n), (a, n)]) := by
  unfold transposeMutSquare
  simp only [List.getD_cons_succ, List.getD_cons_zero]
  rw [mappings_dup a n n]
  simp only [DimensionMappings.mapShapeToRequested, DimensionMappings.mapDimensionsToSource,
    List.map_cons, List.map_nil, List.getD_cons_succ, List.getD_cons_zero, List.zipWith_cons_cons,
    List.zipWith_nil_left]
  congr 2
  generalize indexPairs n n = ps
  induction ps generalizing data with
  | nil => rfl
  | cons p ps ih =>
    simp only [List.foldl_cons]
    have : swap data (p.2 + p.1 * n) (p.2 + p.1 * n) = data := by
      unfold swap
      cases hx : data[p.2 + p.1 * n]? with
      | none => rfl
      | some x =>
        simp only [List.set_set]
        apply List.ext_getElem?
        intro j
        rw [List.getElem?_set]
        split
        · rename_i hj
          subst hj
          have hlt : p.2 + p.1 * n < data.length := by
            rcases Nat.lt_or_ge (p.2 + p.1 * n) data.length with h | h
            · exact h
            · rw [List.getElem?_eq_none h] at hx; cases hx
          rw [List.getElem?_eq_getElem hlt] at hx
          simp only [Option.some.injEq] at hx
          simp [hlt, hx]
        · rfl
    split
    · rw [this]; exact ih data
    · exact ih data

/-- whatever the two names are, `transpose_mut` succeeds, keeps the shape and the buffer length -/
theorem transposeMutSquare_any (a b : ν) (n : Nat) (data : List α) :
    ∃ d, transposeMutSquare [(a, n), (b, n)] n data = .ok (d, [(a, n), (b, n)]) ∧
      d.length = data.length := by
  by_cases h : a = b
  · subst h
    exact ⟨data, transposeMutSquare_dup a n data, rfl⟩
  · exact ⟨_, transposeMutSquare_distinct a b h n data, transposeSquare_length n data⟩

end Names

section CofRing
variable [Add α] [Sub α] [Mul α] [Zero α] [One α]

theorem cofactorLoop_congr (m1 m2 : Nat → Nat → Outcome (Option α)) (pairs : List (Nat × Nat))
    (acc : List α) (h : ∀ ij ∈ pairs, m1 ij.1 ij.2 = m2 ij.1 ij.2) :
    cofactorLoop m1 pairs acc = cofactorLoop m2 pairs acc := by
  induction pairs generalizing acc with
  | nil => rfl
  | cons ij rest ih =>
    obtain ⟨i, j⟩ := ij
    have h1 := h (i, j) (by simp)
    simp only at h1
    simp only [cofactorLoop, h1]
    split
    · rfl
    · rfl
    · exact ih _ (fun ij hij => h ij (by simp [hij]))


theorem cofactorMatrix_congr (n : Nat) (m1 m2 : Nat → Nat → Outcome (Option α))
    (h : ∀ i j, i < n → j < n → m1 i j = m2 i j) : cofactorMatrix n m1 = cofactorMatrix n m2 := by
  unfold cofactorMatrix
  exact cofactorLoop_congr m1 m2 _ _ (fun ij hij => h _ _ (mem_indexPairs n n ij hij).1
    (mem_indexPairs n n ij hij).2)

theorem cofactorMatrix_ok (n : Nat) (minor : Nat → Nat → Outcome (Option α)) (f : Nat → Nat → α)
    (h : ∀ i j, i < n → j < n → minor i j = .ok (some (f i j))) :
    cofactorMatrix n minor
      = .ok (some ((indexPairs n n).map fun ij => cofactorSign ij.1 ij.2 * f ij.1 ij.2)) := by
  unfold cofactorMatrix
  rw [cofactorLoop_ok minor f _ _ (fun ij hij => h _ _ (mem_indexPairs n n ij hij).1
    (mem_indexPairs n n ij hij).2)]
  simp

end CofRing

section Inv
variable [Add α] [Sub α] [Mul α] [Div α] [Zero α] [One α] [NumOrd α]

/-- transposing and scaling a buffer given entry by entry -/
theorem scaled_transposed (n : Nat) (det : α) (g : Nat × Nat → α) :
    scaleByReciprocal det (transposeSquare n ((indexPairs n n).map g))
      = (indexPairs n n).map fun ij => g (ij.2, ij.1) * (1 / det) := by
  unfold scaleByReciprocal
  rw [transposeSquare_spec n _ (by rw [List.length_map, indexPairs_length]), List.map_map]
  apply List.map_congr_left
  intro ij hij
  obtain ⟨h1, h2⟩ := mem_indexPairs n n ij hij
  simp only [Function.comp_apply]
  rw [getD_map_indexPairs n _ ij.2 ij.1 h2 h1]

/-- `Matrix::inverse` is `inverse_tensor` of the matrix seen as a view (under any two different
    dimension names), repackaged as a matrix: all sizes, any element type. -/
theorem inverse_eq_inverseTensor {ν : Type} [DecidableEq ν] [Inhabited ν] (names : ν × ν)
    (hne : names.1 ≠ names.2) (m : Matrix α) (hinv : m.Inv) :
    inverse m = match inverseTensor names (viewOfMatrix m) with
      | .panic k => .panic k
      | .ok none => .ok none
      | .ok (some t) => .ok (some ⟨t.data, m.rows, m.columns⟩) := by
  unfold inverse inverseTensor
  have hv1 : (viewOfMatrix m).rows = m.rows := rfl
  have hv2 : (viewOfMatrix m).cols = m.columns := rfl
  simp only [hv1, hv2]
  split
  · rfl
  · split
    · have : (viewOfMatrix m).get 0 0 = m.data.getD 0 0 := by simp [viewOfMatrix, Matrix.getIndex]
      rw [this]
      rename_i hsq h1
      have hr : m.rows = 1 := by simpa using h1
      have hc : m.columns = 1 := by
        have : m.rows = m.columns := by simpa using hsq
        omega
      split
      · rfl
      · simp [hr, hc]
    · rename_i hsq h1
      rw [determinant_eq_detView]
      cases hd : detView (viewOfMatrix m) with
      | none => rfl
      | some det =>
        simp only
        split
        · rfl
        · have hsq' : m.rows = m.columns := by simpa using hsq
          rw [cofactorMatrix_congr m.rows (fun i j => .ok (minorMatrix m i j))
            (minorTensor (viewOfMatrix m))
            (fun i j hi hj => (minor_agree m hinv i j hi (by omega)).symm)]
          cases cofactorMatrix m.rows (minorTensor (viewOfMatrix m)) with
          | panic k => rfl
          | ok o =>
            cases o with
            | none => rfl
            | some cof =>
              simp only
              rw [← hsq', transposeMutSquare_distinct names.1 names.2 hne m.rows cof]

end Inv
/-! ### Square views: the branches taken -/

section S
variable [Add α] [Sub α] [Mul α] [Zero α] [One α]

theorem detView_square (n : Nat) (g : Nat → Nat → α) :
    detView ⟨n, n, g⟩ = if n = 0 then none else if n = 1 then some (g 0 0)
      else some (detModel n g) := by
  rw [detView_eq]
  simp

theorem detView_nonsquare (v : View α) (h : v.rows ≠ v.cols) : detView v = none := by
  rw [detView_eq]; simp [h]

theorem maskView_square (n : Nat) (g : Nat → Nat → α) (i j : Nat) (hn : 2 ≤ n) (hi : i < n) (hj : j < n) :
    maskView ⟨n, n, g⟩ i j = some ⟨n - 1, n - 1, fun r c => g (maskIdx i 1 r) (maskIdx j 1 c)⟩ := by
  unfold maskView
  simp only [clipLen_one i _ hi, clipLen_one j _ hj]
  have : ¬ (n - 1 = 0) := by omega
  simp [this]

theorem minorTensor_square (n : Nat) (g : Nat → Nat → α) (i j : Nat) (hn : 2 ≤ n) (hi : i < n)
    (hj : j < n) :
    minorTensor ⟨n, n, g⟩ i j
      = .ok (detView ⟨n - 1, n - 1, fun r c => g (maskIdx i 1 r) (maskIdx j 1 c)⟩) := by
  unfold minorTensor
  have h1 : ((n == 1) || (n == 1)) = false := by simp; omega
  have h2 : (n != n) = false := by simp
  simp only [h1, h2, maskView_square n g i j hn hi hj]
  rfl
end S

section I
variable [Add α] [Sub α] [Mul α] [Div α] [Zero α] [One α] [NumOrd α]

theorem inverseTensor_nonsquare {ν : Type} [DecidableEq ν] [Inhabited ν] (names : ν × ν) (v : View α)
    (h : v.rows ≠ v.cols) : inverseTensor names v = .ok none := by
  unfold inverseTensor; simp [h]

theorem inverseTensor_one {ν : Type} [DecidableEq ν] [Inhabited ν] (names : ν × ν)
    (g : Nat → Nat → α) :
    inverseTensor names ⟨1, 1, g⟩ = if NumOrd.eq (g 0 0) (0 : α) = true then .ok none
      else .ok (some ⟨[1 / g 0 0], [(names.1, 1), (names.2, 1)],
        computeStrides [(names.1, 1), (names.2, 1)]⟩) := by
  unfold inverseTensor; simp

/-- the general branch, up to the call of `transpose_mut` (any names) -/
theorem inverseTensor_square' {ν : Type} [DecidableEq ν] [Inhabited ν] (names : ν × ν) (n : Nat)
    (hn : 2 ≤ n) (g : Nat → Nat → α) :
    inverseTensor names ⟨n, n, g⟩ = if NumOrd.eq (detModel n g) (0 : α) = true then .ok none
      else match cofactorMatrix n (minorTensor ⟨n, n, g⟩) with
        | .panic k => .panic k
        | .ok none => .ok none
        | .ok (some cofactors) =>
          match transposeMutSquare [(names.1, n), (names.2, n)] n cofactors with
          | .panic k => .panic k
          | .ok (transposed, newShape) =>
            .ok (some ⟨scaleByReciprocal (detModel n g) transposed, newShape,
              computeStrides newShape⟩) := by
  unfold inverseTensor
  have h1 : (n == 1) = false := by simp; omega
  have h2 : (n != n) = false := by simp
  have h3 : detView ⟨n, n, g⟩ = some (detModel n g) := by
    rw [detView_square]
    have : n ≠ 0 := by omega
    have : n ≠ 1 := by omega
    simp [*]
  simp only [h1, h2, h3]
  rfl

/-- the general branch for a tensor with two different dimension names -/
theorem inverseTensor_square {ν : Type} [DecidableEq ν] [Inhabited ν] (names : ν × ν)
    (hne : names.1 ≠ names.2) (n : Nat) (hn : 2 ≤ n) (g : Nat → Nat → α) :
    inverseTensor names ⟨n, n, g⟩ = if NumOrd.eq (detModel n g) (0 : α) = true then .ok none
      else match cofactorMatrix n (minorTensor ⟨n, n, g⟩) with
        | .panic k => .panic k
        | .ok none => .ok none
        | .ok (some cofactors) =>
          .ok (some ⟨scaleByReciprocal (detModel n g) (transposeSquare n cofactors),
            [(names.1, n), (names.2, n)], computeStrides [(names.1, n), (names.2, n)]⟩) := by
  rw [inverseTensor_square' names n hn g]
  split
  · rfl
  · cases cofactorMatrix n (minorTensor ⟨n, n, g⟩) with
    | panic k => rfl
    | ok o =>
      cases o with
      | none => rfl
      | some cof =>
        simp only
        rw [transposeMutSquare_distinct names.1 names.2 hne n cof]
end I
/-! ### Totality and shape of the result -/

section T
variable [Add α] [Sub α] [Mul α] [Div α] [Zero α] [One α] [NumOrd α]

theorem cofactorLoop_total (minor : Nat → Nat → Outcome (Option α)) (pairs : List (Nat × Nat))
    (acc : List α) (h : ∀ ij ∈ pairs, ∃ o, minor ij.1 ij.2 = .ok o) :
    ∃ o, cofactorLoop minor pairs acc = .ok o := by
  induction pairs generalizing acc with
  | nil => exact ⟨_, rfl⟩
  | cons ij rest ih =>
    obtain ⟨i, j⟩ := ij
    obtain ⟨o, ho⟩ := h (i, j) (by simp)
    simp only at ho
    simp only [cofactorLoop, ho]
    cases o with
    | none => exact ⟨_, rfl⟩
    | some x => exact ih _ (fun ij hij => h ij (by simp [hij]))

theorem cofactorLoop_length (minor : Nat → Nat → Outcome (Option α)) (pairs : List (Nat × Nat))
    (acc res : List α) (h : cofactorLoop minor pairs acc = .ok (some res)) :
    res.length = acc.length + pairs.length := by
  induction pairs generalizing acc with
  | nil =>
    simp only [cofactorLoop, Outcome.ok.injEq, Option.some.injEq] at h
    subst h; simp
  | cons ij rest ih =>
    obtain ⟨i, j⟩ := ij
    simp only [cofactorLoop] at h
    split at h
    · cases h
    · cases h
    · have := ih _ h
      simp only [List.length_append, List.length_cons, List.length_nil] at this ⊢
      omega

theorem cofactorMatrix_total (n : Nat) (minor : Nat → Nat → Outcome (Option α))
    (h : ∀ i j, i < n → j < n → ∃ o, minor i j = .ok o) : ∃ o, cofactorMatrix n minor = .ok o := by
  unfold cofactorMatrix
  exact cofactorLoop_total minor (indexPairs n n) []
    (fun ij hij => h _ _ (mem_indexPairs n n ij hij).1 (mem_indexPairs n n ij hij).2)

theorem cofactorMatrix_length (n : Nat) (minor : Nat → Nat → Outcome (Option α)) (res : List α)
    (h : cofactorMatrix n minor = .ok (some res)) : res.length = n * n := by
  unfold cofactorMatrix at h
  rw [cofactorLoop_length _ _ _ _ h, indexPairs_length]
  simp

theorem scaleByReciprocal_length (det : α) (l : List α) : (scaleByReciprocal det l).length = l.length := by
  simp [scaleByReciprocal]

/-- `inverse_tensor` never panics (the `expect` on the mask, the name lookup of `transpose_mut`
    and the other unwraps are dead): all sizes, any element type, any two names. -/
theorem inverseTensor_total {ν : Type} [DecidableEq ν] [Inhabited ν] (names : ν × ν) (v : View α) :
    ∃ o, inverseTensor names v = .ok o := by
  obtain ⟨n, c, g⟩ := v
  by_cases hsq : n = c
  · subst hsq
    by_cases h1 : n = 1
    · subst h1
      rw [inverseTensor_one]
      split <;> exact ⟨_, rfl⟩
    · by_cases h0 : n = 0
      · subst h0
        exact ⟨none, by simp [inverseTensor, detView_eq]⟩
      · rw [inverseTensor_square' names n (by omega) g]
        split
        · exact ⟨_, rfl⟩
        · obtain ⟨o, ho⟩ := cofactorMatrix_total n (minorTensor ⟨n, n, g⟩)
            (fun i j hi hj => ⟨_, minorTensor_square n g i j (by omega) hi hj⟩)
          rw [ho]
          cases o with
          | none => exact ⟨_, rfl⟩
          | some cof =>
            obtain ⟨d, hd, _⟩ := transposeMutSquare_any names.1 names.2 n cof
            simp only [hd]
            exact ⟨_, rfl⟩
  · exact ⟨none, inverseTensor_nonsquare names _ hsq⟩

/-- The result of `inverse_tensor` is a well-formed tensor with the input's shape — in particular
    its dimension names are the input's, in the same order (whatever the names are). -/
theorem inverseTensor_shape {ν : Type} [DecidableEq ν] [Inhabited ν] (names : ν × ν) (v : View α)
    (t : Tensor ν α) (h : inverseTensor names v = .ok (some t)) :
    t.shape = [(names.1, v.rows), (names.2, v.cols)] ∧ t.strides = computeStrides t.shape ∧
      t.data.length = v.rows * v.cols := by
  obtain ⟨n, c, g⟩ := v
  by_cases hsq : n = c
  · subst hsq
    by_cases h1 : n = 1
    · subst h1
      rw [inverseTensor_one] at h
      split at h
      · cases h
      · simp only [Outcome.ok.injEq, Option.some.injEq] at h
        subst h
        exact ⟨rfl, rfl, rfl⟩
    · by_cases h0 : n = 0
      · subst h0
        simp [inverseTensor, detView_eq] at h
      · rw [inverseTensor_square' names n (by omega) g] at h
        split at h
        · cases h
        · cases hc : cofactorMatrix n (minorTensor ⟨n, n, g⟩) with
          | panic k => rw [hc] at h; cases h
          | ok o =>
            cases o with
            | none => rw [hc] at h; cases h
            | some cof =>
              rw [hc] at h
              obtain ⟨d, hd, hlen⟩ := transposeMutSquare_any names.1 names.2 n cof
              simp only [hd, Outcome.ok.injEq, Option.some.injEq] at h
              subst h
              refine ⟨rfl, rfl, ?_⟩
              simp only
              rw [scaleByReciprocal_length, hlen, cofactorMatrix_length n _ _ hc]
  · rw [inverseTensor_nonsquare names _ hsq] at h
    cases h

end T
/-! ### Determinant and inverse depend on the input only through (rows, columns, cells) -/

section ViewCongr
variable [Add α] [Sub α] [Mul α] [Div α] [Zero α] [One α] [NumOrd α]

theorem maskIdx_lt (i r n : Nat) (hr : r < n - 1) : maskIdx i 1 r < n := by
  unfold maskIdx; split <;> omega

theorem minorTensor_congr (n : Nat) (g1 g2 : Nat → Nat → α)
    (h : ∀ r c, r < n → c < n → g1 r c = g2 r c) (hn : 2 ≤ n) (i j : Nat) (hi : i < n) (hj : j < n) :
    minorTensor ⟨n, n, g1⟩ i j = minorTensor ⟨n, n, g2⟩ i j := by
  rw [minorTensor_square n g1 i j hn hi hj, minorTensor_square n g2 i j hn hi hj]
  congr 1
  apply detView_congr
  intro r c hr hc
  exact h _ _ (maskIdx_lt i r n hr) (maskIdx_lt j c n hc)

/-- `determinant_less_generic` sees its input only through its two lengths and the cells inside
    them: two sources of the same size with the same cells have the same determinant. -/
theorem detView_view_congr (v w : View α) (hr : v.rows = w.rows) (hc : v.cols = w.cols)
    (hcell : ∀ r c, r < v.rows → c < v.cols → v.get r c = w.get r c) : detView v = detView w := by
  obtain ⟨n, c, g⟩ := v
  obtain ⟨n', c', g'⟩ := w
  simp only at hr hc hcell
  subst hr hc
  by_cases hsq : n = c
  · subst hsq
    exact detView_congr n g g' hcell
  · rw [detView_nonsquare _ hsq, detView_nonsquare _ hsq]

/-- … and the same inverse (same presence, same buffer, same shape). -/
theorem inverseTensor_congr {ν : Type} [DecidableEq ν] [Inhabited ν] (names : ν × ν) (v w : View α)
    (hr : v.rows = w.rows) (hc : v.cols = w.cols)
    (hcell : ∀ r c, r < v.rows → c < v.cols → v.get r c = w.get r c) :
    inverseTensor names v = inverseTensor names w := by
  obtain ⟨n, c, g⟩ := v
  obtain ⟨n', c', g'⟩ := w
  simp only at hr hc hcell
  subst hr hc
  by_cases hsq : n = c
  · subst hsq
    by_cases h1 : n = 1
    · subst h1
      rw [inverseTensor_one, inverseTensor_one, hcell 0 0 (by omega) (by omega)]
    · by_cases h0 : n = 0
      · subst h0
        simp [inverseTensor, detView_eq]
      · rw [inverseTensor_square' names n (by omega) g, inverseTensor_square' names n (by omega) g',
          detModel_congr n g g' hcell,
          cofactorMatrix_congr n (minorTensor ⟨n, n, g⟩) (minorTensor ⟨n, n, g'⟩)
            (fun i j hi hj => minorTensor_congr n g g' hcell (by omega) i j hi hj)]
  · rw [inverseTensor_nonsquare names _ hsq, inverseTensor_nonsquare names _ hsq]

end ViewCongr

/-! ### Constructed tensors and matrices: what the constructors guarantee -/

section Constructed
variable {ν : Type} [DecidableEq ν]

theorem elements_pair (a b : ν) (r c : Nat) : elements [(a, r), (b, c)] = r * c := by
  simp [elements, prod]

/-- what `Tensor::from` / `try_from` accepts for a two-dimensional shape -/
theorem tryFrom_pair_iff (a b : ν) (r c : Nat) (data : List α) (t : Tensor ν α) :
    Tensor.tryFrom [(a, r), (b, c)] data = some t ↔
      (a ≠ b ∧ 1 ≤ r ∧ 1 ≤ c ∧ data.length = r * c ∧
        t = ⟨data, [(a, r), (b, c)], computeStrides [(a, r), (b, c)]⟩) := by
  unfold Tensor.tryFrom validateDimensions
  rw [elements_pair]
  simp only [List.map_cons, List.map_nil, hasDuplicates, List.contains_cons, List.contains_nil,
    Bool.or_false, List.any_cons, List.any_nil]
  constructor
  · intro h
    split at h
    · cases h
    · rename_i hv
      split at hv
      · cases hv
      · split at hv
        · cases hv
        · split at hv
          · cases hv
          · rename_i h1 h2 h3
            simp only [Option.some.injEq] at h
            refine ⟨?_, ?_, ?_, ?_, h.symm⟩
            · intro e; apply h2; simp [e]
            · rcases Nat.eq_zero_or_pos r with h0 | h0
              · exfalso; apply h3; simp [h0]
              · exact h0
            · rcases Nat.eq_zero_or_pos c with h0 | h0
              · exfalso; apply h3; simp [h0]
              · exact h0
            · exact Decidable.of_not_not h1
  · rintro ⟨hne, hr, hc, hlen, rfl⟩
    have h2 : ¬ ((b == a) = true) := by simp; exact fun e => hne e.symm
    have hr0 : ¬ (r = 0) := by omega
    have hc0 : ¬ (c = 0) := by omega
    simp [hlen, h2, hr0, hc0, hne]

/-- `Matrix::from_flat_row_major` establishes the matrix invariant -/
theorem fromFlatRowMajor_inv (rows cols : Nat) (values : List α) (m : Matrix α)
    (h : Matrix.fromFlatRowMajor rows cols values = some m) :
    m.Inv ∧ m.rows = rows ∧ m.columns = cols ∧ m.data = values := by
  unfold Matrix.fromFlatRowMajor at h
  split at h
  · rename_i hc
    simp only [Option.some.injEq] at h
    subst h
    refine ⟨⟨hc.1.symm, ?_, ?_⟩, rfl, rfl, rfl⟩
    · rcases Nat.eq_zero_or_pos rows with h0 | h0
      · exfalso; apply hc.2; apply List.eq_nil_of_length_eq_zero; rw [← hc.1, h0, Nat.zero_mul]
      · exact h0
    · rcases Nat.eq_zero_or_pos cols with h0 | h0
      · exfalso; apply hc.2; apply List.eq_nil_of_length_eq_zero; rw [← hc.1, h0, Nat.mul_zero]
      · exact h0
  · cases h

end Constructed

section Canonical
variable [Add α] [Sub α] [Mul α] [Div α] [Zero α] [One α] [NumOrd α]
variable {ν : Type} [DecidableEq ν] [Inhabited ν]

/-- the tensor returned by `inverse_tensor` is exactly what `Tensor::from(shape, buffer)` builds
    from the input's shape and the returned buffer: canonical row-major form -/
theorem inverseTensor_canonical (names : ν × ν) (hne : names.1 ≠ names.2) (v : View α)
    (h1 : 1 ≤ v.rows) (t : Tensor ν α) (h : inverseTensor names v = .ok (some t)) :
    v.rows = v.cols ∧
      Tensor.tryFrom [(names.1, v.rows), (names.2, v.cols)] t.data = some t := by
  have hsq : v.rows = v.cols := by
    rcases Nat.decEq v.rows v.cols with hne' | he
    · rw [inverseTensor_nonsquare names v hne'] at h; cases h
    · exact he
  obtain ⟨hs, hst, hl⟩ := inverseTensor_shape names v t h
  refine ⟨hsq, ?_⟩
  rw [tryFrom_pair_iff]
  refine ⟨hne, h1, by omega, hl, ?_⟩
  cases t with
  | mk d sh st =>
    simp only at hs hst
    subst hs
    subst hst
    rfl

end Canonical

end EasyMl.Det
