/-
  EasyMl.Lemmas.FallibleExpansion — totality of the checked getter of `TensorExpansion`: the two
  loops (`view_shape` and `compute_expansion_indexes_*`) walk the same positions; neither can
  index out of range when the extra dimensions are sorted and inserted at positions `≤ D`.
-/
import EasyMl.Lemmas.Fallible
import Batteries.Data.List.Perm

namespace EasyMl.Fallible
open EasyMl.Spec

set_option linter.unusedSectionVars false
set_option linter.unusedVariables false

variable {ν : Type} [DecidableEq ν]

theorem one_le_usizeMax : 1 ≤ usizeMax := by decide

theorem take_set_self {α : Type} (l : List α) (i : Nat) (v : α) : (l.set i v).take i = l.take i := by
  induction l generalizing i with
  | nil => simp
  | cons a as ih =>
    cases i with
    | zero => simp
    | succ i => simp [ih]

theorem drop_eq_cons {α : Type} (l : List α) (i : Nat) (h : i < l.length) :
    l.drop i = l[i] :: l.drop (i + 1) := List.drop_eq_getElem_cons h

/-- if two lists agree on their first `i + 1` entries they agree on the first `i` and at `i` -/
theorem take_succ_eq {α : Type} {u w : List α} {i : Nat} (h : u.take (i + 1) = w.take (i + 1)) :
    u.take i = w.take i ∧ u[i]? = w[i]? := by
  constructor
  · have := congrArg (List.take i) h
    simpa [List.take_take, Nat.min_eq_left (Nat.le_succ i)] using this
  · have := congrArg (fun l => l[i]?) h
    simpa [List.getElem?_take] using this

/-- The joint walk of the two loops of `TensorExpansion` from source position `i` with `n`
    positions of the view left. -/
theorem expansion_spec (shape : Shape ν) (n : Nat) :
    ∀ (extra : List (Nat × ν)) (i : Nat) (idx used : List Nat),
      idx.length = n → used.length = shape.length →
      extra.length ≤ n → i + (n - extra.length) = shape.length →
      (∀ e ∈ extra, i ≤ e.1 ∧ e.1 ≤ shape.length) → extra.Pairwise (fun a b => a.1 ≤ b.1) →
      ∃ vs, expansionShape extra shape i n = .ok vs ∧
        vs.Perm (shape.drop i ++ extra.map (fun e => (e.2, 1))) ∧
        ∃ x, expansionIndexes extra idx i used = .ok x ∧
          match x with
          | none => inBounds (vs.map (·.2)) idx = false
          | some u => u.length = shape.length ∧ u.take i = used.take i ∧
              inBounds (vs.map (·.2)) idx = inBounds ((shape.map (·.2)).drop i) (u.drop i) := by
  induction n with
  | zero =>
    intro extra i idx used hidx hused hel hcount hpos hsorted
    have hnil : extra = [] := by
      cases extra with
      | nil => rfl
      | cons _ _ => simp at hel
    subst hnil
    have hi : i = shape.length := by simpa using hcount
    have hidx' : idx = [] := by
      cases idx with
      | nil => rfl
      | cons _ _ => simp at hidx
    subst hidx' hi
    refine ⟨[], by simp [expansionShape], by simp, some used, by simp [expansionIndexes], hused, rfl, ?_⟩
    have h1 : (shape.map (·.2)).drop shape.length = [] := by simp
    have h2 : used.drop shape.length = [] := by simp [← hused]
    rw [h1, h2]; rfl
  | succ n ih =>
    intro extra i idx used hidx hused hel hcount hpos hsorted
    obtain ⟨index, rest, rfl⟩ : ∃ a r, idx = a :: r := by
      cases idx with
      | nil => simp at hidx
      | cons a r => exact ⟨a, r, rfl⟩
    have hrest : rest.length = n := by simpa using hidx
    -- the step that consumes a real dimension of the source
    have regular : ∀ (extra : List (Nat × ν)), extra.length ≤ n → ∀ hi : i < shape.length,
        i + 1 + (n - extra.length) = shape.length →
        (∀ e ∈ extra, i + 1 ≤ e.1 ∧ e.1 ≤ shape.length) →
        extra.Pairwise (fun a b => a.1 ≤ b.1) →
        ∃ vs' x, expansionShape extra shape (i + 1) n = .ok vs' ∧
          expansionIndexes extra rest (i + 1) (used.set i index) = .ok x ∧
          (shape[i] :: vs').Perm (shape.drop i ++ extra.map (fun e => (e.2, 1))) ∧
            match x with
            | none => inBounds ((shape[i] :: vs').map (·.2)) (index :: rest) = false
            | some u => u.length = shape.length ∧ u.take i = used.take i ∧
                inBounds ((shape[i] :: vs').map (·.2)) (index :: rest) =
                  inBounds ((shape.map (·.2)).drop i) (u.drop i) := by
      intro extra hel' hi hcount' hpos' hsorted'
      have hiu : i < used.length := by omega
      obtain ⟨vs', hvs', hperm', x, hx, hspec⟩ :=
        ih extra (i + 1) rest (used.set i index) hrest (by simp [hused]) hel' hcount' hpos' hsorted'
      refine ⟨vs', x, hvs', hx, ?_, ?_⟩
      · rw [drop_eq_cons shape i hi]
        exact List.Perm.cons _ hperm'
      · have hlens : (shape.map (·.2)).drop i = (shape[i]).2 :: (shape.map (·.2)).drop (i + 1) := by
          rw [drop_eq_cons _ i (by simpa using hi)]; simp
        cases x with
        | none =>
          simp only at hspec ⊢
          simp [inBounds, hspec]
        | some u =>
          simp only at hspec ⊢
          obtain ⟨hul, htake, hin⟩ := hspec
          obtain ⟨ht, hg⟩ := take_succ_eq htake
          rw [take_set_self] at ht
          have hui : u[i]? = some index := by
            rw [hg]; simp [hiu]
          have hiu' : i < u.length := by omega
          have hdrop : u.drop i = index :: u.drop (i + 1) := by
            rw [drop_eq_cons u i hiu']
            have : u[i] = index := by
              have := List.getElem?_eq_getElem hiu'
              rw [hui] at this; simpa using this.symm
            rw [this]
          refine ⟨hul, ht, ?_⟩
          rw [hlens, hdrop]
          simp [inBounds, hin]
    cases extra with
    | nil =>
      have hi : i < shape.length := by simp at hcount; omega
      have hiu : i < used.length := by omega
      obtain ⟨vs', x, h1, h3, h2, h4⟩ := regular [] (by simp) hi (by simp at hcount ⊢; omega)
        (by simp) (by simp)
      exact ⟨shape[i] :: vs', by simp [expansionShape, idxC_ok hi, h1], h2, x,
        by simp [expansionIndexes, setC_ok hiu, h3], h4⟩
    | cons e es =>
      obtain ⟨j, nm⟩ := e
      have hj := hpos (j, nm) (by simp)
      simp only [List.length_cons] at hel hcount
      have hsorted' : es.Pairwise (fun a b => a.1 ≤ b.1) := (List.pairwise_cons.mp hsorted).2
      have hhead : ∀ e ∈ es, j ≤ e.1 := (List.pairwise_cons.mp hsorted).1
      by_cases hji : j = i
      · -- an extra dimension of length one at this position
        subst hji
        obtain ⟨vs', hvs', hperm', x, hx, hspec⟩ :=
          ih es j rest used hrest hused (by omega) (by omega)
            (fun e he => ⟨hhead e he, (hpos e (by simp [he])).2⟩) hsorted'
        refine ⟨(nm, 1) :: vs', by simp [expansionShape, hvs'], ?_, ?_⟩
        · have : (shape.drop j ++ List.map (fun e : Nat × ν => (e.2, 1)) ((j, nm) :: es)).Perm
              ((nm, 1) :: (shape.drop j ++ es.map (fun e : Nat × ν => (e.2, 1)))) := by
            simpa using (List.perm_middle (a := (nm, 1)) (l₁ := shape.drop j)
              (l₂ := es.map (fun e : Nat × ν => (e.2, 1))))
          exact (List.Perm.cons _ hperm').trans this.symm
        · by_cases h0 : index = 0
          · subst h0
            refine ⟨x, by simp [expansionIndexes, hx], ?_⟩
            cases x with
            | none => simp only at hspec ⊢; simp [inBounds, hspec]
            | some u =>
              simp only at hspec ⊢
              refine ⟨hspec.1, hspec.2.1, ?_⟩
              simp [inBounds, hspec.2.2]
          · refine ⟨none, by simp [expansionIndexes, h0], ?_⟩
            simp only [List.map_cons, inBounds]
            have : ¬ index < 1 := by omega
            simp [this]
      · have hi : i < shape.length := by omega
        have hiu : i < used.length := by omega
        obtain ⟨vs', x, h1, h3, h2, h4⟩ := regular ((j, nm) :: es) (by simp; omega) hi
          (by simp; omega)
          (by
            intro e he
            simp only [List.mem_cons] at he
            rcases he with rfl | he
            · exact ⟨by omega, hj.2⟩
            · exact ⟨by have := hhead e he; omega, (hpos e (by simp [he])).2⟩)
          hsorted
        exact ⟨shape[i] :: vs', by simp [expansionShape, hji, idxC_ok hi, h1], h2, x,
          by simp [expansionIndexes, hji, setC_ok hiu, h3], h4⟩

/-! #### the stable sort -/

theorem insertByPos_perm (x : Nat × ν) (l : List (Nat × ν)) : (insertByPos x l).Perm (x :: l) := by
  induction l with
  | nil => simp [insertByPos]
  | cons y ys ih =>
    simp only [insertByPos]
    split
    · exact List.Perm.refl _
    · exact (List.Perm.cons y ih).trans (List.Perm.swap x y ys)

theorem sortByPos_perm (l : List (Nat × ν)) : (sortByPos l).Perm l := by
  induction l with
  | nil => simp [sortByPos]
  | cons x xs ih => exact (insertByPos_perm x _).trans (List.Perm.cons x ih)

theorem insertByPos_sorted (x : Nat × ν) (l : List (Nat × ν))
    (h : l.Pairwise (fun a b => a.1 ≤ b.1)) : (insertByPos x l).Pairwise (fun a b => a.1 ≤ b.1) := by
  induction l with
  | nil => simp [insertByPos]
  | cons y ys ih =>
    simp only [insertByPos]
    obtain ⟨hy, hys⟩ := List.pairwise_cons.mp h
    split
    · rename_i hxy
      refine List.pairwise_cons.mpr ⟨?_, h⟩
      intro z hz
      simp only [List.mem_cons] at hz
      rcases hz with rfl | hz
      · exact hxy
      · exact Nat.le_trans hxy (hy z hz)
    · rename_i hxy
      refine List.pairwise_cons.mpr ⟨?_, ih hys⟩
      intro z hz
      have := (insertByPos_perm x ys).subset hz
      simp only [List.mem_cons] at this
      rcases this with rfl | hz'
      · omega
      · exact hy z hz'

theorem sortByPos_sorted (l : List (Nat × ν)) : (sortByPos l).Pairwise (fun a b => a.1 ≤ b.1) := by
  induction l with
  | nil => simp [sortByPos]
  | cons x xs ih => exact insertByPos_sorted x _ ih

/-- A `TensorExpansion` over a total source, with extra dimensions at positions `≤ D` under new,
    distinct names: construction does not panic and the view is total (its extra coordinates
    must be 0). -/
theorem expansion_wf (src : TView ν) (hsrc : src.WF) (extra : List (Nat × ν))
    (hpos : ∀ e ∈ extra, e.1 ≤ src.shape.length)
    (hnames : (src.shape.map (·.1) ++ extra.map (·.2)).Nodup) :
    ∃ v, src.expansion extra = .ok v ∧ v.WF ∧
      v.shape.Perm (src.shape ++ extra.map fun e => (e.2, 1)) := by
  have hperm := sortByPos_perm extra
  have hsl : (sortByPos extra).length = extra.length := hperm.length_eq
  have hpos' : ∀ e ∈ sortByPos extra, 0 ≤ e.1 ∧ e.1 ≤ src.shape.length :=
    fun e he => ⟨Nat.zero_le _, hpos e (hperm.subset he)⟩
  obtain ⟨vs, hvs, hvperm, _⟩ := expansion_spec src.shape (src.shape.length + extra.length)
    (sortByPos extra) 0 (List.replicate (src.shape.length + extra.length) 0)
    (List.replicate src.shape.length 0) (by simp) (by simp) (by omega) (by omega) hpos'
    (sortByPos_sorted extra)
  simp only [TView.expansion, hvs]
  have hvperm' : vs.Perm (src.shape ++ extra.map fun e => (e.2, 1)) := by
    simp only [List.drop_zero] at hvperm
    exact hvperm.trans (List.Perm.append_left _ (hperm.map _))
  refine ⟨_, rfl, ⟨⟨?_, ?_⟩, ?_⟩, hvperm'⟩
  · have := hvperm'.map (·.1)
    rw [this.nodup_iff]
    simp only [List.map_append, List.map_map]
    exact hnames
  · intro d hd
    have := hvperm'.subset hd
    simp only [List.mem_append, List.mem_map] at this
    rcases this with hd' | ⟨e, _, rfl⟩
    · exact hsrc.1.2 d hd'
    · exact ⟨Nat.le_refl 1, one_le_usizeMax⟩
  · intro idx hidx
    simp only at hidx ⊢
    have hlen : idx.length = src.shape.length + extra.length := by
      rw [hidx, hvperm'.length_eq]; simp
    obtain ⟨vs', hvs', _, x, hx, hspec⟩ := expansion_spec src.shape (src.shape.length + extra.length)
      (sortByPos extra) 0 idx (List.replicate src.shape.length 0) hlen (by simp) (by omega)
      (by omega) hpos' (sortByPos_sorted extra)
    rw [hvs] at hvs'
    simp only [Outcome.ok.injEq] at hvs'
    subst hvs'
    rw [hx]
    cases x with
    | none => simp only at hspec; exact ⟨none, rfl, by simp [hspec]⟩
    | some u =>
      simp only at hspec
      obtain ⟨r, hr, hsome⟩ := hsrc.2 u hspec.1
      refine ⟨r, hr, ?_⟩
      rw [hsome, hspec.2.2]
      simp

end EasyMl.Fallible
