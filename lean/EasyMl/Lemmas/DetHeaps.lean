/-
  EasyMl.Lemmas.DetHeaps — core-Lean lemmas about the model of Heap's algorithm:

  * `heapsPure`: the list of emitted arrangements as a pure function, and the fusion lemma
    `heaps_eq` (running `heaps` with any consumer is folding the consumer over that list);
  * `generatePermutations_eq`, `withEach_eq`: what `determinant_less_generic` computes is a left
    fold over `generatePermutations`;
  * `heapsPure_inv`: every invariant of lists preserved by `swap` holds of every emitted list;
  * the cheap kernel-checkable table test `tableOK` (swap chain + sorted codes) and its meaning.

  No Mathlib here.
-/
import EasyMl.Model.Heaps

namespace EasyMl.Det

variable {α σ : Type}

/-! ### The emitted lists as a pure function -/

def loopPure (rec : List α → List α × List (List α)) (k : Nat) :
    Nat → Nat → List α → List α × List (List α)
  | 0, _, l => (l, [])
  | fuel + 1, i, l =>
    ((loopPure rec k fuel (i + 1) (heapsSwap k i (rec l).1)).1,
     (rec l).2 ++ (loopPure rec k fuel (i + 1) (heapsSwap k i (rec l).1)).2)

/-- final list and emitted lists of `heaps_permutations(k, list, ·)` -/
def heapsPure : Nat → List α → List α × List (List α)
  | 0, l => (l, [])
  | 1, l => (l, [l])
  | k + 2, l => loopPure (heapsPure (k + 1)) (k + 2) (k + 2) 0 l

theorem heapsLoop_eq (c : σ → List α → σ) (rec : List α → σ → List α × σ)
    (recP : List α → List α × List (List α))
    (hrec : ∀ l s, rec l s = ((recP l).1, (recP l).2.foldl c s)) (k fuel i : Nat) (l : List α) (s : σ) :
    heapsLoop rec k fuel i l s
      = ((loopPure recP k fuel i l).1, (loopPure recP k fuel i l).2.foldl c s) := by
  induction fuel generalizing i l s with
  | zero => simp [heapsLoop, loopPure]
  | succ f ih =>
    simp only [heapsLoop, loopPure, hrec, ih, List.foldl_append]

/-- Fusion: running Heap's algorithm with a consumer folds the consumer over the emitted lists. -/
theorem heaps_eq (c : σ → List α → σ) (k : Nat) (l : List α) (s : σ) :
    heaps c k l s = ((heapsPure k l).1, (heapsPure k l).2.foldl c s) := by
  induction k generalizing l s with
  | zero => simp [heaps, heapsPure]
  | succ k ih =>
    cases k with
    | zero => simp [heaps, heapsPure]
    | succ k =>
      simp only [heaps, heapsPure]
      exact heapsLoop_eq c _ _ (fun l s => ih l s) _ _ _ _ _

/-- the alternating `even_swaps` flag attached to a list of emissions -/
def flagged : Bool → List (List α) → List (List α × Bool)
  | _, [] => []
  | e, p :: ps => (p, e) :: flagged (!e) ps

theorem foldl_flag (c : σ → List α → Bool → σ) (ps : List (List α)) (e : Bool) (st : σ) :
    (ps.foldl (fun (s : Bool × σ) p => (!s.1, c s.2 p s.1)) (e, st)).2
      = (flagged e ps).foldl (fun s pe => c s pe.1 pe.2) st := by
  induction ps generalizing e st with
  | nil => rfl
  | cons p ps ih => simp only [List.foldl_cons, flagged, ih]

theorem foldl_push (l : List (List α × Bool)) (acc : List (List α × Bool)) :
    l.foldl (fun acc pe => acc ++ [(pe.1, pe.2)]) acc = acc ++ l := by
  induction l generalizing acc with
  | nil => simp
  | cons x xs ih => simp [ih]

theorem generatePermutations_eq (l : List α) :
    generatePermutations l = flagged true (heapsPure l.length l).2 := by
  simp only [generatePermutations, withEachPermutation, heaps_eq]
  rw [foldl_flag (fun acc p e => acc ++ [(p, e)])]
  simpa using foldl_push (flagged true (heapsPure l.length l).2) []

/-- What `with_each_permutation` leaves in the consumer's state is the left fold of the consumer
    over `generate_permutations`. -/
theorem withEach_eq (l : List α) (st : σ) (c : σ → List α → Bool → σ) :
    (withEachPermutation l st c).2
      = (generatePermutations l).foldl (fun s pe => c s pe.1 pe.2) st := by
  rw [generatePermutations_eq]
  simp only [withEachPermutation, heaps_eq]
  exact foldl_flag c _ _ _

theorem flagged_map_fst (e : Bool) (ps : List (List α)) : (flagged e ps).map (·.1) = ps := by
  induction ps generalizing e with
  | nil => rfl
  | cons p ps ih => simp [flagged, ih]

theorem flagged_length (e : Bool) (ps : List (List α)) : (flagged e ps).length = ps.length := by
  induction ps generalizing e with
  | nil => rfl
  | cons p ps ih => simp [flagged, ih]

/-! ### Invariants of the emitted lists -/

theorem loopPure_inv (P : List α → Prop) (hswap : ∀ l i j, P l → P (swap l i j))
    (recP : List α → List α × List (List α))
    (hrec : ∀ l, P l → P (recP l).1 ∧ ∀ p ∈ (recP l).2, P p) (k fuel i : Nat) (l : List α)
    (hl : P l) :
    P (loopPure recP k fuel i l).1 ∧ ∀ p ∈ (loopPure recP k fuel i l).2, P p := by
  induction fuel generalizing i l with
  | zero => simp [loopPure, hl]
  | succ f ih =>
    simp only [loopPure]
    have h1 := hrec l hl
    have h2 : P (heapsSwap k i (recP l).1) := by
      unfold heapsSwap
      split
      · split <;> exact hswap _ _ _ h1.1
      · exact h1.1
    have h3 := ih (i + 1) _ h2
    refine ⟨h3.1, ?_⟩
    intro p hp
    rcases List.mem_append.mp hp with hp | hp
    · exact h1.2 p hp
    · exact h3.2 p hp

/-- Every property of lists preserved by `swap` holds of the final list and of every emission. -/
theorem heapsPure_inv (P : List α → Prop) (hswap : ∀ l i j, P l → P (swap l i j)) (k : Nat)
    (l : List α) (hl : P l) :
    P (heapsPure k l).1 ∧ ∀ p ∈ (heapsPure k l).2, P p := by
  induction k generalizing l with
  | zero => simp [heapsPure, hl]
  | succ k ih =>
    cases k with
    | zero => simp [heapsPure, hl]
    | succ k =>
      simp only [heapsPure]
      exact loopPure_inv P hswap _ (fun l hl => ih l hl) _ _ _ _ hl

theorem swap_length (l : List α) (i j : Nat) : (swap l i j).length = l.length := by
  unfold swap; split <;> simp

theorem mem_of_mem_swap (l : List α) (i j : Nat) (x : α) (h : x ∈ swap l i j) : x ∈ l := by
  unfold swap at h
  split at h
  · rename_i a b ha hb
    rcases List.mem_or_eq_of_mem_set h with h | h
    · rcases List.mem_or_eq_of_mem_set h with h | h
      · exact h
      · subst h; exact List.mem_of_getElem? hb
    · subst h; exact List.mem_of_getElem? ha
  · exact h

/-- every emitted list of `generatePermutations (range n)` has length `n` and entries `< n` -/
theorem generatePermutations_range_inv (n : Nat) (pe : List Nat × Bool)
    (h : pe ∈ generatePermutations (List.range n)) :
    pe.1.length = n ∧ ∀ x ∈ pe.1, x < n := by
  have hinv := (heapsPure_inv (fun l : List Nat => l.length = n ∧ ∀ x ∈ l, x < n)
    (fun l i j hl => ⟨by rw [swap_length]; exact hl.1,
      fun x hx => hl.2 x (mem_of_mem_swap l i j x hx)⟩)
    n (List.range n) ⟨by simp, fun x hx => by simpa using hx⟩).2
  rw [generatePermutations_eq] at h
  have : pe.1 ∈ (flagged true (heapsPure (List.range n).length (List.range n)).2).map (·.1) :=
    List.mem_map_of_mem h
  rw [flagged_map_fst] at this
  simp only [List.length_range] at this
  exact hinv _ this

/-! ### A cheap sort (fuelled bottom-up merge sort) — only `Perm` is needed of it -/

def mergeF : Nat → List Nat → List Nat → List Nat
  | 0, xs, ys => xs ++ ys
  | _ + 1, [], ys => ys
  | _ + 1, x :: xs, [] => x :: xs
  | f + 1, x :: xs, y :: ys =>
    if x ≤ y then x :: mergeF f xs (y :: ys) else y :: mergeF f (x :: xs) ys

def mergePairs : List (List Nat) → List (List Nat)
  | a :: b :: rest => mergeF (a.length + b.length) a b :: mergePairs rest
  | l => l

def mergeAll : Nat → List (List Nat) → List (List Nat)
  | 0, ls => ls
  | f + 1, ls => mergeAll f (mergePairs ls)

def sortF (l : List Nat) : List Nat := (mergeAll l.length (l.map fun x => [x])).flatten

theorem mergeF_perm (f : Nat) (xs ys : List Nat) : (mergeF f xs ys).Perm (xs ++ ys) := by
  induction f generalizing xs ys with
  | zero => simp [mergeF]
  | succ f ih =>
    cases xs with
    | nil => simp [mergeF]
    | cons x xs =>
      cases ys with
      | nil => simp [mergeF]
      | cons y ys =>
        simp only [mergeF]
        split
        · exact (ih xs (y :: ys)).cons x
        · refine ((ih (x :: xs) ys).cons y).trans ?_
          exact (List.perm_middle (l₁ := x :: xs) (l₂ := ys) (a := y)).symm

theorem mergePairs_perm : ∀ ls : List (List Nat), (mergePairs ls).flatten.Perm ls.flatten
  | [] => by simp [mergePairs]
  | [a] => by simp [mergePairs]
  | a :: b :: rest => by
    simp only [mergePairs, List.flatten_cons]
    rw [← List.append_assoc]
    exact (mergeF_perm _ a b).append (mergePairs_perm rest)

theorem mergeAll_perm (f : Nat) (ls : List (List Nat)) : (mergeAll f ls).flatten.Perm ls.flatten := by
  induction f generalizing ls with
  | zero => simp [mergeAll]
  | succ f ih => exact (ih _).trans (mergePairs_perm ls)

theorem sortF_perm (l : List Nat) : (sortF l).Perm l := by
  unfold sortF
  refine (mergeAll_perm _ _).trans ?_
  have : (l.map fun x => [x]).flatten = l := by
    induction l with
    | nil => rfl
    | cons x xs ih => simp [ih]
  rw [this]

def strictInc : List Nat → Bool
  | a :: b :: rest => decide (a < b) && strictInc (b :: rest)
  | _ => true

theorem strictInc_pairwise : ∀ l : List Nat, strictInc l = true → l.Pairwise (· < ·)
  | [], _ => List.Pairwise.nil
  | [a], _ => by simp
  | a :: b :: rest, h => by
    simp only [strictInc, Bool.and_eq_true, decide_eq_true_eq] at h
    have ih := strictInc_pairwise (b :: rest) h.2
    refine List.Pairwise.cons ?_ ih
    intro x hx
    rcases List.mem_cons.mp hx with hx | hx
    · subst hx; exact h.1
    · exact Nat.lt_trans h.1 ((List.pairwise_cons.mp ih).1 x hx)

theorem nodup_of_strictInc_sortF (l : List Nat) (h : strictInc (sortF l) = true) : l.Nodup := by
  have hp := strictInc_pairwise _ h
  have hn : (sortF l).Nodup := hp.imp (fun hlt => Nat.ne_of_lt hlt)
  exact (sortF_perm l).nodup_iff.mp hn

/-! ### The kernel-checkable table test -/

/-- `y` follows `x` by one transposition of two positions `a < b < n`, with the flag flipped -/
def stepOK (n : Nat) (x y : List Nat × Bool) : Bool :=
  (y.2 == !x.2) && (List.range n).any fun a => (List.range n).any fun b =>
    decide (a < b) && (y.1 == swap x.1 a b)

def chainOK (n : Nat) : List (List Nat × Bool) → Bool
  | x :: y :: rest => stepOK n x y && chainOK n (y :: rest)
  | _ => true

/-- any function of lists will do: it is only used to show the entries distinct -/
def code (p : List Nat) : Nat := p.foldl (fun a d => a * 8 + d) 0

def fact : Nat → Nat
  | 0 => 1
  | n + 1 => (n + 1) * fact n

/-- The emitted table starts at the identity with flag `true`, every entry follows its
    predecessor by one transposition with the flag flipped, there are `n!` entries, and they are
    pairwise distinct (their codes, sorted, increase strictly). -/
def tableOK (n : Nat) : Bool :=
  let t := generatePermutations (List.range n)
  (t.head? == some (List.range n, true)) && chainOK n t && (t.length == fact n) &&
    strictInc (sortF (t.map fun pe => code pe.1))

theorem tableOK_iff (n : Nat) (h : tableOK n = true) :
    (generatePermutations (List.range n)).head? = some (List.range n, true) ∧
    chainOK n (generatePermutations (List.range n)) = true ∧
    (generatePermutations (List.range n)).length = fact n ∧
    ((generatePermutations (List.range n)).map (·.1)).Nodup := by
  simp only [tableOK, Bool.and_eq_true, beq_iff_eq] at h
  obtain ⟨⟨⟨h1, h2⟩, h3⟩, h4⟩ := h
  refine ⟨h1, h2, h3, ?_⟩
  have := nodup_of_strictInc_sortF _ h4
  have h5 : (generatePermutations (List.range n)).map (fun pe => code pe.1)
      = ((generatePermutations (List.range n)).map (·.1)).map code := by simp
  rw [h5] at this
  exact List.Pairwise.of_map code (fun a b hne heq => hne (by rw [heq])) this

theorem stepOK_iff (n : Nat) (x y : List Nat × Bool) (h : stepOK n x y = true) :
    y.2 = !x.2 ∧ ∃ a b, a < b ∧ b < n ∧ y.1 = swap x.1 a b := by
  simp only [stepOK, Bool.and_eq_true, beq_iff_eq, List.any_eq_true, List.mem_range,
    decide_eq_true_eq] at h
  obtain ⟨h1, a, _, b, hb, hab, h2⟩ := h
  exact ⟨h1, a, b, hab, hb, h2⟩

end EasyMl.Det
