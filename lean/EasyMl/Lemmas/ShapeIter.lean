/-
  EasyMl.Lemmas.ShapeIter — the `ShapeIterator` odometer enumerates exactly the index tuples of
  its shape in row-major order (C13; also the basis of every "iterate and collect" argument).
  Core Lean only.
-/
import EasyMl.Model.Transform
import EasyMl.Spec.Transform
import EasyMl.Lemmas.Tensor

namespace EasyMl
open EasyMl.Spec

/-! ### row-major offsets of the all-zero tuple, and of in-bounds tuples -/

theorem inBounds_length (lens idx : List Nat) (h : inBounds lens idx = true) :
    idx.length = lens.length := by
  induction lens generalizing idx with
  | nil => cases idx <;> simp_all [inBounds]
  | cons l ls ih =>
    cases idx with
    | nil => simp [inBounds] at h
    | cons c cs =>
      simp only [inBounds, Bool.and_eq_true] at h
      simp [ih cs h.2]

theorem inBounds_zeros (lens idx : List Nat) (h : inBounds lens idx = true) :
    inBounds lens (lens.map fun _ => 0) = true := by
  induction lens generalizing idx with
  | nil => simp [inBounds]
  | cons l ls ih =>
    cases idx with
    | nil => simp [inBounds] at h
    | cons c cs =>
      simp only [inBounds, Bool.and_eq_true, decide_eq_true_eq] at h
      simp only [List.map_cons, inBounds, Bool.and_eq_true, decide_eq_true_eq]
      exact ⟨by omega, ih cs h.2⟩

theorem ravel_zeros (lens : List Nat) : ravel lens (lens.map fun _ => 0) = 0 := by
  induction lens with
  | nil => rfl
  | cons l ls ih => simp [ravel, ih]

theorem inBounds_zeros_of_pos (lens : List Nat) (h : ∀ l ∈ lens, 0 < l) :
    inBounds lens (lens.map fun _ => 0) = true := by
  induction lens with
  | nil => simp [inBounds]
  | cons l ls ih =>
    simp only [List.map_cons, inBounds, Bool.and_eq_true, decide_eq_true_eq]
    exact ⟨h l (by simp), ih fun x hx => h x (by simp [hx])⟩

theorem prod_eq_zero_of_mem (lens : List Nat) (h : 0 ∈ lens) : prod lens = 0 := by
  induction lens with
  | nil => simp at h
  | cons l ls ih =>
    rw [prod_cons]
    rcases List.mem_cons.1 h with rfl | h
    · simp
    · simp [ih h]

/-! ### the carry loop -/

/-- The carry loop on the tail: either it wraps (the tail was at its last tuple; it is reset to
    zeros and the carry goes out) or it steps to the next tuple in row-major order. -/
theorem carryTail_spec (ls is : List Nat) (h : inBounds ls is = true) :
    ((carryTail ls is).2 = true →
        ravel ls is + 1 = prod ls ∧ (carryTail ls is).1 = ls.map fun _ => 0) ∧
    ((carryTail ls is).2 = false →
        inBounds ls (carryTail ls is).1 = true ∧
        ravel ls (carryTail ls is).1 = ravel ls is + 1) := by
  induction ls generalizing is with
  | nil =>
    cases is with
    | nil => simp [carryTail, ravel]
    | cons _ _ => simp [inBounds] at h
  | cons l ls ih =>
    cases is with
    | nil => simp [inBounds] at h
    | cons i is =>
      simp only [inBounds, Bool.and_eq_true, decide_eq_true_eq] at h
      obtain ⟨hil, his⟩ := h
      have ih' := ih is his
      simp only [carryTail]
      cases hc : (carryTail ls is).2 with
      | true =>
        obtain ⟨hr, hz⟩ := ih'.1 hc
        simp only [if_true]
        by_cases he : i + 1 = l
        · simp only [he, if_true, true_implies, ravel, prod_cons, List.map_cons, hz]
          refine ⟨⟨?_, trivial⟩, by simp⟩
          rw [← he, Nat.add_mul]; omega
        · simp only [he, if_false]
          refine ⟨by simp, fun _ => ?_⟩
          simp only [inBounds, Bool.and_eq_true, decide_eq_true_eq, ravel, hz]
          refine ⟨⟨by omega, inBounds_zeros ls is his⟩, ?_⟩
          rw [ravel_zeros, Nat.add_mul]; omega
      | false =>
        obtain ⟨hb, hr⟩ := ih'.2 hc
        have hne : ¬ i = l := by omega
        simp only [Bool.false_eq_true, if_false, hne]
        refine ⟨by simp, fun _ => ?_⟩
        simp only [inBounds, Bool.and_eq_true, decide_eq_true_eq, ravel]
        exact ⟨⟨hil, hb⟩, by omega⟩

/-- One `next()` on an unfinished iterator standing at an in-bounds tuple: it yields that tuple
    and either finishes (it was the last) or moves to the row-major successor. -/
theorem ShapeIter.next_spec (lens idx : List Nat) (h : inBounds lens idx = true) :
    let s : ShapeIter := { lens := lens, indexes := idx, finished := false }
    s.next.1 = some idx ∧
    ((s.next.2.finished = true ∧ ravel lens idx + 1 = prod lens) ∨
     (s.next.2.finished = false ∧ s.next.2.lens = lens ∧ inBounds lens s.next.2.indexes = true ∧
        ravel lens s.next.2.indexes = ravel lens idx + 1)) := by
  intro s
  cases lens with
  | nil =>
    cases idx with
    | nil => simp [s, ShapeIter.next, ravel]
    | cons _ _ => simp [inBounds] at h
  | cons l0 ls =>
    cases idx with
    | nil => simp [inBounds] at h
    | cons i0 is =>
      simp only [inBounds, Bool.and_eq_true, decide_eq_true_eq] at h
      obtain ⟨hil, his⟩ := h
      have hc := carryTail_spec ls is his
      have hpos : 0 < prod ls := by have := ravel_lt ls is his; omega
      simp only [s, ShapeIter.next, Bool.false_eq_true, if_false, true_and]
      cases hcc : (carryTail ls is).2 with
      | true =>
        obtain ⟨hr, hz⟩ := hc.1 hcc
        simp only [if_true, decide_eq_true_eq, decide_eq_false_iff_not]
        by_cases he : i0 + 1 = l0
        · left
          refine ⟨he, ?_⟩
          simp only [ravel, prod_cons]
          rw [← he, Nat.add_mul]; omega
        · right
          refine ⟨he, ?_, ?_⟩
          · simp only [inBounds, Bool.and_eq_true, decide_eq_true_eq, hz]
            exact ⟨by omega, inBounds_zeros ls is his⟩
          · simp only [ravel, hz, ravel_zeros]
            rw [Nat.add_mul]; omega
      | false =>
        obtain ⟨hb, hr⟩ := hc.2 hcc
        have hne : ¬ i0 = l0 := by omega
        simp only [Bool.false_eq_true, if_false, decide_eq_true_eq, decide_eq_false_iff_not]
        right
        refine ⟨hne, ?_, ?_⟩
        · simp only [inBounds, Bool.and_eq_true, decide_eq_true_eq]
          exact ⟨hil, hb⟩
        · simp only [ravel]; omega

/-! ### draining the iterator -/

/-- From an in-bounds tuple with row-major offset `k`, draining yields tuples with offsets
    `k, k+1, …, Π lens - 1`, all in bounds. -/
theorem ShapeIter.drain_spec (lens : List Nat) (fuel : Nat) (idx : List Nat)
    (h : inBounds lens idx = true) (hf : ravel lens idx + fuel = prod lens) :
    (ShapeIter.drain fuel { lens := lens, indexes := idx, finished := false }).map (ravel lens) =
        List.range' (ravel lens idx) fuel ∧
    ∀ x ∈ ShapeIter.drain fuel { lens := lens, indexes := idx, finished := false },
        inBounds lens x = true := by
  induction fuel generalizing idx with
  | zero => simp [ShapeIter.drain]
  | succ fuel ih =>
    obtain ⟨h1, h2⟩ := ShapeIter.next_spec lens idx h
    unfold ShapeIter.drain
    cases hn : ShapeIter.next { lens := lens, indexes := idx, finished := false } with
    | mk o s' =>
      rw [hn] at h1 h2
      simp only at h1 h2
      subst h1
      simp only
      rcases h2 with ⟨_, hlast⟩ | ⟨hfin, hl, hb, hr⟩
      · have : fuel = 0 := by omega
        subst this
        simp [ShapeIter.drain, h]
      · have hs' : s' = { lens := lens, indexes := s'.indexes, finished := false } := by
          cases s'; simp_all
        rw [hs']
        obtain ⟨ih1, ih2⟩ := ih s'.indexes hb (by omega)
        constructor
        · simp only [List.map_cons, ih1, hr, List.range'_succ]
        · intro x hx
          rcases List.mem_cons.1 hx with rfl | hx
          · exact h
          · exact ih2 x hx

/-! ### the specification's enumeration -/

theorem range_flatMap_block (l p : Nat) :
    (List.range l).flatMap (fun i => (List.range p).map (i * p + ·)) = List.range (l * p) := by
  induction l with
  | zero => simp
  | succ l ih =>
    rw [List.range_succ, List.flatMap_append, ih, Nat.succ_mul, List.range_add]
    simp

theorem allIndexes_spec (lens : List Nat) :
    (allIndexes lens).map (ravel lens) = List.range (prod lens) ∧
    ∀ x ∈ allIndexes lens, inBounds lens x = true := by
  induction lens with
  | nil => simp [allIndexes, ravel, inBounds, List.range_succ]
  | cons l ls ih =>
    obtain ⟨ih1, ih2⟩ := ih
    constructor
    · simp only [allIndexes, List.map_flatMap, List.map_map, prod_cons]
      rw [← range_flatMap_block l (prod ls)]
      simp only [List.flatMap_def]
      congr 1
      apply List.map_congr_left
      intro i _
      rw [← ih1, List.map_map]
      apply List.map_congr_left
      intro x _
      simp [ravel]
    · intro x hx
      simp only [allIndexes, List.mem_flatMap, List.mem_range, List.mem_map] at hx
      obtain ⟨i, hi, xs, hxs, rfl⟩ := hx
      simp [inBounds, hi, ih2 xs hxs]

theorem mem_allIndexes_iff (lens x : List Nat) : x ∈ allIndexes lens ↔ inBounds lens x = true := by
  induction lens generalizing x with
  | nil => cases x <;> simp [allIndexes, inBounds]
  | cons l ls ih =>
    cases x with
    | nil => simp [allIndexes, inBounds]
    | cons c cs =>
      simp only [allIndexes, List.mem_flatMap, List.mem_range, List.mem_map, List.cons.injEq,
        inBounds, Bool.and_eq_true, decide_eq_true_eq, ← ih cs]
      constructor
      · rintro ⟨i, hi, xs, hxs, rfl, rfl⟩; exact ⟨hi, hxs⟩
      · rintro ⟨hc, hcs⟩; exact ⟨c, hc, cs, hcs, rfl, rfl⟩

/-- two lists of in-bounds tuples with the same row-major offsets are the same list -/
theorem eq_of_map_ravel_eq (lens : List Nat) (a b : List (List Nat))
    (ha : ∀ x ∈ a, inBounds lens x = true) (hb : ∀ x ∈ b, inBounds lens x = true)
    (h : a.map (ravel lens) = b.map (ravel lens)) : a = b := by
  induction a generalizing b with
  | nil => cases b <;> simp_all
  | cons x xs ih =>
    cases b with
    | nil => simp at h
    | cons y ys =>
      simp only [List.map_cons, List.cons.injEq] at h
      have hxy := ravel_injective lens x y (ha x (by simp)) (hb y (by simp)) h.1
      rw [hxy, ih ys (fun z hz => ha z (by simp [hz])) (fun z hz => hb z (by simp [hz])) h.2]

/-- **The `ShapeIterator` yields exactly the index tuples of its shape, each once, in row-major
    order** — for every dimensionality and every shape (shapes with a zero length yield nothing). -/
theorem shapeIndexes_eq_allIndexes (lens : List Nat) : shapeIndexes lens = allIndexes lens := by
  obtain ⟨ha1, ha2⟩ := allIndexes_spec lens
  by_cases hz : 0 ∈ lens
  · have hp := prod_eq_zero_of_mem lens hz
    have : allIndexes lens = [] := by
      have := congrArg List.length ha1
      simpa [hp] using this
    rw [this]
    simp [shapeIndexes, hp, ShapeIter.drain]
  · have hpos : ∀ l ∈ lens, 0 < l := by
      intro l hl
      rcases Nat.eq_zero_or_pos l with rfl | h
      · exact absurd hl hz
      · exact h
    have hall : (lens.all fun l => decide (l > 0)) = true := by
      rw [List.all_eq_true]; intro l hl; simpa using hpos l hl
    have hb := inBounds_zeros_of_pos lens hpos
    obtain ⟨hd1, hd2⟩ := ShapeIter.drain_spec lens (prod lens) (lens.map fun _ => 0) hb
      (by rw [ravel_zeros]; omega)
    have hstart : ShapeIter.start lens =
        { lens := lens, indexes := lens.map fun _ => 0, finished := false } := by
      simp [ShapeIter.start, hall]
    unfold shapeIndexes
    rw [hstart]
    apply eq_of_map_ravel_eq lens _ _ hd2 ha2
    rw [hd1, ha1, ravel_zeros, List.range_eq_range']

/-- position `ravel x` of the enumeration holds `x` -/
theorem allIndexes_getElem?_ravel (lens x : List Nat) (h : inBounds lens x = true) :
    (allIndexes lens)[ravel lens x]? = some x := by
  obtain ⟨h1, h2⟩ := allIndexes_spec lens
  have hlt := ravel_lt lens x h
  have hlen : (allIndexes lens).length = prod lens := by
    have := congrArg List.length h1; simpa using this
  have hk : ravel lens x < (allIndexes lens).length := by omega
  rw [List.getElem?_eq_getElem hk]
  have hy : ravel lens (allIndexes lens)[ravel lens x] = ravel lens x := by
    have := congrArg (fun l => l[ravel lens x]?) h1
    simp only [List.getElem?_map, List.getElem?_eq_getElem hk, Option.map_some,
      List.getElem?_range hlt, Option.some.injEq] at this
    exact this
  congr 1
  exact ravel_injective lens _ _ (h2 _ (List.getElem_mem hk)) h hy

theorem allIndexes_length (lens : List Nat) : (allIndexes lens).length = prod lens := by
  have := congrArg List.length (allIndexes_spec lens).1
  simpa using this

end EasyMl
