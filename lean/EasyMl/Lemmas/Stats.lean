/-
  EasyMl.Lemmas.Stats — helper lemmas for C14: the loops of `mean`/`sum` as `List.sum` and a
  `Nat` cast, columns/rows of a matrix as lists, feature selection on tensors.
-/
import Mathlib.Algebra.BigOperators.Group.List.Basic
import Mathlib.Algebra.Field.Basic
import Mathlib.Data.Nat.Cast.Basic
import EasyMl.Model.Stats
import EasyMl.Spec.Stats
import EasyMl.Lemmas.Arith

namespace EasyMl.Stats
open EasyMl EasyMl.Arith EasyMl.Spec.Stats

variable {K : Type}

theorem foldl_add_eq [AddMonoid K] (l : List K) (a : K) : l.foldl (· + ·) a = a + l.sum := by
  induction l generalizing a with
  | nil => simp
  | cons x xs ih => rw [List.foldl_cons, ih, List.sum_cons, add_assoc]

theorem sum_eq_list_sum [AddMonoid K] (l : List K) : Stats.sum l = l.sum := by
  unfold Stats.sum
  rw [foldl_add_eq, zero_add]

theorem meanLoop_eq [DivisionRing K] (l : List K) : meanLoop l = ((l.length : K), l.sum) := by
  unfold meanLoop
  have : ∀ (c s : K), l.foldl (fun (cs : K × K) x => (cs.1 + 1, cs.2 + x)) (c, s)
      = (c + (l.length : K), s + l.sum) := by
    induction l with
    | nil => intro c s; simp
    | cons x xs ih =>
      intro c s
      rw [List.foldl_cons, ih]
      simp only [List.length_cons, Nat.cast_add, Nat.cast_one, List.sum_cons]
      congr 1
      · rw [add_assoc, add_comm 1]
      · rw [add_assoc]
  rw [this]
  simp

theorem mean_eq_popMean [DivisionRing K] (l : List K) (h : l ≠ []) : mean l = .ok (popMean l) := by
  cases l with
  | nil => exact absurd rfl h
  | cons x xs =>
    simp only [mean, meanLoop_eq]
    rfl

theorem variance_eq_popVariance [DivisionRing K] (l : List K) (h : l ≠ []) :
    variance l = .ok (popVariance l) := by
  cases l with
  | nil => exact absurd rfl h
  | cons x xs =>
    simp only [variance, mean_eq_popMean (x :: xs) (by simp)]
    rw [mean_eq_popMean _ (by simp)]
    simp [popVariance, popMean]

/-- one covariance cell is the population covariance of the two feature columns -/
theorem covCell_eq_popCovariance [DivisionRing K] (n : Nat) (fi fj : List K)
    (hi : fi.length = n) (hj : fj.length = n) :
    covCell (n : K) fi fj = popCovariance fi fj := by
  unfold covCell popCovariance popMean
  simp only [sum_eq_list_sum, hi, hj]

/-! ### columns and rows of a matrix -/

theorem matrixColumn_eq {α : Type} (m : Matrix α) (c : Nat) (hc : c < m.columns) :
    matrixColumn m c = (List.range m.rows).filterMap fun r => m.tryGet r c := by
  unfold matrixColumn
  apply filterMap_congr'
  intro r hr
  simp [Matrix.tryGet, List.mem_range.1 hr, hc]

theorem matrixRow_eq {α : Type} (m : Matrix α) (r : Nat) (hr : r < m.rows) :
    matrixRow m r = (List.range m.columns).filterMap fun c => m.tryGet r c := by
  unfold matrixRow
  apply filterMap_congr'
  intro c hc
  simp [Matrix.tryGet, List.mem_range.1 hc, hr]

theorem matrixColumn_map_some {α : Type} (m : Matrix α) (h : m.Inv) (c : Nat) (hc : c < m.columns) :
    (matrixColumn m c).map some = (List.range m.rows).map fun r => m.tryGet r c := by
  rw [matrixColumn_eq m c hc]
  apply filterMap_map_some_of_isSome
  intro r hr
  exact (ofMatrix_WF h).some_of_lt r c (List.mem_range.1 hr) hc

theorem matrixRow_map_some {α : Type} (m : Matrix α) (h : m.Inv) (r : Nat) (hr : r < m.rows) :
    (matrixRow m r).map some = (List.range m.columns).map fun c => m.tryGet r c := by
  rw [matrixRow_eq m r hr]
  apply filterMap_map_some_of_isSome
  intro c hc
  exact (ofMatrix_WF h).some_of_lt r c hr (List.mem_range.1 hc)

theorem matrixColumn_length {α : Type} (m : Matrix α) (h : m.Inv) (c : Nat) (hc : c < m.columns) :
    (matrixColumn m c).length = m.rows := by
  have := congrArg List.length (matrixColumn_map_some m h c hc)
  simpa using this

theorem matrixRow_length {α : Type} (m : Matrix α) (h : m.Inv) (r : Nat) (hr : r < m.rows) :
    (matrixRow m r).length = m.columns := by
  have := congrArg List.length (matrixRow_map_some m h r hr)
  simpa using this

/-- the `s`-th entry of column `c` is the matrix entry `(s, c)` -/
theorem matrixColumn_getElem? {α : Type} (m : Matrix α) (h : m.Inv) (c : Nat) (hc : c < m.columns)
    (s : Nat) (hs : s < m.rows) : (matrixColumn m c)[s]? = m.tryGet s c := by
  have h1 := congrArg (fun l => l[s]?) (matrixColumn_map_some m h c hc)
  simp only [List.getElem?_map, List.getElem?_range hs, Option.map_some] at h1
  cases he : (matrixColumn m c)[s]? with
  | none => simp [he] at h1
  | some a => simp only [he, Option.map_some] at h1; exact Option.some.inj h1

theorem matrixRow_getElem? {α : Type} (m : Matrix α) (h : m.Inv) (r : Nat) (hr : r < m.rows)
    (s : Nat) (hs : s < m.columns) : (matrixRow m r)[s]? = m.tryGet r s := by
  have h1 := congrArg (fun l => l[s]?) (matrixRow_map_some m h r hr)
  simp only [List.getElem?_map, List.getElem?_range hs, Option.map_some] at h1
  cases he : (matrixRow m r)[s]? with
  | none => simp [he] at h1
  | some a => simp only [he, Option.map_some] at h1; exact Option.some.inj h1

section Cells
variable {α : Type} [Add α] [Sub α] [Mul α] [Div α] [Zero α]

theorem covCells_congr (features : Nat) (samples : α) (f g : Nat → List α)
    (h : ∀ i, i < features → f i = g i) : covCells features samples f = covCells features samples g := by
  unfold covCells
  apply flatMap_congr'
  intro i hi
  apply List.map_congr_left
  intro j hj
  rw [h i (List.mem_range.1 hi), h j (List.mem_range.1 hj)]

theorem covCells_getElem? (features : Nat) (samples : α) (f : Nat → List α) (i j : Nat)
    (hi : i < features) (hj : j < features) :
    (covCells features samples f)[i * features + j]? = some (covCell samples (f i) (f j)) :=
  table_getElem? features features _ i j hi hj

theorem covCells_length (features : Nat) (samples : α) (f : Nat → List α) :
    (covCells features samples f).length = features * features :=
  table_length features features _

end Cells

/-! ### the tensor entry point -/

section TensorCov
variable {ν : Type} [DecidableEq ν] {α : Type}

/-- feature dimension second: selecting feature `i` lists column `i` of the samples × features
    table -/
theorem tensorFeature_second {v : TView ν α} {s f : ν} {S F : Nat}
    (hs : v.shape = [(s, S), (f, F)]) (hsf : s ≠ f) (i : Nat) (hi : i < F) :
    tensorFeature v f i = .ok ((List.range S).filterMap fun k => v.get [k, i]) := by
  unfold tensorFeature
  rw [select_col hs hsf i hi]
  simp only [elems_one]
  rfl

/-- feature dimension first: selecting feature `i` lists row `i` of the features × samples table -/
theorem tensorFeature_first {v : TView ν α} {s f : ν} {S F : Nat}
    (hs : v.shape = [(f, F), (s, S)]) (i : Nat) (hi : i < F) :
    tensorFeature v f i = .ok ((List.range S).filterMap fun k => v.get [i, k]) := by
  unfold tensorFeature
  rw [select_row hs i hi]
  simp only [elems_one]
  rfl

variable [Add α] [Sub α] [Mul α] [Div α] [Zero α] [NatCast α]

/-- the tensor entry point computes the same cells from the per-feature sample lists `col` -/
theorem covarianceTensor_eq (iName jName : ν) (hij : iName ≠ jName) (v : TView ν α)
    (d0 d1 fd sd : ν × Nat) (feature : ν) (hs : v.shape = [d0, d1])
    (hpick : (if d0.1 = feature then some (d0, d1) else if d1.1 = feature then some (d1, d0) else none)
      = some (fd, sd))
    (hF : 1 ≤ fd.2) (col : Nat → List α)
    (hcol : ∀ i, i < fd.2 → tensorFeature v fd.1 i = .ok (col i)) :
    covarianceTensor iName jName v feature =
      .ok (Tensor.mk (covCells fd.2 (sd.2 : α) col) [(iName, fd.2), (jName, fd.2)]
        (computeStrides [(iName, fd.2), (jName, fd.2)])) := by
  have hvs : Spec.ValidShape [(iName, fd.2), (jName, fd.2)] := by
    constructor
    · simp [hij]
    · intro x hx
      simp only [List.mem_cons, List.not_mem_nil, or_false] at hx
      rcases hx with rfl | rfl <;> exact hF
  unfold covarianceTensor
  simp only [hs, hpick]
  rw [tensorFrom_eq_ok _ _ (by simp) hvs]
  simp only
  rw [outcomeMapM_eq_ok _ (fun idx => covCell (sd.2 : α) (col (idx.getD 0 0)) (col (idx.getD 1 0)))]
  · simp only [viewIndices_two, List.map_flatMap, List.map_map, covCells]
    rfl
  · intro idx hidx
    rw [viewIndices_two] at hidx
    simp only [List.mem_flatMap, List.mem_range, List.mem_map] at hidx
    obtain ⟨i, hi, j, hj, rfl⟩ := hidx
    simp only [covTensorCell, hcol i hi, hcol j hj]
    rfl

end TensorCov

end EasyMl.Stats
