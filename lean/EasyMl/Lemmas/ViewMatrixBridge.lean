/-
  EasyMl.Lemmas.ViewMatrixBridge — the matrix-side adaptors of the view model (`View.mrange`,
  `View.mreverse` under `View.matrixOf`, Model/View.lean) against the independently written model
  of the same Rust code in Model/MatrixView.lean (C12): `MatrixRefTensor` (`MView.ofTensor`),
  `MatrixRange::from` (`MView.range`), `MatrixReverse` (`MView.reverse`) and
  `TensorRefMatrix::with_names` (`tensorRefMatrixWithNames`), with the repaired arithmetic
  `Arith.fixed`.

  Model/View.lean represents `TensorRefMatrix(ops(MatrixRefTensor(s)))` by view constructors whose
  index functions are those of a tensor range / reversal; Model/MatrixView.lean composes functions
  `(rows, columns, try_get_reference)` exactly as the matrix code does (the empty-matrix guard of
  `MatrixReverse`, `getVia`).  `matrix_stack_bridge` shows the two agree: same acceptance, same
  shape, same answer of the checked getter at every pair of indexes.
-/
import EasyMl.Lemmas.ViewConstructors
import EasyMl.Model.MatrixView

namespace EasyMl
open EasyMl.Spec EasyMl.View

set_option linter.unusedSectionVars false

variable {ν : Type} [DecidableEq ν] [Inhabited ν] {α : Type}

/-- the answer of a checked getter with the cell shown through `enc` (Model/MatrixView.lean
    identifies cells by a number) -/
def omap {β γ : Type} (f : β → γ) : Outcome (Option β) → Outcome (Option γ)
  | .ok o => .ok (o.map f)
  | .panic k => .panic k

/-- a view as the `(shape, checked getter)` pair of Model/Fallible.lean -/
def View.toTView (v : View ν α) (enc : Cell → Nat) : Fallible.TView ν :=
  ⟨v.shape, fun idx => omap enc (v.get idx)⟩

def convRange (r : IndexRange) : Fallible.IndexRange := ⟨r.start, r.length⟩

/-- the stack of matrix adaptors in Model/MatrixView.lean -/
def mviewOps (A : Fallible.Arith) : MatrixView.MView → List MatOp → Outcome MatrixView.MView
  | m, [] => .ok m
  | m, .range rows columns :: ops =>
    match MatrixView.MView.range A m (convRange rows) (convRange columns) with
    | .ok m' => mviewOps A m' ops
    | .panic k => .panic k
  | m, .reverse rows columns :: ops => mviewOps A (MatrixView.MView.reverse A m rows columns) ops

/-- `TensorRefMatrix::with_names(<ops>(MatrixRefTensor::from(s)), [r, c])` in Model/MatrixView.lean -/
def mviewStack (A : Fallible.Arith) (s : View ν α) (enc : Cell → Nat) (ops : List MatOp) (r c : ν) :
    Outcome (Except (Shape ν) (Fallible.TView ν)) :=
  match MatrixView.MView.ofTensor (s.toTView enc) with
  | .panic k => .panic k
  | .ok m0 =>
    match mviewOps A m0 ops with
    | .panic k => .panic k
    | .ok m => MatrixView.tensorRefMatrixWithNames m r c

theorem convRange_map (r : IndexRange) (i : Nat) : (convRange r).map i = r.map i := rfl

theorem convRange_clip (r : IndexRange) (n : Nat) :
    (convRange r).clip n = convRange (r.clip n) := rfl

/-- sizes and getter of a model-C12 matrix view agree with a 2-dimensional view -/
structure Sim (enc : Cell → Nat) (m : MatrixView.MView) (v : View ν α) : Prop where
  rows : m.rows = (v.shape.getD 0 (default, 0)).2
  columns : m.columns = (v.shape.getD 1 (default, 0)).2

def SimGet (enc : Cell → Nat) (m : MatrixView.MView) (v : View ν α) : Prop :=
  ∀ i j, m.get i j = omap enc (v.get [i, j])

theorem sim_range (enc : Cell → Nat) (m : MatrixView.MView) (v : View ν α) (hv : v.shape.length = 2)
    (hs : Sim enc m v) (rows columns : IndexRange) :
    ∃ m', MatrixView.MView.range Fallible.Arith.fixed m (convRange rows) (convRange columns) = .ok m' ∧
      Sim enc m' (View.mrange v (rows.clip (v.shape.getD 0 (default, 0)).2)
        (columns.clip (v.shape.getD 1 (default, 0)).2)) ∧
      (SimGet enc m v → SimGet enc m' (View.mrange v (rows.clip (v.shape.getD 0 (default, 0)).2)
        (columns.clip (v.shape.getD 1 (default, 0)).2))) := by
  obtain ⟨d0, d1, hsq⟩ := shape_two hv
  refine ⟨_, rfl, ⟨?_, ?_⟩, ?_⟩
  · simp [View.shape, hsq, rangeShape, hs.rows, convRange]; rfl
  · simp [View.shape, hsq, rangeShape, hs.columns, convRange]; rfl
  · intro hg i j
    simp only [MatrixView.MView.getVia, convRange_clip, hs.rows, hs.columns, View.get,
      mapIndexesByRange]
    have e1 : (convRange (rows.clip (v.shape.getD 0 (default, 0)).2)).map i =
        (rows.clip (v.shape.getD 0 (default, 0)).2).map i := rfl
    have e2 : (convRange (columns.clip (v.shape.getD 1 (default, 0)).2)).map j =
        (columns.clip (v.shape.getD 1 (default, 0)).2).map j := rfl
    rw [e1, e2]
    generalize (rows.clip (v.shape.getD 0 (default, 0)).2).map i = a
    generalize (columns.clip (v.shape.getD 1 (default, 0)).2).map j = b
    rcases a with (_ | a) | k
    · simp [obind, omap]
    · rcases b with (_ | b) | k
      · simp [obind, omap]
      · simp [obind, hg a b]
      · simp [obind, omap]
    · simp [obind, omap]

theorem reverseChecked_fixed (l i : Nat) :
    Fallible.Arith.fixed.reverseChecked l i = .ok (if i ≥ l then none else some (l - 1 - i)) := by
  simp only [Fallible.Arith.fixed]
  split
  · rfl
  · rename_i h
    have h1 : 1 ≤ l := by omega
    have h2 : i ≤ l - 1 := by omega
    simp [Fallible.reverseOne, csub, h1, h2]

theorem sim_reverse (enc : Cell → Nat) (m : MatrixView.MView) (v : View ν α) (hv : v.shape.length = 2)
    (hs : Sim enc m v) (rows columns : Bool) :
    Sim enc (MatrixView.MView.reverse Fallible.Arith.fixed m rows columns) (View.mreverse v rows columns) ∧
    (1 ≤ (v.shape.getD 0 (default, 0)).2 → 1 ≤ (v.shape.getD 1 (default, 0)).2 → SimGet enc m v →
      SimGet enc (MatrixView.MView.reverse Fallible.Arith.fixed m rows columns)
        (View.mreverse v rows columns)) := by
  obtain ⟨d0, d1, hsq⟩ := shape_two hv
  refine ⟨⟨?_, ?_⟩, ?_⟩
  · simp [MatrixView.MView.reverse, View.shape, hs.rows]
  · simp [MatrixView.MView.reverse, View.shape, hs.columns]
  · intro h0 h1 hg i j
    have r0 : m.rows = d0.2 := by rw [hs.rows, hsq]; rfl
    have c0 : m.columns = d1.2 := by rw [hs.columns, hsq]; rfl
    have g0 : 1 ≤ d0.2 := by rw [hsq] at h0; exact h0
    have g1 : 1 ≤ d1.2 := by rw [hsq] at h1; exact h1
    have hguard : ¬ (d0.2 = 0 ∨ d1.2 = 0) := by omega
    simp only [MatrixView.MView.reverse, r0, c0, hguard, if_false, MatrixView.MView.getVia, View.get,
      hsq, lens, List.map_cons, List.map_nil, tryReverseIndexes]
    cases rows <;> cases columns <;>
      simp only [reverseChecked_fixed, Bool.false_eq_true, if_false, if_true, ge_iff_le]
    · exact hg i j
    · by_cases hj : d1.2 ≤ j <;> simp [hj, omap] <;> exact hg _ _
    · by_cases hi : d0.2 ≤ i <;> simp [hi, omap] <;> exact hg _ _
    · by_cases hi : d0.2 ≤ i <;> by_cases hj : d1.2 ≤ j <;> simp [hi, hj, omap] <;> exact hg _ _

/-- an empty dimension stays empty and dimensions never grow under a stack of matrix adaptors -/
theorem applyMatOps_nonempty (ops : List MatOp) (v : View ν α) (hv : v.shape.length = 2)
    (h0 : 1 ≤ ((applyMatOps v ops).shape.getD 0 (default, 0)).2)
    (h1 : 1 ≤ ((applyMatOps v ops).shape.getD 1 (default, 0)).2) :
    1 ≤ (v.shape.getD 0 (default, 0)).2 ∧ 1 ≤ (v.shape.getD 1 (default, 0)).2 := by
  obtain ⟨_, z0, z1⟩ := applyMatOps_shape ops v hv
  constructor
  · rcases Nat.eq_zero_or_pos (v.shape.getD 0 (default, 0)).2 with hz | hp
    · have := z0 hz; omega
    · exact hp
  · rcases Nat.eq_zero_or_pos (v.shape.getD 1 (default, 0)).2 with hz | hp
    · have := z1 hz; omega
    · exact hp

theorem sim_ops (enc : Cell → Nat) (ops : List MatOp) : ∀ (m : MatrixView.MView) (v : View ν α),
    v.shape.length = 2 → Sim enc m v →
    ∃ m', mviewOps Fallible.Arith.fixed m ops = .ok m' ∧ Sim enc m' (applyMatOps v ops) ∧
      (1 ≤ ((applyMatOps v ops).shape.getD 0 (default, 0)).2 →
       1 ≤ ((applyMatOps v ops).shape.getD 1 (default, 0)).2 →
       SimGet enc m v → SimGet enc m' (applyMatOps v ops)) := by
  induction ops with
  | nil => intro m v _ hs; exact ⟨m, rfl, hs, fun _ _ hg => hg⟩
  | cons op ops ih =>
    intro m v hv hs
    cases op with
    | range rows columns =>
      obtain ⟨m1, e1, s1, g1⟩ := sim_range enc m v hv hs rows columns
      have hv1 : (View.mrange v (rows.clip (v.shape.getD 0 (default, 0)).2)
          (columns.clip (v.shape.getD 1 (default, 0)).2)).shape.length = 2 := by
        obtain ⟨d0, d1, hsq⟩ := shape_two hv
        simp [View.shape, hsq, rangeShape]
      obtain ⟨m', e', s', g'⟩ := ih m1 _ hv1 s1
      refine ⟨m', ?_, s', ?_⟩
      · simp only [mviewOps, e1, e']
      · intro h0 h1 hg
        exact g' h0 h1 (g1 hg)
    | reverse rows columns =>
      obtain ⟨s1, g1⟩ := sim_reverse enc m v hv hs rows columns
      have hv1 : (View.mreverse v rows columns).shape.length = 2 := by simpa [View.shape] using hv
      obtain ⟨m', e', s', g'⟩ := ih _ _ hv1 s1
      refine ⟨m', ?_, s', ?_⟩
      · simp only [mviewOps, e']
      · intro h0 h1 hg
        have hne := applyMatOps_nonempty ops (View.mreverse v rows columns) hv1 h0 h1
        simp only [View.shape] at hne
        exact g' h0 h1 (g1 hne.1 hne.2 hg)

/-- **The two models of a matrix-side stack agree.**  For a 2-dimensional view `s`, any stack of
    `MatrixRange` / `MatrixReverse` adaptors and any two names, composing the matrix views of
    Model/MatrixView.lean (C12: `MatrixRefTensor`, `MatrixRange::from` with its clipping,
    `MatrixReverse` with its empty-matrix guard, `TensorRefMatrix::with_names`; repaired
    arithmetic) never panics, is refused exactly when `mkMatrixStack` of Model/View.lean is, and
    otherwise gives the same shape and, at every pair of indexes, the same answer of the checked
    getter as the view `mkMatrixStack` returns. -/
theorem matrix_stack_bridge (s : View ν α) (hs2 : s.shape.length = 2) (enc : Cell → Nat)
    (ops : List MatOp) (r c : ν) :
    (mkMatrixStack s ops r c = none →
      ∃ sh, mviewStack Fallible.Arith.fixed s enc ops r c = .ok (.error sh)) ∧
    (∀ v, mkMatrixStack s ops r c = some v →
      ∃ T, mviewStack Fallible.Arith.fixed s enc ops r c = .ok (.ok T) ∧ T.shape = v.shape ∧
        ∀ i j, T.get [i, j] = omap enc (v.get [i, j])) := by
  obtain ⟨d0, d1, hsq⟩ := shape_two hs2
  -- `MatrixRefTensor::from(s)`
  have h0 : MatrixView.MView.ofTensor (s.toTView enc) =
      .ok ⟨d0.2, d1.2, fun i j => omap enc (s.get [i, j])⟩ := by
    simp [MatrixView.MView.ofTensor, View.toTView, Fallible.idxC, hsq]
  have hsim : Sim enc ⟨d0.2, d1.2, fun i j => omap enc (s.get [i, j])⟩ s :=
    ⟨by simp [hsq], by simp [hsq]⟩
  obtain ⟨m, em, sm, gm⟩ := sim_ops enc ops _ s hs2 hsim
  have hshape := (applyMatOps_shape ops s hs2).1
  have hstack : mviewStack Fallible.Arith.fixed s enc ops r c =
      MatrixView.tensorRefMatrixWithNames m r c := by
    simp only [mviewStack, h0, em]
  have hvalid : Fallible.isValidShape [(r, m.rows), (c, m.columns)] =
      isValidShape [(r, ((applyMatOps s ops).shape.getD 0 (default, 0)).2),
        (c, ((applyMatOps s ops).shape.getD 1 (default, 0)).2)] := by
    rw [sm.rows, sm.columns]; rfl
  constructor
  · intro hn
    simp only [mkMatrixStack, hs2, ne_eq, not_true_eq_false, if_false, mkMatrixOf, hshape] at hn
    split at hn
    · simp at hn
    · rename_i hv
      rw [hstack]
      simp only [MatrixView.tensorRefMatrixWithNames]
      rw [hvalid, if_neg hv]
      exact ⟨_, rfl⟩
  · intro v hv
    simp only [mkMatrixStack, hs2, ne_eq, not_true_eq_false, if_false, mkMatrixOf, hshape] at hv
    split at hv
    · rename_i hok
      simp only [Option.some.injEq] at hv
      subst hv
      rw [hstack]
      simp only [MatrixView.tensorRefMatrixWithNames, hvalid, hok, if_true]
      refine ⟨_, rfl, ?_, ?_⟩
      · simp [View.shape, sm.rows, sm.columns]
      · intro i j
        -- the matrix that came out has no empty dimension
        have hne : 1 ≤ ((applyMatOps s ops).shape.getD 0 (default, 0)).2 ∧
            1 ≤ ((applyMatOps s ops).shape.getD 1 (default, 0)).2 := by
          simp only [isValidShape, List.any_cons, List.any_nil, Bool.or_false, Bool.and_eq_true,
            Bool.not_eq_true', Bool.or_eq_false_iff, beq_eq_false_iff_ne, ne_eq] at hok
          omega
        have hg := gm hne.1 hne.2 (fun i j => rfl)
        simp only [Fallible.idxC, View.get]
        simpa using hg i j
    · simp at hv

/-! ### any source that behaves like the view, and towers of round trips -/

/-- a `(shape, checked getter)` pair of Model/Fallible.lean that reports the shape of a
    2-dimensional view and answers like it at every pair of indexes -/
def TSim (enc : Cell → Nat) (T : Fallible.TView ν) (s : View ν α) : Prop :=
  T.shape = s.shape ∧ ∀ i j, T.get [i, j] = omap enc (s.get [i, j])

/-- `mviewStack` over any such pair -/
def mviewStackT (A : Fallible.Arith) (T : Fallible.TView ν) (ops : List MatOp) (r c : ν) :
    Outcome (Except (Shape ν) (Fallible.TView ν)) :=
  match MatrixView.MView.ofTensor T with
  | .panic k => .panic k
  | .ok m0 =>
    match mviewOps A m0 ops with
    | .panic k => .panic k
    | .ok m => MatrixView.tensorRefMatrixWithNames m r c

theorem mviewStack_eq_T (A : Fallible.Arith) (s : View ν α) (enc : Cell → Nat) (ops : List MatOp)
    (r c : ν) : mviewStack A s enc ops r c = mviewStackT A (s.toTView enc) ops r c := rfl

theorem tsim_toTView (enc : Cell → Nat) (s : View ν α) : TSim enc (s.toTView enc) s :=
  ⟨rfl, fun _ _ => rfl⟩

/-- `matrix_stack_bridge` for any source that behaves like the view; what comes out behaves like
    the view `mkMatrixStack` returns, so the statement can be applied again on top -/
theorem matrix_stack_bridge_T (T : Fallible.TView ν) (s : View ν α) (hs2 : s.shape.length = 2)
    (enc : Cell → Nat) (hT : TSim enc T s) (ops : List MatOp) (r c : ν) :
    (mkMatrixStack s ops r c = none →
      ∃ sh, mviewStackT Fallible.Arith.fixed T ops r c = .ok (.error sh)) ∧
    (∀ v, mkMatrixStack s ops r c = some v →
      ∃ T', mviewStackT Fallible.Arith.fixed T ops r c = .ok (.ok T') ∧ TSim enc T' v ∧
        v.shape.length = 2) := by
  obtain ⟨d0, d1, hsq⟩ := shape_two hs2
  have h0 : MatrixView.MView.ofTensor T = .ok ⟨d0.2, d1.2, fun i j => T.get [i, j]⟩ := by
    simp [MatrixView.MView.ofTensor, Fallible.idxC, hT.1, hsq]
  have hsim : Sim enc ⟨d0.2, d1.2, fun i j => T.get [i, j]⟩ s := ⟨by simp [hsq], by simp [hsq]⟩
  obtain ⟨m, em, sm, gm⟩ := sim_ops enc ops _ s hs2 hsim
  have hshape := (applyMatOps_shape ops s hs2).1
  have hstack : mviewStackT Fallible.Arith.fixed T ops r c =
      MatrixView.tensorRefMatrixWithNames m r c := by
    simp only [mviewStackT, h0, em]
  have hvalid : Fallible.isValidShape [(r, m.rows), (c, m.columns)] =
      isValidShape [(r, ((applyMatOps s ops).shape.getD 0 (default, 0)).2),
        (c, ((applyMatOps s ops).shape.getD 1 (default, 0)).2)] := by
    rw [sm.rows, sm.columns]; rfl
  constructor
  · intro hn
    simp only [mkMatrixStack, hs2, ne_eq, not_true_eq_false, if_false, mkMatrixOf, hshape] at hn
    split at hn
    · simp at hn
    · rename_i hv
      rw [hstack]
      simp only [MatrixView.tensorRefMatrixWithNames]
      rw [hvalid, if_neg hv]
      exact ⟨_, rfl⟩
  · intro v hv
    simp only [mkMatrixStack, hs2, ne_eq, not_true_eq_false, if_false, mkMatrixOf, hshape] at hv
    split at hv
    · rename_i hok
      simp only [Option.some.injEq] at hv
      subst hv
      rw [hstack]
      simp only [MatrixView.tensorRefMatrixWithNames, hvalid, hok, if_true]
      refine ⟨_, rfl, ⟨?_, ?_⟩, by simp [View.shape]⟩
      · simp [View.shape, sm.rows, sm.columns]
      · intro i j
        have hne : 1 ≤ ((applyMatOps s ops).shape.getD 0 (default, 0)).2 ∧
            1 ≤ ((applyMatOps s ops).shape.getD 1 (default, 0)).2 := by
          simp only [isValidShape, List.any_cons, List.any_nil, Bool.or_false, Bool.and_eq_true,
            Bool.not_eq_true', Bool.or_eq_false_iff, beq_eq_false_iff_ne, ne_eq] at hok
          omega
        have hg := gm hne.1 hne.2 (fun i j => hT.2 i j)
        simp only [Fallible.idxC, View.get]
        simpa using hg i j
    · simp at hv

/-- a tower of round trips: `TensorRefMatrix(ops(MatrixRefTensor(·)))` applied again and again -/
def mkTower : View ν α → List (List MatOp × ν × ν) → Option (View ν α)
  | s, [] => some s
  | s, (ops, r, c) :: rest =>
    match mkMatrixStack s ops r c with
    | some v => mkTower v rest
    | none => none

/-- the same tower in Model/MatrixView.lean -/
def mviewTower (A : Fallible.Arith) : Fallible.TView ν → List (List MatOp × ν × ν) →
    Outcome (Except (Shape ν) (Fallible.TView ν))
  | T, [] => .ok (.ok T)
  | T, (ops, r, c) :: rest =>
    match mviewStackT A T ops r c with
    | .ok (.ok T') => mviewTower A T' rest
    | .ok (.error sh) => .ok (.error sh)
    | .panic k => .panic k

theorem matrix_tower_bridge (enc : Cell → Nat) (layers : List (List MatOp × ν × ν)) :
    ∀ (T : Fallible.TView ν) (s : View ν α), s.shape.length = 2 → TSim enc T s →
    (mkTower s layers = none →
      ∃ sh, mviewTower Fallible.Arith.fixed T layers = .ok (.error sh)) ∧
    (∀ v, mkTower s layers = some v →
      ∃ T', mviewTower Fallible.Arith.fixed T layers = .ok (.ok T') ∧ TSim enc T' v) := by
  induction layers with
  | nil =>
    intro T s _ hT
    exact ⟨fun h => by simp [mkTower] at h, fun v h => by
      simp only [mkTower, Option.some.injEq] at h; subst h; exact ⟨T, rfl, hT⟩⟩
  | cons layer rest ih =>
    intro T s hs2 hT
    obtain ⟨ops, r, c⟩ := layer
    obtain ⟨hnone, hsome⟩ := matrix_stack_bridge_T T s hs2 enc hT ops r c
    cases hm : mkMatrixStack s ops r c with
    | none =>
      obtain ⟨sh, e⟩ := hnone hm
      exact ⟨fun _ => ⟨sh, by simp only [mviewTower, e]⟩, fun v h => by simp [mkTower, hm] at h⟩
    | some v1 =>
      obtain ⟨T1, e, hT1, h2⟩ := hsome v1 hm
      obtain ⟨a, b⟩ := ih T1 v1 h2 hT1
      constructor
      · intro h
        simp only [mkTower, hm] at h
        obtain ⟨sh, e2⟩ := a h
        exact ⟨sh, by simp only [mviewTower, e, e2]⟩
      · intro v h
        simp only [mkTower, hm] at h
        obtain ⟨T', e2, hT'⟩ := b v h
        exact ⟨T', by simp only [mviewTower, e, e2], hT'⟩

end EasyMl
