/-
  EasyMl.Lemmas.HeapsAll — Heap's algorithm (easy-ml's variant) is correct for every size:
  the emitted list enumerates the arrangements once each (`good_all`: end state `piK`, untouched
  tail, no duplicates — by induction on the level, using the closed forms of
  `EasyMl.Lemmas.HeapsArith`), consecutive emissions differ by one transposition and there are
  `k!` of them (`struct_all`); hence `enumerates_all` and `detModel_eq_det_all'`.
-/
import Mathlib.Data.List.Nodup
import EasyMl.Lemmas.DetPerm
import EasyMl.Lemmas.HeapsArith

namespace EasyMl.Det

/-! ### Re-indexing a list of naturals by a position map -/

def reindex (l : List Nat) (s : Nat → Nat) : List Nat :=
  (List.range l.length).map fun p => l.getD (s p) 0

@[simp] theorem reindex_length (l : List Nat) (s : Nat → Nat) : (reindex l s).length = l.length := by
  simp [reindex]

theorem reindex_getElem? (l : List Nat) (s : Nat → Nat) (p : Nat) (hp : p < l.length)
    (hs : s p < l.length) : (reindex l s)[p]? = l[s p]? := by
  simp [reindex, hp, List.getD_eq_getElem?_getD, List.getElem?_eq_getElem hs]

theorem reindex_congr (l : List Nat) (s t : Nat → Nat) (h : ∀ p, p < l.length → s p = t p) :
    reindex l s = reindex l t := by
  unfold reindex
  apply List.map_congr_left
  intro p hp
  rw [h p (by simpa using hp)]

theorem reindex_id (l : List Nat) : reindex l (fun p => p) = l := by
  apply List.ext_getElem
  · simp
  · intro p h1 h2
    simp [reindex, List.getD_eq_getElem?_getD, h2]

theorem reindex_reindex (l : List Nat) (s t : Nat → Nat) (ht : ∀ p, p < l.length → t p < l.length) :
    reindex (reindex l s) t = reindex l (fun p => s (t p)) := by
  apply List.ext_getElem
  · simp
  · intro p h1 h2
    have hp : p < l.length := by simpa using h2
    have htp := ht p hp
    simp [reindex, List.getD_eq_getElem?_getD, htp]

theorem heapsSwap_length (K i : Nat) (l : List Nat) : (heapsSwap K i l).length = l.length := by
  unfold heapsSwap
  split
  · split <;> exact swap_length _ _ _
  · rfl

theorem heapsSwap_eq_swap (K i : Nat) (l : List Nat) :
    heapsSwap K i l = if i < K - 1 then swap l (if K % 2 = 0 then i else 0) (K - 1) else l := by
  unfold heapsSwap
  by_cases h1 : i < K - 1
  · simp only [h1, if_true]
    by_cases h2 : K % 2 = 0
    · simp [h2]
    · simp [h2]
  · simp only [h1, if_false]

theorem heapsSwap_eq_reindex (K i : Nat) (l : List Nat) (hK : K ≤ l.length) (hi : i < K) :
    heapsSwap K i l = reindex l (tauK K i) := by
  apply List.ext_getElem?
  intro p
  by_cases hp : p < l.length
  · rw [reindex_getElem? l _ p hp (tauK_lt K i l.length p hK hi hp), heapsSwap_eq_swap]
    unfold tauK
    by_cases h1 : i < K - 1
    · simp only [h1, if_true]
      rw [swap_getElem? l _ _ _ (by split <;> omega) (by omega)]
      split_ifs <;> first | rfl | omega
    · simp only [h1, if_false]
  · rw [List.getElem?_eq_none (by rw [heapsSwap_length]; omega),
      List.getElem?_eq_none (by rw [reindex_length]; omega)]

theorem swap_nodup (l : List Nat) (x y : Nat) (h : l.Nodup) : (swap l x y).Nodup := by
  by_cases hx : x < l.length
  · by_cases hy : y < l.length
    · rw [List.nodup_iff_getElem?_ne_getElem?] at h ⊢
      intro p q hpq hq
      rw [swap_length] at hq
      rw [swap_getElem? l x y p hx hy, swap_getElem? l x y q hx hy]
      have key : ∀ a b : Nat, a < l.length → b < l.length → a ≠ b → l[a]? ≠ l[b]? := by
        intro a b ha hb hab
        rcases Nat.lt_or_gt_of_ne hab with hlt | hgt
        · exact h a b hlt hb
        · exact fun e => h b a hgt ha e.symm
      split_ifs <;> apply key <;> omega
    · have : l[y]? = none := List.getElem?_eq_none (by omega)
      unfold swap; simp [this, h]
  · have : l[x]? = none := List.getElem?_eq_none (by omega)
    unfold swap; simp [this, h]

theorem heapsSwap_nodup (K i : Nat) (l : List Nat) (h : l.Nodup) : (heapsSwap K i l).Nodup := by
  unfold heapsSwap
  split
  · split <;> exact swap_nodup _ _ _ h
  · exact h

/-! ### DIST and FINAL for every level `K ≥ 2` -/

theorem dist_all (K : Nat) (h2 : 2 ≤ K) (i j : Nat) (hi : i < K) (hj : j < K)
    (h : sigmaK K i (K - 1) = sigmaK K j (K - 1)) : i = j := by
  rcases Nat.mod_two_eq_zero_or_one K with hK | hK
  · by_cases h4 : 4 ≤ K
    · rw [sigmaK_even K hK h4 i _ (by omega), sigmaK_even K hK h4 j _ (by omega),
        cfEven_last K i h4 (by omega), cfEven_last K j h4 (by omega)] at h
      split_ifs at h <;> omega
    · have : K = 2 := by omega
      subst this
      have h0 : sigmaK 2 0 (2 - 1) = 1 := by decide
      have h1 : sigmaK 2 1 (2 - 1) = 0 := by decide
      have hi' : i = 0 ∨ i = 1 := by omega
      have hj' : j = 0 ∨ j = 1 := by omega
      rcases hi' with rfl | rfl <;> rcases hj' with rfl | rfl <;> simp_all
  · have h3 : 3 ≤ K := by omega
    rw [sigmaK_odd K hK i _ (by omega), sigmaK_odd K hK j _ (by omega),
      iter_cOdd K hK h3 i (by omega), iter_cOdd K hK h3 j (by omega)] at h
    exact cOdd_inj K i j h3 (by omega) (by omega) h

theorem final_all (K : Nat) (h2 : 2 ≤ K) (p : Nat) :
    sigmaK K (K - 1) (piK (K - 1) p) = piK K p := by
  rcases Nat.mod_two_eq_zero_or_one K with hK | hK
  · by_cases h4 : 4 ≤ K
    · rw [sigmaK_even K hK h4 (K - 1) _ (by omega)]
      have e : cfEven K (K - 1) (piK (K - 1) p) = cfL K (piK (K - 1) p) := by
        unfold cfEven
        have a0 : ¬ (K - 1 = 0) := by omega
        have a1 : ¬ (K - 1 = 1) := by omega
        simp only [a0, a1, if_false, if_true]
      rw [e, final_even K p hK h4]
    · have : K = 2 := by omega
      subst this
      have p1 : ∀ q, piK 1 q = q := by intro q; unfold piK; split_ifs <;> omega
      have e : sigmaK 2 (2 - 1) (piK (2 - 1) p) = piK 1 (tauK 2 0 (piK 1 p)) := rfl
      rw [e, p1, p1]
      unfold piK tauK
      split_ifs <;> omega
  · have h3 : 3 ≤ K := by omega
    rw [sigmaK_odd K hK (K - 1) _ (by omega), final_odd K p hK h3]

/-! ### The loop of level `K` unrolled -/

/-- the list before the `i`-th recursive call of level `K` (`k = K - 1`) -/
def Lseq (k K : Nat) (l : List Nat) : Nat → List Nat
  | 0 => l
  | i + 1 => heapsSwap K i (heapsPure k (Lseq k K l i)).1

theorem loopPure_eq (k K : Nat) (l : List Nat) (fuel i : Nat) :
    loopPure (heapsPure k) K fuel i (Lseq k K l i)
      = (Lseq k K l (i + fuel),
         ((List.range' i fuel).map fun j => (heapsPure k (Lseq k K l j)).2).flatten) := by
  induction fuel generalizing i with
  | zero => simp [loopPure]
  | succ f ih =>
    simp only [loopPure]
    have e : heapsSwap K i (heapsPure k (Lseq k K l i)).1 = Lseq k K l (i + 1) := rfl
    rw [e, ih (i + 1)]
    have e2 : i + 1 + f = i + (f + 1) := by omega
    rw [e2, List.range'_succ]
    simp

theorem heapsPure_succ_succ (k : Nat) (l : List Nat) :
    heapsPure (k + 2) l
      = (Lseq (k + 1) (k + 2) l (k + 2),
         ((List.range (k + 2)).map fun j => (heapsPure (k + 1) (Lseq (k + 1) (k + 2) l j)).2).flatten) := by
  have h := loopPure_eq (k + 1) (k + 2) l (k + 2) 0
  rw [Nat.zero_add] at h
  rw [List.range_eq_range']
  exact h

/-- what the induction carries about level `k` (for lists of naturals without duplicates) -/
def Good (k : Nat) : Prop :=
  ∀ (n : Nat) (l : List Nat), k ≤ n → l.length = n → l.Nodup →
    (heapsPure k l).1 = reindex l (piK k) ∧
    (∀ q ∈ (heapsPure k l).2, q.length = n ∧ q.Nodup ∧ ∀ p, k ≤ p → q[p]? = l[p]?) ∧
    (heapsPure k l).2.Nodup

theorem good_zero : Good 0 := by
  intro n l _ _ _
  refine ⟨?_, by simp [heapsPure], by simp [heapsPure]⟩
  simp only [heapsPure]
  rw [reindex_congr l (piK 0) (fun p => p) (fun p _ => by simp [piK]), reindex_id]

theorem good_one : Good 1 := by
  intro n l _ hlen hnd
  refine ⟨?_, ?_, by simp [heapsPure]⟩
  · simp only [heapsPure]
    rw [reindex_congr l (piK 1) (fun p => p) (fun p _ => by unfold piK; split_ifs <;> omega),
      reindex_id]
  · intro q hq
    simp only [heapsPure, List.mem_singleton] at hq
    subst hq
    exact ⟨hlen, hnd, fun _ _ => rfl⟩

/-- the final list of a level is its last emission (`k ≥ 1`) -/
theorem final_mem (k : Nat) (l : List Nat) : (heapsPure (k + 1) l).1 ∈ (heapsPure (k + 1) l).2 := by
  induction k generalizing l with
  | zero => simp [heapsPure]
  | succ k ih =>
    rw [heapsPure_succ_succ]
    simp only [List.mem_flatten, List.mem_map, List.mem_range]
    refine ⟨_, ⟨k + 1, by omega, rfl⟩, ?_⟩
    have e : Lseq (k + 1) (k + 2) l (k + 2)
        = heapsSwap (k + 2) (k + 1) (heapsPure (k + 1) (Lseq (k + 1) (k + 2) l (k + 1))).1 := rfl
    rw [e, heapsSwap_eq_swap]
    have : ¬ (k + 1 < k + 2 - 1) := by omega
    rw [if_neg this]
    exact ih _

theorem Lseq_spec (k : Nat) (hg : Good (k + 1)) (n : Nat) (l : List Nat) (hkn : k + 2 ≤ n)
    (hlen : l.length = n) (hnd : l.Nodup) (i : Nat) (hi : i ≤ k + 2) :
    Lseq (k + 1) (k + 2) l i = reindex l (sigmaK (k + 2) i) ∧
      (Lseq (k + 1) (k + 2) l i).length = n ∧ (Lseq (k + 1) (k + 2) l i).Nodup := by
  induction i with
  | zero =>
    refine ⟨?_, hlen, hnd⟩
    simp only [Lseq]
    rw [reindex_congr l (sigmaK (k + 2) 0) (fun p => p) (fun p _ => rfl), reindex_id]
  | succ i ih =>
    obtain ⟨hL, hLlen, hLnd⟩ := ih (by omega)
    obtain ⟨gF, gE, _⟩ := hg n _ (by omega) hLlen hLnd
    have hFlen : (heapsPure (k + 1) (Lseq (k + 1) (k + 2) l i)).1.length = n := by
      rw [gF, reindex_length, hLlen]
    have hFnd : (heapsPure (k + 1) (Lseq (k + 1) (k + 2) l i)).1.Nodup :=
      (gE _ (final_mem k _)).2.1
    refine ⟨?_, ?_, ?_⟩
    · show heapsSwap (k + 2) i (heapsPure (k + 1) (Lseq (k + 1) (k + 2) l i)).1 = _
      rw [heapsSwap_eq_reindex (k + 2) i _ (by omega) (by omega), gF, hL]
      rw [reindex_reindex _ _ _ (fun p hp => by
        rw [reindex_length] at hp ⊢
        exact tauK_lt (k + 2) i _ p (by omega) (by omega) hp)]
      rw [reindex_reindex _ _ _ (fun p hp =>
        piK_lt (k + 1) _ _ (by omega) (tauK_lt (k + 2) i _ p (by omega) (by omega) hp))]
      exact reindex_congr _ _ _ (fun p _ => rfl)
    · show (heapsSwap (k + 2) i _).length = n
      rw [heapsSwap_length, hFlen]
    · exact heapsSwap_nodup _ _ _ hFnd

theorem good_succ (k : Nat) (hg : Good (k + 1)) : Good (k + 2) := by
  intro n l hkn hlen hnd
  rw [heapsPure_succ_succ]
  have hspec := Lseq_spec k hg n l hkn hlen hnd
  refine ⟨?_, ?_, ?_⟩
  · -- the end state
    rw [(hspec (k + 2) (Nat.le_refl _)).1]
    apply reindex_congr
    intro p _
    have e : sigmaK (k + 2) (k + 2) p
        = sigmaK (k + 2) (k + 1) (piK (k + 1) (tauK (k + 2) (k + 1) p)) := rfl
    have e2 : tauK (k + 2) (k + 1) p = p := by
      unfold tauK
      have : ¬ (k + 1 < k + 2 - 1) := by omega
      simp only [this, if_false]
    rw [e, e2]
    exact final_all (k + 2) (by omega) p
  · -- every emission keeps the untouched tail
    intro q hq
    simp only [List.mem_flatten, List.mem_map, List.mem_range] at hq
    obtain ⟨_, ⟨j, hj, rfl⟩, hq⟩ := hq
    obtain ⟨hL, hLlen, hLnd⟩ := hspec j (by omega)
    obtain ⟨_, gE, _⟩ := hg n _ (by omega) hLlen hLnd
    obtain ⟨h1, h2, h3⟩ := gE q hq
    refine ⟨h1, h2, ?_⟩
    intro p hp
    rw [h3 p (by omega), hL]
    by_cases hpn : p < n
    · rw [reindex_getElem? l _ p (by omega) (by rw [sigmaK_fix (k + 2) j p hp]; omega),
        sigmaK_fix (k + 2) j p hp]
    · rw [List.getElem?_eq_none (by rw [reindex_length]; omega),
        List.getElem?_eq_none (by omega)]
  · -- no arrangement is emitted twice
    rw [List.nodup_flatten]
    constructor
    · intro blk hblk
      simp only [List.mem_map, List.mem_range] at hblk
      obtain ⟨j, hj, rfl⟩ := hblk
      obtain ⟨_, hLlen, hLnd⟩ := hspec j (by omega)
      exact (hg n _ (by omega) hLlen hLnd).2.2
    · rw [List.pairwise_map]
      refine List.Pairwise.imp_of_mem ?_ List.nodup_range
      intro i j hi hj hij
      simp only [List.mem_range] at hi hj
      rw [List.disjoint_left]
      intro q hqi hqj
      obtain ⟨hLi, hLilen, hLind⟩ := hspec i (by omega)
      obtain ⟨hLj, hLjlen, hLjnd⟩ := hspec j (by omega)
      have hi3 := ((hg n _ (by omega) hLilen hLind).2.1 q hqi).2.2 (k + 1) (Nat.le_refl _)
      have hj3 := ((hg n _ (by omega) hLjlen hLjnd).2.1 q hqj).2.2 (k + 1) (Nat.le_refl _)
      have hsi : sigmaK (k + 2) i (k + 1) < l.length := by
        rw [hlen]; exact sigmaK_lt (k + 2) i n (k + 1) hkn (by omega) (by omega)
      have hsj : sigmaK (k + 2) j (k + 1) < l.length := by
        rw [hlen]; exact sigmaK_lt (k + 2) j n (k + 1) hkn (by omega) (by omega)
      rw [hLi, reindex_getElem? l _ (k + 1) (by omega) hsi] at hi3
      rw [hLj, reindex_getElem? l _ (k + 1) (by omega) hsj] at hj3
      have heq : l[sigmaK (k + 2) i (k + 1)]? = l[sigmaK (k + 2) j (k + 1)]? := by
        rw [← hi3, ← hj3]
      rw [List.getElem?_eq_getElem hsi, List.getElem?_eq_getElem hsj, Option.some.injEq,
        hnd.getElem_inj_iff] at heq
      exact hij (dist_all (k + 2) (by omega) i j hi hj heq)

theorem good_all : ∀ k, Good k
  | 0 => good_zero
  | 1 => good_one
  | k + 2 => good_succ k (good_all (k + 1))

/-! ### Structure of the emitted list: head, last, transposition chain, length -/

/-- `y` is `x` with two different positions `a < b < n` exchanged -/
def SwapStep (n : Nat) (x y : List Nat) : Prop := ∃ a b, a < b ∧ b < n ∧ y = swap x a b

def ChainL (n : Nat) : List (List Nat) → Prop
  | x :: y :: rest => SwapStep n x y ∧ ChainL n (y :: rest)
  | _ => True

theorem chainL_append (n : Nat) (A B : List (List Nat)) (hA : ChainL n A) (hB : ChainL n B)
    (hAB : ∀ x y, A.getLast? = some x → B.head? = some y → SwapStep n x y) : ChainL n (A ++ B) := by
  induction A with
  | nil => simpa using hB
  | cons x A ih =>
    cases A with
    | nil =>
      cases B with
      | nil => simp [ChainL]
      | cons y B => exact ⟨hAB x y (by simp) (by simp), hB⟩
    | cons x' A =>
      refine ⟨hA.1, ?_⟩
      apply ih hA.2
      intro a b ha hb
      exact hAB a b (by simpa using ha) hb

def Struct (n k : Nat) : Prop :=
  ∀ l : List Nat, (∃ rest, (heapsPure k l).2 = l :: rest) ∧ ChainL n (heapsPure k l).2 ∧
    (heapsPure k l).2.getLast? = some (heapsPure k l).1 ∧ (heapsPure k l).2.length = fact k

theorem struct_loop (n k K : Nat) (hK : K ≤ n) (hs : Struct n k) (fuel i : Nat) (L : List Nat)
    (hfuel : 1 ≤ fuel) (hiK : i + fuel = K) :
    (∃ rest, (loopPure (heapsPure k) K fuel i L).2 = L :: rest) ∧
      ChainL n (loopPure (heapsPure k) K fuel i L).2 ∧
      (loopPure (heapsPure k) K fuel i L).2.getLast? = some (loopPure (heapsPure k) K fuel i L).1 ∧
      (loopPure (heapsPure k) K fuel i L).2.length = fuel * fact k := by
  induction fuel generalizing i L with
  | zero => omega
  | succ f ih =>
    obtain ⟨⟨restE, hE⟩, hchain, hlast, hlenE⟩ := hs L
    by_cases hf : f = 0
    · subst hf
      have hsw : heapsSwap K i (heapsPure k L).1 = (heapsPure k L).1 := by
        rw [heapsSwap_eq_swap, if_neg (by omega)]
      simp only [loopPure, hsw, List.append_nil]
      exact ⟨⟨restE, hE⟩, hchain, hlast, by simp [hlenE]⟩
    · obtain ⟨⟨rest', h1⟩, h2, h3, h4⟩ :=
        ih (i + 1) (heapsSwap K i (heapsPure k L).1) (by omega) (by omega)
      simp only [loopPure]
      refine ⟨⟨restE ++ (loopPure (heapsPure k) K f (i + 1) (heapsSwap K i (heapsPure k L).1)).2,
        by rw [hE]; rfl⟩, ?_, ?_, ?_⟩
      · apply chainL_append n _ _ hchain h2
        intro x y hx hy
        rw [hlast] at hx
        rw [h1] at hy
        simp only [Option.some.injEq, List.head?_cons] at hx hy
        subst hx hy
        rw [heapsSwap_eq_swap, if_pos (by omega)]
        refine ⟨if K % 2 = 0 then i else 0, K - 1, by split <;> omega, by omega, rfl⟩
      · rw [List.getLast?_append, h3]
        simp
      · rw [List.length_append, hlenE, h4]
        ring

theorem struct_all (n : Nat) : ∀ k, 1 ≤ k → k ≤ n → Struct n k
  | 0, h, _ => by omega
  | 1, _, _ => by
    intro l
    simp [heapsPure, ChainL, fact]
  | k + 2, _, hk => by
    intro l
    have hs := struct_all n (k + 1) (by omega) (by omega)
    have := struct_loop n (k + 1) (k + 2) hk hs (k + 2) 0 l (by omega) (by omega)
    simp only [heapsPure]
    obtain ⟨h1, h2, h3, h4⟩ := this
    refine ⟨h1, h2, h3, ?_⟩
    rw [h4]
    simp [fact]

/-! ### Heap's algorithm enumerates `Perm (Fin n)` with signs, every `n ≥ 1` -/

open Equiv in
theorem chain_enc' {n : Nat} (σ : Perm (Fin n)) (rest : List (List Nat))
    (h : ChainL n (toList σ :: rest)) :
    ∃ τs : List (Perm (Fin n)),
      flagged (decide (Perm.sign σ = 1)) (toList σ :: rest) = (σ :: τs).map enc := by
  induction rest generalizing σ with
  | nil => exact ⟨[], by simp [flagged, enc]⟩
  | cons y rest ih =>
    obtain ⟨⟨a, b, hab, hb, hy⟩, hrest⟩ := h
    have ha : a < n := Nat.lt_trans hab hb
    have hne : (⟨a, ha⟩ : Fin n) ≠ ⟨b, hb⟩ := by simp [Fin.ext_iff]; omega
    rw [swap_toList σ a b ha hb] at hy
    subst hy
    obtain ⟨τs, hτs⟩ := ih _ hrest
    refine ⟨(σ * Equiv.swap ⟨a, ha⟩ ⟨b, hb⟩) :: τs, ?_⟩
    have hflag : (!decide (Perm.sign σ = 1))
        = decide (Perm.sign (σ * Equiv.swap ⟨a, ha⟩ ⟨b, hb⟩) = 1) := by
      rw [Perm.sign_mul, Perm.sign_swap hne]
      rcases sign_eq_one_or σ with h1 | h1 <;> simp [h1]
    simp only [flagged, List.map_cons] at hτs ⊢
    rw [hflag, hτs]
    simp [enc]

open Equiv in
/-- **Heap's algorithm is correct for every size.** -/
theorem enumerates_all (n : Nat) (h1 : 1 ≤ n) :
    ∃ σs : List (Perm (Fin n)), σs.Nodup ∧ (∀ σ, σ ∈ σs) ∧
      generatePermutations (List.range n) = σs.map enc := by
  obtain ⟨⟨rest, hE⟩, hchain, _, hlen⟩ := struct_all n n h1 (Nat.le_refl n) (List.range n)
  have hnd := (good_all n n (List.range n) (Nat.le_refl n) (by simp) List.nodup_range).2.2
  have hgen : generatePermutations (List.range n)
      = flagged true (heapsPure n (List.range n)).2 := by
    rw [generatePermutations_eq]; simp
  rw [hE] at hchain hnd hlen
  rw [hgen, hE]
  have h1' : List.range n = toList (1 : Perm (Fin n)) := toList_one.symm
  rw [h1'] at hchain ⊢
  obtain ⟨τs, hτs⟩ := chain_enc' (1 : Perm (Fin n)) rest hchain
  have hs1 : decide (Perm.sign (1 : Perm (Fin n)) = 1) = true := by simp
  rw [hs1] at hτs
  refine ⟨1 :: τs, ?_, ?_, hτs⟩
  · -- distinct because the emitted arrangements are
    have hfst : (flagged true (toList (1 : Perm (Fin n)) :: rest)).map (·.1)
        = toList (1 : Perm (Fin n)) :: rest := flagged_map_fst _ _
    rw [hτs, List.map_map] at hfst
    rw [h1', ← hfst] at hnd
    exact List.Nodup.of_map _ hnd
  · have hnd' : ((1 : Perm (Fin n)) :: τs).Nodup := by
      have hfst : (flagged true (toList (1 : Perm (Fin n)) :: rest)).map (·.1)
          = toList (1 : Perm (Fin n)) :: rest := flagged_map_fst _ _
      rw [hτs, List.map_map] at hfst
      rw [h1', ← hfst] at hnd
      exact List.Nodup.of_map _ hnd
    have hlen' : ((1 : Perm (Fin n)) :: τs).length = fact n := by
      have := congrArg List.length hτs
      rw [flagged_length, List.length_map] at this
      rw [← this]
      simpa using hlen
    have hcard : ((1 : Perm (Fin n)) :: τs).toFinset.card = Fintype.card (Perm (Fin n)) := by
      rw [List.toFinset_card_of_nodup hnd', Fintype.card_perm, Fintype.card_fin, ← fact_eq, hlen']
    have huniv := Finset.eq_univ_of_card _ hcard
    intro σ
    have : σ ∈ ((1 : Perm (Fin n)) :: τs).toFinset := by rw [huniv]; exact Finset.mem_univ σ
    exact List.mem_toFinset.mp this

/-- The model's Leibniz sum is Mathlib's determinant, every size `n ≥ 1`, any commutative ring. -/
theorem detModel_eq_det_all' {R : Type} [CommRing R] (n : Nat) (h1 : 1 ≤ n) (get : Nat → Nat → R) :
    detModel n get = (sqMat n get).det := by
  obtain ⟨σs, hnd, hall, htab⟩ := enumerates_all n h1
  unfold detModel
  rw [withEach_eq, htab]
  exact det_of_enumeration' σs hnd hall get

end EasyMl.Det
