/-
  EasyMl.Lemmas.Determinism — helper lemmas for C18 (results are a pure function of the explicit
  inputs): the tangent semantics of a tape recorded after a prefix of unrelated entries, and the
  naturality of Heap's algorithm in the elements of the list.
-/
import EasyMl.Lemmas.Tape
import EasyMl.Lemmas.DetHeaps

namespace EasyMl

/-! ### sequences of appends -/

namespace C18

/-- one append request: what is appended never matters for where it lands -/
inductive Append (R : Type) where
  | nullary
  | unary (parent : Nat) (derivative : R)
  | binary (leftParent : Nat) (leftDerivative : R) (rightParent : Nat) (rightDerivative : R)

/-- run a sequence of appends on a tape: the positions handed out and the final tape -/
def appendAll {R : Type} [Zero R] : Tape R → List (Append R) → List Nat × Tape R
  | t, [] => ([], t)
  | t, a :: rest =>
    let r := match a with
      | .nullary => t.appendNullary
      | .unary p d => t.appendUnary p d
      | .binary lp ld rp rd => t.appendBinary lp ld rp rd
    let rr := appendAll r.2 rest
    (r.1 :: rr.1, rr.2)

end C18

/-! ### a computation recorded after `k` unrelated entries -/

section Shift
variable {R : Type}

/-- the entry a computation appends when `k` unrelated entries precede it on the tape: the same
    weights, both parents `k` positions later -/
def Op.shift (k : Nat) (op : Op R) : Op R :=
  ⟨op.leftParent + k, op.rightParent + k, op.leftDerivative, op.rightDerivative⟩

variable [CommRing R]

theorem getD_append_add {α : Type} (a b : List α) (i : Nat) (d : α) :
    (a ++ b).getD (i + a.length) d = b.getD i d := by
  simp [List.getD_eq_getElem?_getD, List.getElem?_append_right]

/-- tangents with an all-zero seed vanish -/
theorem tapeTan_zero_getD (ops : Tape R) (i : Nat) :
    (tapeTan (fun _ => (0 : R)) ops).getD i 0 = 0 := by
  induction ops using List.reverseRecOn generalizing i with
  | nil => simp
  | append_singleton ops op ih =>
    rw [tapeTan_snoc, tanStep]
    by_cases hi : i < (tapeTan (fun _ => (0 : R)) ops).length
    · rw [getD_append_lt _ _ _ hi]; exact ih i
    · by_cases he : i = (tapeTan (fun _ => (0 : R)) ops).length
      · subst he
        rw [getD_append_length, ih, ih]
        ring
      · rw [getD_of_le _ _ (by simp only [List.length_append, List.length_singleton] at hi ⊢; omega)]

/-- The tangents of `pre ++ (ops shifted by |pre|)` are the tangents of `pre` followed by the
    tangents of `ops` under the correspondingly shifted seed: the shifted entries never look at
    the prefix. -/
theorem tapeTan_shift (seed : Nat → R) (pre ops : Tape R) :
    tapeTan seed (pre ++ ops.map (Op.shift pre.length)) =
      tapeTan seed pre ++ tapeTan (fun j => seed (j + pre.length)) ops := by
  induction ops using List.reverseRecOn with
  | nil => simp
  | append_singleton ops op ih =>
    rw [List.map_append, ← List.append_assoc, List.map_singleton, tapeTan_snoc, ih, tapeTan_snoc]
    simp only [tanStep, Op.shift, List.length_append, tapeTan_length, List.append_assoc]
    have hl : (tapeTan seed pre).length = pre.length := tapeTan_length seed pre
    have e1 := getD_append_add (tapeTan seed pre) (tapeTan (fun j => seed (j + pre.length)) ops)
      op.leftParent (0 : R)
    have e2 := getD_append_add (tapeTan seed pre) (tapeTan (fun j => seed (j + pre.length)) ops)
      op.rightParent (0 : R)
    rw [hl] at e1 e2
    rw [e1, e2, Nat.add_comm pre.length ops.length]

theorem Tape.WF_shift (pre ops : Tape R) (hp : Tape.WF pre) (ho : Tape.WF ops) :
    Tape.WF (pre ++ ops.map (Op.shift pre.length)) := by
  intro i hi
  by_cases hlt : i < pre.length
  · rw [List.getElem_append_left hlt]
    exact hp i hlt
  · have hge : pre.length ≤ i := by omega
    have hj : i - pre.length < ops.length := by simp at hi; omega
    rw [List.getElem_append_right hge]
    simp only [List.getElem_map, Op.shift]
    obtain ⟨h1, h2⟩ := ho (i - pre.length) hj
    constructor
    · rcases h1 with h | ⟨h, hz⟩
      · left; omega
      · right; exact ⟨by omega, hz⟩
    · rcases h2 with h | ⟨h, hz⟩
      · left; omega
      · right; exact ⟨by omega, hz⟩

end Shift

/-! ### Heap's algorithm is natural in the elements -/

namespace Det
variable {α β : Type}

theorem swap_map (f : α → β) (l : List α) (i j : Nat) :
    swap (l.map f) i j = (swap l i j).map f := by
  unfold swap
  simp only [List.getElem?_map]
  cases hi : l[i]? <;> cases hj : l[j]? <;> simp [List.map_set]

theorem heapsSwap_map (f : α → β) (k i : Nat) (l : List α) :
    heapsSwap k i (l.map f) = (heapsSwap k i l).map f := by
  unfold heapsSwap
  split
  · split <;> exact swap_map f l _ _
  · rfl

theorem loopPure_map (f : α → β) (recA : List α → List α × List (List α))
    (recB : List β → List β × List (List β))
    (hrec : ∀ l, recB (l.map f) = ((recA l).1.map f, (recA l).2.map (List.map f)))
    (k fuel i : Nat) (l : List α) :
    loopPure recB k fuel i (l.map f) =
      ((loopPure recA k fuel i l).1.map f, (loopPure recA k fuel i l).2.map (List.map f)) := by
  induction fuel generalizing i l with
  | zero => simp [loopPure]
  | succ fuel ih =>
    simp only [loopPure, hrec, List.map_append]
    rw [heapsSwap_map, ih]

theorem heapsPure_map (f : α → β) (k : Nat) (l : List α) :
    heapsPure k (l.map f) = ((heapsPure k l).1.map f, (heapsPure k l).2.map (List.map f)) := by
  induction k generalizing l with
  | zero => simp [heapsPure]
  | succ k ih =>
    cases k with
    | zero => simp [heapsPure]
    | succ k =>
      simp only [heapsPure]
      exact loopPure_map f _ _ (fun l => ih l) _ _ _ _

theorem flagged_map (f : α → β) (e : Bool) (ps : List (List α)) :
    flagged e (ps.map (List.map f)) = (flagged e ps).map fun pe => (pe.1.map f, pe.2) := by
  induction ps generalizing e with
  | nil => rfl
  | cons p ps ih => simp [flagged, ih]

end Det

end EasyMl
