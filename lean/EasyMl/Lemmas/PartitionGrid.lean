/-
  EasyMl.Lemmas.PartitionGrid — what the grid of `Matrix::partition` consists of: sizes, the cell
  each index of a part designates, rectangular row slices, and that the parts' cells together are
  a rearrangement of all the matrix cells (hence pairwise disjoint and covering).
-/
import EasyMl.Lemmas.Partition
import Mathlib.Data.List.Perm.Basic
import Mathlib.Data.List.Nodup

namespace EasyMl.MatrixView
open EasyMl.Spec EasyMl.Fallible

set_option linter.unusedSectionVars false
set_option linter.unusedVariables false

theorem partSlices_length (C rs rl cs cl : Nat) : (partSlices C rs rl cs cl).length = rl := by
  simp [partSlices]

theorem partSlices_mem (C rs rl cs cl : Nat) :
    ∀ slice ∈ partSlices C rs rl cs cl, slice.length = cl := by
  intro slice h
  simp only [partSlices, List.mem_map] at h
  obtain ⟨i, _, rfl⟩ := h
  simp

theorem ofSlices_size (C rs rl cs cl : Nat) :
    ((MatrixPart.ofSlices (partSlices C rs rl cs cl)).rows,
     (MatrixPart.ofSlices (partSlices C rs rl cs cl)).columns) = normSize rl cl := by
  simp only [MatrixPart.ofSlices, partSlices_length, normSize]
  cases rl with
  | zero => simp [partSlices]
  | succ rl =>
    have : (partSlices C rs (rl + 1) cs cl).head?.map (·.length) = some cl := by
      simp [partSlices, List.range_succ_eq_map]
    simp only [this, Option.getD_some]
    by_cases h : cl = 0
    · simp [h]
    · simp [h]

theorem ofSlices_data (C rs rl cs cl : Nat) :
    (MatrixPart.ofSlices (partSlices C rs rl cs cl)).data = partSlices C rs rl cs cl := by
  simp only [MatrixPart.ofSlices]; split <;> rfl

/-- the parts handed out have rectangular row slices of the advertised size -/
theorem ofSlices_rect (C rs rl cs cl : Nat) : (MatrixPart.ofSlices (partSlices C rs rl cs cl)).Rect := by
  have hsz := ofSlices_size C rs rl cs cl
  simp only [normSize] at hsz
  refine ⟨?_, ?_⟩
  · rw [ofSlices_data, partSlices_length]
    split at hsz <;> simp only [Prod.mk.injEq] at hsz <;> omega
  · intro slice hs
    rw [ofSlices_data] at hs
    rw [partSlices_mem C rs rl cs cl slice hs]
    split at hsz <;> simp only [Prod.mk.injEq] at hsz <;> omega

/-- the cell an index of a part designates -/
theorem ofSlices_get (C rs rl cs cl i j : Nat) :
    (MatrixPart.ofSlices (partSlices C rs rl cs cl)).get i j =
      .ok (if i < (normSize rl cl).1 ∧ j < (normSize rl cl).2 then some ((rs + i) * C + cs + j)
           else none) := by
  have hsz := ofSlices_size C rs rl cs cl
  simp only [Prod.ext_iff] at hsz
  simp only [MatrixPart.get, hsz.1, hsz.2, ofSlices_data]
  by_cases hin : i < (normSize rl cl).1 ∧ j < (normSize rl cl).2
  · have hout : ¬ (i ≥ (normSize rl cl).1 ∨ j ≥ (normSize rl cl).2) := by omega
    have hirl : i < rl := by
      simp only [normSize] at hin; split at hin <;> simp at hin <;> omega
    have hjcl : j < cl := by
      simp only [normSize] at hin; split at hin <;> simp at hin <;> omega
    have h1 : i < (partSlices C rs rl cs cl).length := by rw [partSlices_length]; exact hirl
    have h2 : (partSlices C rs rl cs cl)[i] = List.range' ((rs + i) * C + cs) cl := by
      simp [partSlices]
    have h3 : j < (List.range' ((rs + i) * C + cs) cl).length := by simpa using hjcl
    simp only [hout, if_false, idxC_ok h1, h2, idxC_ok h3, hin, and_self, if_true]
    simp [List.getElem_range']
  · have hout : (i ≥ (normSize rl cl).1 ∨ j ≥ (normSize rl cl).2) := by omega
    simp [hout, hin]

/-- the cells of a part: one block of consecutive offsets per row -/
theorem ofSlices_cells (C rs rl cs cl : Nat) :
    (MatrixPart.ofSlices (partSlices C rs rl cs cl)).cells =
      (List.range rl).flatMap fun i => List.range' ((rs + i) * C + cs) cl := by
  have hsz := ofSlices_size C rs rl cs cl
  simp only [Prod.ext_iff] at hsz
  simp only [MatrixPart.cells, hsz.1, hsz.2, ofSlices_data]
  by_cases h0 : rl = 0 ∨ cl = 0
  · simp only [normSize, h0, if_true, List.take_zero, List.map_nil, List.flatten_nil]
    rcases h0 with h | h
    · simp [h]
    · subst h
      have : ∀ l : List Nat, (l.flatMap fun i => List.range' ((rs + i) * C + cs) 0) = [] := by
        intro l
        induction l with
        | nil => rfl
        | cons a as ih => rw [List.flatMap_cons, ih]; rfl
      exact (this _).symm
  · simp only [normSize, h0, if_false]
    have h1 : (partSlices C rs rl cs cl).take rl = partSlices C rs rl cs cl := by
      rw [List.take_of_length_le]; rw [partSlices_length]; exact Nat.le_refl _
    rw [h1]
    simp only [partSlices, List.map_map, List.flatMap_def]
    congr 1
    apply List.map_congr_left
    intro i _
    simp [Function.comp, List.take_of_length_le]

/-! ### tiling -/

/-- consecutive blocks cut by non-decreasing boundaries tile the interval up to the last one -/
theorem tile_blocks (bounds : List Nat) (prev base : Nat) (hs : sortedLe (prev :: bounds) = true) :
    (diffs bounds prev).flatMap (fun c => List.range' (base + c.1) c.2) =
      List.range' (base + prev) (bounds.getLastD prev - prev) := by
  induction bounds generalizing prev with
  | nil => simp [diffs]
  | cons b bs ih =>
    obtain ⟨hpb, hs'⟩ := sortedLe_cons.mp hs
    have hge := sortedLe_le_last b bs hs'
    simp only [diffs, List.flatMap_cons, ih b hs', List.getLastD_cons]
    have : base + b = base + prev + 1 * (b - prev) := by omega
    rw [this, List.range'_append]
    congr 1
    omega

/-- … and scaled by the number of columns: whole rows -/
theorem tile_rows (bounds : List Nat) (prev C : Nat) (hs : sortedLe (prev :: bounds) = true) :
    (diffs bounds prev).flatMap (fun r => List.range' (r.1 * C) (r.2 * C)) =
      List.range' (prev * C) ((bounds.getLastD prev - prev) * C) := by
  induction bounds generalizing prev with
  | nil => simp [diffs]
  | cons b bs ih =>
    obtain ⟨hpb, hs'⟩ := sortedLe_cons.mp hs
    have hge := sortedLe_le_last b bs hs'
    simp only [diffs, List.flatMap_cons, ih b hs', List.getLastD_cons]
    have h1 : b * C = prev * C + 1 * ((b - prev) * C) := by
      rw [Nat.one_mul, ← Nat.add_mul]; congr 1; omega
    rw [h1, List.range'_append, ← Nat.add_mul]
    congr 2
    omega

theorem rows_of_blocks (rs rl C : Nat) :
    (List.range rl).flatMap (fun i => List.range' ((rs + i) * C) C) = List.range' (rs * C) (rl * C) := by
  induction rl with
  | zero => simp
  | succ n ih =>
    rw [List.range_succ, List.flatMap_append, ih]
    simp only [List.flatMap_cons, List.flatMap_nil, List.append_nil]
    have : (rs + n) * C = rs * C + 1 * (n * C) := by rw [Nat.one_mul, Nat.add_mul]
    rw [this, List.range'_append, Nat.succ_mul]

theorem flatMap_swap {α β γ : Type} (l1 : List α) (l2 : List β) (f : α → β → List γ) :
    (l1.flatMap fun a => l2.flatMap (f a)).Perm (l2.flatMap fun b => l1.flatMap fun a => f a b) := by
  induction l1 with
  | nil =>
    simp only [List.flatMap_nil]
    induction l2 with
    | nil => exact List.Perm.refl _
    | cons b bs ih => simpa [List.flatMap_cons] using ih
  | cons a as ih =>
    simp only [List.flatMap_cons]
    exact (List.Perm.append_left _ ih).trans (List.flatMap_append_perm l2 (f a) _)

/-- **Disjoint and covering.**  Concatenating the cells of all parts of the grid (in grid order)
    rearranges exactly the offsets `0 .. rows·columns` of the matrix: every matrix cell belongs
    to exactly one part. -/
theorem grid_cells_perm (m : MatrixMeta) (hm : m.Inv) (rp cp : List Nat)
    (h1 : axisChecked rp m.rows = true) (h2 : axisChecked cp m.columns = true)
    (h4 : sortedLe rp = true) (h5 : sortedLe cp = true) :
    ((gridSpec m rp cp).flatMap MatrixPart.cells).Perm (List.range m.dataLen) := by
  obtain ⟨hd, hr, hc, hb⟩ := hm
  have hcs : sortedLe (0 :: (cp ++ [m.columns])) = true := by
    rw [sortedLe_zero_cons, sortedLe_append_singleton _ _ (axisChecked_le h2)]; exact h5
  have hrs : sortedLe (0 :: (rp ++ [m.rows])) = true := by
    rw [sortedLe_zero_cons, sortedLe_append_singleton _ _ (axisChecked_le h1)]; exact h4
  have hclast : (cp ++ [m.columns]).getLastD 0 = m.columns := getLastD_append_singleton _ _ _
  have hrlast : (rp ++ [m.rows]).getLastD 0 = m.rows := getLastD_append_singleton _ _ _
  -- per row slice: the column slices' blocks of each matrix row, swapped, tile whole rows
  have hrow : ∀ r : Nat × Nat,
      (((diffs (cp ++ [m.columns]) 0).map fun c =>
          MatrixPart.ofSlices (partSlices m.columns r.1 r.2 c.1 c.2)).flatMap MatrixPart.cells).Perm
        (List.range' (r.1 * m.columns) (r.2 * m.columns)) := by
    intro r
    rw [List.flatMap_map]
    simp only [ofSlices_cells]
    refine (flatMap_swap _ _ _).trans ?_
    have : ∀ i, ((diffs (cp ++ [m.columns]) 0).flatMap fun c =>
        List.range' ((r.1 + i) * m.columns + c.1) c.2) = List.range' ((r.1 + i) * m.columns) m.columns := by
      intro i
      have := tile_blocks (cp ++ [m.columns]) 0 ((r.1 + i) * m.columns) hcs
      simpa [hclast] using this
    simp only [this, rows_of_blocks]
    exact List.Perm.refl _
  simp only [gridSpec, List.flatMap_assoc]
  refine (List.Perm.flatMap_left _ (fun r _ => hrow r)).trans ?_
  have := tile_rows (rp ++ [m.rows]) 0 m.columns hrs
  simp only [hrlast, Nat.zero_mul, Nat.sub_zero] at this
  rw [this, List.range_eq_range', hd]

/-! ### consequences used by the property theorems -/

theorem diffs_mem_bound (bounds : List Nat) (prev C : Nat) (hs : sortedLe (prev :: bounds) = true)
    (hC : ∀ b ∈ bounds, b ≤ C) : ∀ p ∈ diffs bounds prev, prev ≤ p.1 ∧ p.1 + p.2 ≤ C := by
  induction bounds generalizing prev with
  | nil => simp [diffs]
  | cons b bs ih =>
    obtain ⟨hpb, hs'⟩ := sortedLe_cons.mp hs
    intro p hp
    simp only [diffs, List.mem_cons] at hp
    rcases hp with rfl | hp
    · have := hC b (by simp); simp only; omega
    · have := ih b hs' (fun x hx => hC x (by simp [hx])) p hp
      omega

/-- every part of the grid is the rectangle of some row slice and some column slice -/
theorem gridSpec_mem (m : MatrixMeta) (rp cp : List Nat) :
    ∀ p ∈ gridSpec m rp cp, ∃ r ∈ diffs (rp ++ [m.rows]) 0, ∃ c ∈ diffs (cp ++ [m.columns]) 0,
      p = MatrixPart.ofSlices (partSlices m.columns r.1 r.2 c.1 c.2) := by
  intro p hp
  simp only [gridSpec, List.mem_flatMap, List.mem_map] at hp
  obtain ⟨r, hr, c, hc, rfl⟩ := hp
  exact ⟨r, hr, c, hc, rfl⟩

theorem ofSlices_get_mem_cells (C rs rl cs cl i j o : Nat)
    (h : (MatrixPart.ofSlices (partSlices C rs rl cs cl)).get i j = .ok (some o)) :
    o ∈ (MatrixPart.ofSlices (partSlices C rs rl cs cl)).cells := by
  rw [ofSlices_get] at h
  split at h
  · rename_i hin
    simp only [Outcome.ok.injEq, Option.some.injEq] at h
    subst h
    have hirl : i < rl := by
      simp only [normSize] at hin; split at hin <;> simp at hin <;> omega
    have hjcl : j < cl := by
      simp only [normSize] at hin; split at hin <;> simp at hin <;> omega
    rw [ofSlices_cells]
    simp only [List.mem_flatMap, List.mem_range, List.mem_range']
    exact ⟨i, hirl, j, hjcl, by omega⟩
  · simp at h

/-- two indexes of one rectangle that designate the same cell are the same index -/
theorem block_injective (C rs cs cl i j i' j' : Nat) (hcl : cs + cl ≤ C) (hj : j < cl) (hj' : j' < cl)
    (h : (rs + i) * C + cs + j = (rs + i') * C + cs + j') : i = i' ∧ j = j' := by
  have hii : i = i' := by
    rcases Nat.lt_trichotomy i i' with hlt | heq | hgt
    · exfalso
      have : (rs + i + 1) * C ≤ (rs + i') * C := Nat.mul_le_mul_right _ (by omega)
      rw [Nat.add_mul] at this; omega
    · exact heq
    · exfalso
      have : (rs + i' + 1) * C ≤ (rs + i) * C := Nat.mul_le_mul_right _ (by omega)
      rw [Nat.add_mul] at this; omega
  subst hii
  exact ⟨rfl, by omega⟩

/-- when `partition` returns, it returns the grid, and the boundary lists were acceptable -/
theorem partition_ok_grid (m : MatrixMeta) (hm : m.Inv) (rp cp : List Nat) (parts : List MatrixPart)
    (h : partition m rp cp = .ok parts) :
    parts = gridSpec m rp cp ∧ axisChecked rp m.rows = true ∧ axisChecked cp m.columns = true ∧
      sortedLe rp = true ∧ sortedLe cp = true := by
  rw [partition_eq_spec m hm] at h
  simp only [partitionSpec] at h
  by_cases h1 : axisChecked rp m.rows = true
  · by_cases h2 : axisChecked cp m.columns = true
    · by_cases h3 : (rp.length + 1) * (cp.length + 1) ≤ usizeMax
      · by_cases h4 : sortedLe rp = true
        · by_cases h5 : sortedLe cp = true
          · simp [h1, h2, h3, h4, h5] at h
            exact ⟨h.symm, h1, h2, h4, h5⟩
          · simp [h1, h2, h3, h4, h5] at h
        · simp [h1, h2, h3, h4] at h
      · simp [h1, h2, h3] at h
    · simp [h1, h2] at h
  · simp [h1] at h

end EasyMl.MatrixView
