/-
  EasyMl.Lemmas.ViewLayout — `data_layout`: whenever a well-formed view claims `Linear(order)`,
  `order` lists positions of its shape such that an index resolves to the row-major offset of its
  coordinates taken in that order, inside the one leaf the view spans (`Lin`, by induction over
  leaf / rename / reorder / transposition — the only adaptors that keep a linear layout); hence
  `TensorAccess::from_memory_order` walks offsets 0, 1, 2, … .  Proved for the repaired
  `map_linear_data_layout_to_transposed` (fix B-12).
-/
import EasyMl.Lemmas.ViewMapping
import EasyMl.Lemmas.ViewInjective
import Mathlib.Data.List.Nodup

namespace EasyMl
open EasyMl.Spec EasyMl.View
set_option linter.unusedSectionVars false
variable {ν : Type} [DecidableEq ν] [Inhabited ν] {α : Type}

/-- name / length of the dimension at a position of a shape -/
def nameAt (sh : Shape ν) (p : Nat) : ν := (sh.getD p (default, 0)).1
def lenAt (sh : Shape ν) (p : Nat) : Nat := (sh.getD p (default, 0)).2

theorem map_range_getD {β : Type} (l : List β) (x : β) :
    (List.range l.length).map (fun p => l.getD p x) = l := by
  apply List.ext_getElem (by simp)
  intro i h1 h2
  simp only [List.length_map, List.length_range] at h1
  simp only [List.getElem_map, List.getElem_range]
  exact getD_eq_getElem' h1 x

theorem map_range_nameAt (sh : Shape ν) : (List.range sh.length).map (nameAt sh) = namesOf sh := by
  have := congrArg (List.map (·.1)) (map_range_getD sh (default, 0))
  rw [List.map_map] at this
  exact this

theorem map_range_lenAt (sh : Shape ν) : (List.range sh.length).map (lenAt sh) = lens sh := by
  have := congrArg (List.map (·.2)) (map_range_getD sh (default, 0))
  rw [List.map_map] at this
  exact this

theorem positionOf_nameAt {sh : Shape ν} (hn : (namesOf sh).Nodup) {p : Nat} (hp : p < sh.length) :
    positionOf sh (nameAt sh p) = some p := by
  induction sh generalizing p with
  | nil => simp at hp
  | cons d ds ih =>
    simp only [namesOf_cons, List.nodup_cons] at hn
    cases p with
    | zero => simp [positionOf, findPos, nameAt]
    | succ p =>
      simp only [List.length_cons, Nat.add_lt_add_iff_right] at hp
      have hne : d.1 ≠ nameAt ds p := by
        intro he
        apply hn.1
        rw [he]
        simp only [nameAt, getD_eq_getElem' hp, namesOf]
        exact List.mem_map.2 ⟨ds[p], List.getElem_mem hp, rfl⟩
      have h1 : nameAt (d :: ds) (p + 1) = nameAt ds p := by simp [nameAt]
      have := ih hn.2 hp
      simp only [positionOf] at this
      simp only [positionOf, findPos, h1, hne, decide_false, Bool.false_eq_true, if_false, this,
        Option.map_some]

theorem mapM_positionOf {sh : Shape ν} (hn : (namesOf sh).Nodup) (P : List Nat)
    (hP : ∀ p ∈ P, p < sh.length) : (P.map (nameAt sh)).mapM (positionOf sh) = some P := by
  induction P with
  | nil => simp
  | cons p ps ih =>
    simp [List.mapM_cons, positionOf_nameAt hn (hP p (by simp)), ih (fun q hq => hP q (by simp [hq]))]

/-- The invariant of a view that claims a linear layout: a list `P` of positions of its shape
    (most significant dimension in memory first) such that the claimed order names exactly those
    positions, and an in-bounds index resolves to the row-major offset of its coordinates taken
    in that order, in the single leaf, which the view spans completely. -/
def Lin (v : View ν α) (order : List ν) : Prop :=
  ∃ (P : List Nat) (leaf : Nat) (data : List α),
    P.length = v.shape.length ∧ P.Nodup ∧ (∀ p ∈ P, p < v.shape.length) ∧
    order = P.map (nameAt v.shape) ∧
    v.leaves = [(leaf, data)] ∧ data.length = prod (P.map (lenAt v.shape)) ∧
    ∀ idx, inBounds (lens v.shape) idx = true →
      v.specCell idx = some (leaf, ravel (P.map (lenAt v.shape)) (P.map fun p => idx.getD p 0))

theorem lin_tensor (id : Nat) (t : Tensor ν α) (hw : (View.tensor id t).WF) :
    Lin (View.tensor id t) (namesOf t.shape) := by
  simp only [View.WF] at hw
  refine ⟨List.range t.shape.length, id, t.data, by simp [View.shape], List.nodup_range,
    by simp [View.shape], by simp [View.shape, map_range_nameAt], by simp [View.leaves], ?_, ?_⟩
  · simp only [View.shape, map_range_lenAt]; rw [hw.2.2.1]; rfl
  · intro idx hin
    simp only [View.shape] at hin ⊢
    have hl := inBounds_length hin
    simp only [lens_length] at hl
    have : (List.range t.shape.length).map (fun p => idx.getD p 0) = idx := by
      rw [← hl]; exact map_range_getD idx 0
    simp only [View.specCell, map_range_lenAt, this]

theorem lin_matrix (id : Nat) (m : Matrix α) (r c : ν) (hw : (View.matrix id m r c).WF) :
    Lin (View.matrix id m r c) [r, c] := by
  simp only [View.WF] at hw
  refine ⟨[0, 1], id, m.data, by simp [View.shape], by simp, by simp [View.shape],
    by simp [View.shape, nameAt], by simp [View.leaves], ?_, ?_⟩
  · simp [View.shape, lenAt, hw.1.1]
  · intro idx hin
    simp only [View.shape, lens_cons, lens_nil] at hin
    have hl := inBounds_length hin
    match idx, hl with
    | [a, b], _ => simp [View.specCell, View.shape, lenAt]

theorem lenAt_eq_lens_getD (sh : Shape ν) (p : Nat) : lenAt sh p = (lens sh).getD p 0 := by
  rw [lens_getD]; rfl

theorem nameAt_eq_names_getD (sh : Shape ν) (p : Nat) : nameAt sh p = (namesOf sh).getD p default := by
  by_cases hd : p < sh.length
  · simp [namesOf, nameAt, List.getD_eq_getElem?_getD, hd]
  · simp [namesOf, nameAt, List.getD_eq_getElem?_getD, List.getElem?_eq_none (by omega : sh.length ≤ p)]

theorem map_congr_mem {β γ : Type} {f g : β → γ} {l : List β} (h : ∀ x ∈ l, f x = g x) :
    l.map f = l.map g := List.map_congr_left h

theorem lin_rename (s : View ν α) (ns : List ν) (hw : (View.rename s ns).WF)
    (ih : ∀ order, s.layout = .ok (.linear order) → Lin s order) (order : List ν)
    (hl : (View.rename s ns).layout = .ok (.linear order)) : Lin (View.rename s ns) order := by
  simp only [View.WF] at hw
  have hgood := (View.correct s hw.1).1
  have hnod := (goodShape_iff.1 hgood).1
  simp only [View.layout] at hl
  cases hs : s.layout with
  | panic k => simp [hs] at hl
  | ok lay =>
    cases lay with
    | nonLinear => simp [hs] at hl
    | other => simp [hs] at hl
    | linear order_s =>
      obtain ⟨P, leaf, data, h1, h2, h3, h4, h5, h6, h7⟩ := ih order_s hs
      simp only [hs, renameLayout, h4, mapM_positionOf hnod P h3, Outcome.ok.injEq,
        DataLayout.linear.injEq] at hl
      have hname : ∀ p, nameAt (renameShape s.shape ns) p = ns.getD p default := by
        intro p; rw [nameAt_eq_names_getD, renameShape_names hw.2.1]
      have hlen : ∀ p, lenAt (renameShape s.shape ns) p = lenAt s.shape p := by
        intro p; rw [lenAt_eq_lens_getD, lenAt_eq_lens_getD, renameShape_lens hw.2.1]
      refine ⟨P, leaf, data, by simp [View.shape, renameShape_length hw.2.1, h1], h2,
        by simpa [View.shape, renameShape_length hw.2.1] using h3, ?_, by simpa [View.leaves] using h5, ?_, ?_⟩
      · rw [← hl]; simp only [View.shape]; exact map_congr_mem (fun p _ => (hname p).symm)
      · simp only [View.shape, show (lenAt (renameShape s.shape ns)) = lenAt s.shape from funext hlen]
        exact h6
      · intro idx hin
        simp only [View.shape, renameShape_lens hw.2.1] at hin
        simp only [View.specCell, View.shape, show (lenAt (renameShape s.shape ns)) = lenAt s.shape from funext hlen]
        exact h7 idx hin

/-- the reindexing shared by `TensorAccess` and `TensorTranspose` -/
theorem lin_reindex (s : View ν α) (m : DimensionMappings) (hm : MappingOK m s.shape.length)
    (P : List Nat) (h1 : P.length = s.shape.length) (h2 : P.Nodup) (h3 : ∀ p ∈ P, p < s.shape.length)
    (leaf : Nat) (sl : List Nat)
    (h7 : ∀ idx, inBounds (lens s.shape) idx = true →
      s.specCell idx = some (leaf, ravel sl (P.map fun p => idx.getD p 0))) :
    (P.map (m.sourceToRequested.getD · 0)).length = s.shape.length ∧
    (P.map (m.sourceToRequested.getD · 0)).Nodup ∧
    (∀ p ∈ P.map (m.sourceToRequested.getD · 0), p < s.shape.length) ∧
    ∀ idx, inBounds (lens s.shape) (m.mapDimensionsToSource idx) = true →
      s.specCell (m.mapDimensionsToSource idx) =
        some (leaf, ravel sl ((P.map (m.sourceToRequested.getD · 0)).map fun p => idx.getD p 0)) := by
  refine ⟨by simp [h1], ?_, ?_, ?_⟩
  · refine List.Nodup.map_on ?_ h2
    intro a ha b hb hab
    have ea := (hm.2.2.1 a (h3 a ha)).2
    have eb := (hm.2.2.1 b (h3 b hb)).2
    rw [hab] at ea
    omega
  · intro q hq
    obtain ⟨p, hp, rfl⟩ := List.mem_map.1 hq
    exact (hm.2.2.1 p (h3 p hp)).1
  · intro idx hin
    rw [h7 _ hin, List.map_map]
    congr 3
    apply map_congr_mem
    intro p hp
    simp only [Function.comp]
    exact mapDimensionsToSource_getD hm idx (h3 p hp)

theorem getD_reindex {m : DimensionMappings} {sh : Shape ν} (hm : MappingOK m sh.length) {p : Nat}
    (hp : p < sh.length) :
    (m.mapShapeToRequested sh).getD (m.sourceToRequested.getD p 0) (default, 0) =
      sh.getD p (default, 0) := by
  obtain ⟨hlt, hinv⟩ := hm.2.2.1 p hp
  rw [mapShapeToRequested_getElem hm hlt, hinv]

theorem lin_access (s : View ν α) (m : DimensionMappings) (hw : (View.access s m).WF)
    (ih : ∀ order, s.layout = .ok (.linear order) → Lin s order) (order : List ν)
    (hl : (View.access s m).layout = .ok (.linear order)) : Lin (View.access s m) order := by
  simp only [View.WF] at hw
  have hgood := (View.correct s hw.1).1
  have hlen := mapShapeToRequested_length hw.2
  simp only [View.layout] at hl
  obtain ⟨P, leaf, data, h1, h2, h3, h4, h5, h6, h7⟩ := ih order hl
  obtain ⟨r1, r2, r3, r4⟩ := lin_reindex s m hw.2 P h1 h2 h3 leaf (P.map (lenAt s.shape)) h7
  have hname : (P.map (m.sourceToRequested.getD · 0)).map (nameAt (m.mapShapeToRequested s.shape)) =
      P.map (nameAt s.shape) := by
    rw [List.map_map]
    apply map_congr_mem
    intro p hp
    simp only [Function.comp, nameAt, getD_reindex hw.2 (h3 p hp)]
  have hlens : (P.map (m.sourceToRequested.getD · 0)).map (lenAt (m.mapShapeToRequested s.shape)) =
      P.map (lenAt s.shape) := by
    rw [List.map_map]
    apply map_congr_mem
    intro p hp
    simp only [Function.comp, lenAt, getD_reindex hw.2 (h3 p hp)]
  refine ⟨P.map (m.sourceToRequested.getD · 0), leaf, data, by simpa [View.shape, hlen] using r1, r2,
    by simpa [View.shape, hlen] using r3, by simp only [View.shape]; rw [hname]; exact h4,
    by simpa [View.leaves] using h5, by simp only [View.shape]; rw [hlens]; exact h6, ?_⟩
  intro idx hin
  simp only [View.shape] at hin
  have la := inBounds_length hin
  simp only [lens_length, hlen] at la
  simp only [View.specCell, View.shape]
  rw [← mapDimensionsToSource_eq_coords_of_good hgood hw.2, hlens]
  exact r4 idx (by rw [access_inBounds hw.2 la, hin])

theorem lin_transpose (s : View ν α) (m : DimensionMappings) (hw : (View.transpose s m).WF)
    (ih : ∀ order, s.layout = .ok (.linear order) → Lin s order) (order : List ν)
    (hl : (View.transpose s m).layout = .ok (.linear order)) : Lin (View.transpose s m) order := by
  simp only [View.WF] at hw
  have hgood := (View.correct s hw.1).1
  have hnod := (goodShape_iff.1 hgood).1
  have hlen := mapShapeToRequested_length hw.2
  simp only [View.layout] at hl
  cases hs : s.layout with
  | panic k => simp [hs] at hl
  | ok lay =>
    cases lay with
    | nonLinear => simp [hs] at hl
    | other => simp [hs] at hl
    | linear order_s =>
      obtain ⟨P, leaf, data, h1, h2, h3, h4, h5, h6, h7⟩ := ih order_s hs
      simp only [hs, mapLinearDataLayoutToTransposed, h4, mapM_positionOf hnod P h3, Outcome.ok.injEq,
        DataLayout.linear.injEq] at hl
      obtain ⟨r1, r2, r3, r4⟩ := lin_reindex s m hw.2 P h1 h2 h3 leaf (P.map (lenAt s.shape)) h7
      have hvn : ∀ q, nameAt (transposeShape s.shape (m.mapShapeToRequested s.shape)) q = nameAt s.shape q := by
        intro q; rw [nameAt_eq_names_getD, nameAt_eq_names_getD, transposeShape_names hlen]
      have hvl : ∀ q, lenAt (transposeShape s.shape (m.mapShapeToRequested s.shape)) q =
          lenAt (m.mapShapeToRequested s.shape) q := by
        intro q; rw [lenAt_eq_lens_getD, lenAt_eq_lens_getD, transposeShape_lens hlen]
      have hlens : (P.map (m.sourceToRequested.getD · 0)).map
          (lenAt (transposeShape s.shape (m.mapShapeToRequested s.shape))) = P.map (lenAt s.shape) := by
        rw [List.map_map]
        apply map_congr_mem
        intro p hp
        show lenAt (transposeShape s.shape (m.mapShapeToRequested s.shape)) (m.sourceToRequested.getD p 0) =
          lenAt s.shape p
        rw [hvl]
        simp only [lenAt, getD_reindex hw.2 (h3 p hp)]
      refine ⟨P.map (m.sourceToRequested.getD · 0), leaf, data,
        by simpa [View.shape, transposeShape_length hlen] using r1, r2,
        by simpa [View.shape, transposeShape_length hlen] using r3, ?_,
        by simpa [View.leaves] using h5, by simp only [View.shape]; rw [hlens]; exact h6, ?_⟩
      · rw [← hl]
        simp only [View.shape, List.map_map]
        apply map_congr_mem
        intro p _
        show (s.shape.getD (m.sourceToRequested.getD p 0) (default, 0)).1 =
          nameAt (transposeShape s.shape (m.mapShapeToRequested s.shape)) (m.sourceToRequested.getD p 0)
        rw [hvn]; rfl
      · intro idx hin
        simp only [View.shape, transposeShape_lens hlen] at hin
        have la := inBounds_length hin
        simp only [lens_length, hlen] at la
        simp only [View.specCell, View.shape]
        rw [← mapDimensionsToSource_eq_coords_of_good hgood hw.2, hlens]
        exact r4 idx (by rw [access_inBounds hw.2 la, hin])

theorem nameAt_inj {sh : Shape ν} (hn : (namesOf sh).Nodup) {p q : Nat} (hp : p < sh.length)
    (hq : q < sh.length) (h : nameAt sh p = nameAt sh q) : p = q := by
  simp only [nameAt, getD_eq_getElem' hp, getD_eq_getElem' hq] at h
  exact nodup_getElem_inj hn (by simpa using hp) (by simpa using hq) (by simpa [namesOf] using h)

/-- `TensorRefMatrix` over `MatrixRefTensor` over a 2-dimensional view: row major and column
    major sources -/
theorem lin_matrixOf (s : View ν α) (r c : ν) (hw : (View.matrixOf s r c).WF)
    (ih : ∀ order, s.layout = .ok (.linear order) → Lin s order) (order : List ν)
    (hl : (View.matrixOf s r c).layout = .ok (.linear order)) : Lin (View.matrixOf s r c) order := by
  simp only [View.WF] at hw
  have hgood := (View.correct s hw.1).1
  have hnod := (goodShape_iff.1 hgood).1
  have hl2 := hw.2.1
  have hlens := matrixOf_lens s r c hl2
  have hlenAt : ∀ p, lenAt (View.matrixOf s r c).shape p = lenAt s.shape p := by
    intro p; rw [lenAt_eq_lens_getD, lenAt_eq_lens_getD, hlens]
  -- the shared conclusion once the position list of the source is known
  have finish : ∀ (a b : Nat), a < 2 → b < 2 → Lin s [nameAt s.shape a, nameAt s.shape b] →
      order = [nameAt (View.matrixOf s r c).shape a, nameAt (View.matrixOf s r c).shape b] →
      Lin (View.matrixOf s r c) order := by
    intro a b ha hb hlin ho
    obtain ⟨P, leaf, data, h1, h2, h3, h4, h5, h6, h7⟩ := hlin
    have hP : P = [a, b] := by
      rw [hl2] at h1
      match P, h1 with
      | [x, y], _ =>
        simp only [List.map_cons, List.map_nil, List.cons.injEq, and_true] at h4
        have hx := h3 x (by simp)
        have hy := h3 y (by simp)
        rw [nameAt_inj hnod (by omega) hx h4.1, nameAt_inj hnod (by omega) hy h4.2]
    subst hP
    refine ⟨[a, b], leaf, data, by simp [View.shape], h2, by simp [View.shape]; omega, by simpa using ho,
      by simpa [View.leaves] using h5, ?_, ?_⟩
    · simp only [List.map_cons, List.map_nil, hlenAt] at h6 ⊢; exact h6
    · intro idx hin
      rw [hlens] at hin
      simp only [View.specCell, List.map_cons, List.map_nil, hlenAt]
      simpa using h7 idx hin
  simp only [View.layout] at hl
  cases hs : s.layout with
  | panic k => simp [hs] at hl
  | ok lay =>
    simp only [hs, Outcome.ok.injEq] at hl
    simp only [matrixRefTensorLayout] at hl
    have hn0 : (s.shape.getD 0 (default, 0)).1 = nameAt s.shape 0 := rfl
    have hn1 : (s.shape.getD 1 (default, 0)).1 = nameAt s.shape 1 := rfl
    split at hl
    · rename_i hrow
      simp only [tensorRefMatrixLayout, DataLayout.linear.injEq] at hl
      refine finish 0 1 (by omega) (by omega) (ih _ (by rw [hs, hrow]; rfl)) ?_
      rw [← hl]; simp [View.shape, nameAt]
    · split at hl
      · rename_i hcol
        simp only [tensorRefMatrixLayout, DataLayout.linear.injEq] at hl
        refine finish 1 0 (by omega) (by omega) (ih _ (by rw [hs, hcol]; rfl)) ?_
        rw [← hl]; simp [View.shape, nameAt]
      · simp [tensorRefMatrixLayout] at hl

/-- every well-formed view that claims a linear layout satisfies the invariant -/
theorem View.layout_lin (v : View ν α) : v.WF → ∀ order, v.layout = .ok (.linear order) → Lin v order := by
  induction v using View.ind with
  | tensor id t =>
    intro hw order hl
    simp only [View.layout, Outcome.ok.injEq, DataLayout.linear.injEq] at hl
    rw [← hl]; exact lin_tensor id t hw
  | matrix id m r c =>
    intro hw order hl
    simp only [View.layout, Outcome.ok.injEq, DataLayout.linear.injEq] at hl
    rw [← hl]; exact lin_matrix id m r c hw
  | matrixOf s r c ih =>
    intro hw order hl
    exact lin_matrixOf s r c hw (ih (by simp only [View.WF] at hw; exact hw.1)) order hl
  | tmap s ih =>
    intro hw order hl
    simp only [View.WF] at hw
    simp only [View.layout] at hl
    obtain ⟨P, leaf, data, h1, h2, h3, h4, h5, h6, h7⟩ := ih hw order hl
    exact ⟨P, leaf, data, h1, h2, h3, h4, h5, h6, h7⟩
  | range s rs ih => intro _ order hl; simp [View.layout] at hl
  | mask s ms ih => intro _ order hl; simp [View.layout] at hl
  | index s p ih => intro _ order hl; simp [View.layout] at hl
  | expansion s e ih => intro _ order hl; simp [View.layout] at hl
  | rename s ns ih =>
    intro hw order hl
    exact lin_rename s ns hw (ih (by simp only [View.WF] at hw; exact hw.1)) order hl
  | reverse s r ih => intro _ order hl; simp [View.layout] at hl
  | access s m ih =>
    intro hw order hl
    exact lin_access s m hw (ih (by simp only [View.WF] at hw; exact hw.1)) order hl
  | transpose s m ih =>
    intro hw order hl
    exact lin_transpose s m hw (ih (by simp only [View.WF] at hw; exact hw.1)) order hl
  | stack ss along ih => intro _ order hl; simp [View.layout] at hl
  | chain ss along ih => intro _ order hl; simp [View.layout] at hl

/-- **Memory order.**  If a well-formed view claims `Linear(order)`, then `order` is a reordering
    of the view's dimension names (`TensorAccess::from_memory_order` cannot panic), and the access
    in that order visits, in its own row-major order, the offsets `0, 1, 2, …` of the single leaf
    the view is over, all of them. -/
theorem View.layout_memory_order (v : View ν α) (hw : v.WF) (order : List ν)
    (hl : v.layout = .ok (.linear order)) :
    (∃ m, DimensionMappings.new v.shape order = some m) ∧
    ∀ m, DimensionMappings.new v.shape order = some m →
      ∃ leaf data, v.leaves = [(leaf, data)] ∧
        data.length = prod (lens (View.access v m).shape) ∧
        ∀ idx, inBounds (lens (View.access v m).shape) idx = true →
          (View.access v m).get idx = .ok (some (leaf, ravel (lens (View.access v m).shape) idx)) := by
  obtain ⟨P, leaf, data, h1, h2, h3, h4, h5, h6, h7⟩ := View.layout_lin v hw order hl
  have hgood := (View.correct v hw).1
  have hnod := (goodShape_iff.1 hgood).1
  have honto := mem_of_nodup_lt h1 h2 h3
  constructor
  · apply new_some_of_same_names
    · rw [h4]; simp [h1]
    · intro n hn
      obtain ⟨p, hp, rfl⟩ := List.getElem_of_mem hn
      simp only [namesOf_length] at hp
      rw [h4]
      refine List.mem_map.2 ⟨p, honto p hp, ?_⟩
      simp only [nameAt, getD_eq_getElem' hp, namesOf, List.getElem_map]
    · intro r hr
      rw [h4] at hr
      obtain ⟨p, hp, rfl⟩ := List.mem_map.1 hr
      have hp' := h3 p hp
      simp only [nameAt, getD_eq_getElem' hp', namesOf]
      exact List.mem_map.2 ⟨_, List.getElem_mem hp', rfl⟩
  · intro m hm
    have hok := new_mappingOK hnod hm
    obtain ⟨_, _, t3, t4⟩ := new_tables hm
    -- the table requested→source is exactly `P`
    have hr2s : m.requestedToSource = P := by
      apply List.ext_getElem (by rw [t3, h1])
      intro d hd1 hd2
      have hd : d < v.shape.length := by omega
      obtain ⟨_, hlt, _, hname⟩ := t4 d hd
      rw [getD_eq_getElem' hd1] at hlt hname
      have hpd := h3 _ (List.getElem_mem hd2)
      have : order.getD d default = nameAt v.shape P[d] := by
        rw [h4, getD_eq_getElem' (by simp; omega)]; simp
      rw [this] at hname
      simp only [nameAt, getD_eq_getElem' hlt, getD_eq_getElem' hpd] at hname
      exact nodup_getElem_inj hnod (by simpa using hlt) (by simpa using hpd)
        (by simpa [namesOf] using hname)
    have hshape : lens (View.access v m).shape = P.map (lenAt v.shape) := by
      simp only [View.shape, DimensionMappings.mapShapeToRequested, hr2s, lens, List.map_map]
      rfl
    have hwa : (View.access v m).WF := by simp only [View.WF]; exact ⟨hw, hok⟩
    refine ⟨leaf, data, h5, by rw [hshape]; exact h6, ?_⟩
    intro idx hin
    have hca := View.correct _ hwa
    have la := inBounds_length hin
    simp only [lens_length] at la
    rw [hca.2 idx la (bounded_of_inBounds hin hca.1.lens_le)]
    simp only [View.specGet, hin, if_true, View.specCell]
    have la' : idx.length = v.shape.length := by
      rw [la]; simp only [View.shape]; exact mapShapeToRequested_length hok
    rw [← mapDimensionsToSource_eq_coords_of_good hgood hok,
      h7 _ (by rw [access_inBounds hok la']; simpa [View.shape] using hin), hshape]
    congr 4
    -- reading the reindexed tuple at the positions `P` gives the tuple back
    apply List.ext_getElem (by simp [h1, la'])
    intro d hd1 hd2
    have hd : d < v.shape.length := by omega
    have hdP : d < P.length := by omega
    simp only [List.getElem_map]
    rw [mapDimensionsToSource_getD hok idx (h3 _ (List.getElem_mem hdP))]
    have : P[d] = m.requestedToSource.getD d 0 := by
      rw [getD_eq_getElem' (by rw [hr2s]; exact hdP)]; simp [hr2s]
    rw [this, (hok.2.2.2 d hd).2, getD_eq_getElem' hd2]

/-- row-major offsets increase strictly along the lexicographic (iteration) order of in-bounds
    tuples: "visiting in the claimed order walks the storage in strictly increasing address order" -/
theorem ravel_lt_of_lex (ls a b : List Nat) (ha : inBounds ls a = true) (hb : inBounds ls b = true)
    (h : a < b) : ravel ls a < ravel ls b := by
  induction ls generalizing a b with
  | nil =>
    cases a <;> cases b <;> simp_all
  | cons l ls ih =>
    cases a with
    | nil => simp at ha
    | cons x xs =>
      cases b with
      | nil => simp at hb
      | cons y ys =>
        simp only [inBounds_cons_cons, Bool.and_eq_true, decide_eq_true_eq] at ha hb
        rw [List.cons_lt_cons_iff] at h
        simp only [ravel]
        rcases h with h | ⟨rfl, h⟩
        · have hx := ravel_lt ls xs ha.2
          have : (x + 1) * prod ls ≤ y * prod ls := Nat.mul_le_mul_right _ h
          rw [Nat.add_mul] at this
          omega
        · have := ih xs ys ha.2 hb.2 h
          omega

end EasyMl
