/-
  EasyMl.Lemmas.ViewLayout — `data_layout`: whenever a well-formed view claims `Linear(order)`,
  `order` lists positions of its shape such that an index resolves to the row-major offset of its
  coordinates taken in that order, inside the one leaf the view spans (`Lin`, by induction over
  leaf / rename / reorder / transposition — the only adaptors that keep a linear layout); hence
  `TensorAccess::from_memory_order` walks offsets 0, 1, 2, … .  Proved for the repaired
  `map_linear_data_layout_to_transposed` (fix B-12).
-/
import EasyMl.Lemmas.ViewMapping
import EasyMl.Lemmas.ViewInjective
import Mathlib.Data.List.Nodup

namespace EasyMl
open EasyMl.Spec EasyMl.View
set_option linter.unusedSectionVars false
variable {ν : Type} [DecidableEq ν] [Inhabited ν] {α : Type}

/-- name / length of the dimension at a position of a shape -/
def nameAt (sh : Shape ν) (p : Nat) : ν := (sh.getD p (default, 0)).1
def lenAt (sh : Shape ν) (p : Nat) : Nat := (sh.getD p (default, 0)).2

theorem map_range_getD {β : Type} (l : List β) (x : β) :
    (List.range l.length).map (fun p => l.getD p x) = l := by
  apply List.ext_getElem (by simp)
  intro i h1 h2
  simp only [List.length_map, List.length_range] at h1
  simp only [List.getElem_map, List.getElem_range]
  exact getD_eq_getElem' h1 x

theorem map_range_nameAt (sh : Shape ν) : (List.range sh.length).map (nameAt sh) = namesOf sh := by
  have := congrArg (List.map (·.1)) (map_range_getD sh (default, 0))
  rw [List.map_map] at this
  exact this

theorem map_range_lenAt (sh : Shape ν) : (List.range sh.length).map (lenAt sh) = lens sh := by
  have := congrArg (List.map (·.2)) (map_range_getD sh (default, 0))
  rw [List.map_map] at this
  exact this

theorem positionOf_nameAt {sh : Shape ν} (hn : (namesOf sh).Nodup) {p : Nat} (hp : p < sh.length) :
    positionOf sh (nameAt sh p) = some p := by
  induction sh generalizing p with
  | nil => simp at hp
  | cons d ds ih =>
    simp only [namesOf_cons, List.nodup_cons] at hn
    cases p with
    | zero => simp [positionOf, findPos, nameAt]
    | succ p =>
      simp only [List.length_cons, Nat.add_lt_add_iff_right] at hp
      have hne : d.1 ≠ nameAt ds p := by
        intro he
        apply hn.1
        rw [he]
        simp only [nameAt, getD_eq_getElem' hp, namesOf]
        exact List.mem_map.2 ⟨ds[p], List.getElem_mem hp, rfl⟩
      have h1 : nameAt (d :: ds) (p + 1) = nameAt ds p := by simp [nameAt]
      have := ih hn.2 hp
      simp only [positionOf] at this
      simp only [positionOf, findPos, h1, hne, decide_false, Bool.false_eq_true, if_false, this,
        Option.map_some]

theorem mapM_positionOf {sh : Shape ν} (hn : (namesOf sh).Nodup) (P : List Nat)
    (hP : ∀ p ∈ P, p < sh.length) : (P.map (nameAt sh)).mapM (positionOf sh) = some P := by
  induction P with
  | nil => simp
  | cons p ps ih =>
    simp [List.mapM_cons, positionOf_nameAt hn (hP p (by simp)), ih (fun q hq => hP q (by simp [hq]))]

/-- one dimension of a view that is laid out linearly: its position in the view's shape, where
    the view starts inside the leaf's extent along it, and that full extent -/
structure MemDim where
  pos : Nat
  start : Nat
  full : Nat

/-- The invariant of a view that claims a linear layout: the list `M` of its dimensions from the
    most significant in memory to the least (positions of its shape, with the offset of the view
    inside the leaf's extent and that extent) such that the claimed order names exactly those
    positions, the view lies inside the single leaf, and an in-bounds index resolves to the
    row-major offset, in the leaf's full extents, of its coordinates taken in that order and
    shifted by the starts. -/
def Lin (v : View ν α) (order : List ν) : Prop :=
  ∃ (M : List MemDim) (leaf : Nat) (data : List α),
    M.length = v.shape.length ∧ (M.map (·.pos)).Nodup ∧ (∀ m ∈ M, m.pos < v.shape.length) ∧
    order = M.map (fun m => nameAt v.shape m.pos) ∧
    v.leaves = [(leaf, data)] ∧ data.length = prod (M.map (·.full)) ∧
    (∀ m ∈ M, m.start + lenAt v.shape m.pos ≤ m.full) ∧
    ∀ idx, inBounds (lens v.shape) idx = true →
      v.specCell idx =
        some (leaf, ravel (M.map (·.full)) (M.map fun m => idx.getD m.pos 0 + m.start))

theorem lin_tensor (id : Nat) (t : Tensor ν α) (hw : (View.tensor id t).WF) :
    Lin (View.tensor id t) (namesOf t.shape) := by
  simp only [View.WF] at hw
  refine ⟨(List.range t.shape.length).map (fun p => ⟨p, 0, lenAt t.shape p⟩), id, t.data,
    by simp [View.shape], ?_, ?_, ?_, by simp [View.leaves], ?_, ?_, ?_⟩
  · simp only [List.map_map, Function.comp_def, List.map_id']; exact List.nodup_range
  · intro m hm
    obtain ⟨p, hp, rfl⟩ := List.mem_map.1 hm
    simpa [View.shape] using hp
  · simp only [View.shape, List.map_map, Function.comp_def]; exact (map_range_nameAt t.shape).symm
  · simp only [List.map_map, Function.comp_def, map_range_lenAt]; rw [hw.2.2.1]; rfl
  · intro m hm
    obtain ⟨p, _, rfl⟩ := List.mem_map.1 hm
    simp [View.shape]
  · intro idx hin
    simp only [View.shape] at hin ⊢
    have hl := inBounds_length hin
    simp only [lens_length] at hl
    have : (List.range t.shape.length).map (fun p => idx.getD p 0) = idx := by
      rw [← hl]; exact map_range_getD idx 0
    simp only [View.specCell, List.map_map, Function.comp_def, Nat.add_zero, map_range_lenAt, this]

theorem lin_matrix (id : Nat) (m : Matrix α) (r c : ν) (hw : (View.matrix id m r c).WF) :
    Lin (View.matrix id m r c) [r, c] := by
  simp only [View.WF] at hw
  refine ⟨[⟨0, 0, m.rows⟩, ⟨1, 0, m.columns⟩], id, m.data, by simp [View.shape], by simp,
    by simp [View.shape], by simp [View.shape, nameAt], by simp [View.leaves], ?_, ?_, ?_⟩
  · simp [hw.1.1]
  · simp [View.shape, lenAt]
  · intro idx hin
    simp only [View.shape, lens_cons, lens_nil] at hin
    have hl := inBounds_length hin
    match idx, hl with
    | [a, b], _ => simp [View.specCell]

theorem lenAt_eq_lens_getD (sh : Shape ν) (p : Nat) : lenAt sh p = (lens sh).getD p 0 := by
  rw [lens_getD]; rfl

theorem nameAt_eq_names_getD (sh : Shape ν) (p : Nat) : nameAt sh p = (namesOf sh).getD p default := by
  by_cases hd : p < sh.length
  · simp [namesOf, nameAt, List.getD_eq_getElem?_getD, hd]
  · simp [namesOf, nameAt, List.getD_eq_getElem?_getD, List.getElem?_eq_none (by omega : sh.length ≤ p)]

theorem map_congr_mem {β γ : Type} {f g : β → γ} {l : List β} (h : ∀ x ∈ l, f x = g x) :
    l.map f = l.map g := List.map_congr_left h

theorem getD_reindex {m : DimensionMappings} {sh : Shape ν} (hm : MappingOK m sh.length) {p : Nat}
    (hp : p < sh.length) :
    (m.mapShapeToRequested sh).getD (m.sourceToRequested.getD p 0) (default, 0) =
      sh.getD p (default, 0) := by
  obtain ⟨hlt, hinv⟩ := hm.2.2.1 p hp
  rw [mapShapeToRequested_getElem hm hlt, hinv]

theorem nameAt_inj {sh : Shape ν} (hn : (namesOf sh).Nodup) {p q : Nat} (hp : p < sh.length)
    (hq : q < sh.length) (h : nameAt sh p = nameAt sh q) : p = q := by
  simp only [nameAt, getD_eq_getElem' hp, getD_eq_getElem' hq] at h
  exact nodup_getElem_inj hn (by simpa using hp) (by simpa using hq) (by simpa [namesOf] using h)


/-- an adaptor that keeps positions, lengths and cells (rename, `TensorMap`, the matrix round
    trip): the invariant carries over with the new names -/
theorem lin_same (s v : View ν α) {order_s order : List ν} (hlin : Lin s order_s)
    (hlen : v.shape.length = s.shape.length)
    (hlenAt : ∀ p, lenAt v.shape p = lenAt s.shape p) (hlens : lens v.shape = lens s.shape)
    (hleaves : v.leaves = s.leaves) (hcell : ∀ idx, v.specCell idx = s.specCell idx)
    (horder : ∀ M : List MemDim, M.length = s.shape.length →
      order_s = M.map (fun m => nameAt s.shape m.pos) →
      (∀ m ∈ M, m.pos < s.shape.length) → order = M.map (fun m => nameAt v.shape m.pos)) :
    Lin v order := by
  obtain ⟨M, leaf, data, h1, h2, h3, h4, h5, h6, h6b, h7⟩ := hlin
  refine ⟨M, leaf, data, by omega, h2, by intro m hm; rw [hlen]; exact h3 m hm, horder M h1 h4 h3,
    by rw [hleaves]; exact h5, h6, by intro m hm; rw [hlenAt]; exact h6b m hm, ?_⟩
  intro idx hin
  rw [hlens] at hin
  rw [hcell]; exact h7 idx hin

theorem lin_rename (s : View ν α) (ns : List ν) (hw : (View.rename s ns).WF)
    (ih : ∀ order, s.layout = .ok (.linear order) → Lin s order) (order : List ν)
    (hl : (View.rename s ns).layout = .ok (.linear order)) : Lin (View.rename s ns) order := by
  simp only [View.WF] at hw
  have hgood := (View.correct s hw.1).1
  have hnod := (goodShape_iff.1 hgood).1
  simp only [View.layout] at hl
  cases hs : s.layout with
  | panic k => simp [hs] at hl
  | ok lay =>
    cases lay with
    | nonLinear => simp [hs] at hl
    | other => simp [hs] at hl
    | linear order_s =>
      have hlin := ih order_s hs
      have hname : ∀ p, nameAt (renameShape s.shape ns) p = ns.getD p default := by
        intro p; rw [nameAt_eq_names_getD, renameShape_names hw.2.1]
      refine lin_same s _ hlin (by simp [View.shape, renameShape_length hw.2.1])
        (by intro p; simp only [View.shape]; rw [lenAt_eq_lens_getD, lenAt_eq_lens_getD, renameShape_lens hw.2.1])
        (by simp only [View.shape]; exact renameShape_lens hw.2.1) rfl (fun _ => rfl) ?_
      intro M _ hM hpos
      have hP : ∀ p ∈ M.map (·.pos), p < s.shape.length := by
        intro p hp; obtain ⟨m, hm, rfl⟩ := List.mem_map.1 hp; exact hpos m hm
      have hM' : order_s = (M.map (·.pos)).map (nameAt s.shape) := by
        rw [hM, List.map_map]; rfl
      simp only [hs, renameLayout, hM', mapM_positionOf hnod _ hP, Outcome.ok.injEq,
        DataLayout.linear.injEq] at hl
      rw [← hl, List.map_map]
      simp only [View.shape]
      exact map_congr_mem (fun m _ => (hname m.pos).symm)

/-- the reindexing shared by `TensorAccess` and `TensorTranspose`: positions go through the
    source→requested table, everything else stays -/
theorem lin_reindex (s v : View ν α) (m : DimensionMappings) (hm : MappingOK m s.shape.length)
    (hgood : GoodShape s.shape) {order_s : List ν} (hlin : Lin s order_s)
    (hlen : v.shape.length = s.shape.length)
    (hlenAt : ∀ p, p < s.shape.length →
      lenAt v.shape (m.sourceToRequested.getD p 0) = lenAt s.shape p)
    (hlens : lens v.shape = lens (m.mapShapeToRequested s.shape))
    (hleaves : v.leaves = s.leaves)
    (hcell : ∀ idx, v.specCell idx =
      s.specCell (coords s.shape (namesOf (m.mapShapeToRequested s.shape)) idx)) :
    ∃ (M : List MemDim) (leaf : Nat) (data : List α),
      (order_s = M.map (fun x => nameAt s.shape x.pos) ∧ ∀ x ∈ M, x.pos < s.shape.length) ∧
      M.length = v.shape.length ∧
      ((M.map fun x => (⟨m.sourceToRequested.getD x.pos 0, x.start, x.full⟩ : MemDim)).map (·.pos)).Nodup ∧
      (∀ x ∈ M.map fun x => (⟨m.sourceToRequested.getD x.pos 0, x.start, x.full⟩ : MemDim),
        x.pos < v.shape.length) ∧
      v.leaves = [(leaf, data)] ∧ data.length = prod (M.map (·.full)) ∧
      (∀ x ∈ M.map fun x => (⟨m.sourceToRequested.getD x.pos 0, x.start, x.full⟩ : MemDim),
        x.start + lenAt v.shape x.pos ≤ x.full) ∧
      ∀ idx, inBounds (lens v.shape) idx = true →
        v.specCell idx = some (leaf, ravel (M.map (·.full))
          (M.map fun x => idx.getD (m.sourceToRequested.getD x.pos 0) 0 + x.start)) := by
  obtain ⟨M, leaf, data, h1, h2, h3, h4, h5, h6, h6b, h7⟩ := hlin
  refine ⟨M, leaf, data, ⟨h4, h3⟩, by omega, ?_, ?_, by rw [hleaves]; exact h5, h6, ?_, ?_⟩
  · rw [List.map_map]
    have : (M.map ((fun x : MemDim => x.pos) ∘ fun x => (⟨m.sourceToRequested.getD x.pos 0, x.start, x.full⟩ : MemDim))) =
        (M.map (·.pos)).map (m.sourceToRequested.getD · 0) := by
      rw [List.map_map]; rfl
    rw [this]
    refine List.Nodup.map_on ?_ h2
    intro a ha b hb hab
    obtain ⟨x, hx, rfl⟩ := List.mem_map.1 ha
    obtain ⟨y, hy, rfl⟩ := List.mem_map.1 hb
    have ea := (hm.2.2.1 _ (h3 x hx)).2
    have eb := (hm.2.2.1 _ (h3 y hy)).2
    rw [hab] at ea
    omega
  · intro x hx
    obtain ⟨y, hy, rfl⟩ := List.mem_map.1 hx
    rw [hlen]; exact (hm.2.2.1 _ (h3 y hy)).1
  · intro x hx
    obtain ⟨y, hy, rfl⟩ := List.mem_map.1 hx
    simp only
    rw [hlenAt _ (h3 y hy)]; exact h6b y hy
  · intro idx hin
    rw [hlens] at hin
    have la := inBounds_length hin
    simp only [lens_length, mapShapeToRequested_length hm] at la
    rw [hcell, ← mapDimensionsToSource_eq_coords_of_good hgood hm,
      h7 _ (by rw [access_inBounds hm la]; exact hin)]
    congr 3
    apply map_congr_mem
    intro x hx
    rw [mapDimensionsToSource_getD hm idx (h3 x hx)]

theorem lin_access (s : View ν α) (m : DimensionMappings) (hw : (View.access s m).WF)
    (ih : ∀ order, s.layout = .ok (.linear order) → Lin s order) (order : List ν)
    (hl : (View.access s m).layout = .ok (.linear order)) : Lin (View.access s m) order := by
  simp only [View.WF] at hw
  have hgood := (View.correct s hw.1).1
  have hlen := mapShapeToRequested_length hw.2
  simp only [View.layout] at hl
  obtain ⟨M, leaf, data, ⟨h4, h3⟩, r1, r2, r3, r5, r6, r6b, r7⟩ :=
    lin_reindex s (View.access s m) m hw.2 hgood (ih order hl) (by simpa [View.shape] using hlen)
      (by intro p hp; simp only [View.shape, lenAt, getD_reindex hw.2 hp])
      (by simp [View.shape]) rfl (fun _ => rfl)
  refine ⟨M.map fun x => ⟨m.sourceToRequested.getD x.pos 0, x.start, x.full⟩, leaf, data,
    by simpa using r1, r2, r3, ?_, r5, by simpa [List.map_map, Function.comp_def] using r6, r6b, ?_⟩
  · rw [h4, List.map_map]
    apply map_congr_mem
    intro x hx
    simp only [Function.comp, View.shape, nameAt, getD_reindex hw.2 (h3 x hx)]
  · intro idx hin
    rw [r7 idx hin]
    simp [List.map_map, Function.comp_def]

theorem lin_transpose (s : View ν α) (m : DimensionMappings) (hw : (View.transpose s m).WF)
    (ih : ∀ order, s.layout = .ok (.linear order) → Lin s order) (order : List ν)
    (hl : (View.transpose s m).layout = .ok (.linear order)) : Lin (View.transpose s m) order := by
  simp only [View.WF] at hw
  have hgood := (View.correct s hw.1).1
  have hnod := (goodShape_iff.1 hgood).1
  have hlen := mapShapeToRequested_length hw.2
  simp only [View.layout] at hl
  cases hs : s.layout with
  | panic k => simp [hs] at hl
  | ok lay =>
    cases lay with
    | nonLinear => simp [hs] at hl
    | other => simp [hs] at hl
    | linear order_s =>
      have hvn : ∀ q, nameAt (transposeShape s.shape (m.mapShapeToRequested s.shape)) q = nameAt s.shape q := by
        intro q; rw [nameAt_eq_names_getD, nameAt_eq_names_getD, transposeShape_names hlen]
      have hvl : ∀ q, lenAt (transposeShape s.shape (m.mapShapeToRequested s.shape)) q =
          lenAt (m.mapShapeToRequested s.shape) q := by
        intro q; rw [lenAt_eq_lens_getD, lenAt_eq_lens_getD, transposeShape_lens hlen]
      obtain ⟨M, leaf, data, ⟨h4, h3⟩, r1, r2, r3, r5, r6, r6b, r7⟩ :=
        lin_reindex s (View.transpose s m) m hw.2 hgood (ih order_s hs)
          (by simp [View.shape, transposeShape_length hlen])
          (by intro p hp; simp only [View.shape]; rw [hvl]; simp only [lenAt, getD_reindex hw.2 hp])
          (by simp only [View.shape]; exact transposeShape_lens hlen) rfl (fun _ => rfl)
      have hP : ∀ p ∈ M.map (·.pos), p < s.shape.length := by
        intro p hp; obtain ⟨x, hx, rfl⟩ := List.mem_map.1 hp; exact h3 x hx
      have hM' : order_s = (M.map (·.pos)).map (nameAt s.shape) := by
        rw [h4, List.map_map]; rfl
      simp only [hs, mapLinearDataLayoutToTransposed, hM', mapM_positionOf hnod _ hP, Outcome.ok.injEq,
        DataLayout.linear.injEq] at hl
      refine ⟨M.map fun x => ⟨m.sourceToRequested.getD x.pos 0, x.start, x.full⟩, leaf, data,
        by simpa using r1, r2, r3, ?_, r5, by simpa [List.map_map, Function.comp_def] using r6, r6b, ?_⟩
      · rw [← hl]
        simp only [List.map_map]
        apply map_congr_mem
        intro x _
        show (s.shape.getD (m.sourceToRequested.getD x.pos 0) (default, 0)).1 =
          nameAt (View.transpose s m).shape (m.sourceToRequested.getD x.pos 0)
        simp only [View.shape]
        rw [hvn]; rfl
      · intro idx hin
        rw [r7 idx hin]
        simp [List.map_map, Function.comp_def]

/-- `TensorRefMatrix` over `MatrixRefTensor` over a 2-dimensional view: row major and column
    major sources -/
theorem lin_matrixOf (s : View ν α) (r c : ν) (hw : (View.matrixOf s r c).WF)
    (ih : ∀ order, s.layout = .ok (.linear order) → Lin s order) (order : List ν)
    (hl : (View.matrixOf s r c).layout = .ok (.linear order)) : Lin (View.matrixOf s r c) order := by
  simp only [View.WF] at hw
  have hgood := (View.correct s hw.1).1
  have hnod := (goodShape_iff.1 hgood).1
  have hl2 := hw.2.1
  have hlens := matrixOf_lens s r c hl2
  have hlenAt : ∀ p, lenAt (View.matrixOf s r c).shape p = lenAt s.shape p := by
    intro p; rw [lenAt_eq_lens_getD, lenAt_eq_lens_getD, hlens]
  -- the shared conclusion once the order of the source is known to name positions a, b
  have finish : ∀ (a b : Nat), a < 2 → b < 2 → Lin s [nameAt s.shape a, nameAt s.shape b] →
      order = [nameAt (View.matrixOf s r c).shape a, nameAt (View.matrixOf s r c).shape b] →
      Lin (View.matrixOf s r c) order := by
    intro a b ha hb hlin ho
    refine lin_same s _ hlin (by simp [View.shape, hl2]) hlenAt hlens rfl (fun _ => rfl) ?_
    intro M hlenM hM hpos
    rw [hl2] at hlenM
    match M, hlenM, hM with
    | [x, y], _, hM =>
      simp only [List.map_cons, List.map_nil, List.cons.injEq, and_true] at hM
      have hx := hpos x (by simp)
      have hy := hpos y (by simp)
      have ex : a = x.pos := nameAt_inj hnod (by omega) hx hM.1
      have ey : b = y.pos := nameAt_inj hnod (by omega) hy hM.2
      simp only [List.map_cons, List.map_nil, ← ex, ← ey]
      exact ho
  simp only [View.layout] at hl
  cases hs : s.layout with
  | panic k => simp [hs] at hl
  | ok lay =>
    simp only [hs, Outcome.ok.injEq] at hl
    simp only [matrixRefTensorLayout] at hl
    split at hl
    · rename_i hrow
      simp only [tensorRefMatrixLayout, DataLayout.linear.injEq] at hl
      refine finish 0 1 (by omega) (by omega) (ih _ (by rw [hs, hrow]; rfl)) ?_
      rw [← hl]; simp [View.shape, nameAt]
    · split at hl
      · rename_i hcol
        simp only [tensorRefMatrixLayout, DataLayout.linear.injEq] at hl
        refine finish 1 0 (by omega) (by omega) (ih _ (by rw [hs, hcol]; rfl)) ?_
        rw [← hl]; simp [View.shape, nameAt]
      · simp [tensorRefMatrixLayout] at hl

/-- `MatrixRange` between the two interop wrappers: the claimed order is the source's, the view
    starts later inside the leaf along both dimensions -/
theorem lin_mrange (s : View ν α) (rows columns : IndexRange) (hw : (View.mrange s rows columns).WF)
    (ih : ∀ order, s.layout = .ok (.linear order) → Lin s order) (order : List ν)
    (hl : (View.mrange s rows columns).layout = .ok (.linear order)) :
    Lin (View.mrange s rows columns) order := by
  simp only [View.WF] at hw
  obtain ⟨hws, hl2, hr⟩ := hw
  have hsh : ∃ d0 d1, s.shape = [d0, d1] := by
    match hsq : s.shape, hl2 with
    | [d0, d1], _ => exact ⟨d0, d1, rfl⟩
  obtain ⟨d0, d1, hsq⟩ := hsh
  rw [hsq] at hr
  simp only [RangesOK] at hr
  obtain ⟨⟨hr1, hr2⟩, ⟨hc1, hc2⟩, _⟩ := hr
  -- the layout passes through unchanged when it is linear
  have hsame : s.layout = .ok (.linear order) := by
    simp only [View.layout] at hl
    cases hs : s.layout with
    | panic k => simp [hs] at hl
    | ok lay =>
      simp only [hs, Outcome.ok.injEq, matrixRefTensorLayout] at hl
      split at hl
      · rename_i hrow; simp only [tensorRefMatrixLayout] at hl; rw [hrow, ← hl]
      · split at hl
        · rename_i hcol; simp only [tensorRefMatrixLayout] at hl; rw [hcol, ← hl]
        · simp [tensorRefMatrixLayout] at hl
  obtain ⟨M, leaf, data, h1, h2, h3, h4, h5, h6, h6b, h7⟩ := ih order hsame
  have hvs : (View.mrange s rows columns).shape = [(d0.1, rows.length), (d1.1, columns.length)] := by
    simp [View.shape, hsq, rangeShape]
  let st : Nat → Nat := fun p => if p = 0 then rows.start else columns.start
  refine ⟨M.map fun x => ⟨x.pos, x.start + st x.pos, x.full⟩, leaf, data, by simp [hvs, h1, hl2],
    by simpa [List.map_map, Function.comp_def] using h2, ?_, ?_, by simpa [View.leaves] using h5,
    by simpa [List.map_map, Function.comp_def] using h6, ?_, ?_⟩
  · intro x hx
    obtain ⟨y, hy, rfl⟩ := List.mem_map.1 hx
    have := h3 y hy
    simp only [hvs, List.length_cons, List.length_nil]; omega
  · rw [h4, List.map_map]
    apply map_congr_mem
    intro x hx
    have hp := h3 x hx
    rw [hl2] at hp
    simp only [Function.comp, hvs, hsq, nameAt]
    rcases Nat.lt_or_ge x.pos 1 with h | h
    · have : x.pos = 0 := by omega
      simp [this]
    · have : x.pos = 1 := by omega
      simp [this]
  · intro x hx
    obtain ⟨y, hy, rfl⟩ := List.mem_map.1 hx
    have hp := h3 y hy
    rw [hl2] at hp
    have hb := h6b y hy
    simp only [hvs, hsq, lenAt, st] at hb ⊢
    rcases Nat.lt_or_ge y.pos 1 with h | h
    · have e : y.pos = 0 := by omega
      simp only [e, List.getD_cons_zero, if_true] at hb ⊢; omega
    · have e : y.pos = 1 := by omega
      simp only [e, List.getD_cons_succ, List.getD_cons_zero] at hb ⊢
      simp; omega
  · intro idx hin
    rw [hvs] at hin
    have la := inBounds_length hin
    match idx, la with
    | [i0, i1], _ =>
      simp only [lens_cons, lens_nil, inBounds_cons_cons, inBounds_nil_nil, Bool.and_true,
        Bool.and_eq_true, decide_eq_true_eq] at hin
      have hin' : inBounds (lens s.shape) [i0 + rows.start, i1 + columns.start] = true := by
        simp [hsq]; omega
      simp only [View.specCell, rangeCoords, List.zipWith_cons_cons, List.zipWith_nil_right]
      rw [h7 _ hin']
      simp only [List.map_map, Function.comp_def]
      congr 3
      apply map_congr_mem
      intro x hx
      have hp := h3 x hx
      rw [hl2] at hp
      simp only [st]
      rcases Nat.lt_or_ge x.pos 1 with h | h
      · have e : x.pos = 0 := by omega
        simp [e]; omega
      · have e : x.pos = 1 := by omega
        simp [e]; omega

/-- every well-formed view that claims a linear layout satisfies the invariant -/
theorem View.layout_lin (v : View ν α) : v.WF → ∀ order, v.layout = .ok (.linear order) → Lin v order := by
  induction v using View.ind with
  | tensor id t =>
    intro hw order hl
    simp only [View.layout, Outcome.ok.injEq, DataLayout.linear.injEq] at hl
    rw [← hl]; exact lin_tensor id t hw
  | matrix id m r c =>
    intro hw order hl
    simp only [View.layout, Outcome.ok.injEq, DataLayout.linear.injEq] at hl
    rw [← hl]; exact lin_matrix id m r c hw
  | matrixOf s r c ih =>
    intro hw order hl
    exact lin_matrixOf s r c hw (ih (by simp only [View.WF] at hw; exact hw.1)) order hl
  | mrange s rows columns ih =>
    intro hw order hl
    exact lin_mrange s rows columns hw (ih (by simp only [View.WF] at hw; exact hw.1)) order hl
  | mreverse s rows columns ih => intro _ order hl; simp [View.layout] at hl
  | tmap s ih =>
    intro hw order hl
    simp only [View.WF] at hw
    simp only [View.layout] at hl
    exact lin_same s _ (ih hw order hl) rfl (fun _ => rfl) rfl rfl (fun _ => rfl) (fun M _ hM _ => hM)
  | range s rs ih => intro _ order hl; simp [View.layout] at hl
  | mask s ms ih => intro _ order hl; simp [View.layout] at hl
  | index s p ih => intro _ order hl; simp [View.layout] at hl
  | expansion s e ih => intro _ order hl; simp [View.layout] at hl
  | rename s ns ih =>
    intro hw order hl
    exact lin_rename s ns hw (ih (by simp only [View.WF] at hw; exact hw.1)) order hl
  | reverse s r ih => intro _ order hl; simp [View.layout] at hl
  | access s m ih =>
    intro hw order hl
    exact lin_access s m hw (ih (by simp only [View.WF] at hw; exact hw.1)) order hl
  | transpose s m ih =>
    intro hw order hl
    exact lin_transpose s m hw (ih (by simp only [View.WF] at hw; exact hw.1)) order hl
  | stack ss along ih => intro _ order hl; simp [View.layout] at hl
  | chain ss along ih => intro _ order hl; simp [View.layout] at hl

theorem prod_le_prod_of_le : ∀ (T : List (Nat × Nat × Nat)),
    (∀ t ∈ T, t.1 ≤ t.2.2) → prod (T.map (·.1)) ≤ prod (T.map (·.2.2))
  | [], _ => by simp
  | t :: ts, h => by
    simp only [List.map_cons, prod_cons]
    exact Nat.mul_le_mul (h t (by simp)) (prod_le_prod_of_le ts (fun x hx => h x (by simp [hx])))

theorem prod_pos_of_pos : ∀ (l : List Nat), (∀ x ∈ l, 1 ≤ x) → 1 ≤ prod l
  | [], _ => by simp
  | x :: xs, h => by
    simp only [prod_cons]
    exact Nat.mul_le_mul (h x (by simp)) (prod_pos_of_pos xs (fun y hy => h y (by simp [hy])))

/-- a view that has as many elements as the leaf it lies in is the whole leaf:
    triples are (length, start, full extent) per dimension -/
theorem tight_of_prod_eq : ∀ (T : List (Nat × Nat × Nat)),
    (∀ t ∈ T, 1 ≤ t.1 ∧ t.2.1 + t.1 ≤ t.2.2) →
    prod (T.map (·.1)) = prod (T.map (·.2.2)) → ∀ t ∈ T, t.2.1 = 0 ∧ t.2.2 = t.1
  | [], _, _ => by simp
  | t :: ts, h, hp => by
    have ht := h t (by simp)
    have hts : ∀ x ∈ ts, 1 ≤ x.1 ∧ x.2.1 + x.1 ≤ x.2.2 := fun x hx => h x (by simp [hx])
    have hle := prod_le_prod_of_le ts (fun x hx => by have := hts x hx; omega)
    have hpos : 1 ≤ prod (ts.map (·.1)) :=
      prod_pos_of_pos _ (fun x hx => by
        obtain ⟨y, hy, rfl⟩ := List.mem_map.1 hx; exact (hts y hy).1)
    simp only [List.map_cons, prod_cons] at hp
    have hl : t.1 = t.2.2 := by
      rcases Nat.lt_or_ge t.1 t.2.2 with hlt | hge
      · exfalso
        have h1 : t.1 * prod (ts.map (·.1)) < t.2.2 * prod (ts.map (·.1)) :=
          Nat.mul_lt_mul_of_pos_right hlt hpos
        have h2 : t.2.2 * prod (ts.map (·.1)) ≤ t.2.2 * prod (ts.map (·.2.2)) :=
          Nat.mul_le_mul_left _ hle
        omega
      · omega
    have hrest : prod (ts.map (·.1)) = prod (ts.map (·.2.2)) := by
      rw [hl] at hp
      exact Nat.eq_of_mul_eq_mul_left (by omega) hp
    intro x hx
    simp only [List.mem_cons] at hx
    rcases hx with rfl | hx
    · exact ⟨by omega, hl.symm⟩
    · exact tight_of_prod_eq ts hts hrest x hx

/-- **Memory order.**  If a well-formed view claims `Linear(order)`, then `order` is a reordering
    of the view's dimension names (`TensorAccess::from_memory_order` cannot panic), and the access
    in that order resolves the tuple `idx` to the row-major offset of `idx + starts` in the full
    extents `fulls` of the single leaf the view lies in (`starts + lengths ≤ fulls` per
    dimension); when the view has as many elements as the leaf, `starts = 0` and `fulls` are the
    view's own lengths, i.e. the offsets are `0, 1, 2, …`. -/
theorem View.layout_memory_order (v : View ν α) (hw : v.WF) (order : List ν)
    (hl : v.layout = .ok (.linear order)) :
    (∃ m, DimensionMappings.new v.shape order = some m) ∧
    ∀ m, DimensionMappings.new v.shape order = some m →
      ∃ (leaf : Nat) (data : List α) (fulls starts : List Nat), v.leaves = [(leaf, data)] ∧
        data.length = prod fulls ∧ starts.length = v.shape.length ∧
        (∀ idx, inBounds (lens (View.access v m).shape) idx = true →
          inBounds fulls (List.zipWith (· + ·) idx starts) = true ∧
          (View.access v m).get idx =
            .ok (some (leaf, ravel fulls (List.zipWith (· + ·) idx starts)))) ∧
        (prod (lens (View.access v m).shape) = data.length →
          fulls = lens (View.access v m).shape ∧ ∀ x ∈ starts, x = 0) := by
  have hgood := (View.correct v hw).1
  have hnod := (goodShape_iff.1 hgood).1
  constructor
  · obtain ⟨M, leaf, data, h1, h2, h3, h4, _⟩ := View.layout_lin v hw order hl
    have honto := mem_of_nodup_lt (l := M.map (·.pos)) (by simpa using h1) h2
      (by intro p hp; obtain ⟨x, hx, rfl⟩ := List.mem_map.1 hp; exact h3 x hx)
    apply new_some_of_same_names
    · rw [h4]; simp [h1]
    · intro n hn
      obtain ⟨p, hp, rfl⟩ := List.getElem_of_mem hn
      simp only [namesOf_length] at hp
      obtain ⟨x, hx, hxp⟩ := List.mem_map.1 (honto p hp)
      rw [h4]
      refine List.mem_map.2 ⟨x, hx, ?_⟩
      simp only [hxp, nameAt, getD_eq_getElem' hp, namesOf, List.getElem_map]
    · intro r hr
      rw [h4] at hr
      obtain ⟨x, hx, rfl⟩ := List.mem_map.1 hr
      have hp' := h3 x hx
      simp only [nameAt, getD_eq_getElem' hp', namesOf]
      exact List.mem_map.2 ⟨_, List.getElem_mem hp', rfl⟩
  · intro m hm
    have hok := new_mappingOK hnod hm
    obtain ⟨tlen, _, _, t4⟩ := new_tables hm
    have hwa : (View.access v m).WF := by simp only [View.WF]; exact ⟨hw, hok⟩
    have hca := View.correct _ hwa
    have hla : (View.access v m).layout = .ok (.linear order) := by simpa [View.layout] using hl
    have hD : (View.access v m).shape.length = v.shape.length := by
      simp only [View.shape]; exact mapShapeToRequested_length hok
    have hnoda := (goodShape_iff.1 hca.1).1
    -- the access lists the dimensions in the claimed order
    have hnames : ∀ d, d < v.shape.length → nameAt (View.access v m).shape d = order.getD d default := by
      intro d hd
      obtain ⟨_, _, _, hname⟩ := t4 d hd
      simp only [View.shape, nameAt, mapShapeToRequested_getElem hok hd]
      exact hname
    obtain ⟨M, leaf, data, h1, h2, h3, h4, h5, h6, h6b, h7⟩ :=
      lin_access v m hwa (fun o ho => View.layout_lin v hw o ho) order hla
    rw [hD] at h1 h3
    -- so the k-th dimension in memory order is the k-th of its shape
    have hpos : ∀ k (hk : k < M.length), (M[k]).pos = k := by
      intro k hk
      have hk' : k < v.shape.length := by omega
      have e1 : order.getD k default = nameAt (View.access v m).shape (M[k]).pos := by
        rw [h4, getD_eq_getElem' (by simp; omega)]; simp
      rw [← hnames k hk'] at e1
      exact (nameAt_inj hnoda (by rw [hD]; exact hk') (by rw [hD]; exact h3 _ (List.getElem_mem hk)) e1).symm
    have hleaves : v.leaves = [(leaf, data)] := by simpa [View.leaves] using h5
    have hcoords : ∀ idx : List Nat, idx.length = v.shape.length →
        (M.map fun x => idx.getD x.pos 0 + x.start) = List.zipWith (· + ·) idx (M.map (·.start)) := by
      intro idx hlen
      apply List.ext_getElem (by simp [h1, hlen])
      intro k hk1 hk2
      have hk : k < M.length := by simpa using hk1
      simp only [List.getElem_map, List.getElem_zipWith, hpos k hk]
      rw [getD_eq_getElem' (by omega)]
    have hlensa : lens (View.access v m).shape = M.map fun x => lenAt (View.access v m).shape x.pos := by
      rw [← map_range_lenAt, hD, ← h1]
      apply List.ext_getElem (by simp)
      intro k hk1 hk2
      have hk : k < M.length := by simpa using hk1
      simp [hpos k hk]
    refine ⟨leaf, data, M.map (·.full), M.map (·.start), hleaves, h6, by simp [h1], ?_, ?_⟩
    · intro idx hin
      have la := inBounds_length hin
      simp only [lens_length, hD] at la
      constructor
      · rw [← hcoords idx la, inBounds_iff]
        refine ⟨by simp, ?_⟩
        intro k hk
        simp only [List.length_map] at hk
        rw [getD_eq_getElem' (by simpa using hk), getD_eq_getElem' (by simpa using hk)]
        simp only [List.getElem_map, hpos k hk]
        have hb := h6b _ (List.getElem_mem hk)
        rw [hpos k hk] at hb
        have hlt := (inBounds_iff.1 hin).2 k (by simp [hD]; omega)
        rw [← lenAt_eq_lens_getD] at hlt
        omega
      · rw [hca.2 idx (by rw [hD]; exact la) (bounded_of_inBounds hin hca.1.lens_le)]
        simp only [View.specGet, hin, if_true]
        rw [h7 idx hin, hcoords idx la]
    · intro hp
      rw [h6, hlensa] at hp
      have htight := tight_of_prod_eq
        (M.map fun x => (lenAt (View.access v m).shape x.pos, x.start, x.full))
        (by
          intro t ht
          obtain ⟨x, hx, rfl⟩ := List.mem_map.1 ht
          refine ⟨?_, by have := h6b x hx; omega⟩
          have hx3 := h3 x hx
          have : (View.access v m).shape.getD x.pos (default, 0) ∈ (View.access v m).shape := by
            rw [getD_eq_getElem' (by rw [hD]; exact hx3)]; exact List.getElem_mem _
          exact hca.1.1.2 _ this)
        (by simpa [List.map_map, Function.comp_def] using hp)
      constructor
      · rw [hlensa]
        apply map_congr_mem
        intro x hx
        exact (htight _ (List.mem_map.2 ⟨x, hx, rfl⟩)).2
      · intro y hy
        obtain ⟨x, hx, rfl⟩ := List.mem_map.1 hy
        exact (htight _ (List.mem_map.2 ⟨x, hx, rfl⟩)).1

/-- adding the same starts keeps the lexicographic order of index tuples -/
theorem lex_zipWith_add : ∀ (a b starts : List Nat), a.length = b.length → a.length = starts.length →
    a < b → List.zipWith (· + ·) a starts < List.zipWith (· + ·) b starts
  | [], [], _, _, _, h => by simp at h
  | x :: xs, y :: ys, s :: ss, hab, has, h => by
    simp only [List.length_cons, Nat.add_right_cancel_iff] at hab has
    rw [List.cons_lt_cons_iff] at h
    simp only [List.zipWith_cons_cons, List.cons_lt_cons_iff]
    rcases h with h | ⟨rfl, h⟩
    · exact Or.inl (by omega)
    · exact Or.inr ⟨rfl, lex_zipWith_add xs ys ss hab has h⟩
  | [], _ :: _, _, hab, _, _ => by simp at hab
  | _ :: _, [], _, hab, _, _ => by simp at hab
  | _ :: _, _ :: _, [], _, has, _ => by simp at has

/-- row-major offsets increase strictly along the lexicographic (iteration) order of in-bounds
    tuples: "visiting in the claimed order walks the storage in strictly increasing address order" -/
theorem ravel_lt_of_lex (ls a b : List Nat) (ha : inBounds ls a = true) (hb : inBounds ls b = true)
    (h : a < b) : ravel ls a < ravel ls b := by
  induction ls generalizing a b with
  | nil =>
    cases a <;> cases b <;> simp_all
  | cons l ls ih =>
    cases a with
    | nil => simp at ha
    | cons x xs =>
      cases b with
      | nil => simp at hb
      | cons y ys =>
        simp only [inBounds_cons_cons, Bool.and_eq_true, decide_eq_true_eq] at ha hb
        rw [List.cons_lt_cons_iff] at h
        simp only [ravel]
        rcases h with h | ⟨rfl, h⟩
        · have hx := ravel_lt ls xs ha.2
          have : (x + 1) * prod ls ≤ y * prod ls := Nat.mul_le_mul_right _ h
          rw [Nat.add_mul] at this
          omega
        · have := ih xs ys ha.2 hb.2 h
          omega

/-! ### `data_layout` and `from_memory_order` cannot panic -/

/-- the names of a claimed linear order are all found in the shape (the `position_of(..).unwrap`
    style lookups of `TensorRename::data_layout` and `map_linear_data_layout_to_transposed`
    succeed) -/
theorem View.order_positions (v : View ν α) (hw : v.WF) (order : List ν)
    (hl : v.layout = .ok (.linear order)) : ∃ P, order.mapM (positionOf v.shape) = some P := by
  obtain ⟨M, leaf, data, _, _, h3, h4, _⟩ := View.layout_lin v hw order hl
  have hnod := (goodShape_iff.1 (View.correct v hw).1).1
  refine ⟨M.map (·.pos), ?_⟩
  have : order = (M.map (·.pos)).map (nameAt v.shape) := by rw [h4, List.map_map]; rfl
  rw [this]
  exact mapM_positionOf hnod _ (by
    intro p hp
    obtain ⟨m, hm, rfl⟩ := List.mem_map.1 hp
    exact h3 m hm)

/-- `TensorRef::data_layout` returns (never panics) on every well-formed view -/
theorem View.layout_ok (v : View ν α) : v.WF → ∃ l, v.layout = .ok l := by
  induction v using View.ind with
  | tensor id t => intro _; exact ⟨_, rfl⟩
  | matrix id m r c => intro _; exact ⟨_, rfl⟩
  | matrixOf s r c ih =>
    intro hw
    obtain ⟨l, hl⟩ := ih (by simp only [View.WF] at hw; exact hw.1)
    exact ⟨_, by simp only [View.layout, hl]; rfl⟩
  | mrange s rows columns ih =>
    intro hw
    obtain ⟨l, hl⟩ := ih (by simp only [View.WF] at hw; exact hw.1)
    exact ⟨_, by simp only [View.layout, hl]; rfl⟩
  | mreverse s rows columns ih => intro _; exact ⟨_, rfl⟩
  | tmap s ih =>
    intro hw
    simp only [View.WF] at hw
    simpa only [View.layout] using ih hw
  | range s rs ih => intro _; exact ⟨_, rfl⟩
  | mask s ms ih => intro _; exact ⟨_, rfl⟩
  | index s p ih => intro _; exact ⟨_, rfl⟩
  | expansion s e ih => intro _; exact ⟨_, rfl⟩
  | rename s ns ih =>
    intro hw
    have hs : s.WF := by simp only [View.WF] at hw; exact hw.1
    obtain ⟨l, hl⟩ := ih hs
    cases l with
    | linear order =>
      obtain ⟨P, hP⟩ := View.order_positions s hs order hl
      exact ⟨_, by simp only [View.layout, hl, renameLayout, hP]; rfl⟩
    | nonLinear => exact ⟨_, by simp only [View.layout, hl]; rfl⟩
    | other => exact ⟨_, by simp only [View.layout, hl]; rfl⟩
  | reverse s r ih => intro _; exact ⟨_, rfl⟩
  | access s m ih =>
    intro hw
    simpa only [View.layout] using ih (by simp only [View.WF] at hw; exact hw.1)
  | transpose s m ih =>
    intro hw
    have hs : s.WF := by simp only [View.WF] at hw; exact hw.1
    obtain ⟨l, hl⟩ := ih hs
    cases l with
    | linear order =>
      obtain ⟨P, hP⟩ := View.order_positions s hs order hl
      exact ⟨_, by simp only [View.layout, hl, mapLinearDataLayoutToTransposed, hP]; rfl⟩
    | nonLinear => exact ⟨_, by simp only [View.layout, hl]; rfl⟩
    | other => exact ⟨_, by simp only [View.layout, hl]; rfl⟩
  | stack ss along ih => intro _; exact ⟨_, rfl⟩
  | chain ss along ih => intro _; exact ⟨_, rfl⟩

/-- `TensorAccess::from_memory_order` returns (its `unwrap_or_else(|| panic!(..))` is never
    reached): `None` exactly when the layout is not linear, else a well-formed access -/
theorem View.fromMemoryOrder_ok (v : View ν α) (hw : v.WF) :
    (∃ r, v.fromMemoryOrder = .ok r) ∧
    (∀ a, v.fromMemoryOrder = .ok (some a) → a.WF ∧ ∃ order, v.layout = .ok (.linear order) ∧
      mkAccess v order = some a) ∧
    (v.fromMemoryOrder = .ok none ↔ ¬ ∃ order, v.layout = .ok (.linear order)) := by
  obtain ⟨l, hl⟩ := View.layout_ok v hw
  cases l with
  | linear order =>
    obtain ⟨m, hm⟩ := (View.layout_memory_order v hw order hl).1
    have hacc : mkAccess v order = some (View.access v m) := by simp only [mkAccess, hm, Option.map_some]
    have hfm : v.fromMemoryOrder = .ok (some (View.access v m)) := by
      simp only [View.fromMemoryOrder, hl, hacc]
    refine ⟨⟨_, hfm⟩, ?_, ?_⟩
    · intro a ha
      rw [hfm] at ha
      simp only [Outcome.ok.injEq, Option.some.injEq] at ha
      subst ha
      exact ⟨mkAccess_wf hw hacc, order, hl, hacc⟩
    · rw [hfm]
      constructor
      · intro h; simp at h
      · intro h; exact absurd ⟨order, hl⟩ h
  | nonLinear =>
    have hfm : v.fromMemoryOrder = .ok none := by simp only [View.fromMemoryOrder, hl]
    refine ⟨⟨_, hfm⟩, ?_, ?_⟩
    · intro a ha; rw [hfm] at ha; simp at ha
    · rw [hfm]; simp [hl]
  | other =>
    have hfm : v.fromMemoryOrder = .ok none := by simp only [View.fromMemoryOrder, hl]
    refine ⟨⟨_, hfm⟩, ?_, ?_⟩
    · intro a ha; rw [hfm] at ha; simp at ha
    · rw [hfm]; simp [hl]

end EasyMl
