/-
  EasyMl.Lemmas.FixConservative — the repairs D-04 … D-08 change nothing but overflow panics: at
  each of the six places where the repaired code differs from the pinned code (`Arith.pre` vs
  `Arith.fixed`) the pinned code either panicked with an arithmetic overflow or answered what the
  repaired code answers; likewise for the constructors' decision logic built from them.
-/
import EasyMl.Lemmas.Fallible

set_option linter.unusedSectionVars false
namespace EasyMl.Fallible
open EasyMl

theorem prodC_or_checked (l : List Nat) (acc : Nat) :
    prodC l acc = .panic .overflow ∨ ∃ p, prodC l acc = .ok p ∧ checkedProd l acc = some p := by
  induction l generalizing acc with
  | nil => right; exact ⟨acc, rfl, rfl⟩
  | cons x xs ih =>
    simp only [prodC, checkedProd, cmul]
    by_cases h : acc * x ≤ usizeMax
    · simp only [h, if_true]; exact ih (acc * x)
    · left; simp [h]

theorem fixes_only_replace_overflow_panics (r : IndexRange) (m e i l : Nat) (ls : List Nat)
    (a b : Nat) :
    (Arith.pre.clip r m = .panic .overflow ∨ Arith.pre.clip r m = Arith.fixed.clip r m) ∧
    (Arith.pre.exceeds r e = .panic .overflow ∨ Arith.pre.exceeds r e = Arith.fixed.exceeds r e) ∧
    (Arith.pre.maskChecked r i = .panic .overflow ∨
      Arith.pre.maskChecked r i = Arith.fixed.maskChecked r i) ∧
    (Arith.pre.reverseChecked l i = .panic .overflow ∨
      Arith.pre.reverseChecked l i = Arith.fixed.reverseChecked l i) ∧
    (Arith.pre.elementsChecked ls = .panic .overflow ∨
      Arith.pre.elementsChecked ls = Arith.fixed.elementsChecked ls) ∧
    (Arith.pre.mulChecked a b = .panic .overflow ∨
      Arith.pre.mulChecked a b = Arith.fixed.mulChecked a b) := by
  refine ⟨?_, ?_, ?_, ?_, ?_, ?_⟩
  · simp only [Arith.pre, Arith.fixed, IndexRange.clipPre, IndexRange.clip, cadd]
    by_cases h : r.start + r.length ≤ usizeMax
    · right; simp [h, Nat.min_eq_left h]
    · left; simp [h]
  · simp only [Arith.pre, Arith.fixed, cadd]
    by_cases h : r.start + r.length ≤ usizeMax
    · right; simp [h]
    · left; simp [h]
  · simp only [Arith.pre, Arith.fixed, IndexRange.mask, IndexRange.tryMask, cadd]
    by_cases h1 : i < r.start
    · right; simp [h1]
    · by_cases h : i + r.length ≤ usizeMax
      · right; simp [h1, h]
      · left; simp [h1, h]
  · simp only [Arith.pre, Arith.fixed, reverseOne, csub]
    by_cases h : i ≥ l
    · left
      by_cases h1 : 1 ≤ l
      · have : ¬ i ≤ l - 1 := by omega
        simp [h1, this]
      · simp [h1]
    · right; simp [h]
  · simp only [Arith.pre, Arith.fixed]
    rcases prodC_or_checked ls 1 with h | ⟨p, h1, h2⟩
    · left; simp [h]
    · right; simp [h1, h2]
  · simp only [Arith.pre, Arith.fixed, cmul]
    by_cases h : a * b ≤ usizeMax
    · right; simp [h]
    · left; simp [h]

end EasyMl.Fallible

namespace EasyMl.Fallible
open EasyMl
variable {ν : Type} [DecidableEq ν]

theorem tensorTryFrom_fix_conservative (shape : Shape ν) (n : Nat) :
    tensorTryFrom Arith.pre shape n = .panic .overflow ∨
      tensorTryFrom Arith.pre shape n = tensorTryFrom Arith.fixed shape n := by
  rcases (fixes_only_replace_overflow_panics ⟨0, 0⟩ 0 0 0 0 (shape.map (·.2)) 0 0).2.2.2.2.1 with h | h
  · left; simp only [tensorTryFrom, h]
  · right; simp only [tensorTryFrom, h]

theorem rangeExceedsBounds_fix_conservative (shape : Shape ν) (rs : List (Option IndexRange)) :
    rangeExceedsBounds Arith.pre shape rs = .panic .overflow ∨
      rangeExceedsBounds Arith.pre shape rs = rangeExceedsBounds Arith.fixed shape rs := by
  induction shape generalizing rs with
  | nil => right; rfl
  | cons d shape ih =>
    obtain ⟨n, e⟩ := d
    cases rs with
    | nil => right; rfl
    | cons o os =>
      cases o with
      | none => simp only [rangeExceedsBounds]; exact ih os
      | some r =>
        simp only [rangeExceedsBounds]
        rcases (fixes_only_replace_overflow_panics r 0 e 0 0 [] 0 0).2.1 with h | h
        · left; rw [h]
        · rw [h]
          cases hx : Arith.fixed.exceeds r e with
          | panic k => right; rfl
          | ok b =>
            cases b with
            | true => right; rfl
            | false => exact ih os

theorem clipRangeShape_fix_conservative (shape : Shape ν) (rs : List IndexRange) :
    clipRangeShape Arith.pre shape rs = .panic .overflow ∨
      clipRangeShape Arith.pre shape rs = clipRangeShape Arith.fixed shape rs := by
  induction shape generalizing rs with
  | nil => right; rfl
  | cons d shape ih =>
    obtain ⟨n, l⟩ := d
    cases rs with
    | nil => right; rfl
    | cons r rs =>
      simp only [clipRangeShape]
      rcases (fixes_only_replace_overflow_panics r l 0 0 0 [] 0 0).1 with h | h
      · left; rw [h]
      · rw [h]
        cases hx : Arith.fixed.clip r l with
        | panic k => right; rfl
        | ok r' =>
          rcases ih rs with h2 | h2
          · left; simp only [h2]
          · right; simp only [h2]

end EasyMl.Fallible
