/-
  EasyMl.Lemmas.Equality — helper lemmas for tensor equality and similarity (C13).
-/
import EasyMl.Lemmas.Transform

namespace EasyMl
open EasyMl.Spec

set_option linter.unusedSectionVars false

variable {ν : Type} [DecidableEq ν] {α : Type}

theorem zip_all_eq_iff [DecidableEq α] (l₁ l₂ : List α) (h : l₁.length = l₂.length) :
    ((l₁.zip l₂).all fun p => decide (p.1 = p.2)) = true ↔ l₁ = l₂ := by
  induction l₁ generalizing l₂ with
  | nil => cases l₂ <;> simp_all
  | cons x xs ih =>
    cases l₂ with
    | nil => simp at h
    | cons y ys =>
      simp only [List.length_cons, Nat.add_right_cancel_iff] at h
      simp only [List.zip_cons_cons, List.all_cons, Bool.and_eq_true, decide_eq_true_eq, ih ys h,
        List.cons.injEq]

theorem materialise_eq_iff (l r : LazyView ν α) :
    materialise l = materialise r ↔
      l.shape = r.shape ∧ (materialise l).elems = (materialise r).elems := by
  constructor
  · intro h; exact ⟨congrArg TVal.shape h, congrArg TVal.elems h⟩
  · rintro ⟨hs, he⟩
    cases hl : materialise l with
    | mk s e =>
      cases hr : materialise r with
      | mk s' e' =>
        have h1 : s = l.shape := by rw [← show (materialise l).shape = l.shape from rfl, hl]
        have h2 : s' = r.shape := by rw [← show (materialise r).shape = r.shape from rfl, hr]
        rw [hl, hr] at he
        simp only at he
        rw [h1, h2, hs, he]

/-- `tensor_equality` on valid sources decides equality of values. -/
theorem tensorEquality_iff [DecidableEq α] (l r : TView ν α) (hl : l.lazy.Valid)
    (hr : r.lazy.Valid) :
    tensorEquality l r = true ↔ materialise l.lazy = materialise r.lazy := by
  unfold tensorEquality
  rw [materialise_eq_iff, Bool.and_eq_true, decide_eq_true_eq, l.iter_eq, r.iter_eq]
  simp only [TView.lazy_shape]
  constructor
  · rintro ⟨hs, ha⟩
    refine ⟨hs, ?_⟩
    rw [zip_all_eq_iff] at ha
    · exact ha
    · rw [hl.elems_length, hr.elems_length]; simp only [TView.lazy_shape, hs]
  · rintro ⟨hs, he⟩
    refine ⟨hs, ?_⟩
    rw [zip_all_eq_iff]
    · exact he
    · rw [hl.elems_length, hr.elems_length]; simp only [TView.lazy_shape, hs]

/-! ### identity ordering -/

theorem coords_self (shape : Shape ν) (idx : List Nat) (hnd : (shape.map (·.1)).Nodup)
    (hlen : idx.length = shape.length) : coords shape (shape.map (·.1)) idx = idx := by
  apply List.ext_getElem
  · simp [coords, hlen]
  · intro i h1 h2
    have hi : i < shape.length := by simpa [coords] using h1
    have hi' : i < (shape.map (·.1)).length := by simpa using hi
    simp only [coords, coordOf, List.getElem_map]
    have : (shape.map (·.1)).idxOf shape[i].1 = i := by
      have := hnd.idxOf_getElem i hi'
      simpa using this
    rw [this, List.getD_eq_getElem?_getD, List.getElem?_eq_getElem h2]
    rfl

theorem reordered_self_equiv {v : LazyView ν α} (hv : v.Valid) :
    (reordered v (v.shape.map (·.1))).Equiv v := by
  refine ⟨shapeFor_self v.shape hv.shape.1, fun idx hlen => ?_⟩
  simp only [reordered, shapeFor_length, List.length_map] at hlen ⊢
  rw [coords_self v.shape idx hv.shape.1 hlen]

/-- `TensorAccess::from_source_order` changes nothing -/
theorem accessSourceOrder_equiv [Inhabited ν] (v : TView ν α) :
    v.accessSourceOrder.lazy.Equiv v.lazy := by
  have hs : (DimensionMappings.noOp v.shape.length).mapShapeToRequested v.shape = v.shape := by
    apply List.ext_getElem
    · simp [DimensionMappings.mapShapeToRequested, DimensionMappings.noOp]
    · intro i h1 h2
      simp [DimensionMappings.mapShapeToRequested, DimensionMappings.noOp,
        List.getD_eq_getElem?_getD, List.getElem?_eq_getElem h2]
  refine ⟨hs, fun idx hlen => ?_⟩
  simp only [TView.accessSourceOrder, TView.lazy] at hlen ⊢
  rw [hs] at hlen
  congr 1
  apply List.ext_getElem
  · simp [DimensionMappings.mapDimensionsToSource, DimensionMappings.noOp, hlen]
  · intro i h1 h2
    simp [DimensionMappings.mapDimensionsToSource, DimensionMappings.noOp,
      List.getD_eq_getElem?_getD, List.getElem?_eq_getElem h2]

/-! ### similarity: the only candidate ordering is the left operand's -/

theorem similar_iff_left_names [DecidableEq α] (l r : LazyView ν α) :
    Similar l r ↔
      IsOrdering r.shape (l.shape.map (·.1)) ∧
      materialise (reordered r (l.shape.map (·.1))) = materialise l := by
  constructor
  · rintro ⟨names, hp, hm⟩
    have hs : shapeFor r.shape names = l.shape := congrArg TVal.shape hm
    have : names = l.shape.map (·.1) := by rw [← hs, shapeFor_map_fst]
    subst this
    exact ⟨hp, hm⟩
  · rintro ⟨hp, hm⟩; exact ⟨_, hp, hm⟩

/-- `tensor_similarity` on valid sources decides "some reordering of the right operand has the
    left operand's value". -/
theorem tensorSimilarity_iff [DecidableEq α] [Inhabited ν] (l r : TView ν α) (hl : l.lazy.Valid)
    (hr : r.lazy.Valid) : tensorSimilarity l r = true ↔ Similar l.lazy r.lazy := by
  rw [similar_iff_left_names]
  simp only [TView.lazy_shape]
  unfold tensorSimilarity
  simp only
  by_cases hp : IsOrdering r.shape (l.shape.map (·.1))
  · obtain ⟨a, ha, hal⟩ := r.access_of_ordering _ hr.shape.1 hp
    have hav : a.lazy.Valid := hal ▸ reordered_valid hr _ hp
    have hlv : l.accessSourceOrder.lazy.Valid := hl.of_equiv (accessSourceOrder_equiv l)
    have hle := materialise_congr (accessSourceOrder_equiv l)
    simp only [ha]
    by_cases hs : l.shape = a.shape
    · rw [if_neg (by simp [hs])]
      have h1 := tensorEquality_iff l.accessSourceOrder a hlv hav
      unfold tensorEquality at h1
      have hsa : l.accessSourceOrder.shape = a.shape := by
        have := (accessSourceOrder_equiv l).1
        simp only [TView.lazy_shape] at this
        rw [this, hs]
      simp only [hsa, decide_true, Bool.true_and] at h1
      rw [h1, hle, hal]
      constructor
      · intro h; exact ⟨hp, h.symm⟩
      · intro h; exact h.2.symm
    · simp only [ne_eq, hs, not_false_eq_true, if_true]
      constructor
      · intro h; cases h
      · rintro ⟨_, hm⟩
        have : (reordered r.lazy (l.shape.map (·.1))).shape = l.shape := congrArg TVal.shape hm
        rw [← hal] at this
        exact absurd this.symm hs
  · simp only [r.access_none _ hr.shape.1 hp]
    constructor
    · intro h; cases h
    · rintro ⟨hp', _⟩; exact absurd hp' hp

/-! ### laws of `Similar` -/

theorem similar_refl' [DecidableEq α] {v : LazyView ν α} (hv : v.Valid) : Similar v v :=
  ⟨_, List.Perm.refl _, materialise_congr (reordered_self_equiv hv)⟩

theorem similar_of_eq [DecidableEq α] {l r : LazyView ν α} (hr : r.Valid)
    (h : materialise l = materialise r) : Similar l r := by
  refine ⟨r.shape.map (fun d => d.1), ?_, ?_⟩
  · exact List.Perm.refl _
  · rw [materialise_congr (reordered_self_equiv hr), h]

/-- looking a requested name up in the reordered shape gives its length in the original shape -/
theorem find?_shapeFor (shape : Shape ν) (names : List ν) (n : ν) (hn : n ∈ names) :
    (shapeFor shape names).find? (fun e => decide (e.1 = n)) =
      some (n, ((shape.find? (fun e => decide (e.1 = n))).map (·.2)).getD 0) := by
  induction names with
  | nil => simp at hn
  | cons m ms ih =>
    simp only [shapeFor, List.map_cons, List.find?_cons]
    by_cases h : m = n
    · subst h; simp
    · simp only [h, decide_false]
      rcases List.mem_cons.1 hn with rfl | hn'
      · exact absurd rfl h
      · exact ih hn'

theorem shapeFor_shapeFor (shape : Shape ν) (names names' : List ν)
    (hsub : ∀ n ∈ names', n ∈ names) :
    shapeFor (shapeFor shape names) names' = shapeFor shape names' := by
  unfold shapeFor
  apply List.map_congr_left
  intro n hn
  have := find?_shapeFor shape names n (hsub n hn)
  unfold shapeFor at this
  rw [this]
  simp

/-- going to another ordering and back to the original one restores every index tuple -/
theorem coords_coords_back (shape : Shape ν) (names : List ν) (idx : List Nat)
    (hnd : (shape.map (·.1)).Nodup) (hp : names.Perm (shape.map (·.1)))
    (hlen : idx.length = shape.length) :
    coords shape names (coords (shapeFor shape names) (shape.map (·.1)) idx) = idx := by
  have hnn : names.Nodup := hp.nodup_iff.2 hnd
  have hc : coords (shapeFor shape names) (shape.map (·.1)) idx =
      names.map fun n => idx.getD ((shape.map (·.1)).idxOf n) 0 := by
    simp [coords, coordOf, shapeFor, List.map_map, Function.comp_def]
  rw [hc]
  conv => rhs; rw [← coords_self shape idx hnd hlen]
  unfold coords coordOf
  apply List.map_congr_left
  intro d hd
  have hmem : d.1 ∈ names := hp.mem_iff.2 (List.mem_map.2 ⟨d, hd, rfl⟩)
  have hk : names.idxOf d.1 < names.length := List.idxOf_lt_length_iff.2 hmem
  rw [List.getD_eq_getElem?_getD, List.getElem?_map, List.getElem?_eq_getElem hk]
  simp only [Option.map_some, Option.getD_some]
  rw [List.getElem_idxOf hk]

theorem reordered_reordered_back {v : LazyView ν α} (hv : v.Valid) (names : List ν)
    (hp : IsOrdering v.shape names) :
    (reordered (reordered v names) (v.shape.map (·.1))).Equiv v := by
  refine ⟨?_, fun idx hlen => ?_⟩
  · simp only [reordered]
    rw [shapeFor_shapeFor _ _ _ (fun n hn => hp.mem_iff.2 hn)]
    exact shapeFor_self v.shape hv.shape.1
  · simp only [reordered, shapeFor_length, List.length_map] at hlen ⊢
    rw [coords_coords_back v.shape names idx hv.shape.1 hp hlen]

theorem similar_symm' [DecidableEq α] {l r : LazyView ν α} (hl : l.Valid) (hr : r.Valid)
    (h : Similar l r) : Similar r l := by
  obtain ⟨hp, hm⟩ := (similar_iff_left_names l r).1 h
  have hrv := reordered_valid hr _ hp
  have he : (reordered r (l.shape.map (·.1))).Equiv l := equiv_of_materialise_eq hrv hl hm
  refine ⟨r.shape.map (fun d => d.1), ?_, ?_⟩
  · exact hp.symm
  · rw [← materialise_congr (reordered_congr he (r.shape.map (·.1)))]
    exact materialise_congr (reordered_reordered_back hr _ hp)

/-! ### the executable form of `Similar` -/

theorem mem_insertEverywhere (x : ν) (ys p : List ν) :
    p ∈ insertEverywhere x ys ↔ ∃ a b, ys = a ++ b ∧ p = a ++ x :: b := by
  induction ys generalizing p with
  | nil =>
    simp only [insertEverywhere, List.mem_singleton]
    constructor
    · rintro rfl; exact ⟨[], [], rfl, rfl⟩
    · rintro ⟨a, b, h, rfl⟩
      have := List.append_eq_nil_iff.1 h.symm
      rw [this.1, this.2]; rfl
  | cons y ys ih =>
    simp only [insertEverywhere, List.mem_cons, List.mem_map]
    constructor
    · rintro (rfl | ⟨q, hq, rfl⟩)
      · exact ⟨[], y :: ys, rfl, rfl⟩
      · obtain ⟨a, b, rfl, rfl⟩ := (ih q).1 hq
        exact ⟨y :: a, b, rfl, rfl⟩
    · rintro ⟨a, b, h, rfl⟩
      cases a with
      | nil => left; simp at h; rw [← h]; rfl
      | cons a0 as =>
        simp only [List.cons_append, List.cons.injEq] at h
        obtain ⟨rfl, rfl⟩ := h
        right
        exact ⟨as ++ x :: b, (ih _).2 ⟨as, b, rfl, rfl⟩, rfl⟩

theorem mem_perms_iff (l p : List ν) : p ∈ perms l ↔ p.Perm l := by
  induction l generalizing p with
  | nil => simp [perms]
  | cons x xs ih =>
    simp only [perms, List.mem_flatMap]
    constructor
    · rintro ⟨q, hq, hp⟩
      obtain ⟨a, b, rfl, rfl⟩ := (mem_insertEverywhere x q p).1 hp
      exact List.perm_middle.trans (((ih _).1 hq).cons x)
    · intro hp
      have hx : x ∈ p := hp.mem_iff.2 (by simp)
      obtain ⟨a, b, rfl⟩ := List.append_of_mem hx
      have : (a ++ b).Perm xs := (List.perm_middle.symm.trans hp).cons_inv
      exact ⟨a ++ b, (ih _).2 this, (mem_insertEverywhere x _ _).2 ⟨a, b, rfl, rfl⟩⟩

/-- trying every ordering (what the driver evaluates) decides `Similar` -/
theorem similarB_iff [DecidableEq α] (l r : LazyView ν α) : similarB l r = true ↔ Similar l r := by
  unfold similarB Similar
  simp only [List.any_eq_true, Bool.and_eq_true, decide_eq_true_eq, mem_perms_iff]
  constructor
  · rintro ⟨names, hp, _, hm⟩; exact ⟨names, hp, hm⟩
  · rintro ⟨names, hp, hm⟩; exact ⟨names, hp, congrArg TVal.shape hm, hm⟩

end EasyMl
