/-
  EasyMl.Lemmas.RecordContainerHistory — one step of a container program with the code-shaped
  model is the same step done element by element (Spec/RecordContainer.lean: `CInstr.stepModel`,
  `CInstr.stepSpec`), and keeps all containers well formed.  Names live in `EasyMl.RC`.
-/
import EasyMl.Lemmas.RecordContainer
import EasyMl.Lemmas.RecordContainerTape

namespace EasyMl.RC
open EasyMl EasyMl.Fn

set_option linter.unusedSectionVars false
set_option linter.unusedSimpArgs false

section History
variable {R : Type} [Field R] [RealFns R]

/-- every container of the state is well formed -/
def AllWF (cs : List (Cont R)) : Prop := ∀ c ∈ cs, c.WF

/-- the specification's view of a model state -/
def absState (r : List (Cont R) × World R) : List (SCont R) × World R := (r.1.map Cont.abs, r.2)

theorem allWF_append {cs : List (Cont R)} {c : Cont R} (h : AllWF cs) (hc : c.WF) : AllWF (cs ++ [c]) := by
  intro x hx
  simp only [List.mem_append, List.mem_singleton] at hx
  rcases hx with hx | rfl
  · exact h x hx
  · exact hc

theorem allWF_set {cs : List (Cont R)} {c : Cont R} (h : AllWF cs) (a : Nat) (hc : c.WF) :
    AllWF (cs.set a c) := by
  intro x hx
  rcases List.mem_or_eq_of_mem_set hx with hx | rfl
  · exact h x hx
  · exact hc

theorem allWF_get {cs : List (Cont R)} (h : AllWF cs) (a : Nat) (c : Cont R) (hc : cs[a]? = some c) : c.WF :=
  h c (List.mem_of_getElem? hc)

theorem abs_get (cs : List (Cont R)) (a : Nat) : (cs.map Cont.abs)[a]? = (cs[a]?).map Cont.abs := by
  simp

/-! ### well-formedness of the in-place forms -/

theorem reset_wf (c : Cont R) (w : World R) (hc : c.WF) : (c.reset w).1.WF := by
  unfold Cont.reset
  cases hh : c.history with
  | none => exact hc
  | some h =>
    simp only [appendNullaryRepeating_eq, Cont.total]
    have hl : ((c.elems.zip (incrementingIndexes (w h).length (elements c.shape))).map
        fun p => (p.1.1, p.2)).length = c.elems.length := by
      simp [List.length_zip, incrementingIndexes_length, hc.length_eq]
    refine ⟨by rw [hl]; exact hc.length_eq, ?_, by simp⟩
    intro hnil
    have h0 : c.elems.length = 0 := by rw [← hl]; simp only at hnil; rw [hnil]; rfl
    exact hc.nonempty (List.eq_nil_of_length_eq_zero h0)

theorem unaryAssign_wf (c : Cont R) (fx dfx : R → R) (w : World R) (hc : c.WF) :
    (c.unaryAssign fx dfx w).1.WF := by
  rw [unaryAssign_eq c _ _ w hc.const_zero]
  have hw := unary_wf c fx dfx w hc
  have hs := unary_shape c fx dfx w
  exact ⟨by simpa [hs.1] using hw.length_eq, hw.nonempty, hw.const_zero⟩

/-! ### results of the multiplications carry the expected shape -/

theorem matmulCore_shape (e : (R × Nat) × (R × Nat) → Tape R → (R × Nat) × Tape R) (a b : Cont R)
    (m n l : Nat) (sh : Shape String) (w : World R) (c' : Cont R) (w' : World R)
    (h : Cont.matmulCore e a b m n l sh w = .ok (c', w')) : c'.shape = sh := by
  unfold Cont.matmulCore at h
  split at h
  · split at h
    · cases h
    · injection h with h; injection h with h1 _; subst h1; rfl
  · split at h
    · cases h
    · injection h with h; injection h with h1 _; subst h1; rfl

/-- `RecordMatrix * RecordMatrix` against the specification's multiplication with its shape tests -/
theorem matmulMatrix_eq_spec (a b : Cont R) (w : World R) (ha : a.WF) (hb : b.WF) :
    ((a.matmulMatrix b w).map fun r => (r.1.abs, r.2)) = specMatmul false a.abs b.abs w := by
  unfold specMatmul Cont.abs
  simp only []
  cases hda : Cont.dims2 a.shape with
  | none => simp [Cont.matmulMatrix, hda, Outcome.map]
  | some da =>
    cases hdb : Cont.dims2 b.shape with
    | none => simp [Cont.matmulMatrix, hda, hdb, Outcome.map]
    | some db =>
      obtain ⟨l0, l1⟩ := da
      obtain ⟨r0, r1⟩ := db
      have hsa : a.shape = [l0, l1] := by
        unfold Cont.dims2 at hda; split at hda <;> simp_all
      have hsb : b.shape = [r0, r1] := by
        unfold Cont.dims2 at hdb; split at hdb <;> simp_all
      simp only []
      by_cases hn : l1.2 = r0.2
      · rw [if_neg (not_not.mpr hn)]
        simp only [Bool.false_and, Bool.false_eq_true, if_false]
        have key := matmulMatrix_eq a b w l0 l1 r0 r1 hsa hsb hn ha hb
        cases hm : a.matmulMatrix b w with
        | panic k =>
          rw [hm] at key
          simp only [Outcome.map] at key ⊢
          rw [← key]
        | ok r =>
          obtain ⟨c', w'⟩ := r
          rw [hm] at key
          simp only [Outcome.map, asRecs] at key ⊢
          rw [← key]
          have hshape : c'.shape = [(l0.1, l0.2), (l1.1, r1.2)] := by
            simp only [Cont.matmulMatrix, hda, hdb] at hm
            rw [if_neg (not_not.mpr hn)] at hm
            split at hm
            · cases hm
            · exact matmulCore_shape _ a b _ _ _ _ w c' w' hm
          simp [hshape]
      · rw [if_pos hn]
        simp [Cont.matmulMatrix, hda, hdb, hn, Outcome.map]

/-- `RecordTensor * RecordTensor` against the specification's multiplication with its shape tests -/
theorem matmulTensor_eq_spec (a b : Cont R) (w : World R) (ha : a.WF) (hb : b.WF) :
    ((a.matmulTensor b w).map fun r => (r.1.abs, r.2)) = specMatmul true a.abs b.abs w := by
  unfold specMatmul Cont.abs
  simp only []
  cases hda : Cont.dims2 a.shape with
  | none => simp [Cont.matmulTensor, Cont.matmulTensorWith, hda, Outcome.map]
  | some da =>
    cases hdb : Cont.dims2 b.shape with
    | none => simp [Cont.matmulTensor, Cont.matmulTensorWith, hda, hdb, Outcome.map]
    | some db =>
      obtain ⟨l0, l1⟩ := da
      obtain ⟨r0, r1⟩ := db
      have hsa : a.shape = [l0, l1] := by
        unfold Cont.dims2 at hda; split at hda <;> simp_all
      have hsb : b.shape = [r0, r1] := by
        unfold Cont.dims2 at hdb; split at hdb <;> simp_all
      simp only []
      by_cases hn : l1.2 = r0.2
      · rw [if_neg (not_not.mpr hn)]
        by_cases hnames : l0.1 = r1.1
        · simp [Cont.matmulTensor, Cont.matmulTensorWith, hda, hdb, hn, hnames, Outcome.map]
        · have hne : (true && l0.1 == r1.1) = false := by simpa using hnames
          rw [hne]
          simp only [Bool.false_eq_true, if_false, if_true]
          have key := matmulTensor_eq a b w l0 l1 r0 r1 hsa hsb hn hnames ha hb
          cases hm : a.matmulTensor b w with
          | panic k =>
            rw [hm] at key
            simp only [Outcome.map] at key ⊢
            rw [← key]
          | ok r =>
            obtain ⟨c', w'⟩ := r
            rw [hm] at key
            simp only [Outcome.map, asRecs] at key ⊢
            rw [← key]
            have hshape : c'.shape = [l0, r1] := by
              simp only [Cont.matmulTensor, Cont.matmulTensorWith, hda, hdb] at hm
              rw [if_neg (not_not.mpr hn), if_neg hnames] at hm
              split at hm
              · cases hm
              · exact matmulCore_shape _ a b _ _ _ _ w c' w' hm
            simp [hshape]
      · rw [if_pos hn]
        simp [Cont.matmulTensor, Cont.matmulTensorWith, hda, hdb, hn, Outcome.map]

/-! ### the further instructions of a program -/

theorem mem_set_of_getElem? {α : Type} {l : List α} {a : Nat} {x v : α} (h : l[a]? = some x) :
    v ∈ l.set a v := by
  have hlt : a < l.length := by
    rcases Nat.lt_or_ge a l.length with h' | h'
    · exact h'
    · rw [List.getElem?_eq_none h'] at h; cases h
  exact List.mem_of_getElem? (by rw [List.getElem?_set_self hlt])

theorem swapElems_wf (c : Cont R) (i j : Nat) (hc : c.WF) : (c.swapElems i j).WF := by
  unfold Cont.swapElems
  cases hi : c.elems[i]? with
  | none => exact hc
  | some x =>
    cases hj : c.elems[j]? with
    | none => exact hc
    | some y =>
      refine ⟨by simpa using hc.length_eq, ?_, ?_⟩
      · intro hnil
        have : ((c.elems.set i y).set j x).length = 0 := by simp only at hnil; rw [hnil]; rfl
        simp only [List.length_set] at this
        exact hc.nonempty (List.eq_nil_of_length_eq_zero this)
      · intro hh e he
        have hx : x ∈ c.elems := List.mem_of_getElem? hi
        have hy : y ∈ c.elems := List.mem_of_getElem? hj
        rcases List.mem_or_eq_of_mem_set he with he | rfl
        · rcases List.mem_or_eq_of_mem_set he with he | rfl
          · exact hc.const_zero hh e he
          · exact hc.const_zero hh _ hy
        · exact hc.const_zero hh _ hx

/-- a record of a well-formed container, as a 0-dimensional container -/
theorem fromRecord_wf (c : Cont R) (hc : c.WF) (e : R × Nat) (he : e ∈ c.elems) :
    (Cont.fromRecord (⟨e.1, c.history, e.2⟩ : Rec R)).WF := by
  refine ⟨rfl, by simp [Cont.fromRecord], ?_⟩
  intro hh x hx
  simp only [Cont.fromRecord, List.mem_singleton] at hx hh
  subst hx
  exact hc.const_zero hh e he

/-- `from_iter` of a container's own records: the container again, unless the shape is refused -/
theorem fromIterTensor_self (c : Cont R) (hc : c.WF) :
    Cont.fromIterTensor c.shape c.toRecs
      = if validateDimensions c.shape c.elems.length = none then .ok c else .error .shape := by
  simp only [Cont.fromIterTensor, toRecs_eq, collectComponents_recsOf c.history c.elems hc.nonempty]
  cases validateDimensions c.shape c.elems.length <;> rfl

/-! ### sound program states -/

/-- the state of a program is sound: containers well formed, tapes well formed (C04's `Tape.WF`:
    every entry names earlier positions), every stored position on its tape -/
def SoundState (cs : List (Cont R)) (w : World R) : Prop :=
  AllWF cs ∧ WorldWF w ∧ ∀ c ∈ cs, OnTape w c

theorem soundState_append {cs : List (Cont R)} {w w' : World R} {c : Cont R} (h : SoundState cs w)
    (hc : c.WF) (k : Keeps w c w') : SoundState (cs ++ [c]) w' := by
  refine ⟨allWF_append h.1 hc, k.1, ?_⟩
  intro x hx
  simp only [List.mem_append, List.mem_singleton] at hx
  rcases hx with hx | rfl
  · exact (h.2.2 x hx).mono k.2.1
  · exact k.2.2

theorem soundState_set {cs : List (Cont R)} {w w' : World R} {c : Cont R} (h : SoundState cs w)
    (a : Nat) (hc : c.WF) (k : Keeps w c w') : SoundState (cs.set a c) w' := by
  refine ⟨allWF_set h.1 a hc, k.1, ?_⟩
  intro x hx
  rcases List.mem_or_eq_of_mem_set hx with hx | rfl
  · exact (h.2.2 x hx).mono k.2.1
  · exact k.2.2

end History

end EasyMl.RC
