/-
  EasyMl.Lemmas.FallibleAccess — `DimensionMappings::new` yields two mutually inverse index
  tables exactly for permutations of the source's names; consequences for `TensorAccess` /
  `TensorTranspose` (no index panic, present ⇔ inside the shape).
-/
import EasyMl.Lemmas.Fallible
import Batteries.Data.List.Perm

namespace EasyMl.Fallible
open EasyMl.Spec

set_option linter.unusedSectionVars false
set_option linter.unusedVariables false

variable {ν : Type} [DecidableEq ν]

theorem mapM_option_spec {α β : Type} (f : α → Option β) (xs : List α) (l : List β)
    (h : xs.mapM f = some l) : l.length = xs.length ∧ ∀ k (hk : k < xs.length), f xs[k] = l[k]? := by
  induction xs generalizing l with
  | nil => simp at h; subst h; simp
  | cons a as ih =>
    simp only [List.mapM_cons] at h
    cases hfa : f a with
    | none => simp [hfa] at h
    | some b =>
      cases hm : as.mapM f with
      | none => simp [hfa, hm] at h
      | some bs =>
        simp [hfa, hm] at h
        subst h
        obtain ⟨h1, h2⟩ := ih bs hm
        refine ⟨by simp [h1], ?_⟩
        intro k hk
        cases k with
        | zero => simp [hfa]
        | succ k => simp at hk; simpa using h2 k hk

theorem mapM_option_of_forall {α β : Type} (f : α → Option β) (xs : List α)
    (h : ∀ x ∈ xs, (f x).isSome = true) : ∃ l, xs.mapM f = some l := by
  induction xs with
  | nil => exact ⟨[], by simp⟩
  | cons a as ih =>
    obtain ⟨l, hl⟩ := ih (fun x hx => h x (by simp [hx]))
    have ha := h a (by simp)
    cases hfa : f a with
    | none => simp [hfa] at ha
    | some b => exact ⟨b :: l, by simp [List.mapM_cons, hfa, hl]⟩

theorem findPos_spec {α : Type} {p : α → Bool} {l : List α} {k : Nat} (h : findPos p l = some k) :
    ∃ x, l[k]? = some x ∧ p x = true := by
  induction l generalizing k with
  | nil => simp [findPos] at h
  | cons y ys ih =>
    simp only [findPos] at h
    split at h
    · rename_i hp; simp at h; subst h; exact ⟨y, by simp, hp⟩
    · cases hx : findPos p ys with
      | none => simp [hx] at h
      | some j =>
        simp [hx] at h; subst h
        obtain ⟨x, h1, h2⟩ := ih hx
        exact ⟨x, by simpa using h1, h2⟩

theorem findPos_isSome_of_mem {α : Type} {p : α → Bool} {l : List α} {x : α} (hx : x ∈ l)
    (hp : p x = true) : (findPos p l).isSome = true := by
  cases h : findPos p l with
  | some _ => rfl
  | none => have := findPos_eq_none.mp h x hx; simp [hp] at this

/-- one iteration of the loop of `DimensionMappings::new` -/
theorem mappingAt_spec {names requested : List ν} {d a b : Nat}
    (h : mappingAt names requested d = some (a, b)) :
    ∃ n r, names[d]? = some n ∧ requested[d]? = some r ∧
      requested[a]? = some n ∧ names[b]? = some r := by
  simp only [mappingAt] at h
  cases hn : names[d]? with
  | none => simp [hn] at h
  | some n =>
    cases hr : requested[d]? with
    | none => simp [hn, hr] at h
    | some r =>
      simp only [hn, hr] at h
      refine ⟨n, r, rfl, rfl, ?_⟩
      split at h
      · rename_i heq
        simp at h
        obtain ⟨rfl, rfl⟩ := h
        subst heq
        exact ⟨hr, hn⟩
      · cases h1 : findPos (fun x => decide (x = n)) requested with
        | none => simp [h1] at h
        | some a' =>
          cases h2 : findPos (fun x => decide (x = r)) names with
          | none => simp [h1, h2] at h
          | some b' =>
            simp [h1, h2] at h
            obtain ⟨rfl, rfl⟩ := h
            obtain ⟨x, hx1, hx2⟩ := findPos_spec h1
            obtain ⟨y, hy1, hy2⟩ := findPos_spec h2
            simp at hx2 hy2
            subst hx2; subst hy2
            exact ⟨hx1, hy1⟩

/-- What a successful `DimensionMappings::new` establishes: both tables have one entry per
    dimension, entry `d` of `source_to_requested` is a position of the `d`-th source name in the
    requested list and entry `d` of `requested_to_source` a position of the `d`-th requested name
    in the source. -/
theorem new_spec {shape : Shape ν} {requested : List ν} {m : DimensionMappings}
    (h : DimensionMappings.new shape requested = some m) :
    requested.length = shape.length ∧ m.sourceToRequested.length = shape.length ∧
      m.requestedToSource.length = shape.length ∧
      ∀ d, d < shape.length →
        requested[m.sourceToRequested.getD d 0]? = (shape.map (·.1))[d]? ∧
        (shape.map (·.1))[m.requestedToSource.getD d 0]? = requested[d]? := by
  simp only [DimensionMappings.new] at h
  split at h
  · simp at h
  · rename_i hlen
    have hlen' : shape.length = requested.length := by simpa using hlen
    cases hm : (List.range shape.length).mapM (mappingAt (shape.map (·.1)) requested) with
    | none => simp [hm] at h
    | some l =>
      simp only [hm, Option.some.injEq] at h
      subst h
      obtain ⟨h1, h2⟩ := mapM_option_spec _ _ _ hm
      simp only [List.length_range] at h1 h2
      refine ⟨hlen'.symm, by simp [h1], by simp [h1], ?_⟩
      intro d hd
      have hk := h2 d hd
      simp only [List.getElem_range] at hk
      have hld : l[d]? = some l[d] := by simp [h1, hd]
      rw [hld] at hk
      obtain ⟨n, r, hn, hr, ha, hb⟩ := mappingAt_spec (a := l[d].1) (b := l[d].2) hk
      simp only [List.getD_eq_getElem?_getD, List.getElem?_map, hld, Option.map_some,
        Option.getD_some]
      simp only [List.getElem?_map] at hn hb ⊢
      exact ⟨by rw [ha, hn], by rw [hb, hr]⟩

theorem mappingAt_isSome {names requested : List ν} (hp : requested.Perm names) {d : Nat}
    (hd : d < names.length) : (mappingAt names requested d).isSome = true := by
  have hlen : requested.length = names.length := hp.length_eq
  obtain ⟨n, hn⟩ : ∃ n, names[d]? = some n := ⟨names[d], by simp [hd]⟩
  obtain ⟨r, hr⟩ : ∃ r, requested[d]? = some r := ⟨requested[d]'(by omega), by simp [hlen, hd]⟩
  simp only [mappingAt, hn, hr]
  split
  · rfl
  · have m1 : n ∈ requested := hp.symm.subset (List.mem_of_getElem? hn)
    have m2 : r ∈ names := hp.subset (List.mem_of_getElem? hr)
    have s1 := findPos_isSome_of_mem (p := fun x => decide (x = n)) m1 (by simp)
    have s2 := findPos_isSome_of_mem (p := fun x => decide (x = r)) m2 (by simp)
    cases h1 : findPos (fun x => decide (x = n)) requested with
    | none => rw [h1] at s1; simp at s1
    | some a =>
      cases h2 : findPos (fun x => decide (x = r)) names with
      | none => rw [h2] at s2; simp at s2
      | some b => simp

/-- … and conversely `new` succeeds on every permutation of the source's names -/
theorem new_isSome_of_perm {shape : Shape ν} {requested : List ν}
    (hp : requested.Perm (shape.map (·.1))) :
    (DimensionMappings.new shape requested).isSome = true := by
  have hlen : requested.length = shape.length := by simpa using hp.length_eq
  simp only [DimensionMappings.new]
  have : ¬ shape.length ≠ requested.length := by omega
  simp only [this, if_false]
  obtain ⟨l, hl⟩ := mapM_option_of_forall (mappingAt (shape.map (·.1)) requested)
    (List.range shape.length) (by
      intro d hd
      simp only [List.mem_range] at hd
      exact mappingAt_isSome hp (by simpa using hd))
  simp [hl]

/-- The two tables of a successful `new` over unique source names, as index functions:
    in range and mutually inverse; the requested names are a permutation of the source's. -/
theorem new_inverse {shape : Shape ν} {requested : List ν} {m : DimensionMappings}
    (h : DimensionMappings.new shape requested = some m) (hn : (shape.map (·.1)).Nodup) :
    requested.Perm (shape.map (·.1)) ∧
    ∀ d, d < shape.length →
      m.sourceToRequested.getD d 0 < shape.length ∧ m.requestedToSource.getD d 0 < shape.length ∧
      m.requestedToSource.getD (m.sourceToRequested.getD d 0) 0 = d ∧
      m.sourceToRequested.getD (m.requestedToSource.getD d 0) 0 = d := by
  obtain ⟨hlen, hl1, hl2, hspec⟩ := new_spec h
  have hnl : (shape.map (·.1)).length = shape.length := by simp
  -- every source name occurs among the requested ones, so they are a permutation
  have hsub : shape.map (·.1) ⊆ requested := by
    intro n hmem
    obtain ⟨d, hd⟩ := List.mem_iff_getElem?.mp hmem
    have hdlt : d < shape.length := by
      have := (List.getElem?_eq_some_iff.mp hd).1; simpa using this
    have := (hspec d hdlt).1
    rw [hd] at this
    exact List.mem_of_getElem? this
  have hperm : (shape.map (·.1)).Perm requested :=
    (List.subperm_of_subset hn hsub).perm_of_length_le (by simp [hlen])
  have hrn : requested.Nodup := (hperm.nodup_iff).mp hn
  have lt_of_some : ∀ {l : List ν} {k : Nat} {x : ν}, l[k]? = some x → k < l.length :=
    fun hx => (List.getElem?_eq_some_iff.mp hx).1
  have hσ : ∀ d, d < shape.length → m.sourceToRequested.getD d 0 < shape.length := by
    intro d hd
    have h1 := (hspec d hd).1
    have : (shape.map (·.1))[d]? = some (shape.map (·.1))[d] := by simp [hd]
    rw [this] at h1
    have := lt_of_some h1
    omega
  have hρ : ∀ d, d < shape.length → m.requestedToSource.getD d 0 < shape.length := by
    intro d hd
    have h1 := (hspec d hd).2
    have : requested[d]? = some requested[d] := by simp [hlen, hd]
    rw [this] at h1
    have := lt_of_some h1
    simpa using this
  refine ⟨hperm.symm, fun d hd => ⟨hσ d hd, hρ d hd, ?_, ?_⟩⟩
  · -- names[ρ (σ d)] = requested[σ d] = names[d]
    have h1 := (hspec (m.sourceToRequested.getD d 0) (hσ d hd)).2
    have h2 := (hspec d hd).1
    have := h1.trans h2
    exact (List.getElem?_inj (by simpa using hρ _ (hσ d hd)) hn).mp this
  · -- requested[σ (ρ d)] = names[ρ d] = requested[d]
    have h1 := (hspec (m.requestedToSource.getD d 0) (hρ d hd)).1
    have h2 := (hspec d hd).2
    have := h1.trans h2
    exact (List.getElem?_inj (by rw [hlen]; exact hσ _ (hρ d hd)) hrn).mp this

/-! ### consequences for the access view -/

theorem inBounds_iff (lens idx : List Nat) :
    inBounds lens idx = true ↔
      idx.length = lens.length ∧ ∀ d, d < lens.length → idx.getD d 0 < lens.getD d 0 := by
  induction lens generalizing idx with
  | nil => cases idx <;> simp [inBounds]
  | cons l ls ih =>
    cases idx with
    | nil => simp [inBounds]
    | cons c cs =>
      simp only [inBounds, Bool.and_eq_true, decide_eq_true_eq, ih cs, List.length_cons,
        Nat.add_right_cancel_iff]
      constructor
      · rintro ⟨h0, hl, hr⟩
        refine ⟨hl, fun d hd => ?_⟩
        cases d with
        | zero => simpa using h0
        | succ d => simpa using hr d (by omega)
      · rintro ⟨hl, hr⟩
        refine ⟨by simpa using hr 0 (by omega), hl, fun d hd => ?_⟩
        simpa using hr (d + 1) (by omega)

theorem mapDimensionsToSourceC_ok (table indexes : List Nat) (h : ∀ k ∈ table, k < indexes.length) :
    mapDimensionsToSourceC table indexes = .ok (table.map (indexes.getD · 0)) := by
  induction table with
  | nil => simp [mapDimensionsToSourceC]
  | cons k ks ih =>
    have hk := h k (by simp)
    simp only [mapDimensionsToSourceC, idxC_ok hk, ih (fun j hj => h j (by simp [hj]))]
    simp [List.getD_eq_getElem?_getD, hk]

theorem mapShapeToRequestedC_ok [Inhabited ν] (table : List Nat) (shape : Shape ν)
    (h : ∀ k ∈ table, k < shape.length) :
    mapShapeToRequestedC table shape = .ok (table.map (shape.getD · default)) := by
  induction table with
  | nil => simp [mapShapeToRequestedC]
  | cons k ks ih =>
    have hk := h k (by simp)
    simp only [mapShapeToRequestedC, idxC_ok hk, ih (fun j hj => h j (by simp [hj]))]
    simp [List.getD_eq_getElem?_getD, hk]

theorem mem_lt_of_getD {t : List Nat} {n : Nat} (h : ∀ d, d < t.length → t.getD d 0 < n) :
    ∀ k ∈ t, k < n := by
  intro k hk
  obtain ⟨d, hd⟩ := List.mem_iff_getElem?.mp hk
  have hlt : d < t.length := (List.getElem?_eq_some_iff.mp hd).1
  have := h d hlt
  simpa [List.getD_eq_getElem?_getD, hd] using this

/-- the shape of a `TensorAccess`: the source's dimensions in the requested order -/
def accessShape [Inhabited ν] (m : DimensionMappings) (shape : Shape ν) : Shape ν :=
  m.requestedToSource.map (shape.getD · default)

/-- `TensorAccess::try_from` in closed form when the mapping exists -/
theorem accessTryFrom_of_some [Inhabited ν] (src : TView ν) (dimensions : List ν)
    {m : DimensionMappings} (hn : (src.shape.map (·.1)).Nodup)
    (h : DimensionMappings.new src.shape dimensions = some m) :
    ∃ v, accessTryFrom src dimensions = .ok (.ok v) ∧ v.shape = accessShape m src.shape ∧
      ∀ idx, idx.length = src.shape.length →
        v.get idx = src.get (m.sourceToRequested.map (idx.getD · 0)) := by
  obtain ⟨hlen, hl1, hl2, _⟩ := new_spec h
  obtain ⟨_, hinv⟩ := new_inverse h hn
  have hr : ∀ k ∈ m.requestedToSource, k < src.shape.length :=
    mem_lt_of_getD (fun d hd => (hinv d (by omega)).2.1)
  have hs : ∀ k ∈ m.sourceToRequested, k < src.shape.length :=
    mem_lt_of_getD (fun d hd => (hinv d (by omega)).1)
  simp only [accessTryFrom, h, mapShapeToRequestedC_ok _ _ hr]
  refine ⟨_, rfl, rfl, ?_⟩
  intro idx hidx
  simp only [mapDimensionsToSourceC_ok _ idx (by rw [hidx]; exact hs)]

theorem getD_map_getD {α : Type} (t : List Nat) (l : List α) (a : α) (d : Nat) (hd : d < t.length) :
    (t.map (l.getD · a)).getD d a = l.getD (t.getD d 0) a := by
  simp [List.getD_eq_getElem?_getD, List.getElem?_map, hd]

theorem accessShape_lens [Inhabited ν] (m : DimensionMappings) (shape : Shape ν) :
    (accessShape m shape).map (·.2) = m.requestedToSource.map ((shape.map (·.2)).getD · 0) := by
  simp only [accessShape, List.map_map]
  apply List.map_congr_left
  intro k _
  simp only [Function.comp, List.getD_eq_getElem?_getD, List.getElem?_map]
  cases shape[k]? <;> rfl

/-- the access view is total: present ⇔ inside the (reordered) shape, never a panic -/
theorem access_total [Inhabited ν] (src : TView ν) (hsrc : src.WF) (dimensions : List ν)
    {m : DimensionMappings} (h : DimensionMappings.new src.shape dimensions = some m)
    {v : TView ν} (hv : accessTryFrom src dimensions = .ok (.ok v)) :
    v.Total ∧ v.shape = accessShape m src.shape := by
  obtain ⟨v', hv', hshape, hget⟩ := accessTryFrom_of_some src dimensions hsrc.1.1 h
  rw [hv] at hv'
  simp only [Outcome.ok.injEq, Except.ok.injEq] at hv'
  subst hv'
  refine ⟨?_, hshape⟩
  obtain ⟨hlen, hl1, hl2, _⟩ := new_spec h
  obtain ⟨_, hinv⟩ := new_inverse h hsrc.1.1
  intro idx hidx
  have hD : idx.length = src.shape.length := by
    rw [hidx, hshape]; simp [accessShape, hl2]
  rw [hget idx hD]
  obtain ⟨r, hr, hsome⟩ := hsrc.2 (m.sourceToRequested.map (idx.getD · 0)) (by simp [hl1])
  refine ⟨r, hr, ?_⟩
  rw [hsome, hshape, accessShape_lens]
  -- both sides say: every coordinate is below the length of its dimension
  rw [Bool.eq_iff_iff, inBounds_iff, inBounds_iff]
  simp only [List.length_map, hl1, hl2, hD, true_and]
  constructor
  · intro hall e he
    have hρ := (hinv e he).2.1
    have := hall (m.requestedToSource.getD e 0) hρ
    rw [getD_map_getD _ _ _ _ (by omega), (hinv e he).2.2.2] at this
    rw [getD_map_getD _ _ _ _ (by omega)]
    exact this
  · intro hall d hd
    have hσ := (hinv d hd).1
    have := hall (m.sourceToRequested.getD d 0) hσ
    rw [getD_map_getD _ _ _ _ (by omega), (hinv d hd).2.2.1] at this
    rw [getD_map_getD _ _ _ _ (by omega)]
    exact this

theorem accessShape_names [Inhabited ν] {shape : Shape ν} {requested : List ν}
    {m : DimensionMappings} (h : DimensionMappings.new shape requested = some m)
    (hn : (shape.map (·.1)).Nodup) : (accessShape m shape).map (·.1) = requested := by
  obtain ⟨hlen, hl1, hl2, hspec⟩ := new_spec h
  obtain ⟨_, hinv⟩ := new_inverse h hn
  apply List.ext_getElem?
  intro d
  by_cases hd : d < shape.length
  · have h2 := (hspec d hd).2
    have hρ := (hinv d hd).2.1
    obtain ⟨k, hk⟩ : ∃ k, m.requestedToSource[d]? = some k :=
      ⟨m.requestedToSource[d]'(by omega), by simp [hl2, hd]⟩
    have hkd : m.requestedToSource.getD d 0 = k := by simp [List.getD_eq_getElem?_getD, hk]
    rw [hkd] at h2 hρ
    have e1 : ((accessShape m shape).map (·.1))[d]? = some (shape.getD k default).1 := by
      simp [accessShape, List.getElem?_map, hk]
    have e2 : (shape.map (·.1))[k]? = some (shape.getD k default).1 := by
      simp [List.getD_eq_getElem?_getD, List.getElem?_map, hρ]
    rw [e1, ← h2, e2]
  · have h1 : ((accessShape m shape).map (·.1))[d]? = none := by
      simp [accessShape, hl2]; omega
    have h2 : requested[d]? = none := by simp [hlen]; omega
    rw [h1, h2]

theorem accessShape_mem [Inhabited ν] {shape : Shape ν} {requested : List ν}
    {m : DimensionMappings} (h : DimensionMappings.new shape requested = some m)
    (hn : (shape.map (·.1)).Nodup) : ∀ d ∈ accessShape m shape, d ∈ shape := by
  obtain ⟨hlen, hl1, hl2, _⟩ := new_spec h
  obtain ⟨_, hinv⟩ := new_inverse h hn
  have hr : ∀ k ∈ m.requestedToSource, k < shape.length :=
    mem_lt_of_getD (fun d hd => (hinv d (by omega)).2.1)
  intro d hd
  simp only [accessShape, List.mem_map] at hd
  obtain ⟨k, hk, rfl⟩ := hd
  have := hr k hk
  simp [List.getD_eq_getElem?_getD, this]

theorem access_wf [Inhabited ν] (src : TView ν) (hsrc : src.WF) (dimensions : List ν)
    {v : TView ν} (hv : accessTryFrom src dimensions = .ok (.ok v)) : v.WF := by
  cases h : DimensionMappings.new src.shape dimensions with
  | none => simp [accessTryFrom, h] at hv
  | some m =>
    obtain ⟨ht, hs⟩ := access_total src hsrc dimensions h hv
    refine ⟨?_, ht⟩
    obtain ⟨hperm, _⟩ := new_inverse h hsrc.1.1
    rw [hs]
    refine ⟨?_, fun d hd => hsrc.1.2 d (accessShape_mem h hsrc.1.1 d hd)⟩
    rw [accessShape_names h hsrc.1.1]
    exact (hperm.nodup_iff).mpr hsrc.1.1

/-- `TensorAccess::try_from` returns normally for every list of names; it fails exactly when the
    names are not a permutation of the source's, and the error carries the source's shape and the
    requested names -/
theorem accessTryFrom_spec [Inhabited ν] (src : TView ν) (hsrc : src.WF) (dimensions : List ν) :
    (∃ v, accessTryFrom src dimensions = .ok (.ok v) ∧ v.WF ∧
        dimensions.Perm (src.shape.map (·.1))) ∨
    (accessTryFrom src dimensions =
        .ok (.error { actual := src.shape, requested := dimensions }) ∧
      ¬ dimensions.Perm (src.shape.map (·.1))) := by
  cases h : DimensionMappings.new src.shape dimensions with
  | none =>
    right
    refine ⟨by simp [accessTryFrom, h], fun hp => ?_⟩
    have := new_isSome_of_perm (shape := src.shape) hp
    simp [h] at this
  | some m =>
    left
    obtain ⟨v, hv, _, _⟩ := accessTryFrom_of_some src dimensions hsrc.1.1 h
    exact ⟨v, hv, access_wf src hsrc dimensions hv, (new_inverse h hsrc.1.1).1⟩

theorem transpose_lens (shape access : Shape ν) (h : access.length = shape.length) :
    ((shape.zip access).map fun (n, o) => (n.1, o.2)).map (·.2) = access.map (·.2) := by
  induction shape generalizing access with
  | nil => cases access <;> simp_all
  | cons d shape ih =>
    cases access with
    | nil => simp at h
    | cons o os =>
      simp only [List.length_cons, Nat.add_right_cancel_iff] at h
      simp [ih os h]

theorem transpose_names (shape access : Shape ν) (h : access.length = shape.length) :
    ((shape.zip access).map fun (n, o) => (n.1, o.2)).map (·.1) = shape.map (·.1) := by
  induction shape generalizing access with
  | nil => simp
  | cons d shape ih =>
    cases access with
    | nil => simp at h
    | cons o os =>
      simp only [List.length_cons, Nat.add_right_cancel_iff] at h
      simp [ih os h]

/-- `TensorTranspose::try_from`: the same outcomes, the view keeps the source's names -/
theorem transposeTryFrom_spec [Inhabited ν] (src : TView ν) (hsrc : src.WF) (dimensions : List ν) :
    (∃ v, transposeTryFrom src dimensions = .ok (.ok v) ∧ v.WF ∧
        v.shape.map (·.1) = src.shape.map (·.1) ∧ dimensions.Perm (src.shape.map (·.1))) ∨
    (transposeTryFrom src dimensions =
        .ok (.error { actual := src.shape, requested := dimensions }) ∧
      ¬ dimensions.Perm (src.shape.map (·.1))) := by
  rcases accessTryFrom_spec src hsrc dimensions with ⟨a, ha, hwf, hp⟩ | ⟨he, hnp⟩
  · left
    have hlen : a.shape.length = src.shape.length := by
      cases h : DimensionMappings.new src.shape dimensions with
      | none => simp [accessTryFrom, h] at ha
      | some m =>
        obtain ⟨_, hs⟩ := access_total src hsrc dimensions h ha
        obtain ⟨_, _, hl2, _⟩ := new_spec h
        simp [hs, accessShape, hl2]
    refine ⟨{ a with shape := (src.shape.zip a.shape).map fun (n, o) => (n.1, o.2) },
      by simp only [transposeTryFrom, ha], ?_, transpose_names _ _ hlen, hp⟩
    refine ⟨⟨?_, ?_⟩, ?_⟩
    · simp only [transpose_names _ _ hlen]; exact hsrc.1.1
    · intro d hd
      have hmem : d.2 ∈ a.shape.map (·.2) := by
        rw [← transpose_lens src.shape a.shape hlen]
        exact List.mem_map_of_mem (f := fun x : ν × Nat => x.2) hd
      simp only [List.mem_map] at hmem
      obtain ⟨e, he, heq⟩ := hmem
      rw [← heq]; exact hwf.1.2 e he
    · intro idx hidx
      simp only at hidx ⊢
      rw [transpose_lens _ _ hlen]
      apply hwf.2
      simpa [hlen] using hidx
  · right
    exact ⟨by simp only [transposeTryFrom, he], hnp⟩

end EasyMl.Fallible
