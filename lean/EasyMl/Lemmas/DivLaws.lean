/-
  EasyMl.Lemmas.DivLaws — what the differentiation theorems need of `/`.

  The model's operators are written over the core classes (`Add … Div`).  Programs that never
  divide (`Prog.usesDiv = false`: no `÷`, `ln`, `sqrt`) are handled over any commutative ring with
  an arbitrary, unused, `Div` instance — e.g. `Wrapping<i64>`, ℤ/2⁶⁴.  Programs that divide need
  the identities below, which hold in every field (also at zero divisors, where every term is the
  field's `x/0 = 0`).
-/
import EasyMl.Spec.Prog
import Mathlib.Algebra.Field.Defs
import Mathlib.Algebra.Field.Basic
import Mathlib.Tactic.FieldSimp
import Mathlib.Tactic.Ring

namespace EasyMl

/-- the identities between the code's local division rules and the formal quotient rule -/
structure DivLaws (R : Type) [CommRing R] [Div R] : Prop where
  quot : ∀ x y dx dy : R, 1 / y * dx + -x / (y * y) * dy = (dx * y - x * dy) / (y * y)
  quotNum : ∀ x c dx : R, 1 / c * dx = (dx * c - x * 0) / (c * c)
  quotSwapped : ∀ c x dx : R, -c / (x * x) * dx = (0 * x - c * dx) / (x * x)
  zero_div : ∀ y : R, 0 / y = 0
  div_eq : ∀ a b : R, a / b = 1 / b * a

/-- every field satisfies them -/
theorem DivLaws.ofField {R : Type} [Field R] : DivLaws R where
  quot := by
    intro x y dx dy
    by_cases hy : y = 0
    · subst hy; simp
    · field_simp; ring
  quotNum := by
    intro x c dx
    by_cases hc : c = 0
    · subst hc; simp
    · field_simp; ring
  quotSwapped := by intro c x dx; ring
  zero_div := by intro y; simp
  div_eq := by intro a b; ring

theorem divLaws_of {R : Type} [CommRing R] [Div R] {ins : Spec.Instr R}
    (hd : ins.usesDiv = false ∨ DivLaws R) (hu : ins.usesDiv = true) : DivLaws R := by
  rcases hd with h | h
  · rw [hu] at h; cases h
  · exact h

/-- the hypothesis of the theorems: the program does not divide, or division is a field's -/
def DivOK {R : Type} [CommRing R] [Div R] (p : Spec.Prog R) : Prop :=
  p.usesDiv = false ∨ DivLaws R

theorem DivOK.cons {R : Type} [CommRing R] [Div R] {ins : Spec.Instr R} {rest : Spec.Prog R}
    (h : DivOK (ins :: rest)) : (ins.usesDiv = false ∨ DivLaws R) ∧ DivOK rest := by
  rcases h with h | h
  · simp only [Spec.Prog.usesDiv, List.any_cons, Bool.or_eq_false_iff] at h
    exact ⟨Or.inl h.1, Or.inl h.2⟩
  · exact ⟨Or.inr h, Or.inr h⟩

theorem DivOK.ofField {R : Type} [Field R] (p : Spec.Prog R) : DivOK p := Or.inr DivLaws.ofField

end EasyMl
