/-
  EasyMl.Lemmas.MatrixEq — `data_layout` of nested matrix views and `matrix_equality`.
-/
import EasyMl.Lemmas.MatrixViewSpec

namespace EasyMl.MatrixView
open EasyMl.Spec EasyMl.Fallible

set_option linter.unusedSectionVars false
set_option linter.unusedVariables false

theorem MExpr.layout_eq_spec (e : MExpr) : e.layout = e.layoutSpec := by
  induction e with
  | leaf _ _ => rfl
  | leafCM _ _ => rfl
  | part _ _ _ _ _ _ => rfl
  | range e _ _ ih => exact ih
  | reverse e _ _ ih => rfl
  | map e ih => exact ih
  | viaTensor e ih =>
    simp only [MExpr.layout, MExpr.layoutSpec, ← ih]
    cases e.layout <;> rfl
  | swapped e ih =>
    simp only [MExpr.layout, MExpr.layoutSpec, ← ih]
    cases e.layout <;> rfl

theorem mem_indexPairs (rows columns i j : Nat) :
    (i, j) ∈ indexPairs rows columns ↔ i < rows ∧ j < columns := by
  simp [indexPairs, List.mem_flatMap, List.mem_map, List.mem_range]

theorem all_zip_map {α : Type} (ps : List α) (f g : α → Nat) :
    ((ps.map f).zip (ps.map g)).all (fun xy => xy.1 == xy.2) = true ↔ ∀ p ∈ ps, f p = g p := by
  induction ps with
  | nil => simp
  | cons a as ih => simp [ih]

/-- `matrix_equality` is `true` exactly when the sizes agree and the elements at every index are
    equal — whatever the two layouts are (both comparison orders visit every index once). -/
theorem matrixEquality_iff (l r : Grid) : matrixEquality l r = true ↔ gridEqSpec l r := by
  simp only [matrixEquality, gridEqSpec]
  by_cases hr : l.rows = r.rows
  · by_cases hc : l.columns = r.columns
    · simp only [hr, hc, ne_eq, not_true_eq_false, if_false, true_and]
      have hrm : (l.rowMajor.zip r.rowMajor).all (fun xy => xy.1 == xy.2) = true ↔
          ∀ i j, i < r.rows → j < r.columns → l.elem i j = r.elem i j := by
        simp only [Grid.rowMajor, hr, hc]
        rw [all_zip_map]
        constructor
        · intro h i j hi hj
          exact h (i, j) ((mem_indexPairs _ _ i j).mpr ⟨hi, hj⟩)
        · intro h p hp
          obtain ⟨i, j⟩ := p
          obtain ⟨hi, hj⟩ := (mem_indexPairs _ _ i j).mp hp
          exact h i j hi hj
      have hcm : (l.columnMajor.zip r.columnMajor).all (fun xy => xy.1 == xy.2) = true ↔
          ∀ i j, i < r.rows → j < r.columns → l.elem i j = r.elem i j := by
        simp only [Grid.columnMajor, hr, hc]
        rw [all_zip_map]
        constructor
        · intro h i j hi hj
          exact h (j, i) ((mem_indexPairs _ _ j i).mpr ⟨hj, hi⟩)
        · intro h p hp
          obtain ⟨j, i⟩ := p
          obtain ⟨hj, hi⟩ := (mem_indexPairs _ _ j i).mp hp
          exact h i j hi hj
      cases l.layout <;> cases r.layout <;> first | exact hrm | exact hcm
    · simp [hr, hc]
  · simp [hr]

end EasyMl.MatrixView
