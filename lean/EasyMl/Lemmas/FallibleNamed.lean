/-
  EasyMl.Lemmas.FallibleNamed — the name-driven `TensorRange` / `TensorMask` constructors in
  closed form: the table `from_named_to_all` scatters to, and decidable validity predicates with
  `constructor answers Ok ⇔ valid`.
-/
import EasyMl.Lemmas.FallibleRange
import EasyMl.Lemmas.FallibleAccess

namespace EasyMl.Fallible
open EasyMl.Spec

set_option linter.unusedSectionVars false
set_option linter.unusedVariables false

variable {ν : Type} [DecidableEq ν]

/-- the range given for a dimension name, if any -/
def lookupRange (ranges : List (ν × IndexRange)) (name : ν) : Option IndexRange :=
  (ranges.find? fun p => p.1 = name).map (·.2)

/-- what `from_named_to_all` answers for valid names: per dimension, the range given for it -/
def namedTable (shape : Shape ν) (ranges : List (ν × IndexRange)) : List (Option IndexRange) :=
  shape.map fun d => lookupRange ranges d.1

theorem zipWith_snd {α β : Type} (l1 : List α) (l2 : List β) (h : l2.length = l1.length) :
    List.zipWith (fun _ b => b) l1 l2 = l2 := by
  induction l1 generalizing l2 with
  | nil => cases l2 <;> simp_all
  | cons a as ih =>
    cases l2 with
    | nil => simp at h
    | cons b bs => simp only [List.length_cons, Nat.add_right_cancel_iff] at h; simp [ih bs h]

theorem positionOf_spec {shape : Shape ν} {name : ν} {p : Nat} (h : positionOf shape name = some p) :
    ∃ d, shape[p]? = some d ∧ d.1 = name := by
  obtain ⟨x, hx, hp⟩ := findPos_spec h
  exact ⟨x, hx, by simpa using hp⟩

/-- the scatter loop, started with any table of the right length -/
theorem scatterNamed_eq (shape : Shape ν) (hshape : (shape.map (·.1)).Nodup) (provided : List ν)
    (ranges : List (ν × IndexRange)) (hn : (ranges.map (·.1)).Nodup)
    (hk : ∀ p ∈ ranges, p.1 ∈ shape.map (·.1)) (all : List (Option IndexRange))
    (hall : all.length = shape.length) :
    scatterNamed shape provided ranges all =
      .ok (.ok (List.zipWith (fun d a => match lookupRange ranges d.1 with
                                         | some r => some r
                                         | none => a) shape all)) := by
  induction ranges generalizing all with
  | nil =>
    simp only [scatterNamed, lookupRange, List.find?_nil, Option.map_none]
    rw [zipWith_snd shape all hall]
  | cons pr rest ih =>
    obtain ⟨name, range⟩ := pr
    simp only [List.map_cons, List.nodup_cons] at hn
    have hmem : name ∈ shape.map (·.1) := hk (name, range) (by simp)
    cases hp : positionOf shape name with
    | none => exact absurd hmem ((positionOf_eq_none shape name).mp hp)
    | some p =>
      obtain ⟨dp, hdp, hdpn⟩ := positionOf_spec hp
      have hplt : p < shape.length := (List.getElem?_eq_some_iff.mp hdp).1
      have hpa : p < all.length := by omega
      simp only [scatterNamed, hp, setC_ok hpa]
      rw [ih hn.2 (fun q hq => hk q (by simp [hq])) (all.set p (some range)) (by simp [hall])]
      congr 2
      apply List.ext_getElem?
      intro d
      simp only [List.getElem?_zipWith, List.getElem?_set]
      cases hd : shape[d]? with
      | none => simp
      | some sd =>
        by_cases hpd : p = d
        · subst hpd
          rw [hdp] at hd
          simp only [Option.some.injEq] at hd
          subst hd
          have hnone : lookupRange rest dp.1 = none := by
            simp only [lookupRange, Option.map_eq_none_iff, List.find?_eq_none]
            intro q hq
            simp only [decide_eq_true_eq]
            intro hqn
            exact hn.1 (by rw [← hdpn, ← hqn]; exact List.mem_map_of_mem (f := fun x : ν × IndexRange => x.1) hq)
          have hsome : lookupRange ((name, range) :: rest) dp.1 = some range := by
            simp [lookupRange, List.find?_cons, hdpn]
          simp [hnone, hsome, hpa]
        · have hne : name ≠ sd.1 := by
            intro heq
            have h1 : (shape.map (·.1))[p]? = some name := by simp [List.getElem?_map, hdp, hdpn]
            have h2 : (shape.map (·.1))[d]? = some name := by simp [List.getElem?_map, hd, heq]
            exact hpd ((List.getElem?_inj (by simpa using hplt) hshape).mp (h1.trans h2.symm))
          have hl : lookupRange ((name, range) :: rest) sd.1 = lookupRange rest sd.1 := by
            simp [lookupRange, List.find?_cons, hne]
          cases ha : all[d]? <;> simp [hl, hpd, ha]

/-- `from_named_to_all` for distinct, known names: the table of the ranges by dimension -/
theorem fromNamedToAll_eq (shape : Shape ν) (hshape : (shape.map (·.1)).Nodup)
    (ranges : List (ν × IndexRange)) (hn : (ranges.map (·.1)).Nodup)
    (hk : ∀ p ∈ ranges, p.1 ∈ shape.map (·.1)) :
    fromNamedToAll shape ranges = .ok (.ok (namedTable shape ranges)) := by
  have hd : hasDuplicates (ranges.map (·.1)) = false := (hasDuplicates_eq_false_iff _).mpr hn
  simp only [fromNamedToAll, hd, Bool.false_eq_true, if_false]
  rw [scatterNamed_eq shape hshape _ ranges hn hk _ (by simp)]
  congr 2
  apply List.ext_getElem?
  intro d
  simp only [namedTable, List.getElem?_zipWith, List.getElem?_map, List.getElem?_replicate]
  cases hd' : shape[d]? with
  | none => simp
  | some sd =>
    have : d < shape.length := (List.getElem?_eq_some_iff.mp hd').1
    simp only [this, if_true, Option.map_some]
    cases lookupRange ranges sd.1 <;> rfl

/-- names are acceptable: no name twice, every name a dimension of the source -/
def namesOk (shape : Shape ν) (ranges : List (ν × IndexRange)) : Bool :=
  !hasDuplicates (ranges.map (·.1)) && ranges.all fun p => (shape.map (·.1)).contains p.1

theorem namesOk_iff (shape : Shape ν) (ranges : List (ν × IndexRange)) :
    namesOk shape ranges = true ↔
      (ranges.map (·.1)).Nodup ∧ ∀ p ∈ ranges, p.1 ∈ shape.map (·.1) := by
  simp only [namesOk, Bool.and_eq_true, Bool.not_eq_true', hasDuplicates_eq_false_iff,
    List.all_eq_true, List.contains_iff_mem]

/-- every dimension keeps at least one index under the (lenient) ranges / masks -/
def rangeKeeps (shape : Shape ν) (all : List (Option IndexRange)) : Bool :=
  (List.zipWith (fun d r => keptByRange d.2 r) shape (defaultRanges shape all)).all fun l => decide (1 ≤ l)

def maskKeeps (shape : Shape ν) (all : List (Option IndexRange)) : Bool :=
  (List.zipWith (fun d r => d.2 - keptByRange d.2 r) shape (defaultMasks all)).all fun l => decide (1 ≤ l)

/-- **Validity of the eight constructors as decidable predicates.** -/
def validRangeFromAll (shape : Shape ν) (all : List (Option IndexRange)) : Bool := rangeKeeps shape all
def validMaskFromAll (shape : Shape ν) (all : List (Option IndexRange)) : Bool := maskKeeps shape all
def validRangeFromAllStrict (shape : Shape ν) (all : List (Option IndexRange)) : Bool :=
  !exceedsAny shape all && rangeKeeps shape all
def validMaskFromAllStrict (shape : Shape ν) (all : List (Option IndexRange)) : Bool :=
  !exceedsAny shape all && maskKeeps shape all
def validRangeFrom (shape : Shape ν) (ranges : List (ν × IndexRange)) : Bool :=
  namesOk shape ranges && rangeKeeps shape (namedTable shape ranges)
def validMaskFrom (shape : Shape ν) (ranges : List (ν × IndexRange)) : Bool :=
  namesOk shape ranges && maskKeeps shape (namedTable shape ranges)
def validRangeFromStrict (shape : Shape ν) (ranges : List (ν × IndexRange)) : Bool :=
  namesOk shape ranges && validRangeFromAllStrict shape (namedTable shape ranges)
def validMaskFromStrict (shape : Shape ν) (ranges : List (ν × IndexRange)) : Bool :=
  namesOk shape ranges && validMaskFromAllStrict shape (namedTable shape ranges)

/-- an answer is `Ok` -/
def IsOk (r : Outcome (Except (RangeError ν) (TView ν))) : Prop := ∃ v, r = .ok (.ok v)

theorem rangeFromAll_ok_iff (src : TView ν) (hsrc : src.WF) (all : List (Option IndexRange))
    (hlen : all.length = src.shape.length) :
    IsOk (rangeFromAll Arith.fixed src all) ↔ validRangeFromAll src.shape all = true := by
  simp only [validRangeFromAll, rangeKeeps, List.all_eq_true, decide_eq_true_eq, IsOk]
  rcases rangeFromAll_spec src hsrc all hlen with ⟨v, h, _, _, hk⟩ | ⟨h, hk⟩
  · exact ⟨fun _ => hk, fun _ => ⟨v, h⟩⟩
  · constructor
    · rintro ⟨v, hv⟩; rw [h] at hv; simp at hv
    · intro hh; exact absurd hh hk

theorem maskFromAll_ok_iff (src : TView ν) (hsrc : src.WF) (all : List (Option IndexRange))
    (hlen : all.length = src.shape.length) :
    IsOk (maskFromAll Arith.fixed src all) ↔ validMaskFromAll src.shape all = true := by
  simp only [validMaskFromAll, maskKeeps, List.all_eq_true, decide_eq_true_eq, IsOk]
  rcases maskFromAll_spec src hsrc all hlen with ⟨v, h, _, _, hk⟩ | ⟨h, hk⟩
  · exact ⟨fun _ => hk, fun _ => ⟨v, h⟩⟩
  · constructor
    · rintro ⟨v, hv⟩; rw [h] at hv; simp at hv
    · intro hh; exact absurd hh hk

theorem rangeFromAllStrict_ok_iff (src : TView ν) (hsrc : src.WF) (all : List (Option IndexRange))
    (hlen : all.length = src.shape.length) :
    IsOk (rangeFromAllStrict Arith.fixed src all) ↔ validRangeFromAllStrict src.shape all = true := by
  rw [rangeFromAllStrict_fixed_eq src all (ushape_le hsrc.1)]
  simp only [validRangeFromAllStrict, Bool.and_eq_true, Bool.not_eq_true']
  by_cases he : exceedsAny src.shape all = true
  · rw [if_pos he]
    constructor
    · rintro ⟨v, hv⟩; simp at hv
    · rintro ⟨h, _⟩; rw [he] at h; simp at h
  · rw [if_neg he]
    have he' : exceedsAny src.shape all = false := by simpa using he
    rw [rangeFromAll_ok_iff src hsrc all hlen]
    simp [validRangeFromAll, he']

theorem maskFromAllStrict_ok_iff (src : TView ν) (hsrc : src.WF) (all : List (Option IndexRange))
    (hlen : all.length = src.shape.length) :
    IsOk (maskFromAllStrict Arith.fixed src all) ↔ validMaskFromAllStrict src.shape all = true := by
  rw [maskFromAllStrict_fixed_eq src all (ushape_le hsrc.1)]
  simp only [validMaskFromAllStrict, Bool.and_eq_true, Bool.not_eq_true']
  by_cases he : exceedsAny src.shape all = true
  · rw [if_pos he]
    constructor
    · rintro ⟨v, hv⟩; simp at hv
    · rintro ⟨h, _⟩; rw [he] at h; simp at h
  · rw [if_neg he]
    have he' : exceedsAny src.shape all = false := by simpa using he
    rw [maskFromAll_ok_iff src hsrc all hlen]
    simp [validMaskFromAll, he']

theorem namedTable_length (shape : Shape ν) (ranges : List (ν × IndexRange)) :
    (namedTable shape ranges).length = shape.length := by simp [namedTable]

theorem not_isOk_error (e : RangeError ν) : ¬ IsOk (ν := ν) (.ok (.error e)) := by
  rintro ⟨v, hv⟩; simp at hv

theorem rangeFrom_ok_iff (src : TView ν) (hsrc : src.WF) (ranges : List (ν × IndexRange)) :
    IsOk (rangeFrom Arith.fixed src ranges) ↔ validRangeFrom src.shape ranges = true := by
  simp only [validRangeFrom, Bool.and_eq_true, namesOk_iff]
  rcases fromNamedToAll_spec src.shape ranges with ⟨all, h, _, hn, hk⟩ | ⟨h, hbad⟩
  · simp only [rangeFrom, fromNamedToAll_eq src.shape hsrc.1.1 ranges hn hk]
    rw [rangeFromAll_ok_iff src hsrc _ (namedTable_length _ _)]
    exact ⟨fun hv => ⟨⟨hn, hk⟩, hv⟩, fun hv => hv.2⟩
  · simp only [rangeFrom, h]
    refine ⟨fun hok => absurd hok (not_isOk_error _), ?_⟩
    rintro ⟨⟨hn, hk⟩, _⟩
    rcases hbad with hb | ⟨p, hp, hpn⟩
    · exact absurd hn hb
    · exact absurd (hk p hp) hpn

theorem maskFrom_ok_iff (src : TView ν) (hsrc : src.WF) (ranges : List (ν × IndexRange)) :
    IsOk (maskFrom Arith.fixed src ranges) ↔ validMaskFrom src.shape ranges = true := by
  simp only [validMaskFrom, Bool.and_eq_true, namesOk_iff]
  rcases fromNamedToAll_spec src.shape ranges with ⟨all, h, _, hn, hk⟩ | ⟨h, hbad⟩
  · simp only [maskFrom, fromNamedToAll_eq src.shape hsrc.1.1 ranges hn hk]
    rw [maskFromAll_ok_iff src hsrc _ (namedTable_length _ _)]
    exact ⟨fun hv => ⟨⟨hn, hk⟩, hv⟩, fun hv => hv.2⟩
  · simp only [maskFrom, h]
    refine ⟨fun hok => absurd hok (not_isOk_error _), ?_⟩
    rintro ⟨⟨hn, hk⟩, _⟩
    rcases hbad with hb | ⟨p, hp, hpn⟩
    · exact absurd hn hb
    · exact absurd (hk p hp) hpn

theorem rangeFromStrict_ok_iff (src : TView ν) (hsrc : src.WF) (ranges : List (ν × IndexRange)) :
    IsOk (rangeFromStrict Arith.fixed src ranges) ↔ validRangeFromStrict src.shape ranges = true := by
  simp only [validRangeFromStrict, Bool.and_eq_true, namesOk_iff]
  rcases fromNamedToAll_spec src.shape ranges with ⟨all, h, _, hn, hk⟩ | ⟨h, hbad⟩
  · simp only [rangeFromStrict, fromNamedToAll_eq src.shape hsrc.1.1 ranges hn hk]
    rw [rewrapStrict_rangeFromAllStrict src hsrc _ (namedTable_length _ _),
      rangeFromAllStrict_ok_iff src hsrc _ (namedTable_length _ _)]
    exact ⟨fun hv => ⟨⟨hn, hk⟩, hv⟩, fun hv => hv.2⟩
  · simp only [rangeFromStrict, h]
    refine ⟨fun hok => absurd hok (not_isOk_error _), ?_⟩
    rintro ⟨⟨hn, hk⟩, _⟩
    rcases hbad with hb | ⟨p, hp, hpn⟩
    · exact absurd hn hb
    · exact absurd (hk p hp) hpn

theorem maskFromStrict_ok_iff (src : TView ν) (hsrc : src.WF) (ranges : List (ν × IndexRange)) :
    IsOk (maskFromStrict Arith.fixed src ranges) ↔ validMaskFromStrict src.shape ranges = true := by
  simp only [validMaskFromStrict, Bool.and_eq_true, namesOk_iff]
  rcases fromNamedToAll_spec src.shape ranges with ⟨all, h, _, hn, hk⟩ | ⟨h, hbad⟩
  · simp only [maskFromStrict, fromNamedToAll_eq src.shape hsrc.1.1 ranges hn hk]
    rw [rewrapStrict_maskFromAllStrict src hsrc _ (namedTable_length _ _),
      maskFromAllStrict_ok_iff src hsrc _ (namedTable_length _ _)]
    exact ⟨fun hv => ⟨⟨hn, hk⟩, hv⟩, fun hv => hv.2⟩
  · simp only [maskFromStrict, h]
    refine ⟨fun hok => absurd hok (not_isOk_error _), ?_⟩
    rintro ⟨⟨hn, hk⟩, _⟩
    rcases hbad with hb | ⟨p, hp, hpn⟩
    · exact absurd hn hb
    · exact absurd (hk p hp) hpn

/-! ### validity of a record iterator (for `RecordTensor::from_iter`, `RecordMatrix::from_iter`) -/

/-- a record iterator is acceptable for a shape: non-empty, one history, as many records as the
    shape has elements, and the shape is valid -/
def validRecords (shape : Shape ν) (hs : List (Option Nat)) : Bool :=
  match hs with
  | [] => false
  | h :: rest => rest.all (· == h) && decide (rest.length + 1 = elements shape) && isValidShape shape

/-- the same for a `rows × columns` record matrix: the count is the (representable) product -/
def validRecordsMatrix (rows columns : Nat) (hs : List (Option Nat)) : Bool :=
  match hs with
  | [] => false
  | h :: rest => rest.all (· == h) && decide (rest.length + 1 = rows * columns) &&
      decide (rows * columns ≤ usizeMax)

end EasyMl.Fallible
