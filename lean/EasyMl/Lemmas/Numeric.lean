/-
  EasyMl.Lemmas.Numeric — helper lemmas for property C19 (numeric trait contracts).
  Core Lean only (no Mathlib needed).
-/
import EasyMl.Model.Numeric

namespace EasyMl.Num

/-! ### `from_usize` on the integer types -/

/-- `T::MAX as usize`: `T::MAX` itself when it fits into 64 bits, `usize::MAX` for the 128-bit
    types (truncation of `0x7f…f` / `0xff…f` to 64 bits is all ones). -/
theorem asUsize_max (t : IntTy) :
    (asUsize t (maxBits t)).toNat = min t.maxInt.toNat (2 ^ 64 - 1) := by
  cases t <;> decide

theorem le_max_iff (t : IntTy) (n : Nat) (hn : n < 2 ^ 64) :
    (BitVec.ofNat 64 n ≤ asUsize t (maxBits t)) ↔ ((n : Int) ≤ t.maxInt) := by
  have h := asUsize_max t
  rw [BitVec.le_def, h]
  simp only [BitVec.toNat_ofNat]
  rw [Nat.mod_eq_of_lt hn]
  cases t <;> simp [IntTy.maxInt, IntTy.signed, IntTy.bits] <;> omega

theorem minInt_nonpos (t : IntTy) : t.minInt ≤ 0 := by
  cases t <;> decide

theorem fromUsize_isSome_iff (t : IntTy) (n : Nat) (hn : n < 2 ^ 64) :
    (fromUsize t (BitVec.ofNat 64 n)).isSome ↔ ((n : Int) ≤ t.maxInt) := by
  unfold fromUsize
  split
  · rename_i h; simpa using (le_max_iff t n hn).1 h
  · rename_i h; simpa using fun h' => h ((le_max_iff t n hn).2 h')

theorem fromUsize_eq_some (t : IntTy) (n : Nat) (hn : n < 2 ^ 64) (v : Val t)
    (h : fromUsize t (BitVec.ofNat 64 n) = some v) :
    (n : Int) ≤ t.maxInt ∧ v = usizeAs t (BitVec.ofNat 64 n) := by
  have hs : (fromUsize t (BitVec.ofNat 64 n)).isSome := by simp [h]
  refine ⟨(fromUsize_isSome_iff t n hn).1 hs, ?_⟩
  unfold fromUsize at h
  split at h
  · exact (Option.some.inj h).symm
  · cases h

theorem toInt_usizeAs (t : IntTy) (n : Nat) (hn : n < 2 ^ 64) (h : (n : Int) ≤ t.maxInt) :
    toInt t (usizeAs t (BitVec.ofNat 64 n)) = n := by
  unfold toInt usizeAs
  cases t <;>
    simp [IntTy.maxInt, IntTy.signed, IntTy.bits, BitVec.toInt, BitVec.toNat_setWidth] at h ⊢ <;>
    omega

/-- `v as usize` is the two's complement reduction of the number `v` denotes -/
theorem asUsize_eq_ofInt (t : IntTy) (v : Val t) : asUsize t v = BitVec.ofInt 64 (toInt t v) := by
  unfold asUsize toInt
  cases h : t.signed
  · simp only [Bool.false_eq_true, if_false]
    apply BitVec.eq_of_toNat_eq
    simp [BitVec.toNat_setWidth]
  · simp [BitVec.signExtend]

/-! ### range of values, clamping -/

theorem toInt_range (t : IntTy) (a : Val t) : t.minInt ≤ toInt t a ∧ toInt t a ≤ t.maxInt := by
  unfold toInt IntTy.minInt IntTy.maxInt
  cases h : t.signed
  · simp
    have := a.isLt
    have h2 : (2 : Int) ^ t.bits = ((2 ^ t.bits : Nat) : Int) := by simp
    omega
  · simp only [if_true]
    have h1 := @BitVec.le_toInt t.bits a
    have h2 := @BitVec.toInt_lt t.bits a
    have : (2 : Int) ^ (t.bits - 1) = ((2 ^ (t.bits - 1) : Nat) : Int) := by simp
    omega

theorem ofInt_toInt (t : IntTy) (a : Val t) : ofInt t (toInt t a) = a := by
  unfold ofInt toInt
  cases h : t.signed <;> simp

theorem clamp_toInt (t : IntTy) (a : Val t) : clamp t (toInt t a) = a := by
  have := toInt_range t a
  unfold clamp
  rw [if_neg (by omega), if_neg (by omega)]
  exact ofInt_toInt t a

theorem checked_toInt (t : IntTy) (a : Val t) : checked t (toInt t a) = .ok a := by
  have := toInt_range t a
  unfold checked
  rw [if_pos this, ofInt_toInt]

theorem toInt_zero (t : IntTy) : toInt t (zero t) = 0 := by
  cases t <;> decide

theorem toInt_one (t : IntTy) : toInt t (one t) = 1 := by
  cases t <;> decide

/-! ### rounding to nearest -/

/-- distance between two naturals -/
def natDist (a b : Nat) : Nat := if a ≤ b then b - a else a - b

theorem natDist_of_le {a b : Nat} (h : a ≤ b) : natDist a b = b - a := by simp [natDist, h]

theorem natDist_of_ge {a b : Nat} (h : b ≤ a) : natDist a b = a - b := by
  unfold natDist; split <;> omega

/-- a multiple of `B` is at least `min r (B - r)` away from `q * B + r` -/
theorem dist_multiple (B q r k : Nat) (_hr : r < B) :
    min r (B - r) ≤ natDist (k * B) (q * B + r) := by
  unfold natDist
  by_cases hk : k ≤ q
  · have := Nat.mul_le_mul_right B hk
    split <;> omega
  · have h1 : q + 1 ≤ k := by omega
    have h2 := Nat.mul_le_mul_right B h1
    rw [Nat.succ_mul] at h2
    split <;> omega

theorem bitLen_bounds (n : Nat) (hn : n ≠ 0) : 2 ^ (bitLen n - 1) ≤ n ∧ n < 2 ^ bitLen n := by
  simp only [bitLen, hn, if_false, Nat.add_sub_cancel]
  exact ⟨Nat.log2_self_le hn, Nat.lt_log2_self⟩

theorem bitLen_le_of_lt (p n : Nat) (h : n < 2 ^ p) : bitLen n ≤ p := by
  unfold bitLen
  split
  · omega
  · rename_i hn
    have := (Nat.log2_lt hn).2 h
    omega

/-- facts shared by the rounding lemmas when `n` has more than `p` significant bits -/
theorem round_setup (p n : Nat) (hp : 1 ≤ p) (hl : ¬ bitLen n ≤ p) :
    let s := bitLen n - p
    1 ≤ s ∧ 2 ^ s = 2 * 2 ^ (s - 1) ∧ n / 2 ^ s * 2 ^ s + n % 2 ^ s = n ∧ n % 2 ^ s < 2 ^ s ∧
      2 ^ (bitLen n - 1) = 2 ^ (p - 1) * 2 ^ s ∧ 2 ^ (p - 1) ≤ n / 2 ^ s ∧ n / 2 ^ s < 2 ^ p ∧
      2 ^ (bitLen n - 1) ≤ n := by
  intro s
  have hn : n ≠ 0 := by
    intro h; subst h; simp [bitLen] at hl
  obtain ⟨hlo, hhi⟩ := bitLen_bounds n hn
  have hs1 : 1 ≤ s := by omega
  have hB : 2 ^ s = 2 * 2 ^ (s - 1) := by
    rw [show s = (s - 1) + 1 by omega, Nat.pow_succ]; simp; omega
  have hdm := Nat.div_add_mod n (2 ^ s)
  rw [Nat.mul_comm] at hdm
  have hr : n % 2 ^ s < 2 ^ s := Nat.mod_lt _ (Nat.two_pow_pos _)
  have hsplit : 2 ^ (bitLen n - 1) = 2 ^ (p - 1) * 2 ^ s := by
    rw [← Nat.pow_add]; congr 1; omega
  have hq : 2 ^ (p - 1) ≤ n / 2 ^ s := by
    rw [Nat.le_div_iff_mul_le (Nat.two_pow_pos _)]
    omega
  have hq2 : n / 2 ^ s < 2 ^ p := by
    rw [Nat.div_lt_iff_lt_mul (Nat.two_pow_pos _), ← Nat.pow_add]
    have : p + s = bitLen n := by omega
    rw [this]; exact hhi
  exact ⟨hs1, hB, hdm, hr, hsplit, hq, hq2, hlo⟩

theorem roundNE_nearest' (p n m' e' : Nat) (hp : 1 ≤ p) (hm : m' < 2 ^ p) :
    natDist (roundVal (roundNE p n)) n ≤ natDist (m' * 2 ^ e') n := by
  unfold roundNE
  by_cases hl : bitLen n ≤ p
  · simp [hl, roundVal, natDist]
  simp only [hl, if_false]
  obtain ⟨hs1, hB, hdm, hr, hsplit, hq, _, hlo⟩ := round_setup p n hp hl
  generalize bitLen n - p = s at *
  have hqB := Nat.mul_le_mul_right (2 ^ s) hq
  -- lower bound for every representable value
  have hlower : min (n % 2 ^ s) (2 ^ s - n % 2 ^ s) ≤ natDist (m' * 2 ^ e') n := by
    by_cases he : s ≤ e'
    · have : m' * 2 ^ e' = (m' * 2 ^ (e' - s)) * 2 ^ s := by
        rw [Nat.mul_assoc, ← Nat.pow_add]; congr 2; omega
      rw [this]
      have h := dist_multiple (2 ^ s) (n / 2 ^ s) (n % 2 ^ s) (m' * 2 ^ (e' - s)) hr
      rwa [hdm] at h
    · have h1 : m' * 2 ^ e' < 2 ^ p * 2 ^ e' :=
        Nat.mul_lt_mul_of_pos_right hm (Nat.two_pow_pos _)
      have h2 : 2 ^ p * 2 ^ e' ≤ 2 ^ (p - 1) * 2 ^ s := by
        rw [← Nat.pow_add, ← Nat.pow_add]; exact Nat.pow_le_pow_right (by decide) (by omega)
      unfold natDist
      split <;> omega
  -- the rounded value attains that bound
  refine Nat.le_trans ?_ hlower
  split
  · rename_i hup
    have hR : roundVal (n / 2 ^ s + 1, s) = n / 2 ^ s * 2 ^ s + 2 ^ s := by
      simp only [roundVal]; rw [Nat.succ_mul]
    rw [hR, natDist_of_ge (by omega)]
    omega
  · rename_i hdown
    have hR : roundVal (n / 2 ^ s, s) = n / 2 ^ s * 2 ^ s := rfl
    rw [hR, natDist_of_le (by omega)]
    omega

theorem roundNE_representable' (p n : Nat) (hp : 1 ≤ p) :
    ∃ m e, m < 2 ^ p ∧ roundVal (roundNE p n) = m * 2 ^ e := by
  unfold roundNE
  by_cases hl : bitLen n ≤ p
  · simp only [hl, if_true]
    refine ⟨n, 0, ?_, rfl⟩
    by_cases hn : n = 0
    · subst hn; exact Nat.two_pow_pos _
    · exact Nat.lt_of_lt_of_le (bitLen_bounds n hn).2 (Nat.pow_le_pow_right (by decide) hl)
  simp only [hl, if_false]
  obtain ⟨_, _, _, _, _, _, hq2, _⟩ := round_setup p n hp hl
  generalize bitLen n - p = s at *
  split
  · by_cases hlt : n / 2 ^ s + 1 < 2 ^ p
    · exact ⟨_, s, hlt, rfl⟩
    · have heq : n / 2 ^ s + 1 = 2 ^ p := by omega
      refine ⟨2 ^ (p - 1), s + 1, Nat.pow_lt_pow_right (by decide) (by omega), ?_⟩
      simp only [roundVal, heq]
      rw [← Nat.pow_add, ← Nat.pow_add]; congr 1; omega
  · exact ⟨_, s, hq2, rfl⟩

theorem roundNE_tie_even' (p n : Nat) (hl : p < bitLen n)
    (htie : 2 * (n % 2 ^ (bitLen n - p)) = 2 ^ (bitLen n - p)) : (roundNE p n).1 % 2 = 0 := by
  unfold roundNE
  have hl' : ¬ bitLen n ≤ p := by omega
  simp only [hl', if_false]
  have hs1 : 1 ≤ bitLen n - p := by omega
  generalize bitLen n - p = s at *
  have hB : 2 ^ s = 2 * 2 ^ (s - 1) := by
    rw [show s = (s - 1) + 1 by omega, Nat.pow_succ]; simp; omega
  split
  · rename_i h; simp only; omega
  · rename_i h; simp only; omega

/-! ### the IEEE encoding decodes to the rounded value -/

theorem bitLen_pos {m : Nat} (hm0 : m ≠ 0) : 1 ≤ bitLen m := by simp [bitLen, hm0]

/-- `m ≥ 2^(p-1)` has at least `p` significant bits; `m ≤ 2^p` at most `p + 1` -/
theorem bitLen_ge_of_le {p m : Nat} (h : 2 ^ (p - 1) ≤ m) (hp : 1 ≤ p) : p ≤ bitLen m := by
  have hm0 : m ≠ 0 := by have := Nat.two_pow_pos (p - 1); omega
  have h2 := (bitLen_bounds m hm0).2
  have : 2 ^ (p - 1) < 2 ^ bitLen m := Nat.lt_of_le_of_lt h h2
  have := (Nat.pow_lt_pow_iff_right (by decide : 1 < 2)).1 this
  omega

theorem bitLen_le_succ_of_le {p m : Nat} (hm0 : m ≠ 0) (h : m ≤ 2 ^ p) : bitLen m ≤ p + 1 := by
  have h1 := (bitLen_bounds m hm0).1
  have : 2 ^ (bitLen m - 1) ≤ 2 ^ p := Nat.le_trans h1 h
  have := (Nat.pow_le_pow_iff_right (by decide : 1 < 2)).1 this
  omega

theorem normSig_range (p m : Nat) (hp : 1 ≤ p) (hm0 : m ≠ 0) (hm : m ≤ 2 ^ p) :
    2 ^ (p - 1) ≤ normSig p m ∧ normSig p m < 2 ^ p := by
  obtain ⟨hlo, hhi⟩ := bitLen_bounds m hm0
  have hl1 := bitLen_pos hm0
  unfold normSig
  split
  · rename_i hl
    constructor
    · have : 2 ^ (p - 1) = 2 ^ (bitLen m - 1) * 2 ^ (p - bitLen m) := by
        rw [← Nat.pow_add]; congr 1; omega
      rw [this]; exact Nat.mul_le_mul_right _ hlo
    · have : 2 ^ p = 2 ^ bitLen m * 2 ^ (p - bitLen m) := by
        rw [← Nat.pow_add]; congr 1; omega
      rw [this]; exact Nat.mul_lt_mul_of_pos_right hhi (Nat.two_pow_pos _)
  · rename_i hl
    have hl' : bitLen m = p + 1 := by have := bitLen_le_succ_of_le hm0 hm; omega
    have hmeq : m = 2 ^ p := by
      have : 2 ^ p ≤ m := by rw [hl'] at hlo; simpa using hlo
      omega
    rw [hl', hmeq]
    have : p + 1 - p = 1 := by omega
    rw [this]
    have hpp : 2 ^ p = 2 ^ (p - 1) * 2 := by
      rw [← Nat.pow_succ]; congr 1; omega
    rw [hpp]; simp
    have := Nat.two_pow_pos (p - 1)
    omega

/-- `normSig`/`normExp` denote the same value as `(m, e)`: either the significand was shifted
    left and the exponent lowered, or (only for `m = 2^p`) halved exactly and the exponent raised -/
theorem norm_same_value' (p m e : Nat) (hp : 1 ≤ p) (hm0 : m ≠ 0) (hm : m ≤ 2 ^ p) :
    (bitLen m ≤ p ∧ normSig p m = m * 2 ^ (p - bitLen m) ∧
        normExp p m e = (e : Int) - ((p - bitLen m : Nat) : Int)) ∨
    (bitLen m = p + 1 ∧ m = normSig p m * 2 ∧ normExp p m e = (e : Int) + 1) := by
  by_cases hl : bitLen m ≤ p
  · left; simp [normSig, normExp, hl]
  · right
    have hl' : bitLen m = p + 1 := by have := bitLen_le_succ_of_le hm0 hm; omega
    have hlo := (bitLen_bounds m hm0).1
    have hmeq : m = 2 ^ p := by
      have : 2 ^ p ≤ m := by rw [hl'] at hlo; simpa using hlo
      omega
    have hpp : 2 ^ p = 2 ^ (p - 1) * 2 := by
      rw [← Nat.pow_succ]; congr 1; omega
    have hone : bitLen m - p = 1 := by omega
    refine ⟨hl', ?_, ?_⟩
    · have hsig : normSig p m = m / 2 ^ (bitLen m - p) := by simp [normSig, hl]
      rw [hsig, hone, hmeq, hpp]; simp
    · have hexp : normExp p m e = (e : Int) + ((bitLen m - p : Nat) : Int) := by simp [normExp, hl]
      rw [hexp, hone]; simp

theorem floatBits_decode' (p ebits m e : Nat) (hp : 1 ≤ p) (hm0 : m ≠ 0) (hm : m ≤ 2 ^ p)
    (hnormal : 1 ≤ normExp p m e + ((p - 1 : Nat) : Int) + (2 ^ (ebits - 1) - 1)) :
    floatDecode p ebits (floatBits p ebits (m, e)) = (normSig p m, normExp p m e) := by
  obtain ⟨hlo, hhi⟩ := normSig_range p m hp hm0 hm
  have hbits : floatBits p ebits (m, e) =
      (normExp p m e + ((p - 1 : Nat) : Int) + (2 ^ (ebits - 1) - 1)).toNat * 2 ^ (p - 1)
        + (normSig p m - 2 ^ (p - 1)) := by
    simp [floatBits, hm0]
  rw [hbits]
  generalize hB : (normExp p m e + ((p - 1 : Nat) : Int) + (2 ^ (ebits - 1) - 1)).toNat = B
  have hB1 : 1 ≤ B := by omega
  have hBint : (B : Int) = normExp p m e + ((p - 1 : Nat) : Int) + (2 ^ (ebits - 1) - 1) := by omega
  have hK : 0 < 2 ^ (p - 1) := Nat.two_pow_pos _
  have hpp : 2 ^ p = 2 ^ (p - 1) * 2 := by
    rw [← Nat.pow_succ]; congr 1; omega
  have hf : normSig p m - 2 ^ (p - 1) < 2 ^ (p - 1) := by omega
  have hdiv : (B * 2 ^ (p - 1) + (normSig p m - 2 ^ (p - 1))) / 2 ^ (p - 1) = B := by
    rw [Nat.add_comm, Nat.add_mul_div_right _ _ hK, Nat.div_eq_of_lt hf]; simp
  have hmod : (B * 2 ^ (p - 1) + (normSig p m - 2 ^ (p - 1))) % 2 ^ (p - 1) =
      normSig p m - 2 ^ (p - 1) := by
    rw [Nat.add_comm, Nat.add_mul_mod_self_right, Nat.mod_eq_of_lt hf]
  unfold floatDecode
  simp only [hdiv, hmod]
  have : B ≠ 0 := by omega
  simp only [this, if_false]
  refine Prod.ext ?_ ?_
  · simp; omega
  · simp; omega

/-- significand of a rounding result: non-zero, at most `2^p`; and the position of its leading bit -/
theorem roundNE_sig (p n : Nat) (hp : 1 ≤ p) (hn : n ≠ 0) :
    (roundNE p n).1 ≠ 0 ∧ (roundNE p n).1 ≤ 2 ^ p ∧
      (bitLen n : Int) - 1 ≤ normExp p (roundNE p n).1 (roundNE p n).2 + ((p - 1 : Nat) : Int) ∧
      normExp p (roundNE p n).1 (roundNE p n).2 + ((p - 1 : Nat) : Int) ≤ (bitLen n : Int) := by
  unfold roundNE
  by_cases hl : bitLen n ≤ p
  · simp only [hl, if_true]
    have hb := bitLen_bounds n hn
    have h1 := bitLen_pos hn
    refine ⟨hn, ?_, ?_, ?_⟩
    · exact Nat.le_of_lt (Nat.lt_of_lt_of_le hb.2 (Nat.pow_le_pow_right (by decide) hl))
    · simp only [normExp, hl, if_true]; omega
    · simp only [normExp, hl, if_true]; omega
  simp only [hl, if_false]
  obtain ⟨hs1, _, _, _, _, hq, hq2, _⟩ := round_setup p n hp hl
  have hsl : bitLen n - p + p = bitLen n := by omega
  generalize hs : bitLen n - p = s at *
  have key : ∀ m, 2 ^ (p - 1) ≤ m → m ≤ 2 ^ p →
      m ≠ 0 ∧ m ≤ 2 ^ p ∧ (bitLen n : Int) - 1 ≤ normExp p m s + ((p - 1 : Nat) : Int) ∧
        normExp p m s + ((p - 1 : Nat) : Int) ≤ (bitLen n : Int) := by
    intro m hlo hhi
    have hm0 : m ≠ 0 := by have := Nat.two_pow_pos (p - 1); omega
    have h1 := bitLen_ge_of_le hlo hp
    have h2 := bitLen_le_succ_of_le hm0 hhi
    refine ⟨hm0, hhi, ?_, ?_⟩ <;> (unfold normExp; split <;> omega)
  split
  · exact key _ (by omega) (by omega)
  · exact key _ hq (by omega)

end EasyMl.Num
