/-
  EasyMl.Lemmas.ArithViews — plugs C02's model of the library's view adaptors (`View`, every
  composition of TensorRange / Mask / Index / Expansion / Rename / Reverse / Access / Transpose /
  Stack / Chain over tensors and matrices) into C03's operand interface: every well-formed `View`
  whose leaves are distinct containers is a well-formed operand (`TView.WF`), so the arithmetic
  theorems hold for operands built from any of the library's adaptors.
-/
import EasyMl.Lemmas.Arith
import EasyMl.Model.ArithViews
import EasyMl.Lemmas.ViewInjective

namespace EasyMl.Arith
open EasyMl EasyMl.Spec

set_option linter.unusedSectionVars false

variable {ν : Type} [DecidableEq ν] [Inhabited ν] {α : Type}

theorem find_leaf_of_mem (l : List (Nat × List α)) (hn : (l.map (·.1)).Nodup) (i : Nat)
    (d : List α) (hm : (i, d) ∈ l) : l.find? (·.1 == i) = some (i, d) := by
  induction l with
  | nil => simp at hm
  | cons x xs ih =>
    simp only [List.map_cons, List.nodup_cons] at hn
    simp only [List.mem_cons] at hm
    rcases hm with rfl | hm
    · simp
    · have hne : x.1 ≠ i := by
        intro h
        apply hn.1
        rw [h]
        exact List.mem_map.2 ⟨(i, d), hm, rfl⟩
      rw [List.find?_cons_of_neg (by simpa using hne)]
      exact ih hn.2 hm

/-- the value `ofView` reads at an in-range index is what the library's checked getter reads -/
theorem TView.ofView_get (w : View ν α) (idx : List Nat) (hin : inBounds (EasyMl.lens w.shape) idx = true) :
    (TView.ofView w).get idx = (match w.read idx with
       | .ok (some a) => some a
       | _ => none) := by
  cases h : w.read idx with
  | panic k => simp [TView.ofView, hin, h]
  | ok o => cases o <;> simp [TView.ofView, hin, h]

theorem ofView_WF (w : View ν α) (h : w.WF) (hn : w.leafIds.Nodup) : (TView.ofView w).WF := by
  have hc := View.correct w h
  refine ⟨hc.1.1, ?_, ?_⟩
  · intro idx hin
    have hin' : inBounds (EasyMl.lens w.shape) idx = true := hin
    obtain ⟨c, hcell, data, hmem, hlt⟩ := (View.resolves w h).1 idx hin'
    have la := inBounds_length hin'
    have hget : w.get idx = .ok (some c) := by
      rw [hc.2 idx (by simpa [EasyMl.lens] using la) (bounded_of_inBounds hin' hc.1.lens_le)]
      simp [View.specGet, hin', hcell]
    have hlook : w.lookup c = some data[c.2] := by
      unfold View.lookup
      rw [find_leaf_of_mem w.leaves hn c.1 data hmem]
      simp [hlt]
    simp [TView.ofView, hin', View.read, hget, hlook]
  · intro idx _ hout
    have hout' : inBounds (EasyMl.lens w.shape) idx = false := hout
    simp [TView.ofView, hout']

end EasyMl.Arith
