/-
  EasyMl.Lemmas.StatsNatural — C14: the statistics are natural in the element type (any map that
  commutes with the operations they use commutes with them: `StatsHom`, `SoftmaxHom`; the number
  part of a dual number is such a map), and the tensor covariance depends only on what its input
  view shows (`covarianceTensor_congr`).
-/
import EasyMl.Lemmas.Stats
import EasyMl.Lemmas.ArithCompose
import EasyMl.Model.DualElem

namespace EasyMl.Stats
open EasyMl EasyMl.Arith EasyMl.Spec

set_option linter.unusedSectionVars false

section congr
variable {ν : Type} [DecidableEq ν] {α : Type} [Add α] [Sub α] [Mul α] [Div α] [Zero α] [NatCast α]

/-- the tensor covariance depends only on what its input view shows: its shape and the element at
    every in-range index (not on how the view is laid out in memory or iterated) -/
theorem covarianceTensor_congr (iName jName : ν) (hij : iName ≠ jName) {v w : TView ν α}
    (hv : v.WF) (hvw : TView.Same v w) (feature : ν) :
    covarianceTensor iName jName v feature = covarianceTensor iName jName w feature := by
  cases hs : v.shape with
  | nil => simp [covarianceTensor, ← hvw.shape, hs]
  | cons d0 tl =>
    cases tl with
    | nil => simp [covarianceTensor, ← hvw.shape, hs]
    | cons d1 tl2 =>
      cases tl2 with
      | cons x y => simp [covarianceTensor, ← hvw.shape, hs]
      | nil =>
        have hs' : w.shape = [d0, d1] := hvw.shape ▸ hs
        obtain ⟨a, m⟩ := d0
        obtain ⟨b, n⟩ := d1
        have hab : a ≠ b := by
          have := hv.shape.1
          simp only [hs, List.map_cons, List.map_nil, List.nodup_cons, List.mem_cons,
            List.not_mem_nil, or_false] at this
          exact this.1
        have hm : 1 ≤ m := hv.shape.2 (a, m) (by simp [hs])
        have hn : 1 ≤ n := hv.shape.2 (b, n) (by simp [hs])
        by_cases h0 : a = feature
        · -- feature dimension first
          have hpick : (if ((a, m) : ν × Nat).1 = feature then some ((a, m), (b, n))
              else if ((b, n) : ν × Nat).1 = feature then some ((b, n), (a, m)) else none)
              = some ((a, m), (b, n)) := by simp [h0]
          have hcolv : ∀ i, i < m → tensorFeature v a i = .ok ((List.range n).filterMap fun k => v.get [i, k]) :=
            fun i hi => tensorFeature_first hs i hi
          have hcolw : ∀ i, i < m → tensorFeature w a i = .ok ((List.range n).filterMap fun k => v.get [i, k]) := by
            intro i hi
            rw [tensorFeature_first hs' i hi]
            congr 1
            apply filterMap_congr'
            intro k hk
            exact (hvw.get [i, k] (by simp [TView.lens, hs, inBounds, hi, List.mem_range.1 hk])).symm
          rw [covarianceTensor_eq iName jName hij v _ _ _ _ feature hs hpick hm _ hcolv,
            covarianceTensor_eq iName jName hij w _ _ _ _ feature hs' hpick hm _ hcolw]
        · by_cases h1 : b = feature
          · have hpick : (if ((a, m) : ν × Nat).1 = feature then some ((a, m), (b, n))
                else if ((b, n) : ν × Nat).1 = feature then some ((b, n), (a, m)) else none)
                = some ((b, n), (a, m)) := by simp [h0, h1]
            have hcolv : ∀ i, i < n → tensorFeature v b i = .ok ((List.range m).filterMap fun k => v.get [k, i]) :=
              fun i hi => tensorFeature_second hs hab i hi
            have hcolw : ∀ i, i < n → tensorFeature w b i = .ok ((List.range m).filterMap fun k => v.get [k, i]) := by
              intro i hi
              rw [tensorFeature_second hs' hab i hi]
              congr 1
              apply filterMap_congr'
              intro k hk
              exact (hvw.get [k, i] (by simp [TView.lens, hs, inBounds, hi, List.mem_range.1 hk])).symm
            rw [covarianceTensor_eq iName jName hij v _ _ _ _ feature hs hpick hn _ hcolv,
              covarianceTensor_eq iName jName hij w _ _ _ _ feature hs' hpick hn _ hcolw]
          · simp [covarianceTensor, hs, hs', h0, h1]

end congr

variable {ν : Type} [DecidableEq ν] {α β : Type}

/-- image of an outcome -/
def omap {γ δ : Type} (f : γ → δ) : Outcome γ → Outcome δ
  | .ok a => .ok (f a)
  | .panic k => .panic k

/-- entrywise image of a matrix / a tensor / a view -/
def mapMatrix (φ : α → β) (m : Matrix α) : Matrix β := ⟨m.data.map φ, m.rows, m.columns⟩
def mapTensor (φ : α → β) (t : Tensor ν α) : Tensor ν β := ⟨t.data.map φ, t.shape, t.strides⟩
def mapView (φ : α → β) (v : TView ν α) : TView ν β := ⟨v.shape, fun idx => (v.get idx).map φ⟩

section hom
variable [Add α] [Sub α] [Mul α] [Div α] [Zero α] [One α] [NatCast α]
  [Add β] [Sub β] [Mul β] [Div β] [Zero β] [One β] [NatCast β]

/-- a map between element types that commutes with everything the statistics use -/
structure StatsHom (φ : α → β) : Prop where
  zero : φ 0 = 0
  one : φ 1 = 1
  add : ∀ a b, φ (a + b) = φ a + φ b
  sub : ∀ a b, φ (a - b) = φ a - φ b
  mul : ∀ a b, φ (a * b) = φ a * φ b
  div : ∀ a b, φ (a / b) = φ a / φ b
  natCast : ∀ n : Nat, φ (n : α) = (n : β)

variable {φ : α → β}

theorem foldl_add_map (h : StatsHom φ) (l : List α) (a : α) :
    (l.map φ).foldl (· + ·) (φ a) = φ (l.foldl (· + ·) a) := by
  induction l generalizing a with
  | nil => rfl
  | cons x xs ih => simp only [List.map_cons, List.foldl_cons, ← h.add, ih]

theorem sum_map (h : StatsHom φ) (l : List α) : Stats.sum (l.map φ) = φ (Stats.sum l) := by
  unfold Stats.sum
  rw [← h.zero, foldl_add_map h]

theorem meanLoop_map (h : StatsHom φ) (l : List α) :
    meanLoop (l.map φ) = (φ (meanLoop l).1, φ (meanLoop l).2) := by
  unfold meanLoop
  have : ∀ (c s : α), (l.map φ).foldl (fun (cs : β × β) x => (cs.1 + 1, cs.2 + x)) (φ c, φ s)
      = (φ (l.foldl (fun (cs : α × α) x => (cs.1 + 1, cs.2 + x)) (c, s)).1,
         φ (l.foldl (fun (cs : α × α) x => (cs.1 + 1, cs.2 + x)) (c, s)).2) := by
    induction l with
    | nil => intro c s; rfl
    | cons x xs ih =>
      intro c s
      simp only [List.map_cons, List.foldl_cons]
      have h1 : (φ c + 1, φ s + φ x) = (φ (c + 1), φ (s + x)) := by rw [h.add, h.add, h.one]
      rw [h1, ih]
  rw [← h.zero]
  exact this 0 0

theorem mean_map (h : StatsHom φ) (l : List α) : mean (l.map φ) = omap φ (mean l) := by
  cases l with
  | nil => rfl
  | cons x xs =>
    have := meanLoop_map h (x :: xs)
    simp only [List.map_cons] at this
    simp only [mean, List.map_cons, this, omap, h.div]

theorem variance_map (h : StatsHom φ) (l : List α) : variance (l.map φ) = omap φ (variance l) := by
  cases l with
  | nil => rfl
  | cons x xs =>
    have hm := mean_map h (x :: xs)
    simp only [List.map_cons] at hm
    simp only [variance, List.map_cons, hm]
    cases hmean : mean (x :: xs) with
    | panic k => rfl
    | ok m =>
      simp only [omap]
      show mean ((φ x - φ m) * (φ x - φ m) :: List.map (fun y => (y - φ m) * (y - φ m)) (List.map φ xs)) = _
      have : (φ x - φ m) * (φ x - φ m) :: List.map (fun y => (y - φ m) * (y - φ m)) (List.map φ xs)
          = ((x :: xs).map fun y => (y - m) * (y - m)).map φ := by
        simp only [List.map_cons, List.map_map, h.mul, h.sub]
        congr 1
        apply List.map_congr_left
        intro y _
        simp [Function.comp, h.mul, h.sub]
      rw [this, mean_map h]
      rfl

theorem covCell_map (h : StatsHom φ) (s : α) (fi fj : List α) :
    covCell (φ s) (fi.map φ) (fj.map φ) = φ (covCell s fi fj) := by
  unfold covCell
  simp only [sum_map h, ← h.div]
  have : List.zipWith (fun x y => (x - φ (Stats.sum fi / s)) * (y - φ (Stats.sum fj / s))) (fi.map φ) (fj.map φ)
      = (List.zipWith (fun x y => (x - Stats.sum fi / s) * (y - Stats.sum fj / s)) fi fj).map φ := by
    rw [List.zipWith_map_left, List.zipWith_map_right, List.map_zipWith]
    congr 1
    funext x y
    simp [h.mul, h.sub]
  rw [this, sum_map h, h.div]

theorem matrixColumn_map (φ : α → β) (m : Matrix α) (c : Nat) :
    matrixColumn (mapMatrix φ m) c = (matrixColumn m c).map φ := by
  unfold matrixColumn mapMatrix Matrix.getIndex
  rw [List.map_filterMap]
  simp [List.getElem?_map]

theorem matrixRow_map (φ : α → β) (m : Matrix α) (r : Nat) :
    matrixRow (mapMatrix φ m) r = (matrixRow m r).map φ := by
  unfold matrixRow mapMatrix Matrix.getIndex
  rw [List.map_filterMap]
  simp [List.getElem?_map]

theorem covCells_map (h : StatsHom φ) (features : Nat) (s : α) (f : Nat → List α) :
    covCells features (φ s) (fun i => (f i).map φ) = (covCells features s f).map φ := by
  unfold covCells
  rw [List.map_flatMap]
  congr 1
  funext i
  rw [List.map_map]
  congr 1
  funext j
  exact covCell_map h s (f i) (f j)

theorem covarianceColumnFeatures_map (h : StatsHom φ) (m : Matrix α) :
    covarianceColumnFeatures (mapMatrix φ m) = omap (mapMatrix φ) (covarianceColumnFeatures m) := by
  unfold covarianceColumnFeatures
  have hc : (mapMatrix φ m).columns = m.columns := rfl
  have hr : (mapMatrix φ m).rows = m.rows := rfl
  by_cases hpos : 0 < m.columns
  · rw [if_pos (hc ▸ hpos), if_pos hpos]
    simp only [omap, mapMatrix]
    congr 2
    rw [← covCells_map h, h.natCast]
    congr 1
    funext i
    exact matrixColumn_map φ m i
  · rw [if_neg (hc ▸ hpos), if_neg hpos]; rfl

theorem covarianceRowFeatures_map (h : StatsHom φ) (m : Matrix α) :
    covarianceRowFeatures (mapMatrix φ m) = omap (mapMatrix φ) (covarianceRowFeatures m) := by
  unfold covarianceRowFeatures
  have hc : (mapMatrix φ m).columns = m.columns := rfl
  have hr : (mapMatrix φ m).rows = m.rows := rfl
  by_cases hpos : 0 < m.rows
  · rw [if_pos (hr ▸ hpos), if_pos hpos]
    simp only [omap, mapMatrix]
    congr 2
    rw [← covCells_map h, h.natCast]
    congr 1
    funext i
    exact matrixRow_map φ m i
  · rw [if_neg (hr ▸ hpos), if_neg hpos]; rfl

/-! #### the tensor entry point -/

theorem mapView_elems (φ : α → β) (v : TView ν α) : (mapView φ v).elems = v.elems.map φ := by
  unfold TView.elems mapView TView.lens
  rw [List.map_filterMap]

theorem mapView_select (φ : α → β) (v : TView ν α) (name : ν) (i : Nat) :
    (mapView φ v).select name i = omap (mapView φ) (v.select name i) := by
  unfold TView.select
  simp only [mapView]
  cases findPos (fun d => decide (d.1 = name ∧ i < d.2)) v.shape <;> rfl

theorem tensorFeature_map (φ : α → β) (v : TView ν α) (name : ν) (i : Nat) :
    tensorFeature (mapView φ v) name i = omap (List.map φ) (tensorFeature v name i) := by
  unfold tensorFeature
  rw [mapView_select]
  cases v.select name i with
  | panic k => rfl
  | ok s => simp only [omap, mapView_elems]

theorem covTensorCell_map (h : StatsHom φ) (v : TView ν α) (name : ν) (s : α) (idx : List Nat) :
    covTensorCell (mapView φ v) name (φ s) idx = omap φ (covTensorCell v name s idx) := by
  unfold covTensorCell
  split
  · rename_i i j
    simp only [tensorFeature_map]
    cases tensorFeature v name i with
    | panic k => rfl
    | ok fi =>
      cases tensorFeature v name j with
      | panic k => rfl
      | ok fj => simp only [omap, covCell_map h]
  · rfl

theorem outcomeMapM_omap {γ δ ε : Type} (f : γ → Outcome δ) (g : γ → Outcome ε) (ψ : δ → ε)
    (h : ∀ x, g x = omap ψ (f x)) (l : List γ) :
    outcomeMapM g l = omap (List.map ψ) (outcomeMapM f l) := by
  induction l with
  | nil => rfl
  | cons x xs ih =>
    simp only [outcomeMapM, h x, ih]
    cases f x with
    | panic k => rfl
    | ok y =>
      simp only [omap]
      cases outcomeMapM f xs with
      | panic k => rfl
      | ok ys => rfl

theorem tensorFrom_map (φ : α → β) (shape : Shape ν) (data : List α) :
    tensorFrom shape (data.map φ) = omap (mapTensor φ) (tensorFrom shape data) := by
  unfold tensorFrom Tensor.tryFrom
  rw [List.length_map]
  cases validateDimensions shape data.length with
  | some e => rfl
  | none => rfl

theorem covarianceTensor_map (h : StatsHom φ) (iName jName : ν) (v : TView ν α) (feature : ν) :
    covarianceTensor iName jName (mapView φ v) feature
      = omap (mapTensor φ) (covarianceTensor iName jName v feature) := by
  have hshape : (mapView φ v).shape = v.shape := rfl
  cases hs : v.shape with
  | nil => simp [covarianceTensor, hshape, hs, omap]
  | cons d0 tl =>
    cases tl with
    | nil => simp [covarianceTensor, hshape, hs, omap]
    | cons d1 tl2 =>
      cases tl2 with
      | cons x y => simp [covarianceTensor, hshape, hs, omap]
      | nil =>
        simp only [covarianceTensor, hshape, hs]
        cases (if d0.1 = feature then some (d0, d1) else if d1.1 = feature then some (d1, d0) else none) with
        | none => rfl
        | some p =>
          obtain ⟨fd, sd⟩ := p
          simp only
          have hz : List.replicate (elements [(iName, fd.2), (jName, fd.2)]) (0 : β)
              = (List.replicate (elements [(iName, fd.2), (jName, fd.2)]) (0 : α)).map φ := by
            rw [List.map_replicate, h.zero]
          rw [hz, tensorFrom_map]
          cases tensorFrom [(iName, fd.2), (jName, fd.2)] (List.replicate (elements [(iName, fd.2), (jName, fd.2)]) (0 : α)) with
          | panic k => rfl
          | ok t0 =>
            simp only [omap]
            rw [outcomeMapM_omap (covTensorCell v fd.1 (sd.2 : α)) _ φ
              (fun idx => by rw [← h.natCast]; exact covTensorCell_map h v fd.1 _ idx)]
            cases outcomeMapM (covTensorCell v fd.1 (sd.2 : α)) (viewIndices [fd.2, fd.2]) with
            | panic k => rfl
            | ok cells => rfl

end hom

/-! #### softmax -/
section softmax
variable [Add α] [Sub α] [Div α] [Zero α] [RealFns α] [NumOrd α]
  [Add β] [Sub β] [Div β] [Zero β] [RealFns β] [NumOrd β]

/-- what softmax needs of a map between element types -/
structure SoftmaxHom (φ : α → β) : Prop where
  zero : φ 0 = 0
  add : ∀ a b, φ (a + b) = φ a + φ b
  sub : ∀ a b, φ (a - b) = φ a - φ b
  div : ∀ a b, φ (a / b) = φ a / φ b
  exp : ∀ a, φ (RealFns.exp a) = RealFns.exp (φ a)
  lt : ∀ a b, NumOrd.lt (φ a) (φ b) = NumOrd.lt a b

variable {φ : α → β}

theorem maxBy_map (h : SoftmaxHom φ) (l : List α) : maxBy (l.map φ) = (maxBy l).map φ := by
  cases l with
  | nil => rfl
  | cons x xs =>
    simp only [List.map_cons, maxBy, Option.map_some]
    congr 1
    induction xs generalizing x with
    | nil => rfl
    | cons y ys ih =>
      simp only [List.map_cons, List.foldl_cons, h.lt]
      by_cases hlt : NumOrd.lt y x = true
      · simp only [hlt, if_true]; exact ih x
      · simp only [hlt]; exact ih y

theorem softmax_map (h : SoftmaxHom φ) (l : List α) : softmax (l.map φ) = (softmax l).map φ := by
  unfold softmax
  rw [maxBy_map h]
  cases maxBy l with
  | none => rfl
  | some mx =>
    simp only [Option.map_some, List.map_map]
    have hden : List.foldl (· + ·) (0 : β) (List.map ((fun x => RealFns.exp (x - φ mx)) ∘ φ) l)
        = φ (List.foldl (· + ·) (0 : α) (List.map (fun x => RealFns.exp (x - mx)) l)) := by
      have hm : List.map ((fun x => RealFns.exp (x - φ mx)) ∘ φ) l
          = (List.map (fun x => RealFns.exp (x - mx)) l).map φ := by
        rw [List.map_map]
        apply List.map_congr_left
        intro x _
        simp [Function.comp, h.exp, h.sub]
      rw [hm, ← h.zero]
      generalize (0 : α) = a
      generalize List.map (fun x => RealFns.exp (x - mx)) l = es
      induction es generalizing a with
      | nil => rfl
      | cons e es ih => simp only [List.map_cons, List.foldl_cons, ← h.add, ih]
    rw [hden]
    apply List.map_congr_left
    intro x _
    simp [Function.comp, h.exp, h.sub, h.div]

end softmax

/-! #### the number part of a dual number (`Trace`, and the value of a `Record`) -/

instance {R : Type} [NatCast R] [Zero R] : NatCast (Dual R) := ⟨fun n => Dual.constant (n : R)⟩

theorem dualNumber_statsHom {R : Type} [Add R] [Sub R] [Mul R] [Div R] [Neg R] [Zero R] [One R]
    [NatCast R] : StatsHom (Dual.number : Dual R → R) :=
  ⟨rfl, rfl, fun _ _ => rfl, fun _ _ => rfl, fun _ _ => rfl, fun _ _ => rfl, fun _ => rfl⟩

theorem dualNumber_softmaxHom {R : Type} [Add R] [Sub R] [Mul R] [Div R] [Neg R] [Zero R] [One R]
    [RealFns R] [NumOrd R] : SoftmaxHom (Dual.number : Dual R → R) :=
  ⟨rfl, fun _ _ => rfl, fun _ _ => rfl, fun _ _ => rfl, fun _ => rfl, fun _ _ => rfl⟩


end EasyMl.Stats
