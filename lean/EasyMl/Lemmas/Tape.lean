/-
  EasyMl.Lemmas.Tape — the reverse sweep computes the transpose of the tape's forward
  (tangent) semantics.

  * `tapeTan seed ops` — forward semantics of a tape: entry `k` has tangent
    `seed k + ld·tan[lp] + rd·tan[rp]`, where a parent that is not strictly earlier contributes
    nothing (self loops carry weight zero on well-formed tapes).
  * `Tape.WF` — every parent is strictly earlier, or is the entry itself with weight zero.
  * `sweep_correct` — on a well-formed tape the sweep from `y` never panics and its result `adj`
    satisfies `Σ_j adj[j]·seed j = tan_seed[y]` for every seed; with the seed of position `q`:
    `adj[q] = ∂ y / ∂ (entry q)`.
-/
import EasyMl.Model.Tape
import Mathlib.Algebra.Ring.Defs
import Mathlib.Tactic.Ring
import Mathlib.Data.List.Induction

namespace EasyMl

/-! ### `getD` helpers -/

theorem getD_append_lt {α : Type} (a b : List α) (i : Nat) (h : i < a.length) (d : α) :
    (a ++ b).getD i d = a.getD i d := by
  simp [List.getD_eq_getElem?_getD, List.getElem?_append_left h]

theorem getD_append_length {α : Type} (a : List α) (x : α) (d : α) :
    (a ++ [x]).getD a.length d = x := by
  simp [List.getD_eq_getElem?_getD]

theorem getD_of_le {α : Type} (a : List α) (i : Nat) (h : a.length ≤ i) (d : α) :
    a.getD i d = d := by
  simp [List.getD_eq_getElem?_getD, h]

/-! ### weighted sums of a list against a function -/

section Dot
variable {R : Type} [CommRing R]

/-- `Σ_j a[j] · f j` -/
def dotF : List R → (Nat → R) → R
  | [], _ => 0
  | a :: as, f => a * f 0 + dotF as (fun j => f (j + 1))

theorem dotF_congr (a : List R) (f g : Nat → R) (h : ∀ j, j < a.length → f j = g j) :
    dotF a f = dotF a g := by
  induction a generalizing f g with
  | nil => rfl
  | cons x xs ih =>
    simp only [dotF]
    rw [h 0 (by simp), ih (fun j => f (j + 1)) (fun j => g (j + 1))]
    intro j hj
    exact h (j + 1) (by simp; omega)

theorem dotF_set_add (a : List R) (f : Nat → R) (p : Nat) (hp : p < a.length) (x : R) :
    dotF (a.set p (a[p] + x)) f = dotF a f + x * f p := by
  induction a generalizing f p with
  | nil => simp at hp
  | cons y ys ih =>
    cases p with
    | zero => simp [dotF]; ring
    | succ p =>
      simp only [List.set_cons_succ, dotF, List.getElem_cons_succ]
      rw [ih (fun j => f (j + 1)) p (by simpa using hp)]
      ring

/-- changing the function at one position -/
theorem dotF_update (a : List R) (f : Nat → R) (i : Nat) (δ : R) :
    dotF a (fun j => if j = i then f j + δ else f j) = dotF a f + a.getD i 0 * δ := by
  induction a generalizing f i with
  | nil => simp [dotF]
  | cons y ys ih =>
    cases i with
    | zero =>
      simp only [dotF, List.getD_cons_zero, if_true]
      have : dotF ys (fun j => if j + 1 = 0 then f (j + 1) + δ else f (j + 1))
          = dotF ys (fun j => f (j + 1)) := by
        apply dotF_congr; intro j _; simp
      rw [this]; ring
    | succ i =>
      simp only [dotF, List.getD_cons_succ]
      have h0 : ¬ ((0 : Nat) = i + 1) := by omega
      rw [if_neg h0]
      have : dotF ys (fun j => if j + 1 = i + 1 then f (j + 1) + δ else f (j + 1))
          = dotF ys (fun j => if j = i then (fun j => f (j + 1)) j + δ else (fun j => f (j + 1)) j) := by
        apply dotF_congr; intro j _; simp
      rw [this, ih]; ring

theorem dotF_replicate_zero (n : Nat) (f : Nat → R) : dotF (List.replicate n (0 : R)) f = 0 := by
  induction n generalizing f with
  | zero => rfl
  | succ n ih => simp [List.replicate_succ, dotF, ih]

theorem dotF_unit (n y : Nat) (hy : y < n) (f : Nat → R) :
    dotF ((List.replicate n (0 : R)).set y 1) f = f y := by
  induction n generalizing f y with
  | zero => omega
  | succ n ih =>
    cases y with
    | zero => simp [List.replicate_succ, dotF, dotF_replicate_zero]
    | succ y =>
      simp only [List.replicate_succ, List.set_cons_succ, dotF]
      rw [ih y (by omega)]; ring

/-- against the indicator of position `q` the weighted sum is the entry at `q` -/
theorem dotF_indicator (a : List R) (q : Nat) :
    dotF a (fun j => if j = q then 1 else 0) = a.getD q 0 := by
  induction a generalizing q with
  | nil => simp [dotF]
  | cons y ys ih =>
    cases q with
    | zero =>
      simp only [dotF, List.getD_cons_zero, if_true]
      have : dotF ys (fun j => if j + 1 = 0 then (1 : R) else 0) = dotF ys (fun _ => 0) := by
        apply dotF_congr; intro j _; simp
      rw [this]
      have : dotF ys (fun _ => (0 : R)) = 0 := by
        clear ih this
        induction ys with
        | nil => rfl
        | cons z zs ihz => simp [dotF, ihz]
      rw [this]; ring
    | succ q =>
      simp only [dotF, List.getD_cons_succ]
      have h0 : ¬ ((0 : Nat) = q + 1) := by omega
      rw [if_neg h0]
      have : dotF ys (fun j => if j + 1 = q + 1 then (1 : R) else 0)
          = dotF ys (fun j => if j = q then 1 else 0) := by
        apply dotF_congr; intro j _; simp
      rw [this, ih]; ring

end Dot

/-! ### forward semantics of a tape -/

section Tan
variable {R : Type} [CommRing R]

/-- one more entry: its tangent from the tangents of the earlier ones -/
def tanStep (seed : Nat → R) (acc : List R) (op : Op R) : List R :=
  acc ++ [seed acc.length + op.leftDerivative * acc.getD op.leftParent 0
    + op.rightDerivative * acc.getD op.rightParent 0]

/-- tangents of all entries of a tape -/
def tapeTan (seed : Nat → R) (ops : Tape R) : List R := ops.foldl (tanStep seed) []

@[simp] theorem tapeTan_nil (seed : Nat → R) : tapeTan seed ([] : Tape R) = [] := rfl

theorem tapeTan_snoc (seed : Nat → R) (ops : Tape R) (op : Op R) :
    tapeTan seed (ops ++ [op]) = tanStep seed (tapeTan seed ops) op := by
  simp [tapeTan, List.foldl_append]

@[simp] theorem tapeTan_length (seed : Nat → R) (ops : Tape R) :
    (tapeTan seed ops).length = ops.length := by
  induction ops using List.reverseRecOn with
  | nil => rfl
  | append_singleton ops op ih => simp [tapeTan_snoc, tanStep, ih]

/-- the tangents of a tape only depend on the seeds of its own positions -/
theorem tapeTan_congr (seed seed' : Nat → R) (ops : Tape R)
    (h : ∀ j, j < ops.length → seed j = seed' j) : tapeTan seed ops = tapeTan seed' ops := by
  induction ops using List.reverseRecOn with
  | nil => rfl
  | append_singleton ops op ih =>
    have ih' := ih (fun j hj => h j (by simp; omega))
    simp only [tapeTan_snoc, tanStep, ih', tapeTan_length]
    rw [h ops.length (by simp)]

/-- appending entries does not change the tangents of the earlier ones -/
theorem tapeTan_append_getD (seed : Nat → R) (ops ext : Tape R) (i : Nat) (hi : i < ops.length) :
    (tapeTan seed (ops ++ ext)).getD i 0 = (tapeTan seed ops).getD i 0 := by
  induction ext using List.reverseRecOn with
  | nil => simp
  | append_singleton ext op ih =>
    rw [← List.append_assoc, tapeTan_snoc, tanStep]
    rw [getD_append_lt _ _ _ (by simp; omega)]
    exact ih

/-- the tangent of a freshly appended entry -/
theorem tapeTan_snoc_last (seed : Nat → R) (ops : Tape R) (op : Op R) :
    (tapeTan seed (ops ++ [op])).getD ops.length 0 =
      seed ops.length + op.leftDerivative * (tapeTan seed ops).getD op.leftParent 0
        + op.rightDerivative * (tapeTan seed ops).getD op.rightParent 0 := by
  rw [tapeTan_snoc, tanStep]
  have := getD_append_length (tapeTan seed ops)
    (seed (tapeTan seed ops).length + op.leftDerivative * (tapeTan seed ops).getD op.leftParent 0
      + op.rightDerivative * (tapeTan seed ops).getD op.rightParent 0) 0
  rw [tapeTan_length] at this
  rw [tapeTan_length]
  exact this

/-- Every parent is strictly earlier, or the entry itself with weight zero
    (`append_nullary`, the right parent of `append_unary`). -/
def Tape.WF (ops : Tape R) : Prop :=
  ∀ i (h : i < ops.length),
    (ops[i].leftParent < i ∨ (ops[i].leftParent = i ∧ ops[i].leftDerivative = 0)) ∧
    (ops[i].rightParent < i ∨ (ops[i].rightParent = i ∧ ops[i].rightDerivative = 0))

theorem Tape.WF_nil : Tape.WF ([] : Tape R) := by
  intro i h; simp at h

theorem Tape.WF_snoc (ops : Tape R) (op : Op R) (h : Tape.WF ops)
    (hl : op.leftParent < ops.length ∨ (op.leftParent = ops.length ∧ op.leftDerivative = 0))
    (hr : op.rightParent < ops.length ∨ (op.rightParent = ops.length ∧ op.rightDerivative = 0)) :
    Tape.WF (ops ++ [op]) := by
  intro i hi
  by_cases hlt : i < ops.length
  · rw [List.getElem_append_left hlt]; exact h i hlt
  · have : i = ops.length := by simp at hi; omega
    subst this
    simp [hl, hr]

theorem Tape.WF_prefix (ops ext : Tape R) (h : Tape.WF (ops ++ ext)) : Tape.WF ops := by
  intro i hi
  have := h i (by simp; omega)
  rwa [List.getElem_append_left hi] at this

/-- unfolding of the tangent at entry `i`: parents that are not strictly earlier drop out -/
theorem tapeTan_getD (seed : Nat → R) (ops : Tape R) (i : Nat) (hi : i < ops.length) :
    (tapeTan seed ops).getD i 0 =
      seed i
      + ops[i].leftDerivative * (if ops[i].leftParent < i then (tapeTan seed ops).getD ops[i].leftParent 0 else 0)
      + ops[i].rightDerivative * (if ops[i].rightParent < i then (tapeTan seed ops).getD ops[i].rightParent 0 else 0) := by
  induction ops using List.reverseRecOn with
  | nil => simp at hi
  | append_singleton ops op ih =>
    have hile : i ≤ ops.length := by simp at hi; omega
    have key : ∀ p, (if p < i then (tapeTan seed (ops ++ [op])).getD p 0 else 0)
        = (if p < i then (tapeTan seed ops).getD p 0 else 0) := by
      intro p
      split
      · rename_i hp; exact tapeTan_append_getD _ _ _ _ (by omega)
      · rfl
    rw [key, key]
    by_cases hlt : i < ops.length
    · have hget : (ops ++ [op])[i]'hi = ops[i] := List.getElem_append_left hlt
      rw [hget, tapeTan_append_getD _ _ _ _ hlt]
      exact ih hlt
    · have hieq : i = ops.length := by omega
      subst hieq
      have hget : (ops ++ [op])[ops.length]'hi = op := by simp
      rw [hget, tapeTan_snoc_last]
      have pad : ∀ p, (tapeTan seed ops).getD p 0
          = (if p < ops.length then (tapeTan seed ops).getD p 0 else 0) := by
        intro p
        split
        · rfl
        · rename_i hp; exact getD_of_le _ _ (by simp; omega) _
      rw [← pad, ← pad]

end Tan

/-! ### the appenders -/

section Append
variable {R : Type} [Zero R]

theorem foldl_snoc_length {α β : Type} (f : β → α) (l : List β) (acc : List α) :
    (l.foldl (fun acc i => acc ++ [f i]) acc).length = acc.length + l.length := by
  induction l generalizing acc with
  | nil => simp
  | cons x xs ih => simp only [List.foldl_cons, ih, List.length_append, List.length_cons,
      List.length_nil]; omega

theorem appendNullaryRepeating_length (t : Tape R) (n : Nat) :
    (t.appendNullaryRepeating n).2.length = t.length + n := by
  simp only [Tape.appendNullaryRepeating]
  rw [foldl_snoc_length (fun i => (⟨t.length + i, t.length + i, 0, 0⟩ : Op R))]
  simp

end Append

/-! ### the reverse sweep -/

section Sweep
variable {R : Type} [CommRing R]

theorem accumulate_ok (d : List R) (p : Nat) (x : R) (hp : p < d.length) :
    accumulate d p x = .ok (d.set p (d[p] + x)) := by
  simp [accumulate, hp]

/-- one accumulation of the loop, skipped for a self parent (whose weight is zero on a
    well-formed tape): it succeeds, keeps the length, and adds `x · f p` to every weighted sum -/
theorem guarded_acc (d : List R) (p i : Nat) (x : R) (hp : p < d.length) (hx : p = i → x = 0) :
    ∃ d', (if p = i then Outcome.ok d else accumulate d p x) = .ok d' ∧ d'.length = d.length ∧
      ∀ f : Nat → R, dotF d' f = dotF d f + x * f p := by
  by_cases hpi : p = i
  · refine ⟨d, by rw [if_pos hpi], rfl, fun f => ?_⟩
    rw [hx hpi]; ring
  · refine ⟨d.set p (d[p] + x), by rw [if_neg hpi, accumulate_ok _ _ _ hp], by simp, fun f => ?_⟩
    exact dotF_set_add _ _ _ hp _

/-- the vector the invariant is stated against: tangents below `k`, seeds from `k` on -/
def mixF (seed : Nat → R) (tan : List R) (k : Nat) : Nat → R :=
  fun j => if j < k then tan.getD j 0 else seed j

theorem sweepFrom_correct (seed : Nat → R) (ops : Tape R) (hwf : Tape.WF ops) (k : Nat)
    (hk : k ≤ ops.length) (adj : List R) (hadj : adj.length = ops.length) :
    ∃ adj', sweepFrom ops k adj = .ok adj' ∧ adj'.length = ops.length ∧
      dotF adj' seed = dotF adj (mixF seed (tapeTan seed ops) k) := by
  induction k generalizing adj with
  | zero =>
    refine ⟨adj, rfl, hadj, ?_⟩
    apply dotF_congr; intro j _; simp [mixF]
  | succ i ih =>
    have hi : i < ops.length := by omega
    have hwfi := hwf i hi
    have hlp : ops[i].leftParent ≤ i := by rcases hwfi.1 with h | h <;> omega
    have hrp : ops[i].rightParent ≤ i := by rcases hwfi.2 with h | h <;> omega
    have hia : i < adj.length := by omega
    have hx1 : ops[i].leftParent = i → adj[i] * ops[i].leftDerivative = 0 := by
      intro e
      rcases hwfi.1 with h | ⟨_, h0⟩
      · omega
      · rw [h0, mul_zero]
    have hx2 : ops[i].rightParent = i → adj[i] * ops[i].rightDerivative = 0 := by
      intro e
      rcases hwfi.2 with h | ⟨_, h0⟩
      · omega
      · rw [h0, mul_zero]
    obtain ⟨d1, h1, hd1len, hdot1⟩ :=
      guarded_acc adj ops[i].leftParent i (adj[i] * ops[i].leftDerivative) (by omega) hx1
    obtain ⟨d2, h2, hd2len, hdot2⟩ :=
      guarded_acc d1 ops[i].rightParent i (adj[i] * ops[i].rightDerivative) (by omega) hx2
    obtain ⟨adj', hs, hlen, hdot⟩ := ih (by omega) d2 (by omega)
    refine ⟨adj', ?_, hlen, ?_⟩
    · simp only [sweepFrom, List.getElem?_eq_getElem hi, sweepEntry, hia, dite_true, h1, h2]
      exact hs
    · rw [hdot, hdot2, hdot1]
      -- the other side: the mixed vector changes at position `i` only
      have hmix : dotF adj (mixF seed (tapeTan seed ops) (i + 1))
          = dotF adj (fun j => if j = i then mixF seed (tapeTan seed ops) i j
              + ((tapeTan seed ops).getD i 0 - seed i) else mixF seed (tapeTan seed ops) i j) := by
        apply dotF_congr; intro j _
        by_cases hji : j = i
        · subst hji; simp [mixF]
        · simp only [mixF, hji, if_false]
          by_cases hj : j < i
          · have hj1 : j < i + 1 := by omega
            simp [hj, hj1]
          · have hj1 : ¬ j < i + 1 := by omega
            simp [hj, hj1]
      rw [hmix, dotF_update, tapeTan_getD seed ops i hi]
      have hai : adj.getD i 0 = adj[i] := by simp [List.getD_eq_getElem?_getD, hia]
      rw [hai]
      -- parents: strictly earlier, or self loops with weight zero
      have hL : adj[i] * ops[i].leftDerivative * mixF seed (tapeTan seed ops) i ops[i].leftParent
          = adj[i] * (ops[i].leftDerivative *
              (if ops[i].leftParent < i then (tapeTan seed ops).getD ops[i].leftParent 0 else 0)) := by
        rcases hwfi.1 with h | ⟨_, h0⟩
        · simp [mixF, h]; ring
        · simp [h0]
      have hR : adj[i] * ops[i].rightDerivative * mixF seed (tapeTan seed ops) i ops[i].rightParent
          = adj[i] * (ops[i].rightDerivative *
              (if ops[i].rightParent < i then (tapeTan seed ops).getD ops[i].rightParent 0 else 0)) := by
        rcases hwfi.2 with h | ⟨_, h0⟩
        · simp [mixF, h]; ring
        · simp [h0]
      rw [hL, hR]; ring

/-- **The reverse sweep is the transpose of the forward semantics.**  On a well-formed tape the
    sweep from entry `y` does not panic, returns one adjoint per tape entry, and for every
    direction `seed` of the entries `Σ_j adj[j]·seed j` is the tangent of `y` along `seed`. -/
theorem sweep_correct (ops : Tape R) (hwf : Tape.WF ops) (y : Nat) (hy : y < ops.length) :
    ∃ adj, reverseSweep ops y = .ok adj ∧ adj.length = ops.length ∧
      ∀ seed : Nat → R, dotF adj seed = (tapeTan seed ops).getD y 0 := by
  have hlen : ((List.replicate ops.length (0 : R)).set y 1).length = ops.length := by simp
  -- the sweep itself does not depend on the seed: get the result once
  obtain ⟨adj, hs, hl, _⟩ := sweepFrom_correct (fun _ => 0) ops hwf ops.length (Nat.le_refl _) _ hlen
  refine ⟨adj, ?_, hl, ?_⟩
  · simp [reverseSweep, hy, hs]
  · intro seed
    obtain ⟨adj2, hs2, _, hdot⟩ := sweepFrom_correct seed ops hwf ops.length (Nat.le_refl _) _ hlen
    rw [hs] at hs2
    cases hs2
    rw [hdot, dotF_unit _ _ hy]
    simp [mixF, hy]

/-- the adjoint at position `q` is the tangent of `y` when entry `q` alone is perturbed -/
theorem sweep_adjoint (ops : Tape R) (hwf : Tape.WF ops) (y : Nat) (hy : y < ops.length) :
    ∃ adj, reverseSweep ops y = .ok adj ∧ adj.length = ops.length ∧
      ∀ q, adj.getD q 0 = (tapeTan (fun j => if j = q then (1 : R) else 0) ops).getD y 0 := by
  obtain ⟨adj, hs, hl, h⟩ := sweep_correct ops hwf y hy
  exact ⟨adj, hs, hl, fun q => by rw [← h, dotF_indicator]⟩

end Sweep

end EasyMl
