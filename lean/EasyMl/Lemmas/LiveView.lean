/-
  EasyMl.Lemmas.LiveView — a reversal view over a matrix that is written and resized through
  `source_ref_mut()` after the view was constructed: at every moment the view is the reversal
  of the matrix *as it is now*.
-/
import EasyMl.Lemmas.MatrixViewSpec
import EasyMl.Lemmas.MatrixResize

namespace EasyMl.MatrixView
open EasyMl.Spec EasyMl.Fallible

set_option linter.unusedSectionVars false
set_option linter.unusedVariables false

variable {α : Type}

/-- the invariant of `Matrix` survives every operation, panicking or not (C11) -/
theorem exec_inv (m : Matrix α) (h : m.Inv) (op : Matrix.Op α) : (m.exec op).state.Inv := by
  cases hp : Rows.pre m.toRows op with
  | true => exact ((Matrix.exec_spec m h op).1 hp).2.1
  | false => rw [((Matrix.exec_spec m h op).2 hp).2]; exact h

theorem run_inv (m : Matrix α) (h : m.Inv) (ops : List (Matrix.Op α)) : (Matrix.run m ops).Inv := by
  induction ops generalizing m with
  | nil => exact h
  | cons op ops ih => exact ih _ (exec_inv m h op)

theorem Live.mutate_leaf (l : Live α) (op : Matrix.Op α) :
    (l.mutate op).1.leaf = (l.leaf.exec op).state ∧ (l.mutate op).2 = (l.leaf.exec op).panic := by
  induction l with
  | matrix m => exact ⟨rfl, rfl⟩
  | reverse s fr fc ih => exact ih

theorem Live.mutate_flags (l : Live α) (op : Matrix.Op α) : (l.mutate op).1.flags = l.flags := by
  induction l with
  | matrix m => rfl
  | reverse s fr fc ih => simp only [Live.mutate, Live.flags, ih]

theorem Live.mutateAll_leaf (l : Live α) (ops : List (Matrix.Op α)) :
    (l.mutateAll ops).leaf = Matrix.run l.leaf ops := by
  induction ops generalizing l with
  | nil => rfl
  | cons op ops ih => simp only [Live.mutateAll, Matrix.run, ih, (l.mutate_leaf op).1]

theorem Live.mutateAll_flags (l : Live α) (ops : List (Matrix.Op α)) :
    (l.mutateAll ops).flags = l.flags := by
  induction ops generalizing l with
  | nil => rfl
  | cons op ops ih => simp only [Live.mutateAll, ih, l.mutate_flags op]

/-- the specification-level description of a live view is determined by its flags and the
    *current* size of the matrix at the bottom -/
theorem Live.expr_eq (l : Live α) :
    l.expr = reversalsOver l.leaf.rows l.leaf.columns l.flags := by
  induction l with
  | matrix m => rfl
  | reverse s fr fc ih =>
    simp only [Live.expr, Live.flags, Live.leaf, reversalsOver, List.foldl_append, List.foldl_cons,
      List.foldl_nil]
    rw [ih]; rfl

theorem Live.expr_leavesOk (l : Live α) (h : l.leaf.Inv) (hb : l.leaf.data.length ≤ usizeMax) :
    l.expr.LeavesOk := by
  induction l with
  | matrix m =>
    have h1 : m.data.length = m.rows * m.columns := h.1
    have hb' : m.data.length ≤ usizeMax := hb
    exact ⟨h.2.1, h.2.2, by rw [← h1]; exact hb'⟩
  | reverse s fr fc ih => exact ih h hb

/-- whatever the matrix at the bottom looks like now (as long as it is a matrix: C11's
    invariant), the adaptors around it are the reversals of *that* matrix -/
theorem Live.view_refines (l : Live α) (h : l.leaf.Inv) (hb : l.leaf.data.length ≤ usizeMax) :
    Refines l.expr (l.view Arith.fixed) := by
  induction l with
  | matrix m =>
    have h1 : m.data.length = m.rows * m.columns := h.1
    have hb' : m.data.length ≤ usizeMax := hb
    have := leaf_refines m.rows m.columns h.2.1 h.2.2 (by rw [← h1]; exact hb')
    simp only [Live.view, Live.expr, Live.metaOf]
    rw [h1]
    exact this
  | reverse s fr fc ih => exact reverse_refines s.expr (s.view Arith.fixed) (ih h hb) fr fc

theorem Live.sourceRef_leaf (l : Live α) (k : Nat) (s : Live α) (h : l.sourceRef k = some s) :
    s.leaf = l.leaf ∧ s.flags = l.flags.take (l.flags.length - k) := by
  induction l generalizing k with
  | matrix m =>
    cases k with
    | zero => simp only [Live.sourceRef, Option.some.injEq] at h; subst h; simp [Live.flags]
    | succ k => simp [Live.sourceRef] at h
  | reverse src fr fc ih =>
    cases k with
    | zero => simp only [Live.sourceRef, Option.some.injEq] at h; subst h; simp
    | succ k =>
      simp only [Live.sourceRef] at h
      obtain ⟨h1, h2⟩ := ih k h
      refine ⟨h1, ?_⟩
      rw [h2]
      simp only [Live.flags, List.length_append, List.length_singleton]
      have hk : src.flags.length + 1 - (k + 1) = src.flags.length - k := by omega
      rw [hk, List.take_append_of_le_length (by omega)]

end EasyMl.MatrixView
