/-
  EasyMl.Lemmas.AccessView — C01's `TensorAccess` of a tensor is C02's `View.access` node over
  the tensor leaf (same construction, same shape, same reads).
-/
import EasyMl.Model.View

namespace EasyMl

set_option linter.unusedSectionVars false

variable {ν : Type} [DecidableEq ν] {α : Type}

theorem View.read_tensor [Inhabited ν] (id : Nat) (t : Tensor ν α) (idx : List Nat) :
    (View.tensor id t).read idx = .ok (t.get idx) := by
  simp only [View.read, View.get, View.tensorGet, View.lookup, View.leaves, Tensor.get]
  cases h : t.offset idx with
  | none => simp [obind]
  | some i =>
    by_cases hi : i < t.data.length
    · simp [obind, hi]
    · simp [obind, hi]

theorem View.read_access_tensor [Inhabited ν] (id : Nat) (t : Tensor ν α) (m : DimensionMappings)
    (idx : List Nat) :
    (View.access (View.tensor id t) m).read idx = .ok (t.get (m.mapDimensionsToSource idx)) := by
  have : (View.access (View.tensor id t) m).read idx =
      (View.tensor id t).read (m.mapDimensionsToSource idx) := by
    simp [View.read, View.get, View.lookup, View.leaves]
  rw [this, View.read_tensor]

theorem mkAccess_tensor [Inhabited ν] (id : Nat) (t : Tensor ν α) (names : List ν) :
    View.mkAccess (View.tensor id t) names =
      (t.indexBy names).map fun a => View.access (View.tensor id t) a.mapping := by
  unfold View.mkAccess Tensor.indexBy
  simp only [View.shape]
  cases DimensionMappings.new t.shape names <;> rfl

end EasyMl
