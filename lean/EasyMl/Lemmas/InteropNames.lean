/-
  EasyMl.Lemmas.InteropNames — the tensor↔matrix wrappers are positional: what they expose does
  not depend on the dimension names.  Also: the two matrix leaves the C12 model takes in closed
  form (`MExpr.leaf`, `MExpr.leafCM`) are what the modelled `Tensor` + (`TensorAccess` +)
  `MatrixRefTensor` composition computes, for every pair of distinct names.
-/
import EasyMl.Lemmas.MatrixViewSpec
import EasyMl.Lemmas.FallibleAccess
import EasyMl.Lemmas.FallibleRange
import EasyMl.Lemmas.FallibleMatrix

namespace EasyMl.MatrixView
open EasyMl.Spec EasyMl.Fallible

set_option linter.unusedSectionVars false
set_option linter.unusedVariables false

variable {ν : Type} [DecidableEq ν]

/-- `MatrixRefTensor` over any 2-dimensional tensor view: rows and columns are the first and the
    second length, the getter passes `[row, column]` on — whatever the names are. -/
theorem ofTensor_eq (t : TView ν) (a b : ν × Nat) (h : t.shape = [a, b]) :
    MView.ofTensor t = .ok ⟨a.2, b.2, fun r c => t.get [r, c]⟩ := by
  simp [MView.ofTensor, h, idxC]

/-- renaming the dimensions of the tensor does not change the matrix it is seen as -/
theorem ofTensor_rename (t : TView ν) (a b : ν × Nat) (h : t.shape = [a, b]) (m1 m2 : ν) :
    MView.ofTensor (t.rename [m1, m2]) = MView.ofTensor t := by
  rw [ofTensor_eq t a b h, ofTensor_eq (t.rename [m1, m2]) (m1, a.2) (m2, b.2) (by simp [TView.rename, h])]
  rfl

/-- the tensor a matrix view is wrapped into reads `[r, c]` as the view's `(r, c)` -/
theorem withNames_get (src : MView) (n1 n2 : ν) (t : TView ν)
    (h : tensorRefMatrixWithNames src n1 n2 = .ok (.ok t)) :
    t.shape = [(n1, src.rows), (n2, src.columns)] ∧ ∀ r c, t.get [r, c] = src.get r c := by
  simp only [tensorRefMatrixWithNames] at h
  split at h
  · simp only [Outcome.ok.injEq, Except.ok.injEq] at h
    subst h
    exact ⟨rfl, fun r c => by simp [idxC]⟩
  · simp at h

/-- `with_names` refuses exactly equal names or an empty view -/
theorem withNames_ok_iff (src : MView) (n1 n2 : ν) :
    (∃ t, tensorRefMatrixWithNames src n1 n2 = .ok (.ok t)) ↔
      n1 ≠ n2 ∧ 1 ≤ src.rows ∧ 1 ≤ src.columns := by
  have hv : isValidShape [(n1, src.rows), (n2, src.columns)] = true ↔
      n1 ≠ n2 ∧ 1 ≤ src.rows ∧ 1 ≤ src.columns := by
    rw [isValidShape_iff]
    constructor
    · intro ⟨hn, h⟩
      exact ⟨by simpa using hn, h (n1, src.rows) (by simp), h (n2, src.columns) (by simp)⟩
    · intro ⟨hne, h1, h2⟩
      refine ⟨by simpa using hne, ?_⟩
      intro d hd
      simp only [List.mem_cons, List.not_mem_nil, or_false] at hd
      rcases hd with rfl | rfl <;> assumption
  simp only [tensorRefMatrixWithNames]
  by_cases h : isValidShape [(n1, src.rows), (n2, src.columns)] = true
  · rw [if_pos h]; exact ⟨fun _ => hv.mp h, fun _ => ⟨_, rfl⟩⟩
  · rw [if_neg h]
    constructor
    · rintro ⟨t, ht⟩; simp at ht
    · intro hc; exact absurd (hv.mpr hc) h

/-- matrix → tensor → matrix: for every pair of distinct names the round trip exposes the very
    same size and cells as the view it started from -/
theorem roundtrip_names_irrelevant (src : MView) (n1 n2 : ν) (hne : n1 ≠ n2)
    (hr : 1 ≤ src.rows) (hc : 1 ≤ src.columns) :
    ∃ t v, tensorRefMatrixWithNames src n1 n2 = .ok (.ok t) ∧ MView.ofTensor t = .ok v ∧
      v.rows = src.rows ∧ v.columns = src.columns ∧ ∀ r c, v.get r c = src.get r c := by
  obtain ⟨t, ht⟩ := (withNames_ok_iff src n1 n2).mpr ⟨hne, hr, hc⟩
  obtain ⟨hshape, hget⟩ := withNames_get src n1 n2 t ht
  refine ⟨t, _, ht, ofTensor_eq t _ _ hshape, rfl, rfl, hget⟩

/-! ### the tensor-backed leaves -/

/-- the checked getter of a 2-dimensional tensor holding its offsets -/
theorem tensor2_get (n1 n2 : ν) (l1 l2 : Nat) (hb : l1 * l2 ≤ usizeMax) (i j : Nat) :
    (TensorMeta.get (ν := ν) ⟨l1 * l2, [(n1, l1), (n2, l2)], computeStrides [(n1, l1), (n2, l2)]⟩ [i, j]) =
      .ok (if i < l1 ∧ j < l2 then some (i * l2 + j) else none) := by
  simp only [TensorMeta.get]
  rw [getIndexDirectC_eq [(n1, l1), (n2, l2)] [i, j] 0 (by simp [elements]; exact hb)]
  rw [getIndexDirectGo_eq [(n1, l1), (n2, l2)] [i, j] 0 rfl]
  by_cases h : i < l1 ∧ j < l2
  · have h1 : (i + 1) * l2 ≤ l1 * l2 := Nat.mul_le_mul_right _ (by omega)
    rw [Nat.add_mul] at h1
    simp only [Nat.one_mul] at h1
    have : i * l2 + j < l1 * l2 := by omega
    simp [inBounds, ravel, h.1, h.2, this]
  · have : inBounds [l1, l2] [i, j] = false := by
      simp only [inBounds, Bool.and_true, Bool.and_eq_false_iff, decide_eq_false_iff_not]
      by_cases hi : i < l1
      · right; exact fun hj => h ⟨hi, hj⟩
      · left; exact hi
    simp [this, h]

/-- **Row-major tensor leaf.**  A `Tensor` of shape `[(n1, l1), (n2, l2)]` (any two distinct
    names) holding its offsets, seen through `MatrixRefTensor`, is the `l1 × l2` row-major leaf
    of the C12 model: same size, same cell for every index. -/
theorem tensor_leaf_refines (n1 n2 : ν) (hne : n1 ≠ n2) (l1 l2 : Nat) (h1 : 1 ≤ l1) (h2 : 1 ≤ l2)
    (hb : l1 * l2 ≤ usizeMax) :
    ∃ t v, tensorTryFrom Arith.fixed [(n1, l1), (n2, l2)] (l1 * l2) = .ok (.ok t) ∧
      MView.ofTensor (TView.ofTensor t) = .ok v ∧ v.rows = l1 ∧ v.columns = l2 ∧
      ∀ i j, v.get i j = .ok ((MExpr.leaf l1 l2).cell i j) := by
  have hvalid : isValidShape [(n1, l1), (n2, l2)] = true := by
    rw [isValidShape_iff]
    refine ⟨by simpa using hne, ?_⟩
    intro d hd
    simp only [List.mem_cons, List.not_mem_nil, or_false] at hd
    rcases hd with rfl | rfl <;> assumption
  have ht : tensorTryFrom Arith.fixed [(n1, l1), (n2, l2)] (l1 * l2) =
      .ok (.ok ⟨l1 * l2, [(n1, l1), (n2, l2)], computeStrides [(n1, l1), (n2, l2)]⟩) := by
    rw [tensorTryFrom_fixed_eq _ _ hb, if_pos ⟨by simp [elements], hvalid⟩]
  refine ⟨_, _, ht, ofTensor_eq _ (n1, l1) (n2, l2) rfl, rfl, rfl, ?_⟩
  intro i j
  simp only [TView.ofTensor, tensor2_get n1 n2 l1 l2 hb, MExpr.cell]

/-- the mapping `DimensionMappings::new` computes for the swapped order of two distinct names -/
theorem new_swapped (n1 n2 : ν) (hne : n1 ≠ n2) (l1 l2 : Nat) :
    DimensionMappings.new [(n1, l1), (n2, l2)] [n2, n1] = some ⟨[1, 0], [1, 0]⟩ := by
  have hne' : n2 ≠ n1 := fun h => hne h.symm
  simp [DimensionMappings.new, List.range_succ, mappingAt, findPos, hne, hne']

/-- **Column-major tensor leaf.**  The same tensor accessed in the order `[n2, n1]`
    (`TensorAccess`) and seen through `MatrixRefTensor` is the `l2 × l1` column-major leaf of the
    C12 model (`cmGet` in closed form): same size, same cell for every index. -/
theorem tensor_leaf_swapped_refines [Inhabited ν] (n1 n2 : ν) (hne : n1 ≠ n2) (l1 l2 : Nat)
    (h1 : 1 ≤ l1) (h2 : 1 ≤ l2) (hb : l1 * l2 ≤ usizeMax) :
    ∃ t a v, tensorTryFrom Arith.fixed [(n1, l1), (n2, l2)] (l1 * l2) = .ok (.ok t) ∧
      accessTryFrom (TView.ofTensor t) [n2, n1] = .ok (.ok a) ∧
      MView.ofTensor a = .ok v ∧ v.rows = l2 ∧ v.columns = l1 ∧
      ∀ i j, v.get i j = .ok ((MExpr.leafCM l2 l1).cell i j) ∧
        v.get i j = cmGet l2 l1 i j := by
  obtain ⟨t, _, ht, _, _, _, _⟩ := tensor_leaf_refines n1 n2 hne l1 l2 h1 h2 hb
  have htm : t = ⟨l1 * l2, [(n1, l1), (n2, l2)], computeStrides [(n1, l1), (n2, l2)]⟩ := by
    have := (tensorTryFrom_ok hb ht).1
    simpa [elements] using this
  have hnd : ((TView.ofTensor t).shape.map (·.1)).Nodup := by
    subst htm; simpa [TView.ofTensor] using hne
  have hnew : DimensionMappings.new (TView.ofTensor t).shape [n2, n1] = some ⟨[1, 0], [1, 0]⟩ := by
    subst htm; exact new_swapped n1 n2 hne l1 l2
  obtain ⟨a, ha, hshape, hget⟩ := accessTryFrom_of_some (TView.ofTensor t) [n2, n1] hnd hnew
  have hashape : a.shape = [(n2, l2), (n1, l1)] := by
    subst htm; rw [hshape]; simp [accessShape, TView.ofTensor]
  refine ⟨t, a, _, ht, ha, ofTensor_eq a (n2, l2) (n1, l1) hashape, rfl, rfl, ?_⟩
  intro i j
  have hg : a.get [i, j] = (TView.ofTensor t).get [j, i] := by
    rw [hget [i, j] (by subst htm; simp [TView.ofTensor])]
    simp
  have hleaf := (leafCM_refines l2 l1 h2 h1 (by rw [Nat.mul_comm]; exact hb)).2.2.1 i j
  simp only at hleaf
  have hval : a.get [i, j] = .ok ((MExpr.leafCM l2 l1).cell i j) := by
    rw [hg]; subst htm
    simp only [TView.ofTensor, tensor2_get n1 n2 l1 l2 hb, MExpr.cell]
    by_cases h : i < l2 ∧ j < l1
    · have h' : j < l1 ∧ i < l2 := ⟨h.2, h.1⟩
      simp [h, h']
    · have h' : ¬ (j < l1 ∧ i < l2) := fun hh => h ⟨hh.2, hh.1⟩
      simp [h, h']
  refine ⟨hval, ?_⟩
  show a.get [i, j] = cmGet l2 l1 i j
  rw [hval, ← hleaf]

/-- **`Matrix::into_tensor` is positional.**  For any two distinct names the conversion succeeds
    and the tensor, seen through `MatrixRefTensor`, has the matrix's size and, index by index,
    the matrix's cells (the same data, in the same order). -/
theorem intoTensor_positional (m : MatrixMeta) (hm : m.Inv) (rn cn : ν) (hne : rn ≠ cn) :
    ∃ t v, matrixIntoTensor Arith.fixed m rn cn = .ok (.ok t) ∧ t.dataLen = m.dataLen ∧
      MView.ofTensor (TView.ofTensor t) = .ok v ∧ v.rows = m.rows ∧ v.columns = m.columns ∧
      ∀ i j, v.get i j = (MView.ofMatrix m).get i j := by
  have hspec := matrixIntoTensor_spec m hm rn cn
  rw [if_pos hne] at hspec
  obtain ⟨hd, hr, hc, hb⟩ := hm
  refine ⟨_, _, hspec, rfl, ofTensor_eq _ (rn, m.rows) (cn, m.columns) rfl, rfl, rfl, ?_⟩
  intro i j
  simp only [TView.ofTensor, MView.ofMatrix, MatrixMeta.get_eq m ⟨hd, hr, hc, hb⟩]
  rw [hd, tensor2_get rn cn m.rows m.columns (by rw [← hd]; exact hb)]
  by_cases h : i < m.rows ∧ j < m.columns
  · simp [h, Nat.add_comm]
  · simp [h]

end EasyMl.MatrixView
