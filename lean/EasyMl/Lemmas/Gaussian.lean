/-
  EasyMl.Lemmas.Gaussian — helper lemmas about the Gaussian models of `Model/Gaussian.lean`:
  the closed form of the Box–Muller sampling loop, its agreement with `Spec/Gaussian.lean`,
  and the multivariate row loop.
-/
import EasyMl.Model.Gaussian
import EasyMl.Spec.Gaussian
import EasyMl.Lemmas.Decomp

namespace EasyMl.Gaussian
open EasyMl EasyMl.Decomp EasyMl.Spec.Gaussian Finset

set_option linter.unusedSectionVars false

section draw
variable {α : Type} [Add α] [Sub α] [Mul α] [Div α] [Neg α] [Zero α] [One α] [RealFns α]

/-- the samples made from the consecutive pairs of a list of source numbers -/
def pairSamples (mean sd : α) : List α → List α
  | u :: v :: rest => (samplePair mean sd u v).1 :: (samplePair mean sd u v).2 :: pairSamples mean sd rest
  | _ => []

theorem pairSamples_length (mean sd : α) (l : List α) :
    (pairSamples mean sd l).length = 2 * (l.length / 2) := by
  fun_induction pairSamples mean sd l with
  | case1 u v rest ih => simp [ih]; omega
  | case2 l h =>
    match l, h with
    | [], _ => simp
    | [_], _ => simp
    | _ :: _ :: _, h => exact absurd rfl (h _ _ _)

theorem samplePair_fst (mean sd u v : α) : (samplePair mean sd u v).1 = boxMuller₁ mean sd u v := rfl
theorem samplePair_snd (mean sd u v : α) : (samplePair mean sd u v).2 = boxMuller₂ mean sd u v := rfl

theorem pairSamples_getElem? (mean sd : α) (l : List α) (i : ℕ) (hi : i < 2 * (l.length / 2)) :
    (pairSamples mean sd l)[i]? = some (if i % 2 = 0
      then boxMuller₁ mean sd (l.getD (2 * (i / 2)) 0) (l.getD (2 * (i / 2) + 1) 0)
      else boxMuller₂ mean sd (l.getD (2 * (i / 2)) 0) (l.getD (2 * (i / 2) + 1) 0)) := by
  fun_induction pairSamples mean sd l generalizing i with
  | case1 u v rest ih =>
    match i with
    | 0 => simp [samplePair_fst]
    | 1 => simp [samplePair_snd]
    | i + 2 =>
      have hi' : i < 2 * (rest.length / 2) := by simp at hi; omega
      have h1 : (i + 2) % 2 = i % 2 := by omega
      have h2 : 2 * ((i + 2) / 2) = 2 * (i / 2) + 2 := by omega
      simp only [List.getElem?_cons_succ, ih i hi', h1, h2]
      simp
  | case2 l h =>
    match l, h with
    | [], _ => simp at hi
    | [_], _ => simp at hi
    | _ :: _ :: _, h => exact absurd rfl (h _ _ _)

/-- closed form of the sampling loop -/
theorem drawLoop_eq (mean sd : α) (maxSamples : ℕ) (fuel : ℕ) (source acc : List α)
    (hfuel : (maxSamples - acc.length + 1) / 2 ≤ fuel) :
    drawLoop mean sd maxSamples fuel source acc =
      if 2 * ((maxSamples - acc.length + 1) / 2) ≤ source.length then
        (some (acc ++ pairSamples mean sd (source.take (2 * ((maxSamples - acc.length + 1) / 2)))),
          source.drop (2 * ((maxSamples - acc.length + 1) / 2)))
      else (none, []) := by
  induction fuel generalizing source acc with
  | zero =>
    have hp : (maxSamples - acc.length + 1) / 2 = 0 := by omega
    simp [drawLoop, hp, pairSamples]
  | succ fuel ih =>
    unfold drawLoop
    by_cases hlt : acc.length < maxSamples
    · rw [if_pos hlt]
      have hp : (maxSamples - acc.length + 1) / 2 = (maxSamples - (acc.length + 2) + 1) / 2 + 1 := by
        omega
      match source with
      | u :: v :: rest =>
        simp only []
        rw [ih rest (acc ++ [(samplePair mean sd u v).1, (samplePair mean sd u v).2])
          (by simp; omega)]
        simp only [List.length_append, List.length_cons, List.length_nil, hp]
        have e : 2 * ((maxSamples - (acc.length + 2) + 1) / 2 + 1)
            = 2 * ((maxSamples - (acc.length + 2) + 1) / 2) + 2 := by ring
        by_cases hlen : 2 * ((maxSamples - (acc.length + 2) + 1) / 2) ≤ rest.length
        · rw [if_pos (by simpa using hlen), if_pos (by omega), e]
          simp [pairSamples, List.take_succ_cons]
        · rw [if_neg (by simpa using hlen), if_neg (by omega)]
      | [_] => simp only []; rw [if_neg (by simp; omega)]
      | [] => simp only []; rw [if_neg (by simp; omega)]
    · rw [if_neg hlt]
      have hp : (maxSamples - acc.length + 1) / 2 = 0 := by omega
      simp [hp, pairSamples]


theorem drawSpec_length (mean variance : α) (source z : List α) (k : ℕ)
    (h : drawSpec mean variance source k = some z) : z.length = k := by
  unfold drawSpec at h
  split at h
  · cases h
  · simp only [Option.some.injEq] at h; subst h; simp

theorem needed_even (k : ℕ) : 2 * (needed k / 2) = needed k := by unfold needed; omega

theorem needed_ge (k : ℕ) : k ≤ needed k ∧ needed k ≤ k + 1 := by unfold needed; omega

/-- **The draw model is the specification**: the samples are `drawSpec` and exactly
    `consumed` numbers are taken from the source. -/
theorem draw_eq_spec (mean variance : α) (source : List α) (k : ℕ) :
    draw mean variance source k
      = (drawSpec mean variance source k, source.drop (consumed source.length k)) := by
  unfold draw
  simp only []
  rw [drawLoop_eq _ _ _ _ _ _ (by simp; omega)]
  simp only [List.length_nil, Nat.sub_zero, List.nil_append]
  have hn : 2 * ((k + 1) / 2) = needed k := rfl
  rw [hn]
  unfold drawSpec consumed
  by_cases hlen : needed k ≤ source.length
  · rw [if_pos hlen, if_neg (by omega), Nat.min_eq_right hlen]
    simp only []
    set S := pairSamples mean (RealFns.sqrt variance) (source.take (needed k)) with hS
    have hSlen : S.length = needed k := by
      rw [hS, pairSamples_length, List.length_take, Nat.min_eq_left hlen, needed_even]
    have hfinal : (if S.length > k then S.dropLast else S) = S.take k := by
      obtain ⟨h1, h2⟩ := needed_ge k
      by_cases hgt : S.length > k
      · rw [if_pos hgt, List.dropLast_eq_take]
        congr 1; omega
      · rw [if_neg hgt, List.take_of_length_le (by omega)]
    have hext : S.take k = (List.range k).map fun i =>
        if i % 2 = 0 then boxMuller₁ mean (RealFns.sqrt variance) (source.getD (2 * (i / 2)) 0)
          (source.getD (2 * (i / 2) + 1) 0)
        else boxMuller₂ mean (RealFns.sqrt variance) (source.getD (2 * (i / 2)) 0)
          (source.getD (2 * (i / 2) + 1) 0) := by
      apply List.ext_getElem?
      intro i
      obtain ⟨h1, h2⟩ := needed_ge k
      by_cases hik : i < k
      · rw [List.getElem?_take, if_pos hik, hS, pairSamples_getElem? _ _ _ _ (by
          rw [List.length_take, Nat.min_eq_left hlen, needed_even]; omega)]
        have hg : ∀ j, j < needed k → (source.take (needed k)).getD j 0 = source.getD j 0 := by
          intro j hj
          simp [List.getD_eq_getElem?_getD, hj]
        have hj1 : 2 * (i / 2) < needed k := by unfold needed at *; omega
        have hj2 : 2 * (i / 2) + 1 < needed k := by unfold needed at *; omega
        rw [hg _ hj1, hg _ hj2]
        simp [hik]
      · rw [List.getElem?_take, if_neg hik]
        simp [hik]
    rw [← hext, ← hfinal]
    by_cases hgt : S.length > k
    · simp only [hgt, if_true]
    · simp only [hgt, if_false]
  · rw [if_neg hlen, if_pos (by omega)]
    simp only []
    rw [Nat.min_eq_left (by omega), List.drop_length]

end draw

section mv
variable {K : Type} [Field K] [RealFns K] [NumOrd K]

/-- a draw only looks at the first `needed k` source numbers -/
theorem drawSpec_take (mean variance : K) (source : List K) (k : ℕ)
    (hlen : needed k ≤ source.length) :
    drawSpec mean variance (source.take (needed k)) k = drawSpec mean variance source k := by
  unfold drawSpec
  rw [List.length_take, Nat.min_eq_left hlen, if_neg (by omega), if_neg (by omega)]
  simp only []
  congr 1
  apply List.map_congr_left
  intro i hi
  have hik : i < k := List.mem_range.mp hi
  have hg : ∀ j, j < needed k → (source.take (needed k)).getD j 0 = source.getD j 0 := by
    intro j hj
    simp [List.getD_eq_getElem?_getD, hj]
  have hj1 : 2 * (i / 2) < needed k := by unfold needed; omega
  have hj2 : 2 * (i / 2) + 1 < needed k := by unfold needed; omega
  rw [hg _ hj1, hg _ hj2]

/-- one sample row: `μ + L·z` entry by entry -/
theorem randomVector_eq {n : ℕ} (mean : List K) (L : Matrix K) (z : List K) (hm : mean.length = n)
    (hL : Shaped n n L) (hz : z.length = n) :
    randomVector mean L z = (List.range n).map fun i => mvEntry mean L z i := by
  unfold randomVector
  simp only []
  rw [hm]
  apply List.map_congr_left
  intro i hi
  have hin : i < n := List.mem_range.mp hi
  have hzs : Shaped n 1 (⟨z, z.length, 1⟩ : Matrix K) := ⟨hz, rfl, by simp [hz]⟩
  by_cases hn : 0 < 1
  · rw [get_matMul hL hzs hin hn]
    unfold mvEntry
    rw [hm]
    congr 1
    have := foldRange_add_eq_sum (fun k => get L i k * z.getD k 0) n
    unfold foldRange at this
    rw [this]
    apply sum_congr rfl
    intro t _
    simp [Decomp.get, EasyMl.Matrix.getIndex]
  · omega

/-- rows `0 … samples−1` of the specification, row-major -/
def specRows (mean : List K) (L : Matrix K) (source : List K) (n samples : ℕ) : List K :=
  (List.range samples).flatMap fun s => (List.range n).map fun i => mvEntry mean L (rowNormals source n s) i

theorem chunk_succ (source : List K) (n s : ℕ) :
    chunk source n (s + 1) = chunk (source.drop (needed n)) n s := by
  unfold chunk
  rw [List.drop_drop]
  congr 2
  ring

theorem specRows_succ (mean : List K) (L : Matrix K) (source : List K) (n samples : ℕ) :
    specRows mean L source n (samples + 1)
      = ((List.range n).map fun i => mvEntry mean L (rowNormals source n 0) i)
        ++ specRows mean L (source.drop (needed n)) n samples := by
  unfold specRows
  rw [List.range_succ_eq_map, List.flatMap_cons, List.flatMap_map]
  congr 1
  apply List.flatMap_congr
  intro s _
  simp only [rowNormals, chunk_succ]

/-- closed form of the row loop -/
theorem mvRows_eq {n : ℕ} (mean : List K) (L : Matrix K) (hm : mean.length = n) (hL : Shaped n n L)
    (samples : ℕ) (source drawn : List K) :
    mvRows mean L samples source drawn =
      if samples * needed n ≤ source.length then
        (some (drawn ++ specRows mean L source n samples), source.drop (samples * needed n))
      else (none, []) := by
  induction samples generalizing source drawn with
  | zero => simp [mvRows, specRows]
  | succ samples ih =>
    unfold mvRows
    rw [draw_eq_spec, hm]
    have hexp : (samples + 1) * needed n = samples * needed n + needed n := by ring
    by_cases hlen : needed n ≤ source.length
    · have hsome : ∃ z, drawSpec (0 : K) 1 source n = some z := by
        unfold drawSpec; rw [if_neg (by omega)]; exact ⟨_, rfl⟩
      obtain ⟨z, hz⟩ := hsome
      have hzlen := drawSpec_length _ _ _ _ _ hz
      simp only [hz, consumed, Nat.min_eq_right hlen]
      rw [ih, specRows_succ, randomVector_eq mean L z hm hL hzlen]
      have hrow : rowNormals source n 0 = z := by
        unfold rowNormals chunk
        simp only [Nat.zero_mul, List.drop_zero]
        rw [drawSpec_take _ _ _ _ hlen, hz]; rfl
      rw [hrow, List.length_drop, hexp]
      by_cases hrest : samples * needed n ≤ source.length - needed n
      · rw [if_pos hrest, if_pos (by omega), List.append_assoc, List.drop_drop,
          Nat.add_comm (needed n) (samples * needed n)]
      · rw [if_neg hrest, if_neg (by omega)]
    · have hnone : drawSpec (0 : K) 1 source n = none := by
        unfold drawSpec; rw [if_pos (by omega)]
      simp only [hnone, consumed]
      rw [if_neg (by omega), Nat.min_eq_left (by omega), List.drop_length]

/-- row-major concatenation of rows of equal length is `ofFn` -/
theorem flatMap_range_eq_ofFn_data (r c : ℕ) (f : ℕ → ℕ → K) :
    ((List.range r).flatMap fun i => (List.range c).map fun j => f i j) = (ofFn r c f).data := by
  unfold ofFn
  simp only []
  induction r with
  | zero => simp
  | succ r ih =>
    rw [List.range_succ, List.flatMap_append, ih]
    simp only [List.flatMap_cons, List.flatMap_nil, List.append_nil]
    rw [show (r + 1) * c = r * c + c by ring, List.range_add, List.map_append, List.map_map]
    congr 1
    apply List.map_congr_left
    intro t ht
    have htc : t < c := List.mem_range.mp ht
    have hc : 0 < c := by omega
    simp only [Function.comp]
    rw [Nat.add_comm (r * c) t, Nat.add_mul_div_right _ _ hc, Nat.add_mul_mod_self_right,
      Nat.div_eq_of_lt htc, Nat.mod_eq_of_lt htc, Nat.zero_add]


/-- **The multivariate draw model is the specification** (for a mean vector as long as the
    covariance matrix is high — what both constructors validate). -/
theorem drawTensorSamples_eq_spec (mean : List K) (covariance : Matrix K) (source : List K)
    (samples : ℕ) (sameNames : Bool) (hm : mean.length = covariance.rows) :
    drawTensorSamples mean covariance source samples sameNames =
      (if sameNames = false ∧ (cholesky covariance).isSome ∧ samples = 0 then .panic .explicit
        else .ok (mvSpec mean covariance source samples sameNames),
       source.drop (mvConsumed mean covariance source.length samples sameNames)) := by
  unfold drawTensorSamples mvSpec mvConsumed
  cases sameNames with
  | true => simp
  | false =>
    simp only [Bool.false_eq_true, if_false, true_and]
    cases hc : cholesky covariance with
    | none => simp
    | some L =>
      simp only [Option.isSome_some, true_and]
      obtain ⟨_, hL, _, _⟩ := cholesky_inv hc
      by_cases hk : samples = 0
      · subst hk; simp
      · rw [if_neg hk, if_neg hk, mvRows_eq mean L hm hL]
        by_cases hlen : samples * needed mean.length ≤ source.length
        · rw [hm] at hlen
          rw [if_pos hlen]
          simp only [List.nil_append]
          rw [hm, if_neg (by omega), Nat.min_eq_right hlen]
          congr 3
          unfold specRows
          rw [flatMap_range_eq_ofFn_data]
          rfl
        · rw [hm] at hlen
          rw [if_neg hlen]
          simp only []
          rw [hm, if_pos (by omega), Nat.min_eq_left (by omega), List.drop_length]

end mv

end EasyMl.Gaussian
