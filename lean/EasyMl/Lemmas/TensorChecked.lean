/-
  EasyMl.Lemmas.TensorChecked — the checked `usize` arithmetic of construction and addressing
  never overflows on accepted tensors and agrees with the unbounded model (C01).
-/
import EasyMl.Model.TensorChecked
import EasyMl.Lemmas.Mappings

namespace EasyMl
open EasyMl.Spec

set_option linter.unusedSectionVars false

variable {ν : Type} [DecidableEq ν] {α : Type}

theorem checkedProd_some (B acc : Nat) (ls : List Nat) (n : Nat)
    (h : checkedProd B acc ls = some n) : n = acc * prod ls := by
  induction ls generalizing acc with
  | nil => simp [checkedProd] at h; simp [h]
  | cons l ls ih =>
    simp only [checkedProd, checkedMul] at h
    split at h
    · rename_i a ha
      split at ha
      · simp only [Option.some.injEq] at ha
        subst ha
        rw [ih _ h, prod_cons, Nat.mul_assoc]
      · simp at ha
    · simp at h

theorem prod_pos_of_pos (ls : List Nat) (h : ∀ l ∈ ls, 1 ≤ l) : 1 ≤ prod ls := by
  induction ls with
  | nil => simp
  | cons l ls ih =>
    rw [prod_cons]
    exact Nat.mul_le_mul (h l (by simp)) (ih fun x hx => h x (by simp [hx]))

theorem checkedProd_of_pos (B acc : Nat) (ls : List Nat) (hpos : ∀ l ∈ ls, 1 ≤ l)
    (hB : acc * prod ls ≤ B) : checkedProd B acc ls = some (acc * prod ls) := by
  induction ls generalizing acc with
  | nil => simp [checkedProd]
  | cons l ls ih =>
    have hp := prod_pos_of_pos ls fun x hx => hpos x (by simp [hx])
    rw [prod_cons, ← Nat.mul_assoc] at hB
    have h1 : acc * l ≤ B := by
      calc acc * l = acc * l * 1 := by simp
        _ ≤ acc * l * prod ls := Nat.mul_le_mul_left _ hp
        _ ≤ B := hB
    simp only [checkedProd, checkedMul, h1, if_true]
    rw [ih (acc * l) (fun x hx => hpos x (by simp [hx])) hB, prod_cons, Nat.mul_assoc]

theorem prod_drop_le (ls : List Nat) (hpos : ∀ l ∈ ls, 1 ≤ l) (k : Nat) :
    prod (ls.drop k) ≤ prod ls := by
  induction ls generalizing k with
  | nil => simp
  | cons l ls ih =>
    cases k with
    | zero => simp
    | succ k =>
      simp only [List.drop_succ_cons, prod_cons]
      calc prod (ls.drop k) ≤ prod ls := ih (fun x hx => hpos x (by simp [hx])) k
        _ = 1 * prod ls := by simp
        _ ≤ l * prod ls := Nat.mul_le_mul_right _ (hpos l (by simp))

/-- the fixed count test accepts exactly what the unbounded model accepts -/
theorem validateDimensionsChecked_none_iff (B : Nat) (shape : Shape ν) (n : Nat) (hn : n ≤ B) :
    validateDimensionsChecked B shape n = none ↔ validateDimensions shape n = none := by
  rw [validateDimensions_none_iff]
  unfold validateDimensionsChecked
  have hdup : hasDuplicates (shape.map (·.1)) = false ↔ (shape.map (·.1)).Nodup := by
    have := hasDuplicates_iff (shape.map (·.1))
    cases h : hasDuplicates (shape.map (·.1)) <;> simp_all
  have hany : shape.any (·.2 == 0) = false ↔ ∀ d ∈ shape, 1 ≤ d.2 := by
    rw [List.any_eq_false]
    constructor
    · intro h d hd; have := h d hd; simp only [beq_iff_eq] at this; omega
    · intro h d hd; have := h d hd; simp only [beq_iff_eq]; omega
  rw [← hdup, ← hany]
  by_cases hc : checkedElements B shape = some n
  · have hel : n = elements shape := by
      have := checkedProd_some B 1 _ n hc
      simpa [elements] using this
    cases hasDuplicates (shape.map (·.1)) <;> cases shape.any (·.2 == 0) <;> simp [hc, hel]
  · simp only [ne_eq, hc, not_false_eq_true, if_true, reduceCtorEq, false_iff, not_and]
    intro hel h1 h2
    apply hc
    have hpos : ∀ l ∈ shape.map (·.2), 1 ≤ l := by
      intro l hl
      obtain ⟨d, hd, rfl⟩ := List.mem_map.1 hl
      exact (hany.1 h2) d hd
    have := checkedProd_of_pos B 1 (shape.map (·.2)) hpos (by rw [Nat.one_mul]; rw [hel] at hn; exact hn)
    unfold checkedElements
    rw [this, hel]; simp [elements]

theorem computeStridesChecked_eq (B : Nat) (shape : Shape ν) (hpos : ∀ d ∈ shape, 1 ≤ d.2)
    (hB : elements shape ≤ B) : computeStridesChecked B shape = some (computeStrides shape) := by
  unfold computeStridesChecked computeStrides
  rw [mapM_option_eq_some_iff, List.map_map]
  apply List.map_congr_left
  intro d _
  have hpos' : ∀ l ∈ shape.map (·.2), 1 ≤ l := by
    intro l hl
    obtain ⟨e, he, rfl⟩ := List.mem_map.1 hl
    exact hpos e he
  simp only [Function.comp]
  rw [List.map_drop]
  have hle := prod_drop_le (shape.map (·.2)) hpos' (d + 1)
  rw [checkedProd_of_pos B 1 _ (fun l hl => hpos' l (List.mem_of_mem_drop hl))
    (by rw [Nat.one_mul]; exact Nat.le_trans hle hB)]
  simp

theorem getIndexDirectCheckedGo_eq (B : Nat) (shape : Shape ν) (idx : List Nat) (acc : Nat)
    (hB : acc + elements shape ≤ B) :
    getIndexDirectCheckedGo B idx (computeStrides shape) (shape.map (·.2)) acc =
      some (getIndexDirectGo idx (computeStrides shape) (shape.map (·.2)) acc) := by
  induction shape generalizing idx acc with
  | nil => cases idx <;> simp [getIndexDirectCheckedGo, getIndexDirectGo]
  | cons d rest ih =>
    cases idx with
    | nil => simp [getIndexDirectCheckedGo, getIndexDirectGo]
    | cons n is =>
      rw [computeStrides_cons]
      simp only [List.map_cons, getIndexDirectCheckedGo, getIndexDirectGo]
      by_cases h : n ≥ d.2
      · simp [h]
      · simp only [h, if_false]
        rw [elements_cons] at hB
        have h1 : (n + 1) * elements rest ≤ d.2 * elements rest := Nat.mul_le_mul_right _ (by omega)
        rw [Nat.add_mul, Nat.one_mul] at h1
        have hm : n * elements rest ≤ B := by omega
        have ha : acc + n * elements rest ≤ B := by omega
        simp only [checkedMul, hm, if_true, checkedAdd, ha]
        exact ih is _ (by omega)

end EasyMl
