/-
  EasyMl.Lemmas.FallibleRange — the eight `TensorRange` / `TensorMask` constructors (repaired):
  they return normally for every input, succeed exactly when every dimension keeps at least one
  index, report the documented errors, and the views they build are total.
  Record iterators and the shape logic of the linear algebra entry points.
-/
import EasyMl.Lemmas.Fallible

namespace EasyMl.Fallible
open EasyMl.Spec

set_option linter.unusedSectionVars false
set_option linter.unusedVariables false

variable {ν : Type} [DecidableEq ν]

/-- the length a lenient range keeps of a dimension of length `l`:
    `min(start + length, l) − start` -/
def keptByRange (l : Nat) (r : IndexRange) : Nat := min (r.start + r.length) l - r.start

theorem rangeShape_lens (shape : Shape ν) (hs : ∀ d ∈ shape, d.2 ≤ usizeMax) (rs : List IndexRange) :
    (rangeShape shape rs).map (·.2) = List.zipWith (fun d r => keptByRange d.2 r) shape rs := by
  induction shape generalizing rs with
  | nil => simp [rangeShape]
  | cons d shape ih =>
    cases rs with
    | nil => simp [rangeShape]
    | cons r rs =>
      have := ih (fun e he => hs e (by simp [he])) rs
      simp only [rangeShape] at this ⊢
      simp [this, keptByRange, IndexRange.clip_length r d.2 (hs d (by simp))]

theorem maskShape_lens (shape : Shape ν) (hs : ∀ d ∈ shape, d.2 ≤ usizeMax) (rs : List IndexRange) :
    (maskShape shape rs).map (·.2) =
      List.zipWith (fun d r => d.2 - keptByRange d.2 r) shape rs := by
  induction shape generalizing rs with
  | nil => simp [maskShape]
  | cons d shape ih =>
    cases rs with
    | nil => simp [maskShape]
    | cons r rs =>
      have := ih (fun e he => hs e (by simp [he])) rs
      simp only [maskShape] at this ⊢
      simp [this, keptByRange, IndexRange.clip_length r d.2 (hs d (by simp))]

/-- validity of a shape whose names are known to be unique: no zero length -/
theorem isValidShape_of_names {shape : Shape ν} (hn : (shape.map (·.1)).Nodup) :
    isValidShape shape = true ↔ ∀ l ∈ shape.map (·.2), 1 ≤ l := by
  rw [isValidShape_iff]
  constructor
  · intro ⟨_, h⟩ l hl
    simp only [List.mem_map] at hl
    obtain ⟨d, hd, rfl⟩ := hl
    exact h d hd
  · intro h
    exact ⟨hn, fun d hd => h d.2 (by simp only [List.mem_map]; exact ⟨d, hd, rfl⟩)⟩

/-- `TensorRange::from_all` (repaired): total; `Ok` exactly when every dimension keeps an index;
    the error carries the clipped shape; the view is total and reports the clipped lengths -/
theorem rangeFromAll_spec (src : TView ν) (hsrc : src.WF) (ranges : List (Option IndexRange))
    (hlen : ranges.length = src.shape.length) :
    (∃ v, rangeFromAll Arith.fixed src ranges = .ok (.ok v) ∧ v.WF ∧
        v.shape = rangeShape src.shape (defaultRanges src.shape ranges) ∧
        ∀ l ∈ List.zipWith (fun d r => keptByRange d.2 r) src.shape (defaultRanges src.shape ranges),
          1 ≤ l) ∨
    (rangeFromAll Arith.fixed src ranges =
        .ok (.error (.invalidShape (rangeShape src.shape (defaultRanges src.shape ranges)))) ∧
      ¬ ∀ l ∈ List.zipWith (fun d r => keptByRange d.2 r) src.shape (defaultRanges src.shape ranges),
          1 ≤ l) := by
  have hrl := defaultRanges_length src.shape ranges hlen
  have hnames : ((rangeShape src.shape (defaultRanges src.shape ranges)).map (·.1)).Nodup := by
    rw [rangeShape_names _ _ hrl]; exact hsrc.1.1
  rw [rangeFromAll_fixed_eq, ← rangeShape_lens src.shape (ushape_le hsrc.1)]
  by_cases hv : isValidShape (rangeShape src.shape (defaultRanges src.shape ranges)) = true
  · left
    simp only [hv, if_true]
    refine ⟨_, rfl, ⟨rangeShape_ushape _ hsrc.1 _ hv, range_total src hsrc _ hrl⟩, rfl, ?_⟩
    exact (isValidShape_of_names hnames).mp hv
  · right
    simp only [hv]
    exact ⟨rfl, fun h => hv ((isValidShape_of_names hnames).mpr h)⟩

/-- `TensorMask::from_all` (repaired) -/
theorem maskFromAll_spec (src : TView ν) (hsrc : src.WF) (masks : List (Option IndexRange))
    (hlen : masks.length = src.shape.length) :
    (∃ v, maskFromAll Arith.fixed src masks = .ok (.ok v) ∧ v.WF ∧
        v.shape = maskShape src.shape (defaultMasks masks) ∧
        ∀ l ∈ List.zipWith (fun d r => d.2 - keptByRange d.2 r) src.shape (defaultMasks masks),
          1 ≤ l) ∨
    (maskFromAll Arith.fixed src masks =
        .ok (.error (.invalidShape (maskShape src.shape (defaultMasks masks)))) ∧
      ¬ ∀ l ∈ List.zipWith (fun d r => d.2 - keptByRange d.2 r) src.shape (defaultMasks masks),
          1 ≤ l) := by
  have hrl : (defaultMasks masks).length = src.shape.length := by
    rw [defaultMasks_length]; exact hlen
  have hnames : ((maskShape src.shape (defaultMasks masks)).map (·.1)).Nodup := by
    rw [maskShape_names _ _ hrl]; exact hsrc.1.1
  rw [maskFromAll_fixed_eq, ← maskShape_lens src.shape (ushape_le hsrc.1)]
  by_cases hv : isValidShape (maskShape src.shape (defaultMasks masks)) = true
  · left
    simp only [hv, if_true]
    refine ⟨_, rfl, ⟨maskShape_ushape _ hsrc.1 _ hv, mask_total src hsrc _ hrl⟩, rfl, ?_⟩
    exact (isValidShape_of_names hnames).mp hv
  · right
    simp only [hv]
    exact ⟨rfl, fun h => hv ((isValidShape_of_names hnames).mpr h)⟩

/-- what the constructors may answer: a total view, or one of the documented errors -/
def GoodAnswer (r : Outcome (Except (RangeError ν) (TView ν))) : Prop :=
  ∃ a, r = .ok a ∧ match a with
    | .ok v => v.WF
    | .error _ => True

theorem rangeFromAll_good (src : TView ν) (hsrc : src.WF) (ranges : List (Option IndexRange))
    (hlen : ranges.length = src.shape.length) : GoodAnswer (rangeFromAll Arith.fixed src ranges) := by
  rcases rangeFromAll_spec src hsrc ranges hlen with ⟨v, h, hwf, _⟩ | ⟨h, _⟩
  · exact ⟨_, h, hwf⟩
  · exact ⟨_, h, trivial⟩

theorem maskFromAll_good (src : TView ν) (hsrc : src.WF) (masks : List (Option IndexRange))
    (hlen : masks.length = src.shape.length) : GoodAnswer (maskFromAll Arith.fixed src masks) := by
  rcases maskFromAll_spec src hsrc masks hlen with ⟨v, h, hwf, _⟩ | ⟨h, _⟩
  · exact ⟨_, h, hwf⟩
  · exact ⟨_, h, trivial⟩

theorem rangeFromAllStrict_good (src : TView ν) (hsrc : src.WF) (ranges : List (Option IndexRange))
    (hlen : ranges.length = src.shape.length) :
    GoodAnswer (rangeFromAllStrict Arith.fixed src ranges) := by
  rw [rangeFromAllStrict_fixed_eq src ranges (ushape_le hsrc.1)]
  split
  · exact ⟨_, rfl, trivial⟩
  · exact rangeFromAll_good src hsrc ranges hlen

theorem maskFromAllStrict_good (src : TView ν) (hsrc : src.WF) (masks : List (Option IndexRange))
    (hlen : masks.length = src.shape.length) :
    GoodAnswer (maskFromAllStrict Arith.fixed src masks) := by
  rw [maskFromAllStrict_fixed_eq src masks (ushape_le hsrc.1)]
  split
  · exact ⟨_, rfl, trivial⟩
  · exact maskFromAll_good src hsrc masks hlen

/-- the strict `from_all` constructors never answer `InvalidDimensions`, so the `panic!` arm of
    the re-wrapping `match` in `from_strict` is unreachable -/
theorem rewrapStrict_rangeFromAllStrict (src : TView ν) (hsrc : src.WF)
    (ranges : List (Option IndexRange)) (hlen : ranges.length = src.shape.length) :
    rewrapStrict (rangeFromAllStrict Arith.fixed src ranges) =
      rangeFromAllStrict Arith.fixed src ranges := by
  rw [rangeFromAllStrict_fixed_eq src ranges (ushape_le hsrc.1)]
  split
  · rfl
  · rcases rangeFromAll_spec src hsrc ranges hlen with ⟨v, h, _⟩ | ⟨h, _⟩ <;> rw [h] <;> rfl

theorem rewrapStrict_maskFromAllStrict (src : TView ν) (hsrc : src.WF)
    (masks : List (Option IndexRange)) (hlen : masks.length = src.shape.length) :
    rewrapStrict (maskFromAllStrict Arith.fixed src masks) =
      maskFromAllStrict Arith.fixed src masks := by
  rw [maskFromAllStrict_fixed_eq src masks (ushape_le hsrc.1)]
  split
  · rfl
  · rcases maskFromAll_spec src hsrc masks hlen with ⟨v, h, _⟩ | ⟨h, _⟩ <;> rw [h] <;> rfl

/-- the four named constructors: for every list of names and ranges they return normally -/
theorem named_good (src : TView ν) (hsrc : src.WF) (ranges : List (ν × IndexRange)) :
    GoodAnswer (rangeFrom Arith.fixed src ranges) ∧ GoodAnswer (maskFrom Arith.fixed src ranges) ∧
    GoodAnswer (rangeFromStrict Arith.fixed src ranges) ∧
    GoodAnswer (maskFromStrict Arith.fixed src ranges) := by
  rcases fromNamedToAll_spec src.shape ranges with ⟨all, h, hl, _⟩ | ⟨h, _⟩
  · simp only [rangeFrom, maskFrom, rangeFromStrict, maskFromStrict, h,
      rewrapStrict_rangeFromAllStrict src hsrc all hl, rewrapStrict_maskFromAllStrict src hsrc all hl]
    exact ⟨rangeFromAll_good src hsrc all hl, maskFromAll_good src hsrc all hl,
      rangeFromAllStrict_good src hsrc all hl, maskFromAllStrict_good src hsrc all hl⟩
  · simp only [rangeFrom, maskFrom, rangeFromStrict, maskFromStrict, h]
    exact ⟨⟨_, rfl, trivial⟩, ⟨_, rfl, trivial⟩, ⟨_, rfl, trivial⟩, ⟨_, rfl, trivial⟩⟩

/-! ### record iterators -/

/-- the last history in the list that differs from `h` -/
def lastOther (h : Option Nat) : List (Option Nat) → Option (Option Nat)
  | [] => none
  | x :: xs =>
    match lastOther h xs with
    | some later => some later
    | none => if x = h then none else some x

theorem lastOther_eq_none (h : Option Nat) (l : List (Option Nat)) :
    lastOther h l = none ↔ ∀ x ∈ l, x = h := by
  induction l with
  | nil => simp [lastOther]
  | cons x xs ih =>
    simp only [lastOther]
    cases hl : lastOther h xs with
    | some later =>
      have : ¬ ∀ x ∈ xs, x = h := fun hall => by simp [ih.mpr hall] at hl
      simp only [List.mem_cons, forall_eq_or_imp]
      constructor
      · intro h'; simp at h'
      · intro ⟨_, h2⟩; exact absurd h2 this
    | none =>
      have hall := ih.mp hl
      by_cases hx : x = h
      · simp only [hx, if_true, List.mem_cons, forall_eq_or_imp, true_and, true_iff]
        exact hall
      · simp [hx]

theorem lastOther_some {h later : Option Nat} {l : List (Option Nat)} (hl : lastOther h l = some later) :
    later ∈ l ∧ later ≠ h := by
  induction l with
  | nil => simp [lastOther] at hl
  | cons x xs ih =>
    simp only [lastOther] at hl
    cases hxs : lastOther h xs with
    | some y =>
      simp only [hxs, Option.some.injEq] at hl
      subst hl
      obtain ⟨h1, h2⟩ := ih hxs
      exact ⟨by simp [h1], h2⟩
    | none =>
      simp only [hxs] at hl
      split at hl
      · simp at hl
      · rename_i hne; simp at hl; subst hl; exact ⟨by simp, hne⟩

/-- what `collect_into_components` answers -/
def historySummary : List (Option Nat) → Except (RecordIterError ν) (Option Nat × Nat)
  | [] => .error .empty
  | h :: rest =>
    match lastOther h rest with
    | some later => .error (.inconsistentHistory h later)
    | none => .ok (h, rest.length + 1)

theorem collectHistories_eq (h : Option Nat) (rest : List (Option Nat))
    (err : Option (Option Nat × Option Nat)) :
    collectHistories rest (some h) err =
      (some h, match lastOther h rest with
               | some later => some (h, later)
               | none => err) := by
  induction rest generalizing err with
  | nil => simp [collectHistories, lastOther]
  | cons x xs ih =>
    simp only [collectHistories, lastOther]
    by_cases hx : h = x
    · subst hx
      simp only [if_true, ih]
      cases lastOther h xs <;> simp
    · have hx' : ¬ x = h := fun e => hx e.symm
      simp only [hx, if_false, ih, hx']
      cases lastOther h xs <;> simp

/-- `collect_into_components` never panics (its `history.unwrap()` is guarded by the emptiness
    test) and answers `historySummary` -/
theorem collectIntoComponents_eq (hs : List (Option Nat)) :
    collectIntoComponents (ν := ν) hs = .ok (historySummary hs) := by
  cases hs with
  | nil => simp [collectIntoComponents, collectHistories, historySummary]
  | cons h rest =>
    simp only [collectIntoComponents, collectHistories, collectHistories_eq, historySummary]
    cases lastOther h rest with
    | some later => simp
    | none => simp [unwrapC]

/-- `RecordTensor::from_iter` (repaired `Tensor::try_from`) in closed form -/
theorem recordTensorFromIter_eq (shape : Shape ν) (hs : List (Option Nat))
    (hn : hs.length ≤ usizeMax) :
    recordTensorFromIter Arith.fixed shape hs =
      match historySummary (ν := ν) hs with
      | .error e => .ok (.error e)
      | .ok (h, n) =>
        if n = elements shape ∧ isValidShape shape = true then
          .ok (.ok (h, { dataLen := n, shape := shape, strides := computeStrides shape }))
        else .ok (.error (.shape shape n)) := by
  simp only [recordTensorFromIter, collectIntoComponents_eq]
  cases hsum : historySummary (ν := ν) hs with
  | error e => rfl
  | ok p =>
    obtain ⟨h, n⟩ := p
    have hnle : n ≤ usizeMax := by
      cases hs with
      | nil => simp [historySummary] at hsum
      | cons x xs =>
        simp only [historySummary] at hsum
        split at hsum
        · simp at hsum
        · simp only [Except.ok.injEq, Prod.mk.injEq] at hsum
          simp only [List.length_cons] at hn
          omega
    simp only [tensorTryFrom_fixed_eq shape n hnle]
    by_cases hc : n = elements shape ∧ isValidShape shape = true
    · rw [if_pos hc, if_pos hc]
    · rw [if_neg hc, if_neg hc]

/-- `RecordMatrix::from_iter` (repaired) in closed form -/
theorem recordMatrixFromIter_eq (rows columns : Nat) (rn cn : ν) (hs : List (Option Nat)) :
    recordMatrixFromIter Arith.fixed rows columns rn cn hs =
      match historySummary (ν := ν) hs with
      | .error e => .ok (.error e)
      | .ok (h, n) =>
        if n = rows * columns ∧ rows * columns ≤ usizeMax then .ok (.ok (h, rows, columns))
        else .ok (.error (.shape [(rn, rows), (cn, columns)] n)) := by
  simp only [recordMatrixFromIter, collectIntoComponents_eq]
  cases hsum : historySummary (ν := ν) hs with
  | error e => rfl
  | ok p =>
    obtain ⟨h, n⟩ := p
    simp only [Arith.fixed]
    by_cases hle : rows * columns ≤ usizeMax
    · by_cases hn : n = rows * columns
      · simp [hle, hn]
      · have : ¬ rows * columns = n := fun e => hn e.symm
        simp [hle, hn, this]
    · simp [hle]

/-! ### the shape logic of the linear algebra entry points -/

theorem qrShape_eq (rows columns : Nat) (hr : 1 ≤ rows) :
    qrShape rows columns =
      .ok (if columns > rows then none else some ((rows, rows), (rows, columns))) := by
  simp only [qrShape]
  split
  · rfl
  · simp [csub_ok hr]

/-! ### glue for the composition theorem -/

theorem good_ok {r : Outcome (Except (RangeError ν) (TView ν))} {v : TView ν}
    (hg : GoodAnswer r) (h : r = .ok (.ok v)) : v.WF := by
  obtain ⟨a, ha, hm⟩ := hg
  rw [h] at ha
  simp only [Outcome.ok.injEq] at ha
  subst ha
  exact hm

theorem le_elements_of_mem {shape : Shape ν} (hpos : ∀ d ∈ shape, 1 ≤ d.2) :
    ∀ d ∈ shape, d.2 ≤ elements shape := by
  induction shape with
  | nil => simp
  | cons e rest ih =>
    intro d hd
    have hrest : 1 ≤ elements rest := by
      have := one_le_prod (l := rest.map (·.2)) (by
        intro x hx; simp only [List.mem_map] at hx; obtain ⟨y, hy, rfl⟩ := hx
        exact hpos y (by simp [hy]))
      simpa [elements] using this
    have he := hpos e (by simp)
    simp only [elements_cons]
    simp only [List.mem_cons] at hd
    rcases hd with rfl | hd
    · calc d.2 = d.2 * 1 := by simp
        _ ≤ d.2 * elements rest := Nat.mul_le_mul_left _ hrest
    · calc d.2 ≤ elements rest := ih (fun x hx => hpos x (by simp [hx])) d hd
        _ = 1 * elements rest := by simp
        _ ≤ e.2 * elements rest := Nat.mul_le_mul_right _ he

/-- a tensor accepted by `try_from` is a total view with a valid shape -/
theorem ofTensor_wf {shape : Shape ν} {n : Nat} {t : TensorMeta ν} (hn : n ≤ usizeMax)
    (h : tensorTryFrom Arith.fixed shape n = .ok (.ok t)) : (TView.ofTensor t).WF := by
  obtain ⟨htot, hshape⟩ := ofTensor_total hn h
  obtain ⟨_, hne, hv⟩ := tensorTryFrom_ok hn h
  obtain ⟨hnd, hpos⟩ := (isValidShape_iff shape).mp hv
  refine ⟨?_, htot⟩
  rw [hshape]
  exact ⟨hnd, fun d hd => ⟨hpos d hd, by
    have := le_elements_of_mem hpos d hd; omega⟩⟩

end EasyMl.Fallible
