/-
  EasyMl.Lemmas.RealBridge — over ℝ the formal derivative of the specification
  (`Prog.grad`, Spec/Prog.lean) is the analytic partial derivative, on the functions' domains.

  `RealFns ℝ` interprets `sqrt exp ln sin cos pow pi` as `Real.sqrt`, `Real.exp`, `Real.log`,
  `Real.sin`, `Real.cos`, `x ^ y` (`Real.rpow`), `Real.pi`.

  `Instr.Regular vs ins` — the instruction is differentiable at the point where it is evaluated:
  divisors are non-zero; `ln`, `sqrt` are taken away from 0; `x ^ y` with both operands varying
  has `0 < x`; `x ^ c` has `x ≠ 0 ∨ 1 ≤ c`; `c ^ x` has `0 < c`; a user function has the derivative
  it was handed over (`HasDerivAt` / `HasFDerivAt` at the evaluated point).
-/
import EasyMl.Spec.Prog
import EasyMl.Lemmas.Tape
import Mathlib.Analysis.SpecialFunctions.Pow.Deriv
import Mathlib.Analysis.SpecialFunctions.Sqrt
import Mathlib.Analysis.SpecialFunctions.Trigonometric.Deriv
import Mathlib.Analysis.SpecialFunctions.Log.Deriv
import Mathlib.Analysis.SpecialFunctions.ExpDeriv

namespace EasyMl
open Spec

noncomputable instance instRealFnsReal : RealFns ℝ where
  sqrt := Real.sqrt
  exp := Real.exp
  ln := Real.log
  sin := Real.sin
  cos := Real.cos
  pow := fun x y => x ^ y
  pi := Real.pi

namespace Spec

/-- the instruction is differentiable where it is evaluated (`vs`: values of the earlier ones) -/
def Instr.Regular (vs : List ℝ) : Instr ℝ → Prop
  | .arith .div _ b => vs.getD b 0 ≠ 0
  | .arithNum .div _ c => c ≠ 0
  | .swapped .div _ a => vs.getD a 0 ≠ 0
  | .real .ln a => vs.getD a 0 ≠ 0
  | .real .sqrt a => vs.getD a 0 ≠ 0
  | .pow a _ => 0 < vs.getD a 0
  | .powNum a c => vs.getD a 0 ≠ 0 ∨ 1 ≤ c
  | .numPow c _ => 0 < c
  | .unary f df a => HasDerivAt f (df (vs.getD a 0)) (vs.getD a 0)
  | .binary f dfx dfy a b =>
    HasFDerivAt (fun q : ℝ × ℝ => f q.1 q.2)
      (dfx (vs.getD a 0) (vs.getD b 0) • ContinuousLinearMap.fst ℝ ℝ ℝ
        + dfy (vs.getD a 0) (vs.getD b 0) • ContinuousLinearMap.snd ℝ ℝ ℝ)
      (vs.getD a 0, vs.getD b 0)
  | _ => True

/-- every instruction of the program is regular at the input point `env` -/
def Prog.RegularFrom (env : Nat → ℝ) : Prog ℝ → List ℝ → Prop
  | [], _ => True
  | ins :: rest, vs => ins.Regular vs ∧ Prog.RegularFrom env rest (vs ++ [ins.val env vs])

def Prog.Regular (env : Nat → ℝ) (p : Prog ℝ) : Prop := Prog.RegularFrom env p []

end Spec

/-- values of a prefix as functions of the `i`-th input, with their derivatives at `env i` -/
structure DInv (i : Nat) (env : Nat → ℝ) (vsx : ℝ → List ℝ) (ts : List ℝ) : Prop where
  len : ∀ x, (vsx x).length = ts.length
  der : ∀ k, HasDerivAt (fun x => (vsx x).getD k 0) (ts.getD k 0) (env i)

theorem hasDerivAt_sumList (e : ℝ) (fs : List (ℝ → ℝ)) (ds : List ℝ)
    (h : List.Forall₂ (fun f d => HasDerivAt f d e) fs ds) (g : ℝ → ℝ) (g' : ℝ)
    (hg : HasDerivAt g g' e) :
    HasDerivAt (fun x => (fs.map (· x)).foldl (· + ·) (g x)) (ds.foldl (· + ·) g') e := by
  induction h generalizing g g' with
  | nil => simpa using hg
  | cons hfd _ ih =>
    simp only [List.map_cons, List.foldl_cons]
    exact ih _ _ (hg.add hfd)

theorem instr_hasDerivAt (i : Nat) (env : Nat → ℝ) (vsx : ℝ → List ℝ) (ts : List ℝ)
    (hinv : DInv i env vsx ts) (ins : Instr ℝ) (hreg : ins.Regular (vsx (env i))) :
    HasDerivAt (fun x => ins.val (Function.update env i x) (vsx x))
      (ins.tan (unitSeed i) (vsx (env i)) ts) (env i) := by
  have hd := hinv.der
  cases ins with
  | const c => exact hasDerivAt_const _ _
  | var =>
    simp only [Instr.val, Instr.tan, hinv.len]
    by_cases hpos : ts.length = i
    · subst hpos
      simp only [Function.update_self, unitSeed, if_true]
      exact hasDerivAt_id _
    · have : unitSeed (R := ℝ) i ts.length = 0 := by simp [unitSeed, hpos]
      rw [this]
      simp only [Function.update_of_ne hpos]
      exact hasDerivAt_const _ _
  | arith o a b =>
    cases o
    · exact (hd a).add (hd b)
    · exact (hd a).sub (hd b)
    · exact (hd a).mul (hd b)
    · exact ((hd a).div (hd b) hreg).congr_deriv (by
        simp only [Instr.tan, Arith.tan]; rw [sq])
  | arithNum o a c =>
    cases o
    · exact ((hd a).add_const c).congr_deriv (by simp [Instr.tan, Arith.tan])
    · exact ((hd a).sub_const c).congr_deriv (by simp [Instr.tan, Arith.tan])
    · exact ((hd a).mul_const c).congr_deriv (by simp [Instr.tan, Arith.tan])
    · have hc : c ≠ 0 := hreg
      exact ((hd a).div_const c).congr_deriv (by
        simp only [Instr.tan, Arith.tan]; field_simp; ring)
  | swapped o c a =>
    cases o
    · exact ((hd a).const_sub c).congr_deriv (by simp [Instr.tan, Swapped.toArith, Arith.tan])
    · exact ((hasDerivAt_const (env i) c).div (hd a) hreg).congr_deriv (by
        simp only [Instr.tan, Swapped.toArith, Arith.tan]; rw [sq])
  | neg a => exact (hd a).neg
  | sum as =>
    have h2 : ∀ l : List Nat, List.Forall₂ (fun f d => HasDerivAt f d (env i))
        (l.map fun a => fun x => (vsx x).getD a 0) (l.map fun a => ts.getD a 0) := by
      intro l
      induction l with
      | nil => exact List.Forall₂.nil
      | cons a rest ih => exact List.Forall₂.cons (hd a) ih
    have := hasDerivAt_sumList (env i) _ _ (h2 as) (fun _ => 0) 0 (hasDerivAt_const _ _)
    simpa [Instr.val, Instr.tan, sumList, List.map_map, Function.comp_def] using this
  | real f a =>
    cases f
    · exact (hd a).sin
    · exact (hd a).cos
    · exact (hd a).exp
    · exact ((hd a).log hreg).congr_deriv (by
        show _ = 1 / _ * _
        ring)
    · exact ((hd a).sqrt hreg).congr_deriv (by
        show _ = 1 / ((1 + 1) * Real.sqrt _) * _
        rw [one_add_one_eq_two]
        ring)
  | pow a b =>
    exact ((hd a).rpow (hd b) hreg).congr_deriv (by
      show _ = _ * (_ ^ _) * _ + (_ ^ _) * Real.log _ * _
      ring)
  | powNum a c =>
    exact ((hd a).rpow_const (p := c) hreg).congr_deriv (by
      show _ = c * (_ ^ _) * _
      ring)
  | numPow c a =>
    exact ((hd a).const_rpow (a := c) hreg).congr_deriv (by
      show _ = (c ^ _) * Real.log c * _
      ring)
  | unary f df a =>
    have hf : HasDerivAt f (df ((vsx (env i)).getD a 0)) ((vsx (env i)).getD a 0) := hreg
    exact HasDerivAt.comp (env i) hf (hd a)
  | binary f dfx dfy a b =>
    have hF : HasFDerivAt (fun q : ℝ × ℝ => f q.1 q.2) _ _ := hreg
    have h := hF.comp_hasDerivAt (env i) ((hd a).prodMk (hd b))
    have e : (dfx ((vsx (env i)).getD a 0) ((vsx (env i)).getD b 0) • ContinuousLinearMap.fst ℝ ℝ ℝ
        + dfy ((vsx (env i)).getD a 0) ((vsx (env i)).getD b 0) • ContinuousLinearMap.snd ℝ ℝ ℝ)
          (ts.getD a 0, ts.getD b 0)
        = Instr.tan (unitSeed i) (vsx (env i)) ts (Instr.binary f dfx dfy a b) := by
      simp only [Instr.tan, ContinuousLinearMap.add_apply, ContinuousLinearMap.smul_apply,
        ContinuousLinearMap.coe_fst', ContinuousLinearMap.coe_snd', smul_eq_mul]
    exact h.congr_deriv e

theorem DInv.snoc {i : Nat} {env : Nat → ℝ} {vsx : ℝ → List ℝ} {ts : List ℝ}
    (hinv : DInv i env vsx ts) (f : ℝ → ℝ) (t : ℝ) (hf : HasDerivAt f t (env i)) :
    DInv i env (fun x => vsx x ++ [f x]) (ts ++ [t]) := by
  refine ⟨fun x => by simp [hinv.len x], fun k => ?_⟩
  by_cases hlt : k < ts.length
  · have : (fun x => (vsx x ++ [f x]).getD k 0) = fun x => (vsx x).getD k 0 := by
      funext x; exact getD_append_lt _ _ _ (by rw [hinv.len x]; exact hlt) _
    rw [this, getD_append_lt _ _ _ hlt]
    exact hinv.der k
  · by_cases heq : k = ts.length
    · subst heq
      have : (fun x => (vsx x ++ [f x]).getD ts.length 0) = f := by
        funext x
        have := getD_append_length (vsx x) (f x) 0
        rwa [hinv.len x] at this
      rw [this, getD_append_length]
      exact hf
    · have : (fun x => (vsx x ++ [f x]).getD k 0) = fun _ => 0 := by
        funext x; exact getD_of_le _ _ (by simp [hinv.len x]; omega) _
      rw [this, getD_of_le _ _ (by simp; omega)]
      exact hasDerivAt_const _ _

theorem prog_hasDerivAt (i : Nat) (env : Nat → ℝ) (p : Prog ℝ) :
    ∀ (vsx : ℝ → List ℝ) (ts : List ℝ), DInv i env vsx ts →
      Prog.RegularFrom env p (vsx (env i)) →
      DInv i env (fun x => Prog.evalFrom (Function.update env i x) p (vsx x))
        (Prog.tangentsFrom env (unitSeed i) p (vsx (env i)) ts).2 := by
  induction p with
  | nil => intro vsx ts h _; exact h
  | cons ins rest ih =>
    intro vsx ts h hreg
    obtain ⟨hr1, hr2⟩ := hreg
    simp only [Prog.evalFrom, Prog.tangentsFrom]
    have hstep := h.snoc _ _ (instr_hasDerivAt i env vsx ts h ins hr1)
    have := ih _ _ hstep (by simpa [Function.update_eq_self] using hr2)
    simpa [Function.update_eq_self] using this

end EasyMl
