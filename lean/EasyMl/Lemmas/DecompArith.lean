/-
  EasyMl.Lemmas.DecompArith — the matrix product used by the decomposition and Gaussian models
  (`Decomp.matMul`) is C03's model of `Matrix * Matrix` (`Arith.mMatMul` on `MatrixRef` views):
  the composition theorems of `Props/C08.lean` / `Props/C17.lean` are stated with C03's model.
-/
import EasyMl.Lemmas.Decomp
import EasyMl.Lemmas.Arith
import EasyMl.Lemmas.MatrixResize

namespace EasyMl.Decomp
open EasyMl.Arith
set_option linter.unusedSectionVars false

section c03
variable {α : Type} [Add α] [Mul α] [Zero α]

theorem dot_of_scalarProduct {a b : List α} {x : α} (h : scalarProduct a b = some x) : dot a b = x := by
  unfold scalarProduct at h
  unfold dot
  split at h
  · cases h
  · next p ps hz => rw [hz]; simpa using h

theorem flatMap_range_eq_ofFn_data' (r c : ℕ) (f : ℕ → ℕ → α) :
    ((List.range r).flatMap fun i => (List.range c).map fun j => f i j) = (ofFn r c f).data := by
  unfold ofFn
  simp only []
  induction r with
  | zero => simp
  | succ r ih =>
    rw [List.range_succ, List.flatMap_append, ih]
    simp only [List.flatMap_cons, List.flatMap_nil, List.append_nil]
    rw [show (r + 1) * c = r * c + c by rw [Nat.add_mul, Nat.one_mul], List.range_add, List.map_append,
      List.map_map]
    congr 1
    apply List.map_congr_left
    intro t ht
    have htc : t < c := List.mem_range.mp ht
    have hc : 0 < c := by omega
    simp only [Function.comp]
    rw [Nat.add_comm (r * c) t, Nat.add_mul_div_right _ _ hc, Nat.add_mul_mod_self_right,
      Nat.div_eq_of_lt htc, Nat.mod_eq_of_lt htc, Nat.zero_add]

theorem ofMatrix_hasEntries {n m : ℕ} {M : Matrix α} (h : Shaped n m M) :
    (MView.ofMatrix M).HasEntries (get M) := by
  intro i j hi hj
  obtain ⟨h1, h2, h3⟩ := h
  simp only [MView.ofMatrix] at hi hj ⊢
  unfold Matrix.tryGet get
  rw [if_pos ⟨hi, hj⟩]
  have hlt : M.getIndex i j < M.data.length := by
    rw [h3, Matrix.getIndex, h2]; exact idx_lt (by omega) (by omega)
  rw [List.getD_eq_getElem?_getD, List.getElem?_eq_getElem hlt]
  rfl

/-- **The matrix product of the decomposition model is C03's model of `Matrix * Matrix`**: for
    operands of matching, non-empty shapes, C03's `mMatMul` on the two matrices (as `MatrixRef`
    views) returns exactly `Decomp.matMul` — same cells, same reduction order, any element type. -/
theorem matMul_eq_C03 {n m k : ℕ} {l r : Matrix α} (hl : Shaped n (m + 1) l) (hr : Shaped (m + 1) k r)
    (hn : 1 ≤ n) (hk : 1 ≤ k) :
    mMatMul (MView.ofMatrix l) (MView.ofMatrix r) = .ok (matMul l r) := by
  have h := mMatMul_eq (l := MView.ofMatrix l) (r := MView.ofMatrix r) (n := m)
    (by simp [MView.ofMatrix, hl.2.1]) (by simp [MView.ofMatrix, hr.1])
    (by simp [MView.ofMatrix, hl.1]; omega) (by simp [MView.ofMatrix, hr.2.1]; omega)
    (ofMatrix_hasEntries hl) (ofMatrix_hasEntries hr)
  rw [h]
  congr 1
  unfold matMul
  simp only [MView.ofMatrix]
  have hcell : ∀ i j, dot (row l i) (col r j) = leftSum (fun p => get l i p * get r p j) m := by
    intro i j
    apply dot_of_scalarProduct
    unfold row col
    rw [hl.2.1, hr.1]
    exact scalarProduct_range (fun p => get l i p) (fun p => get r p j) m
  simp only [hcell]
  have := flatMap_range_eq_ofFn_data' l.rows r.columns
    (fun i j => leftSum (fun p => get l i p * get r p j) m)
  rw [this]
  rfl

end c03

/-- the transposed factor, cell by cell -/
def transposeM {α : Type} [Zero α] (M : Matrix α) : Matrix α :=
  ofFn M.columns M.rows fun i j => get M j i

section c11
variable {α : Type} [Add α] [Mul α] [Zero α]

theorem tryGet_eq_get {n m : ℕ} {M : Matrix α} (h : Shaped n m M) {i j : ℕ} (hi : i < n) (hj : j < m) :
    M.tryGet i j = some (get M i j) := by
  have := ofMatrix_hasEntries h i j (by simpa [MView.ofMatrix, h.1] using hi)
    (by simpa [MView.ofMatrix, h.2.1] using hj)
  simpa [MView.ofMatrix] using this

/-- **C11's model of `Matrix::transpose`** (`from_fn((columns, rows), |(c, r)| self.get(r, c))`) on
    a matrix satisfying the invariant is the cell-wise transpose `transposeM`. -/
theorem transposeP_eq_transposeM (M : Matrix α) (h : M.Inv) :
    M.transposeP = .ok (transposeM M) := by
  rw [Matrix.transposeP_spec M h, Matrix.transpose_toRows M h]
  congr 1
  have hsh : Shaped M.rows M.columns M := ⟨rfl, rfl, h.1⟩
  unfold Matrix.ofRows transposeM
  have hrows : (List.map (fun c => List.filterMap (fun r => M.tryGet r c) (List.range M.rows))
      (List.range M.columns))
      = (List.range M.columns).map fun c => (List.range M.rows).map fun r => get M r c := by
    apply List.map_congr_left
    intro c hc
    exact filterMap_range_some M.rows _ (fun r => get M r c)
      (fun r hr => tryGet_eq_get hsh hr (List.mem_range.mp hc))
  rw [hrows]
  have hdata := flatMap_range_eq_ofFn_data' M.columns M.rows (fun i j => get M j i)
  simp only [ofFn] at hdata ⊢
  rw [Matrix.mk.injEq]
  refine ⟨?_, by simp, rfl⟩
  rw [← hdata, List.flatMap_def]

end c11

end EasyMl.Decomp
