/-
  EasyMl.Lemmas.NaturalDual — what the polynomial routines compute over dual numbers
  (`Trace<T>`, `Record<T>` by directional derivative, user-defined dual types).

  For a commutative ring `R` three maps commute with `0 1 + − ×`:
    * `Dual.number : Dual R → R`                      (forget the derivative part)
    * `polyToDual : R[X] → Dual R`, `p ↦ ⟨p(0), p′(0)⟩`   (truncate at `X²`)
    * `Polynomial.eval t : R[X] → R`
  Feeding a routine that is natural for such maps with the lines `a + X·a′` therefore gives ONE
  polynomial `P` with: the routine over the duals `⟨a, a′⟩` is `⟨P(0), P′(0)⟩`, and the routine over
  `R` at `a + t·a′` is `P(t)` for every `t` — i.e. the derivative part is the directional derivative.
-/
import Mathlib.Algebra.Polynomial.Derivative
import Mathlib.Analysis.Calculus.Deriv.Polynomial
import EasyMl.Lemmas.Natural

namespace EasyMl.Natural
open EasyMl Polynomial

set_option linter.unusedSectionVars false

section
variable {R : Type} [CommRing R] [Div R]

theorem number_opsHom : OpsHom (Dual.number : Dual R → R) :=
  ⟨rfl, rfl, fun _ _ => rfl, fun _ _ => rfl, fun _ _ => rfl⟩

/-- truncation of a polynomial at `X²`: value and first derivative at `0` -/
noncomputable def polyToDual (p : R[X]) : Dual R := ⟨p.eval 0, (derivative p).eval 0⟩

theorem polyToDual_opsHom : OpsHom (polyToDual : R[X] → Dual R) := by
  refine ⟨?_, ?_, ?_, ?_, ?_⟩
  · show polyToDual 0 = Dual.constant 0
    simp [polyToDual, Dual.constant]
  · show polyToDual 1 = Dual.constant 1
    simp [polyToDual, Dual.constant]
  · intro a b
    show polyToDual (a + b) = Dual.add (polyToDual a) (polyToDual b)
    simp [polyToDual, Dual.add]
  · intro a b
    show polyToDual (a - b) = Dual.sub (polyToDual a) (polyToDual b)
    simp [polyToDual, Dual.sub]
  · intro a b
    show polyToDual (a * b) = Dual.mul (polyToDual a) (polyToDual b)
    simp [polyToDual, Dual.mul, derivative_mul]

theorem eval_opsHom (t : R) : OpsHom (Polynomial.eval t : R[X] → R) :=
  ⟨eval_zero, eval_one, fun _ _ => eval_add, fun p q => eval_sub p q t, fun _ _ => eval_mul⟩

/-- counts as dual numbers: constants (`FromUsize for Trace`) -/
@[reducible] def dualNatCast {S : Type} [NatCast S] [Zero S] : NatCast (Dual S) := ⟨fun n => Dual.constant (n : S)⟩

attribute [local instance] dualNatCast

/-- `Dual.number` also commutes with division and counts -/
theorem number_fieldHom {S : Type} [Add S] [Sub S] [Mul S] [Div S] [Neg S] [Zero S] [One S] [NatCast S] :
    FieldHom (Dual.number : Dual S → S) :=
  { zero := rfl, one := rfl, add := fun _ _ => rfl, sub := fun _ _ => rfl, mul := fun _ _ => rfl,
    div := fun _ _ => rfl, natCast := fun _ => rfl }

/-- the line `a + X·a′` -/
noncomputable def line (a a' : R) : R[X] := C a + X * C a'

theorem polyToDual_line (a a' : R) : polyToDual (line a a') = ⟨a, a'⟩ := by
  simp [polyToDual, line]

theorem eval_line (t a a' : R) : (line a a').eval t = a + t * a' := by
  simp only [line, eval_add, eval_C, eval_mul, eval_X]

end

/-- Over `ℝ`: the derivative part of the Leibniz determinant over dual numbers is the derivative at
    `0` of `t ↦ det (A + t·A′)`. -/
theorem detModel_dual_deriv (n : ℕ) (a a' : ℕ → ℕ → ℝ) :
    (Det.detModel n (fun i j => (⟨a i j, a' i j⟩ : Dual ℝ))).derivative =
      deriv (fun t : ℝ => Det.detModel n (fun i j => a i j + t * a' i j)) 0 := by
  have hP := detModel_hom (polyToDual_opsHom (R := ℝ)) n (fun i j => line (a i j) (a' i j))
  simp only [polyToDual_line] at hP
  have hE : ∀ t : ℝ, Det.detModel n (fun i j => a i j + t * a' i j) =
      (Det.detModel n (fun i j => line (a i j) (a' i j))).eval t := by
    intro t
    have := detModel_hom (eval_opsHom (R := ℝ) t) n (fun i j => line (a i j) (a' i j))
    simp only [eval_line] at this
    exact this.symm
  rw [← hP]
  simp only [polyToDual]
  rw [show (fun t : ℝ => Det.detModel n (fun i j => a i j + t * a' i j)) =
      fun t => (Det.detModel n (fun i j => line (a i j) (a' i j))).eval t from funext hE]
  rw [Polynomial.deriv]

/-- … and of the scalar product -/
theorem dot_dual_deriv (xs xs' ys ys' : List ℝ) :
    (Decomp.dot (List.zipWith (fun v d => (⟨v, d⟩ : Dual ℝ)) xs xs')
        (List.zipWith (fun v d => (⟨v, d⟩ : Dual ℝ)) ys ys')).derivative =
      deriv (fun t : ℝ => Decomp.dot (List.zipWith (fun v d => v + t * d) xs xs')
        (List.zipWith (fun v d => v + t * d) ys ys')) 0 := by
  let px := List.zipWith line xs xs'
  let py := List.zipWith line ys ys'
  have hmapD : ∀ (l l' : List ℝ), (List.zipWith line l l').map polyToDual =
      List.zipWith (fun v d => (⟨v, d⟩ : Dual ℝ)) l l' := by
    intro l l'
    rw [List.map_zipWith]
    congr 1; funext v d; exact polyToDual_line v d
  have hmapE : ∀ (t : ℝ) (l l' : List ℝ), (List.zipWith line l l').map (Polynomial.eval t) =
      List.zipWith (fun v d => v + t * d) l l' := by
    intro t l l'
    rw [List.map_zipWith]
    congr 1; funext v d; exact eval_line t v d
  have hP := dot_hom (polyToDual_opsHom (R := ℝ)) px py
  rw [hmapD, hmapD] at hP
  have hE : ∀ t : ℝ, Decomp.dot (List.zipWith (fun v d => v + t * d) xs xs')
      (List.zipWith (fun v d => v + t * d) ys ys') = (Decomp.dot px py).eval t := by
    intro t
    have := dot_hom (eval_opsHom (R := ℝ) t) px py
    rw [hmapE, hmapE] at this
    exact this.symm
  rw [← hP]
  simp only [polyToDual]
  rw [funext hE, Polynomial.deriv]

end EasyMl.Natural
