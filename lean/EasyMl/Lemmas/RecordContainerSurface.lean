/-
  EasyMl.Lemmas.RecordContainerSurface — helper lemmas for the rest of the container surface
  (Model/RecordContainerSurface.lean): the container as a source, `AsRecords` over the C09
  iterators.  Names live in `EasyMl.RC`.
-/
import EasyMl.Model.RecordContainerSurface
import EasyMl.Lemmas.RecordContainer
import EasyMl.Lemmas.Iter

namespace EasyMl.RC
open EasyMl EasyMl.Iter EasyMl.Spec

set_option linter.unusedSectionVars false
set_option linter.unusedSimpArgs false

section Source
variable {R : Type}

/-- the row-major position of an index: in bounds ⇒ `ravel`, otherwise `none` -/
theorem position_eq (shape : Shape String) (idx : List Nat) :
    Cont.position shape idx =
      if inBounds (shape.map (·.2)) idx then some (ravel (shape.map (·.2)) idx) else none := by
  unfold Cont.position
  by_cases hlen : idx.length = shape.length
  · simp only [hlen, ne_eq, not_true_eq_false, if_false, getIndexDirect]
    rw [getIndexDirectGo_eq shape idx 0 hlen]
    simp
  · simp only [ne_eq, hlen, not_false_eq_true, if_true]
    have : inBounds (shape.map (·.2)) idx = false := by
      cases hb : inBounds (shape.map (·.2)) idx with
      | false => rfl
      | true => exact absurd (by simpa using inBounds_length _ _ hb) hlen
    simp [this]

/-- the `k`-th index of the iteration designates the `k`-th element -/
theorem getReference_unravel (c : Cont R) (k : Nat) (hk : k < elements c.shape) :
    c.getReference (unravel (c.shape.map (·.2)) k) = c.elems[k]? := by
  unfold Cont.getReference
  rw [position_eq]
  have hk' : k < prod (c.shape.map (·.2)) := hk
  simp [unravel_inBounds _ k hk', ravel_unravel _ k hk']

theorem getReference_some_iff (c : Cont R) (hlen : c.elems.length = elements c.shape) (idx : List Nat) :
    (c.getReference idx).isSome = inBounds (c.shape.map (·.2)) idx := by
  unfold Cont.getReference
  rw [position_eq]
  cases hb : inBounds (c.shape.map (·.2)) idx with
  | false => simp
  | true =>
    have : ravel (c.shape.map (·.2)) idx < c.elems.length := by
      rw [hlen]; exact ravel_lt _ idx hb
    simp [this]

/-- a matrix shape: the position of `(row, column)` -/
theorem position_matrix (rn cn : String) (r k i j : Nat) :
    Cont.position [(rn, r), (cn, k)] [i, j] = if i < r ∧ j < k then some (i * k + j) else none := by
  rw [position_eq]
  by_cases hi : i < r <;> by_cases hj : j < k <;> simp [inBounds, ravel, hi, hj, prod]

end Source

section AsRecords
variable {R σ π : Type}

/-- `AsRecords` over an enumerating iterator enumerates the records of its items, with the very
    same states (so every `size_hint` is the underlying iterator's) -/
theorem asRecords_enumerates {next : σ → Outcome (Option (Option (R × Nat)) × σ)} {s0 : σ} {total : Nat}
    {item : Nat → Option (Option (R × Nat))} {state : Nat → σ}
    (E : Enumerates next s0 total item state) (h : Option Nat) :
    Enumerates (Cont.asRecordsNext h next) s0 total
      (fun k => (item k).map fun e => e.map fun e => Rec.fromExisting e h) state where
  start := E.start
  step k := by simp [Cont.asRecordsNext, E.step k]
  some_iff k := by simpa using E.some_iff k

theorem asRecordsWithIndex_enumerates {next : σ → Outcome (Option (π × Option (R × Nat)) × σ)} {s0 : σ}
    {total : Nat} {item : Nat → Option (π × Option (R × Nat))} {state : Nat → σ}
    (E : Enumerates next s0 total item state) (h : Option Nat) :
    Enumerates (Cont.asRecordsWithIndexNext h next) s0 total
      (fun k => (item k).map fun p => (p.1, p.2.map fun e => Rec.fromExisting e h)) state where
  start := E.start
  step k := by simp [Cont.asRecordsWithIndexNext, E.step k]
  some_iff k := by simpa using E.some_iff k

/-- two enumerations with pointwise equal items -/
theorem enumerates_congr {β : Type} {next : σ → Outcome (Option β × σ)} {s0 : σ} {total : Nat}
    {item item' : Nat → Option β} {state : Nat → σ}
    (E : Enumerates next s0 total item state) (h : ∀ k, item k = item' k) :
    Enumerates next s0 total item' state := by
  have : item = item' := funext h
  rw [← this]; exact E

theorem toRecs_getElem? (c : Cont R) (k : Nat) :
    c.toRecs[k]? = (c.elems[k]?).map fun e => Rec.fromExisting e c.history := by
  simp [Cont.toRecs, Rec.fromExisting]

end AsRecords

end EasyMl.RC
