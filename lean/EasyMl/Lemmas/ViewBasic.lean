/-
  EasyMl.Lemmas.ViewBasic — induction principle for `View`, and list-level facts about bounds
  checks (`inBounds`), valid shapes and duplicate detection used by all C02 lemmas.
-/
import EasyMl.Spec.View
import EasyMl.Lemmas.Tensor

namespace EasyMl
open EasyMl.Spec

set_option linter.unusedSectionVars false

variable {ν : Type} [DecidableEq ν] [Inhabited ν] {α : Type}

/-- Structural induction over views; the sources of a stack / chain give one hypothesis per
    member of the list, so the principle covers compositions of any depth and width. -/
theorem View.ind {P : View ν α → Prop}
    (tensor : ∀ id t, P (.tensor id t))
    (matrix : ∀ id m r c, P (.matrix id m r c))
    (matrixOf : ∀ s r c, P s → P (.matrixOf s r c))
    (mrange : ∀ s rows columns, P s → P (.mrange s rows columns))
    (mreverse : ∀ s rows columns, P s → P (.mreverse s rows columns))
    (tmap : ∀ s, P s → P (.tmap s))
    (range : ∀ s rs, P s → P (.range s rs))
    (mask : ∀ s ms, P s → P (.mask s ms))
    (index : ∀ s p, P s → P (.index s p))
    (expansion : ∀ s e, P s → P (.expansion s e))
    (rename : ∀ s ns, P s → P (.rename s ns))
    (reverse : ∀ s r, P s → P (.reverse s r))
    (access : ∀ s m, P s → P (.access s m))
    (transpose : ∀ s m, P s → P (.transpose s m))
    (stack : ∀ ss along, (∀ s ∈ ss, P s) → P (.stack ss along))
    (chain : ∀ ss along, (∀ s ∈ ss, P s) → P (.chain ss along)) : ∀ v, P v := by
  intro v
  induction v using View.rec (motive_2 := fun ss => ∀ s ∈ ss, P s) with
  | tensor id t => exact tensor id t
  | matrix id m r c => exact matrix id m r c
  | matrixOf s r c ih => exact matrixOf s r c ih
  | mrange s rows columns ih => exact mrange s rows columns ih
  | mreverse s rows columns ih => exact mreverse s rows columns ih
  | tmap s ih => exact tmap s ih
  | range s rs ih => exact range s rs ih
  | mask s rs ih => exact mask s rs ih
  | index s rs ih => exact index s rs ih
  | expansion s rs ih => exact expansion s rs ih
  | rename s rs ih => exact rename s rs ih
  | reverse s rs ih => exact reverse s rs ih
  | access s rs ih => exact access s rs ih
  | transpose s rs ih => exact transpose s rs ih
  | stack ss along ih => exact stack ss along ih
  | chain ss along ih => exact chain ss along ih
  | nil => rename_i s hs; cases hs
  | cons v vs ihv ihvs =>
    rename_i s hs
    cases hs with
    | head => exact ihv
    | tail _ h => exact ihvs s h

/-! ### `inBounds` -/

@[simp] theorem inBounds_nil_nil : inBounds [] [] = true := rfl
@[simp] theorem inBounds_cons_cons (l c : Nat) (ls cs : List Nat) :
    inBounds (l :: ls) (c :: cs) = (decide (c < l) && inBounds ls cs) := rfl
@[simp] theorem inBounds_nil_cons (c : Nat) (cs : List Nat) : inBounds [] (c :: cs) = false := rfl
@[simp] theorem inBounds_cons_nil (l : Nat) (ls : List Nat) : inBounds (l :: ls) [] = false := rfl

theorem inBounds_length {ls cs : List Nat} (h : inBounds ls cs = true) : cs.length = ls.length := by
  induction ls generalizing cs with
  | nil => cases cs <;> simp_all
  | cons l ls ih =>
    cases cs with
    | nil => simp at h
    | cons c cs => simp at h; simp [ih h.2]

/-- index-wise characterisation of the bounds check -/
theorem inBounds_iff {ls cs : List Nat} :
    inBounds ls cs = true ↔ cs.length = ls.length ∧ ∀ d, d < ls.length → cs.getD d 0 < ls.getD d 0 := by
  induction ls generalizing cs with
  | nil => cases cs <;> simp
  | cons l ls ih =>
    cases cs with
    | nil => simp
    | cons c cs =>
      simp only [inBounds_cons_cons, Bool.and_eq_true, decide_eq_true_eq, ih, List.length_cons,
        Nat.add_right_cancel_iff]
      constructor
      · rintro ⟨h0, hl, hr⟩
        refine ⟨hl, ?_⟩
        intro d hd
        cases d with
        | zero => simpa using h0
        | succ d => simpa using hr d (by omega)
      · rintro ⟨hl, hr⟩
        refine ⟨by simpa using hr 0 (by omega), hl, ?_⟩
        intro d hd
        simpa using hr (d + 1) (by omega)

/-- every coordinate at most `usize::MAX` -/
def Bounded (idx : List Nat) : Prop := ∀ i ∈ idx, i ≤ usizeMax

@[simp] theorem bounded_nil : Bounded [] := by simp [Bounded]
@[simp] theorem bounded_cons (i : Nat) (is : List Nat) :
    Bounded (i :: is) ↔ i ≤ usizeMax ∧ Bounded is := by simp [Bounded]

theorem Bounded.getD {idx : List Nat} (h : Bounded idx) (d : Nat) : idx.getD d 0 ≤ usizeMax := by
  by_cases hd : d < idx.length
  · simp only [List.getD_eq_getElem?_getD, List.getElem?_eq_getElem hd, Option.getD_some]
    exact h _ (List.getElem_mem hd)
  · simp only [List.getD_eq_getElem?_getD, List.getElem?_eq_none (by omega : idx.length ≤ d),
      Option.getD_none]
    omega

/-- in-bounds coordinates of a grid with sides `≤ usize::MAX` are bounded -/
theorem bounded_of_inBounds {ls cs : List Nat} (h : inBounds ls cs = true)
    (hl : ∀ l ∈ ls, l ≤ usizeMax) : Bounded cs := by
  induction ls generalizing cs with
  | nil => cases cs <;> simp_all
  | cons l ls ih =>
    cases cs with
    | nil => simp at h
    | cons c cs =>
      simp at h
      have := hl l (by simp)
      simp only [bounded_cons]
      exact ⟨by omega, ih h.2 (fun x hx => hl x (by simp [hx]))⟩

/-! ### Shapes -/

/-- a shape the trait contract allows whose lengths also fit in `usize` -/
def GoodShape (shape : Shape ν) : Prop := ValidShape shape ∧ ∀ d ∈ shape, d.2 ≤ usizeMax

@[simp] theorem lens_nil : lens ([] : Shape ν) = [] := rfl
@[simp] theorem lens_cons (d : ν × Nat) (ds : Shape ν) : lens (d :: ds) = d.2 :: lens ds := rfl
@[simp] theorem namesOf_nil : namesOf ([] : Shape ν) = [] := rfl
@[simp] theorem namesOf_cons (d : ν × Nat) (ds : Shape ν) : namesOf (d :: ds) = d.1 :: namesOf ds := rfl
@[simp] theorem lens_length (s : Shape ν) : (lens s).length = s.length := by simp [lens]
@[simp] theorem namesOf_length (s : Shape ν) : (namesOf s).length = s.length := by simp [namesOf]

theorem validShape_cons {d : ν × Nat} {ds : Shape ν} :
    ValidShape (d :: ds) ↔ d.1 ∉ namesOf ds ∧ 1 ≤ d.2 ∧ ValidShape ds := by
  simp only [ValidShape, List.map_cons, List.nodup_cons, List.mem_cons, forall_eq_or_imp, namesOf]
  constructor
  · rintro ⟨⟨h1, h2⟩, h3, h4⟩; exact ⟨h1, h3, h2, h4⟩
  · rintro ⟨h1, h3, h2, h4⟩; exact ⟨⟨h1, h2⟩, h3, h4⟩

theorem goodShape_cons {d : ν × Nat} {ds : Shape ν} :
    GoodShape (d :: ds) ↔ d.1 ∉ namesOf ds ∧ 1 ≤ d.2 ∧ d.2 ≤ usizeMax ∧ GoodShape ds := by
  simp only [GoodShape, validShape_cons, List.mem_cons, forall_eq_or_imp]
  constructor
  · rintro ⟨⟨h1, h2, h3⟩, h4, h5⟩; exact ⟨h1, h2, h4, h3, h5⟩
  · rintro ⟨h1, h2, h4, h3, h5⟩; exact ⟨⟨h1, h2, h3⟩, h4, h5⟩

theorem goodShape_nil : GoodShape ([] : Shape ν) := by simp [GoodShape, ValidShape]

theorem GoodShape.lens_le {s : Shape ν} (h : GoodShape s) : ∀ l ∈ lens s, l ≤ usizeMax := by
  intro l hl
  simp only [lens, List.mem_map] at hl
  obtain ⟨d, hd, rfl⟩ := hl
  exact h.2 d hd

theorem GoodShape.lens_pos {s : Shape ν} (h : GoodShape s) : ∀ l ∈ lens s, 1 ≤ l := by
  intro l hl
  simp only [lens, List.mem_map] at hl
  obtain ⟨d, hd, rfl⟩ := hl
  exact h.1.2 d hd

/-- a shape is good iff its names are distinct and its lengths lie in `1..=usize::MAX` -/
theorem goodShape_iff {s : Shape ν} :
    GoodShape s ↔ (namesOf s).Nodup ∧ ∀ l ∈ lens s, 1 ≤ l ∧ l ≤ usizeMax := by
  induction s with
  | nil => simp [goodShape_nil]
  | cons d ds ih =>
    simp only [goodShape_cons, ih, namesOf_cons, List.nodup_cons, lens_cons, List.mem_cons,
      forall_eq_or_imp]
    constructor
    · rintro ⟨h1, h2, h3, h4, h5⟩; exact ⟨⟨h1, h4⟩, ⟨h2, h3⟩, h5⟩
    · rintro ⟨⟨h1, h4⟩, ⟨h2, h3⟩, h5⟩; exact ⟨h1, h2, h3, h4, h5⟩

/-! ### `has_duplicates` -/

theorem hasDuplicates_eq_false {l : List ν} : hasDuplicates l = false ↔ l.Nodup := by
  induction l with
  | nil => simp [hasDuplicates]
  | cons x xs ih =>
    simp only [hasDuplicates, Bool.or_eq_false_iff, ih, List.nodup_cons]
    constructor
    · rintro ⟨h1, h2⟩; exact ⟨by simpa using h1, h2⟩
    · rintro ⟨h1, h2⟩; exact ⟨by simpa using h1, h2⟩

theorem isValidShape_iff {s : Shape ν} : isValidShape s = true ↔ ValidShape s := by
  simp only [isValidShape, Bool.and_eq_true, Bool.not_eq_true', hasDuplicates_eq_false, ValidShape,
    namesOf]
  constructor
  · rintro ⟨h1, h2⟩
    refine ⟨h1, ?_⟩
    intro d hd
    rw [List.any_eq_false] at h2
    have := h2 d hd
    simp at this
    omega
  · rintro ⟨h1, h2⟩
    refine ⟨h1, ?_⟩
    rw [List.any_eq_false]
    intro d hd
    have := h2 d hd
    simp
    omega

end EasyMl
