/-
  EasyMl.Lemmas.TapeWorld — facts about tapes in a world of several tapes, for *arbitrary*
  states (stale records, foreign tapes): positions handed out, length of derivative vectors,
  clear/reset versus a fresh tape, rejection of cross-tape operands.
-/
import EasyMl.Lemmas.TapeProg

namespace EasyMl
open Spec

set_option linter.unusedSectionVars false

variable {R : Type} [CommRing R] [Div R] [RealFns R]

/-! ### worlds -/

theorem World.update_update (w : World R) (t : Nat) (a b : Tape R) :
    (w.update t a).update t b = w.update t b := by
  funext j; simp only [World.update]; split <;> rfl

theorem World.update_self (w : World R) (t : Nat) : w.update t (w t) = w := by
  funext j; simp only [World.update]; split
  · rename_i h; rw [h]
  · rfl

/-! ### length of the derivative vector -/

theorem accumulate_length (d : List R) (p : Nat) (x : R) (d' : List R)
    (h : accumulate d p x = .ok d') : d'.length = d.length := by
  unfold accumulate at h
  split at h
  · cases h; simp
  · cases h

theorem sweepEntry_length (op : Op R) (i : Nat) (d d' : List R) (h : sweepEntry op i d = .ok d') :
    d'.length = d.length := by
  unfold sweepEntry at h
  split at h
  · simp only at h
    -- the left accumulation (or its skip)
    have hl : ∀ d1, (if op.leftParent = i then Outcome.ok d
        else accumulate d op.leftParent (d[i] * op.leftDerivative)) = .ok d1 →
        d1.length = d.length := by
      intro d1 h1
      split at h1
      · cases h1; rfl
      · exact accumulate_length _ _ _ _ h1
    split at h
    · rename_i d1 h1
      have := hl d1 h1
      split at h
      · cases h; exact this
      · rw [accumulate_length _ _ _ _ h, this]
    · cases h
  · cases h

theorem sweepFrom_length (ops : Tape R) (k : Nat) : ∀ (d d' : List R),
    sweepFrom ops k d = .ok d' → d'.length = d.length := by
  induction k with
  | zero => intro d d' h; simp only [sweepFrom] at h; cases h; rfl
  | succ i ih =>
    intro d d' h
    simp only [sweepFrom] at h
    split at h
    · cases h
    · split at h
      · rename_i d1 h1
        rw [ih _ _ h, sweepEntry_length _ _ _ _ h1]
      · cases h

/-- on *any* tape (well formed or not): a sweep that returns, returns one entry per tape entry -/
theorem reverseSweep_length (ops : Tape R) (y : Nat) (d : List R)
    (h : reverseSweep ops y = .ok d) : d.length = ops.length := by
  unfold reverseSweep at h
  simp only at h
  split at h
  · rw [sweepFrom_length _ _ _ _ h]; simp
  · cases h

/-! ### positions -/

/-- a step result that only appended `ext` to tape `t` -/
def AppendsTo (w w' : World R) (t : Nat) (ext : Tape R) : Prop := w' = w.update t (w t ++ ext)

theorem unary_position (a : Rec R) (F D : R → R) (w : World R) :
    (a.history = none ∧ a.unary F D w = (Rec.constant (F a.number), w)) ∨
    (∃ t, a.history = some t ∧ ∃ e, a.unary F D w = (⟨F a.number, some t, (w t).length⟩, w.update t (w t ++ [e]))) := by
  cases ha : a.history with
  | none => exact Or.inl ⟨rfl, by simp [Rec.unary, ha]⟩
  | some t =>
    refine Or.inr ⟨t, rfl, ⟨a.index, (w t).length, D a.number, 0⟩, ?_⟩
    simp only [Rec.unary, ha, Rec.pushUnary, Tape.appendUnary]

theorem binary_position (a b : Rec R) (F DX DY : R → R → R) (w : World R) (res : Rec R × World R)
    (h : a.binary b F DX DY w = .ok res) :
    (a.history = none ∧ b.history = none ∧ res = (Rec.constant (F a.number b.number), w)) ∨
    (∃ t, (a.history = some t ∨ b.history = some t) ∧ (∀ t', a.history = some t' → t' = t) ∧
      (∀ t', b.history = some t' → t' = t) ∧
      ∃ e, res = (⟨F a.number b.number, some t, (w t).length⟩, w.update t (w t ++ [e]))) := by
  unfold Rec.binary at h
  split at h
  · cases h
  · rename_i hs
    simp only [Bool.not_eq_true, Bool.not_eq_false'] at hs
    cases ha : a.history with
    | none =>
      cases hb : b.history with
      | none =>
        simp only [ha, hb] at h
        cases h
        exact Or.inl ⟨rfl, rfl, rfl⟩
      | some t =>
        simp only [ha, hb, Rec.pushUnary, Tape.appendUnary] at h
        cases h
        exact Or.inr ⟨t, Or.inr rfl, by simp, by simp, _, rfl⟩
    | some t =>
      cases hb : b.history with
      | none =>
        simp only [ha, hb, Rec.pushUnary, Tape.appendUnary] at h
        cases h
        exact Or.inr ⟨t, Or.inl rfl, by simp, by simp, _, rfl⟩
      | some t2 =>
        simp only [ha, hb, Rec.pushBinary, Tape.appendBinary] at h
        cases h
        have : t = t2 := by simpa [Rec.sameList, ha, hb] using hs
        subst this
        exact Or.inr ⟨t, Or.inl rfl, by simp, by simp, _, rfl⟩

/-- one operator: either a constant and nothing changed, or exactly one entry appended to one
    tape and the result sits at the old length of that tape -/
def Pos1 (w : World R) (res : Rec R × World R) : Prop :=
  (res.1.history = none ∧ res.2 = w) ∨
  ∃ t e, res.1.history = some t ∧ res.1.index = (w t).length ∧ res.2 = w.update t (w t ++ [e])

theorem unary_pos1 (a : Rec R) (F D : R → R) (w : World R) : Pos1 w (a.unary F D w) := by
  rcases unary_position a F D w with ⟨_, h⟩ | ⟨t, _, e, h⟩
  · rw [h]; exact Or.inl ⟨rfl, rfl⟩
  · rw [h]; exact Or.inr ⟨t, e, rfl, rfl, rfl⟩

theorem binary_pos1 (a b : Rec R) (F DX DY : R → R → R) (w : World R) (res : Rec R × World R)
    (h : a.binary b F DX DY w = .ok res) : Pos1 w res := by
  rcases binary_position a b F DX DY w res h with ⟨_, _, h⟩ | ⟨t, _, _, _, e, h⟩
  · rw [h]; exact Or.inl ⟨rfl, rfl⟩
  · rw [h]; exact Or.inr ⟨t, e, rfl, rfl, rfl⟩

theorem liftStep_ok_inv (w w' : World R) (o : Outcome (Rec R × World R)) (r : Rec R)
    (h : liftStep w o = (w', .ok r)) : o = .ok (r, w') := by
  cases o with
  | ok res => obtain ⟨r0, w0⟩ := res; simp only [liftStep, Prod.mk.injEq, Outcome.ok.injEq] at h
              obtain ⟨h1, h2⟩ := h; subst h1; subst h2; rfl
  | panic k => simp [liftStep] at h

theorem okStep_inv (w' : World R) (x : Rec R × World R) (r : Rec R)
    (h : okStep x = (w', .ok r)) : x = (r, w') := by
  obtain ⟨r0, w0⟩ := x
  simp only [okStep, Prod.mk.injEq, Outcome.ok.injEq] at h
  obtain ⟨h1, h2⟩ := h; subst h1; subst h2; rfl

/-- every instruction other than `sum`: the result is a constant and nothing changed, or it
    sits at the next unused position of its tape, which grew by exactly that entry -/
theorem exec_pos1 (ins : Instr R) (h : Nat) (env : Nat → R) (recs : List (Rec R)) (w w' : World R)
    (r : Rec R) (hns : ∀ as, ins ≠ .sum as) (hexec : ins.exec h env recs w = (w', .ok r)) :
    Pos1 w (r, w') := by
  cases ins with
  | const c =>
    simp only [Instr.exec, Prod.mk.injEq, Outcome.ok.injEq] at hexec
    obtain ⟨h1, h2⟩ := hexec; subst h1; subst h2
    exact Or.inl ⟨rfl, rfl⟩
  | var =>
    have := okStep_inv _ _ _ hexec
    simp only [Rec.mkVar, Tape.appendNullary] at this
    rw [← this]
    exact Or.inr ⟨h, _, rfl, rfl, rfl⟩
  | arith o a b =>
    cases o
    · have := liftStep_ok_inv _ _ _ _ hexec; rw [Rec.add_eq] at this; exact binary_pos1 _ _ _ _ _ _ _ this
    · have := liftStep_ok_inv _ _ _ _ hexec; rw [Rec.sub_eq] at this; exact binary_pos1 _ _ _ _ _ _ _ this
    · have := liftStep_ok_inv _ _ _ _ hexec; rw [Rec.mul_eq] at this; exact binary_pos1 _ _ _ _ _ _ _ this
    · have := liftStep_ok_inv _ _ _ _ hexec; rw [Rec.div_eq] at this; exact binary_pos1 _ _ _ _ _ _ _ this
  | arithNum o a c =>
    cases o
    · have := okStep_inv _ _ _ hexec; rw [Rec.addNum_eq] at this; rw [← this]; exact unary_pos1 _ _ _ _
    · have := okStep_inv _ _ _ hexec; rw [Rec.subNum_eq] at this; rw [← this]; exact unary_pos1 _ _ _ _
    · have := okStep_inv _ _ _ hexec; rw [Rec.mulNum_eq] at this; rw [← this]; exact unary_pos1 _ _ _ _
    · have := okStep_inv _ _ _ hexec; rw [Rec.divNum_eq] at this; rw [← this]; exact unary_pos1 _ _ _ _
  | swapped o c a =>
    cases o
    · have := okStep_inv _ _ _ hexec; rw [Rec.subSwapped_eq] at this; rw [← this]; exact unary_pos1 _ _ _ _
    · have := okStep_inv _ _ _ hexec; rw [Rec.divSwapped_eq] at this; rw [← this]; exact unary_pos1 _ _ _ _
  | neg a =>
    have := okStep_inv _ _ _ hexec; rw [Rec.neg_eq] at this; rw [← this]; exact unary_pos1 _ _ _ _
  | sum as => exact absurd rfl (hns as)
  | real f a =>
    cases f
    · have := okStep_inv _ _ _ hexec; rw [Rec.sin_eq] at this; rw [← this]; exact unary_pos1 _ _ _ _
    · have := okStep_inv _ _ _ hexec; rw [Rec.cos_eq] at this; rw [← this]; exact unary_pos1 _ _ _ _
    · have := okStep_inv _ _ _ hexec; rw [Rec.exp_eq] at this; rw [← this]; exact unary_pos1 _ _ _ _
    · have := okStep_inv _ _ _ hexec; rw [Rec.ln_eq] at this; rw [← this]; exact unary_pos1 _ _ _ _
    · have := okStep_inv _ _ _ hexec; rw [Rec.sqrt_eq] at this; rw [← this]; exact unary_pos1 _ _ _ _
  | pow a b =>
    have := liftStep_ok_inv _ _ _ _ hexec; rw [Rec.pow_eq] at this; exact binary_pos1 _ _ _ _ _ _ _ this
  | powNum a c =>
    have := okStep_inv _ _ _ hexec; rw [Rec.powNum_eq] at this; rw [← this]; exact unary_pos1 _ _ _ _
  | numPow c a =>
    have := okStep_inv _ _ _ hexec; rw [Rec.numPow_eq] at this; rw [← this]; exact unary_pos1 _ _ _ _
  | unary f df a =>
    have := okStep_inv _ _ _ hexec; rw [← this]; exact unary_pos1 _ _ _ _
  | binary f dfx dfy a b =>
    have := liftStep_ok_inv _ _ _ _ hexec; exact binary_pos1 _ _ _ _ _ _ _ this

/-! ### `Sum`: one entry per term from the first variable on; the result sits in the last -/

theorem sumLoop_position (items : List (Rec R)) :
    ∀ (total : Rec R) (w w' : World R) (r : Rec R),
      Rec.sumLoop items total w = (w', .ok r) →
      match total.history with
      | some t => r.history = some t ∧ ∃ ext, w' = w.update t (w t ++ ext) ∧
          (ext = [] → r = total) ∧ (ext ≠ [] → r.index + 1 = (w t).length + ext.length)
      | none => (r.history = none ∧ w' = w) ∨
          ∃ t ext, r.history = some t ∧ ext ≠ [] ∧ w' = w.update t (w t ++ ext) ∧
            r.index + 1 = (w t).length + ext.length := by
  induction items with
  | nil =>
    intro total w w' r h
    simp only [Rec.sumLoop, Prod.mk.injEq, Outcome.ok.injEq] at h
    obtain ⟨h1, h2⟩ := h; subst h1; subst h2
    cases ht : total.history with
    | none => exact Or.inl ⟨rfl, rfl⟩
    | some t =>
      exact ⟨rfl, [], by simp [World.update_self], fun _ => rfl, fun hne => absurd rfl hne⟩
  | cons x xs ih =>
    intro total w w' r h
    simp only [Rec.sumLoop] at h
    -- the appended-to-tape case, shared by three arms
    have key : ∀ (t : Nat) (e : Op R) (n : R),
        Rec.sumLoop xs ⟨n, some t, (w t).length⟩ (w.update t (w t ++ [e])) = (w', .ok r) →
        r.history = some t ∧ ∃ ext, ext ≠ [] ∧ w' = w.update t (w t ++ ext) ∧
          r.index + 1 = (w t).length + ext.length := by
      intro t e n hloop
      have this : r.history = some t ∧ ∃ ext, w' = (w.update t (w t ++ [e])).update t
            ((w.update t (w t ++ [e])) t ++ ext) ∧
          (ext = [] → r = ⟨n, some t, (w t).length⟩) ∧
          (ext ≠ [] → r.index + 1 = ((w.update t (w t ++ [e])) t).length + ext.length) :=
        ih _ _ _ _ hloop
      obtain ⟨hr, ext', hw', h0, h1⟩ := this
      refine ⟨hr, [e] ++ ext', by simp, ?_, ?_⟩
      · rw [hw', World.update_update, World.update_same, List.append_assoc]
      · by_cases he : ext' = []
        · subst he
          rw [h0 rfl]; simp
        · have := h1 he
          simp only [World.update_same, List.length_append, List.length_singleton] at this
          simp only [List.length_append, List.length_singleton]
          omega
    cases ht : total.history with
    | none =>
      cases hx : x.history with
      | none =>
        simp only [Rec.sumStep, ht, hx] at h
        have := ih _ _ _ _ h
        simpa [Rec.constant] using this
      | some t =>
        simp only [Rec.sumStep, ht, hx, Rec.pushUnary, Tape.appendUnary] at h
        obtain ⟨hr, ext, hne, hw', hidx⟩ := key t _ _ h
        exact Or.inr ⟨t, ext, hr, hne, hw', hidx⟩
    | some t =>
      cases hx : x.history with
      | none =>
        simp only [Rec.sumStep, ht, hx, Rec.pushUnary, Tape.appendUnary] at h
        obtain ⟨hr, ext, hne, hw', hidx⟩ := key t _ _ h
        exact ⟨hr, ext, hw', fun he => absurd he hne, fun _ => hidx⟩
      | some t2 =>
        by_cases hs : Rec.sameList total x = true
        · simp only [Rec.sumStep, ht, hx, hs, Bool.not_true, Bool.false_eq_true, if_false,
            Rec.pushBinary, Tape.appendBinary] at h
          obtain ⟨hr, ext, hne, hw', hidx⟩ := key t _ _ h
          exact ⟨hr, ext, hw', fun he => absurd he hne, fun _ => hidx⟩
        · simp only [Bool.not_eq_true] at hs
          simp [Rec.sumStep, ht, hx, hs] at h

/-! ### operands of two different tapes -/

theorem binary_cross (a b : Rec R) (F DX DY : R → R → R) (w : World R) (ta tb : Nat)
    (ha : a.history = some ta) (hb : b.history = some tb) (hne : ta ≠ tb) :
    a.binary b F DX DY w = .panic .explicit := by
  simp [Rec.binary, Rec.sameList, ha, hb, hne]

/-- `Sum`: once the running total is on tape `ta`, a term of tape `tb ≠ ta` makes it panic; the
    entries appended before stay, all of them on tape `ta` -/
theorem sumLoop_cross (pre : List (Rec R)) (x : Rec R) (post : List (Rec R)) (ta tb : Nat)
    (hx : x.history = some tb) (hne : ta ≠ tb) :
    ∀ (total : Rec R) (w : World R),
      (total.history = some ta ∨ (total.history = none ∧ ∃ r ∈ pre, r.history = some ta)) →
      (∀ r ∈ pre, r.history = none ∨ r.history = some ta) →
      ∃ w', Rec.sumLoop (pre ++ x :: post) total w = (w', .panic .explicit) ∧
        ∀ t', t' ≠ ta → w' t' = w t' := by
  induction pre with
  | nil =>
    intro total w ht _
    rcases ht with ht | ⟨_, r, hr, _⟩
    · refine ⟨w, ?_, fun _ _ => rfl⟩
      simp [Rec.sumLoop, Rec.sumStep, ht, hx, Rec.sameList, hne]
    · simp at hr
  | cons p ps ih =>
    intro total w ht hall
    have hp := hall p (by simp)
    have hall' : ∀ r ∈ ps, r.history = none ∨ r.history = some ta :=
      fun r hr => hall r (by simp [hr])
    simp only [List.cons_append, Rec.sumLoop]
    rcases ht with ht | ⟨ht, r, hr, hrh⟩
    · -- the total is already on `ta`
      rcases hp with hp | hp
      · simp only [Rec.sumStep, ht, hp, Rec.pushUnary, Tape.appendUnary]
        obtain ⟨w', h1, h2⟩ := ih ⟨total.number + p.number, some ta, (w ta).length⟩
          (w.update ta (w ta ++ [⟨total.index, (w ta).length, 1, 0⟩])) (Or.inl rfl) hall'
        exact ⟨w', h1, fun t' ht' => by rw [h2 t' ht', World.update_other _ _ _ _ ht']⟩
      · simp only [Rec.sumStep, ht, hp, Rec.sameList, beq_self_eq_true, Bool.not_true,
          Bool.false_eq_true, if_false, Rec.pushBinary, Tape.appendBinary]
        obtain ⟨w', h1, h2⟩ := ih ⟨total.number + p.number, some ta, (w ta).length⟩
          (w.update ta (w ta ++ [⟨total.index, p.index, 1, 1⟩])) (Or.inl rfl) hall'
        exact ⟨w', h1, fun t' ht' => by rw [h2 t' ht', World.update_other _ _ _ _ ht']⟩
    · -- the total is still a constant
      rcases hp with hp | hp
      · simp only [Rec.sumStep, ht, hp]
        have hr' : r ∈ ps := by
          simp only [List.mem_cons] at hr
          rcases hr with rfl | hr
          · rw [hp] at hrh; cases hrh
          · exact hr
        exact ih (Rec.constant (total.number + p.number)) w (Or.inr ⟨rfl, r, hr', hrh⟩) hall'
      · simp only [Rec.sumStep, ht, hp, Rec.pushUnary, Tape.appendUnary]
        obtain ⟨w', h1, h2⟩ := ih ⟨total.number + p.number, some ta, (w ta).length⟩
          (w.update ta (w ta ++ [⟨p.index, (w ta).length, 1, 0⟩])) (Or.inl rfl) hall'
        exact ⟨w', h1, fun t' ht' => by rw [h2 t' ht', World.update_other _ _ _ _ ht']⟩

/-! ### clear and reset against a fresh tape -/

theorem reset_eq_mkVar (r : Rec R) (t : Nat) (w : World R) (hr : r.history = some t) :
    r.reset w = Rec.mkVar r.number t w := by
  cases r
  simp only at hr
  subst hr
  rfl

theorem resetAll_eq_mkVars (rs : List (Rec R)) (t : Nat) (h : ∀ r ∈ rs, r.history = some t) :
    ∀ w : World R, resetAll rs w = mkVars (rs.map (·.number)) t w := by
  induction rs with
  | nil => intro w; rfl
  | cons r rest ih =>
    intro w
    simp only [resetAll, List.map_cons, mkVars]
    rw [reset_eq_mkVar r t w (h r (by simp)), ih (fun r' hr' => h r' (by simp [hr']))]

/-! ### a clear/reset cycle followed by a program is a program on an empty tape -/

theorem execFrom_append (h : Nat) (env : Nat → R) (a b : Prog R) :
    ∀ (w : World R) (recs : List (Rec R)),
      Prog.execFrom h env (a ++ b) w recs =
        match Prog.execFrom h env a w recs with
        | (w', .ok recs') => Prog.execFrom h env b w' recs'
        | (w', .panic k) => (w', .panic k) := by
  induction a with
  | nil => intro w recs; rfl
  | cons ins rest ih =>
    intro w recs
    simp only [List.cons_append, Prog.execFrom]
    rcases hres : Instr.exec h env recs w ins with ⟨w1, out⟩
    cases out with
    | ok r => simp only; exact ih _ _
    | panic k => rfl

/-- creating the variables `xs` on tape `t` is running `xs.length` `var` instructions whose
    inputs are `xs` -/
theorem mkVars_eq_exec (t : Nat) (env : Nat → R) (xs : List R) :
    ∀ (w : World R) (recs : List (Rec R)),
      (∀ j (hj : j < xs.length), env (recs.length + j) = xs[j]) →
      Prog.execFrom t env (xs.map fun _ => (Instr.var : Instr R)) w recs
        = ((mkVars xs t w).2, .ok (recs ++ (mkVars xs t w).1)) := by
  induction xs with
  | nil => intro w recs _; simp [Prog.execFrom, mkVars]
  | cons x rest ih =>
    intro w recs henv
    have h0 : env recs.length = x := by
      have := henv 0 (by simp)
      simpa using this
    simp only [List.map_cons, Prog.execFrom, Instr.exec, okStep, h0, mkVars]
    rw [ih (Rec.mkVar x t w).2 (recs ++ [(Rec.mkVar x t w).1])
      (by
        intro j hj
        have := henv (j + 1) (by simp; omega)
        simp only [List.length_append, List.length_singleton]
        rw [show recs.length + 1 + j = recs.length + (j + 1) by omega, this]
        simp)]
    simp [List.append_assoc]

/-! ### frame: a computation on tape `t` neither reads nor writes any other tape -/

/-- the record is a constant or lives on tape `t` -/
def OnTape (t : Nat) (r : Rec R) : Prop := r.history = none ∨ r.history = some t

theorem OnTape.getRec_default (t : Nat) (recs : List (Rec R)) (h : ∀ r ∈ recs, OnTape t r)
    (k : Nat) : OnTape t (getRec recs k) := by
  unfold getRec
  by_cases hk : k < recs.length
  · rw [List.getD_eq_getElem?_getD, List.getElem?_eq_getElem hk]
    exact h _ (List.getElem_mem hk)
  · rw [getD_of_le _ _ (by omega)]
    exact Or.inl rfl

theorem sameList_onTape {t : Nat} {a b : Rec R} (ha : OnTape t a) (hb : OnTape t b) :
    Rec.sameList a b = true := by
  unfold Rec.sameList
  rcases ha with ha | ha <;> rcases hb with hb | hb <;> simp [ha, hb]

/-- two runs of one step from worlds that agree on tape `t`: same outcome, the new worlds agree
    on `t`, the result is again a constant or on `t` -/
def StepRel (t : Nat) (x1 x2 : World R × Outcome (Rec R)) : Prop :=
  x1.2 = x2.2 ∧ x1.1 t = x2.1 t ∧ ∀ r, x1.2 = .ok r → OnTape t r

theorem unary_frame (a : Rec R) (F D : R → R) (w1 w2 : World R) (t : Nat) (ha : OnTape t a)
    (hw : w1 t = w2 t) : StepRel t (okStep (a.unary F D w1)) (okStep (a.unary F D w2)) := by
  unfold StepRel okStep Rec.unary
  rcases ha with ha | ha
  · simp only [ha]
    exact ⟨by trivial, hw, fun r hr => by cases hr; exact Or.inl rfl⟩
  · simp only [ha, Rec.pushUnary, Tape.appendUnary, World.update_same, hw]
    exact ⟨by trivial, by trivial, fun r hr => by cases hr; exact Or.inr rfl⟩

theorem binary_frame (a b : Rec R) (F DX DY : R → R → R) (w1 w2 : World R) (t : Nat)
    (ha : OnTape t a) (hb : OnTape t b) (hw : w1 t = w2 t) :
    StepRel t (liftStep w1 (a.binary b F DX DY w1)) (liftStep w2 (a.binary b F DX DY w2)) := by
  unfold StepRel Rec.binary
  rw [sameList_onTape ha hb]
  simp only [Bool.not_true, Bool.false_eq_true, if_false]
  rcases ha with ha | ha <;> rcases hb with hb | hb
  · simp only [ha, hb, liftStep]
    exact ⟨by trivial, hw, fun r hr => by cases hr; exact Or.inl rfl⟩
  · simp only [ha, hb, liftStep, Rec.pushUnary, Tape.appendUnary, World.update_same, hw]
    exact ⟨by trivial, by trivial, fun r hr => by cases hr; exact Or.inr rfl⟩
  · simp only [ha, hb, liftStep, Rec.pushUnary, Tape.appendUnary, World.update_same, hw]
    exact ⟨by trivial, by trivial, fun r hr => by cases hr; exact Or.inr rfl⟩
  · simp only [ha, hb, liftStep, Rec.pushBinary, Tape.appendBinary, World.update_same, hw]
    exact ⟨by trivial, by trivial, fun r hr => by cases hr; exact Or.inr rfl⟩

theorem sumLoop_frame (t : Nat) (items : List (Rec R)) :
    ∀ (total : Rec R) (w1 w2 : World R), OnTape t total → (∀ r ∈ items, OnTape t r) →
      w1 t = w2 t → StepRel t (Rec.sumLoop items total w1) (Rec.sumLoop items total w2) := by
  induction items with
  | nil =>
    intro total w1 w2 ht _ hw
    exact ⟨rfl, hw, fun r hr => by cases hr; exact ht⟩
  | cons x xs ih =>
    intro total w1 w2 ht hall hw
    have hx := hall x (by simp)
    have hall' : ∀ r ∈ xs, OnTape t r := fun r hr => hall r (by simp [hr])
    simp only [Rec.sumLoop, Rec.sumStep]
    rcases ht with ht | ht <;> rcases hx with hx | hx
    · simp only [ht, hx]
      exact ih _ _ _ (Or.inl rfl) hall' hw
    · simp only [ht, hx, Rec.pushUnary, Tape.appendUnary, hw]
      exact ih _ _ _ (Or.inr rfl) hall' (by simp)
    · simp only [ht, hx, Rec.pushUnary, Tape.appendUnary, hw]
      exact ih _ _ _ (Or.inr rfl) hall' (by simp)
    · have hs : Rec.sameList total x = true := sameList_onTape (Or.inr ht) (Or.inr hx)
      simp only [ht, hx, hs, Bool.not_true, Bool.false_eq_true, if_false, Rec.pushBinary,
        Tape.appendBinary, hw]
      exact ih _ _ _ (Or.inr rfl) hall' (by simp)

/-- **Frame of one instruction.**  If the operands are constants or records of tape `t`, the
    outcome of the instruction and the new content of tape `t` depend on the world only through
    tape `t`. -/
theorem exec_frame (ins : Instr R) (t : Nat) (env : Nat → R) (recs : List (Rec R))
    (w1 w2 : World R) (hrecs : ∀ k, OnTape t (getRec recs k)) (hw : w1 t = w2 t) :
    StepRel t (ins.exec t env recs w1) (ins.exec t env recs w2) := by
  cases ins with
  | const c => exact ⟨rfl, hw, fun r hr => by cases hr; exact Or.inl rfl⟩
  | var =>
    simp only [Instr.exec, okStep, Rec.mkVar, Tape.appendNullary, StepRel, World.update_same, hw]
    exact ⟨by trivial, by trivial, fun r hr => by cases hr; exact Or.inr rfl⟩
  | arith o a b =>
    cases o
    · simp only [Instr.exec, Rec.add_eq]; exact binary_frame _ _ _ _ _ _ _ _ (hrecs a) (hrecs b) hw
    · simp only [Instr.exec, Rec.sub_eq]; exact binary_frame _ _ _ _ _ _ _ _ (hrecs a) (hrecs b) hw
    · simp only [Instr.exec, Rec.mul_eq]; exact binary_frame _ _ _ _ _ _ _ _ (hrecs a) (hrecs b) hw
    · simp only [Instr.exec, Rec.div_eq]; exact binary_frame _ _ _ _ _ _ _ _ (hrecs a) (hrecs b) hw
  | arithNum o a c =>
    cases o
    · simp only [Instr.exec, Rec.addNum_eq]; exact unary_frame _ _ _ _ _ _ (hrecs a) hw
    · simp only [Instr.exec, Rec.subNum_eq]; exact unary_frame _ _ _ _ _ _ (hrecs a) hw
    · simp only [Instr.exec, Rec.mulNum_eq]; exact unary_frame _ _ _ _ _ _ (hrecs a) hw
    · simp only [Instr.exec, Rec.divNum_eq]; exact unary_frame _ _ _ _ _ _ (hrecs a) hw
  | swapped o c a =>
    cases o
    · simp only [Instr.exec, Rec.subSwapped_eq]; exact unary_frame _ _ _ _ _ _ (hrecs a) hw
    · simp only [Instr.exec, Rec.divSwapped_eq]; exact unary_frame _ _ _ _ _ _ (hrecs a) hw
  | neg a => simp only [Instr.exec, Rec.neg_eq]; exact unary_frame _ _ _ _ _ _ (hrecs a) hw
  | sum as =>
    simp only [Instr.exec, Rec.sum]
    apply sumLoop_frame t _ _ _ _ (Or.inl rfl) _ hw
    intro r hr
    simp only [List.mem_map] at hr
    obtain ⟨a, _, rfl⟩ := hr
    exact hrecs a
  | real f a =>
    cases f
    · simp only [Instr.exec, Rec.sin_eq]; exact unary_frame _ _ _ _ _ _ (hrecs a) hw
    · simp only [Instr.exec, Rec.cos_eq]; exact unary_frame _ _ _ _ _ _ (hrecs a) hw
    · simp only [Instr.exec, Rec.exp_eq]; exact unary_frame _ _ _ _ _ _ (hrecs a) hw
    · simp only [Instr.exec, Rec.ln_eq]; exact unary_frame _ _ _ _ _ _ (hrecs a) hw
    · simp only [Instr.exec, Rec.sqrt_eq]; exact unary_frame _ _ _ _ _ _ (hrecs a) hw
  | pow a b =>
    simp only [Instr.exec, Rec.pow_eq]; exact binary_frame _ _ _ _ _ _ _ _ (hrecs a) (hrecs b) hw
  | powNum a c => simp only [Instr.exec, Rec.powNum_eq]; exact unary_frame _ _ _ _ _ _ (hrecs a) hw
  | numPow c a => simp only [Instr.exec, Rec.numPow_eq]; exact unary_frame _ _ _ _ _ _ (hrecs a) hw
  | unary f df a => simp only [Instr.exec]; exact unary_frame _ _ _ _ _ _ (hrecs a) hw
  | binary f dfx dfy a b =>
    simp only [Instr.exec]; exact binary_frame _ _ _ _ _ _ _ _ (hrecs a) (hrecs b) hw

/-- **Frame of a program**: from worlds agreeing on tape `t` and the same records (constants or
    on `t`), a program run on tape `t` has the same outcome (records or panic) and leaves tape
    `t` with the same content. -/
theorem execFrom_frame (t : Nat) (env : Nat → R) (p : Prog R) :
    ∀ (recs : List (Rec R)) (w1 w2 : World R), (∀ r ∈ recs, OnTape t r) → w1 t = w2 t →
      (Prog.execFrom t env p w1 recs).2 = (Prog.execFrom t env p w2 recs).2 ∧
      (Prog.execFrom t env p w1 recs).1 t = (Prog.execFrom t env p w2 recs).1 t ∧
      ∀ recs', (Prog.execFrom t env p w1 recs).2 = .ok recs' → ∀ r ∈ recs', OnTape t r := by
  induction p with
  | nil => intro recs w1 w2 hr hw; exact ⟨rfl, hw, fun recs' h => by cases h; exact hr⟩
  | cons ins rest ih =>
    intro recs w1 w2 hrecs hw
    obtain ⟨h1, h2, h3⟩ := exec_frame ins t env recs w1 w2 (OnTape.getRec_default t recs hrecs) hw
    simp only [Prog.execFrom]
    rcases hx1 : Instr.exec t env recs w1 ins with ⟨w1', o1⟩
    rcases hx2 : Instr.exec t env recs w2 ins with ⟨w2', o2⟩
    rw [hx1, hx2] at h1 h2
    rw [hx1] at h3
    simp only at h1 h2 h3
    subst h1
    cases o1 with
    | panic k => exact ⟨rfl, h2, fun recs' h => by cases h⟩
    | ok r =>
      simp only
      apply ih _ _ _ _ h2
      intro r' hr'
      simp only [List.mem_append, List.mem_singleton] at hr'
      rcases hr' with hr' | rfl
      · exact hrecs r' hr'
      · exact h3 _ rfl

theorem derivatives_frame (r : Rec R) (w1 w2 : World R) (t : Nat) (hr : OnTape t r)
    (hw : w1 t = w2 t) : r.derivatives w1 = r.derivatives w2 := by
  rcases hr with hr | hr
  · simp [Rec.derivatives, Rec.tryDerivatives, hr]
  · rw [Rec.derivatives_some _ _ t hr, Rec.derivatives_some _ _ t hr, hw]

theorem mkVars_frame (t : Nat) (xs : List R) :
    ∀ (w1 w2 : World R), w1 t = w2 t →
      (mkVars xs t w1).1 = (mkVars xs t w2).1 ∧ (mkVars xs t w1).2 t = (mkVars xs t w2).2 t ∧
      ∀ r ∈ (mkVars xs t w1).1, OnTape t r := by
  induction xs with
  | nil => intro w1 w2 hw; exact ⟨rfl, hw, fun r hr => by simp [mkVars] at hr⟩
  | cons x rest ih =>
    intro w1 w2 hw
    simp only [mkVars, Rec.mkVar, Tape.appendNullary, hw]
    obtain ⟨h1, h2, h3⟩ := ih (w1.update t (w2 t ++ [⟨(w2 t).length, (w2 t).length, 0, 0⟩]))
      (w2.update t (w2 t ++ [⟨(w2 t).length, (w2 t).length, 0, 0⟩])) (by simp)
    refine ⟨by rw [h1], h2, ?_⟩
    intro r hr
    simp only [List.mem_cons] at hr
    rcases hr with rfl | hr
    · exact Or.inr rfl
    · exact h3 r hr

/-! ### `Sum` is repeated addition -/

/-- one round of `Sum for Record` is `&total + &next` (in any state: same value up to the order
    of the two summands, same tape entry, same panic) -/
theorem sumStep_eq_add (total next : Rec R) (w : World R) :
    Rec.sumStep total next w = total.add next w := by
  unfold Rec.sumStep Rec.add
  cases ht : total.history <;> cases hn : next.history <;>
    simp [Rec.sameList, ht, hn, Rec.addNum, Fn.Addition.function, Fn.Addition.dx, Fn.Addition.dy,
      add_comm]

/-- adding the items one after another to a running total with `+` -/
def addLoop : List (Rec R) → Rec R → World R → World R × Outcome (Rec R)
  | [], total, w => (w, .ok total)
  | next :: rest, total, w =>
    match total.add next w with
    | .ok (total', w') => addLoop rest total' w'
    | .panic k => (w, .panic k)

theorem sumLoop_eq_addLoop (items : List (Rec R)) :
    ∀ (total : Rec R) (w : World R), Rec.sumLoop items total w = addLoop items total w := by
  induction items with
  | nil => intro total w; rfl
  | cons x xs ih =>
    intro total w
    simp only [Rec.sumLoop, addLoop, sumStep_eq_add]
    cases total.add x w with
    | panic k => rfl
    | ok res => obtain ⟨t', w'⟩ := res; exact ih t' w'

end EasyMl
