/-
  EasyMl.Lemmas.MatrixViewEval — the model of every nested composition of matrix views refines
  the specification (C12): `eval_refines`, by induction over the composition, from the
  per-adaptor lemmas of `MatrixViewSpec` (leaves, parts, ranges, reversals) and `InteropNames`
  (the tensor wrappers and `TensorAccess`).
-/
import EasyMl.Lemmas.InteropNames

namespace EasyMl.MatrixView
open EasyMl.Spec EasyMl.Fallible

set_option linter.unusedSectionVars false
set_option linter.unusedVariables false

/-- **The model of every nested composition refines the specification**: if every tensor wrapper
    in it wraps a non-empty view the composition is built without a panic, has the specified
    size, its checked getters answer the designated cell for *every* index (so: `Some` exactly
    inside the size, never a panic — also on empty views), and its unchecked getters reach the
    same cell inside the size; otherwise the wrapper answers `Err`. -/
theorem eval_refines (e : MExpr) (hle : e.LeavesOk) :
    if e.Buildable = true then ∃ v, e.eval Arith.fixed = .ok (.ok v) ∧ Refines e v
    else ∃ s, e.eval Arith.fixed = .ok (.error s) := by
  induction e with
  | leaf rows columns =>
    obtain ⟨hr, hc, hb⟩ := hle
    simp only [MExpr.Buildable, if_true]
    exact ⟨_, rfl, leaf_refines rows columns hr hc hb⟩
  | leafCM rows columns =>
    obtain ⟨hr, hc, hb⟩ := hle
    simp only [MExpr.Buildable, if_true]
    exact ⟨_, rfl, leafCM_refines rows columns hr hc hb⟩
  | part rows columns rp cp kr kc =>
    simp only [MExpr.Buildable, if_true]
    exact part_refines rows columns rp cp kr kc hle
  | range e rows columns ih =>
    have ih := ih hle
    have hB : (MExpr.range e rows columns).Buildable = e.Buildable := rfl
    rw [hB]
    split at ih
    · rename_i hb
      obtain ⟨v, hv, href⟩ := ih
      rw [if_pos hb]
      exact ⟨_, by simp only [MExpr.eval, hv]; rfl, range_refines e v href hle rows columns⟩
    · rename_i hb
      obtain ⟨s, hs⟩ := ih
      rw [if_neg hb]
      exact ⟨s, by simp only [MExpr.eval, hs]⟩
  | reverse e fr fc ih =>
    have ih := ih hle
    have hB : (MExpr.reverse e fr fc).Buildable = e.Buildable := rfl
    rw [hB]
    split at ih
    · rename_i hb
      obtain ⟨v, hv, href⟩ := ih
      rw [if_pos hb]
      exact ⟨_, by simp only [MExpr.eval, hv], reverse_refines e v href fr fc⟩
    · rename_i hb
      obtain ⟨s, hs⟩ := ih
      rw [if_neg hb]
      exact ⟨s, by simp only [MExpr.eval, hs]⟩
  | map e ih =>
    have ih := ih hle
    have hB : (MExpr.map e).Buildable = e.Buildable := rfl
    rw [hB]
    simp only [MExpr.eval]
    split at ih
    · rename_i hb
      obtain ⟨v, hv, href⟩ := ih
      rw [if_pos hb]
      exact ⟨v, hv, href⟩
    · rename_i hb
      rw [if_neg hb]; exact ih
  | viaTensor e ih =>
    have ih := ih hle
    have hB : (MExpr.viaTensor e).Buildable =
        (e.Buildable && decide (1 ≤ e.size.1) && decide (1 ≤ e.size.2)) := rfl
    rw [hB]
    split at ih
    · rename_i hb
      obtain ⟨v, hv, hr, hc, hget, hu⟩ := ih
      by_cases hne : 1 ≤ e.size.1 ∧ 1 ≤ e.size.2
      · have hne' : 1 ≤ v.view.rows ∧ 1 ≤ v.view.columns := by rw [hr, hc]; exact hne
        have hcond : (e.Buildable && decide (1 ≤ e.size.1) && decide (1 ≤ e.size.2)) = true := by
          simp [hb, hne.1, hne.2]
        rw [if_pos hcond]
        obtain ⟨t, ht, hshape, htget⟩ := withNames_bool_ok v.view hne'
        refine ⟨⟨⟨v.view.rows, v.view.columns, fun r c => t.get [r, c]⟩, v.uget⟩, ?_, hr, hc, ?_, hu⟩
        · simp only [MExpr.eval, hv, ht]
          simp [MView.ofTensor, hshape, idxC]
        · intro i j
          simp only [MExpr.cell, htget]
          exact hget i j
      · have hne' : ¬ (1 ≤ v.view.rows ∧ 1 ≤ v.view.columns) := by rw [hr, hc]; exact hne
        have hcond : ¬ (e.Buildable && decide (1 ≤ e.size.1) && decide (1 ≤ e.size.2)) = true := by
          simp only [Bool.and_eq_true, decide_eq_true_eq]
          intro h; exact hne ⟨h.1.2, h.2⟩
        rw [if_neg hcond]
        exact ⟨[(true, v.view.rows), (false, v.view.columns)],
          by simp only [MExpr.eval, hv, withNames_bool_err v.view hne']⟩
    · rename_i hb
      obtain ⟨s, hs⟩ := ih
      have hcond : ¬ (e.Buildable && decide (1 ≤ e.size.1) && decide (1 ≤ e.size.2)) = true := by
        simp only [Bool.and_eq_true]
        intro h; exact hb h.1.1
      rw [if_neg hcond]
      exact ⟨s, by simp only [MExpr.eval, hs]⟩
  | swapped e ih =>
    have ih := ih hle
    have hB : (MExpr.swapped e).Buildable =
        (e.Buildable && decide (1 ≤ e.size.1) && decide (1 ≤ e.size.2)) := rfl
    rw [hB]
    split at ih
    · rename_i hb
      obtain ⟨v, hv, hr, hc, hget, hu⟩ := ih
      by_cases hne : 1 ≤ e.size.1 ∧ 1 ≤ e.size.2
      · have hne' : 1 ≤ v.view.rows ∧ 1 ≤ v.view.columns := by rw [hr, hc]; exact hne
        have hcond : (e.Buildable && decide (1 ≤ e.size.1) && decide (1 ≤ e.size.2)) = true := by
          simp [hb, hne.1, hne.2]
        rw [if_pos hcond]
        obtain ⟨t, ht, hshape, htget⟩ := withNames_bool_ok v.view hne'
        have hnd : (t.shape.map (·.1)).Nodup := by rw [hshape]; simp
        have hnew : DimensionMappings.new t.shape [false, true] = some ⟨[1, 0], [1, 0]⟩ := by
          rw [hshape]; exact new_swapped true false (by decide) _ _
        obtain ⟨a, ha, hashape, haget⟩ := accessTryFrom_of_some t [false, true] hnd hnew
        have hashape' : a.shape = [(false, v.view.columns), (true, v.view.rows)] := by
          rw [hashape, hshape]; simp [accessShape]
        refine ⟨⟨⟨v.view.columns, v.view.rows, fun r c => a.get [r, c]⟩,
          fun row column => v.uget column row⟩, ?_, hc, hr, ?_, ?_⟩
        · simp only [MExpr.eval, hv, ht, ha, ofTensor_eq a _ _ hashape']
        · intro i j
          have hg : a.get [i, j] = t.get [j, i] := by
            rw [haget [i, j] (by rw [hshape]; rfl)]
            simp
          simp only [MExpr.cell, hg, htget]
          exact hget j i
        · intro i j o ho
          simp only [MExpr.cell] at ho
          exact hu j i o ho
      · have hne' : ¬ (1 ≤ v.view.rows ∧ 1 ≤ v.view.columns) := by rw [hr, hc]; exact hne
        have hcond : ¬ (e.Buildable && decide (1 ≤ e.size.1) && decide (1 ≤ e.size.2)) = true := by
          simp only [Bool.and_eq_true, decide_eq_true_eq]
          intro h; exact hne ⟨h.1.2, h.2⟩
        rw [if_neg hcond]
        exact ⟨[(true, v.view.rows), (false, v.view.columns)],
          by simp only [MExpr.eval, hv, withNames_bool_err v.view hne']⟩
    · rename_i hb
      obtain ⟨s, hs⟩ := ih
      have hcond : ¬ (e.Buildable && decide (1 ≤ e.size.1) && decide (1 ≤ e.size.2)) = true := by
        simp only [Bool.and_eq_true]
        intro h; exact hb h.1.1
      rw [if_neg hcond]
      exact ⟨s, by simp only [MExpr.eval, hs]⟩

end EasyMl.MatrixView
