/-
  EasyMl.Lemmas.ViewIterators — ties C09's matrix iterators to C12's view model: every composition
  of matrix views (`MExpr`, incl. parts, tensor wrappers, transpositions) is a well-formed source
  in C09's sense (`MSource.WellFormed`: every position inside the size resolves to a cell, no two
  positions to the same one), and the reference flavours of the row-major / column-major
  iterators over it enumerate `MExpr.cell` in row-major / column-major order.
-/
import EasyMl.Lemmas.Iter
import EasyMl.Lemmas.PartViews

namespace EasyMl.MatrixView

set_option linter.unusedSectionVars false
set_option linter.unusedVariables false
open EasyMl EasyMl.Spec EasyMl.Iter EasyMl.Fallible

/-- a composition of matrix views as a source of the matrix iterators (C09's vocabulary):
    its size and, for a position, the cell it designates -/
def MExpr.msource (e : MExpr) : MSource Nat :=
  { rows := e.size.1, columns := e.size.2, cell := fun p => e.cell p.1 p.2 }

theorem MExpr.msource_wellFormed (e : MExpr) (hle : e.LeavesOk) : e.msource.WellFormed where
  resolves p hp := by
    have h := e.cell_some p.1 p.2 hp
    cases hc : e.cell p.1 p.2 with
    | none => rw [hc] at h; simp at h
    | some c => exact ⟨c, hc⟩
  injective p q c _ _ h1 h2 := by
    have := e.cell_injective hle p.1 p.2 q.1 q.2 c h1 h2
    exact Prod.ext this.1 this.2

/-- the reference flavour of the row-major iterator over a view stack: call `k` yields the cell
    of index `(k / columns, k % columns)` for `k < rows·columns`, then `None`, never a panic -/
theorem rowMajor_ref_collect (e : MExpr) (n : Nat) :
    collect (refNext rowMajorNext e.msource.cell) n (MatIter.new e.size.1 e.size.2) =
      .ok ((List.range n).map (fun k =>
              if k < e.size.1 * e.size.2 then some (e.cell (k / e.size.2) (k % e.size.2)) else none),
           rowMajorState e.size.1 e.size.2 n) := by
  have E := (rowMajor_enumerates e.size.1 e.size.2).ref e.msource.cell
  have := E.collect_from n 0
  rw [E.start, Nat.zero_add, ← List.range_eq_range'] at this
  rw [this]
  congr 2
  apply List.map_congr_left
  intro k _
  simp only [rowMajorItem, MExpr.msource]
  split <;> rfl

theorem colMajor_ref_collect (e : MExpr) (n : Nat) :
    collect (refNext colMajorNext e.msource.cell) n (MatIter.new e.size.1 e.size.2) =
      .ok ((List.range n).map (fun k =>
              if k < e.size.1 * e.size.2 then some (e.cell (k % e.size.1) (k / e.size.1)) else none),
           colMajorState e.size.1 e.size.2 n) := by
  have E := (colMajor_enumerates e.size.1 e.size.2).ref e.msource.cell
  have := E.collect_from n 0
  rw [E.start, Nat.zero_add, ← List.range_eq_range'] at this
  rw [this]
  congr 2
  apply List.map_congr_left
  intro k _
  simp only [colMajorItem, MExpr.msource]
  split <;> rfl

/-- the reference flavour of the diagonal iterator over a view stack: call `k` yields the cell of
    index `(k, k)` for `k < min rows columns`, then `None`, never a panic -/
theorem diagonal_ref_collect (e : MExpr) (n : Nat) :
    collect (refNext lineNext e.msource.cell) n (LineIter.newDiagonal e.size.1 e.size.2) =
      .ok ((List.range n).map (fun k => if k < min e.size.1 e.size.2 then some (e.cell k k) else none),
           lineState .diagonal (min e.size.1 e.size.2) n) := by
  have E := (line_enumerates .diagonal (min e.size.1 e.size.2)).ref e.msource.cell
  have := E.collect_from n 0
  rw [E.start, Nat.zero_add, ← List.range_eq_range'] at this
  simp only [LineIter.newDiagonal]
  rw [this]
  congr 2
  apply List.map_congr_left
  intro k _
  simp only [MExpr.msource, Line.position]
  split <;> rfl

end EasyMl.MatrixView
