/-
  EasyMl.Lemmas.Survivor — helper definitions and lemmas for C10 (no out-of-bounds unchecked
  access): the invariant of the leaf containers, its preservation by every operation of the
  survivor model (Model/Survivor.lean), what a panicking user closure leaves behind, bounded
  matrix view sources, and the predicted access sequences of the iterators.
-/
import EasyMl.Model.Survivor
import EasyMl.Lemmas.Swap
import EasyMl.Lemmas.MapMut
import EasyMl.Lemmas.Iter
import EasyMl.Lemmas.MatrixResize
import EasyMl.Props.C01
import EasyMl.Props.C09
import EasyMl.Props.C11

namespace EasyMl.Survivor
open EasyMl EasyMl.Spec

set_option linter.unusedSectionVars false

variable {ν : Type} [DecidableEq ν] {α : Type}

/-! ### the invariant of a `Tensor` -/

/-- What the unchecked accessors of a `Tensor` rely on (and what the `verif-hooks` monitor
    checks besides the index): the stored element count is the product of the lengths, the names
    are unique, every length is at least 1 — and the strides are the row-major strides. -/
def TInv (t : Tensor ν α) : Prop :=
  t.data.length = elements t.shape ∧ (t.shape.map (·.1)).Nodup ∧ (∀ d ∈ t.shape, 1 ≤ d.2) ∧
    t.strides = computeStrides t.shape

theorem tinv_iff_tryFrom (t : Tensor ν α) :
    TInv t ↔ Tensor.tryFrom t.shape t.data = some t := by
  rw [tryFrom_eq_some_iff]
  unfold TInv
  constructor
  · rintro ⟨h1, h2, h3, h4⟩
    refine ⟨⟨h1, h2, h3⟩, ?_⟩
    cases t; simp only at h4; subst h4; rfl
  · rintro ⟨⟨h1, h2, h3⟩, h4⟩
    refine ⟨h1, h2, h3, ?_⟩
    rw [h4]

theorem tinv_of_tryFrom (shape : Shape ν) (data : List α) (t : Tensor ν α)
    (h : Tensor.tryFrom shape data = some t) : TInv t := by
  obtain ⟨⟨h1, h2, h3⟩, rfl⟩ := (tryFrom_eq_some_iff shape data t).1 h
  exact ⟨h1, h2, h3, rfl⟩

theorem tinv_ofVal_materialise {v : LazyView ν α} (hv : v.Valid) :
    TInv (Tensor.ofVal (materialise v)) :=
  tinv_of_tryFrom _ _ _ hv.tryFrom

theorem tinv_of_fromOrPanic (shape : Shape ν) (data : List α) (t : Tensor ν α)
    (h : Tensor.fromOrPanic shape data = .ok t) : TInv t := by
  unfold Tensor.fromOrPanic at h
  split at h
  · rename_i t' ht
    cases h
    exact tinv_of_tryFrom _ _ _ ht
  · cases h

/-- same shape, strides and element count (what a panicking user closure cannot change) -/
def SameFrame (s t : Tensor ν α) : Prop :=
  s.shape = t.shape ∧ s.strides = t.strides ∧ s.data.length = t.data.length

theorem SameFrame.refl (t : Tensor ν α) : SameFrame t t := ⟨rfl, rfl, rfl⟩

theorem SameFrame.trans {a b c : Tensor ν α} (h1 : SameFrame a b) (h2 : SameFrame b c) :
    SameFrame a c :=
  ⟨h1.1.trans h2.1, h1.2.1.trans h2.2.1, h1.2.2.trans h2.2.2⟩

theorem SameFrame.tinv {s t : Tensor ν α} (h : SameFrame s t) (ht : TInv t) : TInv s := by
  obtain ⟨h1, h2, h3⟩ := h
  obtain ⟨i1, i2, i3, i4⟩ := ht
  exact ⟨by rw [h3, h1, i1], by rw [h1]; exact i2, by rw [h1]; exact i3, by rw [h2, h1, i4]⟩

/-! ### closures that panic -/

theorem mapLoop_length (f : α → α) (p : Option Nat) (l : List α) (c : Nat) :
    (mapLoop f p l c).1.length = l.length := by
  induction l generalizing c with
  | nil => rfl
  | cons x xs ih =>
    unfold mapLoop
    split
    · rfl
    · simp [ih]

/-- what the loop leaves behind: the closure's results in the cells before the panicking call,
    the old contents from there on -/
theorem mapLoop_eq (f : α → α) (p : Nat) (l : List α) (c : Nat) :
    mapLoop f (some (c + p)) l c =
      if p < l.length then ((l.take p).map f ++ l.drop p, true) else (l.map f, false) := by
  induction l generalizing c p with
  | nil => simp [mapLoop]
  | cons x xs ih =>
    unfold mapLoop
    cases p with
    | zero => simp
    | succ p =>
      have hne : ¬ (some (c + (p + 1)) = some c) := by simp
      rw [if_neg hne]
      have e : c + (p + 1) = (c + 1) + p := by omega
      rw [e, ih]
      by_cases hp : p < xs.length
      · simp [hp]
      · simp [hp]

theorem mapLoop_none (f : α → α) (l : List α) (c : Nat) :
    mapLoop f none l c = (l.map f, false) := by
  induction l generalizing c with
  | nil => rfl
  | cons x xs ih => simp [mapLoop, ih]

theorem tensor_set_sameFrame (t t' : Tensor ν α) (idx : List Nat) (v : α)
    (h : t.set idx v = some t') : SameFrame t' t := by
  unfold Tensor.set at h
  split at h
  · split at h
    · cases h; exact ⟨rfl, rfl, by simp⟩
    · cases h
  · cases h

theorem mapViaLoop_tensor_sameFrame (f : List Nat → α → α) (p : Option Nat)
    (idxs : List (List Nat)) (c : Nat) (t : Tensor ν α) :
    SameFrame (mapViaLoop Tensor.get Tensor.set f p idxs c t).1 t := by
  induction idxs generalizing c t with
  | nil => exact SameFrame.refl t
  | cons idx rest ih =>
    unfold mapViaLoop
    split
    · exact SameFrame.refl t
    · refine SameFrame.trans (ih _ _) ?_
      split
      · rename_i x _
        cases hs : t.set idx (f idx x) with
        | none => exact SameFrame.refl t
        | some t' => exact tensor_set_sameFrame t t' idx _ hs
      · exact SameFrame.refl t

theorem access_set_sameFrame (a a' : EasyMl.Access ν α) (idx : List Nat) (v : α)
    (h : a.set idx v = some a') : SameFrame a'.source a.source ∧ a'.mapping = a.mapping := by
  unfold EasyMl.Access.set at h
  split at h
  · rename_i t' ht
    cases h
    exact ⟨tensor_set_sameFrame _ _ _ _ ht, rfl⟩
  · cases h

theorem mapViaLoop_access_sameFrame (f : List Nat → α → α) (p : Option Nat)
    (idxs : List (List Nat)) (c : Nat) (a : EasyMl.Access ν α) :
    SameFrame (mapViaLoop EasyMl.Access.get EasyMl.Access.set f p idxs c a).1.source a.source := by
  induction idxs generalizing c a with
  | nil => exact SameFrame.refl _
  | cons idx rest ih =>
    unfold mapViaLoop
    split
    · exact SameFrame.refl _
    · refine SameFrame.trans (ih _ _) ?_
      split
      · rename_i x _
        cases hs : a.set idx (f idx x) with
        | none => exact SameFrame.refl _
        | some a' => exact (access_set_sameFrame a a' idx _ hs).1
      · exact SameFrame.refl _

/-- the loop over the indexes is the C13 in-place map when the closure never panics -/
theorem mapViaLoop_none {σ : Type} (get : σ → List Nat → Option α)
    (set : σ → List Nat → α → Option σ) (f : List Nat → α → α) (idxs : List (List Nat)) (c : Nat)
    (s : σ) :
    mapViaLoop get set f none idxs c s =
      (idxs.foldl (fun s idx => match get s idx with
        | some x => (set s idx (f idx x)).getD s
        | none => s) s, false) := by
  induction idxs generalizing c s with
  | nil => rfl
  | cons idx rest ih =>
    unfold mapViaLoop
    rw [if_neg (by simp)]
    simp only [List.foldl_cons]
    exact ih _ _

/-! ### every operation preserves the invariant; library panics leave the object untouched -/

theorem keepOnPanic_state (t : Tensor ν α) (r : Outcome (Tensor ν α)) :
    (keepOnPanic t r).out ≠ .ok → (keepOnPanic t r).state = t := by
  cases r <;> simp [keepOnPanic]

theorem keepOnPanic_inv (t : Tensor ν α) (r : Outcome (Tensor ν α)) (ht : TInv t)
    (hr : ∀ t', r = .ok t' → TInv t') : TInv (keepOnPanic t r).state := by
  cases r with
  | ok t' => exact hr t' rfl
  | panic k => exact ht

theorem reshapeMut_inv (t : Tensor ν α) (shape : Shape ν) (t' : Tensor ν α)
    (h : t.reshapeMut shape = .ok t') : TInv t' := by
  unfold Tensor.reshapeMut at h
  split at h
  · cases h
  · rename_i hv
    cases h
    obtain ⟨h1, h2, h3⟩ := (validateDimensions_none_iff shape t.data.length).1 hv
    exact ⟨h1, h2, h3, rfl⟩

theorem rename_inv (t : Tensor ν α) (ht : TInv t) (names : List ν)
    (hl : names.length = t.shape.length) (t' : Tensor ν α) (h : t.rename names = .ok t') :
    TInv t' := by
  have htf := (tinv_iff_tryFrom t).1 ht
  rw [Tensor.rename_eq t.shape t.data t htf names hl] at h
  split at h
  · rename_i hnd
    cases h
    exact tinv_ofVal_materialise (renamed_valid (ofData_valid _ _ t htf) names hnd hl)
  · cases h

theorem reorderMut_inv [Inhabited ν] (t : Tensor ν α) (ht : TInv t) (names : List ν)
    (t' : Tensor ν α) (h : t.reorderMut names = .ok t') : TInv t' := by
  have htf := (tinv_iff_tryFrom t).1 ht
  rw [reorderMut_eq_reorder' t.shape t.data t htf names,
    (Tensor.reorder_eq_ofData t.shape t.data t htf names).1] at h
  split at h
  · rename_i hp
    cases h
    exact tinv_ofVal_materialise (reordered_valid (ofData_valid _ _ t htf) names hp)
  · cases h

theorem transposeMut_inv [Inhabited ν] (t : Tensor ν α) (ht : TInv t) (names : List ν)
    (t' : Tensor ν α) (h : t.transposeMut names = .ok t') : TInv t' := by
  have htf := (tinv_iff_tryFrom t).1 ht
  rw [transposeMut_eq_transpose' t.shape t.data t htf names,
    (Tensor.reorder_eq_ofData t.shape t.data t htf names).2] at h
  split at h
  · rename_i hp
    cases h
    exact tinv_ofVal_materialise (transposed_valid (ofData_valid _ _ t htf) names hp)
  · cases h

theorem mapMut_sameFrame (t : Tensor ν α) (f : α → α) (p : Option Nat) :
    SameFrame (mapMut t f p).state t :=
  ⟨rfl, rfl, mapLoop_length f p t.data 0⟩

theorem mapMutWithIndex_sameFrame (t : Tensor ν α) (f : List Nat → α → α) (p : Option Nat) :
    SameFrame (mapMutWithIndex t f p).state t :=
  mapViaLoop_tensor_sameFrame f p _ 0 t

theorem accessMapMut_sameFrame [Inhabited ν] (t : Tensor ν α) (names : List ν)
    (f : List Nat → α → α) (p : Option Nat) : SameFrame (accessMapMut t names f p).state t := by
  unfold accessMapMut
  split
  · exact SameFrame.refl t
  · rename_i a ha
    have hs : a.source = t := by
      unfold Tensor.indexBy at ha
      split at ha
      · cases ha; rfl
      · cases ha
    have := mapViaLoop_access_sameFrame f p (shapeIndexes (a.shape.map (·.2))) 0 a
    rw [hs] at this
    exact this

theorem setChecked_sameFrame (t : Tensor ν α) (idx : List Nat) (v : α) :
    SameFrame (setChecked t idx v).state t := by
  unfold setChecked
  split
  · rename_i t' h; exact tensor_set_sameFrame t t' idx v h
  · exact SameFrame.refl t

/-- Every operation of the alphabet leaves a tensor satisfying the invariant. -/
theorem exec_inv [Inhabited ν] (t : Tensor ν α) (ht : TInv t) (op : Op ν α) :
    TInv (exec t op).state := by
  cases op with
  | «from» shape data =>
    exact keepOnPanic_inv t _ ht fun t' h => tinv_of_fromOrPanic shape data t' h
  | tryFrom shape data =>
    simp only [exec]
    split
    · rename_i t' h; exact tinv_of_tryFrom shape data t' h
    · exact ht
  | reshapeMut shape => exact keepOnPanic_inv t _ ht fun t' h => reshapeMut_inv t shape t' h
  | reshapeOwned shape =>
    exact keepOnPanic_inv t _ ht fun t' h => tinv_of_fromOrPanic shape t.data t' h
  | rename names =>
    simp only [exec]
    split
    · rename_i hl
      exact keepOnPanic_inv t _ ht fun t' h => rename_inv t ht names hl t' h
    · exact ht
  | transposeMut names =>
    exact keepOnPanic_inv t _ ht fun t' h => transposeMut_inv t ht names t' h
  | reorderMut names =>
    exact keepOnPanic_inv t _ ht fun t' h => reorderMut_inv t ht names t' h
  | mapMut f p => exact (mapMut_sameFrame t f p).tinv ht
  | mapMutWithIndex f p => exact (mapMutWithIndex_sameFrame t f p).tinv ht
  | accessMapMut names f p => exact (accessMapMut_sameFrame t names f p).tinv ht
  | set idx v => exact (setChecked_sameFrame t idx v).tinv ht

/-- does the operation run a user closure (which may panic at any call)? -/
def Op.runsClosure : Op ν α → Bool
  | .mapMut _ _ | .mapMutWithIndex _ _ | .accessMapMut _ _ _ => true
  | _ => false

/-- An operation that does not return normally and runs no user closure leaves the caller's
    tensor exactly as it was. -/
theorem exec_frame [Inhabited ν] (t : Tensor ν α) (op : Op ν α) (hc : op.runsClosure = false)
    (ho : (exec t op).out ≠ .ok) : (exec t op).state = t := by
  cases op with
  | «from» shape data => exact keepOnPanic_state t _ ho
  | tryFrom shape data =>
    simp only [exec] at ho ⊢
    split
    · rename_i t' h; simp [h] at ho
    · rfl
  | reshapeMut shape => exact keepOnPanic_state t _ ho
  | reshapeOwned shape => exact keepOnPanic_state t _ ho
  | rename names =>
    simp only [exec] at ho ⊢
    split
    · rename_i hl; rw [if_pos hl] at ho; exact keepOnPanic_state t _ ho
    · rfl
  | transposeMut names => exact keepOnPanic_state t _ ho
  | reorderMut names => exact keepOnPanic_state t _ ho
  | mapMut f p => simp [Op.runsClosure] at hc
  | mapMutWithIndex f p => simp [Op.runsClosure] at hc
  | accessMapMut names f p => simp [Op.runsClosure] at hc
  | set idx v =>
    simp only [exec, setChecked] at ho ⊢
    split
    · rename_i t' h; simp [h] at ho
    · rfl

/-- a closure panic can only have changed element values -/
theorem exec_closure_sameFrame [Inhabited ν] (t : Tensor ν α) (op : Op ν α)
    (hc : op.runsClosure = true) : SameFrame (exec t op).state t := by
  cases op with
  | mapMut f p => exact mapMut_sameFrame t f p
  | mapMutWithIndex f p => exact mapMutWithIndex_sameFrame t f p
  | accessMapMut names f p => exact accessMapMut_sameFrame t names f p
  | _ => simp [Op.runsClosure] at hc

theorem run_inv [Inhabited ν] (t : Tensor ν α) (ht : TInv t) (ops : List (Op ν α)) :
    TInv (run t ops) := by
  induction ops generalizing t with
  | nil => exact ht
  | cons op ops ih => exact ih _ (exec_inv t ht op)

/-! ### matrix constructors -/

theorem matrixEmpty_inv (rows columns : Nat) (v : α) (m : Matrix α)
    (h : matrixEmpty rows columns v = some m) :
    m.Inv ∧ m.rows = rows ∧ m.columns = columns := by
  unfold matrixEmpty at h
  split at h
  · rename_i hc
    cases h
    exact ⟨⟨by simp, hc.1, hc.2.1⟩, rfl, rfl⟩
  · cases h

/-! ### `insert_row` / `insert_column` with a panicking `Clone` -/

theorem insertRowCloning_spec (m : Matrix α) (hm : m.Inv) (row : Nat) (v : α) (p : Option Nat) :
    (insertRowCloning m row v p).state.Inv ∧
      ((insertRowCloning m row v p).panic ≠ none → (insertRowCloning m row v p).state = m) := by
  unfold insertRowCloning
  split
  · split
    · exact ⟨hm, fun _ => rfl⟩
    · exact ⟨EasyMl.C11.step_inv m hm (.insertRow row v), EasyMl.C11.panic_frame m hm (.insertRow row v)⟩
  · exact ⟨hm, fun _ => rfl⟩

theorem insertColumnCloning_spec (m : Matrix α) (hm : m.Inv) (column : Nat) (v : α) (p : Option Nat) :
    (insertColumnCloning m column v p).state.Inv ∧
      ((insertColumnCloning m column v p).panic ≠ none → (insertColumnCloning m column v p).state = m) := by
  unfold insertColumnCloning
  split
  · split
    · exact ⟨hm, fun _ => rfl⟩
    · exact ⟨EasyMl.C11.step_inv m hm (.insertColumn column v),
        EasyMl.C11.panic_frame m hm (.insertColumn column v)⟩
  · exact ⟨hm, fun _ => rfl⟩

/-! ### the rename setter keeps the names unique -/

theorem renameSetNames_spec (names new : List ν) (h : names.Nodup) :
    (renameSetNames names new).1.Nodup ∧
      (renameSetNames names new).1.length = names.length ∧
      ((renameSetNames names new).2 = true → (renameSetNames names new).1 = names) ∧
      ((renameSetNames names new).2 = false → (renameSetNames names new).1 = new ∧ new.Nodup) := by
  unfold renameSetNames
  split
  · exact ⟨h, rfl, fun _ => rfl, fun hf => by simp at hf⟩
  · rename_i hl
    split
    · exact ⟨h, rfl, fun _ => rfl, fun hf => by simp at hf⟩
    · rename_i hd
      have hnd : new.Nodup := by
        have := hasDuplicates_iff new
        cases hh : hasDuplicates new
        · rw [hh] at this; simpa using this
        · exact absurd hh hd
      exact ⟨hnd, by simpa using hl, fun ht => by simp at ht, fun _ => ⟨rfl, hnd⟩⟩

/-! ### `map_mut` / `map_mut_with_index` of a matrix with a panicking closure -/

theorem map_fst_zip_range (l : List α) : (List.zip l (List.range l.length)).map (·.1) = l := by
  apply List.map_fst_zip
  simp

/-- what `matrixMapPanic` leaves: the size is untouched; if the closure panics on call `k` (which
    happens iff `k` is below the element count) the first `k` row-major elements hold the closure's
    results — computed from the old value and the position — and the rest are untouched; otherwise
    every element is mapped -/
theorem matrixMapPanic_spec (m : Matrix α) (f : α → Nat → Nat → α) (p : Option Nat) :
    (matrixMapPanic m f p).state.rows = m.rows ∧ (matrixMapPanic m f p).state.columns = m.columns ∧
      (matrixMapPanic m f p).state.data.length = m.data.length ∧
      ((matrixMapPanic m f p).panic = some .explicit ↔ ∃ k, p = some k ∧ k < m.data.length) ∧
      ((matrixMapPanic m f p).panic = none ∨ (matrixMapPanic m f p).panic = some .explicit) ∧
      (∀ k, p = some k → k < m.data.length →
        (matrixMapPanic m f p).state.data =
          ((List.zip m.data (List.range m.data.length)).take k).map
            (fun q => f q.1 (q.2 / m.columns) (q.2 % m.columns)) ++ m.data.drop k) := by
  refine ⟨rfl, rfl, ?_, ?_, ?_, ?_⟩
  · simp [matrixMapPanic, mapLoop_length]
  · cases p with
    | none => simp [matrixMapPanic, mapLoop_none]
    | some k =>
      have h := mapLoop_eq (fun (q : α × Nat) => (f q.1 (q.2 / m.columns) (q.2 % m.columns), q.2)) k
        (List.zip m.data (List.range m.data.length)) 0
      rw [Nat.zero_add] at h
      simp only [matrixMapPanic, h]
      by_cases hk : k < m.data.length
      · simp [hk]
      · simp [hk]
  · simp only [matrixMapPanic]
    split <;> simp
  · intro k hp hk
    subst hp
    have h := mapLoop_eq (fun (q : α × Nat) => (f q.1 (q.2 / m.columns) (q.2 % m.columns), q.2)) k
      (List.zip m.data (List.range m.data.length)) 0
    rw [Nat.zero_add] at h
    have hl : k < (List.zip m.data (List.range m.data.length)).length := by simp [hk]
    simp only [matrixMapPanic, h, hl, if_true, List.map_append, List.map_map, List.map_drop,
      map_fst_zip_range]
    rfl

theorem matrixMapPanic_inv (m : Matrix α) (hm : m.Inv) (f : α → Nat → Nat → α) (p : Option Nat) :
    (matrixMapPanic m f p).state.Inv := by
  obtain ⟨h1, h2, h3, _⟩ := matrixMapPanic_spec m f p
  obtain ⟨i1, i2, i3⟩ := hm
  exact ⟨by rw [h3, h1, h2, i1], by rw [h1]; exact i2, by rw [h2]; exact i3⟩

theorem mapIdx_ite_lt (g : α → α) (l : List α) (k : Nat) :
    l.mapIdx (fun n x => if n < k then g x else x) = (l.take k).map g ++ l.drop k := by
  induction l generalizing k with
  | nil => simp
  | cons x xs ih =>
    cases k with
    | zero =>
      have : (fun (n : Nat) (x : α) => if n < 0 then g x else x) = fun _ x => x := by
        funext n x; simp
      rw [this]
      simp only [List.take_zero, List.map_nil, List.drop_zero, List.nil_append]
      apply List.ext_getElem?
      intro i
      cases i with
      | zero => simp
      | succ i => simp [List.getElem?_mapIdx]
    | succ k =>
      rw [List.mapIdx_cons]
      simp only [Nat.zero_lt_succ, if_true, List.take_succ_cons, List.map_cons, List.drop_succ_cons,
        List.cons_append, Nat.add_lt_add_iff_right]
      rw [ih k]

/-- for a closure that ignores the position, `matrixMapPanic` is C11's `mapMutPanic` (so
    `C11.inplace_map_panic_obs` and the extended histories `xrun` speak about it) -/
theorem matrixMapPanic_eq_mapMutPanic (m : Matrix α) (g : α → α) (k : Nat) :
    matrixMapPanic m (fun x _ _ => g x) (some k) = m.mapMutPanic g k := by
  obtain ⟨_, _, _, hp, hor, hd⟩ := matrixMapPanic_spec m (fun x _ _ => g x) (some k)
  obtain ⟨c1, c2⟩ := Matrix.mapMutLoop_spec g m.data k
  have hstate : (matrixMapPanic m (fun x _ _ => g x) (some k)).state = (m.mapMutPanic g k).state := by
    show ({ m with data := _ } : Matrix α) = { m with data := _ }
    congr 1
    show (matrixMapPanic m (fun x _ _ => g x) (some k)).state.data = (Matrix.mapMutLoop g k m.data).1
    rw [c1, mapIdx_ite_lt]
    by_cases hk : k < m.data.length
    · rw [hd k rfl hk]
      congr 1
      have : ((List.zip m.data (List.range m.data.length)).take k).map (fun q => g q.1) =
          (((List.zip m.data (List.range m.data.length)).take k).map (·.1)).map g := by
        rw [List.map_map]; rfl
      rw [this, List.map_take, map_fst_zip_range]
    · have h := mapLoop_eq (fun (q : α × Nat) => (g q.1, q.2)) k
        (List.zip m.data (List.range m.data.length)) 0
      rw [Nat.zero_add] at h
      have hl : ¬ k < (List.zip m.data (List.range m.data.length)).length := by simpa using hk
      simp only [matrixMapPanic, h, hl, if_false, List.map_map]
      have e1 : m.data.take k = m.data := List.take_of_length_le (by omega)
      have e2 : m.data.drop k = [] := List.drop_eq_nil_of_le (by omega)
      rw [e1, e2, List.append_nil]
      have : (List.zip m.data (List.range m.data.length)).map ((fun q : α × Nat => q.1) ∘ fun q => (g q.1, q.2)) =
          ((List.zip m.data (List.range m.data.length)).map (·.1)).map g := by
        rw [List.map_map]; rfl
      rw [this, map_fst_zip_range]
  have hpanic : (matrixMapPanic m (fun x _ _ => g x) (some k)).panic = (m.mapMutPanic g k).panic := by
    show _ = (Matrix.mapMutLoop g k m.data).2
    rw [c2]
    by_cases hk : k < m.data.length
    · rw [if_pos hk]; exact hp.2 ⟨k, rfl, hk⟩
    · rw [if_neg hk]
      rcases hor with h | h
      · exact h
      · obtain ⟨k', hk', hlt⟩ := hp.1 h
        cases hk'; exact absurd hlt hk
  cases hA : matrixMapPanic m (fun x _ _ => g x) (some k)
  cases hB : m.mapMutPanic g k
  rw [hA] at hstate hpanic
  rw [hB] at hstate hpanic
  simp only at hstate hpanic
  rw [hstate, hpanic]

/-! ### matrix view sources whose cells stay inside the leaf -/

/-- every position inside the view resolves to a cell below `len` -/
def MBounded (src : Iter.MSource Nat) (len : Nat) : Prop :=
  ∀ p : Nat × Nat, p.1 < src.rows ∧ p.2 < src.columns → ∃ c, src.cell p = some c ∧ c < len

theorem ofMatrix_bounded (rows columns : Nat) :
    MBounded (Iter.MSource.ofMatrix rows columns) (rows * columns) := by
  intro p hp
  have hp' : p.1 < rows ∧ p.2 < columns := hp
  refine ⟨_, Iter.ofMatrix_cell rows columns p hp', ?_⟩
  have h1 : (p.1 + 1) * columns ≤ rows * columns := Nat.mul_le_mul_right _ hp'.1
  rw [Nat.add_mul] at h1
  omega

/-- `MatrixRange` maps a position inside the (clipped) view to a position inside its source -/
theorem range_maps_inBounds (src : Iter.MSource Nat) (rs rl cs cl : Nat) (p : Nat × Nat)
    (hp : p.1 < (src.range rs rl cs cl).rows ∧ p.2 < (src.range rs rl cs cl).columns) :
    (src.range rs rl cs cl).cell p = src.cell (p.1 + rs, p.2 + cs) ∧
      (p.1 + rs < src.rows ∧ p.2 + cs < src.columns) := by
  simp only [Iter.MSource.range, Iter.clipLength] at hp ⊢
  simp only [Iter.rangeMap, hp.1, hp.2, if_true]
  exact ⟨trivial, by omega, by omega⟩

/-- `MatrixReverse` maps a position inside the view to a position inside its source -/
theorem reverse_maps_inBounds (src : Iter.MSource Nat) (r c : Bool) (p : Nat × Nat)
    (hp : p.1 < (src.reverse r c).rows ∧ p.2 < (src.reverse r c).columns) :
    (src.reverse r c).cell p =
        src.cell (if r then src.rows - 1 - p.1 else p.1, if c then src.columns - 1 - p.2 else p.2) ∧
      ((if r then src.rows - 1 - p.1 else p.1) < src.rows ∧
        (if c then src.columns - 1 - p.2 else p.2) < src.columns) := by
  have hp' : p.1 < src.rows ∧ p.2 < src.columns := hp
  have h1 : ¬ (src.rows = 0 ∨ src.columns = 0) := by omega
  have h2 : ¬ ((r = true ∧ p.1 > src.rows - 1) ∨ (c = true ∧ p.2 > src.columns - 1)) := by omega
  refine ⟨by simp only [Iter.MSource.reverse, h1, h2, if_false], ?_, ?_⟩
  · split <;> omega
  · split <;> omega

theorem range_bounded (src : Iter.MSource Nat) (len : Nat) (h : MBounded src len)
    (rs rl cs cl : Nat) : MBounded (src.range rs rl cs cl) len := by
  intro p hp
  obtain ⟨e, hb⟩ := range_maps_inBounds src rs rl cs cl p hp
  rw [e]
  exact h _ hb

theorem reverse_bounded (src : Iter.MSource Nat) (len : Nat) (h : MBounded src len)
    (r c : Bool) : MBounded (src.reverse r c) len := by
  intro p hp
  obtain ⟨e, hb⟩ := reverse_maps_inBounds src r c p hp
  rw [e]
  exact h _ hb

/-! ### predicted access sequences -/

theorem filterMap_id_range_ite {β : Type} (f : Nat → β) (n total : Nat) :
    ((List.range n).map fun k => if k < total then some (f k) else none).filterMap id =
      (List.range (min n total)).map f := by
  induction n with
  | zero => simp
  | succ n ih =>
    rw [List.range_succ, List.map_append, List.filterMap_append, ih]
    by_cases h : n < total
    · have e : min (n + 1) total = min n total + 1 := by omega
      have e2 : min n total = n := by omega
      rw [e, List.range_succ, List.map_append, e2]
      simp [h]
    · have e : min (n + 1) total = min n total := by omega
      rw [e]
      simp [h]

/-- generic form: the accesses of `n` calls of any enumerating position iterator over a faithful
    source are the cells `cellOf 0, …, cellOf (min n total − 1)` -/
theorem accesses_of_enumerates {σ π : Type} {next : σ → Outcome (Option π × σ)} {s0 : σ}
    {total : Nat} {item : Nat → Option π} {state : Nat → σ}
    (E : Enumerates next s0 total item state) {cell : π → Option Nat} {cellOf : Nat → Nat}
    (F : Faithful item total cell cellOf) (n : Nat) :
    accessesOf (Iter.collect (Iter.refNext next cell) n s0) =
      .ok ((List.range (min n total)).map fun k => some (cellOf k)) := by
  rw [(EasyMl.C09.mut_items_distinct E F n).1]
  simp only [accessesOf]
  congr 1
  exact filterMap_id_range_ite (fun k => some (cellOf k)) n total

/-- The accesses of `n` calls of a tensor iterator over a source that resolves call `k` to
    `cellOf k`: the cells `cellOf 0, …, cellOf (min n total − 1)`, none outside the source. -/
theorem tensorAccesses_eq (src : Iter.TSource Nat) (cellOf : Nat → Nat)
    (F : Faithful (shapeItem src.shape) (prod src.shape) src.cell cellOf) (n : Nat) :
    tensorAccesses src n = .ok ((List.range (min n (prod src.shape))).map fun k => some (cellOf k)) :=
  accesses_of_enumerates (Iter.shape_enumerates src.shape) F n

/-! ### the monitor's predicates -/

/-- what the monitor checks before a `Tensor` leaf access with index `idx` -/
def TensorAccessOk (t : Tensor ν α) (idx : List Nat) : Prop :=
  inBounds (t.shape.map (·.2)) idx = true ∧ t.data.length = elements t.shape ∧
    (t.shape.map (·.1)).Nodup ∧ ∀ d ∈ t.shape, 1 ≤ d.2

/-- what the monitor checks before a `Matrix` leaf access at `p` -/
def MatrixAccessOk (m : Matrix α) (p : Nat × Nat) : Prop :=
  p.1 < m.rows ∧ p.2 < m.columns ∧ m.rows * m.columns = m.data.length ∧ 0 < m.data.length

theorem tensorAccessOk_of_inv (t : Tensor ν α) (ht : TInv t) (idx : List Nat)
    (hb : inBounds (t.shape.map (·.2)) idx = true) : TensorAccessOk t idx :=
  ⟨hb, ht.1, ht.2.1, ht.2.2.1⟩

theorem matrixAccessOk_of_inv (m : Matrix α) (hm : m.Inv) (p : Nat × Nat)
    (hp : p.1 < m.rows ∧ p.2 < m.columns) : MatrixAccessOk m p := by
  obtain ⟨h1, h2, h3⟩ := hm
  refine ⟨hp.1, hp.2, h1.symm, ?_⟩
  rw [h1]
  exact Nat.mul_pos h2 h3

/-! ### `TensorAccess` over a tensor maps in-bounds indexes to in-bounds offsets -/

theorem getD_map_snd (l : List (ν × Nat)) (i : Nat) (d : ν) :
    (l.map (·.2)).getD i 0 = (l.getD i (d, 0)).2 := by
  simp only [List.getD_eq_getElem?_getD, List.getElem?_map]
  cases l[i]? <;> rfl

theorem accessSource_spec [Inhabited ν] (t : Tensor ν α) (ht : TInv t) (names : List ν)
    (src : Iter.TSource Nat) (h : accessSource t names = some src) :
    names.Perm (t.shape.map (·.1)) ∧
      src.shape = (shapeFor t.shape names).map (·.2) ∧
      ∀ idx, src.cell idx = lookupOffset t.shape names idx := by
  have htf := (tinv_iff_tryFrom t).1 ht
  unfold accessSource at h
  split at h
  · cases h
  · rename_i m hm
    cases h
    have ha : t.indexBy names = some { source := t, mapping := m } := by
      unfold Tensor.indexBy; rw [hm]
    obtain ⟨hp, hfields⟩ := indexBy_eq_some t.shape t.data t names _ htf ha
    refine ⟨hp, ?_, ?_⟩
    · have hs := EasyMl.C01.access_shape_eq t.shape t.data t names _ htf ha
      rw [← hs]
      simp only [Iter.TSource.access, Iter.TSource.ofTensor, EasyMl.Access.shape,
        DimensionMappings.mapShapeToRequested, List.map_map]
      apply List.map_congr_left
      intro i _
      exact getD_map_snd t.shape i default
    · intro idx
      have := EasyMl.C01.access_offset_eq_lookupOffset t.shape t.data t names _ htf ha idx
      simpa [Iter.TSource.access, Iter.TSource.ofTensor, EasyMl.Access.offset] using this

theorem accessSource_inBounds [Inhabited ν] (t : Tensor ν α) (ht : TInv t) (names : List ν)
    (src : Iter.TSource Nat) (h : accessSource t names = some src) (idx : List Nat)
    (hb : inBounds src.shape idx = true) :
    ∃ o, src.cell idx = some o ∧ o < t.data.length := by
  obtain ⟨hp, hs, hc⟩ := accessSource_spec t ht names src h
  have hlen : idx.length = names.length := by
    have := Iter.inBounds_length _ _ hb
    rw [hs] at this
    simpa [shapeFor] using this
  have hsome := lookupOffset_isSome_iff t.shape names idx ht.2.1 hp hlen
  rw [← hs, hb] at hsome
  obtain ⟨o, ho⟩ := Option.isSome_iff_exists.1 hsome
  refine ⟨o, by rw [hc, ho], ?_⟩
  rw [ht.1]
  exact lookupOffset_lt t.shape names idx o ho


/-! ### access lists of the iterators, empty sources included -/

theorem faithful_zero {π κ : Type} (item : Nat → Option π) (cell : π → Option κ) (cellOf : Nat → κ) :
    Faithful item 0 cell cellOf :=
  ⟨fun k hk => absurd hk (Nat.not_lt_zero k), fun j _ hj => absurd hj (Nat.not_lt_zero j)⟩

/-- an iterator that enumerates no position makes no access, whatever the source resolves -/
theorem accesses_nil_of_total_zero {σ π : Type} {next : σ → Outcome (Option π × σ)} {s0 : σ}
    {item : Nat → Option π} {state : Nat → σ} (E : Enumerates next s0 0 item state)
    (cell : π → Option Nat) (n : Nat) :
    accessesOf (Iter.collect (Iter.refNext next cell) n s0) = .ok [] := by
  rw [accesses_of_enumerates E (faithful_zero item cell (fun k => k)) n]
  simp

/-- every access of `n` calls lies below `len` as soon as every enumerated position resolves to
    a cell below `len` -/
theorem accesses_bounded {σ π : Type} {next : σ → Outcome (Option π × σ)} {s0 : σ} {total : Nat}
    {item : Nat → Option π} {state : Nat → σ} (E : Enumerates next s0 total item state)
    {cell : π → Option Nat} {cellOf : Nat → Nat} (F : Faithful item total cell cellOf) (len : Nat)
    (hvalid : ∀ k, k < total → ∃ p c, item k = some p ∧ cell p = some c ∧ c < len) (n : Nat) :
    ∃ accs, accessesOf (Iter.collect (Iter.refNext next cell) n s0) = .ok accs ∧
      accs.length = min n total ∧ ∀ a ∈ accs, ∃ o, a = some o ∧ o < len := by
  refine ⟨_, accesses_of_enumerates E F n, by simp, ?_⟩
  intro a ha
  simp only [List.mem_map, List.mem_range] at ha
  obtain ⟨k, hk, rfl⟩ := ha
  have hkt : k < total := by omega
  obtain ⟨p, hp, hc⟩ := F.resolves k hkt
  obtain ⟨p', c, hp', hc', hlt⟩ := hvalid k hkt
  rw [hp] at hp'
  cases hp'
  rw [hc] at hc'
  cases hc'
  exact ⟨_, rfl, hlt⟩

end EasyMl.Survivor
