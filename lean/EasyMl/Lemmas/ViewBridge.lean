/-
  EasyMl.Lemmas.ViewBridge — composition of the C01/C13 model with its neighbours:
  `TensorAccess` / `TensorTranspose` of C13's sources are C02's `View.access` / `View.transpose`
  nodes (so C02's and C09's theorems about views apply to them), and a tensor after any history of
  in-place transformations is a well-formed operand of C03's operators.
-/
import EasyMl.Model.View
import EasyMl.Lemmas.Arith
import EasyMl.Lemmas.History

namespace EasyMl
open EasyMl.Spec

set_option linter.unusedSectionVars false

variable {ν : Type} [DecidableEq ν] {α : Type}

/-- a C02 view as a C13 source: its `view_shape` and what reading through it returns -/
def TView.ofView [Inhabited ν] (s : View ν α) : TView ν α :=
  { shape := s.shape,
    get := fun idx => match s.read idx with
      | .ok o => o
      | .panic _ => none }

theorem setNames_eq_transposeShape (names order : Shape ν) :
    setNames order (names.map (·.1)) = transposeShape names order := by
  induction names generalizing order with
  | nil => cases order <;> simp [setNames, transposeShape]
  | cons n ns ih =>
    cases order with
    | nil => simp [setNames, transposeShape]
    | cons o os =>
      have := ih os
      simp only [setNames] at this
      simp [setNames, transposeShape, this]

theorem View.read_access [Inhabited ν] (s : View ν α) (m : DimensionMappings) (idx : List Nat) :
    (View.access s m).read idx = s.read (m.mapDimensionsToSource idx) := by
  simp [View.read, View.get, View.lookup, View.leaves]

theorem View.read_transpose [Inhabited ν] (s : View ν α) (m : DimensionMappings) (idx : List Nat) :
    (View.transpose s m).read idx = s.read (m.mapDimensionsToSource idx) := by
  simp [View.read, View.get, View.lookup, View.leaves]

/-- **`TensorAccess` of C13 = `View.access` of C02**, over any C02 view as the source -/
theorem access_ofView [Inhabited ν] (s : View ν α) (names : List ν) :
    (TView.ofView s).access names = (View.mkAccess s names).map TView.ofView := by
  unfold TView.access View.mkAccess
  simp only [TView.ofView]
  cases DimensionMappings.new s.shape names with
  | none => rfl
  | some m =>
    simp only [Option.map_some, Option.some.injEq]
    congr 1

/-- **`TensorTranspose` of C13 = `View.transpose` of C02** -/
theorem transposeView_ofView [Inhabited ν] (s : View ν α) (names : List ν) :
    (TView.ofView s).transposeView names = (View.mkTranspose s names).map TView.ofView := by
  unfold TView.transposeView
  rw [access_ofView]
  unfold View.mkAccess View.mkTranspose
  cases DimensionMappings.new s.shape names with
  | none => rfl
  | some m =>
    simp only [Option.map_some, Option.some.injEq, TView.ofView]
    congr 1
    · simp [View.shape, setNames_eq_transposeShape]

/-- a tensor leaf of C02 is C13's tensor source -/
theorem ofView_tensor [Inhabited ν] (id : Nat) (t : Tensor ν α) :
    TView.ofView (View.tensor id t) = t.view := by
  unfold TView.ofView Tensor.view
  congr 1
  funext idx
  simp only [View.read, View.get, View.tensorGet, View.lookup, View.leaves, Tensor.get]
  cases h : t.offset idx with
  | none => simp [obind]
  | some i =>
    by_cases hi : i < t.data.length
    · simp [obind, hi]
    · simp [obind, hi]

/-- a tensor after any history of in-place transformations is a tensor `Tensor::from` can have
    produced in C03's sense, so it is a well-formed operand of C03's operators, and the sequence
    their direct iterators consume is its logical row-major content -/
theorem history_operand_wf [Inhabited ν] (steps : List (InPlace ν α)) (shape : Shape ν)
    (data : List α) (t t' : Tensor ν α) (ht : Tensor.tryFrom shape data = some t)
    (harity : ∀ step ∈ steps, ∀ k, step.arity = some k → k = shape.length)
    (h : t.applyAll steps = .ok t') :
    (Arith.Operand.tensor t').WF ∧
    (Arith.Operand.tensor t').seq = (materialise t'.view.lazy).elems := by
  obtain ⟨s', d', _, ht'⟩ := applyAll_valid steps shape data t t' ht harity h
  obtain ⟨hv, hs, hd⟩ := Arith.tryFrom_valid ht'
  refine ⟨hv, ?_⟩
  rw [materialise_view s' d' t' ht']
  exact hd

theorem viewIndices_eq_allIndexes (lens : List Nat) : Arith.viewIndices lens = allIndexes lens := by
  induction lens with
  | nil => rfl
  | cons l ls ih => simp only [Arith.viewIndices, allIndexes, ih]

/-- a C13 source as a C03 view operand -/
def TView.toArith (v : TView ν α) : Arith.TView ν α := { shape := v.shape, get := v.get }

theorem toArith_elems (v : TView ν α) : v.toArith.elems = v.iter := by
  simp [Arith.TView.elems, Arith.TView.lens, TView.toArith, TView.iter, viewIndices_eq_allIndexes,
    shapeIndexes_eq_allIndexes]

/-- **C13's `elementwise` is C03's operator model**: `Tensor::elementwise*` (tensor on the left,
    its data read directly) and `TensorView::elementwise*` of this file are C03's
    `Arith.elementwise` at a tensor resp. view operand, for operands meeting the contracts. -/
theorem elementwise_eq_arith [DecidableEq (Shape ν)] (f : α → α → α) (shape : Shape ν)
    (data : List α) (t : Tensor ν α) (ht : Tensor.tryFrom shape data = some t) (l r : TView ν α)
    (hr : r.lazy.Valid) :
    t.elementwise f r = Arith.elementwise f (.tensor t) (.view r.toArith) ∧
    l.elementwise f r = Arith.elementwise f (.view l.toArith) (.view r.toArith) := by
  obtain ⟨⟨hc, hnd, hpos⟩, ht'⟩ := (tryFrom_eq_some_iff shape data t).1 ht
  constructor
  · unfold Tensor.elementwise Arith.elementwise
    simp only [Arith.Operand.shape, Arith.Operand.seq, toArith_elems]
    have hts : t.shape = shape := by rw [ht']
    by_cases hs : t.shape = r.shape
    · have hrs : r.toArith.shape = r.shape := rfl
      rw [if_neg (by simp [hs]), hrs, if_pos hs]
      have hlen : (List.zipWith f t.data r.iter).length = elements t.shape := by
        rw [List.length_zipWith, r.iter_eq, hr.elems_length, ht']
        simp only [TView.lazy_shape, ← hs, hts]
        rw [hc]; simp [elements]
      rw [Arith.tensorFrom_eq_ok _ _ hlen (by rw [hts]; exact ⟨hnd, hpos⟩)]
      rw [ht']
    · have hrs : r.toArith.shape = r.shape := rfl
      rw [if_pos hs, hrs, if_neg hs]
  · unfold TView.elementwise Arith.elementwise
    simp only [Arith.Operand.shape, Arith.Operand.seq, toArith_elems]
    have h1 : l.toArith.shape = l.shape := rfl
    have h2 : r.toArith.shape = r.shape := rfl
    rw [h1, h2]
    by_cases hs : l.shape = r.shape
    · rw [if_neg (by simp [hs]), if_pos hs]
      rfl
    · rw [if_pos hs, if_neg hs]

end EasyMl
