/-
  EasyMl.Lemmas.ViewExpansion — per-adaptor lemmas for C02: the loop invariant of `TensorExpansion`.
-/
import EasyMl.Lemmas.ViewAdaptors

namespace EasyMl
open EasyMl.Spec EasyMl.View

set_option linter.unusedSectionVars false

variable {ν : Type} [DecidableEq ν] [Inhabited ν] {α : Type}

/-! ### length-one expansion -/

theorem expansionShape_nil_cons (slots : Nat) (s : ν × Nat) (rest : Shape ν) (i : Nat) :
    expansionShape (slots + 1) [] (s :: rest) i = s :: expansionShape slots [] rest (i + 1) := by
  simp [expansionShape]

theorem expansionShape_cons (slots : Nat) (j : Nat) (n : ν) (es : List (Nat × ν)) (shape : Shape ν)
    (i : Nat) :
    expansionShape (slots + 1) ((j, n) :: es) shape i =
      if j = i then (n, 1) :: expansionShape slots es shape i
      else
        match shape with
        | s :: rest => s :: expansionShape slots ((j, n) :: es) rest (i + 1)
        | [] => [] := by
  simp only [expansionShape]
  split
  · rfl
  · cases shape <;> rfl

/-- The loop invariant of `compute_expansion_indexes` / `TensorExpansion::view_shape`: with the
    not yet matched extras `e` (ascending positions in `i..=D`) and the not yet emitted source
    dimensions `shr` (`D = i + shr.length`). -/
theorem computeExpansionIndexes_spec (EN : List ν) (D : Nat) :
    ∀ (idx : List Nat) (e : List (Nat × ν)) (shr : Shape ν) (i : Nat),
      D = i + shr.length →
      (e.map (·.1)).Pairwise (· ≤ ·) →
      (∀ x ∈ e, i ≤ x.1 ∧ x.1 ≤ D) →
      (∀ x ∈ e, x.2 ∈ EN) → (∀ s ∈ shr, s.1 ∉ EN) →
      idx.length = shr.length + e.length → Bounded idx →
      match computeExpansionIndexes D e idx i with
      | .panic _ => False
      | .ok none => inBounds (lens (expansionShape (shr.length + e.length) e shr i)) idx = false
      | .ok (some used) =>
        used.length = shr.length ∧ Bounded used ∧
        inBounds (lens shr) used =
          inBounds (lens (expansionShape (shr.length + e.length) e shr i)) idx ∧
        used = expansionCoords (expansionShape (shr.length + e.length) e shr i) EN idx := by
  intro idx
  induction idx with
  | nil =>
    intro e shr i hD _ _ _ _ hl _
    have hl' : shr.length + e.length = 0 := by rw [← hl]; rfl
    have h1 : shr = [] := List.eq_nil_of_length_eq_zero (by omega)
    have h2 : e = [] := List.eq_nil_of_length_eq_zero (by omega)
    subst h1 h2
    have : D - i = 0 := by simp at hD; omega
    simp [computeExpansionIndexes, this, expansionShape, expansionCoords]
  | cons index rest ih =>
    intro e shr i hD hsorted hpos hEN hfresh hl hb
    simp only [bounded_cons] at hb
    -- the step that emits a source dimension, shared by two branches
    have source_step : ∀ (s : ν × Nat) (srest : Shape ν), shr = s :: srest →
        (∀ x ∈ e, i + 1 ≤ x.1) →
        expansionShape (shr.length + e.length) e shr i =
          s :: expansionShape (srest.length + e.length) e srest (i + 1) →
        computeExpansionIndexes D e (index :: rest) i =
          obind (computeExpansionIndexes D e rest (i + 1)) (fun used => .ok (some (index :: used))) →
        match computeExpansionIndexes D e (index :: rest) i with
        | .panic _ => False
        | .ok none => inBounds (lens (expansionShape (shr.length + e.length) e shr i)) (index :: rest) = false
        | .ok (some used) =>
          used.length = shr.length ∧ Bounded used ∧
          inBounds (lens shr) used =
            inBounds (lens (expansionShape (shr.length + e.length) e shr i)) (index :: rest) ∧
          used = expansionCoords (expansionShape (shr.length + e.length) e shr i) EN (index :: rest) := by
      intro s srest hs hpos' hshape hcomp
      subst hs
      have hrec := ih e srest (i + 1) (by simp at hD; omega) hsorted
        (fun x hx => ⟨hpos' x hx, (hpos x hx).2⟩) hEN (fun t ht => hfresh t (by simp [ht]))
        (by simp at hl; omega) hb.2
      rw [hcomp, hshape]
      cases hc : computeExpansionIndexes D e rest (i + 1) with
      | panic k => simp [hc] at hrec
      | ok o =>
        cases o with
        | none => simp only [hc] at hrec; simp [hrec]
        | some used =>
          simp only [hc] at hrec
          obtain ⟨a, b, c, d⟩ := hrec
          have hs1 : s.1 ∉ EN := hfresh s (by simp)
          simp only [obind_some]
          refine ⟨by simp [a], by simp [b, hb.1], by simp [c], ?_⟩
          simp [expansionCoords, hs1, d]
    cases e with
    | nil =>
      cases shr with
      | nil => simp at hl
      | cons s srest =>
        have hi : i < D := by simp at hD; omega
        refine source_step s srest rfl (by simp) ?_ ?_
        · simp only [List.length_cons, List.length_nil, Nat.add_zero]
          rw [expansionShape_nil_cons]
        · simp [computeExpansionIndexes, hi]
    | cons x es =>
      obtain ⟨j, n⟩ := x
      have hj := hpos (j, n) (by simp)
      simp only at hj
      by_cases hji : j = i
      · -- the next output slot is the extra dimension `n`
        have hshape : expansionShape (shr.length + ((j, n) :: es).length) ((j, n) :: es) shr i =
            (n, 1) :: expansionShape (shr.length + es.length) es shr i := by
          have : shr.length + ((j, n) :: es).length = (shr.length + es.length) + 1 := by simp; omega
          rw [this, expansionShape_cons]; simp [hji]
        rw [hshape]
        simp only [List.map_cons, List.pairwise_cons] at hsorted
        have hn : n ∈ EN := hEN (j, n) (by simp)
        by_cases h0 : index = 0
        · have hrec := ih es shr i hD hsorted.2
            (fun x hx => ⟨by have := hsorted.1 x.1 (by simp; exact ⟨x.2, hx⟩); omega, (hpos x (by simp [hx])).2⟩)
            (fun x hx => hEN x (by simp [hx])) hfresh (by simp at hl; omega) hb.2
          simp only [computeExpansionIndexes, hji, if_true, h0, ne_eq, not_true_eq_false, if_false]
          cases hc : computeExpansionIndexes D es rest i with
          | panic k => simp [hc] at hrec
          | ok o =>
            cases o with
            | none => simp only [hc] at hrec; simp [hrec]
            | some used =>
              simp only [hc] at hrec
              obtain ⟨a, b, c, d⟩ := hrec
              refine ⟨a, b, by simp [c], ?_⟩
              simp [expansionCoords, hn, d]
        · simp only [computeExpansionIndexes, hji, if_true, ne_eq, h0, not_false_eq_true]
          have : ¬ index < 1 := by omega
          simp [this]
      · -- the next output slot is a source dimension
        have hlt : i < j := by omega
        cases shr with
        | nil => simp at hD; omega
        | cons s srest =>
          have hi : i < D := by simp at hD; omega
          simp only [List.map_cons, List.pairwise_cons] at hsorted
          refine source_step s srest rfl ?_ ?_ ?_
          · intro x hx
            simp only [List.mem_cons] at hx
            rcases hx with rfl | hx
            · simp only; omega
            · have := hsorted.1 x.1 (by simp; exact ⟨x.2, hx⟩); omega
          · have : (s :: srest).length + ((j, n) :: es).length = (srest.length + ((j, n) :: es).length) + 1 := by
              simp; omega
            rw [this, expansionShape_cons]; simp [hji]
          · simp [computeExpansionIndexes, hji, hi]

theorem expansionShape_names_subset (slots : Nat) (e : List (Nat × ν)) (shr : Shape ν) (i : Nat)
    (x : ν) (hx : x ∈ namesOf (expansionShape slots e shr i)) :
    x ∈ e.map (·.2) ∨ x ∈ namesOf shr := by
  induction slots generalizing e shr i with
  | zero => simp [expansionShape] at hx
  | succ slots ih =>
    cases e with
    | nil =>
      cases shr with
      | nil => simp [expansionShape] at hx
      | cons s srest =>
        rw [expansionShape_nil_cons] at hx
        simp only [namesOf_cons, List.mem_cons] at hx ⊢
        rcases hx with h | h
        · exact Or.inr (Or.inl h)
        · rcases ih [] srest (i + 1) h with h | h
          · exact Or.inl h
          · exact Or.inr (Or.inr h)
    | cons y es =>
      obtain ⟨j, n⟩ := y
      rw [expansionShape_cons] at hx
      by_cases hji : j = i
      · simp only [hji, if_true, namesOf_cons, List.mem_cons] at hx
        simp only [List.map_cons, List.mem_cons]
        rcases hx with h | h
        · exact Or.inl (Or.inl h)
        · rcases ih es shr i h with h | h
          · exact Or.inl (Or.inr h)
          · exact Or.inr h
      · simp only [hji, if_false] at hx
        cases shr with
        | nil => simp at hx
        | cons s srest =>
          simp only [namesOf_cons, List.mem_cons] at hx ⊢
          rcases hx with h | h
          · exact Or.inr (Or.inl h)
          · rcases ih ((j, n) :: es) srest (i + 1) h with h | h
            · exact Or.inl h
            · exact Or.inr (Or.inr h)

theorem expansionShape_good (slots : Nat) (e : List (Nat × ν)) (shr : Shape ν) (i : Nat)
    (hs : GoodShape shr) (hn : (e.map (·.2)).Nodup) (hfresh : ∀ x ∈ e, x.2 ∉ namesOf shr) :
    GoodShape (expansionShape slots e shr i) := by
  induction slots generalizing e shr i with
  | zero => simp [expansionShape, goodShape_nil]
  | succ slots ih =>
    cases e with
    | nil =>
      cases shr with
      | nil => simp [expansionShape, goodShape_nil]
      | cons s srest =>
        rw [goodShape_cons] at hs
        rw [expansionShape_nil_cons, goodShape_cons]
        refine ⟨?_, hs.2.1, hs.2.2.1, ih [] srest (i + 1) hs.2.2.2 (by simp) (by simp)⟩
        intro hc
        rcases expansionShape_names_subset _ _ _ _ _ hc with h | h
        · simp at h
        · exact hs.1 h
    | cons y es =>
      obtain ⟨j, n⟩ := y
      simp only [List.map_cons, List.nodup_cons] at hn
      rw [expansionShape_cons]
      by_cases hji : j = i
      · simp only [hji, if_true, goodShape_cons]
        refine ⟨?_, Nat.le_refl 1, by simp [usizeMax],
          ih es shr i hs hn.2 (fun x hx => hfresh x (by simp [hx]))⟩
        intro hc
        rcases expansionShape_names_subset _ _ _ _ _ hc with h | h
        · exact hn.1 h
        · exact hfresh (j, n) (by simp) h
      · simp only [hji, if_false]
        cases shr with
        | nil => exact goodShape_nil
        | cons s srest =>
          rw [goodShape_cons] at hs
          simp only [goodShape_cons]
          refine ⟨?_, hs.2.1, hs.2.2.1, ih ((j, n) :: es) srest (i + 1) hs.2.2.2
            (by simp [hn]) (fun x hx => fun hc => hfresh x hx (by simp [hc]))⟩
          intro hc
          rcases expansionShape_names_subset _ _ _ _ _ hc with h | h
          · simp only [List.mem_map] at h
            obtain ⟨x, hx, hxe⟩ := h
            exact hfresh x hx (by simp [hxe])
          · exact hs.1 h

theorem expansionShape_length (e : List (Nat × ν)) (shr : Shape ν) (i : Nat)
    (hsorted : (e.map (·.1)).Pairwise (· ≤ ·)) (hpos : ∀ x ∈ e, i ≤ x.1 ∧ x.1 ≤ i + shr.length) :
    (expansionShape (shr.length + e.length) e shr i).length = shr.length + e.length := by
  generalize hn : shr.length + e.length = slots
  induction slots generalizing e shr i with
  | zero => simp [expansionShape]
  | succ slots ih =>
    cases e with
    | nil =>
      cases shr with
      | nil => simp at hn
      | cons s srest =>
        rw [expansionShape_nil_cons]
        simp only [List.length_cons, Nat.add_right_cancel_iff]
        exact ih [] srest (i + 1) (by simp) (by simp) (by simp at hn ⊢; omega)
    | cons y es =>
      obtain ⟨j, n⟩ := y
      simp only [List.map_cons, List.pairwise_cons] at hsorted
      have hj := hpos (j, n) (by simp)
      simp only at hj
      rw [expansionShape_cons]
      by_cases hji : j = i
      · simp only [hji, if_true, List.length_cons, Nat.add_right_cancel_iff]
        refine ih es shr i hsorted.2 ?_ (by simp at hn; omega)
        intro x hx
        have := hsorted.1 x.1 (by simp; exact ⟨x.2, hx⟩)
        exact ⟨by omega, (hpos x (by simp [hx])).2⟩
      · simp only [hji, if_false]
        cases shr with
        | nil => simp at hj; omega
        | cons s srest =>
          simp only [List.length_cons, Nat.add_right_cancel_iff]
          refine ih ((j, n) :: es) srest (i + 1)
            (by simp only [List.map_cons, List.pairwise_cons]; exact hsorted) ?_ (by simp at hn ⊢; omega)
          intro x hx
          have hx2 := (hpos x hx).2
          simp only [List.length_cons] at hx2
          simp only [List.mem_cons] at hx
          rcases hx with rfl | hx
          · simp only; omega
          · have := hsorted.1 x.1 (by simp; exact ⟨x.2, hx⟩); omega

end EasyMl
