/-
  EasyMl.Lemmas.Prog — facts about the specification alone (Spec/Prog.lean): lengths, and
  "an input that does not reach an instruction has formal derivative zero there".
-/
import EasyMl.Spec.Prog
import EasyMl.Lemmas.Tape
import EasyMl.Lemmas.DivLaws

namespace EasyMl.Spec

set_option linter.unusedSectionVars false

variable {R : Type} [CommRing R] [Div R] [RealFns R]

theorem sumList_zero (l : List R) (h : ∀ x ∈ l, x = 0) : sumList l = 0 := by
  unfold sumList
  induction l with
  | nil => rfl
  | cons x xs ih =>
    simp only [List.foldl_cons]
    rw [h x (by simp), zero_add]
    exact ih (fun y hy => h y (by simp [hy]))

/-- an instruction none of whose operands carries a derivative, and which is not the seeded
    input, has formal derivative zero -/
theorem Instr.tan_zero (i : Nat) (vs ts : List R) (ins : Instr R)
    (hops : ∀ a ∈ ins.operands, ts.getD a 0 = 0) (hvar : ins.isVar = true → vs.length ≠ i)
    (hd : ins.usesDiv = false ∨ DivLaws R) :
    ins.tan (unitSeed i) vs ts = 0 := by
  cases ins with
  | const c => rfl
  | var =>
    have := hvar rfl
    simp [Instr.tan, unitSeed, this]
  | arith o a b =>
    have ha := hops a (by simp [Instr.operands])
    have hb := hops b (by simp [Instr.operands])
    cases o
    · simp only [Instr.tan, Arith.tan, ha, hb]; simp
    · simp only [Instr.tan, Arith.tan, ha, hb]; simp
    · simp only [Instr.tan, Arith.tan, ha, hb]; simp
    · simp only [Instr.tan, Arith.tan, ha, hb]
      rw [zero_mul, mul_zero, sub_zero, (divLaws_of hd rfl).zero_div]
  | arithNum o a c =>
    have ha := hops a (by simp [Instr.operands])
    cases o
    · simp only [Instr.tan, Arith.tan, ha]; simp
    · simp only [Instr.tan, Arith.tan, ha]; simp
    · simp only [Instr.tan, Arith.tan, ha]; simp
    · simp only [Instr.tan, Arith.tan, ha]
      rw [zero_mul, mul_zero, sub_zero, (divLaws_of hd rfl).zero_div]
  | swapped o c a =>
    have ha := hops a (by simp [Instr.operands])
    cases o
    · simp only [Instr.tan, Swapped.toArith, Arith.tan, ha]; simp
    · simp only [Instr.tan, Swapped.toArith, Arith.tan, ha]
      rw [zero_mul, mul_zero, sub_zero, (divLaws_of hd rfl).zero_div]
  | neg a =>
    have ha := hops a (by simp [Instr.operands])
    simp only [Instr.tan, ha]; simp
  | sum as =>
    simp only [Instr.tan]
    apply sumList_zero
    intro x hx
    simp only [List.mem_map] at hx
    obtain ⟨a, ha, rfl⟩ := hx
    exact hops a (by simpa [Instr.operands] using ha)
  | real f a =>
    have ha := hops a (by simp [Instr.operands])
    simp only [Instr.tan, ha]; simp
  | pow a b =>
    have ha := hops a (by simp [Instr.operands])
    have hb := hops b (by simp [Instr.operands])
    simp only [Instr.tan, ha, hb]; simp
  | powNum a c =>
    have ha := hops a (by simp [Instr.operands])
    simp only [Instr.tan, ha]; simp
  | numPow c a =>
    have ha := hops a (by simp [Instr.operands])
    simp only [Instr.tan, ha]; simp
  | unary f df a =>
    have ha := hops a (by simp [Instr.operands])
    simp only [Instr.tan, ha]; simp
  | binary f dfx dfy a b =>
    have ha := hops a (by simp [Instr.operands])
    have hb := hops b (by simp [Instr.operands])
    simp only [Instr.tan, ha, hb]; simp

theorem tangentsFrom_reach (env : Nat → R) (i : Nat) (p : Prog R) (hd : DivOK p) :
    ∀ (vs ts : List R) (rs : List Bool), rs.length = vs.length → ts.length = vs.length →
      (∀ k, rs.getD k false = false → ts.getD k 0 = 0) →
      ∀ k, (Prog.reachFrom i p rs).getD k false = false →
        (Prog.tangentsFrom env (unitSeed i) p vs ts).2.getD k 0 = 0 := by
  induction p with
  | nil => intro vs ts rs _ _ h k hk; exact h k hk
  | cons ins rest ih =>
    obtain ⟨hd1, hd2⟩ := hd.cons
    have ih := ih hd2
    intro vs ts rs hl1 hl2 h k hk
    simp only [Prog.reachFrom, Prog.tangentsFrom] at hk ⊢
    apply ih _ _ _ (by simp [hl1]) (by simp [hl2]) _ k hk
    intro k' hk'
    by_cases hlt : k' < rs.length
    · rw [getD_append_lt _ _ _ hlt] at hk'
      rw [getD_append_lt _ _ _ (by omega)]
      exact h k' hk'
    · by_cases heq : k' = rs.length
      · subst heq
        rw [getD_append_length] at hk'
        have : ts.length = rs.length := by omega
        rw [← this, getD_append_length]
        simp only [Instr.reach, Bool.or_eq_false_iff, Bool.and_eq_false_iff, List.any_eq_false,
          beq_eq_false_iff_ne] at hk'
        apply Instr.tan_zero
        · intro a ha
          exact h a (by simpa using hk'.2 a ha)
        · intro hv
          rcases hk'.1 with h1 | h1
          · rw [hv] at h1; exact absurd h1 (by simp)
          · rw [← hl1]; exact h1
        · exact hd1
      · exact getD_of_le _ _ (by simp; omega) _

/-- an input that does not reach an instruction has formal derivative zero there -/
theorem grad_zero_of_not_reach (env : Nat → R) (p : Prog R) (hd : DivOK p) (i k : Nat)
    (h : (Prog.reach p i).getD k false = false) : (Prog.grad env p i).getD k 0 = 0 :=
  tangentsFrom_reach env i p hd [] [] [] rfl rfl (fun _ _ => by simp) k h

/-! ### the generators' grammar only emits well-scoped programs -/

theorem wellScopedFrom_append (p q : Prog R) (n : Nat) :
    Prog.wellScopedFrom (p ++ q) n
      = (Prog.wellScopedFrom p n && Prog.wellScopedFrom q (n + p.length)) := by
  induction p generalizing n with
  | nil => simp [Prog.wellScopedFrom]
  | cons ins rest ih =>
    simp only [List.cons_append, Prog.wellScopedFrom, ih, List.length_cons, Bool.and_assoc]
    rw [show n + 1 + rest.length = n + (rest.length + 1) by omega]

theorem Prog.Emitted.wellScoped {p : Prog R} (h : Prog.Emitted p) : p.WellScoped := by
  induction h with
  | nil => rfl
  | snoc p ins _ hops ih =>
    unfold Prog.WellScoped at ih ⊢
    rw [wellScopedFrom_append, ih]
    simp only [Prog.wellScopedFrom, Bool.and_true, Bool.true_and, Nat.zero_add, List.all_eq_true,
      decide_eq_true_eq]
    exact hops

/-- … and every well-scoped program is one the grammar emits -/
theorem Prog.Emitted.of_wellScoped (p : Prog R) (h : p.WellScoped) : Prog.Emitted p := by
  induction p using List.reverseRecOn with
  | nil => exact Prog.Emitted.nil
  | append_singleton p ins ih =>
    unfold Prog.WellScoped at h ih
    rw [wellScopedFrom_append] at h
    simp only [Prog.wellScopedFrom, Bool.and_true, Nat.zero_add, Bool.and_eq_true,
      List.all_eq_true, decide_eq_true_eq] at h
    exact Prog.Emitted.snoc p ins (ih h.1) h.2

end EasyMl.Spec
