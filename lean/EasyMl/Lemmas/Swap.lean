/-
  EasyMl.Lemmas.Swap — the in-place branch of `reorder_mut` (square 2-D tensors): a loop of
  swaps over the upper triangle realises the reordering (C13).
-/
import EasyMl.Lemmas.Equality

namespace EasyMl
open EasyMl.Spec

set_option linter.unusedSectionVars false

variable {ν : Type} [DecidableEq ν] {α : Type}

/-- `temp = d[a]; d[a] = d[b]; d[b] = temp` -/
def swapAt (d : List α) (a b : Nat) : List α :=
  match d[a]?, d[b]? with
  | some x, some y => (d.set a y).set b x
  | _, _ => d

theorem swapAt_length (d : List α) (a b : Nat) : (swapAt d a b).length = d.length := by
  unfold swapAt; split <;> simp

theorem swapAt_getElem? (d : List α) (a b o : Nat) (ha : a < d.length) (hb : b < d.length) :
    (swapAt d a b)[o]? = if o = b then d[a]? else if o = a then d[b]? else d[o]? := by
  unfold swapAt
  rw [List.getElem?_eq_getElem ha, List.getElem?_eq_getElem hb]
  simp only [List.getElem?_set, List.length_set]
  by_cases h1 : o = b
  · subst h1; simp [hb]
  · by_cases h2 : o = a
    · subst h2; simp [h1, ha, Ne.symm h1]
    · simp [h1, h2, Ne.symm h1, Ne.symm h2]

/-- **A loop of swaps along an involution.**  Cells are named by keys `κ` placed injectively
    (`pos`) in a list of `N` elements; `τ` is an involution on the keys in `dom`.  Swapping
    `pos k ↔ pos (τ k)` for every `k` of a duplicate-free key list that never contains both
    members of a two-element orbit moves the element of `τ x` to `x` for every key touched, and
    leaves every other cell alone. -/
theorem foldl_swaps {κ : Type} [DecidableEq κ] (pos : κ → Nat) (τ : κ → κ) (dom : κ → Prop) (N : Nat)
    (hpos : ∀ x, dom x → pos x < N)
    (hinj : ∀ x y, dom x → dom y → pos x = pos y → x = y)
    (hτd : ∀ x, dom x → dom (τ x)) (hττ : ∀ x, dom x → τ (τ x) = x)
    (ks : List κ) (hks : ∀ k ∈ ks, dom k) (hnd : ks.Nodup)
    (horb : ∀ k ∈ ks, τ k ∈ ks → τ k = k)
    (d : List α) (hd : d.length = N) :
    (ks.foldl (fun d k => swapAt d (pos k) (pos (τ k))) d).length = N ∧
    ∀ x, dom x →
      (ks.foldl (fun d k => swapAt d (pos k) (pos (τ k))) d)[pos x]? =
        if x ∈ ks ∨ τ x ∈ ks then d[pos (τ x)]? else d[pos x]? := by
  induction ks generalizing d with
  | nil => simp [hd]
  | cons k rest ih =>
    have hk : dom k := hks k (by simp)
    have hknr : k ∉ rest := (List.nodup_cons.1 hnd).1
    have hτknr : τ k ∉ rest := by
      intro h
      have := horb k (by simp) (by simp [h])
      rw [this] at h; exact hknr h
    have hd1 : (swapAt d (pos k) (pos (τ k))).length = N := by rw [swapAt_length, hd]
    obtain ⟨ihl, ihg⟩ := ih (fun z hz => hks z (by simp [hz])) (List.nodup_cons.1 hnd).2
      (fun z hz hτz => horb z (by simp [hz]) (by simp [hτz])) _ hd1
    simp only [List.foldl_cons]
    refine ⟨ihl, fun x hx => ?_⟩
    rw [ihg x hx]
    have hpk : pos k < d.length := hd ▸ hpos k hk
    have hpτk : pos (τ k) < d.length := hd ▸ hpos _ (hτd k hk)
    have inj : ∀ a b, dom a → dom b → (pos a = pos b ↔ a = b) :=
      fun a b ha hb => ⟨hinj a b ha hb, fun e => e ▸ rfl⟩
    have hτx : dom (τ x) := hτd x hx
    by_cases hA : x ∈ rest ∨ τ x ∈ rest
    · -- the cell is touched later: its source has not been disturbed by this step
      have h1 : τ x ≠ k := by
        intro e
        have : x = τ k := by rw [← e, hττ x hx]
        rcases hA with h | h
        · exact hτknr (this ▸ h)
        · exact hknr (e ▸ h)
      have h2 : τ x ≠ τ k := by
        intro e
        have : x = k := by rw [← hττ x hx, e, hττ k hk]
        rcases hA with h | h
        · exact hknr (this ▸ h)
        · exact hτknr (e ▸ h)
      have hmem : x ∈ k :: rest ∨ τ x ∈ k :: rest := by
        rcases hA with h | h
        · exact Or.inl (by simp [h])
        · exact Or.inr (by simp [h])
      rw [if_pos hA, if_pos hmem, swapAt_getElem? d _ _ _ hpk hpτk]
      rw [if_neg (by rw [inj _ _ hτx (hτd k hk)]; exact h2),
        if_neg (by rw [inj _ _ hτx hk]; exact h1)]
    · rw [if_neg hA, swapAt_getElem? d _ _ _ hpk hpτk]
      have hxr : x ∉ rest := fun h => hA (Or.inl h)
      have hτxr : τ x ∉ rest := fun h => hA (Or.inr h)
      by_cases e1 : x = τ k
      · have : τ x = k := by rw [e1, hττ k hk]
        rw [if_pos (by rw [e1]), if_pos (Or.inr (by simp [this])), this]
      · rw [if_neg (by rw [inj _ _ hx (hτd k hk)]; exact e1)]
        by_cases e2 : x = k
        · rw [if_pos (by rw [e2]), if_pos (Or.inl (by simp [e2])), e2]
        · rw [if_neg (by rw [inj _ _ hx hk]; exact e2)]
          have hτxk : τ x ≠ k := by
            intro e; exact e1 (by rw [← e, hττ x hx])
          rw [if_neg]
          simp only [List.mem_cons, not_or]
          exact ⟨⟨e2, hxr⟩, ⟨hτxk, hτxr⟩⟩

theorem foldl_filter' {γ δ : Type} (p : γ → Bool) (f : δ → γ → δ) (l : List γ) (init : δ) :
    l.foldl (fun acc x => if p x then f acc x else acc) init = (l.filter p).foldl f init := by
  induction l generalizing init with
  | nil => rfl
  | cons x xs ih =>
    simp only [List.foldl_cons, List.filter_cons]
    by_cases h : p x <;> simp [h, ih]

/-! ### one iteration of the loop, and the whole loop, on a valid tensor -/

theorem swapStep_ok (shape : Shape ν) (data : List α) (t : Tensor ν α) (names : List ν)
    (ht : Tensor.tryFrom shape data = some t) (r2s : List Nat) (d : List α)
    (hd : d.length = elements shape) (idx : List Nat)
    (hb : inBounds (shape.map (·.2)) idx = true)
    (hτ : inBounds (shape.map (·.2)) (coords shape names idx) = true) :
    swapStep t { sourceToRequested := (shape.map (·.1)).map (names.idxOf ·),
                 requestedToSource := r2s } (.ok d) idx =
      .ok (if idx.getD 1 0 ≥ idx.getD 0 0 then
            swapAt d (ravel (shape.map (·.2)) idx) (ravel (shape.map (·.2)) (coords shape names idx))
           else d) := by
  obtain ⟨_, ht'⟩ := (tryFrom_eq_some_iff shape data t).1 ht
  have hs : t.shape = shape := by rw [ht']
  have o1 := offset_of_tryFrom shape data t ht idx (inBounds_length _ _ hb |>.trans (by simp))
  have o2 := offset_of_tryFrom shape data t ht (coords shape names idx) (by simp [coords])
  simp only [Tensor.offset, hb, hτ, if_true] at o1 o2
  unfold swapStep
  simp only [mapDimensionsToSource_eq_coords, o1, o2]
  by_cases hji : idx.getD 1 0 ≥ idx.getD 0 0
  · simp only [hji, if_true]
    have h1 := ravel_lt _ _ hb
    have h2 := ravel_lt _ _ hτ
    have hd' : d.length = prod (shape.map (·.2)) := hd
    unfold swapAt
    rw [List.getElem?_eq_getElem (by omega), List.getElem?_eq_getElem (by omega)]
  · simp only [hji, if_false]

theorem foldl_swapStep_ok (shape : Shape ν) (data : List α) (t : Tensor ν α) (names : List ν)
    (ht : Tensor.tryFrom shape data = some t) (r2s : List Nat) (l : List (List Nat))
    (hl : ∀ idx ∈ l, inBounds (shape.map (·.2)) idx = true ∧
      inBounds (shape.map (·.2)) (coords shape names idx) = true)
    (d : List α) (hd : d.length = elements shape) :
    l.foldl (swapStep t { sourceToRequested := (shape.map (·.1)).map (names.idxOf ·),
                          requestedToSource := r2s }) (.ok d) =
      .ok ((l.filter fun idx => decide (idx.getD 1 0 ≥ idx.getD 0 0)).foldl
        (fun d idx => swapAt d (ravel (shape.map (·.2)) idx)
          (ravel (shape.map (·.2)) (coords shape names idx))) d) := by
  rw [← foldl_filter']
  induction l generalizing d with
  | nil => rfl
  | cons x xs ih =>
    simp only [List.foldl_cons]
    obtain ⟨hb, hτ⟩ := hl x (by simp)
    rw [swapStep_ok shape data t names ht r2s d hd x hb hτ]
    have hd2 : (if x.getD 1 0 ≥ x.getD 0 0 then
        swapAt d (ravel (shape.map (·.2)) x) (ravel (shape.map (·.2)) (coords shape names x))
        else d).length = elements shape := by
      split
      · rw [swapAt_length, hd]
      · exact hd
    rw [ih (fun idx h => hl idx (by simp [h])) _ hd2]
    simp only [decide_eq_true_eq]

/-! ### square 2-D shapes -/

theorem perm_pair (l : List ν) (a b : ν) (h : l.Perm [a, b]) : l = [a, b] ∨ l = [b, a] := by
  have hlen := h.length_eq
  match l, hlen with
  | [x, y], _ =>
    have hx : x ∈ [a, b] := h.mem_iff.1 (by simp)
    have hy : y ∈ [a, b] := h.mem_iff.1 (by simp)
    have ha : a ∈ [x, y] := h.mem_iff.2 (by simp)
    have hb : b ∈ [x, y] := h.mem_iff.2 (by simp)
    simp only [List.mem_cons, List.not_mem_nil, or_false] at hx hy ha hb
    rcases hx with rfl | rfl <;> rcases hy with rfl | rfl
    · rcases hb with rfl | rfl <;> simp
    · simp
    · simp
    · rcases ha with rfl | rfl <;> simp

theorem inBounds_pair (n : Nat) (idx : List Nat) (h : inBounds [n, n] idx = true) :
    ∃ i j, idx = [i, j] ∧ i < n ∧ j < n := by
  match idx with
  | [i, j] =>
    simp only [inBounds, Bool.and_eq_true, decide_eq_true_eq] at h
    exact ⟨i, j, rfl, h.1, h.2.1⟩
  | [] => simp [inBounds] at h
  | [_] => simp [inBounds] at h
  | _ :: _ :: _ :: _ => simp [inBounds] at h

theorem allIndexes_nodup (lens : List Nat) : (allIndexes lens).Nodup := by
  have h : ((allIndexes lens).map (ravel lens)).Nodup := by
    rw [(allIndexes_spec lens).1]; exact List.nodup_range
  rw [List.nodup_iff_pairwise_ne] at h ⊢
  exact List.Pairwise.of_map (ravel lens) (fun a b hne e => hne (e ▸ rfl)) h

/-- two lists of `Π lens` elements that agree at the offset of every in-bounds tuple are equal -/
theorem ext_ravel (lens : List Nat) (d₁ d₂ : List α) (h₁ : d₁.length = prod lens)
    (h₂ : d₂.length = prod lens)
    (h : ∀ x, inBounds lens x = true → d₁[ravel lens x]? = d₂[ravel lens x]?) : d₁ = d₂ := by
  apply List.ext_getElem?
  intro k
  by_cases hk : k < prod lens
  · have hk' : k < (allIndexes lens).length := by rw [allIndexes_length]; exact hk
    have hx := (allIndexes_spec lens).2 _ (List.getElem_mem hk')
    have hr : ravel lens (allIndexes lens)[k] = k := by
      have := congrArg (fun l => l[k]?) (allIndexes_spec lens).1
      simpa [List.getElem?_eq_getElem hk', List.getElem?_range hk] using this
    have := h _ hx
    rwa [hr] at this
  · rw [List.getElem?_eq_none (by omega), List.getElem?_eq_none (by omega)]

/-- **The in-place square branch of `reorder_mut` equals `reorder`.**  For an `n × n` tensor and
    any name list: the loop over all index tuples that swaps `[i,j]` with its image under the
    reordering for `j ≥ i` (reading with the old shape and strides throughout) produces exactly
    the data `reorder` collects — in particular the identity ordering is a no-op — and the
    same panic on a non-ordering. -/
theorem reorderMut_square [Inhabited ν] (a b : ν) (n : Nat) (data : List α) (t : Tensor ν α)
    (ht : Tensor.tryFrom [(a, n), (b, n)] data = some t) (names : List ν) :
    t.reorderMut names = t.reorder names := by
  obtain ⟨⟨hc, hnd, hpos⟩, ht'⟩ := (tryFrom_eq_some_iff _ data t).1 ht
  have hab : a ≠ b := by
    simp only [List.map_cons, List.map_nil, List.nodup_cons, List.mem_cons, List.not_mem_nil,
      or_false] at hnd
    exact hnd.1
  have hba : b ≠ a := Ne.symm hab
  have e1 : (a == b) = false := by simp [hab]
  have e2 : (b == a) = false := by simp [hba]
  have hs : t.shape = [(a, n), (b, n)] := by rw [ht']
  have hdata : t.data = data := by rw [ht']
  have hN : data.length = prod [n, n] := hc
  rw [(Tensor.reorder_eq_ofData _ data t ht names).1]
  unfold Tensor.reorderMut
  rw [if_pos (by rw [hs]; simp [isSquare]), hs]
  by_cases hp : IsOrdering [(a, n), (b, n)] names
  · rw [if_pos hp, new_of_perm _ names hnd hp]
    simp only
    rw [mapShapeToRequested_eq_shapeFor _ names (fun m hm => hp.mem_iff.1 hm)]
    -- the two possible orderings
    have hτ : ∃ sw : Bool, ∀ i j, coords [(a, n), (b, n)] names [i, j] = if sw then [j, i] else [i, j] := by
      rcases perm_pair names a b hp with rfl | rfl
      · exact ⟨false, fun i j => by simp [coords, coordOf, List.idxOf_cons, e1, e2]⟩
      · exact ⟨true, fun i j => by simp [coords, coordOf, List.idxOf_cons, e1, e2]⟩
    have hlens : (shapeFor [(a, n), (b, n)] names).map (·.2) = [n, n] := by
      rcases perm_pair names a b hp with rfl | rfl <;> simp [shapeFor, hab]
    obtain ⟨sw, hsw⟩ := hτ
    rw [hlens, shapeIndexes_eq_allIndexes]
    have hdom : ∀ x, inBounds [n, n] x = true →
        inBounds [n, n] (coords [(a, n), (b, n)] names x) = true := by
      intro x hx
      obtain ⟨i, j, rfl, hi, hj⟩ := inBounds_pair n x hx
      rw [hsw]; cases sw <;> simp [inBounds, hi, hj]
    have hfold := foldl_swapStep_ok [(a, n), (b, n)] data t names ht
      (List.map (fun x => List.idxOf x (List.map (fun d : ν × Nat => d.1) [(a, n), (b, n)])) names)
      (allIndexes [n, n])
      (fun idx h => ⟨(mem_allIndexes_iff _ idx).1 h, hdom idx ((mem_allIndexes_iff _ idx).1 h)⟩)
      data hc
    simp only [List.map_cons, List.map_nil] at hfold
    rw [hdata]
    simp only [List.map_cons, List.map_nil]
    rw [hfold]
    simp only
    -- the loop as swaps along the involution `τ`
    have hsw' := foldl_swaps (α := α) (ravel [n, n]) (coords [(a, n), (b, n)] names)
      (fun x => inBounds [n, n] x = true) (prod [n, n])
      (fun x hx => ravel_lt _ _ hx)
      (fun x y hx hy e => ravel_injective _ x y hx hy e)
      hdom
      (by
        intro x hx
        obtain ⟨i, j, rfl, hi, hj⟩ := inBounds_pair n x hx
        cases sw <;> simp [hsw])
      ((allIndexes [n, n]).filter fun idx => decide (idx.getD 1 0 ≥ idx.getD 0 0))
      (fun k hk => (mem_allIndexes_iff _ k).1 (List.mem_filter.1 hk).1)
      ((allIndexes_nodup [n, n]).sublist List.filter_sublist)
      (by
        intro k hk hτk
        obtain ⟨hk1, hk2⟩ := List.mem_filter.1 hk
        obtain ⟨i, j, rfl, hi, hj⟩ := inBounds_pair n k ((mem_allIndexes_iff _ _).1 hk1)
        rw [hsw] at hτk ⊢
        cases sw
        · rfl
        · have := (List.mem_filter.1 hτk).2
          simp only [List.getD_cons_zero, List.getD_cons_succ, decide_eq_true_eq, if_true] at hk2 this ⊢
          have : i = j := by omega
          rw [this])
      data hN
    obtain ⟨hlen, hget⟩ := hsw'
    have hv := reordered_valid (ofData_valid _ data t ht) names hp
    congr 1
    unfold Tensor.ofVal
    congr 1
    apply ext_ravel [n, n] _ _ hlen (by rw [hv.elems_length]; simp only [reordered, ofData_shape, hlens])
    intro x hx
    have he := hv.elems_getElem? x (by simp only [reordered, ofData_shape, hlens]; exact hx)
    simp only [reordered, ofData_shape, hlens] at he
    have he' : (materialise (reordered (ofData [(a, n), (b, n)] data) names)).elems[ravel [n, n] x]? =
        (ofData [(a, n), (b, n)] data).get (coords [(a, n), (b, n)] names x) := he
    rw [he', hget x hx]
    simp only [ofData, List.map_cons, List.map_nil, hdom x hx, if_true]
    obtain ⟨i, j, rfl, hi, hj⟩ := inBounds_pair n x hx
    split
    · rfl
    · rename_i hno
      simp only [not_or, List.mem_filter, not_and, decide_eq_true_eq, mem_allIndexes_iff] at hno
      rw [hsw] at hno ⊢
      cases sw
      · rfl
      · exfalso
        have h1 := hno.1 hx
        have h2 := hno.2 (by simp [inBounds, hi, hj])
        simp only [List.getD_cons_zero, List.getD_cons_succ, if_true] at h1 h2
        omega
  · rw [if_neg hp]
    cases hnew : DimensionMappings.new [(a, n), (b, n)] names with
    | none => rfl
    | some m => exact absurd (perm_of_new _ names m hnd hnew) hp

/-- every shape: the in-place `reorder_mut` equals the allocating `reorder` -/
theorem reorderMut_eq_reorder' [Inhabited ν] (shape : Shape ν) (data : List α) (t : Tensor ν α)
    (ht : Tensor.tryFrom shape data = some t) (names : List ν) :
    t.reorderMut names = t.reorder names := by
  obtain ⟨_, ht'⟩ := (tryFrom_eq_some_iff shape data t).1 ht
  have hs : t.shape = shape := by rw [ht']
  by_cases hsq : t.shape.length = 2 ∧ isSquare t.shape = true
  · rw [hs] at hsq
    obtain ⟨hl, hq⟩ := hsq
    match shape, hl with
    | [(a, n), (b, m)], _ =>
      have : m = n := by simpa [isSquare] using hq
      subst this
      exact reorderMut_square a b m data t ht names
  · unfold Tensor.reorderMut
    rw [if_neg hsq]
    cases t.reorder names with
    | panic k => rfl
    | ok r => rfl

theorem transposeMut_eq_transpose' [Inhabited ν] (shape : Shape ν) (data : List α)
    (t : Tensor ν α) (ht : Tensor.tryFrom shape data = some t) (names : List ν) :
    t.transposeMut names = t.transpose names := by
  unfold Tensor.transposeMut Tensor.transpose TView.transpose
  rw [reorderMut_eq_reorder' shape data t ht names]
  rfl

end EasyMl
