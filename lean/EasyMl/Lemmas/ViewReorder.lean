/-
  EasyMl.Lemmas.ViewReorder — per-adaptor lemmas for C02: reordering / transposition (`DimensionMappings`), stacking, chaining.
-/
import EasyMl.Lemmas.ViewAdaptors

namespace EasyMl
open EasyMl.Spec EasyMl.View

set_option linter.unusedSectionVars false

variable {ν : Type} [DecidableEq ν] [Inhabited ν] {α : Type}

/-! ### reordering (`TensorAccess`) and transposition -/

theorem getD_eq_getElem' {β : Type} {l : List β} {d : Nat} (h : d < l.length) (x : β) :
    l.getD d x = l[d] := by
  simp [List.getD_eq_getElem?_getD, List.getElem?_eq_getElem h]

theorem nodup_getElem_inj {β : Type} {l : List β} (hn : l.Nodup) {i j : Nat} (hi : i < l.length)
    (hj : j < l.length) (h : l[i] = l[j]) : i = j := by
  rw [List.nodup_iff_pairwise_ne, List.pairwise_iff_getElem] at hn
  rcases Nat.lt_trichotomy i j with hlt | heq | hgt
  · exact absurd h (hn i j hi hj hlt)
  · exact heq
  · exact absurd h.symm (hn j i hj hi hgt)

theorem mapShapeToRequested_length {m : DimensionMappings} {sh : Shape ν}
    (hm : MappingOK m sh.length) : (m.mapShapeToRequested sh).length = sh.length := by
  simp [DimensionMappings.mapShapeToRequested, hm.2.1]

theorem mapShapeToRequested_getElem {m : DimensionMappings} {sh : Shape ν}
    (hm : MappingOK m sh.length) {d : Nat} (hd : d < sh.length) :
    (m.mapShapeToRequested sh).getD d (default, 0) =
      sh.getD (m.requestedToSource.getD d 0) (default, 0) := by
  have h1 : d < m.requestedToSource.length := by rw [hm.2.1]; exact hd
  simp [DimensionMappings.mapShapeToRequested, List.getD_eq_getElem?_getD, h1]

theorem mapDimensionsToSource_length {m : DimensionMappings} {D : Nat} (hm : MappingOK m D)
    (idx : List Nat) : (m.mapDimensionsToSource idx).length = D := by
  simp [DimensionMappings.mapDimensionsToSource, hm.1]

theorem mapDimensionsToSource_getD {m : DimensionMappings} {D : Nat} (hm : MappingOK m D)
    (idx : List Nat) {e : Nat} (he : e < D) :
    (m.mapDimensionsToSource idx).getD e 0 = idx.getD (m.sourceToRequested.getD e 0) 0 := by
  have h1 : e < m.sourceToRequested.length := by rw [hm.1]; exact he
  simp [DimensionMappings.mapDimensionsToSource, List.getD_eq_getElem?_getD, h1]

theorem mapDimensionsToSource_bounded {m : DimensionMappings} {idx : List Nat} (hb : Bounded idx) :
    Bounded (m.mapDimensionsToSource idx) := by
  intro i hi
  simp only [DimensionMappings.mapDimensionsToSource, List.mem_map] at hi
  obtain ⟨k, _, rfl⟩ := hi
  exact hb.getD k

theorem lens_getD (sh : Shape ν) (d : Nat) : (lens sh).getD d 0 = (sh.getD d (default, 0)).2 := by
  by_cases hd : d < sh.length
  · simp [lens, List.getD_eq_getElem?_getD, hd]
  · simp [lens, List.getD_eq_getElem?_getD, List.getElem?_eq_none (by omega : sh.length ≤ d)]

theorem access_inBounds {m : DimensionMappings} {sh : Shape ν} {idx : List Nat}
    (hm : MappingOK m sh.length) (hl : idx.length = sh.length) :
    inBounds (lens sh) (m.mapDimensionsToSource idx) = inBounds (lens (m.mapShapeToRequested sh)) idx := by
  rw [Bool.eq_iff_iff, inBounds_iff, inBounds_iff]
  simp only [lens_length, mapDimensionsToSource_length hm, mapShapeToRequested_length hm, hl, true_and]
  obtain ⟨h1, h2, h3, h4⟩ := hm
  constructor
  · intro h d hd
    obtain ⟨hlt, hinv⟩ := h4 d hd
    have := h _ hlt
    rw [mapDimensionsToSource_getD ⟨h1, h2, h3, h4⟩ idx hlt, hinv] at this
    rw [lens_getD, mapShapeToRequested_getElem ⟨h1, h2, h3, h4⟩ hd, ← lens_getD]
    exact this
  · intro h e he
    obtain ⟨hlt, hinv⟩ := h3 e he
    have := h _ hlt
    rw [lens_getD, mapShapeToRequested_getElem ⟨h1, h2, h3, h4⟩ hlt, hinv, ← lens_getD] at this
    rw [mapDimensionsToSource_getD ⟨h1, h2, h3, h4⟩ idx he]
    exact this

theorem mapShapeToRequested_mem {m : DimensionMappings} {sh : Shape ν}
    (hm : MappingOK m sh.length) {x : ν × Nat} (hx : x ∈ m.mapShapeToRequested sh) : x ∈ sh := by
  simp only [DimensionMappings.mapShapeToRequested, List.mem_map] at hx
  obtain ⟨k, hk, rfl⟩ := hx
  obtain ⟨d, hd, rfl⟩ := List.getElem_of_mem hk
  rw [hm.2.1] at hd
  have := (hm.2.2.2 d hd).1
  rw [getD_eq_getElem' (by rw [hm.2.1]; exact hd)] at this
  rw [getD_eq_getElem' this]
  exact List.getElem_mem this

theorem mapShapeToRequested_good {m : DimensionMappings} {sh : Shape ν} (hs : GoodShape sh)
    (hm : MappingOK m sh.length) : GoodShape (m.mapShapeToRequested sh) := by
  rw [goodShape_iff] at hs ⊢
  constructor
  · -- names: an injective reindexing of distinct names
    rw [List.nodup_iff_pairwise_ne, List.pairwise_iff_getElem]
    intro i j hi hj hij heq
    simp only [namesOf_length, mapShapeToRequested_length hm] at hi hj
    have e1 : ∀ k (hk : k < sh.length), (namesOf (m.mapShapeToRequested sh))[k]'(by simp [mapShapeToRequested_length hm, hk]) =
        (namesOf sh)[m.requestedToSource.getD k 0]'(by simp; exact (hm.2.2.2 k hk).1) := by
      intro k hk
      have h1 := mapShapeToRequested_getElem hm hk
      have hr := (hm.2.2.2 k hk).1
      rw [getD_eq_getElem' (by simp [mapShapeToRequested_length hm, hk]), getD_eq_getElem' hr] at h1
      simp [namesOf, h1]
    rw [e1 i hi, e1 j hj] at heq
    have := nodup_getElem_inj hs.1 (by simp; exact (hm.2.2.2 i hi).1) (by simp; exact (hm.2.2.2 j hj).1) heq
    have hi' := (hm.2.2.2 i hi).2
    have hj' := (hm.2.2.2 j hj).2
    rw [this] at hi'
    omega
  · intro l hl
    simp only [lens, List.mem_map] at hl
    obtain ⟨x, hx, rfl⟩ := hl
    exact hs.2 x.2 (by simp only [lens, List.mem_map]; exact ⟨x, mapShapeToRequested_mem hm hx, rfl⟩)

/-- the code's positional mapping is the documented by-name lookup -/
theorem mapDimensionsToSource_eq_coords_of_good {m : DimensionMappings} {sh : Shape ν} (hs : GoodShape sh)
    (hm : MappingOK m sh.length) (idx : List Nat) :
    m.mapDimensionsToSource idx = coords sh (namesOf (m.mapShapeToRequested sh)) idx := by
  apply List.ext_getElem
  · simp [mapDimensionsToSource_length hm, coords]
  · intro e h1 h2
    have he : e < sh.length := by simpa [mapDimensionsToSource_length hm] using h1
    have hg := mapShapeToRequested_good hs hm
    rw [goodShape_iff] at hg
    obtain ⟨hlt, hinv⟩ := hm.2.2.1 e he
    -- the name of source dimension e sits at position s2r[e] of the view's names
    have hlt' : m.sourceToRequested.getD e 0 < (m.mapShapeToRequested sh).length := by
      rw [mapShapeToRequested_length hm]; exact hlt
    have hname : (namesOf (m.mapShapeToRequested sh))[m.sourceToRequested.getD e 0]'(by
        rw [namesOf_length]; exact hlt') = sh[e].1 := by
      have h3 := mapShapeToRequested_getElem hm hlt
      rw [hinv, getD_eq_getElem' hlt', getD_eq_getElem' he] at h3
      simp only [namesOf, List.getElem_map, h3]
    have hidx : (namesOf (m.mapShapeToRequested sh)).idxOf sh[e].1 = m.sourceToRequested.getD e 0 := by
      rw [← hname]
      exact List.Nodup.idxOf_getElem hg.1 _ _
    have := mapDimensionsToSource_getD hm idx he
    rw [getD_eq_getElem' h1] at this
    rw [this]
    simp [coords, coordOf, hidx]

theorem transposeShape_lens {a b : Shape ν} (h : b.length = a.length) :
    lens (transposeShape a b) = lens b := by
  induction a generalizing b with
  | nil => cases b <;> simp_all [transposeShape]
  | cons x xs ih =>
    cases b with
    | nil => simp at h
    | cons y ys => simp at h; simp [transposeShape, ih h]

theorem transposeShape_names {a b : Shape ν} (h : b.length = a.length) :
    namesOf (transposeShape a b) = namesOf a := by
  induction a generalizing b with
  | nil => cases b <;> simp_all [transposeShape]
  | cons x xs ih =>
    cases b with
    | nil => simp at h
    | cons y ys => simp at h; simp [transposeShape, ih h]

theorem transposeShape_good {a b : Shape ν} (ha : GoodShape a) (hb : GoodShape b)
    (h : b.length = a.length) : GoodShape (transposeShape a b) := by
  rw [goodShape_iff] at ha hb ⊢
  rw [transposeShape_lens h, transposeShape_names h]
  exact ⟨ha.1, hb.2⟩

/-! ### stacking -/

theorem stackShape_succ (along : Nat × ν) (n slots d : Nat) (shape : Shape ν) :
    stackShape along n (slots + 1) d shape =
      if d = along.1 then (along.2, n) :: stackShape along n slots (d + 1) shape
      else
        match shape with
        | s :: rest => s :: stackShape along n slots (d + 1) rest
        | [] => [] := by
  simp only [stackShape]
  split
  · rfl
  · cases shape <;> rfl

theorem stackShape_after (along : Nat × ν) (n : Nat) (sh : Shape ν) (d : Nat) (h : along.1 < d) :
    stackShape along n sh.length d sh = sh := by
  induction sh generalizing d with
  | nil => simp [stackShape]
  | cons x xs ih =>
    have : d ≠ along.1 := by omega
    rw [List.length_cons, stackShape_succ]
    simp only [this, if_false]
    rw [ih (d + 1) (by omega)]

theorem stackShape_eq (along : Nat × ν) (n : Nat) (sh : Shape ν) (d : Nat) (h : d ≤ along.1)
    (h2 : along.1 - d ≤ sh.length) :
    stackShape along n (sh.length + 1) d sh = sh.insertIdx (along.1 - d) (along.2, n) := by
  induction sh generalizing d with
  | nil =>
    have : d = along.1 := by simp at h2; omega
    simp [stackShape, this]
  | cons x xs ih =>
    rw [stackShape_succ]
    by_cases hd : d = along.1
    · simp only [hd, if_true, Nat.sub_self, List.insertIdx_zero]
      rw [stackShape_after along n (x :: xs) (along.1 + 1) (by omega)]
    · simp only [hd, if_false]
      have h3 : along.1 - d = (along.1 - (d + 1)) + 1 := by omega
      rw [List.length_cons, ih (d + 1) (by omega) (by simp at h2; omega), h3, List.insertIdx_succ_cons]

theorem stackRest_after (a : Nat) (idx : List Nat) (d : Nat) (h : a < d) : stackRest a d idx = idx := by
  induction idx generalizing d with
  | nil => simp [stackRest]
  | cons i is ih =>
    have : d ≠ a := by omega
    simp [stackRest, this, ih (d + 1) (by omega)]

theorem stackRest_eq (a : Nat) (idx : List Nat) (d : Nat) (h : d ≤ a) :
    stackRest a d idx = idx.eraseIdx (a - d) := by
  induction idx generalizing d with
  | nil => simp [stackRest]
  | cons i is ih =>
    by_cases hd : d = a
    · simp [stackRest, hd, stackRest_after a is (a + 1) (by omega)]
    · have h3 : a - d = (a - (d + 1)) + 1 := by omega
      simp only [stackRest, ne_eq, hd, not_false_eq_true, if_true]
      rw [ih (d + 1) (by omega), h3, List.eraseIdx_cons_succ]

theorem insertIdx_inBounds (ls : List Nat) (a n : Nat) (idx : List Nat) (ha : a ≤ ls.length)
    (hl : idx.length = ls.length + 1) :
    inBounds (ls.insertIdx a n) idx = (decide (idx.getD a 0 < n) && inBounds ls (idx.eraseIdx a)) := by
  induction a generalizing ls idx with
  | zero =>
    cases idx with
    | nil => simp at hl
    | cons i is => simp
  | succ a ih =>
    cases ls with
    | nil => simp at ha
    | cons l ls =>
      cases idx with
      | nil => simp at hl
      | cons i is =>
        simp only [List.length_cons, Nat.add_le_add_iff_right, Nat.add_right_cancel_iff] at ha hl
        simp only [List.insertIdx_succ_cons, inBounds_cons_cons, List.getD_cons_succ,
          List.eraseIdx_cons_succ, ih ls is ha hl]
        cases decide (i < l) <;> cases decide (is.getD a 0 < n) <;> simp

theorem lens_insertIdx (sh : Shape ν) (a : Nat) (x : ν × Nat) :
    lens (sh.insertIdx a x) = (lens sh).insertIdx a x.2 := by
  induction a generalizing sh with
  | zero => simp [lens]
  | succ a ih =>
    cases sh with
    | nil => simp [lens]
    | cons d ds => simp [List.insertIdx_succ_cons, ih]

theorem namesOf_insertIdx (sh : Shape ν) (a : Nat) (x : ν × Nat) :
    namesOf (sh.insertIdx a x) = (namesOf sh).insertIdx a x.1 := by
  induction a generalizing sh with
  | zero => simp [namesOf]
  | succ a ih =>
    cases sh with
    | nil => simp [namesOf]
    | cons d ds => simp [List.insertIdx_succ_cons, ih]

theorem insertIdx_good {sh : Shape ν} (hs : GoodShape sh) (a : Nat) (x : ν × Nat) (ha : a ≤ sh.length)
    (hx : x.1 ∉ namesOf sh) (h1 : 1 ≤ x.2) (h2 : x.2 ≤ usizeMax) : GoodShape (sh.insertIdx a x) := by
  induction a generalizing sh with
  | zero => simp only [List.insertIdx_zero, goodShape_cons]; exact ⟨hx, h1, h2, hs⟩
  | succ a ih =>
    cases sh with
    | nil => simp at ha
    | cons d ds =>
      rw [goodShape_cons] at hs
      simp only [namesOf_cons, List.mem_cons, not_or] at hx
      simp only [List.length_cons, Nat.add_le_add_iff_right] at ha
      simp only [List.insertIdx_succ_cons, goodShape_cons, namesOf_insertIdx]
      refine ⟨?_, hs.2.1, hs.2.2.1, ih hs.2.2.2 ha hx.2⟩
      intro hc
      rcases (List.mem_insertIdx (by rw [namesOf_length]; exact ha)).1 hc with h | h
      · exact hx.1 h.symm
      · exact hs.1 h

/-! ### chaining -/

/-- `chainLocate` finds the source whose span of positions contains `i`. -/
theorem chainLocate_spec (ls : List Nat) (i : Nat) :
    match chainLocate ls i with
    | none => ls.sum ≤ i
    | some (k, j) => k < ls.length ∧ j < ls.getD k 0 ∧ i = (ls.take k).sum + j ∧ i < ls.sum := by
  induction ls generalizing i with
  | nil => simp [chainLocate]
  | cons l ls ih =>
    simp only [chainLocate]
    by_cases h : i < l
    · simp only [h, if_true]; simp; omega
    · simp only [h, if_false]
      have := ih (i - l)
      cases hc : chainLocate ls (i - l) with
      | none => simp only [hc] at this; simp; omega
      | some p =>
        obtain ⟨k, j⟩ := p
        simp only [hc] at this
        simp only [Option.map_some, List.length_cons, List.getD_cons_succ, List.take_succ_cons,
          List.sum_cons]
        omega

theorem chainIndexingGo_eq (idx : List Nat) (a : Nat) (shapes : List (Shape ν)) (k i : Nat) :
    chainIndexingGo idx a shapes k i =
      (chainLocate (chainLens shapes a) i).map fun p => (k + p.1, idx.set a p.2) := by
  induction shapes generalizing k i with
  | nil => simp [chainIndexingGo, chainLens, chainLocate]
  | cons sh rest ih =>
    simp only [chainIndexingGo, chainLens, List.map_cons, chainLocate]
    by_cases h : i < (sh.getD a (default, 0)).2
    · simp only [h, if_true, Option.map_some, Nat.add_zero]
    · simp only [h, if_false]
      have := ih (k + 1) (i - (sh.getD a (default, 0)).2)
      simp only [chainLens] at this
      rw [this]
      cases chainLocate (List.map (fun s => (s.getD a (default, 0)).2) rest) (i - (sh.getD a (default, 0)).2) with
      | none => simp
      | some p => simp; omega

theorem chainShape_eq (f : Shape ν) (shapes : List (Shape ν)) (a : Nat) (ha : a < f.length) :
    chainShape f shapes a = f.set a ((f.getD a (default, 0)).1, (chainLens shapes a).sum) := by
  simp [chainShape, chainLens, List.getElem?_eq_getElem ha]

theorem lens_set (sh : Shape ν) (a : Nat) (x : ν × Nat) : lens (sh.set a x) = (lens sh).set a x.2 := by
  simp [lens, List.map_set]

theorem namesOf_set_same (sh : Shape ν) (a n : Nat) :
    namesOf (sh.set a ((sh.getD a (default, 0)).1, n)) = namesOf sh := by
  induction sh generalizing a with
  | nil => simp
  | cons d ds ih =>
    cases a with
    | zero => simp
    | succ a => simpa using ih a

theorem set_good {sh : Shape ν} (hs : GoodShape sh) (a n : Nat) (h1 : 1 ≤ n) (h2 : n ≤ usizeMax) :
    GoodShape (sh.set a ((sh.getD a (default, 0)).1, n)) := by
  rw [goodShape_iff] at hs ⊢
  rw [namesOf_set_same, lens_set]
  refine ⟨hs.1, ?_⟩
  intro l hl
  rcases List.mem_or_eq_of_mem_set hl with h | h
  · exact hs.2 l h
  · simp at h; omega

theorem inBounds_set_set (ls idx : List Nat) (a n j : Nat) (hl : idx.length = ls.length) :
    inBounds (ls.set a n) (idx.set a j) =
      (decide (j < n ∨ ls.length ≤ a) && inBounds (ls.set a 1) (idx.set a 0)) := by
  induction ls generalizing idx a with
  | nil => cases idx <;> simp_all
  | cons l ls ih =>
    cases idx with
    | nil => simp at hl
    | cons i is =>
      simp only [List.length_cons, Nat.add_right_cancel_iff] at hl
      cases a with
      | zero => simp
      | succ a =>
        simp only [List.set_cons_succ, inBounds_cons_cons, ih is a hl, List.length_cons,
          Nat.add_le_add_iff_right]
        cases decide (i < l) <;> simp

theorem set_getD_self (idx : List Nat) (a : Nat) : idx.set a (idx.getD a 0) = idx := by
  induction idx generalizing a with
  | nil => simp
  | cons i is ih =>
    cases a with
    | zero => simp
    | succ a => simpa using ih a

end EasyMl
