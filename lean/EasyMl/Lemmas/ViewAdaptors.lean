/-
  EasyMl.Lemmas.ViewAdaptors — per-adaptor lemmas for C02: what each index helper of the model
  returns, compared with the documented coordinate map and with the bounds check of the view's
  shape (sub-range, mask, reversal, rename, fixed-index selection, the two kinds of leaves).
-/
import EasyMl.Lemmas.ViewBasic

namespace EasyMl
open EasyMl.Spec EasyMl.View

set_option linter.unusedSectionVars false

variable {ν : Type} [DecidableEq ν] [Inhabited ν] {α : Type}

/-! ### range -/

theorem rangeShape_names {sh : Shape ν} {rs : List IndexRange} (h : RangesOK sh rs) :
    namesOf (rangeShape sh rs) = namesOf sh := by
  induction sh generalizing rs with
  | nil => cases rs <;> simp_all [RangesOK, rangeShape]
  | cons d ds ih =>
    cases rs with
    | nil => simp [RangesOK] at h
    | cons r rs => simp only [RangesOK] at h; simp [rangeShape, ih h.2]

theorem rangeShape_good {sh : Shape ν} {rs : List IndexRange} (hs : GoodShape sh)
    (h : RangesOK sh rs) : GoodShape (rangeShape sh rs) := by
  induction sh generalizing rs with
  | nil => cases rs <;> simp_all [RangesOK, rangeShape]
  | cons d ds ih =>
    cases rs with
    | nil => simp [RangesOK] at h
    | cons r rs =>
      simp only [RangesOK] at h
      rw [goodShape_cons] at hs
      simp only [rangeShape, goodShape_cons, rangeShape_names h.2]
      exact ⟨hs.1, h.1.1, by omega, ih hs.2.2.2 h.2⟩

theorem mapIndexesByRange_eq {sh : Shape ν} {rs : List IndexRange} {idx : List Nat}
    (hs : GoodShape sh) (h : RangesOK sh rs) (hl : idx.length = sh.length) :
    mapIndexesByRange idx rs =
      .ok (if inBounds (lens (rangeShape sh rs)) idx then some (rangeCoords idx rs) else none) := by
  induction sh generalizing rs idx with
  | nil =>
    cases rs <;> cases idx <;> simp_all [RangesOK, rangeShape, mapIndexesByRange, rangeCoords]
  | cons d ds ih =>
    cases rs with
    | nil => simp [RangesOK] at h
    | cons r rs =>
      cases idx with
      | nil => simp at hl
      | cons i is =>
        simp only [RangesOK] at h
        rw [goodShape_cons] at hs
        simp only [List.length_cons, Nat.add_right_cancel_iff] at hl
        simp only [mapIndexesByRange, rangeShape, lens_cons, inBounds_cons_cons, IndexRange.map]
        by_cases hi : i < r.length
        · have : i + r.start ≤ usizeMax := by omega
          simp only [hi, if_true, cadd, this, obind_some, ih hs.2.2.2 h.2 hl, decide_true, Bool.true_and]
          by_cases hb : inBounds (lens (rangeShape ds rs)) is = true
          · simp [hb, rangeCoords]
          · simp [hb]
        · simp [hi]

theorem rangeCoords_inBounds {sh : Shape ν} {rs : List IndexRange} {idx : List Nat}
    (h : RangesOK sh rs) (hb : inBounds (lens (rangeShape sh rs)) idx = true) :
    inBounds (lens sh) (rangeCoords idx rs) = true := by
  induction sh generalizing rs idx with
  | nil => cases rs <;> cases idx <;> simp_all [RangesOK, rangeShape, rangeCoords]
  | cons d ds ih =>
    cases rs with
    | nil => simp [RangesOK] at h
    | cons r rs =>
      cases idx with
      | nil => simp [rangeShape] at hb
      | cons i is =>
        simp only [RangesOK] at h
        simp only [rangeShape, lens_cons, inBounds_cons_cons, Bool.and_eq_true, decide_eq_true_eq] at hb
        simp only [rangeCoords, List.zipWith_cons_cons, lens_cons, inBounds_cons_cons, Bool.and_eq_true,
          decide_eq_true_eq]
        exact ⟨by omega, ih h.2 hb.2⟩

/-! ### mask -/

theorem maskShape_names {sh : Shape ν} {ms : List IndexRange} (h : MasksOK sh ms) :
    namesOf (maskShape sh ms) = namesOf sh := by
  induction sh generalizing ms with
  | nil => cases ms <;> simp_all [MasksOK, maskShape]
  | cons d ds ih =>
    cases ms with
    | nil => simp [MasksOK] at h
    | cons r rs => simp only [MasksOK] at h; simp [maskShape, ih h.2]

theorem maskShape_good {sh : Shape ν} {ms : List IndexRange} (hs : GoodShape sh)
    (h : MasksOK sh ms) : GoodShape (maskShape sh ms) := by
  induction sh generalizing ms with
  | nil => cases ms <;> simp_all [MasksOK, maskShape]
  | cons d ds ih =>
    cases ms with
    | nil => simp [MasksOK] at h
    | cons r rs =>
      simp only [MasksOK] at h
      rw [goodShape_cons] at hs
      simp only [maskShape, goodShape_cons, maskShape_names h.2]
      exact ⟨hs.1, by omega, by omega, ih hs.2.2.2 h.2⟩

/-- The checked mask mapping: either it already knows the index is outside (`none`), or it hands
    the source an index that is inside the source exactly when the original is inside the view,
    and that is the documented one in that case. -/
theorem mapIndexesByMaskChecked_spec {sh : Shape ν} {ms : List IndexRange} {idx : List Nat}
    (hs : GoodShape sh) (h : MasksOK sh ms) (hl : idx.length = sh.length) (hb : Bounded idx) :
    match mapIndexesByMaskChecked idx ms with
    | none => inBounds (lens (maskShape sh ms)) idx = false
    | some mapped =>
      mapped.length = sh.length ∧ Bounded mapped ∧
      inBounds (lens sh) mapped = inBounds (lens (maskShape sh ms)) idx ∧
      (inBounds (lens (maskShape sh ms)) idx = true → mapped = maskCoords idx ms) := by
  induction sh generalizing ms idx with
  | nil =>
    cases ms <;> cases idx <;> simp_all [MasksOK, maskShape, mapIndexesByMaskChecked, maskCoords]
  | cons d ds ih =>
    cases ms with
    | nil => simp [MasksOK] at h
    | cons m ms =>
      cases idx with
      | nil => simp at hl
      | cons i is =>
        simp only [MasksOK] at h
        rw [goodShape_cons] at hs
        simp only [List.length_cons, Nat.add_right_cancel_iff] at hl
        simp only [bounded_cons] at hb
        have ih' := ih (ms := ms) (idx := is) hs.2.2.2 h.2 hl hb.2
        simp only [mapIndexesByMaskChecked, maskShape, lens_cons, inBounds_cons_cons, IndexRange.tryMask]
        by_cases h1 : i < m.start
        · simp only [h1, if_true]
          cases hm : mapIndexesByMaskChecked is ms with
          | none => simp only [hm] at ih'; simp [ih']
          | some mapped =>
            simp only [hm] at ih'
            obtain ⟨a, b, c, e⟩ := ih'
            refine ⟨by simp [a], by simp [b]; omega, ?_, ?_⟩
            · simp only [inBounds_cons_cons, c]
              congr 1
              simp only [decide_eq_decide]
              omega
            · intro hh
              simp only [Bool.and_eq_true, decide_eq_true_eq] at hh
              simp [maskCoords, h1, e hh.2] 
        · simp only [h1, if_false]
          by_cases h2 : i + m.length ≤ usizeMax
          · simp only [h2, if_true]
            cases hm : mapIndexesByMaskChecked is ms with
            | none => simp only [hm] at ih'; simp [ih']
            | some mapped =>
              simp only [hm] at ih'
              obtain ⟨a, b, c, e⟩ := ih'
              refine ⟨by simp [a], by simp [b]; omega, ?_, ?_⟩
              · simp only [inBounds_cons_cons, c]
                congr 1
                simp only [decide_eq_decide]
                omega
              · intro hh
                simp only [Bool.and_eq_true, decide_eq_true_eq] at hh
                simp [maskCoords, h1, e hh.2]
          · simp only [h2, if_false]
            have : ¬ i < d.2 - m.length := by omega
            simp [this]

/-! ### reverse -/

theorem tryReverseIndexes_spec {ls : List Nat} {r : List Bool} {idx : List Nat}
    (hr : r.length = ls.length) (hl : idx.length = ls.length) (hb : Bounded idx)
    (hls : ∀ l ∈ ls, l ≤ usizeMax) :
    match tryReverseIndexes idx ls r with
    | none => inBounds ls idx = false
    | some mapped =>
      mapped.length = ls.length ∧ Bounded mapped ∧ inBounds ls mapped = inBounds ls idx ∧
      (inBounds ls idx = true → mapped = reverseCoords idx ls r) := by
  induction ls generalizing r idx with
  | nil => cases r <;> cases idx <;> simp_all [tryReverseIndexes, reverseCoords]
  | cons l ls ih =>
    cases r with
    | nil => simp at hr
    | cons b bs =>
      cases idx with
      | nil => simp at hl
      | cons i is =>
        simp only [List.length_cons, Nat.add_right_cancel_iff] at hr hl
        simp only [bounded_cons] at hb
        have hl0 := hls l (by simp)
        have ih' := ih (r := bs) (idx := is) hr hl hb.2 (fun x hx => hls x (by simp [hx]))
        simp only [tryReverseIndexes]
        cases b with
        | true =>
          simp only [if_true]
          by_cases h1 : i ≥ l
          · have : ¬ i < l := by omega
            simp [h1, this]
          · simp only [h1, if_false]
            cases hm : tryReverseIndexes is ls bs with
            | none => simp only [hm] at ih'; simp [ih']
            | some mapped =>
              simp only [hm] at ih'
              obtain ⟨a, b, c, e⟩ := ih'
              simp only [Option.map_some]
              refine ⟨by simp [a], by simp [b]; omega, ?_, ?_⟩
              · simp only [inBounds_cons_cons, c]
                congr 1
                simp only [decide_eq_decide]
                omega
              · intro hh
                simp only [inBounds_cons_cons, Bool.and_eq_true, decide_eq_true_eq] at hh
                simp [reverseCoords, e hh.2]
        | false =>
          simp only [Bool.false_eq_true, if_false]
          cases hm : tryReverseIndexes is ls bs with
          | none => simp only [hm] at ih'; simp [ih']
          | some mapped =>
            simp only [hm] at ih'
            obtain ⟨a, b, c, e⟩ := ih'
            simp only [Option.map_some]
            refine ⟨by simp [a], by simp [b]; omega, ?_, ?_⟩
            · simp only [inBounds_cons_cons, c]
            · intro hh
              simp only [inBounds_cons_cons, Bool.and_eq_true, decide_eq_true_eq] at hh
              simp [reverseCoords, e hh.2]

/-! ### rename -/

theorem renameShape_lens {sh : Shape ν} {ns : List ν} (h : ns.length = sh.length) :
    lens (renameShape sh ns) = lens sh := by
  induction sh generalizing ns with
  | nil => cases ns <;> simp_all [renameShape]
  | cons d ds ih =>
    cases ns with
    | nil => simp at h
    | cons n ns => simp at h; simp [renameShape, ih h]

theorem renameShape_names {sh : Shape ν} {ns : List ν} (h : ns.length = sh.length) :
    namesOf (renameShape sh ns) = ns := by
  induction sh generalizing ns with
  | nil => cases ns <;> simp_all [renameShape]
  | cons d ds ih =>
    cases ns with
    | nil => simp at h
    | cons n ns => simp at h; simp [renameShape, ih h]

theorem renameShape_good {sh : Shape ν} {ns : List ν} (hs : GoodShape sh)
    (h : ns.length = sh.length) (hn : ns.Nodup) : GoodShape (renameShape sh ns) := by
  rw [goodShape_iff] at hs ⊢
  rw [renameShape_lens h, renameShape_names h]
  exact ⟨hn, hs.2⟩

/-! ### fixed-index selection -/

theorem indexShape_names_subset {sh : Shape ν} {p : List (Option Nat)} {n : ν}
    (h : n ∈ namesOf (indexShape sh p)) : n ∈ namesOf sh := by
  induction sh generalizing p with
  | nil => cases p <;> simp [indexShape] at h
  | cons d ds ih =>
    cases p with
    | nil => simp [indexShape] at h
    | cons o ps =>
      cases o with
      | none =>
        simp only [indexShape, namesOf_cons, List.mem_cons] at h ⊢
        rcases h with h | h
        · exact Or.inl h
        · exact Or.inr (ih h)
      | some x =>
        simp only [indexShape] at h
        simp only [namesOf_cons, List.mem_cons]
        exact Or.inr (ih h)

theorem indexShape_good {sh : Shape ν} {p : List (Option Nat)} (hs : GoodShape sh) :
    GoodShape (indexShape sh p) := by
  induction sh generalizing p with
  | nil => cases p <;> simp [indexShape, goodShape_nil]
  | cons d ds ih =>
    rw [goodShape_cons] at hs
    cases p with
    | nil => simp [indexShape, goodShape_nil]
    | cons o ps =>
      cases o with
      | none =>
        simp only [indexShape, goodShape_cons]
        exact ⟨fun hc => hs.1 (indexShape_names_subset hc), hs.2.1, hs.2.2.1, ih hs.2.2.2⟩
      | some x => simp only [indexShape]; exact ih hs.2.2.2

theorem computeSelectIndexes_spec {sh : Shape ν} {p : List (Option Nat)} {idx : List Nat}
    (hs : GoodShape sh) (h : ProvidedOK sh p) (hl : idx.length = (indexShape sh p).length)
    (hb : Bounded idx) :
    computeSelectIndexes p idx = some (selectCoords p idx) ∧
    (selectCoords p idx).length = sh.length ∧ Bounded (selectCoords p idx) ∧
    inBounds (lens sh) (selectCoords p idx) = inBounds (lens (indexShape sh p)) idx := by
  induction sh generalizing p idx with
  | nil =>
    cases p with
    | nil => cases idx <;> simp_all [indexShape, computeSelectIndexes, selectCoords]
    | cons o ps => cases o <;> simp [ProvidedOK] at h
  | cons d ds ih =>
    rw [goodShape_cons] at hs
    cases p with
    | nil => simp [ProvidedOK] at h
    | cons o ps =>
      cases o with
      | some x =>
        simp only [ProvidedOK] at h
        simp only [indexShape] at hl
        obtain ⟨a, b, c, e⟩ := ih (p := ps) (idx := idx) hs.2.2.2 h.2 hl hb
        refine ⟨by simp [computeSelectIndexes, selectCoords, a], by simp [selectCoords, b],
          by simp [selectCoords, c]; omega, ?_⟩
        simp [selectCoords, indexShape, e, h.1]
      | none =>
        simp only [ProvidedOK] at h
        cases idx with
        | nil => simp [indexShape] at hl
        | cons i is =>
          simp only [indexShape, List.length_cons, Nat.add_right_cancel_iff] at hl
          simp only [bounded_cons] at hb
          obtain ⟨a, b, c, e⟩ := ih (p := ps) (idx := is) hs.2.2.2 h hl hb.2
          refine ⟨by simp [computeSelectIndexes, selectCoords, a], by simp [selectCoords, b],
            by simp [selectCoords, c, hb.1], ?_⟩
          simp [selectCoords, indexShape, e]

/-! ### leaves -/

theorem elements_pos {s : Shape ν} (h : ∀ d ∈ s, 1 ≤ d.2) : 1 ≤ elements s := by
  induction s with
  | nil => simp
  | cons x xs ih =>
    simp only [elements_cons]
    exact Nat.mul_le_mul (h x (by simp)) (ih fun d hd => h d (by simp [hd]))

theorem le_elements {s : Shape ν} (h : ∀ d ∈ s, 1 ≤ d.2) : ∀ d ∈ s, d.2 ≤ elements s := by
  induction s with
  | nil => simp
  | cons x xs ih =>
    intro d hd
    have hx := h x (by simp)
    have hxs : ∀ d ∈ xs, 1 ≤ d.2 := fun d hd => h d (by simp [hd])
    simp only [elements_cons]
    simp only [List.mem_cons] at hd
    rcases hd with rfl | hd
    · exact Nat.le_mul_of_pos_right _ (elements_pos hxs)
    · exact Nat.le_trans (ih hxs d hd) (Nat.le_mul_of_pos_left _ hx)

theorem tensorGet_eq (id : Nat) (t : Tensor ν α) (idx : List Nat)
    (hw : ValidShape t.shape ∧ t.strides = computeStrides t.shape ∧
      t.data.length = elements t.shape ∧ t.data.length ≤ usizeMax)
    (hl : idx.length = t.shape.length) :
    tensorGet id t idx =
      .ok (if inBounds (lens t.shape) idx then some (id, ravel (lens t.shape) idx) else none) := by
  obtain ⟨_, hst, hd, _⟩ := hw
  have := getIndexDirectGo_eq t.shape idx 0 hl
  simp only [Nat.zero_add] at this
  simp only [tensorGet, Tensor.offset, getIndexDirect, hst, lens, this]
  by_cases hb : inBounds (List.map (fun x => x.2) t.shape) idx = true
  · have hlt := ravel_lt _ _ hb
    have : ravel (List.map (fun x => x.2) t.shape) idx < t.data.length := by
      rw [hd]; exact hlt
    simp [hb, this]
  · simp [hb]

theorem tensor_shape_good (t : Tensor ν α)
    (hw : ValidShape t.shape ∧ t.strides = computeStrides t.shape ∧
      t.data.length = elements t.shape ∧ t.data.length ≤ usizeMax) : GoodShape t.shape := by
  obtain ⟨hv, _, hd, hm⟩ := hw
  refine ⟨hv, ?_⟩
  intro d hdm
  have := le_elements hv.2 d hdm
  omega

theorem matrixGet_eq (id : Nat) (m : Matrix α) (idx : List Nat) (hw : m.Inv)
    (hl : idx.length = 2) :
    matrixGet id m idx =
      .ok (if inBounds [m.rows, m.columns] idx then some (id, ravel [m.rows, m.columns] idx) else none) := by
  match idx, hl with
  | [r, c], _ =>
    obtain ⟨hd, hr, hc⟩ := hw
    simp only [matrixGet, List.getD_cons_zero, List.getD_cons_succ, Matrix.getIndex,
      inBounds_cons_cons, inBounds_nil_nil, Bool.and_true, Bool.and_eq_true, decide_eq_true_eq,
      ravel, prod_cons, prod_nil, Nat.mul_one, Nat.add_zero]
    by_cases h : r < m.rows ∧ c < m.columns
    · have : c + r * m.columns < m.data.length := by
        rw [hd]
        calc c + r * m.columns < m.columns + r * m.columns := by omega
          _ = (r + 1) * m.columns := by rw [Nat.add_mul]; omega
          _ ≤ m.rows * m.columns := Nat.mul_le_mul_right _ h.1
      simp only [h, and_self, if_true, this]
      rw [Nat.add_comm]
    · simp [h]

end EasyMl
