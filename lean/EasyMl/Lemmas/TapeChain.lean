/-
  EasyMl.Lemmas.TapeChain — the chain rule through `Record::unary` / `Record::binary` with
  arbitrary user-supplied closures, directly on the tape: the derivatives reported for the result
  are the derivatives reported for the operand(s), times what the closures returned.
-/
import EasyMl.Lemmas.TapeProg
import EasyMl.Lemmas.TapeSession

namespace EasyMl

set_option linter.unusedSectionVars false

variable {R : Type} [CommRing R] [Div R] [RealFns R]

theorem unary_chain (a : Rec R) (fx dfx : R → R) (w : World R) (h : Nat)
    (hw : Tape.WF (w h)) (hah : a.history = some h) (hai : a.index < (w h).length) :
    ∃ adjA adjY, a.derivatives w = .ok adjA ∧
      (a.unary fx dfx w).1.derivatives (a.unary fx dfx w).2 = .ok adjY ∧
      (a.unary fx dfx w).1.number = fx a.number ∧
      (∀ q, q < (w h).length → adjY.getD q 0 = dfx a.number * adjA.getD q 0) := by
  have hres : a.unary fx dfx w = (⟨fx a.number, some h, (w h).length⟩,
      w.update h (w h ++ [⟨a.index, (w h).length, dfx a.number, 0⟩])) := by
    unfold Rec.unary; rw [hah]; rfl
  have hwf' : Tape.WF (w h ++ [(⟨a.index, (w h).length, dfx a.number, 0⟩ : Op R)]) :=
    Tape.WF_snoc _ _ hw (Or.inl hai) (Or.inr ⟨rfl, rfl⟩)
  obtain ⟨adjA, hA, _, hAq⟩ := sweep_adjoint (w h) hw a.index hai
  obtain ⟨adjY, hY, _, hYq⟩ := sweep_adjoint _ hwf' (w h).length (by simp)
  refine ⟨adjA, adjY, ?_, ?_, ?_, ?_⟩
  · rw [Rec.derivatives_some a w h hah]; exact hA
  · rw [hres, Rec.derivatives_some _ _ h rfl]
    simp only [World.update, if_true]
    exact hY
  · rw [hres]
  · intro q hq
    rw [hYq q, hAq q, tapeTan_snoc_last]
    have : (w h).length ≠ q := by omega
    simp [this]

theorem binary_chain (a b : Rec R) (fxy dfx dfy : R → R → R) (w : World R) (h : Nat)
    (hw : Tape.WF (w h)) (hah : a.history = some h) (hai : a.index < (w h).length)
    (hbh : b.history = some h) (hbi : b.index < (w h).length) :
    ∃ r w' adjA adjB adjY, a.binary b fxy dfx dfy w = .ok (r, w') ∧
      a.derivatives w = .ok adjA ∧ b.derivatives w = .ok adjB ∧ r.derivatives w' = .ok adjY ∧
      r.number = fxy a.number b.number ∧
      ∀ q, q < (w h).length →
        adjY.getD q 0
          = dfx a.number b.number * adjA.getD q 0 + dfy a.number b.number * adjB.getD q 0 := by
  have hres : a.binary b fxy dfx dfy w = .ok (⟨fxy a.number b.number, some h, (w h).length⟩,
      w.update h (w h ++ [⟨a.index, b.index, dfx a.number b.number, dfy a.number b.number⟩])) := by
    unfold Rec.binary
    have hs : Rec.sameList a b = true := by simp [Rec.sameList, hah, hbh]
    simp only [hs, hah, hbh]
    rfl
  have hwf' : Tape.WF (w h ++ [(⟨a.index, b.index, dfx a.number b.number,
      dfy a.number b.number⟩ : Op R)]) :=
    Tape.WF_snoc _ _ hw (Or.inl hai) (Or.inl hbi)
  obtain ⟨adjA, hA, _, hAq⟩ := sweep_adjoint (w h) hw a.index hai
  obtain ⟨adjB, hB, _, hBq⟩ := sweep_adjoint (w h) hw b.index hbi
  obtain ⟨adjY, hY, _, hYq⟩ := sweep_adjoint _ hwf' (w h).length (by simp)
  refine ⟨_, _, adjA, adjB, adjY, hres, ?_, ?_, ?_, rfl, ?_⟩
  · rw [Rec.derivatives_some a w h hah]; exact hA
  · rw [Rec.derivatives_some b w h hbh]; exact hB
  · rw [Rec.derivatives_some _ _ h rfl]
    simp only [World.update, if_true]
    exact hY
  · intro q hq
    rw [hYq q, hAq q, hBq q, tapeTan_snoc_last]
    have : (w h).length ≠ q := by omega
    simp [this]

end EasyMl
