/-
  EasyMl.Lemmas.ArithChecked — the arithmetic model at integers with overflow checks
  (Model/ArithChecked.lean): the generic left fold of `scalar_product` is the checked fold in
  evaluation order.  Core Lean only.
-/
import EasyMl.Lemmas.ArithCompose
import EasyMl.Model.ArithChecked

namespace EasyMl.Arith
open EasyMl EasyMl.Spec EasyMl.Num

theorem lift2_ok {t : IntTy} (f : Val t → Val t → Outcome (Val t)) (a b : Val t) :
    lift2 f (.ok a) (.ok b) = f a b := rfl

/-- the left-folded sum of products of `scalar_product` over checked integers is the checked
    fold in evaluation order -/
theorem leftSum_ck {t : IntTy} (a b : Nat → Val t) (n : Nat) :
    leftSum (fun p => (Outcome.ok (a p) : Ck t) * Outcome.ok (b p)) n
      = ckLeftSum (fun p => pMul t (a p) (b p)) n := by
  induction n with
  | zero => rfl
  | succ n ih =>
    simp only [leftSum, ckLeftSum, ih]
    rfl

/-- collapsing a list of computed cells = running the computations in order -/
theorem collapse_map {t : IntTy} {γ : Type} (f : γ → Outcome (Val t)) (l : List γ) :
    collapse (l.map f) = outcomeMapM f l := by
  induction l with
  | nil => rfl
  | cons x xs ih =>
    simp only [collapse, List.map_cons, outcomeMapM, id] at ih ⊢
    rw [ih]

end EasyMl.Arith
