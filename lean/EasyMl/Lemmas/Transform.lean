/-
  EasyMl.Lemmas.Transform — helper lemmas for C13: valid views, materialisation, the access /
  transpose / rename views, iteration = materialisation.
-/
import EasyMl.Lemmas.ShapeIter
import EasyMl.Lemmas.Mappings

namespace EasyMl
open EasyMl.Spec

set_option linter.unusedSectionVars false

variable {ν : Type} [DecidableEq ν] {α β : Type}

/-! ### glue between the code-shaped model and the specification -/

/-- a source of the model, as the specification's lazy view -/
def TView.lazy (v : TView ν α) : LazyView ν α := { shape := v.shape, get := v.get }

/-- the tensor storing a value: its elements as data, row-major strides -/
def Tensor.ofVal (v : TVal ν α) : Tensor ν α :=
  { data := v.elems, shape := v.shape, strides := computeStrides v.shape }

@[simp] theorem ofData_shape (shape : Shape ν) (data : List α) :
    (ofData shape data).shape = shape := rfl

@[simp] theorem TView.lazy_shape (v : TView ν α) : v.lazy.shape = v.shape := rfl
@[simp] theorem TView.lazy_get (v : TView ν α) : v.lazy.get = v.get := rfl

/-- iterating a source is listing the elements of its lazy view -/
theorem TView.iter_eq (v : TView ν α) : v.iter = (materialise v.lazy).elems := by
  simp [TView.iter, materialise, shapeIndexes_eq_allIndexes]

theorem TView.iterWithIndex_eq (v : TView ν α) :
    v.iterWithIndex =
      (allIndexes (v.shape.map (·.2))).filterMap fun idx => (v.get idx).map fun x => (idx, x) := by
  simp [TView.iterWithIndex, shapeIndexes_eq_allIndexes]

/-! ### elements of a valid view -/

theorem filterMap_congr' {γ δ : Type} (f g : γ → Option δ) (l : List γ)
    (h : ∀ x ∈ l, f x = g x) : l.filterMap f = l.filterMap g := by
  induction l with
  | nil => rfl
  | cons x xs ih =>
    simp only [List.filterMap_cons, h x (by simp)]
    rw [ih fun z hz => h z (by simp [hz])]

theorem filterMap_map_some {γ δ : Type} (f : γ → Option δ) (l : List γ)
    (h : ∀ x ∈ l, (f x).isSome = true) : (l.filterMap f).map some = l.map f := by
  induction l with
  | nil => rfl
  | cons x xs ih =>
    have hx := h x (by simp)
    obtain ⟨y, hy⟩ := Option.isSome_iff_exists.1 hx
    simp only [List.filterMap_cons, hy, List.map_cons]
    rw [ih fun z hz => h z (by simp [hz])]

theorem Spec.LazyView.Valid.isSome_of_mem {v : LazyView ν α} (hv : v.Valid) (x : List Nat)
    (hx : x ∈ allIndexes (v.shape.map (·.2))) : (v.get x).isSome = true := by
  have hb := (mem_allIndexes_iff _ x).1 hx
  have hl := inBounds_length _ _ hb
  rw [hv.get x (by simpa using hl), hb]

theorem Spec.LazyView.Valid.elems_map_some {v : LazyView ν α} (hv : v.Valid) :
    (materialise v).elems.map some = (allIndexes (v.shape.map (·.2))).map v.get :=
  filterMap_map_some _ _ fun x hx => hv.isSome_of_mem x hx

theorem Spec.LazyView.Valid.elems_length {v : LazyView ν α} (hv : v.Valid) :
    (materialise v).elems.length = prod (v.shape.map (·.2)) := by
  have := congrArg List.length hv.elems_map_some
  simpa [allIndexes_length] using this

/-- the element stored at the row-major offset of an in-bounds tuple is the view's element there -/
theorem Spec.LazyView.Valid.elems_getElem? {v : LazyView ν α} (hv : v.Valid) (x : List Nat)
    (hx : inBounds (v.shape.map (·.2)) x = true) :
    (materialise v).elems[ravel (v.shape.map (·.2)) x]? = v.get x := by
  have h := congrArg (fun l => l[ravel (v.shape.map (·.2)) x]?) hv.elems_map_some
  simp only [List.getElem?_map, allIndexes_getElem?_ravel _ x hx, Option.map_some] at h
  cases he : (materialise v).elems[ravel (v.shape.map (·.2)) x]? with
  | none => simp [he] at h
  | some y => simp only [he, Option.map_some, Option.some.injEq] at h; exact h

/-- materialising needs only the shape and the elements at tuples of the right length -/
theorem materialise_congr {l r : LazyView ν α} (h : l.Equiv r) : materialise l = materialise r := by
  obtain ⟨hs, hg⟩ := h
  unfold materialise
  rw [← hs]
  congr 1
  apply filterMap_congr'
  intro x hx
  have := inBounds_length _ _ ((mem_allIndexes_iff _ x).1 hx)
  exact hg x (by simpa using this)

/-- … and for valid views the value determines the view -/
theorem equiv_of_materialise_eq {l r : LazyView ν α} (hl : l.Valid) (hr : r.Valid)
    (h : materialise l = materialise r) : l.Equiv r := by
  have hs : l.shape = r.shape := congrArg TVal.shape h
  refine ⟨hs, fun idx hlen => ?_⟩
  have he : (materialise l).elems = (materialise r).elems := congrArg TVal.elems h
  by_cases hb : inBounds (l.shape.map (·.2)) idx = true
  · rw [← hl.elems_getElem? idx hb, he, hs, hr.elems_getElem? idx (hs ▸ hb)]
  · have h1 := hl.get idx hlen
    have h2 := hr.get idx (hs ▸ hlen)
    rw [← hs] at h2
    simp only [hb] at h1 h2
    cases ha : l.get idx <;> cases hb' : r.get idx <;> simp_all

/-! ### a valid view stored as a tensor -/

theorem Spec.LazyView.Valid.tryFrom {v : LazyView ν α} (hv : v.Valid) :
    Tensor.tryFrom v.shape (materialise v).elems = some (Tensor.ofVal (materialise v)) := by
  rw [tryFrom_eq_some_iff]
  refine ⟨⟨?_, hv.shape.1, hv.shape.2⟩, rfl⟩
  rw [hv.elems_length]; rfl

theorem Spec.LazyView.Valid.fromOrPanic {v : LazyView ν α} (hv : v.Valid) :
    Tensor.fromOrPanic v.shape (materialise v).elems = .ok (Tensor.ofVal (materialise v)) := by
  simp [Tensor.fromOrPanic, hv.tryFrom]

/-- reading the stored tensor is reading the view -/
theorem Spec.LazyView.Valid.ofVal_get {v : LazyView ν α} (hv : v.Valid) (idx : List Nat)
    (hlen : idx.length = v.shape.length) :
    (Tensor.ofVal (materialise v)).get idx = v.get idx := by
  have ht := hv.tryFrom
  have ho := offset_of_tryFrom v.shape (materialise v).elems _ ht idx hlen
  unfold Tensor.get
  rw [ho]
  by_cases hb : inBounds (v.shape.map (·.2)) idx = true
  · simp only [hb, if_true]
    exact hv.elems_getElem? idx hb
  · have := hv.get idx hlen
    simp only [hb] at this
    simp only [hb]
    cases hg : v.get idx with
    | none => rfl
    | some _ => simp [hg] at this

/-! ### a valid tensor is a valid view of its data -/

theorem ofData_valid (shape : Shape ν) (data : List α) (t : Tensor ν α)
    (ht : Tensor.tryFrom shape data = some t) : (ofData shape data).Valid := by
  obtain ⟨⟨hc, hnd, hpos⟩, _⟩ := (tryFrom_eq_some_iff shape data t).1 ht
  refine ⟨⟨hnd, hpos⟩, fun idx _ => ?_⟩
  simp only [ofData]
  by_cases hb : inBounds (shape.map (·.2)) idx = true
  · have := ravel_lt _ _ hb
    simp only [hb, if_true]
    rw [List.getElem?_eq_getElem (by rw [hc]; exact this)]
    rfl
  · simp [hb]

theorem view_equiv_ofData (shape : Shape ν) (data : List α) (t : Tensor ν α)
    (ht : Tensor.tryFrom shape data = some t) : t.view.lazy.Equiv (ofData shape data) := by
  obtain ⟨_, ht'⟩ := (tryFrom_eq_some_iff shape data t).1 ht
  have hs : t.shape = shape := by rw [ht']
  have hd : t.data = data := by rw [ht']
  refine ⟨hs, fun idx hlen => ?_⟩
  simp only [TView.lazy, Tensor.view] at hlen ⊢
  unfold Tensor.get
  rw [offset_of_tryFrom shape data t ht idx (by rw [← hs]; exact hlen), hd]
  simp only [ofData]
  by_cases hb : inBounds (shape.map (·.2)) idx = true <;> simp [hb]

theorem Spec.LazyView.Valid.of_equiv {l r : LazyView ν α} (h : l.Equiv r) (hr : r.Valid) :
    l.Valid := by
  obtain ⟨hs, hg⟩ := h
  refine ⟨hs ▸ hr.shape, fun idx hlen => ?_⟩
  rw [hg idx hlen, hs, hr.get idx (hs ▸ hlen)]

theorem Spec.LazyView.Equiv.symm {l r : LazyView ν α} (h : l.Equiv r) : r.Equiv l :=
  ⟨h.1.symm, fun idx hlen => (h.2 idx (h.1 ▸ hlen)).symm⟩

theorem Spec.LazyView.Equiv.trans {a b c : LazyView ν α} (h1 : a.Equiv b) (h2 : b.Equiv c) :
    a.Equiv c :=
  ⟨h1.1.trans h2.1, fun idx hlen => (h1.2 idx hlen).trans (h2.2 idx (h1.1 ▸ hlen))⟩

theorem view_valid (shape : Shape ν) (data : List α) (t : Tensor ν α)
    (ht : Tensor.tryFrom shape data = some t) : t.view.lazy.Valid :=
  (ofData_valid shape data t ht).of_equiv (view_equiv_ofData shape data t ht)

/-- the data of a valid tensor are the elements of its view, in order -/
theorem elems_ofData (shape : Shape ν) (data : List α) (t : Tensor ν α)
    (ht : Tensor.tryFrom shape data = some t) : (materialise (ofData shape data)).elems = data := by
  have hv := ofData_valid shape data t ht
  obtain ⟨⟨hc, _, _⟩, _⟩ := (tryFrom_eq_some_iff shape data t).1 ht
  apply List.ext_getElem?
  intro k
  by_cases hk : k < prod (shape.map (·.2))
  · have hk' : k < (allIndexes (shape.map (·.2))).length := by rw [allIndexes_length]; exact hk
    have hx := (allIndexes_spec (shape.map (·.2))).2 _ (List.getElem_mem hk')
    have hr : ravel (shape.map (·.2)) (allIndexes (shape.map (·.2)))[k] = k := by
      have := congrArg (fun l => l[k]?) (allIndexes_spec (shape.map (·.2))).1
      simpa [List.getElem?_eq_getElem hk', List.getElem?_range hk] using this
    have := hv.elems_getElem? _ hx
    simp only [ofData_shape] at this
    rw [hr] at this
    rw [this]
    simp only [ofData, hx, if_true, hr]
  · have h1 : (materialise (ofData shape data)).elems.length ≤ k := by
      rw [hv.elems_length]; simp only [ofData_shape]; omega
    have h2 : data.length ≤ k := by rw [hc]; unfold elements; omega
    rw [List.getElem?_eq_none h1, List.getElem?_eq_none h2]

theorem materialise_view (shape : Shape ν) (data : List α) (t : Tensor ν α)
    (ht : Tensor.tryFrom shape data = some t) :
    materialise t.view.lazy = { shape := shape, elems := data } := by
  rw [materialise_congr (view_equiv_ofData shape data t ht)]
  have := elems_ofData shape data t ht
  unfold materialise at this ⊢
  simp only [ofData_shape] at this ⊢
  rw [this]

/-! ### shapes: renaming in place, strides depend on the lengths only -/

theorem computeStrides_congr (s₁ s₂ : Shape ν) (h : s₁.map (·.2) = s₂.map (·.2)) :
    computeStrides s₁ = computeStrides s₂ := by
  induction s₁ generalizing s₂ with
  | nil => cases s₂ <;> simp_all
  | cons d rest ih =>
    cases s₂ with
    | nil => simp at h
    | cons e rest₂ =>
      simp only [List.map_cons, List.cons.injEq] at h
      rw [computeStrides_cons, computeStrides_cons, ih rest₂ h.2]
      simp [elements, h.2]

theorem setNames_eq_withNames (shape : Shape ν) (names : List ν) :
    setNames shape names = withNames shape names := rfl

theorem withNames_map_snd (shape : Shape ν) (names : List ν) (h : names.length = shape.length) :
    (withNames shape names).map (·.2) = shape.map (·.2) := by
  induction shape generalizing names with
  | nil => simp [withNames]
  | cons d rest ih =>
    cases names with
    | nil => simp at h
    | cons n ns =>
      simp only [List.length_cons, Nat.add_right_cancel_iff] at h
      have := ih ns h
      simp only [withNames] at this ⊢
      simp [this]

theorem withNames_map_fst (shape : Shape ν) (names : List ν) (h : names.length = shape.length) :
    (withNames shape names).map (·.1) = names := by
  induction shape generalizing names with
  | nil => cases names <;> simp_all [withNames]
  | cons d rest ih =>
    cases names with
    | nil => simp at h
    | cons n ns =>
      simp only [List.length_cons, Nat.add_right_cancel_iff] at h
      have := ih ns h
      simp only [withNames] at this ⊢
      simp [this]

theorem withNames_length (shape : Shape ν) (names : List ν) (h : names.length = shape.length) :
    (withNames shape names).length = shape.length := by
  simp [withNames, h]

theorem shapeFor_map_fst (shape : Shape ν) (names : List ν) :
    (shapeFor shape names).map (·.1) = names := by
  simp [shapeFor, List.map_map, Function.comp_def]

theorem shapeFor_length (shape : Shape ν) (names : List ν) :
    (shapeFor shape names).length = names.length := by simp [shapeFor]

theorem shapeFor_perm (shape : Shape ν) (names : List ν) (hnd : (shape.map (·.1)).Nodup)
    (hp : names.Perm (shape.map (·.1))) : (shapeFor shape names).Perm shape := by
  have h1 : (shapeFor shape names).Perm (shapeFor shape (shape.map (·.1))) := by
    unfold shapeFor; exact hp.map _
  rwa [shapeFor_self shape hnd] at h1

theorem validShape_of_lens (s₁ s₂ : Shape ν) (h : s₁.map (·.2) = s₂.map (·.2))
    (hpos : ∀ d ∈ s₂, 1 ≤ d.2) : ∀ d ∈ s₁, 1 ≤ d.2 := by
  intro d hd
  have : d.2 ∈ s₁.map (·.2) := List.mem_map.2 ⟨d, hd, rfl⟩
  rw [h] at this
  obtain ⟨e, he, hed⟩ := List.mem_map.1 this
  rw [← hed]; exact hpos e he

/-! ### the reordered / transposed / renamed views are valid views -/

theorem reordered_valid {v : LazyView ν α} (hv : v.Valid) (names : List ν)
    (hp : IsOrdering v.shape names) : (reordered v names).Valid := by
  have hperm := shapeFor_perm v.shape names hv.shape.1 hp
  refine ⟨⟨?_, ?_⟩, fun idx hlen => ?_⟩
  · simp only [reordered, shapeFor_map_fst]
    exact hp.nodup_iff.2 hv.shape.1
  · intro d hd
    exact hv.shape.2 d (hperm.mem_iff.1 hd)
  · simp only [reordered, shapeFor_length] at hlen ⊢
    have hlen' : names.length = v.shape.length := by simpa using hp.length_eq
    rw [hv.get _ (by simp [coords]), inBounds_coords v.shape names idx hv.shape.1 hp hlen]

theorem transposed_valid {v : LazyView ν α} (hv : v.Valid) (names : List ν)
    (hp : IsOrdering v.shape names) : (transposed v names).Valid := by
  have hr := reordered_valid hv names hp
  have hlen' : names.length = v.shape.length := by simpa using hp.length_eq
  have hl : (v.shape.map (·.1)).length = (shapeFor v.shape names).length := by
    simp [shapeFor_length, hlen']
  refine ⟨⟨?_, ?_⟩, fun idx hlen => ?_⟩
  · simp only [transposed]
    rw [withNames_map_fst _ _ hl]
    exact hv.shape.1
  · exact validShape_of_lens _ _ (withNames_map_snd _ _ hl) hr.shape.2
  · simp only [transposed] at hlen ⊢
    rw [withNames_length _ _ hl] at hlen
    rw [withNames_map_snd _ _ hl]
    exact hr.get idx hlen

theorem renamed_valid {v : LazyView ν α} (hv : v.Valid) (names : List ν) (hnd : names.Nodup)
    (hl : names.length = v.shape.length) : (renamed v names).Valid := by
  refine ⟨⟨?_, ?_⟩, fun idx hlen => ?_⟩
  · simp only [renamed]; rw [withNames_map_fst _ _ hl]; exact hnd
  · exact validShape_of_lens _ _ (withNames_map_snd _ _ hl) hv.shape.2
  · simp only [renamed] at hlen ⊢
    rw [withNames_length _ _ hl] at hlen
    rw [withNames_map_snd _ _ hl]
    exact hv.get idx hlen

/-! ### `TensorAccess` over any source -/

theorem TView.access_of_ordering [Inhabited ν] (v : TView ν α) (names : List ν)
    (hnd : (v.shape.map (·.1)).Nodup) (hp : IsOrdering v.shape names) :
    ∃ a, v.access names = some a ∧ a.lazy = reordered v.lazy names := by
  unfold TView.access
  rw [new_of_perm v.shape names hnd hp]
  refine ⟨_, rfl, ?_⟩
  simp only [TView.lazy, reordered]
  congr 1
  · exact mapShapeToRequested_eq_shapeFor v.shape names (fun n hn => hp.mem_iff.1 hn) _
  · funext idx
    rw [mapDimensionsToSource_eq_coords]

theorem TView.access_none [Inhabited ν] (v : TView ν α) (names : List ν)
    (hnd : (v.shape.map (·.1)).Nodup) (hp : ¬ IsOrdering v.shape names) :
    v.access names = none := by
  unfold TView.access
  cases h : DimensionMappings.new v.shape names with
  | none => rfl
  | some m => exact absurd (perm_of_new v.shape names m hnd h) hp

/-! ### congruence of the view constructions -/

theorem reordered_congr {l r : LazyView ν α} (h : l.Equiv r) (names : List ν) :
    (reordered l names).Equiv (reordered r names) := by
  obtain ⟨hs, hg⟩ := h
  refine ⟨by simp [reordered, hs], fun idx _ => ?_⟩
  simp only [reordered]
  rw [← hs]
  exact hg _ (by simp [coords])

theorem transposed_congr {l r : LazyView ν α} (h : l.Equiv r) (names : List ν) :
    (transposed l names).Equiv (transposed r names) := by
  have hr := reordered_congr h names
  obtain ⟨hs, hg⟩ := h
  refine ⟨by simp [transposed, hs], fun idx _ => ?_⟩
  simp only [transposed, reordered]
  rw [← hs]
  exact hg _ (by simp [coords])

theorem renamed_congr {l r : LazyView ν α} (h : l.Equiv r) (names : List ν)
    (hl : names.length = l.shape.length) : (renamed l names).Equiv (renamed r names) := by
  obtain ⟨hs, hg⟩ := h
  refine ⟨by simp [renamed, hs], fun idx hlen => ?_⟩
  simp only [renamed] at hlen ⊢
  rw [withNames_length _ _ hl] at hlen
  exact hg idx hlen

/-! ### reorder and transpose -/

theorem TView.reorder_eq [Inhabited ν] (v : TView ν α) (hv : v.lazy.Valid)
    (names : List ν) :
    v.reorder names =
      if IsOrdering v.shape names then .ok (Tensor.ofVal (materialise (reordered v.lazy names)))
      else .panic .explicit := by
  unfold TView.reorder
  by_cases hp : IsOrdering v.shape names
  · obtain ⟨a, ha, hl⟩ := v.access_of_ordering names hv.shape.1 hp
    have hav : a.lazy.Valid := hl ▸ reordered_valid hv names hp
    simp only [ha, hp, if_true]
    rw [a.iter_eq]
    have := hav.fromOrPanic
    simp only [TView.lazy_shape] at this
    rw [this, hl]
  · simp only [v.access_none names hv.shape.1 hp, hp, if_false]

theorem TView.transpose_eq [Inhabited ν] (v : TView ν α) (hv : v.lazy.Valid)
    (names : List ν) :
    v.transpose names =
      if IsOrdering v.shape names then .ok (Tensor.ofVal (materialise (transposed v.lazy names)))
      else .panic .explicit := by
  unfold TView.transpose
  rw [v.reorder_eq hv names]
  by_cases hp : IsOrdering v.shape names
  · simp only [hp, if_true]
    have hlen' : names.length = v.shape.length := by simpa using hp.length_eq
    have hl : (v.shape.map (·.1)).length = (shapeFor v.shape names).length := by
      simp [shapeFor_length, hlen']
    congr 1
    simp only [Tensor.ofVal, materialise, transposed, reordered, TView.lazy_shape,
      setNames_eq_withNames, TView.lazy_get]
    rw [withNames_map_snd _ _ hl]
    congr 1
    exact computeStrides_congr _ _ (withNames_map_snd _ _ hl).symm
  · simp only [hp, if_false]

theorem Tensor.reorder_eq_ofData [Inhabited ν] (shape : Shape ν) (data : List α) (t : Tensor ν α)
    (ht : Tensor.tryFrom shape data = some t) (names : List ν) :
    t.reorder names =
      (if IsOrdering shape names then
        .ok (Tensor.ofVal (materialise (reordered (ofData shape data) names)))
       else .panic .explicit) ∧
    t.transpose names =
      (if IsOrdering shape names then
        .ok (Tensor.ofVal (materialise (transposed (ofData shape data) names)))
       else .panic .explicit) := by
  have hv := view_valid shape data t ht
  have he := view_equiv_ofData shape data t ht
  have hs : t.view.shape = shape := he.1
  unfold Tensor.reorder Tensor.transpose
  rw [TView.reorder_eq _ hv, TView.transpose_eq _ hv, hs,
    materialise_congr (reordered_congr he names), materialise_congr (transposed_congr he names)]
  exact ⟨rfl, rfl⟩

end EasyMl
