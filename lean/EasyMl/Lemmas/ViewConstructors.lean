/-
  EasyMl.Lemmas.ViewConstructors — every constructor of the model (`mkTensor … mkChain`, i.e. the
  validations of `Tensor::from`, `TensorRefMatrix::with_names`, `TensorRange::from(_strict)`, …)
  establishes the invariant `View.WF` of the view it returns, given well-formed sources.
-/
import EasyMl.Lemmas.ViewMain

namespace EasyMl
open EasyMl.Spec EasyMl.View

set_option linter.unusedSectionVars false

variable {ν : Type} [DecidableEq ν] [Inhabited ν] {α : Type}

/-! ### leaves -/

theorem mkTensor_wf {id : Nat} {shape : Shape ν} {data : List α} {v : View ν α}
    (h : mkTensor id shape data = some v) (hmax : data.length ≤ usizeMax) : v.WF := by
  simp only [mkTensor, Tensor.tryFrom] at h
  split at h
  · simp at h
  · rename_i hv
    simp only [Option.map_some, Option.some.injEq] at h
    subst h
    simp only [validateDimensions] at hv
    split at hv
    · simp at hv
    · rename_i h1
      split at hv
      · simp at hv
      · rename_i h2
        split at hv
        · simp at hv
        · rename_i h3
          simp only [View.WF]
          have hvalid : isValidShape shape = true := by
            simp only [Bool.not_eq_true] at h2 h3
            simp only [isValidShape, namesOf, h2, h3]
            rfl
          exact ⟨isValidShape_iff.1 hvalid, trivial, by simpa using h1, hmax⟩

theorem mkMatrix_wf {id rows columns : Nat} {data : List α} {r c : ν} {v : View ν α}
    (h : mkMatrix id rows columns data r c = some v) (hmax : data.length ≤ usizeMax) : v.WF := by
  simp only [mkMatrix] at h
  split at h
  · rename_i m hm
    split at h
    · rename_i hvalid
      simp only [Option.some.injEq] at h
      subst h
      simp only [Matrix.fromFlatRowMajor] at hm
      split at hm
      · rename_i hc
        simp only [Option.some.injEq] at hm
        subst hm
        rw [isValidShape_iff] at hvalid
        simp only [View.WF, Matrix.Inv]
        obtain ⟨hn, hp⟩ := hvalid
        simp only [List.map_cons, List.map_nil, List.nodup_cons, List.mem_cons, List.not_mem_nil,
          or_false, not_false_eq_true, List.nodup_nil, and_true] at hn
        have h1 := hp (r, rows) (by simp)
        have h2 := hp (c, columns) (by simp)
        exact ⟨⟨hc.1.symm, h1, h2⟩, hn, hmax⟩
      · simp at hm
    · simp at h
  · simp at h

theorem mkMatrixOf_wf {s v : View ν α} {r c : ν} (hs : s.WF) (h : mkMatrixOf s r c = some v) :
    v.WF := by
  simp only [mkMatrixOf] at h
  split at h
  · simp at h
  · rename_i hl
    split at h
    · rename_i hvalid
      simp only [Option.some.injEq] at h
      subst h
      rw [isValidShape_iff] at hvalid
      have hn := hvalid.1
      simp only [List.map_cons, List.map_nil, List.nodup_cons, List.mem_cons, List.not_mem_nil,
        or_false, not_false_eq_true, List.nodup_nil, and_true] at hn
      simp only [View.WF]
      exact ⟨hs, by simpa using hl, hn⟩
    · simp at h

/-! ### sub-range and mask -/

theorem clip_spec (r : IndexRange) (max : Nat) :
    (r.clip max).start = r.start ∧
    ((r.clip max).length = 0 ∨ (r.clip max).start + (r.clip max).length ≤ max) ∧
    (r.clip max).length ≤ max := by
  simp only [IndexRange.clip]
  refine ⟨trivial, ?_, ?_⟩ <;> omega

theorem clipRanges_ok {sh : Shape ν} {ranges : List (Option IndexRange)}
    (hl : ranges.length = sh.length)
    (hpos : ∀ d ∈ rangeShape sh (clipRanges sh ranges), 1 ≤ d.2) :
    RangesOK sh (clipRanges sh ranges) := by
  induction sh generalizing ranges with
  | nil => cases ranges <;> simp_all [clipRanges, RangesOK]
  | cons d ds ih =>
    cases ranges with
    | nil => simp at hl
    | cons o os =>
      simp only [List.length_cons, Nat.add_right_cancel_iff] at hl
      simp only [clipRanges, rangeShape, List.mem_cons, forall_eq_or_imp] at hpos
      simp only [clipRanges, RangesOK]
      obtain ⟨_, h2, _⟩ := clip_spec (o.getD ⟨0, d.2⟩) d.2
      refine ⟨⟨hpos.1, ?_⟩, ih hl hpos.2⟩
      have := hpos.1
      omega

theorem clipMasks_ok {sh : Shape ν} {masks : List (Option IndexRange)}
    (hl : masks.length = sh.length)
    (hpos : ∀ d ∈ maskShape sh (clipMasks sh masks), 1 ≤ d.2) :
    MasksOK sh (clipMasks sh masks) := by
  induction sh generalizing masks with
  | nil => cases masks <;> simp_all [clipMasks, MasksOK]
  | cons d ds ih =>
    cases masks with
    | nil => simp at hl
    | cons o os =>
      simp only [List.length_cons, Nat.add_right_cancel_iff] at hl
      simp only [clipMasks, maskShape, List.mem_cons, forall_eq_or_imp] at hpos
      simp only [clipMasks, MasksOK]
      obtain ⟨_, h2, h3⟩ := clip_spec (o.getD ⟨0, 0⟩) d.2
      refine ⟨⟨h2, ?_⟩, ih hl hpos.2⟩
      have := hpos.1
      omega

theorem mkRangeAll_wf {s v : View ν α} {ranges : List (Option IndexRange)} (hs : s.WF)
    (h : mkRangeAll s ranges = some v) : v.WF := by
  simp only [mkRangeAll] at h
  split at h
  · simp at h
  · rename_i hl
    split at h
    · rename_i hvalid
      simp only [Option.some.injEq] at h
      subst h
      rw [isValidShape_iff] at hvalid
      simp only [View.WF]
      exact ⟨hs, clipRanges_ok (by simpa using hl) hvalid.2⟩
    · simp at h

theorem mkMaskAll_wf {s v : View ν α} {masks : List (Option IndexRange)} (hs : s.WF)
    (h : mkMaskAll s masks = some v) : v.WF := by
  simp only [mkMaskAll] at h
  split at h
  · simp at h
  · rename_i hl
    split at h
    · rename_i hvalid
      simp only [Option.some.injEq] at h
      subst h
      rw [isValidShape_iff] at hvalid
      simp only [View.WF]
      exact ⟨hs, clipMasks_ok (by simpa using hl) hvalid.2⟩
    · simp at h

theorem mkRange_wf {s v : View ν α} {ranges : List (ν × IndexRange)} (hs : s.WF)
    (h : mkRange s ranges = some v) : v.WF := by
  simp only [mkRange] at h
  split at h
  · exact mkRangeAll_wf hs h
  · simp at h

theorem mkRangeAllStrict_wf {s v : View ν α} {ranges : List (Option IndexRange)} (hs : s.WF)
    (h : mkRangeAllStrict s ranges = some v) : v.WF := by
  simp only [mkRangeAllStrict] at h
  split at h
  · simp at h
  · split at h
    · simp at h
    · exact mkRangeAll_wf hs h

theorem mkRangeStrict_wf {s v : View ν α} {ranges : List (ν × IndexRange)} (hs : s.WF)
    (h : mkRangeStrict s ranges = some v) : v.WF := by
  simp only [mkRangeStrict] at h
  split at h
  · exact mkRangeAllStrict_wf hs h
  · simp at h

theorem mkMask_wf {s v : View ν α} {masks : List (ν × IndexRange)} (hs : s.WF)
    (h : mkMask s masks = some v) : v.WF := by
  simp only [mkMask] at h
  split at h
  · exact mkMaskAll_wf hs h
  · simp at h

theorem mkMaskAllStrict_wf {s v : View ν α} {masks : List (Option IndexRange)} (hs : s.WF)
    (h : mkMaskAllStrict s masks = some v) : v.WF := by
  simp only [mkMaskAllStrict] at h
  split at h
  · simp at h
  · split at h
    · simp at h
    · exact mkMaskAll_wf hs h

theorem mkMaskStrict_wf {s v : View ν α} {masks : List (ν × IndexRange)} (hs : s.WF)
    (h : mkMaskStrict s masks = some v) : v.WF := by
  simp only [mkMaskStrict] at h
  split at h
  · exact mkMaskAllStrict_wf hs h
  · simp at h

/-! ### matrix adaptors between `MatrixRefTensor` and `TensorRefMatrix` -/

theorem shape_two {sh : Shape ν} (h : sh.length = 2) : ∃ d0 d1, sh = [d0, d1] := by
  match sh, h with
  | [d0, d1], _ => exact ⟨d0, d1, rfl⟩

theorem clip_length_le (r : IndexRange) (max : Nat) : (r.clip max).length ≤ max := (clip_spec r max).2.2

/-- a stack of matrix adaptors keeps two dimensions, and an empty dimension stays empty -/
theorem applyMatOps_shape (ops : List MatOp) : ∀ (s : View ν α), s.shape.length = 2 →
    (applyMatOps s ops).shape.length = 2 ∧
    ((s.shape.getD 0 (default, 0)).2 = 0 → ((applyMatOps s ops).shape.getD 0 (default, 0)).2 = 0) ∧
    ((s.shape.getD 1 (default, 0)).2 = 0 → ((applyMatOps s ops).shape.getD 1 (default, 0)).2 = 0) := by
  induction ops with
  | nil => intro s h; exact ⟨h, fun h => h, fun h => h⟩
  | cons op ops ih =>
    intro s h
    obtain ⟨d0, d1, hs⟩ := shape_two h
    cases op with
    | range rows columns =>
      simp only [applyMatOps]
      have hn : (View.mrange s (rows.clip (s.shape.getD 0 (default, 0)).2)
          (columns.clip (s.shape.getD 1 (default, 0)).2)).shape.length = 2 := by
        simp [View.shape, hs, rangeShape]
      obtain ⟨a, b, c⟩ := ih _ hn
      refine ⟨a, ?_, ?_⟩
      · intro hz
        apply b
        have := clip_length_le rows (s.shape.getD 0 (default, 0)).2
        simp only [View.shape, hs, rangeShape, List.getD_cons_zero] at this hz ⊢
        omega
      · intro hz
        apply c
        have := clip_length_le columns (s.shape.getD 1 (default, 0)).2
        simp only [View.shape, hs, rangeShape, List.getD_cons_succ, List.getD_cons_zero] at this hz ⊢
        omega
    | reverse rows columns =>
      simp only [applyMatOps]
      exact ih (View.mreverse s rows columns) (by simpa [View.shape] using h)

/-- if the matrix that comes out has no empty dimension, every adaptor of the stack is well
    formed (its ranges are clipped and non-empty) -/
theorem applyMatOps_wf (ops : List MatOp) : ∀ (s : View ν α), s.WF → s.shape.length = 2 →
    1 ≤ ((applyMatOps s ops).shape.getD 0 (default, 0)).2 →
    1 ≤ ((applyMatOps s ops).shape.getD 1 (default, 0)).2 → (applyMatOps s ops).WF := by
  induction ops with
  | nil => intro s hs _ _ _; exact hs
  | cons op ops ih =>
    intro s hs h h0 h1
    obtain ⟨d0, d1, hsq⟩ := shape_two h
    cases op with
    | range rows columns =>
      simp only [applyMatOps] at h0 h1 ⊢
      obtain ⟨rs0, r2, _⟩ := clip_spec rows (s.shape.getD 0 (default, 0)).2
      obtain ⟨cs0, c2, _⟩ := clip_spec columns (s.shape.getD 1 (default, 0)).2
      have e0 : (s.shape.getD 0 (default, 0)).2 = d0.2 := by simp [hsq]
      have e1 : (s.shape.getD 1 (default, 0)).2 = d1.2 := by simp [hsq]
      generalize rows.clip (s.shape.getD 0 (default, 0)).2 = R at *
      generalize columns.clip (s.shape.getD 1 (default, 0)).2 = C at *
      rw [e0] at r2
      rw [e1] at c2
      have hnsh : (View.mrange s R C).shape = [(d0.1, R.length), (d1.1, C.length)] := by
        simp [View.shape, hsq, rangeShape]
      have hn : (View.mrange s R C).shape.length = 2 := by simp [hnsh]
      obtain ⟨_, z0, z1⟩ := applyMatOps_shape ops _ hn
      refine ih _ ?_ hn h0 h1
      simp only [View.WF]
      refine ⟨hs, h, ?_⟩
      have hr : 1 ≤ R.length := by
        rcases Nat.eq_zero_or_pos R.length with hz | hp
        · have := z0 (by simp [hnsh, hz]); omega
        · exact hp
      have hc : 1 ≤ C.length := by
        rcases Nat.eq_zero_or_pos C.length with hz | hp
        · have := z1 (by simp [hnsh, hz]); omega
        · exact hp
      simp only [hsq, RangesOK]
      exact ⟨⟨hr, by omega⟩, ⟨hc, by omega⟩, trivial⟩
    | reverse rows columns =>
      simp only [applyMatOps] at h0 h1 ⊢
      exact ih (View.mreverse s rows columns) (by simp only [View.WF]; exact ⟨hs, h⟩)
        (by simpa [View.shape] using h) h0 h1

theorem mkMatrixStack_wf {s v : View ν α} {ops : List MatOp} {r c : ν} (hs : s.WF)
    (h : mkMatrixStack s ops r c = some v) : v.WF := by
  simp only [mkMatrixStack] at h
  split at h
  · simp at h
  · rename_i hl
    have hl2 : s.shape.length = 2 := by simpa using hl
    have hsh := (applyMatOps_shape ops s hl2).1
    refine mkMatrixOf_wf (s := applyMatOps s ops) ?_ h
    -- `with_names` accepted the final shape: no empty dimension
    have hv : isValidShape [(r, ((applyMatOps s ops).shape.getD 0 (default, 0)).2),
        (c, ((applyMatOps s ops).shape.getD 1 (default, 0)).2)] = true := by
      simp only [mkMatrixOf, hsh, ne_eq, not_true_eq_false, if_false] at h
      split at h
      · assumption
      · simp at h
    rw [isValidShape_iff] at hv
    exact applyMatOps_wf ops s hs hl2 (hv.2 (r, _) (List.Mem.head _)) (hv.2 (c, _) (List.Mem.tail _ (List.Mem.head _)))

/-! ### rename, reverse -/

theorem mkRename_wf {s v : View ν α} {dimensions : List ν} (hs : s.WF)
    (h : mkRename s dimensions = some v) : v.WF := by
  simp only [mkRename] at h
  split at h
  · simp at h
  · rename_i hl
    split at h
    · simp at h
    · rename_i hd
      simp only [Option.some.injEq] at h
      subst h
      simp only [View.WF]
      exact ⟨hs, by simpa using hl, hasDuplicates_eq_false.1 (by simpa using hd)⟩

theorem mkReverse_wf {s v : View ν α} {dimensions : List ν} (hs : s.WF)
    (h : mkReverse s dimensions = some v) : v.WF := by
  simp only [mkReverse] at h
  split at h
  · simp at h
  · split at h
    · simp at h
    · simp only [Option.some.injEq] at h
      subst h
      simp only [View.WF, List.length_map, and_true]
      exact hs

/-! ### mutators of an existing view -/

/-- whatever the arguments, the view that exists after `set_names` is well formed … -/
theorem setNames_wf {v : View ν α} {dimensions : List ν} (hv : v.WF)
    (hl : dimensions.length = v.shape.length) : (v.setNames dimensions).1.WF := by
  cases v with
  | rename s old =>
    simp only [setNames]
    split
    · exact hv
    · rename_i hd
      simp only [View.WF] at hv ⊢
      have : (View.rename s old).shape.length = s.shape.length := by
        simp [View.shape, renameShape_length hv.2.1]
      exact ⟨hv.1, by omega, hasDuplicates_eq_false.1 (by simpa using hd)⟩
  | _ => exact hv

/-- … and after a refused call it is the view that existed before -/
theorem setNames_panic_unchanged (v : View ν α) (dimensions : List ν) (k : PanicKind)
    (h : (v.setNames dimensions).2 = .panic k) : (v.setNames dimensions).1 = v := by
  cases v with
  | rename s old =>
    simp only [setNames] at h ⊢
    split
    · rfl
    · rename_i hd; simp [hd] at h
  | _ => rfl

/-- replacing the source behind `source_ref_mut` by any well-formed view of the same
    dimensionality keeps the adaptor well formed -/
theorem replaceSource_wf {v s s' : View ν α} (hv : v.WF) (hs' : s'.WF)
    (hsrc : v.sourceOf = some s) (hl : s'.shape.length = s.shape.length) :
    (v.replaceSource s').WF := by
  cases v with
  | rename s0 ns =>
    simp only [sourceOf, Option.some.injEq] at hsrc; subst hsrc
    simp only [View.WF] at hv
    simp only [replaceSource, View.WF]
    exact ⟨hs', by omega, hv.2.2⟩
  | reverse s0 r =>
    simp only [sourceOf, Option.some.injEq] at hsrc; subst hsrc
    simp only [View.WF] at hv
    simp only [replaceSource, View.WF]
    exact ⟨hs', by omega⟩
  | _ => simp [sourceOf] at hsrc

/-! ### `find` / `position` -/

theorem findPos_some {β : Type} {p : β → Bool} {l : List β} {i : Nat} (h : findPos p l = some i) :
    ∃ hi : i < l.length, p l[i] = true := by
  induction l generalizing i with
  | nil => simp [findPos] at h
  | cons x xs ih =>
    simp only [findPos] at h
    by_cases hp : p x = true
    · simp only [hp, if_true, Option.some.injEq] at h
      subst h
      exact ⟨by simp, by simpa using hp⟩
    · simp only [hp, Bool.false_eq_true, if_false, Option.map_eq_some_iff] at h
      obtain ⟨j, hj, rfl⟩ := h
      obtain ⟨hi, hpj⟩ := ih hj
      exact ⟨by simp; omega, by simpa using hpj⟩

/-! ### fixed-index selection -/

theorem providedOK_replicate (sh : Shape ν) : ProvidedOK sh (List.replicate sh.length none) := by
  induction sh with
  | nil => simp [ProvidedOK]
  | cons d ds ih => simpa [List.replicate_succ, ProvidedOK] using ih

theorem providedOK_set {sh : Shape ν} {p : List (Option Nat)} (h : ProvidedOK sh p) {i : Nat}
    (hi : i < sh.length) {x : Nat} (hx : x < (sh[i]).2) : ProvidedOK sh (p.set i (some x)) := by
  induction sh generalizing p i with
  | nil => simp at hi
  | cons d ds ih =>
    cases p with
    | nil => simp [ProvidedOK] at h
    | cons o ps =>
      cases i with
      | zero =>
        simp only [List.getElem_cons_zero] at hx
        cases o with
        | none => simp only [ProvidedOK] at h; simpa [ProvidedOK, hx] using h
        | some y => simp only [ProvidedOK] at h; simpa [ProvidedOK, hx] using h.2
      | succ i =>
        simp only [List.length_cons, Nat.add_lt_add_iff_right] at hi
        simp only [List.getElem_cons_succ] at hx
        cases o with
        | none => simp only [ProvidedOK] at h; simpa [ProvidedOK] using ih h hi hx
        | some y => simp only [ProvidedOK] at h; simpa [ProvidedOK, h.1] using ih h.2 hi hx

theorem indexLoop_ok {sh : Shape ν} {provs : List (ν × Nat)} {acc res : List (Option Nat)}
    (hacc : ProvidedOK sh acc) (h : indexLoop sh provs acc = some res) : ProvidedOK sh res := by
  induction provs generalizing acc with
  | nil => simp only [indexLoop, Option.some.injEq] at h; subst h; exact hacc
  | cons x xs ih =>
    obtain ⟨name, ix⟩ := x
    simp only [indexLoop] at h
    split at h
    · rename_i i hf
      obtain ⟨hi, hp⟩ := findPos_some hf
      simp only [Bool.and_eq_true, decide_eq_true_eq] at hp
      exact ih (providedOK_set hacc hi hp.2) h
    · simp at h

theorem mkIndex_wf {s v : View ν α} {provided : List (ν × Nat)} (hs : s.WF)
    (h : mkIndex s provided = some v) : v.WF := by
  simp only [mkIndex] at h
  split at h
  · simp at h
  · split at h
    · simp at h
    · split at h
      · rename_i p hp
        simp only [Option.some.injEq] at h
        subst h
        simp only [View.WF]
        exact ⟨hs, indexLoop_ok (providedOK_replicate _) hp⟩
      · simp at h

/-! ### length-one expansion: the stable sort of the insertions -/

theorem insertByPosition_perm (x : Nat × ν) (l : List (Nat × ν)) :
    (insertByPosition x l).Perm (x :: l) := by
  induction l with
  | nil => simp [insertByPosition]
  | cons y ys ih =>
    simp only [insertByPosition]
    split
    · exact List.Perm.refl _
    · exact (List.Perm.cons y ih).trans (List.Perm.swap x y ys)

theorem sortByPosition_perm (l : List (Nat × ν)) : (sortByPosition l).Perm l := by
  induction l with
  | nil => simp [sortByPosition]
  | cons x xs ih =>
    simp only [sortByPosition]
    exact (insertByPosition_perm x _).trans (List.Perm.cons x ih)

theorem insertByPosition_sorted (x : Nat × ν) (l : List (Nat × ν))
    (h : l.Pairwise (fun a b => a.1 ≤ b.1)) :
    (insertByPosition x l).Pairwise (fun a b => a.1 ≤ b.1) := by
  induction l with
  | nil => simp [insertByPosition]
  | cons y ys ih =>
    simp only [List.pairwise_cons] at h
    simp only [insertByPosition]
    split
    · rename_i hle
      simp only [List.pairwise_cons, List.mem_cons, forall_eq_or_imp]
      exact ⟨⟨hle, fun z hz => Nat.le_trans hle (h.1 z hz)⟩, h.1, h.2⟩
    · rename_i hle
      simp only [List.pairwise_cons]
      refine ⟨?_, ih h.2⟩
      intro z hz
      have hz' := (List.Perm.mem_iff (insertByPosition_perm x ys)).1 hz
      simp only [List.mem_cons] at hz'
      rcases hz' with rfl | hz'
      · omega
      · exact h.1 z hz'

theorem sortByPosition_sorted (l : List (Nat × ν)) :
    (sortByPosition l).Pairwise (fun a b => a.1 ≤ b.1) := by
  induction l with
  | nil => simp [sortByPosition]
  | cons x xs ih => exact insertByPosition_sorted x _ ih

theorem containsName_eq_false {sh : Shape ν} {n : ν} (h : containsName sh n = false) :
    n ∉ namesOf sh := by
  intro hc
  simp only [namesOf, List.mem_map] at hc
  obtain ⟨d, hd, rfl⟩ := hc
  simp only [containsName, List.any_eq_false] at h
  exact h d hd (by simp)

theorem mkExpansion_wf {s v : View ν α} {extra : List (Nat × ν)} (hs : s.WF)
    (h : mkExpansion s extra = some v) : v.WF := by
  simp only [mkExpansion] at h
  split at h
  · simp at h
  · rename_i hdup
    split at h
    · simp at h
    · rename_i hany
      simp only [Option.some.injEq] at h
      subst h
      have hperm := sortByPosition_perm extra
      simp only [Bool.not_eq_true, List.any_eq_false, Bool.or_eq_true, decide_eq_true_eq,
        not_or, Bool.not_eq_true] at hany
      simp only [View.WF, ExtraOK]
      refine ⟨hs, ?_, ?_, ?_, ?_⟩
      · rw [List.pairwise_map]; exact sortByPosition_sorted extra
      · intro e he
        have := (hany e ((List.Perm.mem_iff hperm).1 he)).1
        omega
      · rw [(List.Perm.map (·.2) hperm).nodup_iff]
        exact hasDuplicates_eq_false.1 (by simpa using hdup)
      · intro e he
        exact containsName_eq_false (hany e ((List.Perm.mem_iff hperm).1 he)).2

/-! ### stacking and chaining -/

theorem mkStack_wf {ss : List (View ν α)} {along : Nat × ν} {v : View ν α}
    (hs : ∀ s ∈ ss, s.WF) (hn : ss.length ≤ usizeMax) (h : mkStack ss along = some v) : v.WF := by
  simp only [mkStack] at h
  split at h
  · simp at h
  · rename_i first rest hsh
    split at h
    · simp at h
    · rename_i ha
      split at h
      · simp at h
      · rename_i hc
        split at h
        · simp at h
        · rename_i hany
          simp only [Option.some.injEq] at h
          subst h
          have hne : ss ≠ [] := by
            intro hnil; subst hnil; simp [shapes] at hsh
          simp only [View.WF, hsh, List.headD_cons, (WFs_iff ss).2 hs, hne, ne_eq, not_false_eq_true,
            hn, true_and]
          refine ⟨?_, by omega, containsName_eq_false (by simpa using hc)⟩
          intro sh hmem
          simp only [List.mem_cons] at hmem
          rcases hmem with rfl | hmem
          · rfl
          · simp only [Bool.not_eq_true, List.any_eq_false] at hany
            have := hany sh hmem
            simpa using this

theorem similarGo_spec (a : Nat) (s f : Shape ν) (d : Nat) (hl : s.length = f.length)
    (h : similarGo a d s f = true) :
    namesOf s = namesOf f ∧
    (d ≤ a → lens s = (lens f).set (a - d) (s.getD (a - d) (default, 0)).2) ∧
    (a < d → lens s = lens f) := by
  induction s generalizing f d with
  | nil => cases f <;> simp_all
  | cons x xs ih =>
    cases f with
    | nil => simp at hl
    | cons y ys =>
      simp only [List.length_cons, Nat.add_right_cancel_iff] at hl
      simp only [similarGo, Bool.and_eq_true] at h
      obtain ⟨h1, h2, h3⟩ := ih ys (d + 1) hl h.2
      by_cases hd : d = a
      · subst hd
        simp only [if_true, decide_eq_true_eq] at h
        refine ⟨by simp [h.1, h1], ?_, by omega⟩
        intro _
        simp [h3 (by omega)]
      · simp only [hd, if_false, decide_eq_true_eq] at h
        refine ⟨by simp [h.1, h1], ?_, ?_⟩
        · intro hle
          have e : a - d = (a - (d + 1)) + 1 := by omega
          rw [e]
          simp [h.1, h2 (by omega)]
        · intro hlt
          simp [h.1, h3 (by omega)]

theorem similar_self (a : Nat) (f : Shape ν) : Similar a f f := by
  refine ⟨rfl, ?_⟩
  rw [← lens_getD, set_getD_self]

theorem mkChain_wf {ss : List (View ν α)} {along : ν} {v : View ν α}
    (hs : ∀ s ∈ ss, s.WF)
    (hsum : ∀ a, (chainLens (shapes ss) a).sum ≤ usizeMax)
    (h : mkChain ss along = some v) : v.WF := by
  simp only [mkChain] at h
  split at h
  · simp at h
  · rename_i first rest hsh
    split at h
    · simp at h
    · split at h
      · simp at h
      · rename_i a hpos
        split at h
        · simp at h
        · rename_i hany
          simp only [Option.some.injEq] at h
          subst h
          have hne : ss ≠ [] := by
            intro hnil; subst hnil; simp [shapes] at hsh
          obtain ⟨ha, _⟩ := findPos_some hpos
          simp only [View.WF, hsh, List.headD_cons, (WFs_iff ss).2 hs, hne, ne_eq, not_false_eq_true,
            ha, true_and]
          refine ⟨?_, by simpa [hsh] using hsum a⟩
          intro sh hmem
          simp only [List.mem_cons] at hmem
          rcases hmem with rfl | hmem
          · exact similar_self a sh
          · simp only [Bool.not_eq_true, List.any_eq_false, Bool.not_eq_false', Bool.and_eq_true,
              decide_eq_true_eq] at hany
            obtain ⟨hl, hsim⟩ := hany sh hmem
            obtain ⟨h1, h2, _⟩ := similarGo_spec a sh first 0 hl hsim
            exact ⟨h1, by simpa using h2 (Nat.zero_le _)⟩

end EasyMl
