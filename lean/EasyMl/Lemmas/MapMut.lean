/-
  EasyMl.Lemmas.MapMut — in-place mapping through `iter_reference_mut().with_index()` equals the
  allocating map (C13): on a tensor, and through a `TensorAccess` of a tensor.
-/
import EasyMl.Lemmas.MapZip
import EasyMl.Lemmas.Equality
import EasyMl.Props.C01

namespace EasyMl
open EasyMl.Spec

set_option linter.unusedSectionVars false

variable {ν : Type} [DecidableEq ν] {α : Type}

/-- **Visiting every cell once and overwriting it.**  For a store with a checked read and write
    obeying the frame laws on `dom` (a write succeeds, is read back, and changes nothing else),
    the loop "for each key of a duplicate-free list: `x ← get k; set k (f k x)`" leaves every key of
    the list holding `f k (old value)` and every other key untouched. -/
theorem mapMutVia_spec {σ : Type} (dom : List Nat → Prop) (Inv : σ → Prop)
    (get : σ → List Nat → Option α) (set : σ → List Nat → α → Option σ)
    (hget : ∀ s k, Inv s → dom k → (get s k).isSome = true)
    (hset : ∀ s k v, Inv s → dom k → ∃ s', set s k v = some s' ∧ Inv s' ∧ get s' k = some v ∧
      ∀ k', dom k' → k' ≠ k → get s' k' = get s k')
    (f : List Nat → α → α) (L : List (List Nat)) (hL : ∀ k ∈ L, dom k) (hnd : L.Nodup)
    (s : σ) (hs : Inv s) :
    Inv (L.foldl (fun s idx => match get s idx with
        | some x => (set s idx (f idx x)).getD s
        | none => s) s) ∧
    ∀ k, dom k →
      get (L.foldl (fun s idx => match get s idx with
        | some x => (set s idx (f idx x)).getD s
        | none => s) s) k = if k ∈ L then (get s k).map (f k) else get s k := by
  induction L generalizing s with
  | nil => exact ⟨hs, fun k _ => by simp⟩
  | cons k0 rest ih =>
    have hk0 : dom k0 := hL k0 (by simp)
    obtain ⟨x, hx⟩ := Option.isSome_iff_exists.1 (hget s k0 hs hk0)
    obtain ⟨s1, hs1, hinv1, hg1, hframe⟩ := hset s k0 (f k0 x) hs hk0
    have hk0r : k0 ∉ rest := (List.nodup_cons.1 hnd).1
    obtain ⟨ihinv, ihget⟩ := ih (fun k hk => hL k (by simp [hk])) (List.nodup_cons.1 hnd).2 s1 hinv1
    simp only [List.foldl_cons, hx, hs1, Option.getD_some]
    refine ⟨ihinv, fun k hk => ?_⟩
    rw [ihget k hk]
    by_cases e : k = k0
    · subst e
      rw [if_neg hk0r, if_pos (by simp), hg1, hx]; rfl
    · rw [hframe k hk e]
      by_cases hr : k ∈ rest
      · rw [if_pos hr, if_pos (by simp [hr])]
      · rw [if_neg hr, if_neg (by simp [e, hr])]

/-! ### the store "a valid tensor of a fixed shape" -/

theorem Tensor.get_of_valid (shape : Shape ν) (d : List α) (t : Tensor ν α)
    (ht : Tensor.tryFrom shape d = some t) (k : List Nat)
    (hk : inBounds (shape.map (·.2)) k = true) :
    t.get k = d[ravel (shape.map (·.2)) k]? ∧ ravel (shape.map (·.2)) k < d.length := by
  obtain ⟨⟨hc, _, _⟩, ht'⟩ := (tryFrom_eq_some_iff shape d t).1 ht
  have ho := offset_of_tryFrom shape d t ht k (by simpa using inBounds_length _ _ hk)
  have hlt := ravel_lt _ _ hk
  refine ⟨?_, by rw [hc]; exact hlt⟩
  unfold Tensor.get
  rw [ho, hk, ht']
  rfl

theorem Tensor.set_of_valid (shape : Shape ν) (d : List α) (t : Tensor ν α)
    (ht : Tensor.tryFrom shape d = some t) (k : List Nat) (v : α)
    (hk : inBounds (shape.map (·.2)) k = true) :
    t.set k v = some { t with data := d.set (ravel (shape.map (·.2)) k) v } ∧
    Tensor.tryFrom shape (d.set (ravel (shape.map (·.2)) k) v) =
      some { t with data := d.set (ravel (shape.map (·.2)) k) v } := by
  obtain ⟨hacc, ht'⟩ := (tryFrom_eq_some_iff shape d t).1 ht
  have ho := offset_of_tryFrom shape d t ht k (by simpa using inBounds_length _ _ hk)
  have hlt := ravel_lt _ _ hk
  constructor
  · unfold Tensor.set
    rw [ho, hk, ht']
    simp only [if_true]
    rw [if_pos (by rw [hacc.1]; exact hlt)]
  · rw [tryFrom_eq_some_iff]
    exact ⟨⟨by simpa using hacc.1, hacc.2⟩, by rw [ht']⟩

/-- **`map_mut_with_index` = `map_with_index`** on every tensor (and `map_mut` of a
    `TensorView<&mut Tensor>`, which runs the same loop). -/
theorem Tensor.mapMutWithIndex_eq (f : List Nat → α → α) (shape : Shape ν) (data : List α)
    (t : Tensor ν α) (ht : Tensor.tryFrom shape data = some t) :
    t.mapMutWithIndex f = t.mapWithIndex f := by
  have hshape : t.shape = shape := by
    rw [((tryFrom_eq_some_iff shape data t).1 ht).2]
  let Inv : Tensor ν α → Prop := fun s => Tensor.tryFrom shape s.data = some s
  have hspec := mapMutVia_spec (fun k => inBounds (shape.map (·.2)) k = true) Inv
    Tensor.get Tensor.set
    (by
      intro s k hs hk
      obtain ⟨hg, hlt⟩ := Tensor.get_of_valid shape s.data s hs k hk
      rw [hg, List.getElem?_eq_getElem hlt]; rfl)
    (by
      intro s k v hs hk
      obtain ⟨h1, h2⟩ := Tensor.set_of_valid shape s.data s hs k v hk
      refine ⟨_, h1, h2, ?_, ?_⟩
      · obtain ⟨hg, hlt⟩ := Tensor.get_of_valid shape _ _ h2 k hk
        rw [hg]; simp only [List.length_set] at hlt
        simp [(Tensor.get_of_valid shape s.data s hs k hk).2]
      · intro k' hk' hne
        rw [(Tensor.get_of_valid shape _ _ h2 k' hk').1, (Tensor.get_of_valid shape _ _ hs k' hk').1]
        have : ravel (shape.map (·.2)) k ≠ ravel (shape.map (·.2)) k' :=
          fun e => hne (ravel_injective _ k' k hk' hk e.symm)
        simp [this])
    f (allIndexes (shape.map (·.2))) (fun k hk => (mem_allIndexes_iff _ k).1 hk)
    (by
      have h : ((allIndexes (shape.map (·.2))).map (ravel (shape.map (·.2)))).Nodup := by
        rw [(allIndexes_spec _).1]; exact List.nodup_range
      rw [List.nodup_iff_pairwise_ne] at h ⊢
      exact List.Pairwise.of_map _ (fun a b hne e => hne (e ▸ rfl)) h)
    t (by
      show Tensor.tryFrom shape t.data = some t
      rw [((tryFrom_eq_some_iff shape data t).1 ht).2] at *
      exact ht)
  obtain ⟨hinv, hget⟩ := hspec
  have hfold : t.mapMutWithIndex f = (allIndexes (shape.map (·.2))).foldl
      (fun s idx => match Tensor.get s idx with
        | some x => (Tensor.set s idx (f idx x)).getD s
        | none => s) t := by
    unfold Tensor.mapMutWithIndex mapMutVia
    rw [hshape, shapeIndexes_eq_allIndexes]
    rfl
  rw [← hfold] at hinv hget
  -- the result is a valid tensor of the same shape whose view is the mapped view
  have hres : (t.mapMutWithIndex f).view.lazy.Equiv (mappedWithIndex f t.view.lazy) := by
    have hs' : (t.mapMutWithIndex f).shape = shape := by
      rw [((tryFrom_eq_some_iff shape _ _).1 hinv).2]
    refine ⟨by simp [mappedWithIndex, Tensor.view, hs', hshape], fun idx hlen => ?_⟩
    simp only [TView.lazy, Tensor.view, mappedWithIndex] at hlen ⊢
    rw [hs'] at hlen
    by_cases hb : inBounds (shape.map (·.2)) idx = true
    · rw [hget idx hb, if_pos ((mem_allIndexes_iff _ idx).2 hb)]
    · have h1 := (EasyMl.view_valid shape _ _ hinv).get idx (by simpa [Tensor.view, hs'] using hlen)
      have h2 := (EasyMl.view_valid shape data t ht).get idx (by simpa [Tensor.view, hshape] using hlen)
      simp only [TView.lazy, Tensor.view, hs', hshape, hb] at h1 h2
      cases ha : (t.mapMutWithIndex f).get idx with
      | some _ => simp [ha] at h1
      | none =>
        cases hb' : t.get idx with
        | some _ => simp [hb'] at h2
        | none => rfl
  have hm := materialise_congr hres
  rw [materialise_view shape _ _ hinv,
    materialise_congr (mappedWithIndex_congr (view_equiv_ofData shape data t ht) f)] at hm
  rw [Tensor.mapWithIndex_eq f shape data t ht, ← hm]
  have := ((tryFrom_eq_some_iff shape _ _).1 hinv).2
  rw [this]
  rfl

/-! ### the store "a `TensorAccess` of a valid tensor" -/

theorem lookupByName_eq_reordered (shape : Shape ν) (data : List α) (names : List ν)
    (idx : List Nat) :
    lookupByName shape data names idx = (reordered (ofData shape data) names).get idx := by
  simp only [lookupByName, lookupOffset, reordered, ofData]
  split <;> rename_i h <;> split at h <;> simp_all

/-- **In-place mapping through a `TensorAccess`** (`TensorAccess::map_mut*`, and `map_mut*` of a
    `TensorView` over an access or a transpose of a `&mut Tensor`): the source tensor afterwards
    has the same shape and, seen through the same ordering, is the mapped view of the original. -/
theorem Access.mapMutWithIndex_eq [Inhabited ν] (f : List Nat → α → α) (shape : Shape ν)
    (data : List α) (t : Tensor ν α) (ht : Tensor.tryFrom shape data = some t) (names : List ν)
    (a : Access ν α) (ha : t.indexBy names = some a) :
    ∃ d', Tensor.tryFrom shape d' = some (a.mapMutWithIndex f) ∧
      materialise (reordered (ofData shape d') names) =
        materialise (mappedWithIndex f (reordered (ofData shape data) names)) := by
  obtain ⟨hp, ha_eq⟩ := indexBy_eq_some shape data t names a ht ha
  obtain ⟨⟨_, hnd, _⟩, ht_eq⟩ := (tryFrom_eq_some_iff shape data t).1 ht
  have hnames : names.length = shape.length := by simpa using hp.length_eq
  -- an access with the same tables over any valid tensor of this shape is what `index_by` gives
  have hidx : ∀ (s : Access ν α), s.mapping = a.mapping →
      Tensor.tryFrom shape s.source.data = some s.source → s.source.indexBy names = some s := by
    intro s hm hs
    have hshape : s.source.shape = shape := by rw [((tryFrom_eq_some_iff shape _ _).1 hs).2]
    unfold Tensor.indexBy
    rw [hshape, new_of_perm shape names hnd hp]
    simp only
    cases s with
    | mk src m =>
      simp only at hm ⊢
      rw [hm, ha_eq]
  let Inv : Access ν α → Prop := fun s =>
    s.mapping = a.mapping ∧ Tensor.tryFrom shape s.source.data = some s.source
  let lens' := (shapeFor shape names).map (·.2)
  have hshape' : ∀ s, Inv s → s.shape = shapeFor shape names :=
    fun s hs => C01.access_shape_eq shape _ _ names s hs.2 (hidx s hs.1 hs.2)
  have hklen : ∀ k, inBounds lens' k = true → k.length = names.length := by
    intro k hk
    have := inBounds_length _ _ hk
    simpa [lens', shapeFor_length] using this
  have hspec := mapMutVia_spec (fun k => inBounds lens' k = true) Inv Access.get Access.set
    (by
      intro s k hs hk
      rw [C01.access_get_isSome_iff shape _ _ names s hs.2 (hidx s hs.1 hs.2) k (hklen k hk),
        hshape' s hs]
      exact hk)
    (by
      intro s k v hs hk
      have hi := hidx s hs.1 hs.2
      have hwf := C01.access_write_frame shape _ _ names s hs.2 hi k v
      have hsome : (lookupOffset shape names k).isSome = true := by
        rw [lookupOffset_isSome_iff shape names k hnd hp (hklen k hk)]; exact hk
      obtain ⟨o, ho⟩ := Option.isSome_iff_exists.1 hsome
      rw [ho] at hwf
      simp only [Option.map_some] at hwf
      have hinv' : Inv { s with source := { s.source with data := s.source.data.set o v } } := by
        refine ⟨hs.1, ?_⟩
        obtain ⟨hacc, hs_eq⟩ := (tryFrom_eq_some_iff shape _ _).1 hs.2
        rw [tryFrom_eq_some_iff]
        exact ⟨⟨by simpa using hacc.1, hacc.2⟩, by simp only; rw [hs_eq]⟩
      obtain ⟨hg, hfr⟩ := C01.access_set_get shape _ _ names s _ hs.2 hi k v (hklen k hk) hwf
      exact ⟨_, hwf, hinv', hg, fun k' hk' hne => hfr k' (hklen k' hk') hne⟩)
    f (allIndexes lens') (fun k hk => (mem_allIndexes_iff _ k).1 hk)
    (by
      have h : ((allIndexes lens').map (ravel lens')).Nodup := by
        rw [(allIndexes_spec _).1]; exact List.nodup_range
      rw [List.nodup_iff_pairwise_ne] at h ⊢
      exact List.Pairwise.of_map _ (fun a b hne e => hne (e ▸ rfl)) h)
    a ⟨rfl, by rw [ha_eq]; simp only; rw [ht_eq] at ht ⊢; exact ht⟩
  obtain ⟨hinv, hget⟩ := hspec
  have hfold : a.mapMutWithIndex f = ((allIndexes lens').foldl
      (fun s idx => match Access.get s idx with
        | some x => (Access.set s idx (f idx x)).getD s
        | none => s) a).source := by
    unfold Access.mapMutWithIndex mapMutVia
    rw [hshape' a ⟨rfl, by rw [ha_eq]; simp only; rw [ht_eq] at ht ⊢; exact ht⟩,
      shapeIndexes_eq_allIndexes]
    rfl
  refine ⟨_, by rw [hfold]; exact hinv.2, ?_⟩
  rw [materialise_eq_iff]
  refine ⟨rfl, ?_⟩
  simp only [materialise, reordered, mappedWithIndex, ofData_shape]
  apply filterMap_congr'
  intro k hk
  have hk' : inBounds lens' k = true := (mem_allIndexes_iff _ k).1 hk
  have h1 := hget k hk'
  rw [if_pos hk] at h1
  have hfin := C01.access_get_eq_lookupByName shape _ _ names _ hinv.2 (hidx _ hinv.1 hinv.2) k
  have hini := C01.access_get_eq_lookupByName shape data t names a ht ha k
  rw [hfin, hini, lookupByName_eq_reordered, lookupByName_eq_reordered] at h1
  simp only [reordered] at h1
  exact h1

end EasyMl
