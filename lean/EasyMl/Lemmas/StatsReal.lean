/-
  EasyMl.Lemmas.StatsReal — the model of `softmax` instantiated at ℝ (`RealFns ℝ` given by
  `Real.exp` …, comparisons by the order of ℝ; see Lemmas/RealModel.lean): the max-shifted
  computation equals the textbook `exp xᵢ / Σ exp xⱼ`.
-/
import Mathlib.Analysis.SpecialFunctions.Exp
import Mathlib.Algebra.BigOperators.Group.List.Basic
import Mathlib.Algebra.BigOperators.Ring.List
import EasyMl.Lemmas.RealModel
import EasyMl.Lemmas.Stats

namespace EasyMl.Stats
open EasyMl
open scoped EasyMl.RealModel

/-- the `max_by` fold keeps the larger of accumulator and element -/
theorem maxBy_step_eq (acc y : ℝ) : (if NumOrd.lt y acc then acc else y) = max acc y := by
  by_cases h : y < acc
  · simp [h, max_eq_left (le_of_lt h)]
  · simp [h, max_eq_right (not_lt.1 h)]

theorem maxBy_step_fun :
    (fun (acc y : ℝ) => if NumOrd.lt y acc then acc else y) = fun acc y => max acc y := by
  funext acc y; exact maxBy_step_eq acc y

theorem foldl_max_spec (xs : List ℝ) (a : ℝ) :
    (xs.foldl max a = a ∨ xs.foldl max a ∈ xs) ∧ a ≤ xs.foldl max a ∧ ∀ y ∈ xs, y ≤ xs.foldl max a := by
  induction xs generalizing a with
  | nil => simp
  | cons x xs ih =>
    simp only [List.foldl_cons]
    obtain ⟨h1, h2, h3⟩ := ih (max a x)
    refine ⟨?_, le_trans (le_max_left a x) h2, ?_⟩
    · rcases h1 with h1 | h1
      · rcases max_choice a x with hm | hm
        · left; rw [h1, hm]
        · right; rw [h1, hm]; simp
      · right; simp [h1]
    · intro y hy
      simp only [List.mem_cons] at hy
      rcases hy with rfl | hy
      · exact le_trans (le_max_right a y) h2
      · exact h3 y hy

/-- `max_by` returns an element of the list that is ≥ every element -/
theorem maxBy_isMax (l : List ℝ) (h : l ≠ []) :
    ∃ mx, maxBy l = some mx ∧ mx ∈ l ∧ ∀ y ∈ l, y ≤ mx := by
  cases l with
  | nil => exact absurd rfl h
  | cons x xs =>
    obtain ⟨h1, h2, h3⟩ := foldl_max_spec xs x
    refine ⟨xs.foldl max x, ?_, ?_, ?_⟩
    · simp only [maxBy, maxBy_step_fun]
    · rcases h1 with h1 | h1
      · rw [h1]; simp
      · simp [h1]
    · intro y hy
      simp only [List.mem_cons] at hy
      rcases hy with rfl | hy
      · exact h2
      · exact h3 y hy

theorem softmax_real_eq (l : List ℝ) (mx : ℝ) (h : maxBy l = some mx) :
    softmax l = l.map fun x => Real.exp (x - mx) / (l.map fun y => Real.exp (y - mx)).sum := by
  unfold softmax
  rw [h]
  simp only [foldl_add_eq, zero_add]
  rfl

/-- over ℝ the shift cancels: the model computes the textbook softmax -/
theorem softmax_real_eq_textbook (l : List ℝ) (h : l ≠ []) :
    softmax l = l.map fun x => Real.exp x / (l.map Real.exp).sum := by
  obtain ⟨mx, hmx, _, _⟩ := maxBy_isMax l h
  rw [softmax_real_eq l mx hmx]
  have hsum : (l.map fun y => Real.exp (y - mx)).sum = (l.map Real.exp).sum * (Real.exp mx)⁻¹ := by
    rw [← List.sum_map_mul_right]
    congr 1
    apply List.map_congr_left
    intro y _
    rw [Real.exp_sub, div_eq_mul_inv]
  apply List.map_congr_left
  intro x _
  rw [hsum, Real.exp_sub, div_eq_mul_inv (Real.exp x) (Real.exp mx)]
  have hne : (Real.exp mx)⁻¹ ≠ 0 := inv_ne_zero (Real.exp_ne_zero mx)
  rw [mul_div_mul_right _ _ hne]

theorem sum_exp_pos (l : List ℝ) (h : l ≠ []) : 0 < (l.map Real.exp).sum := by
  cases l with
  | nil => exact absurd rfl h
  | cons x xs =>
    simp only [List.map_cons, List.sum_cons]
    have : 0 ≤ (xs.map Real.exp).sum := by
      apply List.sum_nonneg
      intro y hy
      simp only [List.mem_map] at hy
      obtain ⟨z, _, rfl⟩ := hy
      exact le_of_lt (Real.exp_pos z)
    linarith [Real.exp_pos x]

end EasyMl.Stats
