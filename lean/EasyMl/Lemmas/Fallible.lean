/-
  EasyMl.Lemmas.Fallible — helper lemmas for C16 (and the totality part of C12).
-/
import EasyMl.Spec.Fallible
import EasyMl.Lemmas.Tensor

namespace EasyMl.Fallible
open EasyMl.Spec

set_option linter.unusedSectionVars false
set_option linter.unusedVariables false

deriving instance DecidableEq for Outcome

variable {ν : Type} [DecidableEq ν]

/-! ### checked arithmetic -/

theorem cadd_ok {a b : Nat} (h : a + b ≤ usizeMax) : cadd a b = .ok (a + b) := by
  simp [cadd, h]

theorem csub_ok {a b : Nat} (h : b ≤ a) : csub a b = .ok (a - b) := by
  simp [csub, h]

theorem cmul_ok {a b : Nat} (h : a * b ≤ usizeMax) : cmul a b = .ok (a * b) := by
  simp [cmul, h]

theorem idxC_ok {α : Type} {l : List α} {i : Nat} (h : i < l.length) : idxC l i = .ok l[i] := by
  simp [idxC, h]

theorem setC_ok {α : Type} {l : List α} {i : Nat} {v : α} (h : i < l.length) :
    setC l i v = .ok (l.set i v) := by
  simp [setC, h]

/-! ### products -/

theorem one_le_prod {l : List Nat} (h : ∀ x ∈ l, 1 ≤ x) : 1 ≤ prod l := by
  induction l with
  | nil => simp
  | cons x xs ih =>
    simp only [prod_cons]
    have h1 := h x (by simp)
    have h2 := ih (fun y hy => h y (by simp [hy]))
    exact Nat.mul_le_mul h1 h2

/-- `Iterator::product` does not overflow when the factors are positive and the (mathematical)
    product fits. -/
theorem prodC_ok {l : List Nat} {acc : Nat} (h : ∀ x ∈ l, 1 ≤ x) (hb : acc * prod l ≤ usizeMax) :
    prodC l acc = .ok (acc * prod l) := by
  induction l generalizing acc with
  | nil => simp [prodC]
  | cons x xs ih =>
    simp only [prod_cons] at hb
    have hxs : 1 ≤ prod xs := one_le_prod (fun y hy => h y (by simp [hy]))
    have hax : acc * x ≤ usizeMax := by
      calc acc * x = acc * x * 1 := by simp
        _ ≤ acc * x * prod xs := Nat.mul_le_mul_left _ hxs
        _ = acc * (x * prod xs) := Nat.mul_assoc _ _ _
        _ ≤ usizeMax := hb
    simp only [prodC, cmul_ok hax]
    rw [ih (fun y hy => h y (by simp [hy])) (by rw [Nat.mul_assoc]; exact hb)]
    simp [Nat.mul_assoc]

theorem checkedProd_some {l : List Nat} {acc p : Nat} (h : checkedProd l acc = some p) :
    p = acc * prod l ∧ p ≤ usizeMax ∨ (l = [] ∧ p = acc) := by
  induction l generalizing acc with
  | nil => simp [checkedProd] at h; right; simp [h]
  | cons x xs ih =>
    simp only [checkedProd] at h
    split at h
    · rename_i hle
      rcases ih h with ⟨hp, hpm⟩ | ⟨hnil, hp⟩
      · left; simp [hp, Nat.mul_assoc]; rw [← Nat.mul_assoc, ← hp]; exact hpm
      · left; subst hnil; simp [hp, hle]
    · simp at h

theorem checkedProd_eq_some {l : List Nat} {acc p : Nat} (h : checkedProd l acc = some p) :
    p = acc * prod l := by
  rcases checkedProd_some h with ⟨hp, _⟩ | ⟨hl, hp⟩
  · exact hp
  · subst hl; simp [hp]

/-- the checked product fails only if the mathematical product does not fit (positive factors) -/
theorem checkedProd_none {l : List Nat} {acc : Nat} (h : checkedProd l acc = none)
    (hpos : ∀ x ∈ l, 1 ≤ x) : usizeMax < acc * prod l := by
  induction l generalizing acc with
  | nil => simp [checkedProd] at h
  | cons x xs ih =>
    simp only [checkedProd] at h
    have hxs : 1 ≤ prod xs := one_le_prod (fun y hy => hpos y (by simp [hy]))
    split at h
    · have := ih h (fun y hy => hpos y (by simp [hy]))
      simpa [Nat.mul_assoc] using this
    · rename_i hgt
      simp only [prod_cons]
      calc usizeMax < acc * x := by omega
        _ = acc * x * 1 := by simp
        _ ≤ acc * x * prod xs := Nat.mul_le_mul_left _ hxs
        _ = acc * (x * prod xs) := Nat.mul_assoc _ _ _

theorem checkedProd_of_le {l : List Nat} {acc : Nat} (hpos : ∀ x ∈ l, 1 ≤ x)
    (hb : acc * prod l ≤ usizeMax) : checkedProd l acc = some (acc * prod l) := by
  cases h : checkedProd l acc with
  | none => have := checkedProd_none h hpos; omega
  | some p => rw [checkedProd_eq_some h]

/-! ### `has_duplicates` -/

theorem hasDuplicates_eq_false_iff (l : List ν) : hasDuplicates l = false ↔ l.Nodup := by
  induction l with
  | nil => simp [hasDuplicates]
  | cons x xs ih =>
    simp only [hasDuplicates, Bool.or_eq_false_iff, ih, List.nodup_cons]
    constructor
    · rintro ⟨h1, h2⟩; exact ⟨by simpa using h1, h2⟩
    · rintro ⟨h1, h2⟩; exact ⟨by simpa using h1, h2⟩

theorem isValidShape_iff (shape : Shape ν) :
    isValidShape shape = true ↔ (shape.map (·.1)).Nodup ∧ ∀ d ∈ shape, 1 ≤ d.2 := by
  simp only [isValidShape, Bool.and_eq_true, Bool.not_eq_true', hasDuplicates_eq_false_iff]
  constructor
  · rintro ⟨h1, h2⟩
    refine ⟨h1, fun d hd => ?_⟩
    have : ¬ (d.2 == 0) = true := by
      intro h0
      have : shape.any (·.2 == 0) = true := List.any_eq_true.mpr ⟨d, hd, h0⟩
      simp [this] at h2
    simp at this; omega
  · rintro ⟨h1, h2⟩
    refine ⟨h1, ?_⟩
    rw [Bool.eq_false_iff]
    intro h
    obtain ⟨d, hd, h0⟩ := List.any_eq_true.mp h
    have := h2 d hd
    simp at h0; omega

/-! ### strides -/

theorem prod_drop_le {l : List Nat} (h : ∀ x ∈ l, 1 ≤ x) (k : Nat) : prod (l.drop k) ≤ prod l := by
  induction l generalizing k with
  | nil => simp
  | cons x xs ih =>
    cases k with
    | zero => simp
    | succ k =>
      simp only [List.drop_succ_cons, prod_cons]
      have h1 := h x (by simp)
      have := ih (fun y hy => h y (by simp [hy])) k
      calc prod (xs.drop k) ≤ prod xs := this
        _ = 1 * prod xs := by simp
        _ ≤ x * prod xs := Nat.mul_le_mul_right _ h1

/-- after validation `compute_strides` cannot overflow and yields the row-major strides -/
theorem computeStridesC_ok (shape : Shape ν) (hpos : ∀ d ∈ shape, 1 ≤ d.2)
    (hb : elements shape ≤ usizeMax) : computeStridesC shape = .ok (computeStrides shape) := by
  induction shape with
  | nil => simp [computeStridesC]
  | cons d rest ih =>
    have hposr : ∀ d ∈ rest, 1 ≤ d.2 := fun e he => hpos e (by simp [he])
    have hd := hpos d (by simp)
    have hrest : elements rest ≤ usizeMax := by
      simp only [elements_cons] at hb
      calc elements rest = 1 * elements rest := by simp
        _ ≤ d.2 * elements rest := Nat.mul_le_mul_right _ hd
        _ ≤ usizeMax := hb
    have hp : prodC (rest.map (·.2)) 1 = .ok (1 * prod (rest.map (·.2))) :=
      prodC_ok (by intro x hx; simp only [List.mem_map] at hx; obtain ⟨e, he, rfl⟩ := hx; exact hposr e he)
        (by simpa [elements] using hrest)
    simp only [computeStridesC, hp, ih hposr hrest, computeStrides_cons]
    simp [elements]

/-! ### the leaf getter -/

/-- `get_index_direct` with overflow checks agrees with the unchecked model of C01 as long as
    the accumulated offset plus the remaining block stays representable -/
theorem getIndexDirectC_eq (shape : Shape ν) (idx : List Nat) (acc : Nat)
    (hb : acc + elements shape ≤ usizeMax) :
    getIndexDirectC idx (computeStrides shape) (shape.map (·.2)) acc =
      .ok (getIndexDirectGo idx (computeStrides shape) (shape.map (·.2)) acc) := by
  induction shape generalizing idx acc with
  | nil => cases idx <;> simp [getIndexDirectC, getIndexDirectGo]
  | cons d rest ih =>
    cases idx with
    | nil => simp [getIndexDirectC, getIndexDirectGo]
    | cons n is =>
      rw [computeStrides_cons]
      simp only [List.map_cons, getIndexDirectC, getIndexDirectGo]
      by_cases h : n ≥ d.2
      · simp [h]
      · simp only [h, if_false]
        simp only [elements_cons] at hb
        have h1 : (n + 1) * elements rest ≤ d.2 * elements rest :=
          Nat.mul_le_mul_right _ (by omega)
        rw [Nat.add_mul] at h1
        simp only [Nat.one_mul] at h1
        have hprod : n * elements rest ≤ usizeMax := by omega
        have hsum : acc + n * elements rest ≤ usizeMax := by omega
        simp only [cmul_ok hprod, cadd_ok hsum]
        exact ih is _ (by omega)

/-! ### `Tensor::try_from` -/

/-- The repaired `Tensor::try_from` in closed form: for every shape and every `usize` data length
    it returns normally; `Ok` (with row-major strides) exactly for a valid shape whose element
    count is the data length, otherwise `Err` carrying the requested shape. -/
theorem tensorTryFrom_fixed_eq (shape : Shape ν) (n : Nat) (hn : n ≤ usizeMax) :
    tensorTryFrom Arith.fixed shape n =
      if n = elements shape ∧ isValidShape shape = true then
        .ok (.ok { dataLen := n, shape := shape, strides := computeStrides shape })
      else .ok (.error shape) := by
  simp only [tensorTryFrom, Arith.fixed]
  by_cases hv : isValidShape shape = true
  · have hpos : ∀ d ∈ shape, 1 ≤ d.2 := ((isValidShape_iff shape).mp hv).2
    have hpos' : ∀ x ∈ shape.map (·.2), 1 ≤ x := by
      intro x hx; simp only [List.mem_map] at hx; obtain ⟨e, he, rfl⟩ := hx; exact hpos e he
    cases hc : checkedProd (shape.map (·.2)) 1 with
    | none =>
      have := checkedProd_none hc hpos'
      have hne : ¬ n = elements shape := by simp only [elements]; omega
      simp [hne]
    | some p =>
      have hp : p = elements shape := by simpa [elements] using checkedProd_eq_some hc
      subst hp
      by_cases hnp : n = elements shape
      · subst hnp
        simp [hv, computeStridesC_ok shape hpos hn]
      · have : ¬ elements shape = n := fun h => hnp h.symm
        simp [hnp, this]
  · simp [hv]

/-- a tensor built by the (repaired) `try_from` -/
theorem tensorTryFrom_ok {shape : Shape ν} {n : Nat} {t : TensorMeta ν} (hn : n ≤ usizeMax)
    (h : tensorTryFrom Arith.fixed shape n = .ok (.ok t)) :
    t = { dataLen := elements shape, shape := shape, strides := computeStrides shape } ∧
      n = elements shape ∧ isValidShape shape = true := by
  rw [tensorTryFrom_fixed_eq shape n hn] at h
  split at h
  · rename_i hc
    simp only [Outcome.ok.injEq, Except.ok.injEq] at h
    subst h
    exact ⟨by simp [hc.1], hc.1, hc.2⟩
  · simp at h

theorem inBounds_length {lens idx : List Nat} (h : inBounds lens idx = true) :
    idx.length = lens.length := by
  induction lens generalizing idx with
  | nil => cases idx <;> simp_all [inBounds]
  | cons l ls ih =>
    cases idx with
    | nil => simp [inBounds] at h
    | cons c cs =>
      simp only [inBounds, Bool.and_eq_true] at h
      simp [ih h.2]

/-- the checked getter of a tensor built by `try_from` is total -/
theorem ofTensor_total {shape : Shape ν} {n : Nat} {t : TensorMeta ν} (hn : n ≤ usizeMax)
    (h : tensorTryFrom Arith.fixed shape n = .ok (.ok t)) :
    (TView.ofTensor t).Total ∧ (TView.ofTensor t).shape = shape := by
  obtain ⟨ht, hne, hv⟩ := tensorTryFrom_ok hn h
  subst ht
  refine ⟨?_, rfl⟩
  intro idx hlen
  simp only [TView.ofTensor, TensorMeta.get]
  rw [getIndexDirectC_eq shape idx 0 (by omega)]
  rw [getIndexDirectGo_eq shape idx 0 hlen]
  by_cases hb : inBounds (shape.map (·.2)) idx = true
  · have := ravel_lt _ _ hb
    simp only [hb, if_true, Nat.zero_add]
    refine ⟨_, rfl, ?_⟩
    simp [elements, this]
  · simp only [hb]
    exact ⟨none, rfl, by simp⟩

/-! ### `IndexRange` -/

/-- a range that has been clipped to a dimension of length `m` -/
def IndexRange.Clipped (r : IndexRange) (m : Nat) : Prop := r.length = 0 ∨ r.start + r.length ≤ m

theorem IndexRange.clip_start (r : IndexRange) (m : Nat) : (r.clip m).start = r.start := rfl

/-- D-06 repaired: clipping computes `min(start + length, max) − start` for every `usize` input -/
theorem IndexRange.clip_length (r : IndexRange) (m : Nat) (hm : m ≤ usizeMax) :
    (r.clip m).length = min (r.start + r.length) m - r.start := by
  simp only [IndexRange.clip]; omega

theorem IndexRange.clip_clipped (r : IndexRange) (m : Nat) (hm : m ≤ usizeMax) :
    (r.clip m).Clipped m := by
  simp only [IndexRange.Clipped, IndexRange.clip]; omega

theorem IndexRange.clip_length_le (r : IndexRange) (m : Nat) : (r.clip m).length ≤ m := by
  simp only [IndexRange.clip]; omega

/-! ### per-coordinate maps and the shared loop -/

/-- What a per-dimension coordinate map must satisfy for the adaptor to be total: it returns
    normally for every coordinate; `None` only outside the view; and a mapped coordinate is inside
    the source's dimension exactly when the given one is inside the view's. -/
def CoordSpec (f : Nat → Outcome (Option Nat)) (viewLen srcLen : Nat) : Prop :=
  ∀ i, ∃ x, f i = .ok x ∧
    match x with
    | none => ¬ i < viewLen
    | some j => (j < srcLen ↔ i < viewLen)

theorem IndexRange.map_spec (r : IndexRange) (m : Nat) (hm : m ≤ usizeMax) (hc : r.Clipped m) :
    CoordSpec r.map r.length m := by
  intro i
  simp only [IndexRange.map]
  by_cases h : i < r.length
  · have hs : i + r.start ≤ usizeMax := by simp only [IndexRange.Clipped] at hc; omega
    refine ⟨some (i + r.start), by simp [h, cadd_ok hs], ?_⟩
    simp only [IndexRange.Clipped] at hc
    constructor <;> intro <;> omega
  · exact ⟨none, by simp [h], h⟩

/-- `IndexRange::map` on a clipped range in closed form: no overflow for any coordinate -/
theorem IndexRange.map_clip_eq (r : IndexRange) (m : Nat) (hm : m ≤ usizeMax) (i : Nat) :
    (r.clip m).map i = .ok (if i < (r.clip m).length then some (i + r.start) else none) := by
  simp only [IndexRange.map]
  by_cases h : i < (r.clip m).length
  · have : i + r.start ≤ usizeMax := by
      have := IndexRange.clip_clipped r m hm
      simp only [IndexRange.Clipped, IndexRange.clip_start] at this; omega
    simp [h, IndexRange.clip_start, cadd_ok this]
  · simp [h]

theorem IndexRange.tryMask_spec (r : IndexRange) (m : Nat) (hm : m ≤ usizeMax) (hc : r.Clipped m) :
    CoordSpec (Arith.fixed.maskChecked r) (m - r.length) m := by
  intro i
  simp only [Arith.fixed, IndexRange.tryMask, IndexRange.Clipped] at *
  by_cases h1 : i < r.start
  · refine ⟨some i, by simp [h1], ?_⟩
    constructor <;> intro <;> omega
  · by_cases h2 : i + r.length ≤ usizeMax
    · refine ⟨some (i + r.length), by simp [h1, h2], ?_⟩
      constructor <;> intro <;> omega
    · refine ⟨none, by simp [h1, h2], ?_⟩
      omega

theorem reverseChecked_spec (l : Nat) : CoordSpec (Arith.fixed.reverseChecked l) l l := by
  intro i
  simp only [Arith.fixed, reverseOne]
  by_cases h : i ≥ l
  · exact ⟨none, by simp [h], by omega⟩
  · have h1 : 1 ≤ l := by omega
    have h2 : i ≤ l - 1 := by omega
    refine ⟨some (l - 1 - i), by simp [h, csub_ok h1, csub_ok h2], ?_⟩
    constructor <;> intro <;> omega

theorem id_spec (l : Nat) : CoordSpec (fun i => .ok (some i)) l l := by
  intro i; exact ⟨some i, rfl, Iff.rfl⟩

/-- The shared loop on per-dimension maps that satisfy `CoordSpec`: it returns normally, `None`
    only for a tuple outside the view, and otherwise a tuple of the same arity that is inside the
    source exactly when the given one is inside the view. -/
theorem mapCoords_spec (ts : List ((Nat → Outcome (Option Nat)) × Nat × Nat))
    (h : ∀ t ∈ ts, CoordSpec t.1 t.2.1 t.2.2) (idx : List Nat) (hlen : idx.length = ts.length) :
    ∃ x, mapCoords (ts.map (·.1)) idx = .ok x ∧
      match x with
      | none => inBounds (ts.map (·.2.1)) idx = false
      | some m => m.length = ts.length ∧
          inBounds (ts.map (·.2.2)) m = inBounds (ts.map (·.2.1)) idx := by
  induction ts generalizing idx with
  | nil =>
    cases idx with
    | nil => exact ⟨some [], rfl, rfl, rfl⟩
    | cons _ _ => simp at hlen
  | cons t ts ih =>
    cases idx with
    | nil => simp at hlen
    | cons i is =>
      simp only [List.length_cons, Nat.add_right_cancel_iff] at hlen
      obtain ⟨x, hx, hspec⟩ := h t (by simp) i
      obtain ⟨y, hy, hrest⟩ := ih (fun t' ht' => h t' (by simp [ht'])) is hlen
      simp only [List.map_cons, mapCoords, hx]
      cases x with
      | none =>
        refine ⟨none, rfl, ?_⟩
        simp only at hspec
        simp [inBounds, hspec]
      | some j =>
        simp only [hy]
        simp only at hspec
        cases y with
        | none =>
          refine ⟨none, rfl, ?_⟩
          simp only at hrest
          simp [inBounds, hrest]
        | some js =>
          refine ⟨some (j :: js), rfl, ?_⟩
          simp only at hrest
          simp only [List.length_cons, hrest.1, inBounds, hrest.2, true_and]
          by_cases hi : i < t.2.1
          · simp [hi, hspec.mpr hi]
          · have : ¬ j < t.2.2 := fun hj => hi (hspec.mp hj)
            simp [hi, this]

/-- An adaptor that maps coordinates dimension by dimension and then asks its source is total
    when the source is. -/
theorem total_of_mapCoords {src : List Nat → Outcome (Option Nat)} {srcLens : List Nat}
    (hsrc : ∀ idx, idx.length = srcLens.length →
      ∃ r, src idx = .ok r ∧ r.isSome = inBounds srcLens idx)
    (ts : List ((Nat → Outcome (Option Nat)) × Nat × Nat))
    (hts : ts.map (·.2.2) = srcLens)
    (h : ∀ t ∈ ts, CoordSpec t.1 t.2.1 t.2.2) (idx : List Nat) (hlen : idx.length = ts.length) :
    ∃ r, (match mapCoords (ts.map (·.1)) idx with
          | .ok (some mapped) => src mapped
          | .ok none => .ok none
          | .panic k => .panic k) = .ok r ∧ r.isSome = inBounds (ts.map (·.2.1)) idx := by
  obtain ⟨x, hx, hspec⟩ := mapCoords_spec ts h idx hlen
  rw [hx]
  cases x with
  | none => exact ⟨none, rfl, by simp only at hspec; simp [hspec]⟩
  | some m =>
    simp only at hspec
    have hl : m.length = srcLens.length := by rw [← hts]; simp [hspec.1]
    obtain ⟨r, hr, hsome⟩ := hsrc m hl
    exact ⟨r, hr, by rw [hsome, ← hts, hspec.2]⟩

/-! ### `TensorRange` / `TensorMask` construction -/

/-- the ranges after `clip_range_shape` / `clip_masked_shape` -/
def clippedRanges (shape : Shape ν) (ranges : List IndexRange) : List IndexRange :=
  List.zipWith (fun d r => r.clip d.2) shape ranges

/-- the shape a `TensorRange` reports: each length is the clipped range's length -/
def rangeShape (shape : Shape ν) (ranges : List IndexRange) : Shape ν :=
  List.zipWith (fun d r => (d.1, (r.clip d.2).length)) shape ranges

/-- the shape a `TensorMask` reports: each length is reduced by the clipped mask's length -/
def maskShape (shape : Shape ν) (masks : List IndexRange) : Shape ν :=
  List.zipWith (fun d r => (d.1, d.2 - (r.clip d.2).length)) shape masks

theorem clipRangeShape_fixed (shape : Shape ν) (ranges : List IndexRange) :
    clipRangeShape Arith.fixed shape ranges =
      .ok (rangeShape shape ranges, clippedRanges shape ranges) := by
  induction shape generalizing ranges with
  | nil => simp [clipRangeShape, rangeShape, clippedRanges]
  | cons d shape ih =>
    cases ranges with
    | nil => simp [clipRangeShape, rangeShape, clippedRanges]
    | cons r ranges =>
      obtain ⟨n, l⟩ := d
      simp only [clipRangeShape, ih ranges]
      simp [Arith.fixed, rangeShape, clippedRanges]

theorem clipMaskedShape_fixed (shape : Shape ν) (masks : List IndexRange) :
    clipMaskedShape Arith.fixed shape masks =
      .ok (maskShape shape masks, clippedRanges shape masks) := by
  induction shape generalizing masks with
  | nil => simp [clipMaskedShape, maskShape, clippedRanges]
  | cons d shape ih =>
    cases masks with
    | nil => simp [clipMaskedShape, maskShape, clippedRanges]
    | cons r masks =>
      obtain ⟨n, l⟩ := d
      simp only [clipMaskedShape, ih masks]
      simp [Arith.fixed, maskShape, clippedRanges, csub_ok (IndexRange.clip_length_le r l)]

theorem defaultRanges_length (shape : Shape ν) (ranges : List (Option IndexRange))
    (h : ranges.length = shape.length) : (defaultRanges shape ranges).length = shape.length := by
  induction shape generalizing ranges with
  | nil => cases ranges <;> simp [defaultRanges]
  | cons d shape ih =>
    cases ranges with
    | nil => simp at h
    | cons o os =>
      obtain ⟨n, l⟩ := d
      simp only [List.length_cons, Nat.add_right_cancel_iff] at h
      simp [defaultRanges, ih os h]

/-- `TensorRange::from_all` (repaired) in closed form -/
theorem rangeFromAll_fixed_eq (src : TView ν) (ranges : List (Option IndexRange)) :
    rangeFromAll Arith.fixed src ranges =
      if isValidShape (rangeShape src.shape (defaultRanges src.shape ranges)) = true then
        .ok (.ok (src.range (rangeShape src.shape (defaultRanges src.shape ranges))
          (clippedRanges src.shape (defaultRanges src.shape ranges))))
      else .ok (.error (.invalidShape (rangeShape src.shape (defaultRanges src.shape ranges)))) := by
  simp [rangeFromAll, clipRangeShape_fixed]

/-- `TensorMask::from_all` (repaired) in closed form -/
theorem maskFromAll_fixed_eq (src : TView ν) (masks : List (Option IndexRange)) :
    maskFromAll Arith.fixed src masks =
      if isValidShape (maskShape src.shape (defaultMasks masks)) = true then
        .ok (.ok (src.mask Arith.fixed (maskShape src.shape (defaultMasks masks))
          (clippedRanges src.shape (defaultMasks masks))))
      else .ok (.error (.invalidShape (maskShape src.shape (defaultMasks masks)))) := by
  simp [maskFromAll, clipMaskedShape_fixed]

/-- does some given range end beyond its dimension? -/
def exceedsAny : Shape ν → List (Option IndexRange) → Bool
  | d :: shape, o :: os =>
    (match o with
     | none => false
     | some r => decide (r.start + r.length > d.2)) || exceedsAny shape os
  | _, _ => false

theorem fixed_exceeds (r : IndexRange) (e : Nat) (he : e ≤ usizeMax) :
    Arith.fixed.exceeds r e = .ok (decide (r.start + r.length > e)) := by
  simp only [Arith.fixed]
  by_cases h1 : r.start + r.length ≤ usizeMax
  · simp [h1]
  · have h2 : r.start + r.length > e := by omega
    simp [h1, h2]

/-- D-07 repaired: `range_exceeds_bounds` in closed form, for every `usize` start and length -/
theorem rangeExceedsBounds_fixed (shape : Shape ν) (ranges : List (Option IndexRange))
    (hs : ∀ d ∈ shape, d.2 ≤ usizeMax) :
    rangeExceedsBounds Arith.fixed shape ranges = .ok (exceedsAny shape ranges) := by
  induction shape generalizing ranges with
  | nil => simp [rangeExceedsBounds, exceedsAny]
  | cons d shape ih =>
    cases ranges with
    | nil => simp [rangeExceedsBounds, exceedsAny]
    | cons o os =>
      obtain ⟨n, e⟩ := d
      have he : e ≤ usizeMax := hs (n, e) (by simp)
      have ih' := ih os (fun d hd => hs d (by simp [hd]))
      cases o with
      | none => simp [rangeExceedsBounds, exceedsAny, ih']
      | some r =>
        simp only [rangeExceedsBounds, exceedsAny, fixed_exceeds r e he]
        by_cases h2 : r.start + r.length > e
        · simp [h2]
        · simp [h2, ih']

theorem rangeFromAllStrict_fixed_eq (src : TView ν) (ranges : List (Option IndexRange))
    (hs : ∀ d ∈ src.shape, d.2 ≤ usizeMax) :
    rangeFromAllStrict Arith.fixed src ranges =
      if exceedsAny src.shape ranges = true then .ok (.error (.outsideShape src.shape ranges))
      else rangeFromAll Arith.fixed src ranges := by
  simp only [rangeFromAllStrict, rangeExceedsBounds_fixed src.shape ranges hs]
  cases exceedsAny src.shape ranges <;> simp

theorem maskFromAllStrict_fixed_eq (src : TView ν) (masks : List (Option IndexRange))
    (hs : ∀ d ∈ src.shape, d.2 ≤ usizeMax) :
    maskFromAllStrict Arith.fixed src masks =
      if exceedsAny src.shape masks = true then .ok (.error (.outsideShape src.shape masks))
      else maskFromAll Arith.fixed src masks := by
  simp only [maskFromAllStrict, rangeExceedsBounds_fixed src.shape masks hs]
  cases exceedsAny src.shape masks <;> simp

/-! #### `from_named_to_all` -/

theorem findPos_lt {α : Type} {p : α → Bool} {l : List α} {d : Nat} (h : findPos p l = some d) :
    d < l.length := by
  induction l generalizing d with
  | nil => simp [findPos] at h
  | cons x xs ih =>
    simp only [findPos] at h
    split at h
    · simp at h; subst h; simp
    · cases hx : findPos p xs with
      | none => simp [hx] at h
      | some k => simp [hx] at h; have := ih hx; simp; omega

theorem findPos_eq_none {α : Type} {p : α → Bool} {l : List α} :
    findPos p l = none ↔ ∀ x ∈ l, p x = false := by
  induction l with
  | nil => simp [findPos]
  | cons x xs ih =>
    simp only [findPos]
    by_cases hp : p x = true
    · simp [hp]
    · simp only [hp]
      simp only [Bool.not_eq_true] at hp
      simp [ih, hp]

theorem positionOf_eq_none (shape : Shape ν) (name : ν) :
    positionOf shape name = none ↔ name ∉ shape.map (·.1) := by
  simp only [positionOf, findPos_eq_none]
  constructor
  · intro h hmem
    simp only [List.mem_map] at hmem
    obtain ⟨d, hd, rfl⟩ := hmem
    simpa using h d hd
  · intro h d hd
    simp only [decide_eq_false_iff_not]
    intro heq
    exact h (by simp only [List.mem_map]; exact ⟨d, hd, heq⟩)

/-- the scatter loop returns normally; it fails exactly when a name is not in the shape, and on
    success the table still has one entry per dimension -/
theorem scatterNamed_spec (shape : Shape ν) (provided : List ν) (ranges : List (ν × IndexRange))
    (all : List (Option IndexRange)) (hall : all.length = shape.length) :
    (∃ all', scatterNamed shape provided ranges all = .ok (.ok all') ∧ all'.length = shape.length ∧
        ∀ p ∈ ranges, p.1 ∈ shape.map (·.1)) ∨
    (scatterNamed shape provided ranges all =
        .ok (.error (.invalidDimensions provided (shape.map (·.1)))) ∧
      ∃ p ∈ ranges, p.1 ∉ shape.map (·.1)) := by
  induction ranges generalizing all with
  | nil => left; exact ⟨all, rfl, hall, by simp⟩
  | cons p rest ih =>
    obtain ⟨name, range⟩ := p
    simp only [scatterNamed]
    cases hp : positionOf shape name with
    | none =>
      right
      exact ⟨rfl, (name, range), by simp, (positionOf_eq_none shape name).mp hp⟩
    | some d =>
      have hd : d < all.length := by rw [hall]; exact findPos_lt hp
      simp only [setC_ok hd]
      have hmem : name ∈ shape.map (·.1) := by
        have : positionOf shape name ≠ none := by simp [hp]
        exact Classical.not_not.mp (fun hn => this ((positionOf_eq_none shape name).mpr hn))
      rcases ih (all.set d (some range)) (by simp [hall]) with ⟨all', h1, h2, h3⟩ | ⟨h1, q, hq, hq'⟩
      · left
        refine ⟨all', h1, h2, ?_⟩
        intro q hq
        simp only [List.mem_cons] at hq
        rcases hq with rfl | hq
        · exact hmem
        · exact h3 q hq
      · right
        exact ⟨h1, q, by simp [hq], hq'⟩

/-- `from_named_to_all` returns normally for every list of names and ranges; it fails exactly
    when a name is repeated or unknown, and the error names what was provided and what is valid -/
theorem fromNamedToAll_spec (shape : Shape ν) (ranges : List (ν × IndexRange)) :
    (∃ all, fromNamedToAll shape ranges = .ok (.ok all) ∧ all.length = shape.length ∧
        (ranges.map (·.1)).Nodup ∧ ∀ p ∈ ranges, p.1 ∈ shape.map (·.1)) ∨
    (fromNamedToAll shape ranges =
        .ok (.error (.invalidDimensions (ranges.map (·.1)) (shape.map (·.1)))) ∧
      (¬ (ranges.map (·.1)).Nodup ∨ ∃ p ∈ ranges, p.1 ∉ shape.map (·.1))) := by
  simp only [fromNamedToAll]
  by_cases hd : hasDuplicates (ranges.map (·.1)) = true
  · right
    simp only [hd, if_true, true_and]
    left
    intro hn
    have := (hasDuplicates_eq_false_iff _).mpr hn
    simp [this] at hd
  · simp only [hd]
    have hnd : (ranges.map (·.1)).Nodup :=
      (hasDuplicates_eq_false_iff _).mp (by simpa using hd)
    rcases scatterNamed_spec shape (ranges.map (·.1)) ranges (List.replicate shape.length none)
      (by simp) with ⟨all', h1, h2, h3⟩ | ⟨h1, h2⟩
    · left; exact ⟨all', by simpa using h1, h2, hnd, h3⟩
    · right; exact ⟨by simpa using h1, Or.inr h2⟩

/-! ### list plumbing -/

theorem zipWith_forall {α β γ : Type} (f : α → β → γ) (P : γ → Prop) (l1 : List α) (l2 : List β)
    (h : ∀ a ∈ l1, ∀ b ∈ l2, P (f a b)) : ∀ t ∈ List.zipWith f l1 l2, P t := by
  induction l1 generalizing l2 with
  | nil => simp
  | cons a as ih =>
    cases l2 with
    | nil => simp
    | cons b bs =>
      intro t ht
      simp only [List.zipWith_cons_cons, List.mem_cons] at ht
      rcases ht with rfl | ht
      · exact h a (by simp) b (by simp)
      · exact ih bs (fun a' ha' b' hb' => h a' (by simp [ha']) b' (by simp [hb'])) t ht

theorem zipWith_left {α β γ : Type} (g : α → γ) (l1 : List α) (l2 : List β)
    (h : l1.length ≤ l2.length) : List.zipWith (fun a _ => g a) l1 l2 = l1.map g := by
  induction l1 generalizing l2 with
  | nil => simp
  | cons a as ih =>
    cases l2 with
    | nil => simp at h
    | cons b bs =>
      simp only [List.length_cons, Nat.add_le_add_iff_right] at h
      simp [ih bs h]

theorem zip_map_self {α β γ : Type} (g : α → β) (h : α × β → γ) (l : List α) :
    (l.zip (l.map g)).map h = l.map fun a => h (a, g a) := by
  induction l with
  | nil => simp
  | cons a as ih => simp [ih]

theorem ushape_le {shape : Shape ν} (h : UShape shape) : ∀ d ∈ shape, d.2 ≤ usizeMax :=
  fun d hd => (h.2 d hd).2

/-! ### the range, mask, reverse and rename views are total -/

theorem range_total (src : TView ν) (hsrc : src.WF) (rs : List IndexRange)
    (hlen : rs.length = src.shape.length) :
    (src.range (rangeShape src.shape rs) (clippedRanges src.shape rs)).Total := by
  intro idx hidx
  let ts : List ((Nat → Outcome (Option Nat)) × Nat × Nat) :=
    List.zipWith (fun d r => ((r.clip d.2).map, (r.clip d.2).length, d.2)) src.shape rs
  have h1 : (clippedRanges src.shape rs).map (fun r => r.map) = ts.map (·.1) := by
    simp [ts, clippedRanges, List.map_zipWith]
  have h2 : (rangeShape src.shape rs).map (·.2) = ts.map (·.2.1) := by
    simp [ts, rangeShape, List.map_zipWith]
  have h3 : ts.map (·.2.2) = src.shape.map (·.2) := by
    simp only [ts, List.map_zipWith]
    exact zipWith_left (fun d : ν × Nat => d.2) src.shape rs (by omega)
  have hts : ts.length = src.shape.length := by simp [ts, hlen]
  have hspec : ∀ t ∈ ts, CoordSpec t.1 t.2.1 t.2.2 := by
    apply zipWith_forall
    intro d hd r _
    exact IndexRange.map_spec _ _ (ushape_le hsrc.1 d hd) (IndexRange.clip_clipped r d.2 (ushape_le hsrc.1 d hd))
  have hidx' : idx.length = ts.length := by
    simp only [TView.range, rangeShape] at hidx
    simp only [List.length_zipWith] at hidx
    omega
  have := total_of_mapCoords (src := src.get) (srcLens := src.shape.map (·.2))
    (fun idx h => hsrc.2 idx (by simpa using h)) ts h3 hspec idx hidx'
  simp only [TView.range, mapIndexesByRange, h1, h2]
  exact this

theorem mask_total (src : TView ν) (hsrc : src.WF) (rs : List IndexRange)
    (hlen : rs.length = src.shape.length) :
    (src.mask Arith.fixed (maskShape src.shape rs) (clippedRanges src.shape rs)).Total := by
  intro idx hidx
  let ts : List ((Nat → Outcome (Option Nat)) × Nat × Nat) :=
    List.zipWith (fun d r => (Arith.fixed.maskChecked (r.clip d.2), d.2 - (r.clip d.2).length, d.2))
      src.shape rs
  have h1 : (clippedRanges src.shape rs).map (fun r => Arith.fixed.maskChecked r) = ts.map (·.1) := by
    simp [ts, clippedRanges, List.map_zipWith]
  have h2 : (maskShape src.shape rs).map (·.2) = ts.map (·.2.1) := by
    simp [ts, maskShape, List.map_zipWith]
  have h3 : ts.map (·.2.2) = src.shape.map (·.2) := by
    simp only [ts, List.map_zipWith]
    exact zipWith_left (fun d : ν × Nat => d.2) src.shape rs (by omega)
  have hspec : ∀ t ∈ ts, CoordSpec t.1 t.2.1 t.2.2 := by
    apply zipWith_forall
    intro d hd r _
    exact IndexRange.tryMask_spec _ _ (ushape_le hsrc.1 d hd) (IndexRange.clip_clipped r d.2 (ushape_le hsrc.1 d hd))
  have hidx' : idx.length = ts.length := by
    simp only [TView.mask, maskShape] at hidx
    simp only [List.length_zipWith] at hidx
    simp only [ts, List.length_zipWith]
    omega
  have := total_of_mapCoords (src := src.get) (srcLens := src.shape.map (·.2))
    (fun idx h => hsrc.2 idx (by simpa using h)) ts h3 hspec idx hidx'
  simp only [TView.mask, mapIndexesByMask, h1, h2]
  exact this

theorem reverse_total (src : TView ν) (hsrc : src.WF) (dimensions : List ν) :
    (src.reverse Arith.fixed dimensions).Total := by
  intro idx hidx
  let ts : List ((Nat → Outcome (Option Nat)) × Nat × Nat) :=
    src.shape.map fun d =>
      (if dimensions.contains d.1 then Arith.fixed.reverseChecked d.2 else fun i => .ok (some i), d.2, d.2)
  have h1 : ((src.shape.zip (src.shape.map fun d => dimensions.contains d.1)).map fun (d, r) =>
      if r then Arith.fixed.reverseChecked d.2 else fun i => .ok (some i)) = ts.map (·.1) := by
    rw [zip_map_self]; simp [ts]
  have h2 : src.shape.map (·.2) = ts.map (·.2.1) := by simp [ts]
  have h3 : ts.map (·.2.2) = src.shape.map (·.2) := by simp [ts]
  have hspec : ∀ t ∈ ts, CoordSpec t.1 t.2.1 t.2.2 := by
    intro t ht
    simp only [ts, List.mem_map] at ht
    obtain ⟨d, _, rfl⟩ := ht
    by_cases hc : dimensions.contains d.1 = true
    · simp only [hc, if_true]; exact reverseChecked_spec d.2
    · simp only [hc]; exact id_spec d.2
  have hidx' : idx.length = ts.length := by simpa [ts, TView.reverse] using hidx
  have := total_of_mapCoords (src := src.get) (srcLens := src.shape.map (·.2))
    (fun idx h => hsrc.2 idx (by simpa using h)) ts h3 hspec idx hidx'
  simp only [TView.reverse, reverseIndexes, h1]
  rw [h2]
  exact this

theorem rename_lens (shape : Shape ν) (dimensions : List ν) (h : dimensions.length = shape.length) :
    ((shape.zip dimensions).map fun (d, n) => (n, d.2)).map (·.2) = shape.map (·.2) := by
  induction shape generalizing dimensions with
  | nil => simp
  | cons d shape ih =>
    cases dimensions with
    | nil => simp at h
    | cons n ns =>
      simp only [List.length_cons, Nat.add_right_cancel_iff] at h
      simp [ih ns h]

theorem rename_names (shape : Shape ν) (dimensions : List ν) (h : dimensions.length = shape.length) :
    ((shape.zip dimensions).map fun (d, n) => (n, d.2)).map (·.1) = dimensions := by
  induction shape generalizing dimensions with
  | nil => cases dimensions <;> simp_all
  | cons d shape ih =>
    cases dimensions with
    | nil => simp at h
    | cons n ns =>
      simp only [List.length_cons, Nat.add_right_cancel_iff] at h
      simp [ih ns h]

theorem rename_total (src : TView ν) (hsrc : src.WF) (dimensions : List ν)
    (h : dimensions.length = src.shape.length) : (src.rename dimensions).Total := by
  intro idx hidx
  simp only [TView.rename] at hidx ⊢
  rw [rename_lens src.shape dimensions h]
  apply hsrc.2
  simpa [h] using hidx

/-- lengths of a shape, as a predicate used for the `UShape` of derived shapes -/
theorem ushape_of (shape : Shape ν) (hn : (shape.map (·.1)).Nodup)
    (hl : ∀ x ∈ shape.map (·.2), 1 ≤ x ∧ x ≤ usizeMax) : UShape shape := by
  refine ⟨hn, fun d hd => hl d.2 ?_⟩
  simp only [List.mem_map]; exact ⟨d, hd, rfl⟩

theorem rangeShape_names (shape : Shape ν) (rs : List IndexRange) (h : rs.length = shape.length) :
    (rangeShape shape rs).map (·.1) = shape.map (·.1) := by
  simp only [rangeShape, List.map_zipWith]
  exact zipWith_left (fun d : ν × Nat => d.1) shape rs (by omega)

theorem maskShape_names (shape : Shape ν) (rs : List IndexRange) (h : rs.length = shape.length) :
    (maskShape shape rs).map (·.1) = shape.map (·.1) := by
  simp only [maskShape, List.map_zipWith]
  exact zipWith_left (fun d : ν × Nat => d.1) shape rs (by omega)

theorem rangeShape_ushape (shape : Shape ν) (hs : UShape shape) (rs : List IndexRange)
    (hv : isValidShape (rangeShape shape rs) = true) : UShape (rangeShape shape rs) := by
  obtain ⟨hn, hpos⟩ := (isValidShape_iff _).mp hv
  refine ⟨hn, fun d hd => ⟨hpos d hd, ?_⟩⟩
  revert d
  apply zipWith_forall
  intro d hd r _
  exact Nat.le_trans (IndexRange.clip_length_le r d.2) (ushape_le hs d hd)

theorem maskShape_ushape (shape : Shape ν) (hs : UShape shape) (rs : List IndexRange)
    (hv : isValidShape (maskShape shape rs) = true) : UShape (maskShape shape rs) := by
  obtain ⟨hn, hpos⟩ := (isValidShape_iff _).mp hv
  refine ⟨hn, fun d hd => ⟨hpos d hd, ?_⟩⟩
  revert d
  apply zipWith_forall
  intro d hd r _
  exact Nat.le_trans (Nat.sub_le _ _) (ushape_le hs d hd)

theorem defaultMasks_length (masks : List (Option IndexRange)) :
    (defaultMasks masks).length = masks.length := by simp [defaultMasks]

end EasyMl.Fallible
