/-
  EasyMl.Lemmas.Tensor — helper lemmas about strides, row-major offsets and bounds checks.
-/
import EasyMl.Model.Tensor
import EasyMl.Spec.Tensor

namespace EasyMl
open EasyMl.Spec

set_option linter.unusedSectionVars false

variable {ν : Type} [DecidableEq ν] {α : Type}

theorem foldl_mul_eq (l : List Nat) (a : Nat) : l.foldl (· * ·) a = a * l.foldl (· * ·) 1 := by
  induction l generalizing a with
  | nil => simp
  | cons x xs ih => simp only [List.foldl_cons]; rw [ih (a * x), ih (1 * x)]; simp [Nat.mul_assoc]

@[simp] theorem prod_nil : prod [] = 1 := rfl

@[simp] theorem prod_cons (x : Nat) (xs : List Nat) : prod (x :: xs) = x * prod xs := by
  unfold prod; simp only [List.foldl_cons]; rw [foldl_mul_eq]; simp

@[simp] theorem elements_nil : elements ([] : Shape ν) = 1 := rfl

@[simp] theorem elements_cons (d : ν × Nat) (rest : Shape ν) :
    elements (d :: rest) = d.2 * elements rest := by
  simp [elements]

/-- `compute_strides` unfolds along the shape: the first stride is the element count of the rest. -/
theorem computeStrides_cons (d : ν × Nat) (rest : Shape ν) :
    computeStrides (d :: rest) = elements rest :: computeStrides rest := by
  unfold computeStrides
  simp only [List.length_cons, List.range_succ_eq_map, List.map_cons, List.map_map]
  congr 1

@[simp] theorem computeStrides_nil : computeStrides ([] : Shape ν) = [] := rfl

theorem computeStrides_length (shape : Shape ν) : (computeStrides shape).length = shape.length := by
  simp [computeStrides]

/-- The accumulating loop of `get_index_direct` on row-major strides: in bounds ⇒ accumulated
    row-major offset, otherwise `none`. -/
theorem getIndexDirectGo_eq (shape : Shape ν) (idx : List Nat) (acc : Nat)
    (hlen : idx.length = shape.length) :
    getIndexDirectGo idx (computeStrides shape) (shape.map (·.2)) acc =
      if inBounds (shape.map (·.2)) idx then some (acc + ravel (shape.map (·.2)) idx) else none := by
  induction shape generalizing idx acc with
  | nil =>
    cases idx with
    | nil => simp [getIndexDirectGo, inBounds, ravel]
    | cons _ _ => simp at hlen
  | cons d rest ih =>
    cases idx with
    | nil => simp at hlen
    | cons n is =>
      simp only [List.length_cons, Nat.add_right_cancel_iff] at hlen
      rw [computeStrides_cons]
      simp only [List.map_cons, getIndexDirectGo, inBounds, ravel]
      by_cases h : n ≥ d.2
      · have : ¬ n < d.2 := by omega
        simp [h, this]
      · have h' : n < d.2 := by omega
        simp only [h, if_false, h', decide_true, Bool.true_and]
        rw [ih is _ hlen]
        simp [elements, Nat.add_assoc]

theorem ravel_lt (lens idx : List Nat) (h : inBounds lens idx = true) : ravel lens idx < prod lens := by
  induction lens generalizing idx with
  | nil => cases idx <;> simp_all [inBounds, ravel]
  | cons l ls ih =>
    cases idx with
    | nil => simp [inBounds] at h
    | cons c cs =>
      simp only [inBounds, Bool.and_eq_true, decide_eq_true_eq] at h
      have := ih cs h.2
      simp only [ravel, prod_cons]
      calc c * prod ls + ravel ls cs < c * prod ls + prod ls := by omega
        _ = (c + 1) * prod ls := by rw [Nat.add_mul]; simp
        _ ≤ l * prod ls := Nat.mul_le_mul_right _ h.1

theorem ravel_injective (lens a b : List Nat) (ha : inBounds lens a = true) (hb : inBounds lens b = true)
    (h : ravel lens a = ravel lens b) : a = b := by
  induction lens generalizing a b with
  | nil => cases a <;> cases b <;> simp_all [inBounds]
  | cons l ls ih =>
    cases a with
    | nil => simp [inBounds] at ha
    | cons x xs =>
      cases b with
      | nil => simp [inBounds] at hb
      | cons y ys =>
        simp only [inBounds, Bool.and_eq_true, decide_eq_true_eq] at ha hb
        simp only [ravel] at h
        have hx := ravel_lt ls xs ha.2
        have hy := ravel_lt ls ys hb.2
        have hxy : x = y := by
          rcases Nat.lt_trichotomy x y with hlt | heq | hgt
          · exfalso
            have : (x + 1) * prod ls ≤ y * prod ls := Nat.mul_le_mul_right _ hlt
            rw [Nat.add_mul] at this; omega
          · exact heq
          · exfalso
            have : (y + 1) * prod ls ≤ x * prod ls := Nat.mul_le_mul_right _ hgt
            rw [Nat.add_mul] at this; omega
        subst hxy
        have : ravel ls xs = ravel ls ys := by omega
        rw [ih xs ys ha.2 hb.2 this]

end EasyMl
