/-
  EasyMl.Lemmas.Partition — `Matrix::partition` as written (check_axis comparing with the first
  boundary only, the nested `split_at_mut` walk, the 0×0 normalisation) refines `partitionSpec`:
  the grid of consecutive-difference rectangles, or the panic the code raises.
-/
import EasyMl.Lemmas.FallibleMatrix
import EasyMl.Spec.MatrixView

namespace EasyMl.MatrixView
open EasyMl.Spec EasyMl.Fallible

set_option linter.unusedSectionVars false
set_option linter.unusedVariables false

/-! ### `check_axis` -/

theorem checkAxisGo_some (length first : Nat) (rest : List Nat) :
    checkAxisGo length rest (some first) =
      if rest.all (fun x => decide (x ≤ length) && decide (first < x)) = true then .ok ()
      else .panic .explicit := by
  induction rest with
  | nil => simp [checkAxisGo]
  | cons x xs ih =>
    simp only [checkAxisGo, ih, List.all_cons]
    by_cases h1 : x ≤ length
    · by_cases h2 : x > first
      · have h2' : first < x := h2
        simp [h1, h2']
      · have h2' : ¬ first < x := h2
        simp [h1, h2']
    · simp [h1]

theorem checkAxis_eq (partitions : List Nat) (length : Nat) :
    checkAxis partitions length =
      if axisChecked partitions length = true then .ok () else .panic .explicit := by
  cases partitions with
  | nil => simp [checkAxis, checkAxisGo, axisChecked]
  | cons first rest =>
    simp only [checkAxis, checkAxisGo, axisChecked, checkAxisGo_some]
    by_cases h1 : first ≤ length
    · simp [h1]
    · simp [h1]

/-! ### the walk on sorted boundaries -/

theorem sortedLe_cons {a b : Nat} {l : List Nat} :
    sortedLe (a :: b :: l) = true ↔ a ≤ b ∧ sortedLe (b :: l) = true := by
  simp [sortedLe]

theorem range'_take (s len w : Nat) (h : w ≤ len) : (List.range' s len).take w = List.range' s w := by
  induction w generalizing s len with
  | zero => simp
  | succ w ih =>
    cases len with
    | zero => omega
    | succ len => simp [List.range'_succ, ih (s + 1) len (by omega)]

theorem range'_drop (s len w : Nat) : (List.range' s len).drop w = List.range' (s + w) (len - w) := by
  rw [List.drop_range']; simp

theorem sortedLe_le_last (b : Nat) (bs : List Nat) (h : sortedLe (b :: bs) = true) :
    b ≤ bs.getLastD b := by
  induction bs generalizing b with
  | nil => simp
  | cons c cs ih =>
    obtain ⟨hbc, hs⟩ := sortedLe_cons.mp h
    rw [List.getLastD_cons]
    exact Nat.le_trans hbc (ih c hs)

/-- the inner column loop on non-decreasing boundaries that fit into the remaining data: the
    pieces are the consecutive blocks of offsets -/
theorem splitRow_sorted (bounds : List Nat) (index base len C : Nat)
    (hs : sortedLe (index :: bounds) = true) (hC : ∀ b ∈ bounds, b ≤ C) (hi : index ≤ C)
    (hlen : C ≤ index + len) :
    splitRow bounds index (List.range' (base + index) len) =
      .ok ((diffs bounds index).map (fun p => List.range' (base + p.1) p.2),
           List.range' (base + bounds.getLastD index) (len - (bounds.getLastD index - index))) := by
  induction bounds generalizing index len with
  | nil => simp [splitRow, diffs]
  | cons b bs ih =>
    obtain ⟨hib, hs'⟩ := sortedLe_cons.mp hs
    have hbC := hC b (by simp)
    have hw : b - index ≤ len := by omega
    simp only [splitRow, csub_ok hib, List.length_range', hw, if_true, range'_take _ _ _ hw,
      range'_drop]
    have hbase : base + index + (b - index) = base + b := by omega
    rw [hbase, ih b (len - (b - index)) hs' (fun x hx => hC x (by simp [hx])) hbC (by omega)]
    simp only [diffs, List.map_cons, List.getLastD_cons]
    have hge : b ≤ bs.getLastD b := sortedLe_le_last b bs hs'
    have hrest : len - (b - index) - (bs.getLastD b - b) = len - (bs.getLastD b - index) := by omega
    rw [hrest]

theorem zipWith_map_same {α β γ δ : Type} (f : β → γ → δ) (g : α → β) (h : α → γ) (l : List α) :
    List.zipWith f (l.map g) (l.map h) = l.map fun a => f (g a) (h a) := by
  induction l with
  | nil => simp
  | cons a as ih => simp [ih]

theorem getLastD_append_singleton (l : List Nat) (x d : Nat) : (l ++ [x]).getLastD d = x := by
  induction l generalizing d with
  | nil => simp [List.getLastD]
  | cons a as ih =>
    have : (a :: as ++ [x]).getLastD d = (as ++ [x]).getLastD a := by
      cases h : as ++ [x] with
      | nil => simp at h
      | cons y ys => simp [List.getLastD, h]
    rw [this, ih]

/-- the loop over `n` rows of the matrix: each part's `Vec` receives one block per row -/
theorem splitRows_sorted (bounds : List Nat) (C : Nat) (hs : sortedLe (0 :: bounds) = true)
    (hC : ∀ b ∈ bounds, b ≤ C) (hlast : bounds.getLastD 0 = C) (n : Nat) :
    ∀ (acc : Nat × Nat → List (List Nat)) (base len : Nat), n * C ≤ len →
    splitRows bounds n ((diffs bounds 0).map acc) (List.range' base len) =
      .ok ((diffs bounds 0).map (fun p =>
              acc p ++ (List.range n).map fun i => List.range' (base + i * C + p.1) p.2),
           List.range' (base + n * C) (len - n * C)) := by
  induction n with
  | zero => intro acc base len _; simp [splitRows]
  | succ n ih =>
    intro acc base len hlen
    have hCl : C ≤ len := by
      calc C = 1 * C := by simp
        _ ≤ (n + 1) * C := Nat.mul_le_mul_right _ (by omega)
        _ ≤ len := hlen
    have hrow := splitRow_sorted bounds 0 base len C hs hC (Nat.zero_le _) (by omega)
    simp only [Nat.add_zero, Nat.sub_zero, hlast] at hrow
    simp only [splitRows, hrow, zipWith_map_same]
    have hlen' : n * C ≤ len - C := by
      rw [Nat.add_mul] at hlen; simp only [Nat.one_mul] at hlen; omega
    rw [ih (fun p => acc p ++ [List.range' (base + p.1) p.2]) (base + C) (len - C) hlen']
    congr 1
    congr 1
    · apply List.map_congr_left
      intro p _
      rw [List.append_assoc]
      congr 1
      rw [List.range_succ_eq_map]
      simp only [List.map_cons, List.map_map, Nat.zero_mul, Nat.add_zero, List.singleton_append]
      congr 1
      apply List.map_congr_left
      intro i _
      simp only [Function.comp]
      congr 1
      rw [Nat.succ_mul]; omega
    · rw [Nat.succ_mul]
      congr 1
      · omega
      · omega

theorem diffs_length (bounds : List Nat) (prev : Nat) : (diffs bounds prev).length = bounds.length := by
  induction bounds generalizing prev with
  | nil => rfl
  | cons b bs ih => simp [diffs, ih]

theorem replicate_eq_map_diffs (bounds : List Nat) :
    List.replicate bounds.length ([] : List (List Nat)) = (diffs bounds 0).map fun _ => [] := by
  rw [← diffs_length bounds 0]
  induction diffs bounds 0 with
  | nil => rfl
  | cons a as ih => simp [List.replicate_succ, ih]

/-- the outer loop over the row slices on non-decreasing row boundaries -/
theorem partitionWalk_sorted (cb : List Nat) (C R : Nat) (hcs : sortedLe (0 :: cb) = true)
    (hcC : ∀ b ∈ cb, b ≤ C) (hclast : cb.getLastD 0 = C) (rowBounds : List Nat) :
    ∀ index, sortedLe (index :: rowBounds) = true → (∀ b ∈ rowBounds, b ≤ R) → index ≤ R →
    partitionWalk cb rowBounds index (List.range' (index * C) ((R - index) * C)) =
      .ok ((diffs rowBounds index).flatMap fun rp =>
        (diffs cb 0).map fun cp => partSlices C rp.1 rp.2 cp.1 cp.2) := by
  induction rowBounds with
  | nil => intro index _ _ _; simp [partitionWalk, diffs]
  | cons b bs ih =>
    intro index hs hR hi
    obtain ⟨hib, hs'⟩ := sortedLe_cons.mp hs
    have hbR := hR b (by simp)
    have hlen : (b - index) * C ≤ (R - index) * C := Nat.mul_le_mul_right _ (by omega)
    simp only [partitionWalk, csub_ok hib, replicate_eq_map_diffs,
      splitRows_sorted cb C hcs hcC hclast (b - index) (fun _ => []) (index * C) _ hlen]
    have hbase : index * C + (b - index) * C = b * C := by
      rw [← Nat.add_mul]; congr 1; omega
    have hrest : (R - index) * C - (b - index) * C = (R - b) * C := by
      rw [← Nat.sub_mul]; congr 1; omega
    rw [hbase, hrest, ih b hs' (fun x hx => hR x (by simp [hx])) hbR]
    simp only [diffs, List.flatMap_cons, List.nil_append]
    congr 2
    apply List.map_congr_left
    intro p _
    simp only [partSlices]
    apply List.map_congr_left
    intro i _
    rw [Nat.add_mul]

/-! ### the walk on boundaries that are not non-decreasing: the subtraction underflows -/

/-- the inner loop reaches a boundary below its predecessor before the data runs out -/
theorem splitRow_unsorted (bounds : List Nat) (index C : Nat) (data : List Nat)
    (hs : sortedLe (index :: bounds) = false) (hC : ∀ b ∈ bounds, b ≤ C)
    (hlen : C ≤ index + data.length) :
    splitRow bounds index data = .panic .overflow := by
  induction bounds generalizing index data with
  | nil => simp [sortedLe] at hs
  | cons b bs ih =>
    simp only [splitRow]
    by_cases hib : index ≤ b
    · have hs' : sortedLe (b :: bs) = false := by
        cases h : sortedLe (b :: bs) with
        | false => rfl
        | true => rw [sortedLe_cons.mpr ⟨hib, h⟩] at hs; simp at hs
      have hbC := hC b (by simp)
      have hw : b - index ≤ data.length := by omega
      simp only [csub_ok hib, hw, if_true]
      rw [ih b (data.drop (b - index)) hs' (fun x hx => hC x (by simp [hx]))
        (by simp only [List.length_drop]; omega)]
    · simp [csub, hib]

/-- with at least one row to distribute, unsorted column boundaries make the walk panic -/
theorem splitRows_unsorted (bounds : List Nat) (C n : Nat) (parts : List (List (List Nat)))
    (data : List Nat) (hs : sortedLe (0 :: bounds) = false) (hC : ∀ b ∈ bounds, b ≤ C)
    (hn : 1 ≤ n) (hlen : C ≤ data.length) :
    splitRows bounds n parts data = .panic .overflow := by
  cases n with
  | zero => omega
  | succ n => simp only [splitRows, splitRow_unsorted bounds 0 C data hs hC (by omega)]

/-- column boundaries unsorted: some row slice is non-empty (the last boundary is the number of
    rows), and the first non-empty one — or an earlier descent of the row boundaries —
    underflows -/
theorem partitionWalk_cols_unsorted (cb : List Nat) (C R : Nat)
    (hcs : sortedLe (0 :: cb) = false) (hcC : ∀ b ∈ cb, b ≤ C) (hC1 : 1 ≤ C)
    (rowBounds : List Nat) :
    ∀ index (data : List Nat), index < R → rowBounds.getLastD index = R →
      (∀ b ∈ rowBounds, b ≤ R) → (R - index) * C ≤ data.length →
      partitionWalk cb rowBounds index data = .panic .overflow := by
  induction rowBounds with
  | nil => intro index data hi hlast; simp at hlast; omega
  | cons b bs ih =>
    intro index data hi hlast hR hlen
    simp only [partitionWalk]
    rw [List.getLastD_cons] at hlast
    by_cases hib : index ≤ b
    · simp only [csub_ok hib]
      by_cases hn : 1 ≤ b - index
      · have hdl : C ≤ data.length := by
          calc C = 1 * C := by simp
            _ ≤ (R - index) * C := Nat.mul_le_mul_right _ (by omega)
            _ ≤ data.length := hlen
        rw [splitRows_unsorted cb C (b - index) _ data hcs hcC hn hdl]
      · have hbi : b = index := by omega
        subst hbi
        simp only [Nat.sub_self, splitRows]
        rw [ih b data hi hlast (fun x hx => hR x (by simp [hx])) hlen]
    · simp [csub, hib]

/-- column boundaries sorted, row boundaries not: the sorted prefix is distributed, then the
    descent underflows -/
theorem partitionWalk_rows_unsorted (cb : List Nat) (C R : Nat) (hcs : sortedLe (0 :: cb) = true)
    (hcC : ∀ b ∈ cb, b ≤ C) (hclast : cb.getLastD 0 = C) (rowBounds : List Nat) :
    ∀ index, sortedLe (index :: rowBounds) = false → (∀ b ∈ rowBounds, b ≤ R) → index ≤ R →
      partitionWalk cb rowBounds index (List.range' (index * C) ((R - index) * C)) =
        .panic .overflow := by
  induction rowBounds with
  | nil => intro index hs; simp [sortedLe] at hs
  | cons b bs ih =>
    intro index hs hR hi
    simp only [partitionWalk]
    by_cases hib : index ≤ b
    · have hs' : sortedLe (b :: bs) = false := by
        cases h : sortedLe (b :: bs) with
        | false => rfl
        | true => rw [sortedLe_cons.mpr ⟨hib, h⟩] at hs; simp at hs
      have hbR := hR b (by simp)
      have hlen : (b - index) * C ≤ (R - index) * C := Nat.mul_le_mul_right _ (by omega)
      simp only [csub_ok hib, replicate_eq_map_diffs,
        splitRows_sorted cb C hcs hcC hclast (b - index) (fun _ => []) (index * C) _ hlen]
      have hbase : index * C + (b - index) * C = b * C := by
        rw [← Nat.add_mul]; congr 1; omega
      have hrest : (R - index) * C - (b - index) * C = (R - b) * C := by
        rw [← Nat.sub_mul]; congr 1; omega
      rw [hbase, hrest, ih b hs' (fun x hx => hR x (by simp [hx])) hbR]
    · simp [csub, hib]

/-! ### `Matrix::partition` refines its specification -/

theorem axisChecked_le {l : List Nat} {n : Nat} (h : axisChecked l n = true) : ∀ b ∈ l, b ≤ n := by
  cases l with
  | nil => simp
  | cons first rest =>
    simp only [axisChecked, Bool.and_eq_true, decide_eq_true_eq, List.all_eq_true] at h
    intro b hb
    simp only [List.mem_cons] at hb
    rcases hb with rfl | hb
    · exact h.1
    · exact (h.2 b hb).1

theorem sortedLe_zero_cons (l : List Nat) : sortedLe (0 :: l) = sortedLe l := by
  cases l with
  | nil => rfl
  | cons a as => simp [sortedLe]

theorem sortedLe_append_singleton (l : List Nat) (x : Nat) (hl : ∀ b ∈ l, b ≤ x) :
    sortedLe (l ++ [x]) = sortedLe l := by
  induction l with
  | nil => rfl
  | cons a as ih =>
    cases as with
    | nil =>
      have := hl a (by simp)
      simp [sortedLe, this]
    | cons b bs =>
      have ih' := ih (fun y hy => hl y (by simp [hy]))
      simp only [List.cons_append] at ih' ⊢
      simp only [sortedLe, ih']

/-- **`Matrix::partition` does exactly what `partitionSpec` says**, for every matrix and every
    pair of boundary lists: the four panics in the order the code reaches them (`check_axis` on
    rows, on columns, the capacity product, an underflowing difference), and otherwise the grid
    of consecutive-difference rectangles in row-major order. -/
theorem partition_eq_spec (m : MatrixMeta) (hm : m.Inv) (rp cp : List Nat) :
    partition m rp cp = partitionSpec m rp cp := by
  obtain ⟨hd, hr, hc, hb⟩ := hm
  simp only [partition, partitionSpec, checkAxis_eq]
  by_cases h1 : axisChecked rp m.rows = true
  · by_cases h2 : axisChecked cp m.columns = true
    · simp only [h1, h2, if_true, Bool.not_true, Bool.false_eq_true, if_false]
      by_cases h3 : (rp.length + 1) * (cp.length + 1) ≤ usizeMax
      · simp only [cmul_ok h3, h3, not_true_eq_false, if_false]
        have hrR : ∀ b ∈ rp ++ [m.rows], b ≤ m.rows := by
          intro b hb
          simp only [List.mem_append, List.mem_singleton] at hb
          rcases hb with hb | rfl
          · exact axisChecked_le h1 b hb
          · exact Nat.le_refl _
        have hcC : ∀ b ∈ cp ++ [m.columns], b ≤ m.columns := by
          intro b hb
          simp only [List.mem_append, List.mem_singleton] at hb
          rcases hb with hb | rfl
          · exact axisChecked_le h2 b hb
          · exact Nat.le_refl _
        have hclast : (cp ++ [m.columns]).getLastD 0 = m.columns := getLastD_append_singleton _ _ _
        have hrlast : (rp ++ [m.rows]).getLastD 0 = m.rows := getLastD_append_singleton _ _ _
        have hcs : sortedLe (0 :: (cp ++ [m.columns])) = sortedLe cp := by
          rw [sortedLe_zero_cons, sortedLe_append_singleton _ _ (axisChecked_le h2)]
        have hrs : sortedLe (0 :: (rp ++ [m.rows])) = sortedLe rp := by
          rw [sortedLe_zero_cons, sortedLe_append_singleton _ _ (axisChecked_le h1)]
        have hdata : List.range m.dataLen = List.range' (0 * m.columns) ((m.rows - 0) * m.columns) := by
          simp [List.range_eq_range', hd]
        rw [hdata]
        by_cases h4 : sortedLe cp = true
        · by_cases h5 : sortedLe rp = true
          · rw [partitionWalk_sorted _ m.columns m.rows (by rw [hcs]; exact h4) hcC hclast _ 0
              (by rw [hrs]; exact h5) hrR (Nat.zero_le _)]
            simp only [h4, h5, Bool.and_self, Bool.not_true, Bool.false_eq_true, if_false, gridSpec,
              List.map_flatMap, List.map_map]
            rfl
          · have h5' : sortedLe rp = false := by simpa using h5
            rw [partitionWalk_rows_unsorted _ m.columns m.rows (by rw [hcs]; exact h4) hcC hclast _ 0
              (by rw [hrs]; exact h5') hrR (Nat.zero_le _)]
            simp [h4, h5']
        · have h4' : sortedLe cp = false := by simpa using h4
          rw [partitionWalk_cols_unsorted _ m.columns m.rows (by rw [hcs]; exact h4') hcC hc _ 0 _
            (by omega) hrlast hrR (by simp)]
          simp [h4']
      · simp [cmul, h3]
    · simp [h1, h2]
  · simp [h1]

end EasyMl.MatrixView
