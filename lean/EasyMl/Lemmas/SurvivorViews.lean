/-
  EasyMl.Lemmas.SurvivorViews — helper lemmas about the stack / chain constructors of the C02 view
  model, for Props/C10Views.lean.
-/
import EasyMl.Model.View

namespace EasyMl.C10
open EasyMl EasyMl.View

variable {ν : Type} [DecidableEq ν]

/-- `validate_shapes_similar` compares **by position**: if it accepts a source of the same
    dimensionality, that source's names are the first source's names in the same order. -/
theorem similarGo_names (a : Nat) (s f : Shape ν) (d : Nat) (hl : s.length = f.length)
    (h : similarGo a d s f = true) : s.map (·.1) = f.map (·.1) := by
  induction s generalizing f d with
  | nil =>
    cases f with
    | nil => rfl
    | cons _ _ => simp at hl
  | cons x xs ih =>
    cases f with
    | nil => simp at hl
    | cons y ys =>
      simp only [similarGo, Bool.and_eq_true] at h
      have hxy : x.1 = y.1 := by
        by_cases hd : d = a
        · simpa [hd] using h.1
        · have := h.1
          simp only [hd, if_false, decide_eq_true_eq] at this
          rw [this]
      simp only [List.map_cons, hxy]
      rw [ih ys (d + 1) (by simpa using hl) h.2]

end EasyMl.C10
