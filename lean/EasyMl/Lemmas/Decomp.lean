/-
  EasyMl.Lemmas.Decomp — helper lemmas about the decomposition models of `Model/Decomp.lean`:
  loops as folds, row-major access, sums as `Finset` sums, the loop invariants of Cholesky and
  LDLᵀ, and the bridge to Mathlib matrices used by `Props/C08.lean`.
-/
import Mathlib.Data.Matrix.Mul
import Mathlib.Analysis.Real.Sqrt
import Mathlib.Algebra.BigOperators.Fin
import Mathlib.Tactic.Ring
import Mathlib.Tactic.Linarith
import Mathlib.Tactic.FieldSimp
import EasyMl.Model.Decomp
import EasyMl.Lemmas.RealModel

namespace EasyMl.Decomp
open Finset

set_option linter.unusedSectionVars false

/-! ### loops -/

theorem foldRange_zero {σ} (f : Nat → σ → σ) (s : σ) : foldRange 0 f s = s := by
  simp [foldRange]

theorem foldRange_succ {σ} (n : Nat) (f : Nat → σ → σ) (s : σ) :
    foldRange (n + 1) f s = f n (foldRange n f s) := by
  simp [foldRange, List.range_succ]

theorem forRange_zero {σ} (f : Nat → σ → Option σ) (s : σ) : forRange 0 f s = some s := by
  simp [forRange]

theorem forRange_succ {σ} (n : Nat) (f : Nat → σ → Option σ) (s : σ) :
    forRange (n + 1) f s = (forRange n f s).bind (f n) := by
  simp [forRange, List.range_succ, List.foldlM_append]

/-- Invariant rule for `forRange`: if `P 0 s` and every successful step carries `P k` to
    `P (k+1)`, a successful loop ends in `P n`. -/
theorem forRange_inv {σ} (P : Nat → σ → Prop) (f : Nat → σ → Option σ) (n : Nat) (s s' : σ)
    (h0 : P 0 s) (hstep : ∀ k t t', k < n → P k t → f k t = some t' → P (k + 1) t')
    (h : forRange n f s = some s') : P n s' := by
  induction n generalizing s' with
  | zero => simp [forRange_zero] at h; subst h; exact h0
  | succ n ih =>
    rw [forRange_succ] at h
    cases hm : forRange n f s with
    | none => simp [hm] at h
    | some t =>
      simp [hm] at h
      exact hstep n t s' (Nat.lt_succ_self n) (ih t (fun k a b hk => hstep k a b (by omega)) hm) h

/-- A `forRange` loop is absent exactly when some iteration, reached with the state of the
    iterations before it, is absent. -/
theorem forRange_none_iff {σ} (f : Nat → σ → Option σ) (n : Nat) (s : σ) :
    forRange n f s = none ↔ ∃ k, k < n ∧ ∃ t, forRange k f s = some t ∧ f k t = none := by
  induction n with
  | zero => simp [forRange_zero]
  | succ n ih =>
    rw [forRange_succ]
    cases hm : forRange n f s with
    | none =>
      simp only [Option.bind_none, true_iff]
      obtain ⟨k, hk, t, h1, h2⟩ := ih.mp hm
      exact ⟨k, by omega, t, h1, h2⟩
    | some t =>
      simp only [Option.bind_some]
      constructor
      · intro h; exact ⟨n, Nat.lt_succ_self n, t, hm, h⟩
      · rintro ⟨k, hk, t', h1, h2⟩
        by_cases hkn : k = n
        · subst hkn; rw [hm] at h1; cases h1; exact h2
        · have : forRange n f s = none := ih.mpr ⟨k, by omega, t', h1, h2⟩
          rw [hm] at this; cases this

/-- Invariant rule for `foldRange`. -/
theorem foldRange_inv {σ} (P : Nat → σ → Prop) (f : Nat → σ → σ) (n : Nat) (s : σ)
    (h0 : P 0 s) (hstep : ∀ k t, k < n → P k t → P (k + 1) (f k t)) : P n (foldRange n f s) := by
  induction n with
  | zero => simpa [foldRange_zero] using h0
  | succ n ih =>
    rw [foldRange_succ]
    exact hstep n _ (Nat.lt_succ_self n) (ih (fun k t hk => hstep k t (by omega)))

theorem foldRange_add_eq_sum {K : Type} [AddCommMonoid K] (f : ℕ → K) (n : ℕ) :
    foldRange n (fun k s => s + f k) 0 = ∑ k ∈ range n, f k := by
  induction n with
  | zero => simp [foldRange_zero]
  | succ n ih => rw [foldRange_succ, ih, sum_range_succ]

/-! ### row-major access -/

section access
variable {α : Type} [Zero α]

theorem idx_lt {r c i j : Nat} (hi : i < r) (hj : j < c) : j + i * c < r * c := by
  have : (i + 1) * c ≤ r * c := Nat.mul_le_mul_right c hi
  rw [Nat.add_mul] at this
  omega

theorem idx_inj {c i j i' j' : Nat} (hj : j < c) (hj' : j' < c) :
    j + i * c = j' + i' * c ↔ i = i' ∧ j = j' := by
  constructor
  · intro h
    have hc : 0 < c := by omega
    have h1 := congrArg (· / c) h
    have h2 := congrArg (· % c) h
    simp [Nat.add_mul_div_right _ _ hc, Nat.add_mul_mod_self_right, Nat.div_eq_of_lt hj,
      Nat.div_eq_of_lt hj', Nat.mod_eq_of_lt hj, Nat.mod_eq_of_lt hj'] at h1 h2
    exact ⟨h1, h2⟩
  · rintro ⟨rfl, rfl⟩; rfl

/-- the tensor has the shape `n × m` and its data the matching length -/
def Shaped (n m : Nat) (M : Matrix α) : Prop :=
  M.rows = n ∧ M.columns = m ∧ M.data.length = n * m

theorem shaped_fill (n m : Nat) (v : α) : Shaped n m (fill n m v) := by
  simp [Shaped, fill]

theorem shaped_ofFn (n m : Nat) (f : Nat → Nat → α) : Shaped n m (ofFn n m f) := by
  simp [Shaped, ofFn]

theorem shaped_set {n m : Nat} {M : Matrix α} (h : Shaped n m M) (i j : Nat) (v : α) :
    Shaped n m (set M i j v) := by
  obtain ⟨h1, h2, h3⟩ := h
  simp [Shaped, set, h1, h2, h3]

theorem get_ofFn (r c : Nat) (f : Nat → Nat → α) (i j : Nat) (hi : i < r) (hj : j < c) :
    get (ofFn r c f) i j = f i j := by
  have h := idx_lt hi hj
  have hc : 0 < c := by omega
  simp [get, ofFn, Matrix.getIndex, List.getD_eq_getElem?_getD, h,
    Nat.add_mul_div_right _ _ hc, Nat.add_mul_mod_self_right, Nat.div_eq_of_lt hj,
    Nat.mod_eq_of_lt hj]

theorem get_set_raw (m : Matrix α) (i j i' j' : Nat) (v : α)
    (h : m.getIndex i j < m.data.length) (hj : j < m.columns) (hj' : j' < m.columns) :
    get (set m i j v) i' j' = if i' = i ∧ j' = j then v else get m i' j' := by
  simp only [get, set, Matrix.getIndex, List.getD_eq_getElem?_getD, List.getElem?_set] at *
  by_cases hij : i' = i ∧ j' = j
  · obtain ⟨rfl, rfl⟩ := hij
    simp [h]
  · have : ¬ (j + i * m.columns = j' + i' * m.columns) := by
      rw [idx_inj hj hj']; intro hh; exact hij ⟨hh.1.symm, hh.2.symm⟩
    simp [hij, this]

theorem get_set {n m : Nat} {M : Matrix α} (h : Shaped n m M) {i j : Nat} (hi : i < n) (hj : j < m)
    (i' : Nat) {j' : Nat} (hj' : j' < m) (v : α) :
    get (set M i j v) i' j' = if i' = i ∧ j' = j then v else get M i' j' := by
  obtain ⟨h1, h2, h3⟩ := h
  apply get_set_raw
  · rw [h3, Matrix.getIndex, h2]; exact idx_lt hi hj
  · rw [h2]; exact hj
  · rw [h2]; exact hj'

theorem get_fill (r c : Nat) (v : α) (i j : Nat) (hi : i < r) (hj : j < c) :
    get (fill r c v) i j = v := by
  simp [get, fill, Matrix.getIndex, List.getD_eq_getElem?_getD, idx_lt hi hj]

end access

/-! ### Cholesky: the loop invariant (any field, any `sqrt`, any comparison) -/

section cholesky
variable {K : Type} [Field K] [RealFns K] [NumOrd K]

theorem cholSum_eq (L : Matrix K) (i j : ℕ) :
    cholSum L i j = ∑ k ∈ range j, get L i k * get L j k := by
  unfold cholSum
  exact foldRange_add_eq_sum (fun k => get L i k * get L j k) j

/-- what `cholEntry` stores at `(i, j)`, as a predicate on the table of entries -/
def CholEntryOK (A ℓ : ℕ → ℕ → K) (i j : ℕ) : Prop :=
  if i = j then
    NumOrd.le (A i j - ∑ k ∈ range j, ℓ i k * ℓ j k) 0 = false ∧
      ℓ i j = RealFns.sqrt (A i j - ∑ k ∈ range j, ℓ i k * ℓ j k)
  else ℓ i j = (A i j - ∑ k ∈ range j, ℓ i k * ℓ j k) * (1 / ℓ j j)

theorem CholEntryOK.congr {A ℓ ℓ' : ℕ → ℕ → K} {i j : ℕ}
    (h : ∀ k, k ≤ j → ℓ' i k = ℓ i k ∧ ℓ' j k = ℓ j k) (hok : CholEntryOK A ℓ i j) :
    CholEntryOK A ℓ' i j := by
  have hs : ∑ k ∈ range j, ℓ' i k * ℓ' j k = ∑ k ∈ range j, ℓ i k * ℓ j k := by
    apply sum_congr rfl
    intro k hk
    have := h k (by have := mem_range.mp hk; omega)
    rw [this.1, this.2]
  unfold CholEntryOK at *
  rw [hs, (h j (le_refl j)).1, (h j (le_refl j)).2]
  exact hok

/-- the entries written before `(i, j)` in the order of the two loops -/
def CholDone (i j a b : ℕ) : Prop := b ≤ a ∧ (a < i ∨ (a = i ∧ b < j))

structure CholInv (n : ℕ) (A L : Matrix K) (i j : ℕ) : Prop where
  shaped : Shaped n n L
  zero : ∀ a b, a < n → b < n → ¬ CholDone i j a b → get L a b = 0
  ok : ∀ a b, a < n → CholDone i j a b → CholEntryOK (get A) (get L) a b

theorem cholEntry_inv {n : ℕ} {A L L' : Matrix K} {i j : ℕ} (hinv : CholInv n A L i j)
    (hi : i < n) (hj : j ≤ i) (h : cholEntry A L i j = some L') : CholInv n A L' i (j + 1) := by
  -- the step writes one entry `v` satisfying the entry predicate
  have hjn : j < n := by omega
  obtain ⟨v, hL', hv⟩ : ∃ v, L' = set L i j v ∧
      (if i = j then NumOrd.le (get A i j - cholSum L i j) 0 = false ∧
          v = RealFns.sqrt (get A i j - cholSum L i j)
        else v = (get A i j - cholSum L i j) * (1 / get L j j)) := by
    unfold cholEntry at h
    by_cases hij : i = j
    · simp only [hij, if_true] at h ⊢
      by_cases hle : NumOrd.le (get A j j - cholSum L j j) 0 = true
      · simp [hle] at h
      · simp only [hle] at h
        simp only [Bool.false_eq_true, if_false, Option.some.injEq] at h
        exact ⟨_, h.symm, by simpa using hle, rfl⟩
    · simp only [hij, if_false, Option.some.injEq] at h ⊢
      exact ⟨_, h.symm, rfl⟩
  subst hL'
  have hget : ∀ a b, b < n → get (set L i j v) a b = if a = i ∧ b = j then v else get L a b :=
    fun a b hb => get_set hinv.shaped hi hjn a hb v
  refine ⟨shaped_set hinv.shaped i j v, ?_, ?_⟩
  · intro a b ha hb hnd
    rw [hget a b hb]
    have hne : ¬ (a = i ∧ b = j) := by
      rintro ⟨rfl, rfl⟩; exact hnd ⟨hj, Or.inr ⟨rfl, Nat.lt_succ_self _⟩⟩
    rw [if_neg hne]
    apply hinv.zero a b ha hb
    rintro ⟨h1, h2⟩
    exact hnd ⟨h1, by omega⟩
  · intro a b ha hd
    obtain ⟨hba, hd'⟩ := hd
    by_cases hab : a = i ∧ b = j
    · obtain ⟨rfl, rfl⟩ := hab
      -- the new entry
      have hrow : ∀ k, k < b → get (set L a b v) a k = get L a k := by
        intro k hk; rw [hget a k (by omega)]; rw [if_neg]; omega
      have hrow' : ∀ k, k < b → get (set L a b v) b k = get L b k := by
        intro k hk; rw [hget b k (by omega)]; rw [if_neg]; omega
      have hs : ∑ k ∈ range b, get (set L a b v) a k * get (set L a b v) b k = cholSum L a b := by
        rw [cholSum_eq]
        apply sum_congr rfl
        intro k hk
        rw [hrow k (mem_range.mp hk), hrow' k (mem_range.mp hk)]
      unfold CholEntryOK
      rw [hs, hget a b hjn]
      simp only [and_self, if_true]
      by_cases hij : a = b
      · rw [if_pos hij] at hv ⊢; exact hv
      · rw [if_neg hij] at hv ⊢
        rw [hget b b hjn, if_neg (by omega)]
        exact hv
    · -- an entry written earlier: nothing it depends on has changed
      have hdone : CholDone i j a b := ⟨hba, by omega⟩
      apply CholEntryOK.congr _ (hinv.ok a b ha hdone)
      intro k hk
      constructor
      · rw [hget a k (by omega), if_neg]; omega
      · rw [hget b k (by omega), if_neg]; omega

theorem cholRow_inv {n : ℕ} {A L L' : Matrix K} {i : ℕ} (hinv : CholInv n A L i 0)
    (hi : i < n) (h : cholRow A i L = some L') : CholInv n A L' (i + 1) 0 := by
  have := forRange_inv (fun j L => CholInv n A L i j) (fun j L => cholEntry A L i j) (i + 1) L L'
    hinv (fun k t t' hk hP hstep => cholEntry_inv hP hi (by omega) hstep) h
  refine ⟨this.shaped, ?_, ?_⟩
  · intro a b ha hb hnd
    apply this.zero a b ha hb
    rintro ⟨h1, h2⟩; exact hnd ⟨h1, by omega⟩
  · intro a b ha hd
    apply this.ok a b ha
    obtain ⟨h1, h2⟩ := hd
    exact ⟨h1, by omega⟩

/-- What a successful run of the Cholesky model establishes, over any field: the result has the
    input's shape, every entry above the diagonal is zero and every entry on or below it
    satisfies the recurrence `cholEntry` computes it by. -/
theorem cholesky_inv {A L : Matrix K} (h : cholesky A = some L) :
    A.rows = A.columns ∧ Shaped A.rows A.rows L ∧
      (∀ a b, a < A.rows → b < A.rows → a < b → get L a b = 0) ∧
      (∀ a b, a < A.rows → b ≤ a → CholEntryOK (get A) (get L) a b) := by
  unfold cholesky at h
  by_cases hsq : A.rows = A.columns
  · simp only [hsq, ne_eq, not_true_eq_false, if_false] at h
    rw [← hsq] at h
    have h0 : CholInv A.rows A (fill A.rows A.rows (0 : K)) 0 0 := by
      refine ⟨shaped_fill _ _ _, fun a b ha hb _ => get_fill _ _ _ _ _ ha hb, ?_⟩
      rintro a b _ ⟨_, h2⟩; omega
    have := forRange_inv (fun i L => CholInv A.rows A L i 0) (fun i L => cholRow A i L) A.rows _ L
      h0 (fun k t t' hk hP hstep => cholRow_inv hP hk hstep) h
    refine ⟨hsq, this.shaped, ?_, ?_⟩
    · intro a b ha hb hab
      apply this.zero a b ha hb
      rintro ⟨h1, _⟩; omega
    · intro a b ha hba
      exact this.ok a b ha ⟨hba, Or.inl ha⟩
  · simp [hsq] at h

end cholesky

/-! ### LDLᵀ: the loop invariant (any field) -/

section ldlt
variable {K : Type} [Field K] [NumOrd K]

theorem ldltSum_eq (L D : Matrix K) (i j : ℕ) :
    ldltSum L D i j = ∑ k ∈ range j, get L i k * get L j k * get D k k := by
  unfold ldltSum
  exact foldRange_add_eq_sum (fun k => get L i k * get L j k * get D k k) j

/-- what the code stores at `D[j,j]` -/
def LdltDOK (A ℓ d : ℕ → ℕ → K) (j : ℕ) : Prop :=
  NumOrd.eq (A j j - ∑ k ∈ range j, ℓ j k * ℓ j k * d k k) 0 = false ∧
    d j j = A j j - ∑ k ∈ range j, ℓ j k * ℓ j k * d k k

/-- what the code stores at `L[i,j]`, `j ≤ i` -/
def LdltLOK (A ℓ d : ℕ → ℕ → K) (i j : ℕ) : Prop :=
  ℓ i j = if i = j then 1 else (A i j - ∑ k ∈ range j, ℓ i k * ℓ j k * d k k) * (1 / d j j)

theorem LdltDOK.congr {A ℓ d ℓ' d' : ℕ → ℕ → K} {j : ℕ}
    (hl : ∀ k, k < j → ℓ' j k = ℓ j k) (hd : ∀ k, k ≤ j → d' k k = d k k)
    (h : LdltDOK A ℓ d j) : LdltDOK A ℓ' d' j := by
  have hs : ∑ k ∈ range j, ℓ' j k * ℓ' j k * d' k k = ∑ k ∈ range j, ℓ j k * ℓ j k * d k k := by
    apply sum_congr rfl
    intro k hk
    have hk := mem_range.mp hk
    rw [hl k hk, hd k (by omega)]
  unfold LdltDOK at *
  rw [hs, hd j (le_refl j)]
  exact h

theorem LdltLOK.congr {A ℓ d ℓ' d' : ℕ → ℕ → K} {i j : ℕ}
    (hl : ∀ k, k ≤ j → ℓ' i k = ℓ i k) (hl' : ∀ k, k < j → ℓ' j k = ℓ j k)
    (hd : ∀ k, k ≤ j → d' k k = d k k) (h : LdltLOK A ℓ d i j) : LdltLOK A ℓ' d' i j := by
  have hs : ∑ k ∈ range j, ℓ' i k * ℓ' j k * d' k k = ∑ k ∈ range j, ℓ i k * ℓ j k * d k k := by
    apply sum_congr rfl
    intro k hk
    have hk := mem_range.mp hk
    rw [hl k (by omega), hl' k hk, hd k (by omega)]
  unfold LdltLOK at *
  rw [hs, hd j (le_refl j), hl j (le_refl j)]
  exact h

/-- entries of `L` written before the `t`-th iteration of the inner loop of column `j` -/
def LDone (j t a b : ℕ) : Prop := b ≤ a ∧ (b < j ∨ (b = j ∧ a < j + t))

/-- invariant of the LDLᵀ loops: `L` is complete for the columns before `jL` and for `t` entries
    of column `jL`, `D` for the diagonal entries before `jD` -/
structure LdltInv (n : ℕ) (A L D : Matrix K) (jL t jD : ℕ) : Prop where
  shapedL : Shaped n n L
  shapedD : Shaped n n D
  zeroL : ∀ a b, a < n → b < n → ¬ LDone jL t a b → get L a b = 0
  zeroD : ∀ a b, a < n → b < n → ¬ (a = b ∧ a < jD) → get D a b = 0
  okD : ∀ b, b < jD → LdltDOK (get A) (get L) (get D) b
  okL : ∀ a b, a < n → LDone jL t a b → LdltLOK (get A) (get L) (get D) a b

theorem ldltEntry_inv {n : ℕ} {A L D : Matrix K} {j t : ℕ} (hinv : LdltInv n A L D j t (j + 1))
    (hi : j + t < n) : LdltInv n A (ldltEntry A D j t L) D j (t + 1) (j + 1) := by
  have hjn : j < n := by omega
  unfold ldltEntry
  simp only []
  generalize hx : (if j + t = j then (1 : K)
    else (get A (j + t) j - ldltSum L D (j + t) j) * (1 / get D j j)) = x
  have hget : ∀ a b, b < n → get (set L (j + t) j x) a b
      = if a = j + t ∧ b = j then x else get L a b :=
    fun a b hb => get_set hinv.shapedL hi hjn a hb x
  refine ⟨shaped_set hinv.shapedL _ _ _, hinv.shapedD, ?_, hinv.zeroD, ?_, ?_⟩
  · intro a b ha hb hnd
    rw [hget a b hb, if_neg]
    · apply hinv.zeroL a b ha hb
      rintro ⟨h1, h2⟩; exact hnd ⟨h1, by omega⟩
    · rintro ⟨rfl, rfl⟩; exact hnd ⟨by omega, Or.inr ⟨rfl, by omega⟩⟩
  · intro b hb
    apply LdltDOK.congr _ (fun k _ => rfl) (hinv.okD b hb)
    intro k hk
    rw [hget b k (by omega), if_neg]; omega
  · intro a b ha hd
    obtain ⟨hba, hd'⟩ := hd
    by_cases hab : a = j + t ∧ b = j
    · obtain ⟨rfl, rfl⟩ := hab
      have hrow : ∀ k, k < b → get (set L (b + t) b x) (b + t) k = get L (b + t) k := by
        intro k hk; rw [hget _ k (by omega), if_neg]; omega
      have hrow' : ∀ k, k < b → get (set L (b + t) b x) b k = get L b k := by
        intro k hk; rw [hget _ k (by omega), if_neg]; omega
      unfold LdltLOK
      have hs : ∑ k ∈ range b, get (set L (b + t) b x) (b + t) k * get (set L (b + t) b x) b k
          * get D k k = ldltSum L D (b + t) b := by
        rw [ldltSum_eq]
        apply sum_congr rfl
        intro k hk
        rw [hrow k (mem_range.mp hk), hrow' k (mem_range.mp hk)]
      rw [hs, hget _ b hjn]
      simp only [and_self, if_true]
      exact hx.symm
    · have hdone : LDone j t a b := ⟨hba, by omega⟩
      apply LdltLOK.congr _ _ (fun k _ => rfl) (hinv.okL a b ha hdone)
      · intro k hk
        rw [hget a k (by omega), if_neg]; omega
      · intro k hk
        rw [hget b k (by omega), if_neg]; omega

theorem ldltColumn_inv {n : ℕ} {A L D L' D' : Matrix K} {j : ℕ} (hinv : LdltInv n A L D j 0 j)
    (hj : j < n) (h : ldltColumn A n j (L, D) = some (L', D')) :
    LdltInv n A L' D' (j + 1) 0 (j + 1) := by
  unfold ldltColumn at h
  simp only [] at h
  by_cases hz : NumOrd.eq (get A j j - ldltSum L D j j) 0 = true
  · simp [hz] at h
  · simp only [hz, Bool.false_eq_true, if_false, Option.some.injEq, Prod.mk.injEq] at h
    obtain ⟨hL', hD'⟩ := h
    have hz' : NumOrd.eq (get A j j - ldltSum L D j j) 0 = false := by simpa using hz
    have hgetD : ∀ a b, b < n → get D' a b
        = if a = j ∧ b = j then get A j j - ldltSum L D j j else get D a b := by
      intro a b hb; rw [← hD']; exact get_set hinv.shapedD hj hj a hb _
    -- after the pivot is stored
    have h1 : LdltInv n A L D' j 0 (j + 1) := by
      refine ⟨hinv.shapedL, by rw [← hD']; exact shaped_set hinv.shapedD _ _ _, hinv.zeroL, ?_, ?_, ?_⟩
      · intro a b ha hb hnd
        rw [hgetD a b hb, if_neg]
        · apply hinv.zeroD a b ha hb
          rintro ⟨h1, h2⟩; exact hnd ⟨h1, by omega⟩
        · rintro ⟨rfl, rfl⟩; exact hnd ⟨rfl, by omega⟩
      · intro b hb
        by_cases hbj : b = j
        · subst hbj
          have hs : ∑ k ∈ range b, get L b k * get L b k * get D' k k = ldltSum L D b b := by
            rw [ldltSum_eq]
            apply sum_congr rfl
            intro k hk
            have hk := mem_range.mp hk
            rw [hgetD k k (by omega), if_neg]; omega
          unfold LdltDOK
          rw [hs, hgetD b b hj]
          simp only [and_self, if_true]
          exact ⟨hz', trivial⟩
        · apply LdltDOK.congr (fun k _ => rfl) _ (hinv.okD b (by omega))
          intro k hk
          rw [hgetD k k (by omega), if_neg]; omega
      · intro a b ha hd
        apply LdltLOK.congr (fun k _ => rfl) (fun k _ => rfl) _ (hinv.okL a b ha hd)
        intro k hk
        obtain ⟨_, hd'⟩ := hd
        rw [hgetD k k (by omega), if_neg]; omega
    -- the inner loop
    have h2 := foldRange_inv (fun t L => LdltInv n A L D' j t (j + 1))
      (fun t L => ldltEntry A D' j t L) (n - j) L h1
      (fun t L ht hP => ldltEntry_inv hP (by omega))
    rw [hD'] at hL'
    rw [hL'] at h2
    refine ⟨h2.shapedL, h2.shapedD, ?_, h2.zeroD, h2.okD, ?_⟩
    · intro a b ha hb hnd
      apply h2.zeroL a b ha hb
      rintro ⟨h1, h3⟩; exact hnd ⟨h1, by omega⟩
    · intro a b ha hd
      apply h2.okL a b ha
      obtain ⟨h1, h3⟩ := hd
      exact ⟨h1, by omega⟩

/-- What a successful run of the LDLᵀ model establishes, over any field. -/
theorem ldlt_inv {A L D : Matrix K} (h : ldlt A = some (L, D)) :
    A.rows = A.columns ∧ Shaped A.rows A.rows L ∧ Shaped A.rows A.rows D ∧
      (∀ a b, a < A.rows → b < A.rows → a < b → get L a b = 0) ∧
      (∀ a b, a < A.rows → b < A.rows → a ≠ b → get D a b = 0) ∧
      (∀ b, b < A.rows → LdltDOK (get A) (get L) (get D) b) ∧
      (∀ a b, a < A.rows → b ≤ a → LdltLOK (get A) (get L) (get D) a b) := by
  unfold ldlt at h
  by_cases hsq : A.rows = A.columns
  · simp only [hsq, ne_eq, not_true_eq_false, if_false] at h
    rw [← hsq] at h
    have h0 : LdltInv A.rows A (fill A.rows A.rows (0 : K)) (fill A.rows A.rows (0 : K)) 0 0 0 := by
      refine ⟨shaped_fill _ _ _, shaped_fill _ _ _, fun a b ha hb _ => get_fill _ _ _ _ _ ha hb,
        fun a b ha hb _ => get_fill _ _ _ _ _ ha hb, fun b hb => by omega, ?_⟩
      rintro a b _ ⟨_, h2⟩; omega
    have := forRange_inv (fun j (s : Matrix K × Matrix K) => LdltInv A.rows A s.1 s.2 j 0 j)
      (fun j s => ldltColumn A A.rows j s) A.rows _ (L, D) h0
      (fun k t t' hk hP hstep => ldltColumn_inv (L := t.1) (D := t.2) hP hk hstep) h
    simp only [] at this
    refine ⟨hsq, this.shapedL, this.shapedD, ?_, ?_, this.okD, ?_⟩
    · intro a b ha hb hab
      apply this.zeroL a b ha hb
      rintro ⟨h1, _⟩; omega
    · intro a b ha hb hab
      apply this.zeroD a b ha hb
      rintro ⟨h1, _⟩; exact hab h1
    · intro a b ha hba
      exact this.okL a b ha ⟨hba, Or.inl (by omega)⟩
  · simp [hsq] at h

/-- the defining identity on the lower triangle, from the recurrences -/
theorem ldlt_identity {A L D : Matrix K} (heq : ∀ a b : K, NumOrd.eq a b = true ↔ a = b)
    (h : ldlt A = some (L, D)) :
    (∀ a, a < A.rows → get L a a = 1) ∧ (∀ a, a < A.rows → get D a a ≠ 0) ∧
    ∀ a b, a < A.rows → b ≤ a →
      ∑ k ∈ range A.rows, get L a k * get D k k * get L b k = get A a b := by
  obtain ⟨_, _, _, hzL, _, hokD, hokL⟩ := ldlt_inv h
  have hone : ∀ a, a < A.rows → get L a a = 1 := by
    intro a ha
    have := hokL a a ha (le_refl a)
    unfold LdltLOK at this
    rwa [if_pos rfl] at this
  have hne : ∀ a, a < A.rows → get D a a ≠ 0 := by
    intro a ha
    obtain ⟨h1, h2⟩ := hokD a ha
    rw [h2]
    intro h0
    have := (heq _ _).mpr h0
    rw [h1] at this; exact Bool.false_ne_true this
  refine ⟨hone, hne, ?_⟩
  intro a b ha hba
  have hb : b < A.rows := by omega
  have hsplit : ∑ k ∈ range A.rows, get L a k * get D k k * get L b k
      = ∑ k ∈ range (b + 1), get L a k * get D k k * get L b k := by
    symm
    apply sum_subset (range_subset_range.mpr (by omega))
    intro k hk hk'
    have hk1 := mem_range.mp hk
    have hk2 : ¬ k < b + 1 := fun hh => hk' (mem_range.mpr hh)
    rw [hzL b k hb hk1 (by omega), mul_zero]
  rw [hsplit, sum_range_succ, hone b hb, mul_one]
  have hsum : ∑ k ∈ range b, get L a k * get D k k * get L b k
      = ∑ k ∈ range b, get L a k * get L b k * get D k k :=
    sum_congr rfl (fun k _ => by ring)
  rw [hsum]
  by_cases hab : a = b
  · subst hab
    rw [hone a ha, one_mul, (hokD a ha).2]
    ring
  · have := hokL a b ha hba
    unfold LdltLOK at this
    rw [if_neg hab] at this
    rw [this]
    have := hne b hb
    field_simp
    ring

end ldlt

/-! ### bridge to Mathlib matrices -/

/-- the `n × m` Mathlib matrix of the entries of a model tensor -/
def toMat {K : Type} [Zero K] (n m : ℕ) (M : Matrix K) : _root_.Matrix (Fin n) (Fin m) K :=
  fun i j => get M i j

@[simp] theorem toMat_apply {K : Type} [Zero K] (n m : ℕ) (M : Matrix K) (i : Fin n) (j : Fin m) :
    toMat n m M i j = get M i j := rfl

/-! ### Cholesky over ℝ -/

section choleskyReal
open scoped EasyMl.RealModel

theorem cholesky_real {A L : Matrix ℝ} (h : cholesky A = some L) :
    A.rows = A.columns ∧ Shaped A.rows A.rows L ∧
      (∀ a b, a < A.rows → b < A.rows → a < b → get L a b = 0) ∧
      (∀ a, a < A.rows → 0 < get L a a) ∧
      (∀ a b, a < A.rows → b ≤ a → ∑ k ∈ range A.rows, get L a k * get L b k = get A a b) := by
  obtain ⟨hsq, hsh, hzero, hok⟩ := cholesky_inv h
  have hpos : ∀ a, a < A.rows → 0 < get L a a := by
    intro a ha
    have := hok a a ha (le_refl a)
    unfold CholEntryOK at this
    rw [if_pos rfl] at this
    obtain ⟨h1, h2⟩ := this
    rw [h2]
    have : ¬ (get A a a - ∑ k ∈ range a, get L a k * get L a k ≤ 0) := by
      intro hle
      have := (RealModel.le_eq _ _).mpr hle
      rw [h1] at this; exact Bool.false_ne_true this
    exact Real.sqrt_pos.mpr (not_le.mp this)
  refine ⟨hsq, hsh, hzero, hpos, ?_⟩
  intro a b ha hba
  have hb : b < A.rows := by omega
  -- the terms beyond `b` vanish because `L` is lower triangular
  have hsplit : ∑ k ∈ range A.rows, get L a k * get L b k
      = ∑ k ∈ range (b + 1), get L a k * get L b k := by
    symm
    apply sum_subset (range_subset_range.mpr (by omega))
    intro k hk hk'
    have hk1 := mem_range.mp hk
    have hk2 : ¬ k < b + 1 := fun hh => hk' (mem_range.mpr hh)
    rw [hzero b k hb hk1 (by omega), mul_zero]
  rw [hsplit, sum_range_succ]
  have := hok a b ha hba
  unfold CholEntryOK at this
  by_cases hab : a = b
  · subst hab
    rw [if_pos rfl] at this
    obtain ⟨h1, h2⟩ := this
    have hnn : 0 ≤ get A a a - ∑ k ∈ range a, get L a k * get L a k := by
      by_contra hneg
      have hle : get A a a - ∑ k ∈ range a, get L a k * get L a k ≤ 0 := by linarith
      have := (RealModel.le_eq _ _).mpr hle
      rw [h1] at this; exact Bool.false_ne_true this
    have hsq' : get L a a * get L a a = get A a a - ∑ k ∈ range a, get L a k * get L a k := by
      rw [h2]; exact Real.mul_self_sqrt hnn
    linarith
  · rw [if_neg hab] at this
    have hbb : get L b b ≠ 0 := ne_of_gt (hpos b hb)
    rw [this]
    field_simp
    ring

end choleskyReal

end EasyMl.Decomp
