/-
  EasyMl.Lemmas.Decomp — helper lemmas about the decomposition models of `Model/Decomp.lean`:
  loops as folds, row-major access, sums as `Finset` sums, the loop invariants of Cholesky and
  LDLᵀ, and the bridge to Mathlib matrices used by `Props/C08.lean`.
-/
import Mathlib.Data.Matrix.Mul
import Mathlib.Analysis.Real.Sqrt
import Mathlib.Algebra.BigOperators.Fin
import Mathlib.Algebra.BigOperators.Field
import Mathlib.Tactic.Ring
import Mathlib.Tactic.Linarith
import Mathlib.Tactic.FieldSimp
import Mathlib.LinearAlgebra.Matrix.PosDef
import Mathlib.LinearAlgebra.Matrix.Block
import Mathlib.LinearAlgebra.Matrix.NonsingularInverse
import Mathlib.Algebra.Order.Star.Real
import Mathlib.LinearAlgebra.Matrix.ToLinearEquiv
import EasyMl.Model.Decomp
import EasyMl.Lemmas.RealModel
import EasyMl.Model.DualElem

namespace EasyMl.Decomp
open Finset

set_option linter.unusedSectionVars false

/-! ### loops -/

theorem foldRange_zero {σ} (f : Nat → σ → σ) (s : σ) : foldRange 0 f s = s := by
  simp [foldRange]

theorem foldRange_succ {σ} (n : Nat) (f : Nat → σ → σ) (s : σ) :
    foldRange (n + 1) f s = f n (foldRange n f s) := by
  simp [foldRange, List.range_succ]

theorem forRange_zero {σ} (f : Nat → σ → Option σ) (s : σ) : forRange 0 f s = some s := by
  simp [forRange]

theorem forRange_succ {σ} (n : Nat) (f : Nat → σ → Option σ) (s : σ) :
    forRange (n + 1) f s = (forRange n f s).bind (f n) := by
  simp [forRange, List.range_succ, List.foldlM_append]

/-- Invariant rule for `forRange`: if `P 0 s` and every successful step carries `P k` to
    `P (k+1)`, a successful loop ends in `P n`. -/
theorem forRange_inv {σ} (P : Nat → σ → Prop) (f : Nat → σ → Option σ) (n : Nat) (s s' : σ)
    (h0 : P 0 s) (hstep : ∀ k t t', k < n → P k t → f k t = some t' → P (k + 1) t')
    (h : forRange n f s = some s') : P n s' := by
  induction n generalizing s' with
  | zero => simp [forRange_zero] at h; subst h; exact h0
  | succ n ih =>
    rw [forRange_succ] at h
    cases hm : forRange n f s with
    | none => simp [hm] at h
    | some t =>
      simp [hm] at h
      exact hstep n t s' (Nat.lt_succ_self n) (ih t (fun k a b hk => hstep k a b (by omega)) hm) h

/-- A `forRange` loop is absent exactly when some iteration, reached with the state of the
    iterations before it, is absent. -/
theorem forRange_none_iff {σ} (f : Nat → σ → Option σ) (n : Nat) (s : σ) :
    forRange n f s = none ↔ ∃ k, k < n ∧ ∃ t, forRange k f s = some t ∧ f k t = none := by
  induction n with
  | zero => simp [forRange_zero]
  | succ n ih =>
    rw [forRange_succ]
    cases hm : forRange n f s with
    | none =>
      simp only [Option.bind_none, true_iff]
      obtain ⟨k, hk, t, h1, h2⟩ := ih.mp hm
      exact ⟨k, by omega, t, h1, h2⟩
    | some t =>
      simp only [Option.bind_some]
      constructor
      · intro h; exact ⟨n, Nat.lt_succ_self n, t, hm, h⟩
      · rintro ⟨k, hk, t', h1, h2⟩
        by_cases hkn : k = n
        · subst hkn; rw [hm] at h1; cases h1; exact h2
        · have : forRange n f s = none := ih.mpr ⟨k, by omega, t', h1, h2⟩
          rw [hm] at this; cases this

/-- Progress rule for `forRange`: if every step from a state satisfying the invariant succeeds
    and re-establishes it, the loop succeeds. -/
theorem forRange_progress {σ} (P : Nat → σ → Prop) (f : Nat → σ → Option σ) (n : Nat) (s : σ)
    (h0 : P 0 s) (hstep : ∀ k t, k < n → P k t → ∃ t', f k t = some t' ∧ P (k + 1) t') :
    ∃ s', forRange n f s = some s' ∧ P n s' := by
  induction n with
  | zero => exact ⟨s, forRange_zero f s, h0⟩
  | succ n ih =>
    obtain ⟨t, ht, hP⟩ := ih (fun k t hk => hstep k t (by omega))
    obtain ⟨t', ht', hP'⟩ := hstep n t (Nat.lt_succ_self n) hP
    exact ⟨t', by rw [forRange_succ, ht]; exact ht', hP'⟩

/-- Invariant rule for `foldRange`. -/
theorem foldRange_inv {σ} (P : Nat → σ → Prop) (f : Nat → σ → σ) (n : Nat) (s : σ)
    (h0 : P 0 s) (hstep : ∀ k t, k < n → P k t → P (k + 1) (f k t)) : P n (foldRange n f s) := by
  induction n with
  | zero => simpa [foldRange_zero] using h0
  | succ n ih =>
    rw [foldRange_succ]
    exact hstep n _ (Nat.lt_succ_self n) (ih (fun k t hk => hstep k t (by omega)))

theorem foldRange_add_eq_sum {K : Type} [AddCommMonoid K] (f : ℕ → K) (n : ℕ) :
    foldRange n (fun k s => s + f k) 0 = ∑ k ∈ range n, f k := by
  induction n with
  | zero => simp [foldRange_zero]
  | succ n ih => rw [foldRange_succ, ih, sum_range_succ]

/-! ### row-major access -/

section access
variable {α : Type} [Zero α]

theorem idx_lt {r c i j : Nat} (hi : i < r) (hj : j < c) : j + i * c < r * c := by
  have : (i + 1) * c ≤ r * c := Nat.mul_le_mul_right c hi
  rw [Nat.add_mul] at this
  omega

theorem idx_inj {c i j i' j' : Nat} (hj : j < c) (hj' : j' < c) :
    j + i * c = j' + i' * c ↔ i = i' ∧ j = j' := by
  constructor
  · intro h
    have hc : 0 < c := by omega
    have h1 := congrArg (· / c) h
    have h2 := congrArg (· % c) h
    simp [Nat.add_mul_div_right _ _ hc, Nat.add_mul_mod_self_right, Nat.div_eq_of_lt hj,
      Nat.div_eq_of_lt hj', Nat.mod_eq_of_lt hj, Nat.mod_eq_of_lt hj'] at h1 h2
    exact ⟨h1, h2⟩
  · rintro ⟨rfl, rfl⟩; rfl

/-- the tensor has the shape `n × m` and its data the matching length -/
def Shaped (n m : Nat) (M : Matrix α) : Prop :=
  M.rows = n ∧ M.columns = m ∧ M.data.length = n * m

theorem shaped_fill (n m : Nat) (v : α) : Shaped n m (fill n m v) := by
  simp [Shaped, fill]

theorem shaped_ofFn (n m : Nat) (f : Nat → Nat → α) : Shaped n m (ofFn n m f) := by
  simp [Shaped, ofFn]

theorem shaped_set {n m : Nat} {M : Matrix α} (h : Shaped n m M) (i j : Nat) (v : α) :
    Shaped n m (set M i j v) := by
  obtain ⟨h1, h2, h3⟩ := h
  simp [Shaped, set, h1, h2, h3]

theorem get_ofFn (r c : Nat) (f : Nat → Nat → α) (i j : Nat) (hi : i < r) (hj : j < c) :
    get (ofFn r c f) i j = f i j := by
  have h := idx_lt hi hj
  have hc : 0 < c := by omega
  simp [get, ofFn, Matrix.getIndex, List.getD_eq_getElem?_getD, h,
    Nat.add_mul_div_right _ _ hc, Nat.add_mul_mod_self_right, Nat.div_eq_of_lt hj,
    Nat.mod_eq_of_lt hj]

theorem get_set_raw (m : Matrix α) (i j i' j' : Nat) (v : α)
    (h : m.getIndex i j < m.data.length) (hj : j < m.columns) (hj' : j' < m.columns) :
    get (set m i j v) i' j' = if i' = i ∧ j' = j then v else get m i' j' := by
  simp only [get, set, Matrix.getIndex, List.getD_eq_getElem?_getD, List.getElem?_set] at *
  by_cases hij : i' = i ∧ j' = j
  · obtain ⟨rfl, rfl⟩ := hij
    simp [h]
  · have : ¬ (j + i * m.columns = j' + i' * m.columns) := by
      rw [idx_inj hj hj']; intro hh; exact hij ⟨hh.1.symm, hh.2.symm⟩
    simp [hij, this]

theorem get_set {n m : Nat} {M : Matrix α} (h : Shaped n m M) {i j : Nat} (hi : i < n) (hj : j < m)
    (i' : Nat) {j' : Nat} (hj' : j' < m) (v : α) :
    get (set M i j v) i' j' = if i' = i ∧ j' = j then v else get M i' j' := by
  obtain ⟨h1, h2, h3⟩ := h
  apply get_set_raw
  · rw [h3, Matrix.getIndex, h2]; exact idx_lt hi hj
  · rw [h2]; exact hj
  · rw [h2]; exact hj'

theorem get_fill (r c : Nat) (v : α) (i j : Nat) (hi : i < r) (hj : j < c) :
    get (fill r c v) i j = v := by
  simp [get, fill, Matrix.getIndex, List.getD_eq_getElem?_getD, idx_lt hi hj]

end access

/-! ### Cholesky: the loop invariant (any field, any `sqrt`, any comparison) -/

section cholesky
variable {K : Type} [Field K] [RealFns K] [NumOrd K]

theorem cholSum_eq (L : Matrix K) (i j : ℕ) :
    cholSum L i j = ∑ k ∈ range j, get L i k * get L j k := by
  unfold cholSum
  exact foldRange_add_eq_sum (fun k => get L i k * get L j k) j

/-- what `cholEntry` stores at `(i, j)`, as a predicate on the table of entries -/
def CholEntryOK (A ℓ : ℕ → ℕ → K) (i j : ℕ) : Prop :=
  if i = j then
    NumOrd.le (A i j - ∑ k ∈ range j, ℓ i k * ℓ j k) 0 = false ∧
      ℓ i j = RealFns.sqrt (A i j - ∑ k ∈ range j, ℓ i k * ℓ j k)
  else ℓ i j = (A i j - ∑ k ∈ range j, ℓ i k * ℓ j k) * (1 / ℓ j j)

theorem CholEntryOK.congr {A ℓ ℓ' : ℕ → ℕ → K} {i j : ℕ}
    (h : ∀ k, k ≤ j → ℓ' i k = ℓ i k ∧ ℓ' j k = ℓ j k) (hok : CholEntryOK A ℓ i j) :
    CholEntryOK A ℓ' i j := by
  have hs : ∑ k ∈ range j, ℓ' i k * ℓ' j k = ∑ k ∈ range j, ℓ i k * ℓ j k := by
    apply sum_congr rfl
    intro k hk
    have := h k (by have := mem_range.mp hk; omega)
    rw [this.1, this.2]
  unfold CholEntryOK at *
  rw [hs, (h j (le_refl j)).1, (h j (le_refl j)).2]
  exact hok

/-- the entries written before `(i, j)` in the order of the two loops -/
def CholDone (i j a b : ℕ) : Prop := b ≤ a ∧ (a < i ∨ (a = i ∧ b < j))

structure CholInv (n : ℕ) (A L : Matrix K) (i j : ℕ) : Prop where
  shaped : Shaped n n L
  zero : ∀ a b, a < n → b < n → ¬ CholDone i j a b → get L a b = 0
  ok : ∀ a b, a < n → CholDone i j a b → CholEntryOK (get A) (get L) a b

theorem cholEntry_inv {n : ℕ} {A L L' : Matrix K} {i j : ℕ} (hinv : CholInv n A L i j)
    (hi : i < n) (hj : j ≤ i) (h : cholEntry A L i j = some L') : CholInv n A L' i (j + 1) := by
  -- the step writes one entry `v` satisfying the entry predicate
  have hjn : j < n := by omega
  obtain ⟨v, hL', hv⟩ : ∃ v, L' = set L i j v ∧
      (if i = j then NumOrd.le (get A i j - cholSum L i j) 0 = false ∧
          v = RealFns.sqrt (get A i j - cholSum L i j)
        else v = (get A i j - cholSum L i j) * (1 / get L j j)) := by
    unfold cholEntry at h
    by_cases hij : i = j
    · simp only [hij, if_true] at h ⊢
      by_cases hle : NumOrd.le (get A j j - cholSum L j j) 0 = true
      · simp [hle] at h
      · simp only [hle] at h
        simp only [Bool.false_eq_true, if_false, Option.some.injEq] at h
        exact ⟨_, h.symm, by simpa using hle, rfl⟩
    · simp only [hij, if_false, Option.some.injEq] at h ⊢
      exact ⟨_, h.symm, rfl⟩
  subst hL'
  have hget : ∀ a b, b < n → get (set L i j v) a b = if a = i ∧ b = j then v else get L a b :=
    fun a b hb => get_set hinv.shaped hi hjn a hb v
  refine ⟨shaped_set hinv.shaped i j v, ?_, ?_⟩
  · intro a b ha hb hnd
    rw [hget a b hb]
    have hne : ¬ (a = i ∧ b = j) := by
      rintro ⟨rfl, rfl⟩; exact hnd ⟨hj, Or.inr ⟨rfl, Nat.lt_succ_self _⟩⟩
    rw [if_neg hne]
    apply hinv.zero a b ha hb
    rintro ⟨h1, h2⟩
    exact hnd ⟨h1, by omega⟩
  · intro a b ha hd
    obtain ⟨hba, hd'⟩ := hd
    by_cases hab : a = i ∧ b = j
    · obtain ⟨rfl, rfl⟩ := hab
      -- the new entry
      have hrow : ∀ k, k < b → get (set L a b v) a k = get L a k := by
        intro k hk; rw [hget a k (by omega)]; rw [if_neg]; omega
      have hrow' : ∀ k, k < b → get (set L a b v) b k = get L b k := by
        intro k hk; rw [hget b k (by omega)]; rw [if_neg]; omega
      have hs : ∑ k ∈ range b, get (set L a b v) a k * get (set L a b v) b k = cholSum L a b := by
        rw [cholSum_eq]
        apply sum_congr rfl
        intro k hk
        rw [hrow k (mem_range.mp hk), hrow' k (mem_range.mp hk)]
      unfold CholEntryOK
      rw [hs, hget a b hjn]
      simp only [and_self, if_true]
      by_cases hij : a = b
      · rw [if_pos hij] at hv ⊢; exact hv
      · rw [if_neg hij] at hv ⊢
        rw [hget b b hjn, if_neg (by omega)]
        exact hv
    · -- an entry written earlier: nothing it depends on has changed
      have hdone : CholDone i j a b := ⟨hba, by omega⟩
      apply CholEntryOK.congr _ (hinv.ok a b ha hdone)
      intro k hk
      constructor
      · rw [hget a k (by omega), if_neg]; omega
      · rw [hget b k (by omega), if_neg]; omega

theorem cholRow_inv {n : ℕ} {A L L' : Matrix K} {i : ℕ} (hinv : CholInv n A L i 0)
    (hi : i < n) (h : cholRow A i L = some L') : CholInv n A L' (i + 1) 0 := by
  have := forRange_inv (fun j L => CholInv n A L i j) (fun j L => cholEntry A L i j) (i + 1) L L'
    hinv (fun k t t' hk hP hstep => cholEntry_inv hP hi (by omega) hstep) h
  refine ⟨this.shaped, ?_, ?_⟩
  · intro a b ha hb hnd
    apply this.zero a b ha hb
    rintro ⟨h1, h2⟩; exact hnd ⟨h1, by omega⟩
  · intro a b ha hd
    apply this.ok a b ha
    obtain ⟨h1, h2⟩ := hd
    exact ⟨h1, by omega⟩

/-- What a successful run of the Cholesky model establishes, over any field: the result has the
    input's shape, every entry above the diagonal is zero and every entry on or below it
    satisfies the recurrence `cholEntry` computes it by. -/
theorem cholesky_inv {A L : Matrix K} (h : cholesky A = some L) :
    A.rows = A.columns ∧ Shaped A.rows A.rows L ∧
      (∀ a b, a < A.rows → b < A.rows → a < b → get L a b = 0) ∧
      (∀ a b, a < A.rows → b ≤ a → CholEntryOK (get A) (get L) a b) := by
  unfold cholesky at h
  by_cases hsq : A.rows = A.columns
  · simp only [hsq, ne_eq, not_true_eq_false, if_false] at h
    rw [← hsq] at h
    have h0 : CholInv A.rows A (fill A.rows A.rows (0 : K)) 0 0 := by
      refine ⟨shaped_fill _ _ _, fun a b ha hb _ => get_fill _ _ _ _ _ ha hb, ?_⟩
      rintro a b _ ⟨_, h2⟩; omega
    have := forRange_inv (fun i L => CholInv A.rows A L i 0) (fun i L => cholRow A i L) A.rows _ L
      h0 (fun k t t' hk hP hstep => cholRow_inv hP hk hstep) h
    refine ⟨hsq, this.shaped, ?_, ?_⟩
    · intro a b ha hb hab
      apply this.zero a b ha hb
      rintro ⟨h1, _⟩; omega
    · intro a b ha hba
      exact this.ok a b ha ⟨hba, Or.inl ha⟩
  · simp [hsq] at h

end cholesky

/-! ### LDLᵀ: the loop invariant (any field) -/

section ldlt
variable {K : Type} [Field K] [NumOrd K]

theorem ldltSum_eq (L D : Matrix K) (i j : ℕ) :
    ldltSum L D i j = ∑ k ∈ range j, get L i k * get L j k * get D k k := by
  unfold ldltSum
  exact foldRange_add_eq_sum (fun k => get L i k * get L j k * get D k k) j

/-- what the code stores at `D[j,j]` -/
def LdltDOK (A ℓ d : ℕ → ℕ → K) (j : ℕ) : Prop :=
  NumOrd.eq (A j j - ∑ k ∈ range j, ℓ j k * ℓ j k * d k k) 0 = false ∧
    d j j = A j j - ∑ k ∈ range j, ℓ j k * ℓ j k * d k k

/-- what the code stores at `L[i,j]`, `j ≤ i` -/
def LdltLOK (A ℓ d : ℕ → ℕ → K) (i j : ℕ) : Prop :=
  ℓ i j = if i = j then 1 else (A i j - ∑ k ∈ range j, ℓ i k * ℓ j k * d k k) * (1 / d j j)

theorem LdltDOK.congr {A ℓ d ℓ' d' : ℕ → ℕ → K} {j : ℕ}
    (hl : ∀ k, k < j → ℓ' j k = ℓ j k) (hd : ∀ k, k ≤ j → d' k k = d k k)
    (h : LdltDOK A ℓ d j) : LdltDOK A ℓ' d' j := by
  have hs : ∑ k ∈ range j, ℓ' j k * ℓ' j k * d' k k = ∑ k ∈ range j, ℓ j k * ℓ j k * d k k := by
    apply sum_congr rfl
    intro k hk
    have hk := mem_range.mp hk
    rw [hl k hk, hd k (by omega)]
  unfold LdltDOK at *
  rw [hs, hd j (le_refl j)]
  exact h

theorem LdltLOK.congr {A ℓ d ℓ' d' : ℕ → ℕ → K} {i j : ℕ}
    (hl : ∀ k, k ≤ j → ℓ' i k = ℓ i k) (hl' : ∀ k, k < j → ℓ' j k = ℓ j k)
    (hd : ∀ k, k ≤ j → d' k k = d k k) (h : LdltLOK A ℓ d i j) : LdltLOK A ℓ' d' i j := by
  have hs : ∑ k ∈ range j, ℓ' i k * ℓ' j k * d' k k = ∑ k ∈ range j, ℓ i k * ℓ j k * d k k := by
    apply sum_congr rfl
    intro k hk
    have hk := mem_range.mp hk
    rw [hl k (by omega), hl' k hk, hd k (by omega)]
  unfold LdltLOK at *
  rw [hs, hd j (le_refl j), hl j (le_refl j)]
  exact h

/-- entries of `L` written before the `t`-th iteration of the inner loop of column `j` -/
def LDone (j t a b : ℕ) : Prop := b ≤ a ∧ (b < j ∨ (b = j ∧ a < j + t))

/-- invariant of the LDLᵀ loops: `L` is complete for the columns before `jL` and for `t` entries
    of column `jL`, `D` for the diagonal entries before `jD` -/
structure LdltInv (n : ℕ) (A L D : Matrix K) (jL t jD : ℕ) : Prop where
  shapedL : Shaped n n L
  shapedD : Shaped n n D
  zeroL : ∀ a b, a < n → b < n → ¬ LDone jL t a b → get L a b = 0
  zeroD : ∀ a b, a < n → b < n → ¬ (a = b ∧ a < jD) → get D a b = 0
  okD : ∀ b, b < jD → LdltDOK (get A) (get L) (get D) b
  okL : ∀ a b, a < n → LDone jL t a b → LdltLOK (get A) (get L) (get D) a b

theorem ldltEntry_inv {n : ℕ} {A L D : Matrix K} {j t : ℕ} (hinv : LdltInv n A L D j t (j + 1))
    (hi : j + t < n) : LdltInv n A (ldltEntry A D j t L) D j (t + 1) (j + 1) := by
  have hjn : j < n := by omega
  unfold ldltEntry
  simp only []
  generalize hx : (if j + t = j then (1 : K)
    else (get A (j + t) j - ldltSum L D (j + t) j) * (1 / get D j j)) = x
  have hget : ∀ a b, b < n → get (set L (j + t) j x) a b
      = if a = j + t ∧ b = j then x else get L a b :=
    fun a b hb => get_set hinv.shapedL hi hjn a hb x
  refine ⟨shaped_set hinv.shapedL _ _ _, hinv.shapedD, ?_, hinv.zeroD, ?_, ?_⟩
  · intro a b ha hb hnd
    rw [hget a b hb, if_neg]
    · apply hinv.zeroL a b ha hb
      rintro ⟨h1, h2⟩; exact hnd ⟨h1, by omega⟩
    · rintro ⟨rfl, rfl⟩; exact hnd ⟨by omega, Or.inr ⟨rfl, by omega⟩⟩
  · intro b hb
    apply LdltDOK.congr _ (fun k _ => rfl) (hinv.okD b hb)
    intro k hk
    rw [hget b k (by omega), if_neg]; omega
  · intro a b ha hd
    obtain ⟨hba, hd'⟩ := hd
    by_cases hab : a = j + t ∧ b = j
    · obtain ⟨rfl, rfl⟩ := hab
      have hrow : ∀ k, k < b → get (set L (b + t) b x) (b + t) k = get L (b + t) k := by
        intro k hk; rw [hget _ k (by omega), if_neg]; omega
      have hrow' : ∀ k, k < b → get (set L (b + t) b x) b k = get L b k := by
        intro k hk; rw [hget _ k (by omega), if_neg]; omega
      unfold LdltLOK
      have hs : ∑ k ∈ range b, get (set L (b + t) b x) (b + t) k * get (set L (b + t) b x) b k
          * get D k k = ldltSum L D (b + t) b := by
        rw [ldltSum_eq]
        apply sum_congr rfl
        intro k hk
        rw [hrow k (mem_range.mp hk), hrow' k (mem_range.mp hk)]
      rw [hs, hget _ b hjn]
      simp only [and_self, if_true]
      exact hx.symm
    · have hdone : LDone j t a b := ⟨hba, by omega⟩
      apply LdltLOK.congr _ _ (fun k _ => rfl) (hinv.okL a b ha hdone)
      · intro k hk
        rw [hget a k (by omega), if_neg]; omega
      · intro k hk
        rw [hget b k (by omega), if_neg]; omega

theorem ldltColumn_inv {n : ℕ} {A L D L' D' : Matrix K} {j : ℕ} (hinv : LdltInv n A L D j 0 j)
    (hj : j < n) (h : ldltColumn A n j (L, D) = some (L', D')) :
    LdltInv n A L' D' (j + 1) 0 (j + 1) := by
  unfold ldltColumn at h
  simp only [] at h
  by_cases hz : NumOrd.eq (get A j j - ldltSum L D j j) 0 = true
  · simp [hz] at h
  · simp only [hz, Bool.false_eq_true, if_false, Option.some.injEq, Prod.mk.injEq] at h
    obtain ⟨hL', hD'⟩ := h
    have hz' : NumOrd.eq (get A j j - ldltSum L D j j) 0 = false := by simpa using hz
    have hgetD : ∀ a b, b < n → get D' a b
        = if a = j ∧ b = j then get A j j - ldltSum L D j j else get D a b := by
      intro a b hb; rw [← hD']; exact get_set hinv.shapedD hj hj a hb _
    -- after the pivot is stored
    have h1 : LdltInv n A L D' j 0 (j + 1) := by
      refine ⟨hinv.shapedL, by rw [← hD']; exact shaped_set hinv.shapedD _ _ _, hinv.zeroL, ?_, ?_, ?_⟩
      · intro a b ha hb hnd
        rw [hgetD a b hb, if_neg]
        · apply hinv.zeroD a b ha hb
          rintro ⟨h1, h2⟩; exact hnd ⟨h1, by omega⟩
        · rintro ⟨rfl, rfl⟩; exact hnd ⟨rfl, by omega⟩
      · intro b hb
        by_cases hbj : b = j
        · subst hbj
          have hs : ∑ k ∈ range b, get L b k * get L b k * get D' k k = ldltSum L D b b := by
            rw [ldltSum_eq]
            apply sum_congr rfl
            intro k hk
            have hk := mem_range.mp hk
            rw [hgetD k k (by omega), if_neg]; omega
          unfold LdltDOK
          rw [hs, hgetD b b hj]
          simp only [and_self, if_true]
          exact ⟨hz', trivial⟩
        · apply LdltDOK.congr (fun k _ => rfl) _ (hinv.okD b (by omega))
          intro k hk
          rw [hgetD k k (by omega), if_neg]; omega
      · intro a b ha hd
        apply LdltLOK.congr (fun k _ => rfl) (fun k _ => rfl) _ (hinv.okL a b ha hd)
        intro k hk
        obtain ⟨_, hd'⟩ := hd
        rw [hgetD k k (by omega), if_neg]; omega
    -- the inner loop
    have h2 := foldRange_inv (fun t L => LdltInv n A L D' j t (j + 1))
      (fun t L => ldltEntry A D' j t L) (n - j) L h1
      (fun t L ht hP => ldltEntry_inv hP (by omega))
    rw [hD'] at hL'
    rw [hL'] at h2
    refine ⟨h2.shapedL, h2.shapedD, ?_, h2.zeroD, h2.okD, ?_⟩
    · intro a b ha hb hnd
      apply h2.zeroL a b ha hb
      rintro ⟨h1, h3⟩; exact hnd ⟨h1, by omega⟩
    · intro a b ha hd
      apply h2.okL a b ha
      obtain ⟨h1, h3⟩ := hd
      exact ⟨h1, by omega⟩

/-- What a successful run of the LDLᵀ model establishes, over any field. -/
theorem ldlt_inv {A L D : Matrix K} (h : ldlt A = some (L, D)) :
    A.rows = A.columns ∧ Shaped A.rows A.rows L ∧ Shaped A.rows A.rows D ∧
      (∀ a b, a < A.rows → b < A.rows → a < b → get L a b = 0) ∧
      (∀ a b, a < A.rows → b < A.rows → a ≠ b → get D a b = 0) ∧
      (∀ b, b < A.rows → LdltDOK (get A) (get L) (get D) b) ∧
      (∀ a b, a < A.rows → b ≤ a → LdltLOK (get A) (get L) (get D) a b) := by
  unfold ldlt at h
  by_cases hsq : A.rows = A.columns
  · simp only [hsq, ne_eq, not_true_eq_false, if_false] at h
    rw [← hsq] at h
    have h0 : LdltInv A.rows A (fill A.rows A.rows (0 : K)) (fill A.rows A.rows (0 : K)) 0 0 0 := by
      refine ⟨shaped_fill _ _ _, shaped_fill _ _ _, fun a b ha hb _ => get_fill _ _ _ _ _ ha hb,
        fun a b ha hb _ => get_fill _ _ _ _ _ ha hb, fun b hb => by omega, ?_⟩
      rintro a b _ ⟨_, h2⟩; omega
    have := forRange_inv (fun j (s : Matrix K × Matrix K) => LdltInv A.rows A s.1 s.2 j 0 j)
      (fun j s => ldltColumn A A.rows j s) A.rows _ (L, D) h0
      (fun k t t' hk hP hstep => ldltColumn_inv (L := t.1) (D := t.2) hP hk hstep) h
    simp only [] at this
    refine ⟨hsq, this.shapedL, this.shapedD, ?_, ?_, this.okD, ?_⟩
    · intro a b ha hb hab
      apply this.zeroL a b ha hb
      rintro ⟨h1, _⟩; omega
    · intro a b ha hb hab
      apply this.zeroD a b ha hb
      rintro ⟨h1, _⟩; exact hab h1
    · intro a b ha hba
      exact this.okL a b ha ⟨hba, Or.inl (by omega)⟩
  · simp [hsq] at h

/-- the defining identity on the lower triangle, from the recurrences -/
theorem ldlt_identity {A L D : Matrix K} (heq : ∀ a b : K, NumOrd.eq a b = true ↔ a = b)
    (h : ldlt A = some (L, D)) :
    (∀ a, a < A.rows → get L a a = 1) ∧ (∀ a, a < A.rows → get D a a ≠ 0) ∧
    ∀ a b, a < A.rows → b ≤ a →
      ∑ k ∈ range A.rows, get L a k * get D k k * get L b k = get A a b := by
  obtain ⟨_, _, _, hzL, _, hokD, hokL⟩ := ldlt_inv h
  have hone : ∀ a, a < A.rows → get L a a = 1 := by
    intro a ha
    have := hokL a a ha (le_refl a)
    unfold LdltLOK at this
    rwa [if_pos rfl] at this
  have hne : ∀ a, a < A.rows → get D a a ≠ 0 := by
    intro a ha
    obtain ⟨h1, h2⟩ := hokD a ha
    rw [h2]
    intro h0
    have := (heq _ _).mpr h0
    rw [h1] at this; exact Bool.false_ne_true this
  refine ⟨hone, hne, ?_⟩
  intro a b ha hba
  have hb : b < A.rows := by omega
  have hsplit : ∑ k ∈ range A.rows, get L a k * get D k k * get L b k
      = ∑ k ∈ range (b + 1), get L a k * get D k k * get L b k := by
    symm
    apply sum_subset (range_subset_range.mpr (by omega))
    intro k hk hk'
    have hk1 := mem_range.mp hk
    have hk2 : ¬ k < b + 1 := fun hh => hk' (mem_range.mpr hh)
    rw [hzL b k hb hk1 (by omega), mul_zero]
  rw [hsplit, sum_range_succ, hone b hb, mul_one]
  have hsum : ∑ k ∈ range b, get L a k * get D k k * get L b k
      = ∑ k ∈ range b, get L a k * get L b k * get D k k :=
    sum_congr rfl (fun k _ => by ring)
  rw [hsum]
  by_cases hab : a = b
  · subst hab
    rw [hone a ha, one_mul, (hokD a ha).2]
    ring
  · have := hokL a b ha hba
    unfold LdltLOK at this
    rw [if_neg hab] at this
    rw [this]
    have := hne b hb
    field_simp
    ring

end ldlt

/-! ### LDLᵀ: completeness with explicit factors (any field) -/

section ldltComplete
variable {K : Type} [Field K] [NumOrd K]

/-- the factors under construction agree with the given tables `ℓ`, `d` on what is written so far -/
structure LdltAgree (n : ℕ) (ℓ : ℕ → ℕ → K) (d : ℕ → K) (L D : Matrix K) (jL t jD : ℕ) : Prop where
  shapedL : Shaped n n L
  shapedD : Shaped n n D
  zeroL : ∀ a b, a < n → b < n → ¬ LDone jL t a b → get L a b = 0
  zeroD : ∀ a b, a < n → b < n → ¬ (a = b ∧ a < jD) → get D a b = 0
  agreeD : ∀ b, b < jD → get D b b = d b
  agreeL : ∀ a b, a < n → LDone jL t a b → get L a b = ℓ a b

variable {n : ℕ} {A : Matrix K} {ℓ : ℕ → ℕ → K} {d : ℕ → K}

/-- `A[a,b] = Σ_{k ≤ b} ℓ[a,k]·d[k]·ℓ[b,k]` for unit lower triangular `ℓ` -/
theorem ldlt_entry_split (hlow : ∀ a b, a < b → ℓ a b = 0) (hone : ∀ a, ℓ a a = 1)
    (hA : ∀ a b, a < n → b ≤ a → get A a b = ∑ k ∈ range n, ℓ a k * d k * ℓ b k)
    {a b : ℕ} (ha : a < n) (hba : b ≤ a) :
    get A a b = ∑ k ∈ range b, ℓ a k * ℓ b k * d k + ℓ a b * d b := by
  rw [hA a b ha hba]
  have : ∑ k ∈ range n, ℓ a k * d k * ℓ b k = ∑ k ∈ range (b + 1), ℓ a k * d k * ℓ b k := by
    symm
    apply sum_subset (range_subset_range.mpr (by omega))
    intro k _ hk'
    have : ¬ k < b + 1 := fun hh => hk' (mem_range.mpr hh)
    rw [hlow b k (by omega), mul_zero]
  rw [this, sum_range_succ, hone b, mul_one]
  congr 1
  exact sum_congr rfl (fun k _ => by ring)

theorem ldltEntry_complete (hlow : ∀ a b, a < b → ℓ a b = 0) (hone : ∀ a, ℓ a a = 1)
    (hd : ∀ a, a < n → d a ≠ 0)
    (hA : ∀ a b, a < n → b ≤ a → get A a b = ∑ k ∈ range n, ℓ a k * d k * ℓ b k)
    {L D : Matrix K} {j t : ℕ} (hinv : LdltAgree n ℓ d L D j t (j + 1)) (hi : j + t < n) :
    LdltAgree n ℓ d (ldltEntry A D j t L) D j (t + 1) (j + 1) := by
  have hjn : j < n := by omega
  have hS : ldltSum L D (j + t) j = ∑ k ∈ range j, ℓ (j + t) k * ℓ j k * d k := by
    rw [ldltSum_eq]
    apply sum_congr rfl
    intro k hk
    have hk := mem_range.mp hk
    rw [hinv.agreeL (j + t) k hi ⟨by omega, Or.inl hk⟩, hinv.agreeL j k hjn ⟨by omega, Or.inl hk⟩,
      hinv.agreeD k (by omega)]
  have hval : (if j + t = j then (1 : K)
      else (get A (j + t) j - ldltSum L D (j + t) j) * (1 / get D j j)) = ℓ (j + t) j := by
    by_cases ht : j + t = j
    · rw [if_pos ht, ht, hone]
    · rw [if_neg ht, hS, ldlt_entry_split hlow hone hA hi (by omega), hinv.agreeD j (by omega)]
      have := hd j hjn
      field_simp
      ring
  unfold ldltEntry
  simp only []
  rw [hval]
  have hget : ∀ a b, b < n → get (set L (j + t) j (ℓ (j + t) j)) a b
      = if a = j + t ∧ b = j then ℓ (j + t) j else get L a b :=
    fun a b hb => get_set hinv.shapedL hi hjn a hb _
  refine ⟨shaped_set hinv.shapedL _ _ _, hinv.shapedD, ?_, hinv.zeroD, hinv.agreeD, ?_⟩
  · intro a b ha hb hnd
    rw [hget a b hb, if_neg]
    · apply hinv.zeroL a b ha hb
      rintro ⟨h1, h2⟩; exact hnd ⟨h1, by omega⟩
    · rintro ⟨rfl, rfl⟩; exact hnd ⟨by omega, Or.inr ⟨rfl, by omega⟩⟩
  · intro a b ha hdone
    obtain ⟨hba, hd'⟩ := hdone
    rw [hget a b (by omega)]
    by_cases hab : a = j + t ∧ b = j
    · obtain ⟨rfl, rfl⟩ := hab; rw [if_pos ⟨rfl, rfl⟩]
    · rw [if_neg hab]
      exact hinv.agreeL a b ha ⟨hba, by omega⟩

theorem ldltColumn_complete (heq : ∀ a b : K, NumOrd.eq a b = true ↔ a = b)
    (hlow : ∀ a b, a < b → ℓ a b = 0) (hone : ∀ a, ℓ a a = 1) (hd : ∀ a, a < n → d a ≠ 0)
    (hA : ∀ a b, a < n → b ≤ a → get A a b = ∑ k ∈ range n, ℓ a k * d k * ℓ b k)
    {L D : Matrix K} {j : ℕ} (hinv : LdltAgree n ℓ d L D j 0 j) (hj : j < n) :
    ∃ s', ldltColumn A n j (L, D) = some s' ∧ LdltAgree n ℓ d s'.1 s'.2 (j + 1) 0 (j + 1) := by
  have hS : ldltSum L D j j = ∑ k ∈ range j, ℓ j k * ℓ j k * d k := by
    rw [ldltSum_eq]
    apply sum_congr rfl
    intro k hk
    have hk := mem_range.mp hk
    rw [hinv.agreeL j k hj ⟨by omega, Or.inl hk⟩, hinv.agreeD k hk]
  have hpivot : get A j j - ldltSum L D j j = d j := by
    rw [hS, ldlt_entry_split hlow hone hA hj (le_refl j), hone]
    ring
  have hb : NumOrd.eq (get A j j - ldltSum L D j j) (0 : K) = false := by
    cases hbb : NumOrd.eq (get A j j - ldltSum L D j j) (0 : K) with
    | false => rfl
    | true => exact absurd (hpivot ▸ (heq _ _).mp hbb) (hd j hj)
  have hb' : NumOrd.eq (d j) (0 : K) = false := by rw [← hpivot]; exact hb
  unfold ldltColumn
  simp only [hpivot, hb']
  refine ⟨_, rfl, ?_⟩
  simp only []
  have hgetD : ∀ a b, b < n → get (set D j j (d j)) a b = if a = j ∧ b = j then d j else get D a b :=
    fun a b hb => get_set hinv.shapedD hj hj a hb _
  have h1 : LdltAgree n ℓ d L (set D j j (d j)) j 0 (j + 1) := by
    refine ⟨hinv.shapedL, shaped_set hinv.shapedD _ _ _, hinv.zeroL, ?_, ?_, hinv.agreeL⟩
    · intro a b ha hb hnd
      rw [hgetD a b hb, if_neg]
      · apply hinv.zeroD a b ha hb
        rintro ⟨h1, h2⟩; exact hnd ⟨h1, by omega⟩
      · rintro ⟨rfl, rfl⟩; exact hnd ⟨rfl, by omega⟩
    · intro b hb
      rw [hgetD b b (by omega)]
      by_cases hbj : b = j
      · rw [if_pos ⟨hbj, hbj⟩, hbj]
      · rw [if_neg (by tauto)]; exact hinv.agreeD b (by omega)
  have h2 := foldRange_inv (fun t L => LdltAgree n ℓ d L (set D j j (d j)) j t (j + 1))
    (fun t L => ldltEntry A (set D j j (d j)) j t L) (n - j) L h1
    (fun t L ht hP => ldltEntry_complete hlow hone hd hA hP (by omega))
  refine ⟨h2.shapedL, h2.shapedD, ?_, h2.zeroD, h2.agreeD, ?_⟩
  · intro a b ha hb hnd
    apply h2.zeroL a b ha hb
    rintro ⟨h1, h3⟩; exact hnd ⟨h1, by omega⟩
  · intro a b ha hdone
    apply h2.agreeL a b ha
    obtain ⟨h1, h3⟩ := hdone
    exact ⟨h1, by omega⟩

/-- **Completeness of LDLᵀ with explicit factors, any field**: if `A = ℓ·diag(d)·ℓᵀ` on the lower
    triangle for a unit lower triangular `ℓ` and non-zero `d`, the model returns exactly them. -/
theorem ldlt_complete_aux (heq : ∀ a b : K, NumOrd.eq a b = true ↔ a = b) (hsq : A.rows = A.columns)
    (hlow : ∀ a b, a < b → ℓ a b = 0) (hone : ∀ a, ℓ a a = 1) (hd : ∀ a, a < A.rows → d a ≠ 0)
    (hA : ∀ a b, a < A.rows → b ≤ a → get A a b = ∑ k ∈ range A.rows, ℓ a k * d k * ℓ b k) :
    ∃ L D, ldlt A = some (L, D) ∧ Shaped A.rows A.rows L ∧ Shaped A.rows A.rows D ∧
      (∀ a b, a < A.rows → b < A.rows → get L a b = ℓ a b) ∧
      (∀ a b, a < A.rows → b < A.rows → get D a b = if a = b then d a else 0) := by
  unfold ldlt
  rw [if_neg (by simpa using hsq), ← hsq]
  have h0 : LdltAgree A.rows ℓ d (fill A.rows A.rows (0 : K)) (fill A.rows A.rows (0 : K)) 0 0 0 := by
    refine ⟨shaped_fill _ _ _, shaped_fill _ _ _, fun a b ha hb _ => get_fill _ _ _ _ _ ha hb,
      fun a b ha hb _ => get_fill _ _ _ _ _ ha hb, fun b hb => by omega, ?_⟩
    rintro a b _ ⟨_, h2⟩; omega
  obtain ⟨⟨L, D⟩, h1, h2⟩ := forRange_progress
    (fun j (s : Matrix K × Matrix K) => LdltAgree A.rows ℓ d s.1 s.2 j 0 j)
    (fun j s => ldltColumn A A.rows j s) A.rows
    (fill A.rows A.rows (0 : K), fill A.rows A.rows (0 : K)) h0
    (fun j t hj hP => ldltColumn_complete (L := t.1) (D := t.2) heq hlow hone hd hA hP hj)
  refine ⟨L, D, h1, h2.shapedL, h2.shapedD, ?_, ?_⟩
  · intro a b ha hb
    by_cases hba : b ≤ a
    · exact h2.agreeL a b ha ⟨hba, Or.inl (by omega)⟩
    · rw [hlow a b (by omega)]
      apply h2.zeroL a b ha hb
      rintro ⟨h3, _⟩; omega
  · intro a b ha hb
    by_cases hab : a = b
    · rw [if_pos hab, ← hab]; exact h2.agreeD a ha
    · rw [if_neg hab]
      apply h2.zeroD a b ha hb
      rintro ⟨h3, _⟩; exact hab h3

end ldltComplete

/-! ### naturality in the element type -/

section natural
variable {α β : Type}
  [Add α] [Sub α] [Mul α] [Div α] [Neg α] [Zero α] [One α] [RealFns α] [NumOrd α]
  [Add β] [Sub β] [Mul β] [Div β] [Neg β] [Zero β] [One β] [RealFns β] [NumOrd β]

/-- a map between element types that commutes with everything the symmetric factorisations use -/
structure NumHom (φ : α → β) : Prop where
  zero : φ 0 = 0
  one : φ 1 = 1
  add : ∀ a b, φ (a + b) = φ a + φ b
  sub : ∀ a b, φ (a - b) = φ a - φ b
  mul : ∀ a b, φ (a * b) = φ a * φ b
  div : ∀ a b, φ (a / b) = φ a / φ b
  sqrt : ∀ a, φ (RealFns.sqrt a) = RealFns.sqrt (φ a)
  le : ∀ a b, NumOrd.le (φ a) (φ b) = NumOrd.le a b
  eq : ∀ a b, NumOrd.eq (φ a) (φ b) = NumOrd.eq a b

/-- entrywise image of a tensor -/
def mapM (φ : α → β) (M : Matrix α) : Matrix β := ⟨M.data.map φ, M.rows, M.columns⟩

variable {φ : α → β}

theorem get_mapM (h : NumHom φ) (M : Matrix α) (i j : ℕ) : get (mapM φ M) i j = φ (get M i j) := by
  simp only [get, mapM, Matrix.getIndex, List.getD_eq_getElem?_getD, List.getElem?_map]
  cases M.data[j + i * M.columns]? <;> simp [h.zero]

theorem set_mapM (M : Matrix α) (i j : ℕ) (v : α) : set (mapM φ M) i j (φ v) = mapM φ (set M i j v) := by
  simp [set, mapM, Matrix.getIndex, List.map_set]

theorem fill_mapM (h : NumHom φ) (r c : ℕ) : (fill r c (0 : β)) = mapM φ (fill r c (0 : α)) := by
  simp [fill, mapM, h.zero]

theorem forRange_map {σ τ : Type} (g : σ → τ) (f : ℕ → σ → Option σ) (f' : ℕ → τ → Option τ)
    (hf : ∀ k s, f' k (g s) = (f k s).map g) (n : ℕ) (s : σ) :
    forRange n f' (g s) = (forRange n f s).map g := by
  induction n with
  | zero => simp [forRange_zero]
  | succ n ih =>
    rw [forRange_succ, forRange_succ, ih]
    cases forRange n f s with
    | none => rfl
    | some t => simp [hf]

theorem foldRange_map {σ τ : Type} (g : σ → τ) (f : ℕ → σ → σ) (f' : ℕ → τ → τ)
    (hf : ∀ k s, f' k (g s) = g (f k s)) (n : ℕ) (s : σ) :
    foldRange n f' (g s) = g (foldRange n f s) := by
  induction n with
  | zero => simp [foldRange_zero]
  | succ n ih => rw [foldRange_succ, foldRange_succ, ih, hf]

theorem cholSum_mapM (h : NumHom φ) (L : Matrix α) (i j : ℕ) :
    cholSum (mapM φ L) i j = φ (cholSum L i j) := by
  unfold cholSum
  rw [← h.zero]
  apply foldRange_map φ
  intro k s
  rw [get_mapM h, get_mapM h, h.add, h.mul]

theorem cholEntry_mapM (h : NumHom φ) (A L : Matrix α) (i j : ℕ) :
    cholEntry (mapM φ A) (mapM φ L) i j = (cholEntry A L i j).map (mapM φ) := by
  unfold cholEntry
  simp only [cholSum_mapM h, get_mapM h, ← h.sub, ← h.zero, h.le]
  by_cases hij : i = j
  · simp only [hij, if_true]
    by_cases hle : NumOrd.le (get A j j - cholSum L j j) 0 = true
    · simp [hle]
    · simp only [hle, Bool.false_eq_true, if_false, Option.map_some]
      rw [← h.sqrt, set_mapM]
  · simp only [hij, if_false, Option.map_some]
    rw [← h.one, ← h.div, ← h.mul, set_mapM]

/-- **Cholesky is natural in the element type**: a map `φ` between element types that commutes
    with `+ − × ÷ 0 1 sqrt` and with the comparisons commutes with the factorisation — presence and
    every entry.  (E.g. the number part of a dual number: the value of the factor over `Trace<T>`
    is the factor of the values.) -/
theorem cholesky_natural (h : NumHom φ) (A : Matrix α) :
    cholesky (mapM φ A) = (cholesky A).map (mapM φ) := by
  unfold cholesky
  by_cases hsq : A.rows = A.columns
  · have h1 : (mapM φ A).rows = (mapM φ A).columns := hsq
    simp only [hsq, h1, ne_eq, not_true_eq_false, if_false]
    show forRange A.columns _ (fill A.columns A.columns (0 : β)) = _
    rw [fill_mapM h]
    apply forRange_map (mapM φ)
    intro i L
    unfold cholRow
    apply forRange_map (mapM φ)
    intro j L'
    exact cholEntry_mapM h A L' i j
  · have h1 : ¬ (mapM φ A).rows = (mapM φ A).columns := hsq
    simp [hsq, h1]

theorem ldltSum_mapM (h : NumHom φ) (L D : Matrix α) (i j : ℕ) :
    ldltSum (mapM φ L) (mapM φ D) i j = φ (ldltSum L D i j) := by
  unfold ldltSum
  rw [← h.zero]
  apply foldRange_map φ
  intro k s
  rw [get_mapM h, get_mapM h, get_mapM h, h.add, h.mul, h.mul]

theorem ldltEntry_mapM (h : NumHom φ) (A D : Matrix α) (j t : ℕ) (L : Matrix α) :
    ldltEntry (mapM φ A) (mapM φ D) j t (mapM φ L) = mapM φ (ldltEntry A D j t L) := by
  unfold ldltEntry
  simp only [ldltSum_mapM h, get_mapM h]
  by_cases ht : j + t = j
  · simp only [ht, if_true]
    rw [← h.one, set_mapM]
  · simp only [ht, if_false]
    rw [← h.sub, ← h.one, ← h.div, ← h.mul, set_mapM]

theorem ldltColumn_mapM (h : NumHom φ) (A : Matrix α) (n j : ℕ) (s : Matrix α × Matrix α) :
    ldltColumn (mapM φ A) n j (mapM φ s.1, mapM φ s.2)
      = (ldltColumn A n j s).map (fun s => (mapM φ s.1, mapM φ s.2)) := by
  obtain ⟨L, D⟩ := s
  unfold ldltColumn
  simp only [ldltSum_mapM h, get_mapM h, ← h.sub, ← h.zero, h.eq]
  by_cases hz : NumOrd.eq (get A j j - ldltSum L D j j) 0 = true
  · simp [hz]
  · simp only [hz, Bool.false_eq_true, if_false, Option.map_some, Option.some.injEq, Prod.mk.injEq]
    simp only [set_mapM, and_true]
    apply foldRange_map (mapM φ)
    intro t L'
    exact ldltEntry_mapM h A _ j t L'

/-- **LDLᵀ is natural in the element type** (as `cholesky_natural`; no `sqrt` involved). -/
theorem ldlt_natural (h : NumHom φ) (A : Matrix α) :
    ldlt (mapM φ A) = (ldlt A).map (fun s => (mapM φ s.1, mapM φ s.2)) := by
  unfold ldlt
  by_cases hsq : A.rows = A.columns
  · have h1 : (mapM φ A).rows = (mapM φ A).columns := hsq
    simp only [hsq, h1, ne_eq, not_true_eq_false, if_false]
    show forRange A.columns _ (fill A.columns A.columns (0 : β), fill A.columns A.columns (0 : β)) = _
    rw [fill_mapM h]
    exact forRange_map (fun s : Matrix α × Matrix α => (mapM φ s.1, mapM φ s.2)) _ _
      (fun j s => ldltColumn_mapM h A A.columns j s) A.columns
      (fill A.columns A.columns (0 : α), fill A.columns A.columns (0 : α))
  · have h1 : ¬ (mapM φ A).rows = (mapM φ A).columns := hsq
    simp [hsq, h1]


/-- the number part of a dual number commutes with everything the factorisations use -/
theorem dualNumber_hom {R : Type} [Add R] [Sub R] [Mul R] [Div R] [Neg R] [Zero R] [One R]
    [RealFns R] [NumOrd R] : NumHom (Dual.number : Dual R → R) :=
  ⟨rfl, rfl, fun _ _ => rfl, fun _ _ => rfl, fun _ _ => rfl, fun _ _ => rfl, fun _ => rfl,
    fun _ _ => rfl, fun _ _ => rfl⟩

end natural

/-! ### bridge to Mathlib matrices -/

/-- the `n × m` Mathlib matrix of the entries of a model tensor -/
def toMat {K : Type} [Zero K] (n m : ℕ) (M : Matrix K) : _root_.Matrix (Fin n) (Fin m) K :=
  fun i j => get M i j

@[simp] theorem toMat_apply {K : Type} [Zero K] (n m : ℕ) (M : Matrix K) (i : Fin n) (j : Fin m) :
    toMat n m M i j = get M i j := rfl

/-! ### lists, scalar products and matrix products as `Finset` sums -/

section lists
variable {K : Type} [Field K]

theorem foldl_add_eq_sum (p : K) (ps : List K) : ps.foldl (· + ·) p = p + ps.sum := by
  induction ps generalizing p with
  | nil => simp
  | cons a l ih => simp [ih, add_assoc]

theorem sum_map_range (F : ℕ → K) (n : ℕ) : ((List.range n).map F).sum = ∑ k ∈ range n, F k := by
  induction n with
  | zero => simp
  | succ n ih => simp [List.range_succ, sum_range_succ, ih]

theorem zipWith_map_map {α β γ δ} (h : β → γ → δ) (f : α → β) (g : α → γ) (l : List α) :
    List.zipWith h (l.map f) (l.map g) = l.map (fun x => h (f x) (g x)) := by
  induction l with
  | nil => rfl
  | cons a l ih => simp [ih]

theorem dot_eq_sum (xs ys : List K) : dot xs ys = (List.zipWith (· * ·) xs ys).sum := by
  unfold dot
  split
  · next h => simp [h]
  · next p ps h => rw [h, foldl_add_eq_sum, List.sum_cons]

theorem dot_map_range (f g : ℕ → K) (n : ℕ) :
    dot ((List.range n).map f) ((List.range n).map g) = ∑ k ∈ range n, f k * g k := by
  rw [dot_eq_sum, zipWith_map_map, sum_map_range]

theorem get_matMul {n m k : ℕ} {l r : Matrix K} (hl : Shaped n m l) (hr : Shaped m k r)
    {i j : ℕ} (hi : i < n) (hj : j < k) :
    get (matMul l r) i j = ∑ t ∈ range m, get l i t * get r t j := by
  unfold matMul
  rw [hl.1, hr.2.1, get_ofFn _ _ _ _ _ hi hj]
  unfold row col
  rw [hl.2.1, hr.1, dot_map_range]

theorem shaped_matMul {n m k : ℕ} {l r : Matrix K} (hl : Shaped n m l) (hr : Shaped m k r) :
    Shaped n k (matMul l r) := by
  unfold matMul; rw [hl.1, hr.2.1]; exact shaped_ofFn _ _ _

theorem toMat_matMul {n m k : ℕ} {l r : Matrix K} (hl : Shaped n m l) (hr : Shaped m k r) :
    toMat n k (matMul l r) = toMat n m l * toMat m k r := by
  ext i j
  rw [toMat_apply, get_matMul hl hr i.isLt j.isLt, Matrix.mul_apply]
  exact (Fin.sum_univ_eq_sum_range (fun t => get l i t * get r t j) m).symm

theorem sumSq_eq (x : List K) : sumSq x = ∑ t ∈ range x.length, x.getD t 0 * x.getD t 0 := by
  unfold sumSq
  rw [foldl_add_eq_sum, zero_add]
  induction x with
  | nil => simp
  | cons a l ih =>
    rw [List.map_cons, List.sum_cons, ih, List.length_cons, sum_range_succ']
    simp [add_comm]

end lists

/-! ### Cholesky over ℝ -/

section choleskyReal
open scoped EasyMl.RealModel

theorem cholesky_real {A L : Matrix ℝ} (h : cholesky A = some L) :
    A.rows = A.columns ∧ Shaped A.rows A.rows L ∧
      (∀ a b, a < A.rows → b < A.rows → a < b → get L a b = 0) ∧
      (∀ a, a < A.rows → 0 < get L a a) ∧
      (∀ a b, a < A.rows → b ≤ a → ∑ k ∈ range A.rows, get L a k * get L b k = get A a b) := by
  obtain ⟨hsq, hsh, hzero, hok⟩ := cholesky_inv h
  have hpos : ∀ a, a < A.rows → 0 < get L a a := by
    intro a ha
    have := hok a a ha (le_refl a)
    unfold CholEntryOK at this
    rw [if_pos rfl] at this
    obtain ⟨h1, h2⟩ := this
    rw [h2]
    have : ¬ (get A a a - ∑ k ∈ range a, get L a k * get L a k ≤ 0) := by
      intro hle
      have := (RealModel.le_eq _ _).mpr hle
      rw [h1] at this; exact Bool.false_ne_true this
    exact Real.sqrt_pos.mpr (not_le.mp this)
  refine ⟨hsq, hsh, hzero, hpos, ?_⟩
  intro a b ha hba
  have hb : b < A.rows := by omega
  -- the terms beyond `b` vanish because `L` is lower triangular
  have hsplit : ∑ k ∈ range A.rows, get L a k * get L b k
      = ∑ k ∈ range (b + 1), get L a k * get L b k := by
    symm
    apply sum_subset (range_subset_range.mpr (by omega))
    intro k hk hk'
    have hk1 := mem_range.mp hk
    have hk2 : ¬ k < b + 1 := fun hh => hk' (mem_range.mpr hh)
    rw [hzero b k hb hk1 (by omega), mul_zero]
  rw [hsplit, sum_range_succ]
  have := hok a b ha hba
  unfold CholEntryOK at this
  by_cases hab : a = b
  · subst hab
    rw [if_pos rfl] at this
    obtain ⟨h1, h2⟩ := this
    have hnn : 0 ≤ get A a a - ∑ k ∈ range a, get L a k * get L a k := by
      by_contra hneg
      have hle : get A a a - ∑ k ∈ range a, get L a k * get L a k ≤ 0 := by linarith
      have := (RealModel.le_eq _ _).mpr hle
      rw [h1] at this; exact Bool.false_ne_true this
    have hsq' : get L a a * get L a a = get A a a - ∑ k ∈ range a, get L a k * get L a k := by
      rw [h2]; exact Real.mul_self_sqrt hnn
    linarith
  · rw [if_neg hab] at this
    have hbb : get L b b ≠ 0 := ne_of_gt (hpos b hb)
    rw [this]
    field_simp
    ring


/-- the factor under construction agrees with the given factor `m` on the entries written so
    far and is zero elsewhere -/
structure CholAgree (n : ℕ) (m : ℕ → ℕ → ℝ) (L : Matrix ℝ) (i j : ℕ) : Prop where
  shaped : Shaped n n L
  zero : ∀ a b, a < n → b < n → ¬ CholDone i j a b → get L a b = 0
  agree : ∀ a b, a < n → CholDone i j a b → get L a b = m a b

theorem cholEntry_complete {n : ℕ} {A L : Matrix ℝ} {m : ℕ → ℕ → ℝ} {i j : ℕ}
    (hlow : ∀ a b, a < b → m a b = 0) (hpos : ∀ a, a < n → 0 < m a a)
    (hA : ∀ a b, a < n → b ≤ a → get A a b = ∑ k ∈ range n, m a k * m b k)
    (hinv : CholAgree n m L i j) (hi : i < n) (hj : j ≤ i) :
    ∃ L', cholEntry A L i j = some L' ∧ CholAgree n m L' i (j + 1) := by
  have hjn : j < n := by omega
  have hS : cholSum L i j = ∑ k ∈ range j, m i k * m j k := by
    rw [cholSum_eq]
    apply sum_congr rfl
    intro k hk
    have hk := mem_range.mp hk
    rw [hinv.agree i k hi ⟨by omega, Or.inr ⟨rfl, hk⟩⟩]
    by_cases hji : j = i
    · subst hji; rw [hinv.agree j k hi ⟨by omega, Or.inr ⟨rfl, hk⟩⟩]
    · rw [hinv.agree j k hjn ⟨by omega, Or.inl (by omega)⟩]
  have hAij : get A i j = ∑ k ∈ range j, m i k * m j k + m i j * m j j := by
    rw [hA i j hi hj]
    have : ∑ k ∈ range n, m i k * m j k = ∑ k ∈ range (j + 1), m i k * m j k := by
      symm
      apply sum_subset (range_subset_range.mpr (by omega))
      intro k _ hk'
      have : ¬ k < j + 1 := fun hh => hk' (mem_range.mpr hh)
      rw [hlow j k (by omega), mul_zero]
    rw [this, sum_range_succ]
  -- the value the step stores is `m i j`
  have hval : ∃ L', cholEntry A L i j = some L' ∧ L' = set L i j (m i j) := by
    unfold cholEntry
    by_cases hij : i = j
    · subst hij
      simp only [if_true]
      have he : get A i i - cholSum L i i = m i i * m i i := by rw [hS, hAij]; ring
      have hmp := hpos i hi
      have hnle : ¬ (m i i * m i i ≤ 0) := not_le.mpr (mul_pos hmp hmp)
      have hb : NumOrd.le (get A i i - cholSum L i i) (0 : ℝ) = false := by
        rw [he]
        cases hbb : NumOrd.le (m i i * m i i) (0 : ℝ) with
        | false => rfl
        | true => exact absurd ((RealModel.le_eq _ _).mp hbb) hnle
      rw [hb]
      simp only [Bool.false_eq_true, if_false]
      refine ⟨_, rfl, ?_⟩
      rw [he, RealModel.sqrt_eq, Real.sqrt_mul_self hmp.le]
    · simp only [hij, if_false]
      refine ⟨_, rfl, ?_⟩
      have hjj : get L j j = m j j := hinv.agree j j hjn ⟨le_refl j, Or.inl (by omega)⟩
      have hne : m j j ≠ 0 := ne_of_gt (hpos j hjn)
      rw [hS, hAij, hjj]
      congr 1
      field_simp
      ring
  obtain ⟨L', h1, h2⟩ := hval
  refine ⟨L', h1, ?_⟩
  subst h2
  have hget : ∀ a b, b < n → get (set L i j (m i j)) a b = if a = i ∧ b = j then m i j else get L a b :=
    fun a b hb => get_set hinv.shaped hi hjn a hb _
  refine ⟨shaped_set hinv.shaped _ _ _, ?_, ?_⟩
  · intro a b ha hb hnd
    rw [hget a b hb, if_neg]
    · apply hinv.zero a b ha hb
      rintro ⟨h1, h2⟩; exact hnd ⟨h1, by omega⟩
    · rintro ⟨rfl, rfl⟩; exact hnd ⟨hj, Or.inr ⟨rfl, Nat.lt_succ_self _⟩⟩
  · intro a b ha hd
    obtain ⟨hba, hd'⟩ := hd
    rw [hget a b (by omega)]
    by_cases hab : a = i ∧ b = j
    · obtain ⟨rfl, rfl⟩ := hab; rw [if_pos ⟨rfl, rfl⟩]
    · rw [if_neg hab]
      exact hinv.agree a b ha ⟨hba, by omega⟩

theorem cholRow_complete {n : ℕ} {A L : Matrix ℝ} {m : ℕ → ℕ → ℝ} {i : ℕ}
    (hlow : ∀ a b, a < b → m a b = 0) (hpos : ∀ a, a < n → 0 < m a a)
    (hA : ∀ a b, a < n → b ≤ a → get A a b = ∑ k ∈ range n, m a k * m b k)
    (hinv : CholAgree n m L i 0) (hi : i < n) :
    ∃ L', cholRow A i L = some L' ∧ CholAgree n m L' (i + 1) 0 := by
  obtain ⟨L', h1, h2⟩ := forRange_progress (fun j L => CholAgree n m L i j)
    (fun j L => cholEntry A L i j) (i + 1) L hinv
    (fun k t hk hP => cholEntry_complete hlow hpos hA hP hi (by omega))
  refine ⟨L', h1, h2.shaped, ?_, ?_⟩
  · intro a b ha hb hnd
    apply h2.zero a b ha hb
    rintro ⟨h3, h4⟩; exact hnd ⟨h3, by omega⟩
  · intro a b ha hd
    apply h2.agree a b ha
    obtain ⟨h3, h4⟩ := hd
    exact ⟨h3, by omega⟩

/-- **Completeness with an explicit factor**: if `A = M·Mᵀ` on the lower triangle for a lower
    triangular `M` with positive diagonal, the model returns exactly `M`. -/
theorem cholesky_complete_aux {A : Matrix ℝ} {m : ℕ → ℕ → ℝ} (hsq : A.rows = A.columns)
    (hlow : ∀ a b, a < b → m a b = 0) (hpos : ∀ a, a < A.rows → 0 < m a a)
    (hA : ∀ a b, a < A.rows → b ≤ a → get A a b = ∑ k ∈ range A.rows, m a k * m b k) :
    ∃ L, cholesky A = some L ∧ Shaped A.rows A.rows L ∧
      ∀ a b, a < A.rows → b < A.rows → get L a b = m a b := by
  unfold cholesky
  rw [if_neg (by simpa using hsq), ← hsq]
  have h0 : CholAgree A.rows m (fill A.rows A.rows (0 : ℝ)) 0 0 := by
    refine ⟨shaped_fill _ _ _, fun a b ha hb _ => get_fill _ _ _ _ _ ha hb, ?_⟩
    rintro a b _ ⟨_, h2⟩; omega
  obtain ⟨L, h1, h2⟩ := forRange_progress (fun i L => CholAgree A.rows m L i 0)
    (fun i L => cholRow A i L) A.rows _ h0
    (fun k t hk hP => cholRow_complete hlow hpos hA hP hk)
  refine ⟨L, h1, h2.shaped, ?_⟩
  intro a b ha hb
  by_cases hba : b ≤ a
  · exact h2.agree a b ha ⟨hba, Or.inl ha⟩
  · rw [hlow a b (by omega)]
    apply h2.zero a b ha hb
    rintro ⟨h3, _⟩; omega



/-- a lower-triangular real matrix with positive diagonal gives a positive definite `L·Lᵀ` -/
theorem posDef_of_lower {n : ℕ} (L : _root_.Matrix (Fin n) (Fin n) ℝ)
    (hlow : ∀ i j, i < j → L i j = 0) (hpos : ∀ i, 0 < L i i) : (L * L.transpose).PosDef := by
  have hdet : L.det = ∏ i, L i i := Matrix.det_of_isLowerTriangular L (fun i j hij => hlow i j hij)
  have hunit : IsUnit L := by
    rw [Matrix.isUnit_iff_isUnit_det, hdet, isUnit_iff_ne_zero]
    exact Finset.prod_ne_zero_iff.mpr (fun i _ => ne_of_gt (hpos i))
  have hinj : Function.Injective L.vecMul := Matrix.vecMul_injective_iff_isUnit.mpr hunit
  have := Matrix.PosDef.mul_conjTranspose_self L hinj
  rwa [Matrix.conjTranspose_eq_transpose_of_trivial] at this

end choleskyReal

/-! ### Householder reflections over ℝ -/

section householder
open scoped EasyMl.RealModel


/-- entries of the normalised vector: `v_t = u_t / ‖u‖` -/
theorem householderV_getD (x : List ℝ) (t : ℕ) :
    (householderV x).getD t 0
      = (householderU x).getD t 0 / Real.sqrt (sumSq (householderU x)) := by
  unfold householderV euclideanLength
  simp only [RealModel.sqrt_eq]
  rw [List.getD_eq_getElem?_getD, List.getD_eq_getElem?_getD, List.getElem?_map]
  cases (householderU x)[t]? <;> simp

theorem householderU_length (x : List ℝ) : (householderU x).length = x.length := by
  simp [householderU]

theorem householderV_length (x : List ℝ) : (householderV x).length = x.length := by
  simp [householderV, householderU_length]

/-- the normalised vector has unit length, or is zero (when `u = 0`: Lean's `x / 0 = 0`) -/
theorem householderV_norm (x : List ℝ) :
    (∑ t ∈ range x.length, (householderV x).getD t 0 * (householderV x).getD t 0 = 1) ∨
      (∀ t, (householderV x).getD t 0 = 0) := by
  have hs := sumSq_eq (householderU x)
  rw [householderU_length] at hs
  have hnn : 0 ≤ sumSq (householderU x) := by
    rw [hs]; exact sum_nonneg (fun t _ => mul_self_nonneg _)
  by_cases h0 : sumSq (householderU x) = 0
  · right
    intro t
    rw [householderV_getD, h0, Real.sqrt_zero, div_zero]
  · left
    have hpos : 0 < sumSq (householderU x) := lt_of_le_of_ne hnn (Ne.symm h0)
    have hsq : Real.sqrt (sumSq (householderU x)) * Real.sqrt (sumSq (householderU x))
        = sumSq (householderU x) := Real.mul_self_sqrt hnn
    have hne : Real.sqrt (sumSq (householderU x)) ≠ 0 := ne_of_gt (Real.sqrt_pos.mpr hpos)
    simp only [householderV_getD]
    have : ∀ t, (householderU x).getD t 0 / Real.sqrt (sumSq (householderU x)) *
        ((householderU x).getD t 0 / Real.sqrt (sumSq (householderU x)))
        = ((householderU x).getD t 0 * (householderU x).getD t 0) / sumSq (householderU x) := by
      intro t
      rw [div_mul_div_comm, hsq]
    simp only [this]
    rw [← Finset.sum_div, ← hs]
    exact div_self h0

/-- entries of the householder matrix: `δ_ij − (v_i·v_j)·2` -/
theorem get_householder (x : List ℝ) {i j : ℕ} (hi : i < x.length) (hj : j < x.length) :
    get (householder x) i j
      = (if i = j then 1 else 0) - (householderV x).getD i 0 * (householderV x).getD j 0 * (1 + 1) := by
  unfold householder
  simp only []
  rw [get_ofFn _ _ _ _ _ hi hj]
  have hc : Shaped x.length 1 (⟨householderV x, x.length, 1⟩ : Matrix ℝ) :=
    ⟨rfl, rfl, by simp [householderV_length]⟩
  have hr : Shaped 1 x.length (⟨householderV x, 1, x.length⟩ : Matrix ℝ) :=
    ⟨rfl, rfl, by simp [householderV_length]⟩
  rw [get_matMul hc hr hi hj]
  unfold identity
  rw [get_ofFn _ _ _ _ _ hi hj]
  simp [get, Matrix.getIndex]

theorem shaped_householder (x : List ℝ) : Shaped x.length x.length (householder x) := by
  unfold householder; exact shaped_ofFn _ _ _

end householder

/-! ### the QR loop over ℝ -/

section qr
open scoped EasyMl.RealModel

/-- `H = 1 − 2·w wᵀ` with `‖w‖ = 1` (or `w = 0`) is symmetric and an involution -/
theorem reflector_algebra {n : ℕ} (w : Fin n → ℝ) (hw : w ⬝ᵥ w = 1 ∨ w = 0) :
    let H : _root_.Matrix (Fin n) (Fin n) ℝ := 1 - (2 : ℝ) • Matrix.vecMulVec w w
    H.transpose = H ∧ H * H = 1 := by
  intro H
  have hPt : (Matrix.vecMulVec w w).transpose = Matrix.vecMulVec w w := by
    ext i j; simp [Matrix.vecMulVec_apply, mul_comm]
  constructor
  · simp only [H, Matrix.transpose_sub, Matrix.transpose_one, Matrix.transpose_smul, hPt]
  · have hPP : Matrix.vecMulVec w w * Matrix.vecMulVec w w = (w ⬝ᵥ w) • Matrix.vecMulVec w w := by
      rw [Matrix.vecMulVec_mul_vecMulVec]
      ext i j; simp [Matrix.vecMulVec_apply]; ring
    simp only [H]
    simp only [sub_mul, mul_sub, one_mul, mul_one, Matrix.smul_mul, Matrix.mul_smul, hPP]
    rcases hw with h1 | h0
    · rw [h1, one_smul]
      ext i j
      simp only [Matrix.sub_apply, Matrix.smul_apply, smul_eq_mul, Matrix.one_apply]
      ring
    · subst h0
      ext i j
      simp

/-- the padded unit vector of the `c`-th reflection -/
noncomputable def reflVec (rows c : ℕ) (r : Matrix ℝ) (i : ℕ) : ℝ :=
  if c ≤ i then
    (householderV ((List.range (rows - c)).map fun t => get r (c + t) c)).getD (i - c) 0
  else 0

theorem get_reflection {rows c : ℕ} (r : Matrix ℝ) (hc : c ≤ rows) {i j : ℕ} (hi : i < rows)
    (hj : j < rows) :
    get (reflection rows c r) i j
      = (if i = j then 1 else 0) - reflVec rows c r i * reflVec rows c r j * (1 + 1) := by
  unfold reflection
  simp only []
  rw [get_ofFn _ _ _ _ _ hi hj]
  by_cases hij : c ≤ i ∧ c ≤ j
  · obtain ⟨h1, h2⟩ := hij
    rw [if_pos ⟨h1, h2⟩, get_householder _ (by simp; omega) (by simp; omega)]
    unfold reflVec
    rw [if_pos h1, if_pos h2]
    have : (i - c = j - c) ↔ i = j := by omega
    simp only [this]
  · rw [if_neg (by simpa using hij)]
    unfold identity
    rw [get_ofFn _ _ _ _ _ hi hj]
    unfold reflVec
    by_cases h1 : c ≤ i
    · have h2 : ¬ c ≤ j := fun h => hij ⟨h1, h⟩
      simp [h2]
    · simp [h1]

theorem reflVec_norm (rows c : ℕ) (r : Matrix ℝ) (hc : c ≤ rows) :
    (∑ i ∈ range rows, reflVec rows c r i * reflVec rows c r i = 1) ∨
      (∀ i, reflVec rows c r i = 0) := by
  set x := (List.range (rows - c)).map fun t => get r (c + t) c with hx
  have hlen : x.length = rows - c := by simp [hx]
  rcases householderV_norm x with h1 | h0
  · left
    have hsplit : rows = c + (rows - c) := by omega
    rw [hsplit, sum_range_add]
    have hz : ∑ i ∈ range c, reflVec (c + (rows - c)) c r i * reflVec (c + (rows - c)) c r i = 0 := by
      apply sum_eq_zero
      intro i hi
      have := mem_range.mp hi
      simp [reflVec, show ¬ c ≤ i by omega]
    rw [hz, zero_add, ← hsplit]
    rw [hlen] at h1
    rw [← h1]
    apply sum_congr rfl
    intro t _
    simp [reflVec, hx]
  · right
    intro i
    unfold reflVec
    split
    · exact h0 _
    · rfl

theorem shaped_reflection (rows c : ℕ) (r : Matrix ℝ) : Shaped rows rows (reflection rows c r) := by
  unfold reflection; exact shaped_ofFn _ _ _

/-- every reflection of the QR loop is symmetric and an involution -/
theorem reflection_orthogonal (rows c : ℕ) (r : Matrix ℝ) (hc : c ≤ rows) :
    (toMat rows rows (reflection rows c r)).transpose = toMat rows rows (reflection rows c r) ∧
    toMat rows rows (reflection rows c r) * toMat rows rows (reflection rows c r) = 1 := by
  have hform : toMat rows rows (reflection rows c r)
      = 1 - (2 : ℝ) • Matrix.vecMulVec (fun i : Fin rows => reflVec rows c r i)
          (fun i : Fin rows => reflVec rows c r i) := by
    ext i j
    rw [toMat_apply, get_reflection r hc i.isLt j.isLt]
    simp only [Matrix.sub_apply, Matrix.one_apply, Matrix.smul_apply, Matrix.vecMulVec_apply,
      smul_eq_mul, Fin.ext_iff]
    ring
  rw [hform]
  apply reflector_algebra
  rcases reflVec_norm rows c r hc with h1 | h0
  · left
    unfold dotProduct
    rw [Fin.sum_univ_eq_sum_range (fun i => reflVec rows c r i * reflVec rows c r i) rows]
    exact h1
  · right
    funext i
    exact h0 i


/-- the accumulated `Q` as a Mathlib matrix (`None` = no reflection yet = the identity) -/
noncomputable def qMat (rows : ℕ) (q : Option (Matrix ℝ)) : _root_.Matrix (Fin rows) (Fin rows) ℝ :=
  match q with
  | none => 1
  | some q => toMat rows rows q

/-- invariant of the QR loop -/
structure QrInv (rows cols : ℕ) (A : _root_.Matrix (Fin rows) (Fin cols) ℝ)
    (s : Option (Matrix ℝ) × Matrix ℝ) : Prop where
  shapedR : Shaped rows cols s.2
  shapedQ : ∀ q, s.1 = some q → Shaped rows rows q
  product : qMat rows s.1 * toMat rows cols s.2 = A
  orthogonal : (qMat rows s.1).transpose * qMat rows s.1 = 1

theorem qrStep_inv {rows cols c : ℕ} {A : _root_.Matrix (Fin rows) (Fin cols) ℝ}
    {s : Option (Matrix ℝ) × Matrix ℝ} (hinv : QrInv rows cols A s) (hc : c ≤ rows) :
    QrInv rows cols A (qrStep rows c s) := by
  obtain ⟨q, r⟩ := s
  obtain ⟨hT, hHH⟩ := reflection_orthogonal rows c r hc
  have hsh := shaped_reflection rows c r
  have hR : toMat rows cols (matMul (reflection rows c r) r)
      = toMat rows rows (reflection rows c r) * toMat rows cols r := toMat_matMul hsh hinv.shapedR
  have hQ : qMat rows (qrStep rows c (q, r)).1 = qMat rows q * toMat rows rows (reflection rows c r) := by
    cases q with
    | none => simp [qrStep, qMat]
    | some qp =>
      simp only [qrStep, qMat]
      exact toMat_matMul (hinv.shapedQ qp rfl) hsh
  have hR' : (qrStep rows c (q, r)).2 = matMul (reflection rows c r) r := by
    cases q <;> rfl
  refine ⟨?_, ?_, ?_, ?_⟩
  · rw [hR']; exact shaped_matMul hsh hinv.shapedR
  · intro q' hq'
    cases q with
    | none => simp [qrStep] at hq'; rw [← hq']; exact hsh
    | some qp =>
      simp [qrStep] at hq'; rw [← hq']
      exact shaped_matMul (hinv.shapedQ qp rfl) hsh
  · rw [hQ, hR', hR]
    have := hinv.product
    simp only [] at this
    rw [Matrix.mul_assoc, ← Matrix.mul_assoc (toMat rows rows (reflection rows c r)), hHH,
      Matrix.one_mul, this]
  · rw [hQ, Matrix.transpose_mul, hT, Matrix.mul_assoc,
      ← Matrix.mul_assoc (qMat rows q).transpose, hinv.orthogonal, Matrix.one_mul, hHH]

theorem toMat_identity (n : ℕ) : toMat n n (identity n : Matrix ℝ) = 1 := by
  ext i j
  rw [toMat_apply]
  unfold identity
  rw [get_ofFn _ _ _ _ _ i.isLt j.isLt]
  simp [Matrix.one_apply, Fin.ext_iff]

/-- **QR: product and orthogonality**, for every real `M × N` input with `M ≥ N` -/
theorem qr_real {A Q R : Matrix ℝ} (h : qr A = some (Q, R)) :
    A.columns ≤ A.rows ∧ Shaped A.rows A.rows Q ∧ Shaped A.rows A.columns R ∧
    toMat A.rows A.rows Q * toMat A.rows A.columns R = toMat A.rows A.columns A ∧
    (toMat A.rows A.rows Q).transpose * toMat A.rows A.rows Q = 1 := by
  unfold qr at h
  by_cases hw : A.columns > A.rows
  · simp [hw] at h
  · simp only [hw, if_false, Option.some.injEq, Prod.mk.injEq] at h
    obtain ⟨hQ, hR⟩ := h
    have h0 : QrInv A.rows A.columns (toMat A.rows A.columns A)
        (none, ofFn A.rows A.columns (get A)) := by
      refine ⟨shaped_ofFn _ _ _, ?_, ?_, ?_⟩
      · intro q hq; cases hq
      · simp only [qMat, Matrix.one_mul]
        ext i j
        rw [toMat_apply, toMat_apply, get_ofFn _ _ _ _ _ i.isLt j.isLt]
      · simp [qMat]
    have hinv := foldRange_inv (fun _ s => QrInv A.rows A.columns (toMat A.rows A.columns A) s)
      (fun c s => qrStep A.rows c s) (min (A.rows - 1) A.columns) _ h0
      (fun k t hk hP => qrStep_inv hP (by omega))
    change QrInv A.rows A.columns (toMat A.rows A.columns A) (qrLoop A) at hinv
    have hQm : toMat A.rows A.rows Q = qMat A.rows (qrLoop A).1 := by
      rw [← hQ]
      cases hq : (qrLoop A).1 with
      | none => simp [qMat, toMat_identity]
      | some q => simp [qMat]
    refine ⟨by omega, ?_, ?_, ?_, ?_⟩
    · rw [← hQ]
      cases hq : (qrLoop A).1 with
      | none =>
        simp only [Option.getD_none]
        unfold identity
        exact shaped_ofFn A.rows A.rows _
      | some q => exact hinv.shapedQ q hq
    · rw [← hR]; exact hinv.shapedR
    · rw [hQm, ← hR]; exact hinv.product
    · rw [hQm]; exact hinv.orthogonal


theorem householder_orthogonal_aux (x : List ℝ) :
    (toMat x.length x.length (householder x)).transpose = toMat x.length x.length (householder x) ∧
    toMat x.length x.length (householder x) * toMat x.length x.length (householder x) = 1 := by
  have hform : toMat x.length x.length (householder x)
      = 1 - (2 : ℝ) • Matrix.vecMulVec (fun i : Fin x.length => (householderV x).getD i 0)
          (fun i : Fin x.length => (householderV x).getD i 0) := by
    ext i j
    rw [toMat_apply, get_householder x i.isLt j.isLt]
    simp only [Matrix.sub_apply, Matrix.one_apply, Matrix.smul_apply, Matrix.vecMulVec_apply,
      smul_eq_mul, Fin.ext_iff]
    ring
  rw [hform]
  apply reflector_algebra
  rcases householderV_norm x with h1 | h0
  · left
    unfold dotProduct
    rw [Fin.sum_univ_eq_sum_range
      (fun i => (householderV x).getD i 0 * (householderV x).getD i 0) x.length]
    exact h1
  · right
    funext i
    exact h0 i

/-- For a non-zero column the vector `u = x ± ‖x‖·e₀` is non-zero: the sign choice adds two
    numbers of the same sign, so the normalisation `u / ‖u‖` divides by a positive number. -/
theorem sumSq_householderU_pos (x : List ℝ) (k : ℕ) (hk : x.getD k 0 ≠ 0) :
    0 < sumSq (householderU x) := by
  have hklen : k < x.length := by
    by_contra hge
    apply hk
    rw [List.getD_eq_getElem?_getD, List.getElem?_eq_none (by omega)]; rfl
  have hlen : 0 < x.length := by omega
  -- ‖x‖ > 0
  have hx : 0 < sumSq x := by
    rw [sumSq_eq]
    have hle : x.getD k 0 * x.getD k 0 ≤ ∑ t ∈ range x.length, x.getD t 0 * x.getD t 0 :=
      single_le_sum (f := fun t => x.getD t 0 * x.getD t 0) (fun t _ => mul_self_nonneg _)
        (mem_range.mpr hklen)
    have : 0 < x.getD k 0 * x.getD k 0 := mul_self_pos.mpr hk
    linarith
  have hnorm : 0 < Real.sqrt (sumSq x) := Real.sqrt_pos.mpr hx
  -- u₀ ≠ 0
  have hu0 : (householderU x).getD 0 0 ≠ 0 := by
    unfold householderU euclideanLength
    simp only [RealModel.sqrt_eq]
    rw [List.getD_eq_getElem?_getD, List.getElem?_set_self (by simpa using hlen)]
    simp only [Option.getD_some]
    by_cases hs : NumOrd.lt (0 : ℝ) (x.headD 0) = true
    · rw [if_pos hs]
      have := (RealModel.lt_eq _ _).mp hs
      linarith
    · rw [if_neg hs]
      have : ¬ (0 : ℝ) < x.headD 0 := fun h => hs ((RealModel.lt_eq _ _).mpr h)
      linarith
  rw [sumSq_eq, householderU_length]
  have hle : (householderU x).getD 0 0 * (householderU x).getD 0 0
      ≤ ∑ t ∈ range x.length, (householderU x).getD t 0 * (householderU x).getD t 0 :=
    single_le_sum (f := fun t => (householderU x).getD t 0 * (householderU x).getD t 0)
      (fun t _ => mul_self_nonneg _) (mem_range.mpr hlen)
  have : 0 < (householderU x).getD 0 0 * (householderU x).getD 0 0 := mul_self_pos.mpr hu0
  linarith


theorem householderU_getD_succ (x : List ℝ) (t : ℕ) :
    (householderU x).getD (t + 1) 0 = x.getD (t + 1) 0 := by
  unfold householderU
  simp only []
  rw [List.getD_eq_getElem?_getD, List.getD_eq_getElem?_getD, List.getElem?_set_ne (by omega)]

theorem householderU_getD_zero (x : List ℝ) (hx : 0 < x.length) :
    ∃ a : ℝ, a * a = sumSq x ∧ (householderU x).getD 0 0 = x.getD 0 0 + a := by
  have hnn : 0 ≤ sumSq x := by rw [sumSq_eq]; exact sum_nonneg (fun t _ => mul_self_nonneg _)
  have hs : Real.sqrt (sumSq x) * Real.sqrt (sumSq x) = sumSq x := Real.mul_self_sqrt hnn
  have hhead : x.headD 0 = x.getD 0 0 := by
    cases x with
    | nil => simp at hx
    | cons a l => simp
  unfold householderU euclideanLength
  simp only [RealModel.sqrt_eq]
  rw [List.getD_eq_getElem?_getD, List.getElem?_set_self (by simpa using hx)]
  simp only [Option.getD_some, hhead]
  by_cases hsg : NumOrd.lt (0 : ℝ) (x.getD 0 0) = true
  · rw [if_pos hsg]; exact ⟨_, hs, rfl⟩
  · rw [if_neg hsg]; exact ⟨_, by rw [neg_mul_neg]; exact hs, rfl⟩

/-- the reflection maps its own column to a multiple of `e₀`: every entry below the first
    becomes zero -/
theorem householder_annihilates (x : List ℝ) (t : ℕ) (ht : t + 1 < x.length) :
    x.getD (t + 1) 0 - (householderV x).getD (t + 1) 0 *
      (∑ k ∈ range x.length, (householderV x).getD k 0 * x.getD k 0) * (1 + 1) = 0 := by
  obtain ⟨m, hm⟩ : ∃ m, x.length = m + 1 := ⟨x.length - 1, by omega⟩
  obtain ⟨a, ha, hu0⟩ := householderU_getD_zero x (by omega)
  set q := sumSq (householderU x) with hq
  have hqs : q = ∑ k ∈ range x.length, (householderU x).getD k 0 * (householderU x).getD k 0 := by
    rw [hq, sumSq_eq, householderU_length]
  have hnn : 0 ≤ q := by rw [hqs]; exact sum_nonneg (fun t _ => mul_self_nonneg _)
  simp only [householderV_getD]
  rw [← hq, householderU_getD_succ]
  by_cases h0 : q = 0
  · -- `u = 0`: then `x` vanishes below its first entry and `v = 0`
    have hall := (sum_eq_zero_iff_of_nonneg (fun t _ => mul_self_nonneg _)).mp (hqs ▸ h0)
    have := hall (t + 1) (mem_range.mpr ht)
    rw [householderU_getD_succ] at this
    have hx0 : x.getD (t + 1) 0 = 0 := mul_self_eq_zero.mp this
    rw [h0, Real.sqrt_zero, hx0]
    simp
  · have hs : Real.sqrt q * Real.sqrt q = q := Real.mul_self_sqrt hnn
    have hsne : Real.sqrt q ≠ 0 := by
      intro h; rw [h, mul_zero] at hs; exact h0 hs.symm
    -- u·x = q / 2
    have hsum : ∑ k ∈ range x.length, (householderU x).getD k 0 / Real.sqrt q * x.getD k 0
        = (∑ k ∈ range x.length, (householderU x).getD k 0 * x.getD k 0) / Real.sqrt q := by
      rw [Finset.sum_div]
      exact sum_congr rfl (fun k _ => by ring)
    have hX : sumSq x = ∑ k ∈ range m, x.getD (k + 1) 0 * x.getD (k + 1) 0 + x.getD 0 0 * x.getD 0 0 := by
      rw [sumSq_eq, hm, sum_range_succ']
    have hq2 : q = ∑ k ∈ range m, x.getD (k + 1) 0 * x.getD (k + 1) 0
        + (x.getD 0 0 + a) * (x.getD 0 0 + a) := by
      rw [hqs, hm, sum_range_succ', hu0]
      congr 1
      exact sum_congr rfl (fun k _ => by rw [householderU_getD_succ])
    have hp : ∑ k ∈ range x.length, (householderU x).getD k 0 * x.getD k 0
        = ∑ k ∈ range m, x.getD (k + 1) 0 * x.getD (k + 1) 0 + (x.getD 0 0 + a) * x.getD 0 0 := by
      rw [hm, sum_range_succ', hu0]
      congr 1
      exact sum_congr rfl (fun k _ => by rw [householderU_getD_succ])
    have hhalf : ∑ k ∈ range x.length, (householderU x).getD k 0 * x.getD k 0 = q / 2 := by
      rw [hp, hq2]
      rw [hX] at ha
      linarith [ha]
    have hdiv : q / 2 / Real.sqrt q = Real.sqrt q / 2 := by
      rw [div_div, div_eq_div_iff (by simpa using hsne) (by norm_num)]
      linear_combination (-2 : ℝ) * hs
    rw [hsum, hhalf, hdiv]
    field_simp
    ring


/-- columns before `c` are already zero below the diagonal -/
def UpperUpTo (rows cols c : ℕ) (r : Matrix ℝ) : Prop :=
  Shaped rows cols r ∧ ∀ i j, i < rows → j < cols → j < c → j < i → get r i j = 0

/-- entries of `H·R` for a reflection `H = 1 − 2wwᵀ` -/
theorem get_reflection_mul {rows cols c : ℕ} {r : Matrix ℝ} (hr : Shaped rows cols r) (hc : c ≤ rows)
    {i j : ℕ} (hi : i < rows) (hj : j < cols) :
    get (matMul (reflection rows c r) r) i j
      = get r i j - reflVec rows c r i * (∑ k ∈ range rows, reflVec rows c r k * get r k j) * (1 + 1) := by
  rw [get_matMul (shaped_reflection rows c r) hr hi hj]
  have : ∀ k ∈ range rows, get (reflection rows c r) i k * get r k j
      = (if i = k then get r k j else 0) - reflVec rows c r i * (reflVec rows c r k * get r k j) * (1 + 1) := by
    intro k hk
    rw [get_reflection r hc hi (mem_range.mp hk)]
    split <;> ring
  rw [sum_congr rfl this, sum_sub_distrib, sum_ite_eq, if_pos (mem_range.mpr hi), ← sum_mul, ← mul_sum]

theorem reflVec_lt {rows c : ℕ} (r : Matrix ℝ) {i : ℕ} (hi : i < c) : reflVec rows c r i = 0 := by
  unfold reflVec; rw [if_neg (by omega)]

theorem qrStep_upper {rows cols c : ℕ} {r : Matrix ℝ} (h : UpperUpTo rows cols c r) (hc : c < rows) :
    UpperUpTo rows cols (c + 1) (matMul (reflection rows c r) r) := by
  obtain ⟨hr, hz⟩ := h
  refine ⟨shaped_matMul (shaped_reflection rows c r) hr, ?_⟩
  intro i j hi hj hjc hji
  rw [get_reflection_mul hr (le_of_lt hc) hi hj]
  by_cases hjc' : j < c
  · -- an earlier column: `w · r_j = 0`, nothing changes
    have hD : ∑ k ∈ range rows, reflVec rows c r k * get r k j = 0 := by
      apply sum_eq_zero
      intro k hk
      by_cases hkc : k < c
      · rw [reflVec_lt r hkc, zero_mul]
      · rw [hz k j (mem_range.mp hk) hj hjc' (by omega), mul_zero]
    rw [hD, hz i j hi hj hjc' hji]
    ring
  · -- column `c` itself
    have hjc2 : j = c := by omega
    subst hjc2
    set x := (List.range (rows - j)).map fun t => get r (j + t) j with hx
    have hlen : x.length = rows - j := by simp [hx]
    have hxget : ∀ t, t < rows - j → x.getD t 0 = get r (j + t) j := by
      intro t ht
      simp [hx, List.getD_eq_getElem?_getD, ht]
    have hw : ∀ t, reflVec rows j r (j + t) = (householderV x).getD t 0 := by
      intro t
      unfold reflVec
      rw [if_pos (by omega), Nat.add_sub_cancel_left]
    obtain ⟨t, ht⟩ : ∃ t, i = j + (t + 1) := ⟨i - j - 1, by omega⟩
    subst ht
    have hD : ∑ k ∈ range rows, reflVec rows j r k * get r k j
        = ∑ k ∈ range x.length, (householderV x).getD k 0 * x.getD k 0 := by
      have hsplit : rows = j + (rows - j) := by omega
      rw [hsplit, sum_range_add]
      have hz0 : ∑ k ∈ range j, reflVec (j + (rows - j)) j r k * get r k j = 0 := by
        apply sum_eq_zero
        intro k hk
        rw [reflVec_lt r (mem_range.mp hk), zero_mul]
      rw [hz0, zero_add, ← hsplit, hlen]
      apply sum_congr rfl
      intro k hk
      rw [hw k, hxget k (mem_range.mp hk)]
    rw [hD, hw (t + 1), ← hxget (t + 1) (by omega)]
    exact householder_annihilates x t (by omega)

theorem qrLoop_upper (A : Matrix ℝ) (hw : A.columns ≤ A.rows) :
    UpperUpTo A.rows A.columns (min (A.rows - 1) A.columns) (qrLoop A).2 := by
  unfold qrLoop
  have h0 : UpperUpTo A.rows A.columns 0 (ofFn A.rows A.columns (get A)) :=
    ⟨shaped_ofFn _ _ _, fun i j _ _ hj _ => by omega⟩
  have := foldRange_inv (fun c s => UpperUpTo A.rows A.columns c s.2)
    (fun c s => qrStep A.rows c s) (min (A.rows - 1) A.columns) (none, ofFn A.rows A.columns (get A)) h0
    (fun k t hk hP => by
      have hR' : (qrStep A.rows k t).2 = matMul (reflection A.rows k t.2) t.2 := by
        obtain ⟨q, r⟩ := t
        cases q <;> rfl
      rw [hR']
      exact qrStep_upper hP (by omega))
  exact this

end qr

/-! ### positive definite inputs: every pivot is positive -/

section pivots
open scoped EasyMl.RealModel

/-- **Pivots of a positive definite matrix are positive.**  If the leading `(i+1) × (i+1)` block
    of a positive definite `S` is `T·diag(d)·Tᵀ` (on the lower triangle) for a lower triangular
    table `t` with non-zero diagonal, every `d a`, `a ≤ i`, is positive. -/
theorem pivot_pos {n : ℕ} (S : _root_.Matrix (Fin n) (Fin n) ℝ) (hS : S.PosDef) (i : ℕ) (hi : i < n)
    (t : ℕ → ℕ → ℝ) (d : ℕ → ℝ)
    (hlow : ∀ a b, a < b → b ≤ i → t a b = 0) (hdiag : ∀ a, a ≤ i → t a a ≠ 0)
    (hid : ∀ a b (ha : a ≤ i) (hb : b ≤ a),
      S ⟨a, by omega⟩ ⟨b, by omega⟩ = ∑ c ∈ range (i + 1), t a c * d c * t b c) :
    ∀ a, a ≤ i → 0 < d a := by
  have hk : i + 1 ≤ n := hi
  let T : _root_.Matrix (Fin (i + 1)) (Fin (i + 1)) ℝ := fun a b => t a b
  let dd : Fin (i + 1) → ℝ := fun a => d a
  let S' := S.submatrix (Fin.castLE hk) (Fin.castLE hk)
  have hS' : S'.PosDef := hS.submatrix (Fin.castLE_injective hk)
  have hentry : ∀ a b : Fin (i + 1), (T * Matrix.diagonal dd * T.transpose) a b
      = ∑ c ∈ range (i + 1), t a c * d c * t b c := by
    intro a b
    rw [Matrix.mul_apply, ← Fin.sum_univ_eq_sum_range (fun c => t a c * d c * t b c) (i + 1)]
    apply Finset.sum_congr rfl
    intro c _
    rw [Matrix.mul_diagonal, Matrix.transpose_apply]
  have hsymS : ∀ a b : Fin (i + 1), S' a b = S' b a := by
    intro a b
    have := hS'.1
    have h2 := congrFun (congrFun this b) a
    simpa [Matrix.conjTranspose_apply] using h2
  have heq : S' = T * Matrix.diagonal dd * T.transpose := by
    ext a b
    by_cases hba : (b : ℕ) ≤ a
    · rw [hentry]
      exact hid a b (by have := a.isLt; omega) hba
    · have hab : (a : ℕ) ≤ b := by omega
      rw [hsymS, hentry]
      have := hid b a (by have := b.isLt; omega) hab
      rw [show S' b a = S ⟨b, by have := b.isLt; omega⟩ ⟨a, by have := a.isLt; omega⟩ from rfl, this]
      exact sum_congr rfl (fun c _ => by ring)
  have hdet : T.det = ∏ a, T a a :=
    Matrix.det_of_isLowerTriangular T (fun a b hab => hlow a b hab (by have := b.isLt; omega))
  have hunit : IsUnit T := by
    rw [Matrix.isUnit_iff_isUnit_det, hdet, isUnit_iff_ne_zero]
    exact Finset.prod_ne_zero_iff.mpr (fun a _ => hdiag a (by have := a.isLt; omega))
  have hD : (Matrix.diagonal dd).PosDef := by
    have h1 : (T * Matrix.diagonal dd * star T).PosDef := by
      rw [Matrix.star_eq_conjTranspose, Matrix.conjTranspose_eq_transpose_of_trivial, ← heq]
      exact hS'
    exact (Matrix.IsUnit.posDef_star_right_conjugate_iff hunit).mp h1
  intro a ha
  have := hD.diag_pos (i := (⟨a, by omega⟩ : Fin (i + 1)))
  simpa [dd] using this


theorem cholOK_pos {A ℓ : ℕ → ℕ → ℝ} {a : ℕ} (h : CholEntryOK A ℓ a a) : 0 < ℓ a a := by
  unfold CholEntryOK at h
  rw [if_pos rfl] at h
  obtain ⟨h1, h2⟩ := h
  rw [h2]
  have : ¬ (A a a - ∑ k ∈ range a, ℓ a k * ℓ a k ≤ 0) := by
    intro hle
    have := (RealModel.le_eq _ _).mpr hle
    rw [h1] at this; exact Bool.false_ne_true this
  exact Real.sqrt_pos.mpr (not_le.mp this)

theorem cholOK_identity {A ℓ : ℕ → ℕ → ℝ} {a b : ℕ} (h : CholEntryOK A ℓ a b)
    (hbb : a ≠ b → ℓ b b ≠ 0) : ∑ c ∈ range (b + 1), ℓ a c * ℓ b c = A a b := by
  rw [sum_range_succ]
  unfold CholEntryOK at h
  by_cases hab : a = b
  · subst hab
    rw [if_pos rfl] at h
    obtain ⟨h1, h2⟩ := h
    have hnn : 0 ≤ A a a - ∑ k ∈ range a, ℓ a k * ℓ a k := by
      by_contra hneg
      have hle : A a a - ∑ k ∈ range a, ℓ a k * ℓ a k ≤ 0 := by linarith
      have := (RealModel.le_eq _ _).mpr hle
      rw [h1] at this; exact Bool.false_ne_true this
    have hsq' : ℓ a a * ℓ a a = A a a - ∑ k ∈ range a, ℓ a k * ℓ a k := by
      rw [h2]; exact Real.mul_self_sqrt hnn
    linarith
  · rw [if_neg hab] at h
    have := hbb hab
    rw [h]
    field_simp
    ring

/-- With a positive definite input the diagonal step of row `i` meets a positive pivot. -/
theorem chol_pivot_pos {n : ℕ} {A L : Matrix ℝ} {i : ℕ}
    (hPD : (toMat n n A).PosDef) (hinv : CholInv n A L i i) (hi : i < n) :
    0 < get A i i - cholSum L i i := by
  have hposd : ∀ a, a < i → 0 < get L a a := fun a ha =>
    cholOK_pos (hinv.ok a a (by omega) ⟨le_refl a, Or.inl ha⟩)
  have hident : ∀ a b, a < n → CholDone i i a b → ∑ c ∈ range (b + 1), get L a c * get L b c = get A a b := by
    intro a b ha hd
    apply cholOK_identity (hinv.ok a b ha hd)
    intro hab
    obtain ⟨h1, h2⟩ := hd
    exact ne_of_gt (hposd b (by omega))
  set e := get A i i - cholSum L i i with he
  let t : ℕ → ℕ → ℝ := fun a b => if a = i ∧ b = i then 1 else get L a b
  let d : ℕ → ℝ := fun c => if c = i then e else 1
  have hzero : ∀ a b, a < n → b < n → a < b → get L a b = 0 := by
    intro a b ha hb hab
    apply hinv.zero a b ha hb
    rintro ⟨h1, _⟩; omega
  have hii : get L i i = 0 := by
    apply hinv.zero i i hi hi
    rintro ⟨_, h2⟩; omega
  have := pivot_pos (toMat n n A) hPD i hi t d ?_ ?_ ?_ i (le_refl i)
  · simpa [d] using this
  · intro a b hab hbi
    simp only [t]
    rw [if_neg (by omega)]
    exact hzero a b (by omega) (by omega) hab
  · intro a hai
    simp only [t]
    by_cases h : a = i
    · rw [if_pos ⟨h, h⟩]; exact one_ne_zero
    · rw [if_neg (by tauto)]; exact ne_of_gt (hposd a (by omega))
  · intro a b hai hba
    rw [toMat_apply]
    show get A a b = ∑ c ∈ range (i + 1), t a c * d c * t b c
    -- the terms beyond `b` vanish
    have hsplit : ∑ c ∈ range (i + 1), t a c * d c * t b c = ∑ c ∈ range (b + 1), t a c * d c * t b c := by
      symm
      apply sum_subset (range_subset_range.mpr (by omega))
      intro c hc hc'
      have hc1 := mem_range.mp hc
      have hc2 : ¬ c < b + 1 := fun hh => hc' (mem_range.mpr hh)
      have : t b c = 0 := by
        simp only [t]
        rw [if_neg (by omega)]
        exact hzero b c (by omega) (by omega) (by omega)
      rw [this, mul_zero]
    rw [hsplit]
    by_cases hbi : b = i
    · -- the pivot itself
      have hai' : a = i := by omega
      rw [hbi, hai', sum_range_succ]
      have h1 : ∑ c ∈ range i, t i c * d c * t i c = cholSum L i i := by
        rw [cholSum_eq]
        apply sum_congr rfl
        intro c hc
        have := mem_range.mp hc
        simp only [t, d]
        rw [if_neg (by omega), if_neg (by omega)]
        ring
      rw [h1]
      simp only [t, d, and_self, if_true]
      rw [he]; ring
    · have h1 : ∑ c ∈ range (b + 1), t a c * d c * t b c = ∑ c ∈ range (b + 1), get L a c * get L b c := by
        apply sum_congr rfl
        intro c hc
        have := mem_range.mp hc
        simp only [t, d]
        rw [if_neg (by omega), if_neg (by omega), if_neg (by omega)]
        ring
      rw [h1]
      exact (hident a b (by omega) ⟨hba, by omega⟩).symm

theorem cholEntry_present {n : ℕ} {A L : Matrix ℝ} {i j : ℕ}
    (hPD : (toMat n n A).PosDef) (hinv : CholInv n A L i j) (hi : i < n) (hj : j ≤ i) :
    ∃ L', cholEntry A L i j = some L' ∧ CholInv n A L' i (j + 1) := by
  have hex : ∃ L', cholEntry A L i j = some L' := by
    unfold cholEntry
    by_cases hij : i = j
    · subst hij
      simp only [if_true]
      have hp := chol_pivot_pos hPD hinv hi
      have hb : NumOrd.le (get A i i - cholSum L i i) (0 : ℝ) = false := by
        cases hbb : NumOrd.le (get A i i - cholSum L i i) (0 : ℝ) with
        | false => rfl
        | true => exact absurd ((RealModel.le_eq _ _).mp hbb) (not_le.mpr hp)
      rw [hb]
      exact ⟨_, rfl⟩
    · simp only [hij, if_false]
      exact ⟨_, rfl⟩
  obtain ⟨L', h⟩ := hex
  exact ⟨L', h, cholEntry_inv hinv hi hj h⟩

/-- **Cholesky is present for every positive definite input.** -/
theorem cholesky_present_aux {A : Matrix ℝ} (hsq : A.rows = A.columns)
    (hPD : (toMat A.rows A.rows A).PosDef) : ∃ L, cholesky A = some L := by
  unfold cholesky
  rw [if_neg (by simpa using hsq), ← hsq]
  have h0 : CholInv A.rows A (fill A.rows A.rows (0 : ℝ)) 0 0 := by
    refine ⟨shaped_fill _ _ _, fun a b ha hb _ => get_fill _ _ _ _ _ ha hb, ?_⟩
    rintro a b _ ⟨_, h2⟩; omega
  obtain ⟨L, h1, _⟩ := forRange_progress (fun i L => CholInv A.rows A L i 0)
    (fun i L => cholRow A i L) A.rows _ h0
    (fun i t hi hP => by
      obtain ⟨L', h1, h2⟩ := forRange_progress (fun j L => CholInv A.rows A L i j)
        (fun j L => cholEntry A L i j) (i + 1) t hP
        (fun j t' hj hP' => cholEntry_present hPD hP' hi (by omega))
      exact ⟨L', h1, cholRow_inv hP hi h1⟩)
  exact ⟨L, h1⟩


/-- With a positive definite input the pivot of column `j` is positive (so not zero). -/
theorem ldlt_pivot_pos {n : ℕ} {A L D : Matrix ℝ} {j : ℕ}
    (hPD : (toMat n n A).PosDef) (hinv : LdltInv n A L D j 0 j) (hj : j < n) :
    0 < get A j j - ldltSum L D j j := by
  have hDne : ∀ b, b < j → get D b b ≠ 0 := by
    intro b hb
    obtain ⟨h1, h2⟩ := hinv.okD b hb
    rw [h2]
    intro h0
    have := (RealModel.eq_eq _ _).mpr h0
    rw [h1] at this; exact Bool.false_ne_true this
  set e := get A j j - ldltSum L D j j with he
  let t : ℕ → ℕ → ℝ := fun a b => if a = b then 1 else get L a b
  let d : ℕ → ℝ := fun c => if c = j then e else get D c c
  have hzero : ∀ a b, a < n → b < n → a < b → get L a b = 0 := by
    intro a b ha hb hab
    apply hinv.zeroL a b ha hb
    rintro ⟨h1, _⟩; omega
  have := pivot_pos (toMat n n A) hPD j hj t d ?_ ?_ ?_ j (le_refl j)
  · simpa [d] using this
  · intro a b hab hbj
    simp only [t]
    rw [if_neg (by omega)]
    exact hzero a b (by omega) (by omega) hab
  · intro a _
    simp only [t, if_true]
    exact one_ne_zero
  · intro a b haj hba
    rw [toMat_apply]
    show get A a b = ∑ c ∈ range (j + 1), t a c * d c * t b c
    have hsplit : ∑ c ∈ range (j + 1), t a c * d c * t b c = ∑ c ∈ range (b + 1), t a c * d c * t b c := by
      symm
      apply sum_subset (range_subset_range.mpr (by omega))
      intro c hc hc'
      have hc1 := mem_range.mp hc
      have hc2 : ¬ c < b + 1 := fun hh => hc' (mem_range.mpr hh)
      have : t b c = 0 := by
        simp only [t]
        rw [if_neg (by omega)]
        exact hzero b c (by omega) (by omega) (by omega)
      rw [this, mul_zero]
    have hpre : ∑ c ∈ range b, t a c * d c * t b c = ∑ c ∈ range b, get L a c * get L b c * get D c c := by
      apply sum_congr rfl
      intro c hc
      have := mem_range.mp hc
      simp only [t, d]
      rw [if_neg (by omega), if_neg (by omega), if_neg (by omega)]
      ring
    rw [hsplit, sum_range_succ, hpre]
    by_cases hab : a = b
    · rw [hab]
      simp only [t, d, if_true]
      by_cases hbj : b = j
      · rw [if_pos hbj, he, ldltSum_eq, hbj]; ring
      · rw [if_neg hbj, (hinv.okD b (by omega)).2]; ring
    · have hbj : b < j := by omega
      have hok := hinv.okL a b (by omega) ⟨hba, Or.inl hbj⟩
      unfold LdltLOK at hok
      rw [if_neg hab] at hok
      simp only [t, d]
      rw [if_neg hab, if_neg (by omega)]
      simp only [if_true]
      rw [hok]
      have := hDne b hbj
      field_simp
      ring

theorem ldltColumn_present {n : ℕ} {A L D : Matrix ℝ} {j : ℕ}
    (hPD : (toMat n n A).PosDef) (hinv : LdltInv n A L D j 0 j) (hj : j < n) :
    ∃ s', ldltColumn A n j (L, D) = some s' ∧ LdltInv n A s'.1 s'.2 (j + 1) 0 (j + 1) := by
  have hp := ldlt_pivot_pos hPD hinv hj
  have hb : NumOrd.eq (get A j j - ldltSum L D j j) (0 : ℝ) = false := by
    cases hbb : NumOrd.eq (get A j j - ldltSum L D j j) (0 : ℝ) with
    | false => rfl
    | true => exact absurd ((RealModel.eq_eq _ _).mp hbb) (ne_of_gt hp)
  have hex : ∃ s', ldltColumn A n j (L, D) = some s' := by
    unfold ldltColumn
    simp only [hb]
    exact ⟨_, rfl⟩
  obtain ⟨⟨L', D'⟩, h⟩ := hex
  exact ⟨(L', D'), h, ldltColumn_inv hinv hj h⟩

/-- **LDLᵀ is present for every positive definite input.** -/
theorem ldlt_present_aux {A : Matrix ℝ} (hsq : A.rows = A.columns)
    (hPD : (toMat A.rows A.rows A).PosDef) : ∃ L D, ldlt A = some (L, D) := by
  unfold ldlt
  rw [if_neg (by simpa using hsq), ← hsq]
  have h0 : LdltInv A.rows A (fill A.rows A.rows (0 : ℝ)) (fill A.rows A.rows (0 : ℝ)) 0 0 0 := by
    refine ⟨shaped_fill _ _ _, shaped_fill _ _ _, fun a b ha hb _ => get_fill _ _ _ _ _ ha hb,
      fun a b ha hb _ => get_fill _ _ _ _ _ ha hb, fun b hb => by omega, ?_⟩
    rintro a b _ ⟨_, h2⟩; omega
  obtain ⟨⟨L, D⟩, h1, _⟩ := forRange_progress
    (fun j (s : Matrix ℝ × Matrix ℝ) => LdltInv A.rows A s.1 s.2 j 0 j)
    (fun j s => ldltColumn A A.rows j s) A.rows
    (fill A.rows A.rows (0 : ℝ), fill A.rows A.rows (0 : ℝ)) h0
    (fun j t hj hP => ldltColumn_present (L := t.1) (D := t.2) hPD hP hj)
  exact ⟨L, D, h1⟩

end pivots

/-! ### full column rank: no reflection of the QR run meets a zero column -/

section rank
open scoped EasyMl.RealModel

/-- A real matrix whose first `c+1` columns vanish from row `c` downwards has a non-trivial
    kernel. -/
theorem exists_kernel_of_zero_block {M N c : ℕ} (R : _root_.Matrix (Fin M) (Fin N) ℝ) (hcN : c < N)
    (hcM : c < M)
    (hz : ∀ (i : Fin M) (j : Fin N), (j : ℕ) ≤ c → c ≤ (i : ℕ) → R i j = 0) :
    ∃ y : Fin N → ℝ, y ≠ 0 ∧ R.mulVec y = 0 := by
  -- the leading (c+1)×(c+1) block has a zero last row
  let B : _root_.Matrix (Fin (c + 1)) (Fin (c + 1)) ℝ :=
    fun i j => R ⟨i, by have := i.isLt; omega⟩ ⟨j, by have := j.isLt; omega⟩
  have hdet : B.det = 0 := by
    apply Matrix.det_eq_zero_of_row_eq_zero (⟨c, Nat.lt_succ_self c⟩ : Fin (c + 1))
    intro j
    exact hz _ _ (by have := j.isLt; simp; omega) (by simp)
  obtain ⟨y, hy0, hy⟩ := Matrix.exists_mulVec_eq_zero_iff.mpr hdet
  let yy : ℕ → ℝ := fun j => if h : j < c + 1 then y ⟨j, h⟩ else 0
  refine ⟨fun j => yy j, ?_, ?_⟩
  · intro h
    apply hy0
    funext j
    have := congrFun h ⟨j, by have := j.isLt; omega⟩
    simp only [yy, Pi.zero_apply] at this
    rw [dif_pos j.isLt] at this
    simpa using this
  · funext i
    simp only [Matrix.mulVec, dotProduct, Pi.zero_apply]
    -- sum over Fin N → range N → range (c+1)
    let f : ℕ → ℝ := fun j => (if h : j < N then R i ⟨j, h⟩ else 0) * yy j
    have h1 : ∑ j : Fin N, R i j * yy j = ∑ j ∈ range N, f j := by
      rw [← Fin.sum_univ_eq_sum_range f N]
      apply Finset.sum_congr rfl
      intro j _
      simp only [f]
      rw [dif_pos j.isLt]
    have h2 : ∑ j ∈ range N, f j = ∑ j ∈ range (c + 1), f j := by
      symm
      apply sum_subset (range_subset_range.mpr (by omega))
      intro j _ hj
      have : ¬ j < c + 1 := fun hh => hj (mem_range.mpr hh)
      simp only [f, yy]
      rw [dif_neg this, mul_zero]
    rw [h1, h2]
    by_cases hic : (i : ℕ) < c + 1
    · -- a row of the block: `(B y)_i = 0`
      have hB := congrFun hy ⟨i, hic⟩
      simp only [Matrix.mulVec, dotProduct, Pi.zero_apply] at hB
      rw [← hB, ← Fin.sum_univ_eq_sum_range f (c + 1)]
      apply Finset.sum_congr rfl
      intro j _
      simp only [f, yy, B]
      rw [dif_pos (by have := j.isLt; omega), dif_pos j.isLt]
    · apply sum_eq_zero
      intro j hj
      have hjc := mem_range.mp hj
      simp only [f]
      rw [dif_pos (by omega), hz i ⟨j, by omega⟩ (by simp; omega) (by omega), zero_mul]


/-- the state of the QR loop after `c` iterations -/
noncomputable def qrState (A : Matrix ℝ) (c : ℕ) : Option (Matrix ℝ) × Matrix ℝ :=
  foldRange c (fun c s => qrStep A.rows c s) (none, ofFn A.rows A.columns (get A))

theorem qrState_inv (A : Matrix ℝ) (c : ℕ) (hc : c ≤ A.rows) :
    QrInv A.rows A.columns (toMat A.rows A.columns A) (qrState A c) ∧
      UpperUpTo A.rows A.columns c (qrState A c).2 := by
  unfold qrState
  have h0 : QrInv A.rows A.columns (toMat A.rows A.columns A) (none, ofFn A.rows A.columns (get A)) := by
    refine ⟨shaped_ofFn _ _ _, ?_, ?_, ?_⟩
    · intro q hq; cases hq
    · simp only [qMat, Matrix.one_mul]
      ext i j
      rw [toMat_apply, toMat_apply, get_ofFn _ _ _ _ _ i.isLt j.isLt]
    · simp [qMat]
  have h0' : UpperUpTo A.rows A.columns 0 (ofFn A.rows A.columns (get A)) :=
    ⟨shaped_ofFn _ _ _, fun i j _ _ hj _ => by omega⟩
  exact foldRange_inv
    (fun k s => QrInv A.rows A.columns (toMat A.rows A.columns A) s ∧ UpperUpTo A.rows A.columns k s.2)
    (fun c s => qrStep A.rows c s) c _ ⟨h0, h0'⟩
    (fun k t hk hP => by
      refine ⟨qrStep_inv hP.1 (by omega), ?_⟩
      have hR' : (qrStep A.rows k t).2 = matMul (reflection A.rows k t.2) t.2 := by
        obtain ⟨q, r⟩ := t
        cases q <;> rfl
      rw [hR']
      exact qrStep_upper hP.2 (by omega))

/-- **With linearly independent columns no reflection meets a zero column**: the column the
    `c`-th reflection is built from has a non-zero entry. -/
theorem qr_column_ne_zero (A : Matrix ℝ)
    (hinj : Function.Injective (toMat A.rows A.columns A).mulVec) (c : ℕ)
    (hcM : c < A.rows) (hcN : c < A.columns) :
    ∃ k, ((List.range (A.rows - c)).map fun t => get (qrState A c).2 (c + t) c).getD k 0 ≠ 0 := by
  obtain ⟨hinv, hup⟩ := qrState_inv A c (le_of_lt hcM)
  by_contra hall
  push Not at hall
  set r := (qrState A c).2 with hr
  set Qm := qMat A.rows (qrState A c).1 with hQ
  -- column `c` vanishes from row `c` downwards
  have hcol : ∀ i, c ≤ i → i < A.rows → get r i c = 0 := by
    intro i hci hi
    have := hall (i - c)
    rw [List.getD_eq_getElem?_getD, List.getElem?_map, List.getElem?_range (by omega)] at this
    simpa [show c + (i - c) = i by omega] using this
  have hz : ∀ (i : Fin A.rows) (j : Fin A.columns), (j : ℕ) ≤ c → c ≤ (i : ℕ) →
      toMat A.rows A.columns r i j = 0 := by
    intro i j hjc hci
    rw [toMat_apply]
    by_cases hj : (j : ℕ) = c
    · rw [hj]; exact hcol i hci i.isLt
    · exact hup.2 i j i.isLt j.isLt (by omega) (by omega)
  obtain ⟨y, hy0, hy⟩ := exists_kernel_of_zero_block (toMat A.rows A.columns r) hcN hcM hz
  -- `A y = Q (R y) = 0`
  have hprod : Qm * toMat A.rows A.columns r = toMat A.rows A.columns A := hinv.product
  have hAy : (toMat A.rows A.columns A).mulVec y = 0 := by
    rw [← hprod, ← Matrix.mulVec_mulVec, hy, Matrix.mulVec_zero]
  exact hy0 (hinj (by rw [hAy, Matrix.mulVec_zero]))

end rank

/-! ### the reflection applied to its own column -/

section reflects
open scoped EasyMl.RealModel

/-- applying the reflection of `x` to `x` itself subtracts `u`: `(H·x)_t = x_t − u_t` -/
theorem householder_apply_self (x : List ℝ) (t : ℕ) (ht : t < x.length) :
    x.getD t 0 - (householderV x).getD t 0 *
      (∑ k ∈ range x.length, (householderV x).getD k 0 * x.getD k 0) * (1 + 1)
      = x.getD t 0 - (householderU x).getD t 0 := by
  obtain ⟨m, hm⟩ : ∃ m, x.length = m + 1 := ⟨x.length - 1, by omega⟩
  obtain ⟨a, ha, hu0⟩ := householderU_getD_zero x (by omega)
  set q := sumSq (householderU x) with hq
  have hqs : q = ∑ k ∈ range x.length, (householderU x).getD k 0 * (householderU x).getD k 0 := by
    rw [hq, sumSq_eq, householderU_length]
  have hnn : 0 ≤ q := by rw [hqs]; exact sum_nonneg (fun t _ => mul_self_nonneg _)
  simp only [householderV_getD]
  rw [← hq]
  by_cases h0 : q = 0
  · have hall := (sum_eq_zero_iff_of_nonneg (fun t _ => mul_self_nonneg _)).mp (hqs ▸ h0)
    have hut : (householderU x).getD t 0 = 0 := mul_self_eq_zero.mp (hall t (mem_range.mpr ht))
    rw [h0, Real.sqrt_zero, hut]
    simp
  · have hs : Real.sqrt q * Real.sqrt q = q := Real.mul_self_sqrt hnn
    have hsne : Real.sqrt q ≠ 0 := by
      intro h; rw [h, mul_zero] at hs; exact h0 hs.symm
    have hsum : ∑ k ∈ range x.length, (householderU x).getD k 0 / Real.sqrt q * x.getD k 0
        = (∑ k ∈ range x.length, (householderU x).getD k 0 * x.getD k 0) / Real.sqrt q := by
      rw [Finset.sum_div]
      exact sum_congr rfl (fun k _ => by ring)
    have hX : sumSq x = ∑ k ∈ range m, x.getD (k + 1) 0 * x.getD (k + 1) 0 + x.getD 0 0 * x.getD 0 0 := by
      rw [sumSq_eq, hm, sum_range_succ']
    have hq2 : q = ∑ k ∈ range m, x.getD (k + 1) 0 * x.getD (k + 1) 0
        + (x.getD 0 0 + a) * (x.getD 0 0 + a) := by
      rw [hqs, hm, sum_range_succ', hu0]
      congr 1
      exact sum_congr rfl (fun k _ => by rw [householderU_getD_succ])
    have hp : ∑ k ∈ range x.length, (householderU x).getD k 0 * x.getD k 0
        = ∑ k ∈ range m, x.getD (k + 1) 0 * x.getD (k + 1) 0 + (x.getD 0 0 + a) * x.getD 0 0 := by
      rw [hm, sum_range_succ', hu0]
      congr 1
      exact sum_congr rfl (fun k _ => by rw [householderU_getD_succ])
    have hhalf : ∑ k ∈ range x.length, (householderU x).getD k 0 * x.getD k 0 = q / 2 := by
      rw [hp, hq2]
      rw [hX] at ha
      linarith [ha]
    have hdiv : q / 2 / Real.sqrt q = Real.sqrt q / 2 := by
      rw [div_div, div_eq_div_iff (by simpa using hsne) (by norm_num)]
      linear_combination (-2 : ℝ) * hs
    rw [hsum, hhalf, hdiv]
    field_simp
    ring

/-- the signed norm the reflection aims at: `‖x‖` if the leading entry is positive, else `−‖x‖` -/
noncomputable def householderA (x : List ℝ) : ℝ :=
  if (0 : ℝ) < x.headD 0 then Real.sqrt (sumSq x) else -Real.sqrt (sumSq x)

theorem householderU_head (x : List ℝ) (hx : 0 < x.length) :
    (householderU x).getD 0 0 = x.getD 0 0 + householderA x := by
  have hhead : x.headD 0 = x.getD 0 0 := by
    cases x with
    | nil => simp at hx
    | cons a l => simp
  unfold householderU euclideanLength householderA
  simp only [RealModel.sqrt_eq]
  rw [List.getD_eq_getElem?_getD, List.getElem?_set_self (by simpa using hx)]
  simp only [Option.getD_some, hhead]
  by_cases hsg : (0 : ℝ) < x.getD 0 0
  · rw [if_pos ((RealModel.lt_eq _ _).mpr hsg), if_pos hsg]
  · rw [if_neg (fun h => hsg ((RealModel.lt_eq _ _).mp h)), if_neg hsg]

/-- **`H·x = −a·e₀`** with `a = ±‖x‖` (`householderA`): the matrix–vector product of the
    reflection built from `x` with `x` is `−a` in the first entry and zero elsewhere. -/
theorem householder_reflects_aux (x : List ℝ) (t : ℕ) (ht : t < x.length) :
    ∑ k ∈ range x.length, get (householder x) t k * x.getD k 0
      = if t = 0 then -householderA x else 0 := by
  have hterm : ∀ k ∈ range x.length, get (householder x) t k * x.getD k 0
      = (if t = k then x.getD k 0 else 0)
        - (householderV x).getD t 0 * ((householderV x).getD k 0 * x.getD k 0) * (1 + 1) := by
    intro k hk
    rw [get_householder x ht (mem_range.mp hk)]
    split <;> ring
  rw [sum_congr rfl hterm, sum_sub_distrib, sum_ite_eq, if_pos (mem_range.mpr ht), ← sum_mul, ← mul_sum,
    householder_apply_self x t ht]
  cases t with
  | zero => rw [if_pos rfl, householderU_head x ht]; ring
  | succ t => rw [if_neg (by omega), householderU_getD_succ]; ring

end reflects

/-! ### the factorisations depend on the input through its size and cells only -/

theorem forRange_congr {σ} (f g : ℕ → σ → Option σ) (n : ℕ) (s : σ)
    (h : ∀ k, k < n → ∀ t, f k t = g k t) : forRange n f s = forRange n g s := by
  induction n with
  | zero => simp [forRange_zero]
  | succ n ih =>
    rw [forRange_succ, forRange_succ, ih (fun k hk => h k (by omega))]
    cases forRange n g s with
    | none => rfl
    | some t => exact h n (Nat.lt_succ_self n) t

theorem foldRange_congr {σ} (f g : ℕ → σ → σ) (n : ℕ) (s : σ)
    (h : ∀ k, k < n → ∀ t, f k t = g k t) : foldRange n f s = foldRange n g s := by
  induction n with
  | zero => simp [foldRange_zero]
  | succ n ih => rw [foldRange_succ, foldRange_succ, ih (fun k hk => h k (by omega)), h n (Nat.lt_succ_self n)]

section congr
variable {α : Type} [Add α] [Sub α] [Mul α] [Div α] [Neg α] [Zero α] [One α] [RealFns α] [NumOrd α]

/-- **Cholesky depends on the input only through its size and the cells of its lower triangle**:
    two inputs of the same size that agree at every `(i, j)`, `j ≤ i < n`, have the same outcome —
    whatever they are stored as (a tensor, a lazily transposed / ranged / reversed view of one:
    what matters is the cell function), and whatever stands above the diagonal. -/
theorem cholesky_congr (A B : Matrix α) (hr : A.rows = B.rows) (hc : A.columns = B.columns)
    (h : ∀ i j, i < A.rows → j ≤ i → get A i j = get B i j) : cholesky A = cholesky B := by
  unfold cholesky
  rw [← hr, ← hc]
  by_cases hsq : A.rows = A.columns
  · simp only [hsq, ne_eq, not_true_eq_false, if_false]
    rw [← hsq]
    apply forRange_congr
    intro i hi L
    unfold cholRow
    apply forRange_congr
    intro j hj L'
    unfold cholEntry
    rw [h i j hi (by omega)]
  · simp [hsq]

/-- **LDLᵀ depends on the input only through its size and the cells of its lower triangle.** -/
theorem ldlt_congr (A B : Matrix α) (hr : A.rows = B.rows) (hc : A.columns = B.columns)
    (h : ∀ i j, i < A.rows → j ≤ i → get A i j = get B i j) : ldlt A = ldlt B := by
  unfold ldlt
  rw [← hr, ← hc]
  by_cases hsq : A.rows = A.columns
  · simp only [hsq, ne_eq, not_true_eq_false, if_false]
    rw [← hsq]
    apply forRange_congr
    intro j hj s
    obtain ⟨L, D⟩ := s
    unfold ldltColumn
    simp only []
    rw [h j j hj (le_refl j)]
    split
    · rfl
    · congr 2
      apply foldRange_congr
      intro t ht L'
      unfold ldltEntry
      simp only []
      by_cases h0 : j + t = j
      · simp [h0]
      · simp only [h0, if_false]
        rw [h (j + t) j (by omega) (by omega)]
  · simp [hsq]

/-- QR depends on the input only through its size and its cells. -/
theorem qr_congr (A B : Matrix α) (hr : A.rows = B.rows) (hc : A.columns = B.columns)
    (h : ∀ i j, i < A.rows → j < A.columns → get A i j = get B i j) : qr A = qr B := by
  have hinit : ofFn A.rows A.columns (get A) = ofFn B.rows B.columns (get B) := by
    rw [← hr, ← hc]
    unfold ofFn
    congr 1
    apply List.map_congr_left
    intro k hk
    have hk := List.mem_range.mp hk
    by_cases hc0 : A.columns = 0
    · rw [hc0] at hk; omega
    · apply h
      · exact (Nat.div_lt_iff_lt_mul (by omega)).mpr hk
      · exact Nat.mod_lt _ (by omega)
  unfold qr qrLoop
  rw [hinit, hr, hc]

end congr

end EasyMl.Decomp
