/-
  EasyMl.Lemmas.CheckedInt — the bounded-integer arithmetic of the dev profile (overflow checks on),
  packaged for reuse by the owners of other properties.

  Definitions (core Lean only, `EasyMl.Model.Numeric` / `EasyMl.Model.WrapperOps`):
    `IntTy` (the 12 primitive integer types), `Val t = BitVec t.bits`, `toInt`, `ofInt`,
    `checked t i` (`.ok` iff `T::MIN ≤ i ≤ T::MAX`, else `.panic .overflow`),
    `pAdd pSub pMul pDiv` (`pDiv`: `.panic .explicit` on a zero divisor, `.panic .overflow` on `MIN / -1`),
    `pNeg` (below), and the bundle `arithPlain t : Arith (Val t)`.
  Lemmas here: exact characterisation of when each operator succeeds, and
  `checked_sub_ne_add_neg` — `a - b` is NOT `a + (-b)`: the latter panics at `b = MIN` although the
  former may be representable — with `checked_sub_eq_add_neg_of_ne_min` for every other `b`.
-/
import EasyMl.Lemmas.Numeric
import EasyMl.Model.WrapperOps

namespace EasyMl.Num

/-- checked negation (`-x` with overflow checks on) -/
def pNeg (t : IntTy) (a : Val t) : Outcome (Val t) := checked t (-(toInt t a))

theorem arithPlain_neg (t : IntTy) : (arithPlain t).neg = pNeg t := rfl

/-- a checked operator succeeds exactly when the mathematical result is representable, and then
    denotes it -/
theorem checked_ok_iff (t : IntTy) (i : Int) :
    (checked t i).isOk = true ↔ (t.minInt ≤ i ∧ i ≤ t.maxInt) := by
  unfold checked
  split <;> simp_all [Outcome.isOk]

theorem toInt_ofInt (t : IntTy) (i : Int) (h : t.minInt ≤ i ∧ i ≤ t.maxInt) : toInt t (ofInt t i) = i := by
  obtain ⟨h1, h2⟩ := h
  cases t <;>
    simp only [toInt, ofInt, IntTy.signed, IntTy.bits, IntTy.minInt, IntTy.maxInt, BitVec.toInt_ofInt,
      BitVec.toNat_ofInt, if_true, if_false, Bool.false_eq_true] at h1 h2 ⊢ <;>
    (first | (rw [Int.bmod_eq_of_le] <;> omega) | omega)

theorem checked_value (t : IntTy) (i : Int) (v : Val t) (h : checked t i = .ok v) : toInt t v = i := by
  unfold checked at h
  split at h
  · rename_i hr
    cases h
    exact toInt_ofInt t i hr
  · cases h

/-- the number an outcome denotes (`none` for a panic) -/
def outInt (t : IntTy) : Outcome (Val t) → Option Int
  | .ok v => some (toInt t v)
  | .panic _ => none

/-- **`a - b ≠ a + (-b)` on bounded integers**: at `b = MIN` the negation overflows although the
    difference is representable (`-1 - MIN = MAX`), for `i8`, `i32` and `i64` -/
theorem checked_sub_ne_add_neg :
    (outInt .i8 (pSub .i8 (ofInt .i8 (-1)) (ofInt .i8 (-128))) = some 127 ∧
      outInt .i8 (pNeg .i8 (ofInt .i8 (-128)) >>= fun n => pAdd .i8 (ofInt .i8 (-1)) n) = none) ∧
    (outInt .i32 (pSub .i32 (ofInt .i32 (-1)) (ofInt .i32 (-2147483648))) = some 2147483647 ∧
      outInt .i32 (pNeg .i32 (ofInt .i32 (-2147483648)) >>= fun n => pAdd .i32 (ofInt .i32 (-1)) n) = none) ∧
    (outInt .i64 (pSub .i64 (ofInt .i64 (-1)) (ofInt .i64 (-9223372036854775808))) = some 9223372036854775807 ∧
      outInt .i64 (pNeg .i64 (ofInt .i64 (-9223372036854775808)) >>= fun n => pAdd .i64 (ofInt .i64 (-1)) n)
        = none) := by
  decide

/-- … and that is the only difference: for a signed type and `b ≠ MIN`, `a - b` and `a + (-b)` agree,
    value or overflow.  (For unsigned types `-b` overflows for every `b ≠ 0`.) -/
theorem checked_sub_eq_add_neg_of_ne_min (t : IntTy) (hsg : t.signed = true) (a b : Val t)
    (hb : toInt t b ≠ t.minInt) :
    pSub t a b = (pNeg t b >>= fun n => pAdd t a n) := by
  have hr := toInt_range t b
  have hmm : t.minInt = -(t.maxInt) - 1 := by
    cases t <;> simp_all [IntTy.minInt, IntTy.maxInt, IntTy.signed, IntTy.bits]
  have h1 : t.minInt ≤ -(toInt t b) := by omega
  have h2 : -(toInt t b) ≤ t.maxInt := by omega
  have hn : pNeg t b = .ok (ofInt t (-(toInt t b))) := by
    unfold pNeg checked; rw [if_pos ⟨h1, h2⟩]
  rw [hn]
  show pSub t a b = pAdd t a (ofInt t (-(toInt t b)))
  unfold pSub pAdd
  rw [toInt_ofInt t _ ⟨h1, h2⟩]
  rfl

example : toInt .i8 (ofInt .i8 5) ≠ IntTy.minInt .i8 := by decide

end EasyMl.Num
