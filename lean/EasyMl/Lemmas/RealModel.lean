/-
  EasyMl.Lemmas.RealModel — the real numbers as an instance of the numeric classes the models
  are written over (`RealFns`, `NumOrd` of `Model/Fp.lean`): `sqrt exp ln sin cos pow pi` are
  Mathlib's `Real.sqrt`, `Real.exp`, `Real.log`, `Real.sin`, `Real.cos`, `Real.rpow`, `Real.pi`,
  the comparisons are the (classically decided) order of ℝ.  The instances are *scoped*
  (`open scoped EasyMl.RealModel`) so that they never compete with another file's choice.

  `LawfulNumOrd` states that the Boolean comparisons of a `NumOrd` instance decide the order /
  equality of the type; theorems over a general ordered field assume it.
-/
import Mathlib.Analysis.Real.Sqrt
import Mathlib.Analysis.SpecialFunctions.Pow.Real
import Mathlib.Analysis.SpecialFunctions.Trigonometric.Basic
import EasyMl.Model.Fp

namespace EasyMl

/-- the Boolean comparisons decide `<`, `≤`, `=` -/
class LawfulNumOrd (K : Type) [LT K] [LE K] [NumOrd K] : Prop where
  lt_iff : ∀ a b : K, NumOrd.lt a b = true ↔ a < b
  le_iff : ∀ a b : K, NumOrd.le a b = true ↔ a ≤ b
  eq_iff : ∀ a b : K, NumOrd.eq a b = true ↔ a = b

namespace RealModel

noncomputable scoped instance instRealFns : RealFns ℝ where
  sqrt := Real.sqrt
  exp := Real.exp
  ln := Real.log
  sin := Real.sin
  cos := Real.cos
  pow a b := a ^ b
  pi := Real.pi

noncomputable scoped instance instNumOrd : NumOrd ℝ where
  lt a b := decide (a < b)
  le a b := decide (a ≤ b)
  eq a b := decide (a = b)

scoped instance : LawfulNumOrd ℝ where
  lt_iff a b := by simp [NumOrd.lt]
  le_iff a b := by simp [NumOrd.le]
  eq_iff a b := by simp [NumOrd.eq]

@[simp] theorem sqrt_eq (x : ℝ) : (RealFns.sqrt x : ℝ) = Real.sqrt x := rfl
@[simp] theorem exp_eq (x : ℝ) : (RealFns.exp x : ℝ) = Real.exp x := rfl
@[simp] theorem ln_eq (x : ℝ) : (RealFns.ln x : ℝ) = Real.log x := rfl
@[simp] theorem sin_eq (x : ℝ) : (RealFns.sin x : ℝ) = Real.sin x := rfl
@[simp] theorem cos_eq (x : ℝ) : (RealFns.cos x : ℝ) = Real.cos x := rfl
@[simp] theorem pow_eq (x y : ℝ) : (RealFns.pow x y : ℝ) = x ^ y := rfl
@[simp] theorem pi_eq : (RealFns.pi : ℝ) = Real.pi := rfl
@[simp] theorem lt_eq (a b : ℝ) : (NumOrd.lt a b = true) ↔ a < b := by simp [NumOrd.lt]
@[simp] theorem le_eq (a b : ℝ) : (NumOrd.le a b = true) ↔ a ≤ b := by simp [NumOrd.le]
@[simp] theorem eq_eq (a b : ℝ) : (NumOrd.eq a b = true) ↔ a = b := by simp [NumOrd.eq]

end RealModel

/-- the rationals of the correspondence runs are lawful too -/
instance : LawfulNumOrd Rat where
  lt_iff a b := by simp [NumOrd.lt]
  le_iff a b := by simp [NumOrd.le]
  eq_iff a b := by simp [NumOrd.eq]

end EasyMl
