/-
  EasyMl.Lemmas.History — every modelled in-place transformation keeps a tensor one that the
  constructors accept (in particular `strides = compute_strides shape`), over all histories (C13).
-/
import EasyMl.Lemmas.MapMut
import EasyMl.Lemmas.Swap

namespace EasyMl
open EasyMl.Spec

set_option linter.unusedSectionVars false

variable {ν : Type} [DecidableEq ν] {α : Type}

theorem applyInPlace_valid [Inhabited ν] (shape : Shape ν) (data : List α) (t t' : Tensor ν α)
    (ht : Tensor.tryFrom shape data = some t) (step : InPlace ν α)
    (harity : ∀ k, step.arity = some k → k = shape.length)
    (h : t.applyInPlace step = .ok t') :
    ∃ shape' data', shape'.length = shape.length ∧ Tensor.tryFrom shape' data' = some t' := by
  have hv := ofData_valid shape data t ht
  cases step with
  | reorder d =>
    simp only [Tensor.applyInPlace] at h
    rw [reorderMut_eq_reorder' shape data t ht d, (Tensor.reorder_eq_ofData shape data t ht d).1] at h
    by_cases hp : IsOrdering shape d
    · rw [if_pos hp] at h
      simp only [Outcome.ok.injEq] at h
      subst h
      refine ⟨_, _, ?_, (reordered_valid hv d hp).tryFrom⟩
      simp only [reordered, shapeFor_length, ofData_shape]
      simpa using hp.length_eq
    · rw [if_neg hp] at h; cases h
  | transpose d =>
    simp only [Tensor.applyInPlace] at h
    rw [transposeMut_eq_transpose' shape data t ht d,
      (Tensor.reorder_eq_ofData shape data t ht d).2] at h
    by_cases hp : IsOrdering shape d
    · rw [if_pos hp] at h
      simp only [Outcome.ok.injEq] at h
      subst h
      refine ⟨_, _, ?_, (transposed_valid hv d hp).tryFrom⟩
      have hl : d.length = shape.length := by simpa using hp.length_eq
      simp only [transposed, ofData_shape]
      rw [withNames_length _ _ (by simp [shapeFor_length, hl]), shapeFor_length, hl]
    · rw [if_neg hp] at h; cases h
  | reshape s =>
    simp only [Tensor.applyInPlace] at h
    rw [(Tensor.reshape_eq shape data t ht s).2, (Tensor.reshape_eq shape data t ht s).1] at h
    by_cases ha : Accepts s data.length
    · rw [if_pos ha] at h
      simp only [Outcome.ok.injEq] at h
      subst h
      exact ⟨s, data, harity _ rfl, (tryFrom_eq_some_iff s data _).2 ⟨ha, rfl⟩⟩
    · rw [if_neg ha] at h; cases h
  | rename d =>
    have hl : d.length = shape.length := harity _ rfl
    simp only [Tensor.applyInPlace] at h
    rw [Tensor.rename_eq shape data t ht d hl] at h
    by_cases hn : d.Nodup
    · rw [if_pos hn] at h
      simp only [Outcome.ok.injEq] at h
      subst h
      refine ⟨_, _, ?_, (renamed_valid hv d hn hl).tryFrom⟩
      simp only [renamed, ofData_shape]
      exact withNames_length _ _ hl
    · rw [if_neg hn] at h; cases h
  | map f =>
    simp only [Tensor.applyInPlace, Outcome.ok.injEq] at h
    subst h
    obtain ⟨hacc, ht'⟩ := (tryFrom_eq_some_iff shape data t).1 ht
    refine ⟨shape, data.map f, rfl, ?_⟩
    rw [tryFrom_eq_some_iff]
    exact ⟨⟨by simpa using hacc.1, hacc.2⟩, by rw [ht']; rfl⟩
  | mapi f =>
    simp only [Tensor.applyInPlace, Outcome.ok.injEq] at h
    subst h
    rw [Tensor.mapMutWithIndex_eq f shape data t ht, Tensor.mapWithIndex_eq f shape data t ht]
    exact ⟨_, _, rfl, (mappedWithIndex_valid hv f).tryFrom⟩

theorem applyAll_valid [Inhabited ν] (steps : List (InPlace ν α)) (shape : Shape ν) (data : List α)
    (t t' : Tensor ν α) (ht : Tensor.tryFrom shape data = some t)
    (harity : ∀ step ∈ steps, ∀ k, step.arity = some k → k = shape.length)
    (h : t.applyAll steps = .ok t') :
    ∃ shape' data', shape'.length = shape.length ∧ Tensor.tryFrom shape' data' = some t' := by
  induction steps generalizing shape data t with
  | nil =>
    simp only [Tensor.applyAll, Outcome.ok.injEq] at h
    subst h; exact ⟨shape, data, rfl, ht⟩
  | cons step rest ih =>
    simp only [Tensor.applyAll] at h
    cases hs : t.applyInPlace step with
    | panic k => rw [hs] at h; cases h
    | ok t₁ =>
      rw [hs] at h
      obtain ⟨s₁, d₁, hl₁, ht₁⟩ :=
        applyInPlace_valid shape data t t₁ ht step (harity step (by simp)) hs
      obtain ⟨s₂, d₂, hl₂, ht₂⟩ := ih s₁ d₁ t₁ ht₁
        (fun st hst k hk => by rw [hl₁]; exact harity st (by simp [hst]) k hk) h
      exact ⟨s₂, d₂, hl₂.trans hl₁, ht₂⟩

/-! ### the model's histories refine the value-level histories of the specification -/

/-- the value-level reading of an in-place step -/
def InPlace.toSpec : InPlace ν α → Spec.Step ν α
  | .reorder d => .reorder d
  | .transpose d => .transpose d
  | .reshape s => .reshape s
  | .rename d => .rename d
  | .map f => .map f
  | .mapi f => .mapi f

theorem applyInPlace_eq_spec [Inhabited ν] (shape : Shape ν) (data : List α) (t : Tensor ν α)
    (ht : Tensor.tryFrom shape data = some t) (step : InPlace ν α)
    (harity : ∀ k, step.arity = some k → k = shape.length) :
    t.applyInPlace step =
      match stepValue ⟨shape, data⟩ step.toSpec with
      | some v => .ok (Tensor.ofVal v)
      | none => .panic .explicit := by
  obtain ⟨_, ht'⟩ := (tryFrom_eq_some_iff shape data t).1 ht
  cases step with
  | reorder d =>
    simp only [Tensor.applyInPlace, InPlace.toSpec, stepValue]
    rw [reorderMut_eq_reorder' shape data t ht d, (Tensor.reorder_eq_ofData shape data t ht d).1]
    by_cases hp : IsOrdering shape d <;> simp [hp]
  | transpose d =>
    simp only [Tensor.applyInPlace, InPlace.toSpec, stepValue]
    rw [transposeMut_eq_transpose' shape data t ht d,
      (Tensor.reorder_eq_ofData shape data t ht d).2]
    by_cases hp : IsOrdering shape d <;> simp [hp]
  | reshape s =>
    simp only [Tensor.applyInPlace, InPlace.toSpec, stepValue]
    rw [(Tensor.reshape_eq shape data t ht s).2, (Tensor.reshape_eq shape data t ht s).1]
    by_cases ha : Accepts s data.length <;> simp [ha]
  | rename d =>
    simp only [Tensor.applyInPlace, InPlace.toSpec, stepValue]
    rw [Tensor.rename_eq shape data t ht d (harity _ rfl)]
    by_cases hn : d.Nodup <;> simp [hn]
  | map f =>
    simp only [Tensor.applyInPlace, InPlace.toSpec, stepValue]
    rw [ht']
    rfl
  | mapi f =>
    simp only [Tensor.applyInPlace, InPlace.toSpec, stepValue]
    rw [Tensor.mapMutWithIndex_eq f shape data t ht, Tensor.mapWithIndex_eq f shape data t ht]

theorem applyAll_eq_spec [Inhabited ν] (steps : List (InPlace ν α)) (shape : Shape ν)
    (data : List α) (t : Tensor ν α) (ht : Tensor.tryFrom shape data = some t)
    (harity : ∀ step ∈ steps, ∀ k, step.arity = some k → k = shape.length) :
    t.applyAll steps =
      match runSteps ⟨shape, data⟩ (steps.map InPlace.toSpec) with
      | some v => .ok (Tensor.ofVal v)
      | none => .panic .explicit := by
  induction steps generalizing shape data t with
  | nil =>
    obtain ⟨_, ht'⟩ := (tryFrom_eq_some_iff shape data t).1 ht
    simp only [Tensor.applyAll, List.map_nil, runSteps, ht']
    rfl
  | cons step rest ih =>
    simp only [Tensor.applyAll, List.map_cons, runSteps]
    rw [applyInPlace_eq_spec shape data t ht step (harity step (by simp))]
    cases hv : stepValue ⟨shape, data⟩ step.toSpec with
    | none => rfl
    | some v =>
      simp only
      -- the intermediate tensor is again one the constructors accept, of the same dimensionality
      have hok : t.applyInPlace step = .ok (Tensor.ofVal v) := by
        rw [applyInPlace_eq_spec shape data t ht step (harity step (by simp)), hv]
      obtain ⟨s₁, d₁, hl₁, ht₁⟩ :=
        applyInPlace_valid shape data t _ ht step (harity step (by simp)) hok
      obtain ⟨_, he⟩ := (tryFrom_eq_some_iff s₁ d₁ _).1 ht₁
      have hs : s₁ = v.shape := by
        have := congrArg Tensor.shape he; simpa [Tensor.ofVal] using this.symm
      have hd : d₁ = v.elems := by
        have := congrArg Tensor.data he; simpa [Tensor.ofVal] using this.symm
      subst hs hd
      exact ih v.shape v.elems _ ht₁
        (fun st hst k hk => by rw [hl₁]; exact harity st (by simp [hst]) k hk)

end EasyMl
