/-
  EasyMl.Lemmas.WrapperOps — helper lemmas about `Outcome` sequencing for the Trace / Record
  operator models (property C19).  Core Lean only.
-/
import EasyMl.Model.WrapperOps

namespace EasyMl.Num

theorem bind_eq_ok {α β : Type} (x : Outcome α) (f : α → Outcome β) (r : β)
    (h : (x >>= f) = .ok r) : ∃ a, x = .ok a ∧ f a = .ok r := by
  cases x with
  | ok a => exact ⟨a, rfl, h⟩
  | panic k => cases h

theorem pure_eq_ok {α : Type} (a r : α) (h : (pure a : Outcome α) = .ok r) : a = r := by
  cases h; rfl

end EasyMl.Num
