/-
  EasyMl.Lemmas.ViewAccessors — what the accessors of a view answer (`length_of`,
  `last_index_of`, `get_names`, `source()` / `sources()`), and what the mutators of an existing
  adaptor (`set_names`, a source replaced through `source_ref_mut`) do to its index mapping.
-/
import EasyMl.Lemmas.ViewConstructors

namespace EasyMl
open EasyMl.Spec EasyMl.View

set_option linter.unusedSectionVars false

variable {ν : Type} [DecidableEq ν] [Inhabited ν] {α : Type}

/-- `length_of(name)` finds the length recorded for that name -/
theorem lengthOf_eq_some_iff {sh : Shape ν} (hn : (namesOf sh).Nodup) (n : ν) (l : Nat) :
    View.lengthOf sh n = some l ↔ (n, l) ∈ sh := by
  induction sh with
  | nil => simp [View.lengthOf]
  | cons d ds ih =>
    have hn' : d.1 ∉ namesOf ds ∧ (namesOf ds).Nodup := by simpa [namesOf] using hn
    by_cases hd : d.1 = n
    · have h1 : View.lengthOf (d :: ds) n = some d.2 := by simp [View.lengthOf, List.find?, hd]
      rw [h1]
      constructor
      · intro h
        simp only [Option.some.injEq] at h
        subst h; subst hd
        exact List.mem_cons_self
      · intro h
        rcases List.mem_cons.1 h with h | h
        · rw [← h]
        · exfalso
          apply hn'.1
          rw [hd]
          exact List.mem_map.2 ⟨(n, l), h, rfl⟩
    · have h1 : View.lengthOf (d :: ds) n = View.lengthOf ds n := by
        simp [View.lengthOf, List.find?, hd]
      rw [h1, ih hn'.2]
      constructor
      · intro h; exact List.mem_cons_of_mem _ h
      · intro h
        rcases List.mem_cons.1 h with h | h
        · exfalso; apply hd; rw [← h]
        · exact h

/-- … and nothing exactly when the name is not a dimension of the view -/
theorem lengthOf_eq_none_iff (sh : Shape ν) (n : ν) :
    View.lengthOf sh n = none ↔ n ∉ namesOf sh := by
  induction sh with
  | nil => simp [View.lengthOf, namesOf]
  | cons d ds ih =>
    by_cases hd : d.1 = n
    · simp [View.lengthOf, List.find?, hd, namesOf]
    · have h1 : View.lengthOf (d :: ds) n = View.lengthOf ds n := by
        simp [View.lengthOf, List.find?, hd]
      rw [h1, ih]
      simp only [namesOf, List.map_cons, List.mem_cons, not_or]
      constructor
      · intro h; exact ⟨fun e => hd e.symm, h⟩
      · intro h; exact h.2

/-- `last_index_of(name)` is the length minus one (lengths are at least one) -/
theorem lastIndexOf_eq_some_iff {sh : Shape ν} (hg : GoodShape sh) (n : ν) (k : Nat) :
    View.lastIndexOf sh n = some k ↔ (n, k + 1) ∈ sh := by
  have hn := (goodShape_iff.1 hg).1
  have hl := (goodShape_iff.1 hg).2
  simp only [View.lastIndexOf, Option.map_eq_some_iff]
  constructor
  · rintro ⟨l, hl1, rfl⟩
    have hm := (lengthOf_eq_some_iff hn n l).1 hl1
    have : 1 ≤ l := (hl l (List.mem_map.2 ⟨(n, l), hm, rfl⟩)).1
    have e : l - 1 + 1 = l := by omega
    rw [e]; exact hm
  · intro h
    exact ⟨k + 1, (lengthOf_eq_some_iff hn n (k + 1)).2 h, by omega⟩

/-- what `source()` / `sources()` hand out are well-formed views again -/
theorem View.sources_wf (v : View ν α) (hw : v.WF) : ∀ s ∈ v.sources, s.WF := by
  cases v with
  | tensor _ _ => simp [View.sources]
  | matrix _ _ _ _ => simp [View.sources]
  | matrixOf _ _ _ => simp [View.sources]
  | mrange _ _ _ => simp [View.sources]
  | mreverse _ _ _ => simp [View.sources]
  | tmap _ => simp [View.sources]
  | range _ _ => simp [View.sources]
  | mask _ _ => simp [View.sources]
  | index s p => simp only [View.WF] at hw; simpa [View.sources] using hw.1
  | expansion s e => simp only [View.WF] at hw; simpa [View.sources] using hw.1
  | rename s ns => simp only [View.WF] at hw; simpa [View.sources] using hw.1
  | reverse s r => simp only [View.WF] at hw; simpa [View.sources] using hw.1
  | access s m => simp only [View.WF] at hw; simpa [View.sources] using hw.1
  | transpose s m => simp only [View.WF] at hw; simpa [View.sources] using hw.1
  | stack ss along =>
    simp only [View.WF] at hw
    intro s hs
    simp only [View.sources] at hs
    exact (WFs_iff _).1 hw.1 s hs
  | chain ss along =>
    simp only [View.WF] at hw
    intro s hs
    simp only [View.sources] at hs
    exact (WFs_iff _).1 hw.1 s hs

/-- `get_names` of a `TensorRename` are the names of its shape -/
theorem View.getNames_spec (v : View ν α) (hw : v.WF) (ns : List ν) (h : v.getNames = some ns) :
    namesOf v.shape = ns := by
  cases v with
  | rename s old =>
    simp only [View.getNames, Option.some.injEq] at h
    subst h
    simp only [View.WF] at hw
    simp only [View.shape]
    exact renameShape_names hw.2.1
  | _ => simp [View.getNames] at h

/-- `set_names` is refused exactly for a repeated name; accepted, the view shows the new names
    over the same lengths and every index resolves to the cell it resolved to before -/
theorem View.setNames_spec (s : View ν α) (old dimensions : List ν) (hw : (View.rename s old).WF)
    (hl : dimensions.length = (View.rename s old).shape.length) :
    (((View.rename s old).setNames dimensions).2 = .panic .explicit ↔ ¬ dimensions.Nodup) ∧
    (dimensions.Nodup →
      ((View.rename s old).setNames dimensions).2 = .ok () ∧
      namesOf ((View.rename s old).setNames dimensions).1.shape = dimensions ∧
      lens ((View.rename s old).setNames dimensions).1.shape = lens (View.rename s old).shape ∧
      ((View.rename s old).setNames dimensions).1.leaves = (View.rename s old).leaves ∧
      ∀ idx, ((View.rename s old).setNames dimensions).1.specGet idx = (View.rename s old).specGet idx) := by
  simp only [View.WF] at hw
  have hlen : (View.rename s old).shape.length = s.shape.length := by
    simp only [View.shape]; exact renameShape_length hw.2.1
  have hl' : dimensions.length = s.shape.length := by omega
  constructor
  · by_cases hd : hasDuplicates dimensions = true
    · have : ¬ dimensions.Nodup := by
        intro h; rw [hasDuplicates_eq_false.2 h] at hd; exact Bool.false_ne_true hd
      simp [View.setNames, hd, this]
    · have hf : hasDuplicates dimensions = false := by simpa using hd
      simp [View.setNames, hf, hasDuplicates_eq_false.1 hf]
  · intro hnd
    have hf : hasDuplicates dimensions = false := hasDuplicates_eq_false.2 hnd
    have e : (View.rename s old).setNames dimensions = (View.rename s dimensions, .ok ()) := by
      simp [View.setNames, hf]
    rw [e]
    refine ⟨rfl, ?_, ?_, rfl, ?_⟩
    · simp only [View.shape]; exact renameShape_names hl'
    · simp only [View.shape]; rw [renameShape_lens hl', renameShape_lens hw.2.1]
    · intro idx
      simp only [View.specGet, View.shape, renameShape_lens hl', renameShape_lens hw.2.1, View.specCell]

/-- after `*adaptor.source_ref_mut() = source'` the adaptor (a rename, a reversal) keeps its own
    parameters and maps into the new source -/
theorem View.replaceSource_spec (v s s' : View ν α) (h : v.sourceOf = some s) :
    (v.replaceSource s').sourceOf = some s' ∧ (v.replaceSource s').sources = [s'] ∧
    v.replaceSource s = v ∧ (v.replaceSource s').leaves = s'.leaves := by
  cases v with
  | rename x ns =>
    simp only [View.sourceOf, Option.some.injEq] at h; subst h
    exact ⟨rfl, rfl, rfl, rfl⟩
  | reverse x r =>
    simp only [View.sourceOf, Option.some.injEq] at h; subst h
    exact ⟨rfl, rfl, rfl, rfl⟩
  | _ => simp [View.sourceOf] at h

end EasyMl
