/-
  EasyMl.Lemmas.DisplayValue — `format_view` (C18's model `Display.formatView`) depends on a view
  only through its shape and its elements at index tuples of the shape's dimensionality; hence a
  lazy view prints as the tensor storing its value (C13).
-/
import EasyMl.Model.Display
import EasyMl.Lemmas.Transform

namespace EasyMl
open EasyMl.Spec

theorem mapM_option_congr {β γ : Type} (f g : β → Option γ) (l : List β)
    (h : ∀ x ∈ l, f x = g x) : l.mapM f = l.mapM g := by
  induction l with
  | nil => rfl
  | cons x xs ih =>
    simp only [List.mapM_cons]
    rw [h x (by simp), ih fun y hy => h y (by simp [hy])]

theorem formatView_congr (shape : Shape String) (g₁ g₂ : List Nat → Option String)
    (h : ∀ idx, idx.length = shape.length → g₁ idx = g₂ idx) :
    Display.formatView shape g₁ = Display.formatView shape g₂ := by
  have hlen : (shape.map (·.2)).length = shape.length := by simp
  unfold Display.formatView
  simp only
  congr 1
  split
  · rename_i hl
    rw [hl] at hlen
    rw [h [] (by simpa using hlen)]
  · rename_i l hl
    rw [hl] at hlen
    have : (fun i => g₁ [i]) = fun i => g₂ [i] := funext fun i => h [i] (by simpa using hlen)
    rw [this]
  · rename_i r c hl
    rw [hl] at hlen
    have : (fun row column => g₁ [row, column]) = fun row column => g₂ [row, column] :=
      funext fun i => funext fun j => h [i, j] (by simpa using hlen)
    simp only [show ∀ row column, g₁ [row, column] = g₂ [row, column] from
      fun i j => h [i, j] (by simpa using hlen)]
  · rename_i b r c hl
    rw [hl] at hlen
    simp only [show ∀ x y z, g₁ [x, y, z] = g₂ [x, y, z] from
      fun i j k => h [i, j, k] (by simpa using hlen)]
  · congr 1
    apply mapM_option_congr
    intro idx hidx
    rw [shapeIndexes_eq_allIndexes] at hidx
    have := inBounds_length _ _ ((mem_allIndexes_iff _ idx).1 hidx)
    rw [h idx (by rw [this, hlen])]

end EasyMl
