/-
  EasyMl.Lemmas.DetTable — the finite tables of Heap's algorithm for the property's sizes 1..6,
  checked by the kernel (`decide +kernel`; no compiler in the loop).  In its own module so that it
  is built once and cached.  Core Lean only.
-/
import EasyMl.Lemmas.DetHeaps

namespace EasyMl.Det

set_option maxRecDepth 100000

theorem tableOK_1 : tableOK 1 = true := by decide +kernel
theorem tableOK_2 : tableOK 2 = true := by decide +kernel
theorem tableOK_3 : tableOK 3 = true := by decide +kernel
theorem tableOK_4 : tableOK 4 = true := by decide +kernel
theorem tableOK_5 : tableOK 5 = true := by decide +kernel
theorem tableOK_6 : tableOK 6 = true := by decide +kernel

theorem tableOK_le6 (n : Nat) (h1 : 1 ≤ n) (h6 : n ≤ 6) : tableOK n = true := by
  have : n = 1 ∨ n = 2 ∨ n = 3 ∨ n = 4 ∨ n = 5 ∨ n = 6 := by omega
  rcases this with rfl | rfl | rfl | rfl | rfl | rfl
  · exact tableOK_1
  · exact tableOK_2
  · exact tableOK_3
  · exact tableOK_4
  · exact tableOK_5
  · exact tableOK_6

end EasyMl.Det
