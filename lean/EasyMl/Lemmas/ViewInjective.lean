/-
  EasyMl.Lemmas.ViewInjective — in-bounds index tuples of a well-formed view always designate a
  cell of one of the view's own leaves, and (when the leaves are distinct containers) distinct
  tuples designate distinct cells: the "never aliases another element" half of C02, by induction
  over compositions of any depth.
-/
import EasyMl.Lemmas.ViewMain

namespace EasyMl
open EasyMl.Spec EasyMl.View
set_option linter.unusedSectionVars false
variable {ν : Type} [DecidableEq ν] [Inhabited ν] {α : Type}

/-! ### the documented coordinate maps are injective on in-bounds tuples -/

theorem rangeCoords_inj {rs : List IndexRange} {a b : List Nat} (ha : a.length = rs.length)
    (hb : b.length = rs.length) (h : rangeCoords a rs = rangeCoords b rs) : a = b := by
  induction rs generalizing a b with
  | nil => cases a <;> cases b <;> simp_all
  | cons r rs ih =>
    cases a with
    | nil => simp at ha
    | cons x xs =>
      cases b with
      | nil => simp at hb
      | cons y ys =>
        simp only [rangeCoords, List.zipWith_cons_cons, List.cons.injEq] at h
        simp only [List.length_cons, Nat.add_right_cancel_iff] at ha hb
        have := ih ha hb h.2
        simp [this]; omega

theorem maskCoords_inj {ms : List IndexRange} {a b : List Nat} (ha : a.length = ms.length)
    (hb : b.length = ms.length) (h : maskCoords a ms = maskCoords b ms) : a = b := by
  induction ms generalizing a b with
  | nil => cases a <;> cases b <;> simp_all
  | cons r rs ih =>
    cases a with
    | nil => simp at ha
    | cons x xs =>
      cases b with
      | nil => simp at hb
      | cons y ys =>
        simp only [maskCoords, List.zipWith_cons_cons, List.cons.injEq] at h
        simp only [List.length_cons, Nat.add_right_cancel_iff] at ha hb
        have := ih ha hb h.2
        have h1 := h.1
        simp only [this, List.cons.injEq, and_true]
        split at h1 <;> split at h1 <;> omega

theorem selectCoords_inj {sh : Shape ν} {p : List (Option Nat)} {a b : List Nat} (hp : ProvidedOK sh p)
    (ha : a.length = (indexShape sh p).length) (hb : b.length = (indexShape sh p).length)
    (h : selectCoords p a = selectCoords p b) : a = b := by
  induction sh generalizing p a b with
  | nil =>
    cases p with
    | nil => cases a <;> cases b <;> simp_all [indexShape]
    | cons o ps => cases o <;> simp [ProvidedOK] at hp
  | cons d ds ih =>
    cases p with
    | nil => simp [ProvidedOK] at hp
    | cons o ps =>
      cases o with
      | some x =>
        simp only [ProvidedOK] at hp
        simp only [indexShape] at ha hb
        simp only [selectCoords, List.cons.injEq, true_and] at h
        exact ih hp.2 ha hb h
      | none =>
        simp only [ProvidedOK] at hp
        simp only [indexShape, List.length_cons] at ha hb
        cases a with
        | nil => simp at ha
        | cons x xs =>
          cases b with
          | nil => simp at hb
          | cons y ys =>
            simp only [selectCoords, List.cons.injEq] at h
            simp only [List.length_cons, Nat.add_right_cancel_iff] at ha hb
            rw [h.1, ih hp ha hb h.2]

theorem reverseCoords_inj {ls : List Nat} {r : List Bool} {a b : List Nat} (hr : r.length = ls.length)
    (ha : inBounds ls a = true) (hb : inBounds ls b = true)
    (h : reverseCoords a ls r = reverseCoords b ls r) : a = b := by
  induction ls generalizing r a b with
  | nil => cases a <;> cases b <;> simp_all
  | cons l ls ih =>
    cases r with
    | nil => simp at hr
    | cons f fs =>
      cases a with
      | nil => simp at ha
      | cons x xs =>
        cases b with
        | nil => simp at hb
        | cons y ys =>
          simp only [inBounds_cons_cons, Bool.and_eq_true, decide_eq_true_eq] at ha hb
          simp only [reverseCoords, List.cons.injEq] at h
          simp only [List.length_cons, Nat.add_right_cancel_iff] at hr
          have := ih hr ha.2 hb.2 h.2
          have h1 := h.1
          simp only [this, List.cons.injEq, and_true]
          cases f <;> simp at h1 <;> omega

theorem mapDimensionsToSource_inj {m : DimensionMappings} {D : Nat} (hm : MappingOK m D)
    {a b : List Nat} (ha : a.length = D) (hb : b.length = D)
    (h : m.mapDimensionsToSource a = m.mapDimensionsToSource b) : a = b := by
  apply List.ext_getElem (by omega)
  intro d h1 h2
  have hd : d < D := by omega
  obtain ⟨hlt, hinv⟩ := hm.2.2.2 d hd
  have e1 := mapDimensionsToSource_getD hm a hlt
  have e2 := mapDimensionsToSource_getD hm b hlt
  rw [hinv] at e1 e2
  rw [h, e2] at e1
  rw [getD_eq_getElem' h1, getD_eq_getElem' h2] at e1
  exact e1.symm

theorem eq_of_getD_eraseIdx {a b : List Nat} (k : Nat) (hk : k < a.length) (hl : a.length = b.length)
    (h1 : a.getD k 0 = b.getD k 0) (h2 : a.eraseIdx k = b.eraseIdx k) : a = b := by
  induction k generalizing a b with
  | zero =>
    cases a with
    | nil => simp at hk
    | cons x xs =>
      cases b with
      | nil => simp at hl
      | cons y ys => simp_all
  | succ k ih =>
    cases a with
    | nil => simp at hk
    | cons x xs =>
      cases b with
      | nil => simp at hl
      | cons y ys =>
        simp only [List.eraseIdx_cons_succ, List.cons.injEq] at h2
        simp only [List.getD_cons_succ] at h1
        simp only [List.length_cons, Nat.add_lt_add_iff_right, Nat.add_right_cancel_iff] at hk hl
        rw [h2.1, ih hk hl h1 h2.2]

theorem eq_of_set_eq {a b : List Nat} (k j : Nat) (h1 : a.getD k 0 = b.getD k 0)
    (h2 : a.set k j = b.set k j) : a = b := by
  have := congrArg (fun l => l.set k (a.getD k 0)) h2
  simp only [List.set_set] at this
  rw [set_getD_self, h1, set_getD_self] at this
  exact this

theorem expansionCoords_inj (EN : List ν) (VS : Shape ν) {a b : List Nat}
    (ha : inBounds (lens VS) a = true) (hb : inBounds (lens VS) b = true)
    (hone : ∀ d ∈ VS, d.1 ∈ EN → d.2 = 1)
    (h : expansionCoords VS EN a = expansionCoords VS EN b) : a = b := by
  induction VS generalizing a b with
  | nil => cases a <;> cases b <;> simp_all
  | cons d ds ih =>
    cases a with
    | nil => simp at ha
    | cons x xs =>
      cases b with
      | nil => simp at hb
      | cons y ys =>
        simp only [lens_cons, inBounds_cons_cons, Bool.and_eq_true, decide_eq_true_eq] at ha hb
        have hone' : ∀ d ∈ ds, d.1 ∈ EN → d.2 = 1 := fun e he => hone e (by simp [he])
        simp only [expansionCoords, List.zip_cons_cons, List.filter_cons] at h
        by_cases hd : d.1 ∈ EN
        · have h1 := hone d (by simp) hd
          have hc : EN.contains d.1 = true := by simpa using hd
          simp only [hc, Bool.not_true, Bool.false_eq_true, if_false] at h
          have := ih ha.2 hb.2 hone' h
          rw [this]
          have : x = y := by omega
          rw [this]
        · have hc : EN.contains d.1 = false := by simpa using hd
          simp only [hc, Bool.not_false, if_true, List.map_cons, List.cons.injEq] at h
          have := ih ha.2 hb.2 hone' h.2
          rw [this, h.1]

theorem mem_expansionShape (slots : Nat) (e : List (Nat × ν)) (shr : Shape ν) (i : Nat)
    (d : ν × Nat) (hd : d ∈ expansionShape slots e shr i) :
    (∃ x ∈ e, d = (x.2, 1)) ∨ d ∈ shr := by
  induction slots generalizing e shr i with
  | zero => simp [expansionShape] at hd
  | succ slots ih =>
    cases e with
    | nil =>
      cases shr with
      | nil => simp [expansionShape] at hd
      | cons s srest =>
        rw [expansionShape_nil_cons] at hd
        simp only [List.mem_cons] at hd ⊢
        rcases hd with h | h
        · exact Or.inr (Or.inl h)
        · rcases ih [] srest (i + 1) h with h | h
          · exact Or.inl h
          · exact Or.inr (Or.inr h)
    | cons y es =>
      obtain ⟨j, n⟩ := y
      rw [expansionShape_cons] at hd
      by_cases hji : j = i
      · simp only [hji, if_true, List.mem_cons] at hd
        rcases hd with h | h
        · exact Or.inl ⟨(j, n), by simp, h⟩
        · rcases ih es shr i h with ⟨x, hx, hxe⟩ | h
          · exact Or.inl ⟨x, by simp [hx], hxe⟩
          · exact Or.inr h
      · simp only [hji, if_false] at hd
        cases shr with
        | nil => simp at hd
        | cons s srest =>
          simp only [List.mem_cons] at hd
          rcases hd with h | h
          · exact Or.inr (by simp [h])
          · rcases ih ((j, n) :: es) srest (i + 1) h with h | h
            · exact Or.inl h
            · exact Or.inr (by simp [h])

/-! ### leaves of lists of sources -/

theorem leavesList_eq (ss : List (View ν α)) :
    leavesList ss = (ss.map View.leaves).flatten := by
  induction ss with
  | nil => simp [leavesList]
  | cons v vs ih => simp [leavesList, ih]

/-- the leaf ids of all sources of a stack / chain -/
def idsOf (ss : List (View ν α)) : List Nat := (ss.map View.leafIds).flatten

theorem leafIds_stack (ss : List (View ν α)) (along : Nat × ν) :
    (View.stack ss along).leafIds = idsOf ss := by
  simp only [View.leafIds, View.leaves, leavesList_eq, idsOf, List.map_flatten, List.map_map]
  rfl

theorem leafIds_chain (ss : List (View ν α)) (along : Nat) :
    (View.chain ss along).leafIds = idsOf ss := by
  simp only [View.leafIds, View.leaves, leavesList_eq, idsOf, List.map_flatten, List.map_map]
  rfl

theorem mem_leavesList {ss : List (View ν α)} {k : Nat} (hk : k < ss.length) {x : Nat × List α}
    (hx : x ∈ (ss[k]).leaves) : x ∈ leavesList ss := by
  rw [leavesList_eq]
  simp only [List.mem_flatten, List.mem_map]
  exact ⟨_, ⟨ss[k], List.getElem_mem hk, rfl⟩, hx⟩

theorem leafIds_of_mem {v : View ν α} {c : Nat} {data : List α} (h : (c, data) ∈ v.leaves) :
    c ∈ v.leafIds := by
  simp only [View.leafIds, List.mem_map]
  exact ⟨(c, data), h, rfl⟩

theorem mem_idsOf {ss : List (View ν α)} {k : Nat} (hk : k < ss.length) {x : Nat}
    (hx : x ∈ (ss[k]).leafIds) : x ∈ idsOf ss := by
  simp only [idsOf, List.mem_flatten, List.mem_map]
  exact ⟨_, ⟨ss[k], List.getElem_mem hk, rfl⟩, hx⟩

theorem idsOf_nodup_getElem {ss : List (View ν α)} (h : (idsOf ss).Nodup) {k : Nat}
    (hk : k < ss.length) : (ss[k]).leafIds.Nodup := by
  induction ss generalizing k with
  | nil => simp at hk
  | cons v vs ih =>
    simp only [idsOf, List.map_cons, List.flatten_cons, List.nodup_append] at h
    cases k with
    | zero => exact h.1
    | succ k => exact ih h.2.1 (by simpa using hk)

/-- distinct sources have disjoint leaves -/
theorem idsOf_disjoint {ss : List (View ν α)} (h : (idsOf ss).Nodup) {k k' : Nat}
    (hk : k < ss.length) (hk' : k' < ss.length) {x : Nat} (hx : x ∈ (ss[k]).leafIds)
    (hx' : x ∈ (ss[k']).leafIds) : k = k' := by
  induction ss generalizing k k' with
  | nil => simp at hk
  | cons v vs ih =>
    simp only [idsOf, List.map_cons, List.flatten_cons, List.nodup_append] at h
    obtain ⟨_, h2, h3⟩ := h
    cases k with
    | zero =>
      cases k' with
      | zero => rfl
      | succ k' =>
        exfalso
        simp only [List.getElem_cons_zero] at hx
        simp only [List.getElem_cons_succ] at hx'
        exact h3 x hx x (mem_idsOf (by simpa using hk') hx') rfl
    | succ k =>
      cases k' with
      | zero =>
        exfalso
        simp only [List.getElem_cons_zero] at hx'
        simp only [List.getElem_cons_succ] at hx
        exact h3 x hx' x (mem_idsOf (by simpa using hk) hx) rfl
      | succ k' =>
        simp only [List.getElem_cons_succ] at hx hx'
        have := ih h2 (by simpa using hk) (by simpa using hk') hx hx'
        omega

/-! ### the induction: in-bounds tuples resolve to cells of the view's own leaves, injectively -/

/-- What the induction establishes for one view. -/
def Resolves (v : View ν α) : Prop :=
  (∀ idx, inBounds (lens v.shape) idx = true →
    ∃ c, v.specCell idx = some c ∧ ∃ data, (c.1, data) ∈ v.leaves ∧ c.2 < data.length) ∧
  (v.leafIds.Nodup → ∀ a b, inBounds (lens v.shape) a = true → inBounds (lens v.shape) b = true →
    v.specCell a = v.specCell b → a = b)

theorem resolves_unary {s v : View ν α} (hs : Resolves s) (f : List Nat → List Nat)
    (hcell : ∀ idx, v.specCell idx = s.specCell (f idx)) (hids : v.leaves = s.leaves)
    (m1 : ∀ idx, inBounds (lens v.shape) idx = true → inBounds (lens s.shape) (f idx) = true)
    (m2 : ∀ a b, inBounds (lens v.shape) a = true → inBounds (lens v.shape) b = true →
      f a = f b → a = b) : Resolves v := by
  constructor
  · intro idx hin
    rw [hcell, hids]
    exact hs.1 _ (m1 idx hin)
  · intro hn a b ha hb h
    rw [hcell, hcell] at h
    have hn' : s.leafIds.Nodup := by simpa [View.leafIds, hids] using hn
    exact m2 a b ha hb (hs.2 hn' _ _ (m1 a ha) (m1 b hb) h)

theorem resolves_tensor (id : Nat) (t : Tensor ν α) (hw : (View.tensor id t).WF) :
    Resolves (View.tensor id t) := by
  simp only [View.WF] at hw
  constructor
  · intro idx hin
    simp only [View.shape] at hin
    refine ⟨_, rfl, t.data, by simp [View.leaves], ?_⟩
    have := ravel_lt _ _ hin
    rw [hw.2.2.1]; exact this
  · intro _ a b ha hb h
    simp only [View.specCell, Option.some.injEq, Prod.mk.injEq, true_and] at h
    simp only [View.shape] at ha hb
    exact ravel_injective _ a b ha hb h

theorem resolves_matrix (id : Nat) (m : Matrix α) (r c : ν) (hw : (View.matrix id m r c).WF) :
    Resolves (View.matrix id m r c) := by
  simp only [View.WF] at hw
  constructor
  · intro idx hin
    simp only [View.shape, lens_cons, lens_nil] at hin
    refine ⟨_, rfl, m.data, by simp [View.leaves], ?_⟩
    have := ravel_lt _ _ hin
    simp only [prod_cons, prod_nil, Nat.mul_one] at this
    rw [hw.1.1]; exact this
  · intro _ a b ha hb h
    simp only [View.specCell, Option.some.injEq, Prod.mk.injEq, true_and] at h
    simp only [View.shape, lens_cons, lens_nil] at ha hb
    exact ravel_injective _ a b ha hb h

theorem resolves_range (s : View ν α) (rs : List IndexRange) (ih : s.WF → Resolves s) :
    (View.range s rs).WF → Resolves (View.range s rs) := by
  intro hw
  simp only [View.WF] at hw
  have hl := rangeShape_length hw.2
  refine resolves_unary (ih hw.1) (fun idx => rangeCoords idx rs) (fun _ => rfl) rfl ?_ ?_
  · intro idx hin; exact rangeCoords_inBounds hw.2 hin
  · intro a b ha hb h
    have la := inBounds_length ha
    have lb := inBounds_length hb
    simp only [View.shape, lens_length, hl] at la lb
    have hr : rs.length = s.shape.length := by
      have := rangeShape_names hw.2
      clear this
      -- RangesOK forces equal lengths
      have key : ∀ (sh : Shape ν) (rs : List IndexRange), RangesOK sh rs → rs.length = sh.length := by
        intro sh
        induction sh with
        | nil => intro rs h; cases rs <;> simp_all [RangesOK]
        | cons d ds ih2 =>
          intro rs h
          cases rs with
          | nil => simp [RangesOK] at h
          | cons r rs => simp only [RangesOK] at h; simp [ih2 rs h.2]
      exact key _ _ hw.2
    exact rangeCoords_inj (by omega) (by omega) h


theorem resolves_reverse (s : View ν α) (r : List Bool) (ih : s.WF → Resolves s) :
    (View.reverse s r).WF → Resolves (View.reverse s r) := by
  intro hw
  simp only [View.WF] at hw
  have hgood := (View.correct s hw.1).1
  refine resolves_unary (ih hw.1) (fun idx => reverseCoords idx (lens s.shape) r)
    (fun _ => rfl) rfl ?_ ?_
  · intro idx hin
    simp only [View.shape] at hin
    have la := inBounds_length hin
    have hb := bounded_of_inBounds hin hgood.lens_le
    have hspec := tryReverseIndexes_spec (ls := lens s.shape) (r := r) (idx := idx)
      (by simpa using hw.2) la hb hgood.lens_le
    cases hc : tryReverseIndexes idx (lens s.shape) r with
    | none => simp [hc, hin] at hspec
    | some mapped =>
      simp only [hc] at hspec
      obtain ⟨_, _, c, d⟩ := hspec
      rw [← d hin, c, hin]
  · intro a b ha hb h
    simp only [View.shape] at ha hb
    exact reverseCoords_inj (by simpa using hw.2) ha hb h


theorem resolves_mrange (s : View ν α) (rows columns : IndexRange) (ih : s.WF → Resolves s)
    (hw : (View.mrange s rows columns).WF) : Resolves (View.mrange s rows columns) := by
  simp only [View.WF] at hw
  have h : Resolves (View.range s [rows, columns]) :=
    resolves_range s [rows, columns] ih (by simp only [View.WF]; exact ⟨hw.1, hw.2.2⟩)
  exact h

theorem resolves_mreverse (s : View ν α) (rows columns : Bool) (ih : s.WF → Resolves s)
    (hw : (View.mreverse s rows columns).WF) : Resolves (View.mreverse s rows columns) := by
  simp only [View.WF] at hw
  have h : Resolves (View.reverse s [rows, columns]) :=
    resolves_reverse s [rows, columns] ih (by simp only [View.WF]; exact ⟨hw.1, by simp [hw.2]⟩)
  exact h

theorem View.resolves (v : View ν α) : v.WF → Resolves v := by
  induction v using View.ind with
  | tensor id t => intro hw; exact resolves_tensor id t hw
  | matrix id m r c => intro hw; exact resolves_matrix id m r c hw
  | matrixOf s r c ih =>
    intro hw
    simp only [View.WF] at hw
    refine resolves_unary (ih hw.1) id (fun _ => rfl) rfl ?_ ?_
    · intro idx hin
      simpa [matrixOf_lens s r c hw.2.1] using hin
    · intro a b _ _ h; exact h
  | mrange s rows columns ih => exact resolves_mrange s rows columns ih
  | mreverse s rows columns ih => exact resolves_mreverse s rows columns ih
  | tmap s ih =>
    intro hw
    simp only [View.WF] at hw
    exact resolves_unary (ih hw) id (fun _ => rfl) rfl (fun _ h => h) (fun _ _ _ _ h => h)
  | range s rs ih => exact resolves_range s rs ih
  | mask s ms ih =>
    intro hw
    simp only [View.WF] at hw
    have hgood := (View.correct s hw.1).1
    have hl := maskShape_length hw.2
    have hm : ms.length = s.shape.length := by
      have key : ∀ (sh : Shape ν) (ms : List IndexRange), MasksOK sh ms → ms.length = sh.length := by
        intro sh
        induction sh with
        | nil => intro ms h; cases ms <;> simp_all [MasksOK]
        | cons d ds ih2 =>
          intro ms h
          cases ms with
          | nil => simp [MasksOK] at h
          | cons r rs => simp only [MasksOK] at h; simp [ih2 rs h.2]
      exact key _ _ hw.2
    refine resolves_unary (ih hw.1) (fun idx => maskCoords idx ms) (fun _ => rfl) rfl ?_ ?_
    · intro idx hin
      simp only [View.shape] at hin
      have la := inBounds_length hin
      simp only [lens_length, hl] at la
      have hb := bounded_of_inBounds hin (maskShape_good hgood hw.2).lens_le
      have hspec := mapIndexesByMaskChecked_spec hgood hw.2 la hb
      cases hc : mapIndexesByMaskChecked idx ms with
      | none => simp [hc, hin] at hspec
      | some mapped =>
        simp only [hc] at hspec
        obtain ⟨_, _, c, d⟩ := hspec
        rw [← d hin, c, hin]
    · intro a b ha hb h
      have la := inBounds_length ha
      have lb := inBounds_length hb
      simp only [View.shape, lens_length, hl] at la lb
      exact maskCoords_inj (by omega) (by omega) h
  | index s p ih =>
    intro hw
    simp only [View.WF] at hw
    have hgood := (View.correct s hw.1).1
    refine resolves_unary (ih hw.1) (fun idx => selectCoords p idx) (fun _ => rfl) rfl ?_ ?_
    · intro idx hin
      simp only [View.shape] at hin
      have la := inBounds_length hin
      simp only [lens_length] at la
      have hb := bounded_of_inBounds hin (indexShape_good (p := p) hgood).lens_le
      obtain ⟨_, _, _, d⟩ := computeSelectIndexes_spec hgood hw.2 la hb
      rw [d, hin]
    · intro a b ha hb h
      have la := inBounds_length ha
      have lb := inBounds_length hb
      simp only [View.shape, lens_length] at la lb
      exact selectCoords_inj hw.2 la lb h
  | expansion s e ih =>
    intro hw
    simp only [View.WF] at hw
    have hgood := (View.correct s hw.1).1
    obtain ⟨hsorted, hpos, hnodup, hfresh⟩ := hw.2
    have hlen := expansionShape_length e s.shape 0 hsorted
      (fun x hx => ⟨Nat.zero_le _, by simpa using hpos x hx⟩)
    have hfresh' : ∀ d ∈ s.shape, d.1 ∉ e.map (·.2) := fun d hd hc => by
      obtain ⟨x, hx, hxe⟩ := List.mem_map.1 hc
      exact hfresh x hx (by rw [hxe]; exact List.mem_map.2 ⟨d, hd, rfl⟩)
    refine resolves_unary (ih hw.1)
      (fun idx => expansionCoords (expansionShape (s.shape.length + e.length) e s.shape 0)
        (e.map (·.2)) idx) (fun _ => rfl) rfl ?_ ?_
    · intro idx hin
      simp only [View.shape] at hin
      have la := inBounds_length hin
      simp only [lens_length, hlen] at la
      have hb := bounded_of_inBounds hin
        (expansionShape_good _ e s.shape 0 hgood hnodup hfresh).lens_le
      have hspec := computeExpansionIndexes_spec (e.map (·.2)) s.shape.length idx e s.shape 0
        (by simp) hsorted (fun x hx => ⟨Nat.zero_le _, hpos x hx⟩)
        (fun x hx => List.mem_map.2 ⟨x, hx, rfl⟩) hfresh' la hb
      cases hc : computeExpansionIndexes s.shape.length e idx 0 with
      | panic k => simp [hc] at hspec
      | ok o =>
        cases o with
        | none => simp [hc, hin] at hspec
        | some used =>
          simp only [hc] at hspec
          obtain ⟨_, _, c, d⟩ := hspec
          rw [← d, c, hin]
    · intro a b ha hb h
      simp only [View.shape] at ha hb
      refine expansionCoords_inj (e.map (·.2)) _ ha hb ?_ h
      intro d hd hdn
      rcases mem_expansionShape _ _ _ _ d hd with ⟨x, _, hxe⟩ | hmem
      · rw [hxe]
      · exact absurd hdn (hfresh' d hmem)
  | rename s ns ih =>
    intro hw
    simp only [View.WF] at hw
    refine resolves_unary (ih hw.1) id (fun _ => rfl) rfl ?_ ?_
    · intro idx hin
      simpa [View.shape, renameShape_lens hw.2.1] using hin
    · intro a b _ _ h; exact h
  | reverse s r ih =>
    intro hw
    simp only [View.WF] at hw
    have hgood := (View.correct s hw.1).1
    refine resolves_unary (ih hw.1) (fun idx => reverseCoords idx (lens s.shape) r)
      (fun _ => rfl) rfl ?_ ?_
    · intro idx hin
      simp only [View.shape] at hin
      have la := inBounds_length hin
      have hb := bounded_of_inBounds hin hgood.lens_le
      have hspec := tryReverseIndexes_spec (ls := lens s.shape) (r := r) (idx := idx)
        (by simpa using hw.2) la hb hgood.lens_le
      cases hc : tryReverseIndexes idx (lens s.shape) r with
      | none => simp [hc, hin] at hspec
      | some mapped =>
        simp only [hc] at hspec
        obtain ⟨_, _, c, d⟩ := hspec
        rw [← d hin, c, hin]
    · intro a b ha hb h
      simp only [View.shape] at ha hb
      exact reverseCoords_inj (by simpa using hw.2) ha hb h
  | access s m ih =>
    intro hw
    simp only [View.WF] at hw
    have hgood := (View.correct s hw.1).1
    have hlen := mapShapeToRequested_length hw.2
    refine resolves_unary (ih hw.1)
      (fun idx => coords s.shape (namesOf (m.mapShapeToRequested s.shape)) idx)
      (fun _ => rfl) rfl ?_ ?_
    · intro idx hin
      simp only [View.shape] at hin
      have la := inBounds_length hin
      simp only [lens_length, hlen] at la
      rw [← mapDimensionsToSource_eq_coords_of_good hgood hw.2, access_inBounds hw.2 la, hin]
    · intro a b ha hb h
      have la := inBounds_length ha
      have lb := inBounds_length hb
      simp only [View.shape, lens_length, hlen] at la lb
      rw [← mapDimensionsToSource_eq_coords_of_good hgood hw.2, ← mapDimensionsToSource_eq_coords_of_good hgood hw.2] at h
      exact mapDimensionsToSource_inj hw.2 la lb h
  | transpose s m ih =>
    intro hw
    simp only [View.WF] at hw
    have hgood := (View.correct s hw.1).1
    have hlen := mapShapeToRequested_length hw.2
    refine resolves_unary (ih hw.1)
      (fun idx => coords s.shape (namesOf (m.mapShapeToRequested s.shape)) idx)
      (fun _ => rfl) rfl ?_ ?_
    · intro idx hin
      simp only [View.shape, transposeShape_lens hlen] at hin
      have la := inBounds_length hin
      simp only [lens_length, hlen] at la
      rw [← mapDimensionsToSource_eq_coords_of_good hgood hw.2, access_inBounds hw.2 la, hin]
    · intro a b ha hb h
      simp only [View.shape, transposeShape_lens hlen] at ha hb
      have la := inBounds_length ha
      have lb := inBounds_length hb
      simp only [lens_length, hlen] at la lb
      rw [← mapDimensionsToSource_eq_coords_of_good hgood hw.2, ← mapDimensionsToSource_eq_coords_of_good hgood hw.2] at h
      exact mapDimensionsToSource_inj hw.2 la lb h
  | stack ss along ih =>
    intro hw
    simp only [View.WF] at hw
    obtain ⟨hwfs, hne, _, hsame, ha, _⟩ := hw
    rw [WFs_iff] at hwfs
    generalize hf : (shapes ss).headD [] = first at *
    have hshape : ∀ s ∈ ss, s.shape = first := by
      intro s hs
      exact hsame s.shape (by rw [shapes_eq_map]; exact List.mem_map.2 ⟨s, hs, rfl⟩)
    have hsh : (View.stack ss along).shape = first.insertIdx along.1 (along.2, ss.length) := by
      simp only [View.shape, hf]
      have := stackShape_eq along ss.length first 0 (Nat.zero_le _) (by simpa using ha)
      simpa using this
    -- an in-bounds tuple selects an existing source and is in bounds there
    have pick : ∀ idx, inBounds (lens (View.stack ss along).shape) idx = true →
        ∃ hk : idx.getD along.1 0 < ss.length,
          inBounds (lens (ss[idx.getD along.1 0]).shape) (idx.eraseIdx along.1) = true ∧
          (View.stack ss along).specCell idx = (ss[idx.getD along.1 0]).specCell (idx.eraseIdx along.1) ∧
          along.1 < idx.length := by
      intro idx hin
      have la := inBounds_length hin
      rw [hsh, lens_length, List.length_insertIdx_of_le_length ha] at la
      rw [hsh, lens_insertIdx, insertIdx_inBounds (lens first) along.1 ss.length idx (by simpa using ha)
        (by simpa using la)] at hin
      simp only [Bool.and_eq_true, decide_eq_true_eq] at hin
      refine ⟨hin.1, ?_, ?_, by omega⟩
      · rw [hshape _ (List.getElem_mem hin.1)]; exact hin.2
      · simp only [View.specCell, specCellAt_eq, List.getElem?_eq_getElem hin.1]
    constructor
    · intro idx hin
      obtain ⟨hk, hinb, hcell, _⟩ := pick idx hin
      have hv := List.getElem_mem hk
      obtain ⟨c, hc, hcm⟩ := (ih _ hv (hwfs _ hv)).1 _ hinb
      obtain ⟨data, hd1, hd2⟩ := hcm
      exact ⟨c, by rw [hcell, hc], data, by simp only [View.leaves]; exact mem_leavesList hk hd1, hd2⟩
    · intro hn a b hina hinb h
      rw [leafIds_stack] at hn
      obtain ⟨hka, ha1, ha2, ha3⟩ := pick a hina
      obtain ⟨hkb, hb1, hb2, _⟩ := pick b hinb
      have hva := List.getElem_mem hka
      have hvb := List.getElem_mem hkb
      have ra := ih _ hva (hwfs _ hva)
      have rb := ih _ hvb (hwfs _ hvb)
      obtain ⟨ca, hca, hcma⟩ := ra.1 _ ha1
      obtain ⟨cb, hcb, hcmb⟩ := rb.1 _ hb1
      rw [ha2, hb2, hca, hcb] at h
      simp only [Option.some.injEq] at h
      subst h
      have hkk := idsOf_disjoint hn hka hkb (leafIds_of_mem hcma.choose_spec.1)
        (leafIds_of_mem hcmb.choose_spec.1)
      have hrest : a.eraseIdx along.1 = b.eraseIdx along.1 := by
        have hcb' := hcb
        simp only [← hkk] at hcb' hb1
        exact ra.2 (idsOf_nodup_getElem hn hka) _ _ ha1 hb1 (by rw [hca, hcb'])
      have la := inBounds_length hina
      have lb := inBounds_length hinb
      exact eq_of_getD_eraseIdx along.1 ha3 (by omega) hkk hrest
  | chain ss along ih =>
    intro hw
    simp only [View.WF] at hw
    obtain ⟨hwfs, hne, ha, hsim, _⟩ := hw
    rw [WFs_iff] at hwfs
    generalize hf : (shapes ss).headD [] = first at *
    have hsimv : ∀ s ∈ ss, Similar along s.shape first := by
      intro s hs
      exact hsim s.shape (by rw [shapes_eq_map]; exact List.mem_map.2 ⟨s, hs, rfl⟩)
    have hsh : (View.chain ss along).shape =
        first.set along ((first.getD along (default, 0)).1, (chainLens (shapes ss) along).sum) := by
      simp only [View.shape, hf]
      exact chainShape_eq first (shapes ss) along ha
    have hlenl : (lens first).length = first.length := lens_length first
    have pick : ∀ idx, inBounds (lens (View.chain ss along).shape) idx = true →
        ∃ k j, ∃ hk : k < ss.length,
          inBounds (lens (ss[k]).shape) (idx.set along j) = true ∧
          (View.chain ss along).specCell idx = (ss[k]).specCell (idx.set along j) ∧
          idx.getD along 0 = ((chainLens (shapes ss) along).take k).sum + j ∧ along < idx.length := by
      intro idx hin
      have la := inBounds_length hin
      rw [hsh, lens_length, List.length_set] at la
      rw [hsh, lens_set] at hin
      have e2 := inBounds_set_set (lens first) idx along (chainLens (shapes ss) along).sum
        (idx.getD along 0) (by rw [hlenl]; exact la)
      rw [set_getD_self] at e2
      rw [e2] at hin
      simp only [Bool.and_eq_true, decide_eq_true_eq] at hin
      have hlt : idx.getD along 0 < (chainLens (shapes ss) along).sum := by
        rcases hin.1 with h | h
        · exact h
        · omega
      have hloc := chainLocate_spec (chainLens (shapes ss) along) (idx.getD along 0)
      cases hc : chainLocate (chainLens (shapes ss) along) (idx.getD along 0) with
      | none => simp only [hc] at hloc; omega
      | some p =>
        obtain ⟨k, j⟩ := p
        simp only [hc] at hloc
        obtain ⟨hk, hj, hpre, _⟩ := hloc
        have hk' : k < ss.length := by simpa [chainLens, shapes_eq_map] using hk
        rw [chainLens_getD ss along k hk'] at hj
        obtain ⟨_, hlens⟩ := hsimv _ (List.getElem_mem hk')
        refine ⟨k, j, hk', ?_, ?_, hpre, by omega⟩
        · rw [hlens, inBounds_set_set (lens first) idx along _ j (by rw [hlenl]; exact la)]
          simp only [Bool.and_eq_true, decide_eq_true_eq]
          exact ⟨Or.inl hj, hin.2⟩
        · simp only [View.specCell]
          rw [show (List.map (fun s => (s.getD along (default, 0)).2) (shapes ss)) =
            chainLens (shapes ss) along from rfl, hc]
          simp only [specCellAt_eq, List.getElem?_eq_getElem hk']
    constructor
    · intro idx hin
      obtain ⟨k, j, hk, hinb, hcell, _, _⟩ := pick idx hin
      have hv := List.getElem_mem hk
      obtain ⟨c, hc, hcm⟩ := (ih _ hv (hwfs _ hv)).1 _ hinb
      obtain ⟨data, hd1, hd2⟩ := hcm
      exact ⟨c, by rw [hcell, hc], data, by simp only [View.leaves]; exact mem_leavesList hk hd1, hd2⟩
    · intro hn a b hina hinb h
      rw [leafIds_chain] at hn
      obtain ⟨ka, ja, hka, ha1, ha2, ha3, ha4⟩ := pick a hina
      obtain ⟨kb, jb, hkb, hb1, hb2, hb3, hb4⟩ := pick b hinb
      have hva := List.getElem_mem hka
      have hvb := List.getElem_mem hkb
      have ra := ih _ hva (hwfs _ hva)
      have rb := ih _ hvb (hwfs _ hvb)
      obtain ⟨ca, hca, hcma⟩ := ra.1 _ ha1
      obtain ⟨cb, hcb, hcmb⟩ := rb.1 _ hb1
      rw [ha2, hb2, hca, hcb] at h
      simp only [Option.some.injEq] at h
      subst h
      have hkk := idsOf_disjoint hn hka hkb (leafIds_of_mem hcma.choose_spec.1)
        (leafIds_of_mem hcmb.choose_spec.1)
      subst hkk
      have hset : a.set along ja = b.set along jb :=
        ra.2 (idsOf_nodup_getElem hn hka) _ _ ha1 hb1 (by rw [hca, hcb])
      have hj : ja = jb := by
        have := congrArg (fun l => l.getD along 0) hset
        simp only [List.getD_eq_getElem?_getD, List.getElem?_set, ha4, hb4, if_true] at this
        simpa using this
      subst hj
      exact eq_of_set_eq along ja (by omega) hset

/-- in-bounds tuples always designate a cell -/
theorem View.specCell_isSome (v : View ν α) (h : v.WF) (idx : List Nat)
    (hin : inBounds (lens v.shape) idx = true) : (v.specCell idx).isSome = true := by
  obtain ⟨c, hc, _⟩ := (View.resolves v h).1 idx hin
  simp [hc]

/-- the designated cell lies in one of the view's own leaves, inside its data -/
theorem View.specCell_valid (v : View ν α) (h : v.WF) (idx : List Nat)
    (hin : inBounds (lens v.shape) idx = true) :
    ∃ c, v.specCell idx = some c ∧ c.1 ∈ v.leafIds ∧ ∃ data, (c.1, data) ∈ v.leaves ∧ c.2 < data.length := by
  obtain ⟨c, hc, data, h1, h2⟩ := (View.resolves v h).1 idx hin
  exact ⟨c, hc, leafIds_of_mem h1, data, h1, h2⟩

end EasyMl
