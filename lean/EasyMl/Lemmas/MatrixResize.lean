/-
  EasyMl.Lemmas.MatrixResize — helper lemmas for property C11 (matrix resizing histories).

  Plan of the file
  0. representation: a matrix satisfying `Matrix.Inv` is `ofRows rs c` (`rs` rectangular), and
     `toRows (ofRows rs c) = rs`; cells of `toRows` are `tryGet`.
  1. one section per operation of `Matrix.Op`: its effect on `ofRows rs c`.
  2. `exec_spec`: the complete behaviour of every operation on an invariant-satisfying matrix.
-/
import EasyMl.Model.MatrixResize
import EasyMl.Spec.MatrixResize

namespace EasyMl
namespace Matrix

variable {α : Type}

/-! ## 0. representation -/

/-- all rows have length `c` -/
def Rect (c : Nat) (rs : Rows α) : Prop := ∀ r ∈ rs, r.length = c

/-- the matrix stored for a list of rows of length `c` -/
def ofRows (rs : Rows α) (c : Nat) : Matrix α := ⟨rs.flatten, rs.length, c⟩

theorem Rect.nil (c : Nat) : Rect c ([] : Rows α) := by intro r h; cases h

theorem Rect.cons {c : Nat} {x : List α} {rs : Rows α} (hx : x.length = c) (h : Rect c rs) :
    Rect c (x :: rs) := by
  intro r hr
  cases hr with
  | head => exact hx
  | tail _ h' => exact h r h'

theorem Rect.head {c : Nat} {x : List α} {rs : Rows α} (h : Rect c (x :: rs)) : x.length = c :=
  h x (List.mem_cons_self)

theorem Rect.tail {c : Nat} {x : List α} {rs : Rows α} (h : Rect c (x :: rs)) : Rect c rs :=
  fun r hr => h r (List.mem_cons_of_mem _ hr)

theorem Rect.append {c : Nat} {a b : Rows α} (ha : Rect c a) (hb : Rect c b) : Rect c (a ++ b) := by
  intro r hr
  rcases List.mem_append.mp hr with h | h
  · exact ha r h
  · exact hb r h

theorem Rect.of_append_left {c : Nat} {a b : Rows α} (h : Rect c (a ++ b)) : Rect c a :=
  fun r hr => h r (List.mem_append_left _ hr)

theorem Rect.of_append_right {c : Nat} {a b : Rows α} (h : Rect c (a ++ b)) : Rect c b :=
  fun r hr => h r (List.mem_append_right _ hr)

theorem Rect.take {c : Nat} {rs : Rows α} (h : Rect c rs) (k : Nat) : Rect c (rs.take k) :=
  fun r hr => h r (List.mem_of_mem_take hr)

theorem Rect.drop {c : Nat} {rs : Rows α} (h : Rect c rs) (k : Nat) : Rect c (rs.drop k) :=
  fun r hr => h r (List.mem_of_mem_drop hr)

theorem length_flatten_rect {c : Nat} {rs : Rows α} (h : Rect c rs) :
    rs.flatten.length = rs.length * c := by
  induction rs with
  | nil => simp
  | cons x xs ih =>
    simp only [List.flatten_cons, List.length_append, List.length_cons, ih h.tail, h.head]
    rw [Nat.succ_mul]; omega

/-- `toRows` of the stored form gives the rows back -/
theorem toRows_ofRows {c : Nat} (rs : Rows α) (h : Rect c rs) : (ofRows rs c).toRows = rs := by
  unfold ofRows toRows
  simp only
  induction rs with
  | nil => simp
  | cons x xs ih =>
    have hx := h.head
    simp only [List.length_cons, List.range_succ_eq_map, List.map_cons, List.map_map,
      List.flatten_cons]
    congr 1
    · simp [hx]
    · refine Eq.trans ?_ (ih h.tail)
      apply List.map_congr_left
      intro r _
      simp only [Function.comp, Nat.succ_eq_add_one]
      have : (r + 1) * c = x.length + r * c := by rw [Nat.succ_mul, hx]; omega
      rw [this, ← List.drop_drop, List.drop_left]

theorem getIndex_lt {rows columns row column : Nat} (hr : row < rows) (hc : column < columns) :
    column + row * columns < rows * columns := by
  have h1 : (row + 1) * columns ≤ rows * columns := Nat.mul_le_mul_right _ hr
  rw [Nat.succ_mul] at h1
  omega

theorem getIndex_inj {columns r c r' c' : Nat} (hc : c < columns) (hc' : c' < columns)
    (h : c + r * columns = c' + r' * columns) : r = r' ∧ c = c' := by
  have h1 : (c + r * columns) / columns = r := by
    rw [Nat.add_mul_div_right _ _ (by omega : 0 < columns), Nat.div_eq_of_lt hc]; omega
  have h2 : (c' + r' * columns) / columns = r' := by
    rw [Nat.add_mul_div_right _ _ (by omega : 0 < columns), Nat.div_eq_of_lt hc']; omega
  have hr : r = r' := by rw [← h1, ← h2, h]
  subst hr
  exact ⟨rfl, by omega⟩

/-- the rows of a matrix, flattened, are its data (given the length invariant) -/
theorem flatten_toRows_aux (c : Nat) : ∀ (n : Nat) (data : List α), data.length = n * c →
    ((List.range n).map fun r => (data.drop (r * c)).take c).flatten = data := by
  intro n
  induction n with
  | zero => intro data h; simp at h; simp [h]
  | succ n ih =>
    intro data h
    simp only [List.range_succ_eq_map, List.map_cons, List.map_map, List.flatten_cons]
    have hl : (data.drop c).length = n * c := by
      simp only [List.length_drop, h, Nat.succ_mul]; omega
    have := ih (data.drop c) hl
    have e : (List.map ((fun r => List.take c (List.drop (r * c) data)) ∘ Nat.succ) (List.range n))
        = List.map (fun r => List.take c (List.drop (r * c) (List.drop c data))) (List.range n) := by
      apply List.map_congr_left
      intro r _
      simp only [Function.comp, Nat.succ_eq_add_one, List.drop_drop]
      congr 2
      rw [Nat.succ_mul]; omega
    rw [e, this]
    simp

theorem flatten_toRows (m : Matrix α) (h : m.Inv) : m.toRows.flatten = m.data :=
  flatten_toRows_aux m.columns m.rows m.data h.1

theorem length_toRows (m : Matrix α) : m.toRows.length = m.rows := by
  simp [toRows]

theorem rect_toRows (m : Matrix α) (h : m.Inv) : Rect m.columns m.toRows := by
  intro r hr
  simp only [toRows, List.mem_map, List.mem_range] at hr
  obtain ⟨i, hi, rfl⟩ := hr
  simp only [List.length_take, List.length_drop, h.1]
  have := getIndex_lt hi (Nat.lt_of_lt_of_le (Nat.lt_succ_self 0) h.2.2)
  have h1 : (i + 1) * m.columns ≤ m.rows * m.columns := Nat.mul_le_mul_right _ hi
  rw [Nat.succ_mul] at h1
  omega

/-- every matrix satisfying the invariant is the stored form of its rows -/
theorem eq_ofRows_toRows (m : Matrix α) (h : m.Inv) : m = ofRows m.toRows m.columns := by
  cases m with
  | mk data rows columns =>
    simp only [ofRows, Matrix.mk.injEq, and_true]
    exact ⟨(flatten_toRows _ h).symm, (length_toRows (α := α) ⟨data, rows, columns⟩).symm⟩

theorem inv_ofRows {c : Nat} {rs : Rows α} (h : Rect c rs) (hn : 1 ≤ rs.length) (hc : 1 ≤ c) :
    (ofRows rs c).Inv :=
  ⟨length_flatten_rect h, hn, hc⟩

theorem ncols_of_rect {c : Nat} {rs : Rows α} (h : Rect c rs) (hn : 1 ≤ rs.length) :
    Rows.ncols rs = c := by
  cases rs with
  | nil => simp at hn
  | cons x xs => exact h.head

theorem wf_of_rect {c : Nat} {rs : Rows α} (h : Rect c rs) (hn : 1 ≤ rs.length) (hc : 1 ≤ c) :
    Rows.Wf rs := by
  have e := ncols_of_rect h hn
  exact ⟨hn, by omega, fun r hr => by rw [e]; exact h r hr⟩

/-- the cells of the rows are what `try_get_reference` answers -/
theorem cell_toRows (m : Matrix α) (r c : Nat) : Rows.cell m.toRows r c = m.tryGet r c := by
  unfold Rows.cell toRows tryGet getIndex
  by_cases hr : r < m.rows
  · simp only [List.getElem?_map, List.getElem?_range hr, Option.map_some, Option.bind_some,
      List.getElem?_take, List.getElem?_drop, hr, true_and]
    by_cases hc : c < m.columns
    · simp [hc, Nat.add_comm]
    · simp [hc]
  · simp [hr]

theorem rows_ext {c : Nat} {a b : Rows α} (ha : Rect c a) (hb : Rect c b)
    (hlen : a.length = b.length)
    (h : ∀ i j, i < a.length → j < c → Rows.cell a i j = Rows.cell b i j) : a = b := by
  apply List.ext_getElem hlen
  intro i h1 h2
  have la : a[i].length = c := ha _ (List.getElem_mem h1)
  have lb : b[i].length = c := hb _ (List.getElem_mem h2)
  apply List.ext_getElem (by rw [la, lb])
  intro j h3 h4
  have := h i j h1 (by omega)
  simp only [Rows.cell, List.getElem?_eq_getElem h1, List.getElem?_eq_getElem h2,
    Option.bind_some, List.getElem?_eq_getElem h3, List.getElem?_eq_getElem h4,
    Option.some.injEq] at this
  exact this

/-! ## 1. `Vec::retain` with the running counters: remove_row, remove_column, retain_mut -/

open Rows (filterIdxFrom filterIdx)

theorem retainRC_cons (columns : Nat) (keep : Nat → Nat → Bool) (a : α) (l : List α) (r k : Nat) :
    retainRC columns keep (a :: l) r k =
      if keep r k then
        a :: (if k < columns - 1 then retainRC columns keep l r (k + 1)
              else retainRC columns keep l (r + 1) 0)
      else (if k < columns - 1 then retainRC columns keep l r (k + 1)
            else retainRC columns keep l (r + 1) 0) := by
  simp [retainRC]

/-- one whole row is consumed with the row counter fixed, then the counters wrap -/
theorem retainRC_row (columns : Nat) (keep : Nat → Nat → Bool) (tail : List α) (r : Nat) :
    ∀ (x : List α) (k : Nat), x ≠ [] → k + x.length = columns →
      retainRC columns keep (x ++ tail) r k =
        filterIdxFrom (keep r) k x ++ retainRC columns keep tail (r + 1) 0 := by
  intro x
  induction x with
  | nil => intro k h; exact absurd rfl h
  | cons a xs ih =>
    intro k _ hk
    cases xs with
    | nil =>
      have : ¬ (k < columns - 1) := by simp at hk; omega
      simp only [List.cons_append, List.nil_append, retainRC_cons, this, if_false, filterIdxFrom]
      split <;> simp
    | cons b ys =>
      have hlt : k < columns - 1 := by simp at hk; omega
      have := ih (k + 1) (by simp) (by simp at hk ⊢; omega)
      simp only [List.cons_append] at this
      simp only [List.cons_append, retainRC_cons columns keep a, hlt, if_true, this]
      rw [show filterIdxFrom (keep r) k (a :: b :: ys) =
        if keep r k then a :: filterIdxFrom (keep r) (k + 1) (b :: ys)
        else filterIdxFrom (keep r) (k + 1) (b :: ys) from rfl]
      split <;> simp

theorem filterIdxFrom_false (k : Nat) (l : List α) : filterIdxFrom (fun _ => false) k l = [] := by
  induction l generalizing k with
  | nil => rfl
  | cons a l ih => simp [filterIdxFrom, ih]

theorem filterIdxFrom_true (p : Nat → Bool) (l : List α) :
    ∀ k, (∀ i, k ≤ i → p i = true) → filterIdxFrom p k l = l := by
  induction l with
  | nil => intro k _; rfl
  | cons a l ih =>
    intro k h
    simp [filterIdxFrom, h k (Nat.le_refl k), ih (k + 1) (fun i hi => h i (by omega))]

theorem filterIdxFrom_eraseIdx (l : List α) :
    ∀ k row, filterIdxFrom (fun i => i != k + row) k l = l.eraseIdx row := by
  induction l with
  | nil => intro k row; rfl
  | cons a l ih =>
    intro k row
    cases row with
    | zero =>
      simp only [filterIdxFrom, Nat.add_zero, bne_self_eq_false, List.eraseIdx_zero,
        List.tail_cons]
      exact filterIdxFrom_true _ l (k + 1) (by intro i hi; simp; omega)
    | succ row =>
      have : (k != k + (row + 1)) = true := by simp
      simp only [filterIdxFrom, this, if_true, List.eraseIdx_cons_succ]
      rw [show k + (row + 1) = (k + 1) + row by omega, ih]

theorem filterIdx_eraseIdx (l : List α) (row : Nat) :
    filterIdx (fun i => i != row) l = l.eraseIdx row := by
  have := filterIdxFrom_eraseIdx l 0 row
  simpa [filterIdx] using this

theorem filterIdx_true (l : List α) : filterIdx (fun _ => true) l = l :=
  filterIdxFrom_true _ l 0 (fun _ _ => rfl)

/-- the flat `retain` with a row predicate and a column predicate, in terms of rows -/
theorem retainRC_rows (columns : Nat) (hc : 1 ≤ columns) (p q : Nat → Bool) :
    ∀ (rs : Rows α) (r : Nat), Rect columns rs →
      retainRC columns (fun i j => p i && q j) rs.flatten r 0 =
        ((filterIdxFrom p r rs).map (filterIdx q)).flatten := by
  intro rs
  induction rs with
  | nil => intro r _; rfl
  | cons x xs ih =>
    intro r h
    have hx := h.head
    have hne : x ≠ [] := by intro e; rw [e] at hx; simp at hx; omega
    rw [List.flatten_cons, retainRC_row columns _ _ r x 0 hne (by omega), ih (r + 1) h.tail]
    cases hp : p r with
    | true =>
      simp only [filterIdxFrom, hp, if_true, List.map_cons, List.flatten_cons, Bool.true_and]
      rfl
    | false =>
      simp only [filterIdxFrom, hp, Bool.false_and]
      rw [filterIdxFrom_false]
      simp

theorem foldl_count (p : Nat → Bool) (l : List Nat) (a : Nat) :
    l.foldl (fun acc i => if p i then acc + 1 else acc) a = a + l.countP p := by
  induction l generalizing a with
  | nil => simp
  | cons x l ih =>
    simp only [List.foldl_cons, ih, List.countP_cons]
    by_cases hx : p x = true <;> simp [hx] <;> omega

theorem countAccepted_eq (s : Slice) (n : Nat) :
    countAccepted s n = (List.range n).countP s.accepts := by
  simp [countAccepted, foldl_count]

theorem length_filterIdxFrom (p : Nat → Bool) (l : List α) :
    ∀ k, (filterIdxFrom p k l).length = (List.range' k l.length).countP p := by
  induction l with
  | nil => intro k; rfl
  | cons a l ih =>
    intro k
    simp only [filterIdxFrom, List.length_cons, List.range'_succ, List.countP_cons]
    split <;> simp_all

theorem length_filterIdx (s : Slice) (l : List α) :
    (filterIdx s.accepts l).length = countAccepted s l.length := by
  rw [countAccepted_eq, List.range_eq_range']
  exact length_filterIdxFrom _ l 0

theorem anyAccepted_iff (s : Slice) (n : Nat) :
    Rows.anyAccepted s n = true ↔ 0 < countAccepted s n := by
  rw [countAccepted_eq, List.countP_pos_iff]
  simp [Rows.anyAccepted]

theorem mem_filterIdxFrom {p : Nat → Bool} {l : List α} {x : α} :
    ∀ {k}, x ∈ filterIdxFrom p k l → x ∈ l := by
  induction l with
  | nil => intro k h; cases h
  | cons a l ih =>
    intro k h
    simp only [filterIdxFrom] at h
    split at h
    · cases h with
      | head => exact List.mem_cons_self
      | tail _ h => exact List.mem_cons_of_mem _ (ih h)
    · exact List.mem_cons_of_mem _ (ih h)

theorem Rect.filterIdx {c : Nat} {rs : Rows α} (h : Rect c rs) (p : Nat → Bool) :
    Rect c (filterIdx p rs) :=
  fun r hr => h r (mem_filterIdxFrom hr)

/-- `retain_mut` (repaired) on the stored form -/
theorem retainMut_ofRows {c : Nat} (rs : Rows α) (h : Rect c rs) (hc : 1 ≤ c) (a b : Slice) :
    (ofRows rs c).retainMut a b =
      if Rows.anyAccepted a rs.length && Rows.anyAccepted b c then
        ⟨ofRows ((filterIdx a.accepts rs).map (filterIdx b.accepts)) (countAccepted b c), none⟩
      else ⟨ofRows rs c, some .explicit⟩ := by
  unfold retainMut
  simp only [ofRows]
  by_cases h1 : 0 < countAccepted a rs.length
  · by_cases h2 : 0 < countAccepted b c
    · have e1 := (anyAccepted_iff a rs.length).mpr h1
      have e2 := (anyAccepted_iff b c).mpr h2
      simp only [h1, h2, if_true, e1, e2, Bool.and_self]
      congr 2
      · exact retainRC_rows c hc a.accepts b.accepts rs 0 h
      · simp [length_filterIdx]
    · have e2 : Rows.anyAccepted b c = false := by
        rw [Bool.eq_false_iff, Ne, anyAccepted_iff]; exact h2
      simp [h1, h2, e2]
  · have e1 : Rows.anyAccepted a rs.length = false := by
      rw [Bool.eq_false_iff, Ne, anyAccepted_iff]; exact h1
    simp [h1, e1]

theorem rect_retain {c : Nat} (rs : Rows α) (h : Rect c rs) (a b : Slice) :
    Rect (countAccepted b c) ((filterIdx a.accepts rs).map (filterIdx b.accepts)) := by
  intro r hr
  simp only [List.mem_map] at hr
  obtain ⟨x, hx, rfl⟩ := hr
  rw [length_filterIdx, (h.filterIdx a.accepts) x hx]

/-- `remove_row` (repaired) on the stored form -/
theorem removeRow_ofRows {c : Nat} (rs : Rows α) (h : Rect c rs) (hc : 1 ≤ c) (row : Nat) :
    (ofRows rs c).removeRow row =
      if 1 < rs.length ∧ row < rs.length then ⟨ofRows (rs.eraseIdx row) c, none⟩
      else ⟨ofRows rs c, some .explicit⟩ := by
  unfold removeRow
  simp only [ofRows]
  by_cases h1 : 1 < rs.length
  · by_cases h2 : row < rs.length
    · simp only [h1, h2, if_true, and_self]
      congr 2
      · have e : (fun (r : Nat) (_ : Nat) => r != row) =
            fun i j => (fun i => i != row) i && (fun _ => true) j := by
          funext i j; simp
        rw [e, retainRC_rows c hc _ _ rs 0 h]
        have : filterIdxFrom (fun i => i != row) 0 rs = rs.eraseIdx row := filterIdx_eraseIdx rs row
        rw [this]
        congr 1
        rw [List.map_congr_left (g := id) (fun x _ => filterIdx_true x)]
        simp
      · rw [List.length_eraseIdx_of_lt h2]
    · simp [h1, h2]
  · simp [h1]

/-- `remove_column` (repaired) on the stored form -/
theorem removeColumn_ofRows {c : Nat} (rs : Rows α) (h : Rect c rs) (hc : 1 ≤ c) (column : Nat) :
    (ofRows rs c).removeColumn column =
      if 1 < c ∧ column < c then ⟨ofRows (rs.map (·.eraseIdx column)) (c - 1), none⟩
      else ⟨ofRows rs c, some .explicit⟩ := by
  unfold removeColumn
  simp only [ofRows]
  by_cases h1 : 1 < c
  · by_cases h2 : column < c
    · simp only [h1, h2, if_true, and_self]
      congr 2
      · have e : (fun (_ : Nat) (cc : Nat) => cc != column) =
            fun i j => (fun _ => true) i && (fun j => j != column) j := by
          funext i j; simp
        rw [e, retainRC_rows c hc _ _ rs 0 h]
        have : filterIdxFrom (fun _ => true) 0 rs = rs := filterIdx_true rs
        rw [this]
        congr 1
        exact List.map_congr_left (fun x _ => filterIdx_eraseIdx x column)
      · simp
    · simp [h1, h2]
  · simp [h1]

/-! ## 2. `Vec::insert` loops: insert_row(_with), insert_column(_with) -/

theorem insertIdx_append_length (X C : List α) (v : α) :
    (X ++ C).insertIdx X.length v = X ++ v :: C := by
  induction X with
  | nil => simp
  | cons a X ih => simp [List.insertIdx_succ_cons, ih]

theorem insertIdx_append_right' (X Y : List α) (i : Nat) (v : α) :
    (X ++ Y).insertIdx (X.length + i) v = X ++ Y.insertIdx i v := by
  induction X with
  | nil => simp
  | cons a X ih =>
    rw [show (a :: X).length + i = (X.length + i) + 1 by simp; omega]
    simp [List.insertIdx_succ_cons, ih]

theorem insertIdx_append_left' (X Y : List α) (v : α) :
    ∀ i, i ≤ X.length → (X ++ Y).insertIdx i v = X.insertIdx i v ++ Y := by
  induction X with
  | nil => intro i hi; simp at hi; subst hi; simp
  | cons a X ih =>
    intro i hi
    cases i with
    | zero => simp
    | succ i => simp [List.insertIdx_succ_cons, ih i (by simpa using hi)]

theorem insertIdx_eq_take_drop (rs : List α) (x : α) (row : Nat) (h : row ≤ rs.length) :
    rs.insertIdx row x = rs.take row ++ x :: rs.drop row := by
  have hl : (rs.take row).length = row := by simp; omega
  have := insertIdx_append_length (rs.take row) (rs.drop row) x
  rw [List.take_append_drop, hl] at this
  exact this

/-- after fix E-02: the values are inserted one after the other behind the first `row` rows -/
theorem insertValuesLoop_spec (columns row : Nat) (A C : List α) (hA : A.length = row * columns) :
    ∀ (vs B : List α) (k : Nat), B.length = k →
      insertValuesLoop columns row k vs (A ++ B ++ C) = (A ++ B ++ vs ++ C, none) := by
  intro vs
  induction vs with
  | nil => intro B k _; simp [insertValuesLoop]
  | cons v vs ih =>
    intro B k hB
    have hi : k + row * columns = (A ++ B).length := by simp [hA, hB]; omega
    have hv : vecInsert (A ++ B ++ C) (k + row * columns) v = some (A ++ (B ++ [v]) ++ C) := by
      unfold vecInsert
      rw [hi, insertIdx_append_length]
      simp
    simp only [insertValuesLoop, hv]
    rw [ih (B ++ [v]) (k + 1) (by simp [hB])]
    simp

theorem insertRowLoop_eq (columns row : Nat) (v : α) :
    ∀ (n k : Nat) (data : List α),
      insertRowLoop columns row v (List.range' k n) data =
        insertValuesLoop columns row k (List.replicate n v) data := by
  intro n
  induction n with
  | zero => intro k data; simp [insertRowLoop, insertValuesLoop]
  | succ n ih =>
    intro k data
    simp only [List.range'_succ, List.replicate_succ, insertRowLoop, insertValuesLoop]
    cases vecInsert data (k + row * columns) v with
    | none => rfl
    | some d => exact ih (k + 1) d

theorem flatten_take_length {c : Nat} (rs : Rows α) (h : Rect c rs) (row : Nat)
    (hr : row ≤ rs.length) : (rs.take row).flatten.length = row * c := by
  rw [length_flatten_rect (h.take row)]
  simp; congr 1; omega

/-- `insert_row_with` (repaired) on the stored form -/
theorem insertRowWith_ofRows {c : Nat} (rs : Rows α) (h : Rect c rs) (row : Nat)
    (values : List α) :
    (ofRows rs c).insertRowWith row values =
      if row ≤ rs.length ∧ c ≤ values.length then
        ⟨ofRows (rs.insertIdx row (values.take c)) c, none⟩
      else ⟨ofRows rs c, some .explicit⟩ := by
  unfold insertRowWith
  simp only [ofRows]
  by_cases h1 : row ≤ rs.length
  · by_cases h2 : c ≤ values.length
    · have hl : (values.take c).length = c := by simp; omega
      simp only [h1, h2, hl, if_true, and_self]
      have hA := flatten_take_length rs h row h1
      have := insertValuesLoop_spec c row (rs.take row).flatten (rs.drop row).flatten hA
        (values.take c) [] 0 rfl
      simp only [List.append_nil] at this
      rw [← List.flatten_append, List.take_append_drop] at this
      rw [this]
      simp only [Res.mk.injEq, Matrix.mk.injEq, and_true]
      rw [insertIdx_eq_take_drop rs _ row h1]
      simp; omega
    · have hl : ¬ (values.take c).length = c := by simp; omega
      simp only [h1, h2, hl, if_true, and_false, if_false]
  · simp [h1]

/-- `insert_row` on the stored form -/
theorem insertRow_ofRows {c : Nat} (rs : Rows α) (h : Rect c rs) (row : Nat) (v : α) :
    (ofRows rs c).insertRow row v =
      if row ≤ rs.length then ⟨ofRows (rs.insertIdx row (List.replicate c v)) c, none⟩
      else ⟨ofRows rs c, some .explicit⟩ := by
  unfold insertRow
  simp only [ofRows]
  by_cases h1 : row ≤ rs.length
  · simp only [h1, if_true]
    have hA := flatten_take_length rs h row h1
    have := insertValuesLoop_spec c row (rs.take row).flatten (rs.drop row).flatten hA
      (List.replicate c v) [] 0 rfl
    simp only [List.append_nil] at this
    rw [← List.flatten_append, List.take_append_drop] at this
    rw [this]
    simp only [Res.mk.injEq, Matrix.mk.injEq, and_true]
    rw [insertIdx_eq_take_drop rs _ row h1]
    simp; omega
  · simp [h1]

theorem rect_insertIdx {c : Nat} (rs : Rows α) (h : Rect c rs) (row : Nat) (x : List α)
    (hx : x.length = c) : Rect c (rs.insertIdx row x) := by
  intro r hr
  by_cases h1 : row ≤ rs.length
  · rw [List.mem_insertIdx h1] at hr
    rcases hr with rfl | hr
    · exact hx
    · exact h r hr
  · rw [List.insertIdx_of_length_lt (by omega)] at hr
    exact h r hr

/-- the reverse loop of `insert_column_with`: rows are served last to first from the popped
    values, the data behind the rows (`T`) is not touched -/
theorem insertColumnWithLoop_spec (columns column : Nat) (hcol : column ≤ columns) :
    ∀ (n : Nat) (init : Rows α) (vals : List α) (T : List α),
      init.length = n → vals.length = n → Rect columns init →
      insertColumnWithLoop columns column (List.range n).reverse vals.reverse (init.flatten ++ T) =
        ((List.zipWith (fun r v => r.insertIdx column v) init vals).flatten ++ T, none) := by
  intro n
  induction n with
  | zero =>
    intro init vals T hi hv _
    simp only [List.length_eq_zero_iff] at hi hv
    subst hi hv
    simp [insertColumnWithLoop]
  | succ n ih =>
    intro init vals T hi hv hrect
    have hne : init ≠ [] := by intro e; rw [e] at hi; simp at hi
    have hnv : vals ≠ [] := by intro e; rw [e] at hv; simp at hv
    have ei := List.dropLast_concat_getLast hne
    have ev := List.dropLast_concat_getLast hnv
    generalize hI : init.dropLast = init' at ei
    generalize hL : init.getLast hne = last at ei
    generalize hV : vals.dropLast = v' at ev
    generalize hW : vals.getLast hnv = vl at ev
    have hi' : init'.length = n := by rw [← hI]; simp; omega
    have hv' : v'.length = n := by rw [← hV]; simp; omega
    subst ei ev
    have hr' : Rect columns init' := hrect.of_append_left
    have hlast : last.length = columns := hrect last (by simp)
    have hflat : init'.flatten.length = n * columns := by
      rw [length_flatten_rect hr', hi']
    simp only [List.range_succ, List.reverse_append, List.reverse_cons, List.reverse_nil,
      List.nil_append, List.cons_append, List.flatten_append, List.flatten_cons,
      List.flatten_nil, List.append_nil, insertColumnWithLoop]
    have hvi : vecInsert (init'.flatten ++ last ++ T) (column + n * columns) vl =
        some (init'.flatten ++ (last.insertIdx column vl ++ T)) := by
      unfold vecInsert
      have : column + n * columns ≤ (init'.flatten ++ last ++ T).length := by
        simp [hflat, hlast]; omega
      rw [if_pos this, show column + n * columns = init'.flatten.length + column by omega,
        List.append_assoc, insertIdx_append_right',
        insertIdx_append_left' _ _ _ _ (by omega)]
    simp only [hvi]
    rw [ih init' v' (last.insertIdx column vl ++ T) hi' hv' hr']
    rw [List.zipWith_append (by omega)]
    simp

theorem insertColumnLoop_eq (columns column : Nat) (v : α) :
    ∀ (rowsL : List Nat) (data : List α),
      insertColumnLoop columns column v rowsL data =
        insertColumnWithLoop columns column rowsL (List.replicate rowsL.length v) data := by
  intro rowsL
  induction rowsL with
  | nil => intro data; simp [insertColumnLoop, insertColumnWithLoop]
  | cons r rest ih =>
    intro data
    simp only [List.length_cons, List.replicate_succ, insertColumnLoop, insertColumnWithLoop]
    cases vecInsert data (column + r * columns) v with
    | none => rfl
    | some d => exact ih d

theorem rect_zipWith_insertIdx {c : Nat} (rs : Rows α) (h : Rect c rs) (column : Nat)
    (hcol : column ≤ c) (vals : List α) :
    Rect (c + 1) (List.zipWith (fun r v => r.insertIdx column v) rs vals) := by
  induction rs generalizing vals with
  | nil => simp [Rect]
  | cons x xs ih =>
    cases vals with
    | nil => simp [Rect]
    | cons v vs =>
      simp only [List.zipWith_cons_cons]
      refine Rect.cons ?_ (ih h.tail vs)
      rw [List.length_insertIdx_of_le_length (by rw [h.head]; exact hcol), h.head]

/-- `insert_column_with` (repaired) on the stored form -/
theorem insertColumnWith_ofRows {c : Nat} (rs : Rows α) (h : Rect c rs) (column : Nat)
    (values : List α) :
    (ofRows rs c).insertColumnWith column values =
      if column ≤ c ∧ rs.length ≤ values.length then
        ⟨ofRows (List.zipWith (fun r v => r.insertIdx column v) rs values) (c + 1), none⟩
      else ⟨ofRows rs c, some .explicit⟩ := by
  unfold insertColumnWith
  simp only [ofRows]
  by_cases h1 : column ≤ c
  · by_cases h2 : rs.length ≤ values.length
    · have hl : (values.take rs.length).length = rs.length := by simp; omega
      have h2' : rs.length ≤ (values.take rs.length).length := by omega
      simp only [h1, h2, h2', if_true, and_self]
      have := insertColumnWithLoop_spec c column h1 rs.length rs (values.take rs.length) [] rfl hl h
      simp only [List.append_nil] at this
      rw [this]
      simp only [Res.mk.injEq, Matrix.mk.injEq, and_true]
      have e : List.zipWith (fun r v => List.insertIdx r column v) rs (values.take rs.length) =
          List.zipWith (fun r v => List.insertIdx r column v) rs values := by
        rw [List.zipWith_eq_zipWith_take_min (l₂ := values)]
        have : min rs.length values.length = rs.length := by omega
        rw [this, List.take_length]
      rw [e]
      simp; omega
    · have hl : ¬ rs.length ≤ (values.take rs.length).length := by simp; omega
      simp only [h1, h2, hl, if_true, and_false, if_false]
  · simp [h1]

/-- `insert_column` on the stored form -/
theorem insertColumn_ofRows {c : Nat} (rs : Rows α) (h : Rect c rs) (column : Nat) (v : α) :
    (ofRows rs c).insertColumn column v =
      if column ≤ c then ⟨ofRows (rs.map (·.insertIdx column v)) (c + 1), none⟩
      else ⟨ofRows rs c, some .explicit⟩ := by
  unfold insertColumn
  simp only [ofRows]
  by_cases h1 : column ≤ c
  · simp only [h1, if_true]
    have hl : (List.replicate rs.length v).length = rs.length := by simp
    have := insertColumnWithLoop_spec c column h1 rs.length rs (List.replicate rs.length v) []
      rfl hl h
    simp only [List.append_nil] at this
    rw [this]
    simp only [Res.mk.injEq, Matrix.mk.injEq, and_true]
    have e : List.zipWith (fun r v => List.insertIdx r column v) rs (List.replicate rs.length v) =
        rs.map (·.insertIdx column v) := by
      clear this hl h
      induction rs with
      | nil => rfl
      | cons x xs ih => simp [List.replicate_succ, ih]
    rw [e]
    simp
  · simp [h1]

/-! ## 3. set, map_mut -/

theorem flatten_set_rect {c : Nat} (column : Nat) (v : α) (hc : column < c) :
    ∀ (rs : Rows α) (row : Nat), Rect c rs → row < rs.length →
      rs.flatten.set (column + row * c) v = (rs.modify row (·.set column v)).flatten := by
  intro rs
  induction rs with
  | nil => intro row _ h; simp at h
  | cons x xs ih =>
    intro row h hr
    have hx := h.head
    cases row with
    | zero =>
      simp only [Nat.zero_mul, Nat.add_zero, List.flatten_cons, List.modify_zero_cons]
      rw [List.set_append_left _ _ (by omega)]
    | succ row =>
      simp only [List.flatten_cons, List.modify_succ_cons]
      rw [List.set_append_right _ _ (by rw [hx, Nat.succ_mul]; omega)]
      have : column + (row + 1) * c - x.length = column + row * c := by
        rw [hx, Nat.succ_mul]; omega
      rw [this, ih row h.tail (by simpa using hr)]

theorem rect_modify_set {c : Nat} (rs : Rows α) (h : Rect c rs) (row column : Nat) (v : α) :
    Rect c (rs.modify row (·.set column v)) := by
  induction rs generalizing row with
  | nil => simpa using h
  | cons x xs ih =>
    cases row with
    | zero =>
      simp only [List.modify_zero_cons]
      exact Rect.cons (by simp [h.head]) h.tail
    | succ row =>
      simp only [List.modify_succ_cons]
      exact Rect.cons h.head (ih h.tail row)

/-- `set` on the stored form -/
theorem set_ofRows {c : Nat} (rs : Rows α) (h : Rect c rs) (row column : Nat) (v : α) :
    (ofRows rs c).set row column v =
      if row < rs.length ∧ column < c then ⟨ofRows (rs.modify row (·.set column v)) c, none⟩
      else ⟨ofRows rs c, some .explicit⟩ := by
  unfold set
  simp only [ofRows, getIndex]
  by_cases h1 : row < rs.length
  · by_cases h2 : column < c
    · have hi : column + row * c < rs.flatten.length := by
        rw [length_flatten_rect h]; exact getIndex_lt h1 h2
      simp only [h1, h2, hi, if_true, and_self]
      rw [flatten_set_rect column v h2 rs row h h1]
      simp
    · simp [h1, h2]
  · simp [h1]

/-- `map_mut` on the stored form -/
theorem mapMut_ofRows {c : Nat} (rs : Rows α) (f : α → α) :
    (ofRows rs c).mapMut f = ⟨ofRows (rs.map (·.map f)) c, none⟩ := by
  simp [mapMut, ofRows, List.map_flatten]

theorem rect_map_map {c : Nat} (rs : Rows α) (h : Rect c rs) (f : α → α) :
    Rect c (rs.map (·.map f)) := by
  intro r hr
  simp only [List.mem_map] at hr
  obtain ⟨x, hx, rfl⟩ := hr
  simp [h x hx]

/-! ## 4. get, from_fn, transpose -/

/-- forget the panic kind -/
def _root_.EasyMl.Outcome.toOption {β : Type} : Outcome β → Option β
  | .ok a => some a
  | .panic _ => none

theorem getP_toOption (m : Matrix α) (r c : Nat) : (m.getP r c).toOption = m.tryGet r c := by
  unfold getP tryGet
  by_cases hr : r < m.rows
  · by_cases hc : c < m.columns
    · simp only [hr, hc, if_true, and_self]
      cases m.data[m.getIndex r c]? <;> rfl
    · simp [hr, hc, Outcome.toOption]
  · simp [hr, Outcome.toOption]

theorem tryGet_isSome (m : Matrix α) (h : m.data.length = m.rows * m.columns) {r c : Nat}
    (hr : r < m.rows) (hc : c < m.columns) : ∃ x, m.tryGet r c = some x := by
  unfold tryGet getIndex
  have := getIndex_lt hr hc
  simp only [hr, hc, and_self, if_true]
  exact ⟨m.data[c + r * m.columns]'(by omega), List.getElem?_eq_getElem (by omega)⟩

theorem getP_of_tryGet (m : Matrix α) {r c : Nat} {x : α} (h : m.tryGet r c = some x) :
    m.getP r c = .ok x := by
  have := getP_toOption m r c
  rw [h] at this
  cases hg : m.getP r c with
  | ok a => rw [hg] at this; simp only [Outcome.toOption, Option.some.injEq] at this; rw [this]
  | panic k => rw [hg] at this; simp [Outcome.toOption] at this

theorem fromFnLoop_append (producer : Nat → Nat → Outcome α) (A B : List (Nat × Nat)) :
    fromFnLoop producer (A ++ B) =
      match fromFnLoop producer A with
      | .panic k => .panic k
      | .ok xs =>
        match fromFnLoop producer B with
        | .panic k => .panic k
        | .ok ys => .ok (xs ++ ys) := by
  induction A with
  | nil =>
    simp only [List.nil_append, fromFnLoop]
    cases fromFnLoop producer B <;> rfl
  | cons p A ih =>
    obtain ⟨r, c⟩ := p
    simp only [List.cons_append, fromFnLoop, ih]
    cases producer r c with
    | panic k => rfl
    | ok x =>
      cases fromFnLoop producer A with
      | panic k => rfl
      | ok xs =>
        cases fromFnLoop producer B with
        | panic k => rfl
        | ok ys => rfl

theorem fromFnLoop_row (producer : Nat → Nat → Outcome α) (r : Nat) :
    ∀ (l2 : List Nat), (∀ c ∈ l2, ∃ x, producer r c = .ok x) →
      fromFnLoop producer (l2.map fun c => (r, c)) =
        .ok (l2.filterMap fun c => (producer r c).toOption) := by
  intro l2
  induction l2 with
  | nil => intro _; rfl
  | cons c l2 ih =>
    intro h
    obtain ⟨x, hx⟩ := h c List.mem_cons_self
    simp only [List.map_cons, fromFnLoop, hx, ih (fun c' hc' => h c' (List.mem_cons_of_mem _ hc'))]
    rw [List.filterMap_cons_some (b := x) (by rw [hx]; rfl)]

theorem fromFnLoop_pairs (producer : Nat → Nat → Outcome α) (l2 : List Nat) :
    ∀ (l1 : List Nat), (∀ r ∈ l1, ∀ c ∈ l2, ∃ x, producer r c = .ok x) →
      fromFnLoop producer (l1.flatMap fun r => l2.map fun c => (r, c)) =
        .ok ((l1.map fun r => l2.filterMap fun c => (producer r c).toOption).flatten) := by
  intro l1
  induction l1 with
  | nil => intro _; rfl
  | cons r l1 ih =>
    intro h
    simp only [List.flatMap_cons, List.map_cons, List.flatten_cons, fromFnLoop_append,
      fromFnLoop_row producer r l2 (h r List.mem_cons_self),
      ih (fun r' hr' => h r' (List.mem_cons_of_mem _ hr'))]

theorem length_filterMap_all_some {β γ : Type} (f : β → Option γ) (l : List β)
    (h : ∀ x ∈ l, ∃ y, f x = some y) : (l.filterMap f).length = l.length := by
  induction l with
  | nil => rfl
  | cons a l ih =>
    obtain ⟨y, hy⟩ := h a List.mem_cons_self
    rw [List.filterMap_cons_some hy]
    simp [ih (fun x hx => h x (List.mem_cons_of_mem _ hx))]

theorem getElem?_filterMap_all_some {β γ : Type} (f : β → Option γ) (l : List β)
    (h : ∀ x ∈ l, ∃ y, f x = some y) : ∀ j : Nat, (l.filterMap f)[j]? = l[j]?.bind f := by
  induction l with
  | nil => intro j; rfl
  | cons a l ih =>
    intro j
    obtain ⟨y, hy⟩ := h a List.mem_cons_self
    rw [List.filterMap_cons_some hy]
    cases j with
    | zero => simp [hy]
    | succ j => simpa using ih (fun x hx => h x (List.mem_cons_of_mem _ hx)) j

theorem filterMap_congr' {β γ : Type} {f g : β → Option γ} {l : List β}
    (h : ∀ x ∈ l, f x = g x) : l.filterMap f = l.filterMap g := by
  induction l with
  | nil => rfl
  | cons a l ih =>
    simp only [List.filterMap_cons, h a List.mem_cons_self,
      ih (fun x hx => h x (List.mem_cons_of_mem _ hx))]

/-- a column of the rows, in terms of the checked getter -/
theorem column_toRows (m : Matrix α) (c : Nat) :
    Rows.column m.toRows c = (List.range m.rows).filterMap fun r => m.tryGet r c := by
  unfold Rows.column
  rw [show m.toRows = (List.range m.rows).map
    fun r => (m.data.drop (r * m.columns)).take m.columns from rfl, List.filterMap_map]
  apply filterMap_congr'
  intro r hr
  have hr' : r < m.rows := List.mem_range.mp hr
  have := cell_toRows m r c
  unfold Rows.cell at this
  simp only [toRows, List.getElem?_map, List.getElem?_range hr', Option.map_some,
    Option.bind_some] at this
  exact this

theorem ncols_toRows (m : Matrix α) (h : m.Inv) : Rows.ncols m.toRows = m.columns :=
  ncols_of_rect (rect_toRows m h) (by rw [length_toRows]; exact h.2.1)

/-- the transposed rows, in terms of the checked getter -/
theorem transpose_toRows (m : Matrix α) (h : m.Inv) :
    Rows.transpose m.toRows =
      (List.range m.columns).map fun c => (List.range m.rows).filterMap fun r => m.tryGet r c := by
  unfold Rows.transpose
  rw [ncols_toRows m h]
  apply List.map_congr_left
  intro c _
  exact column_toRows m c

theorem rect_transpose_toRows (m : Matrix α) (h : m.Inv) :
    Rect m.rows (Rows.transpose m.toRows) := by
  rw [transpose_toRows m h]
  intro r hr
  simp only [List.mem_map, List.mem_range] at hr
  obtain ⟨c, hc, rfl⟩ := hr
  rw [length_filterMap_all_some]
  · simp
  · intro r hr
    exact tryGet_isSome m h.1 (List.mem_range.mp hr) hc

theorem length_transpose_toRows (m : Matrix α) (h : m.Inv) :
    (Rows.transpose m.toRows).length = m.columns := by
  rw [transpose_toRows m h]; simp

/-- `transpose` as a value, on an invariant-satisfying matrix -/
theorem transposeP_spec (m : Matrix α) (h : m.Inv) :
    m.transposeP = .ok (ofRows (Rows.transpose m.toRows) m.rows) := by
  unfold transposeP fromFn indexPairs
  rw [fromFnLoop_pairs]
  · have e : (List.map (fun r => List.filterMap (fun c => (m.getP c r).toOption) (List.range m.rows))
        (List.range m.columns)) = Rows.transpose m.toRows := by
      rw [transpose_toRows m h]
      apply List.map_congr_left
      intro c _
      apply filterMap_congr'
      intro r _
      exact getP_toOption m r c
    simp only [e]
    have hl : (Rows.transpose m.toRows).flatten.length = m.columns * m.rows := by
      rw [length_flatten_rect (rect_transpose_toRows m h), length_transpose_toRows m h]
    have hne : (Rows.transpose m.toRows).flatten ≠ [] := by
      intro e'
      rw [e'] at hl
      have : 1 ≤ m.columns * m.rows := Nat.mul_le_mul h.2.2 h.2.1
      simp at hl; omega
    simp only [fromFlatRowMajor, hl, hne, ne_eq, not_false_eq_true, and_self, if_true, ofRows,
      length_transpose_toRows m h]
  · intro c hc r hr
    obtain ⟨x, hx⟩ := tryGet_isSome m h.1 (List.mem_range.mp hr) (List.mem_range.mp hc)
    exact ⟨x, getP_of_tryGet m hx⟩

/-! ## 5. transpose_mut: the square swap loop -/

/-- an `n × n` matrix with consistent storage -/
structure Sq (n : Nat) (m : Matrix α) : Prop where
  rows : m.rows = n
  cols : m.columns = n
  len : m.data.length = n * n

theorem tryGet_set (m : Matrix α) (i j : Nat) (v : α) (hi : i < m.rows) (hj : j < m.columns)
    (hlen : m.data.length = m.rows * m.columns) :
    (m.set i j v).panic = none ∧ (m.set i j v).state.rows = m.rows ∧
    (m.set i j v).state.columns = m.columns ∧
    (m.set i j v).state.data.length = m.data.length ∧
    ∀ a b, a < m.rows → b < m.columns →
      (m.set i j v).state.tryGet a b = if a = i ∧ b = j then some v else m.tryGet a b := by
  have hidx : m.getIndex i j < m.data.length := by
    unfold getIndex; rw [hlen]; exact getIndex_lt hi hj
  unfold set
  simp only [hi, hj, hidx, if_true, List.length_set, true_and]
  intro a b ha hb
  unfold tryGet
  simp only [ha, hb, and_self, if_true, getIndex, List.getElem?_set]
  by_cases e : a = i ∧ b = j
  · obtain ⟨rfl, rfl⟩ := e
    unfold getIndex at hidx
    simp [hidx]
  · have : ¬ (j + i * m.columns = b + a * m.columns) := by
      intro e'
      have := getIndex_inj hj hb e'
      exact e ⟨this.1.symm, this.2.symm⟩
    simp [this, e]

/-- one iteration of the swap loop (for `i ≤ j`) -/
theorem swap_step {n : Nat} (m : Matrix α) (hm : Sq n m) (i j : Nat) (hi : i < n) (hj : j < n) :
    ∃ temp x m1 m2, m.getP i j = .ok temp ∧ m.getP j i = .ok x ∧
      m.set i j x = ⟨m1, none⟩ ∧ m1.set j i temp = ⟨m2, none⟩ ∧ Sq n m2 ∧
      ∀ a b, a < n → b < n →
        m2.tryGet a b =
          if a = j ∧ b = i then m.tryGet i j
          else if a = i ∧ b = j then m.tryGet j i else m.tryGet a b := by
  have hlen : m.data.length = m.rows * m.columns := by rw [hm.len, hm.rows, hm.cols]
  obtain ⟨temp, ht⟩ := tryGet_isSome m hlen (r := i) (c := j) (by rw [hm.rows]; exact hi)
    (by rw [hm.cols]; exact hj)
  obtain ⟨x, hx⟩ := tryGet_isSome m hlen (r := j) (c := i) (by rw [hm.rows]; exact hj)
    (by rw [hm.cols]; exact hi)
  obtain ⟨p1, r1, c1, l1, g1⟩ := tryGet_set m i j x (by rw [hm.rows]; exact hi)
    (by rw [hm.cols]; exact hj) hlen
  generalize hs1 : m.set i j x = res1 at p1 r1 c1 l1 g1
  obtain ⟨m1, pk1⟩ := res1
  simp only at p1 r1 c1 l1 g1
  subst p1
  have hlen1 : m1.data.length = m1.rows * m1.columns := by rw [l1, r1, c1, hlen]
  obtain ⟨p2, r2, c2, l2, g2⟩ := tryGet_set m1 j i temp (by rw [r1, hm.rows]; exact hj)
    (by rw [c1, hm.cols]; exact hi) hlen1
  generalize hs2 : m1.set j i temp = res2 at p2 r2 c2 l2 g2
  obtain ⟨m2, pk2⟩ := res2
  simp only at p2 r2 c2 l2 g2
  subst p2
  refine ⟨temp, x, m1, m2, getP_of_tryGet m ht, getP_of_tryGet m hx, hs1, hs2,
    ⟨by rw [r2, r1, hm.rows], by rw [c2, c1, hm.cols], by rw [l2, l1, hm.len]⟩, ?_⟩
  intro a b ha hb
  rw [g2 a b (by rw [r1, hm.rows]; exact ha) (by rw [c1, hm.cols]; exact hb),
    g1 a b (by rw [hm.rows]; exact ha) (by rw [hm.cols]; exact hb), ht, hx]

/-- the swap loop over a duplicate-free list of in-range pairs: no panic, and cell `(a, b)` has
    been exchanged with `(b, a)` exactly when the pair `{a, b}` was visited in its `i ≤ j` form -/
theorem transposeMutLoop_spec {n : Nat} :
    ∀ (L : List (Nat × Nat)) (m : Matrix α), Sq n m → L.Nodup → (∀ p ∈ L, p.1 < n ∧ p.2 < n) →
      (transposeMutLoop L m).panic = none ∧ Sq n (transposeMutLoop L m).state ∧
      ∀ a b, a < n → b < n →
        (transposeMutLoop L m).state.tryGet a b =
          if ((a, b) ∈ L ∧ a ≤ b) ∨ ((b, a) ∈ L ∧ b ≤ a) then m.tryGet b a else m.tryGet a b := by
  intro L
  induction L with
  | nil =>
    intro m hm _ _
    simp [transposeMutLoop, hm]
  | cons p L ih =>
    intro m hm hnd hrange
    obtain ⟨i, j⟩ := p
    have hnd' := (List.nodup_cons.mp hnd)
    have hr' : ∀ p ∈ L, p.1 < n ∧ p.2 < n := fun p hp => hrange p (List.mem_cons_of_mem _ hp)
    have hij := hrange (i, j) List.mem_cons_self
    by_cases hlt : j < i
    · -- skipped pair
      have e : transposeMutLoop ((i, j) :: L) m = transposeMutLoop L m := by
        simp [transposeMutLoop, hlt]
      rw [e]
      obtain ⟨h1, h2, h3⟩ := ih m hm hnd'.2 hr'
      refine ⟨h1, h2, ?_⟩
      intro a b ha hb
      rw [h3 a b ha hb]
      have c1 : ((a, b) ∈ (i, j) :: L ∧ a ≤ b) ↔ ((a, b) ∈ L ∧ a ≤ b) := by
        simp only [List.mem_cons, Prod.mk.injEq]
        constructor
        · rintro ⟨h | h, h'⟩
          · omega
          · exact ⟨h, h'⟩
        · rintro ⟨h, h'⟩; exact ⟨Or.inr h, h'⟩
      have c2 : ((b, a) ∈ (i, j) :: L ∧ b ≤ a) ↔ ((b, a) ∈ L ∧ b ≤ a) := by
        simp only [List.mem_cons, Prod.mk.injEq]
        constructor
        · rintro ⟨h | h, h'⟩
          · omega
          · exact ⟨h, h'⟩
        · rintro ⟨h, h'⟩; exact ⟨Or.inr h, h'⟩
      simp only [c1, c2]
    · -- swapped pair
      obtain ⟨temp, x, m1, m2, e1, e2, e3, e4, hsq, hcell⟩ := swap_step m hm i j hij.1 hij.2
      have e : transposeMutLoop ((i, j) :: L) m = transposeMutLoop L m2 := by
        simp [transposeMutLoop, hlt, e1, e2, e3, e4]
      rw [e]
      obtain ⟨h1, h2, h3⟩ := ih m2 hsq hnd'.2 hr'
      refine ⟨h1, h2, ?_⟩
      intro a b ha hb
      rw [h3 a b ha hb]
      have hnot : (i, j) ∉ L := hnd'.1
      by_cases hc : ((a, b) ∈ L ∧ a ≤ b) ∨ ((b, a) ∈ L ∧ b ≤ a)
      · -- visited later: not touched by this step
        have hne1 : ¬ (b = j ∧ a = i) := by
          rintro ⟨rfl, rfl⟩
          rcases hc with ⟨h, _⟩ | ⟨h, h'⟩
          · exact hnot h
          · have : a = b := by omega
            subst this; exact hnot h
        have hne2 : ¬ (b = i ∧ a = j) := by
          rintro ⟨rfl, rfl⟩
          rcases hc with ⟨h, h'⟩ | ⟨h, _⟩
          · have : a = b := by omega
            subst this; exact hnot h
          · exact hnot h
        have hc' : ((a, b) ∈ (i, j) :: L ∧ a ≤ b) ∨ ((b, a) ∈ (i, j) :: L ∧ b ≤ a) := by
          rcases hc with ⟨h, h'⟩ | ⟨h, h'⟩
          · exact Or.inl ⟨List.mem_cons_of_mem _ h, h'⟩
          · exact Or.inr ⟨List.mem_cons_of_mem _ h, h'⟩
        rw [if_pos hc, if_pos hc', hcell b a hb ha, if_neg hne1, if_neg hne2]
      · rw [if_neg hc, hcell a b ha hb]
        by_cases q1 : a = j ∧ b = i
        · obtain ⟨rfl, rfl⟩ := q1
          have hc' : ((a, b) ∈ (b, a) :: L ∧ a ≤ b) ∨ ((b, a) ∈ (b, a) :: L ∧ b ≤ a) :=
            Or.inr ⟨List.mem_cons_self, by omega⟩
          rw [if_pos ⟨rfl, rfl⟩, if_pos hc']
        · rw [if_neg q1]
          by_cases q2 : a = i ∧ b = j
          · obtain ⟨rfl, rfl⟩ := q2
            have hc' : ((a, b) ∈ (a, b) :: L ∧ a ≤ b) ∨ ((b, a) ∈ (a, b) :: L ∧ b ≤ a) :=
              Or.inl ⟨List.mem_cons_self, by omega⟩
            rw [if_pos ⟨rfl, rfl⟩, if_pos hc']
          · rw [if_neg q2]
            have hc' : ¬ (((a, b) ∈ (i, j) :: L ∧ a ≤ b) ∨ ((b, a) ∈ (i, j) :: L ∧ b ≤ a)) := by
              simp only [List.mem_cons, Prod.mk.injEq]
              rintro (⟨h | h, h'⟩ | ⟨h | h, h'⟩)
              · exact q2 h
              · exact hc (Or.inl ⟨h, h'⟩)
              · exact q1 ⟨h.2, h.1⟩
              · exact hc (Or.inr ⟨h, h'⟩)
            rw [if_neg hc']

theorem mem_indexPairs {rows columns : Nat} {p : Nat × Nat} :
    p ∈ indexPairs rows columns ↔ p.1 < rows ∧ p.2 < columns := by
  obtain ⟨a, b⟩ := p
  simp only [indexPairs, List.mem_flatMap, List.mem_range, List.mem_map, Prod.mk.injEq]
  constructor
  · rintro ⟨r, hr, c, hc, rfl, rfl⟩; exact ⟨hr, hc⟩
  · rintro ⟨h1, h2⟩; exact ⟨a, h1, b, h2, rfl, rfl⟩

theorem nodup_indexPairs (rows columns : Nat) : (indexPairs rows columns).Nodup := by
  unfold indexPairs
  rw [List.nodup_iff_pairwise_ne, List.pairwise_flatMap]
  constructor
  · intro r _
    rw [List.pairwise_map]
    exact List.Pairwise.imp (fun h e => h (by simpa using e)) (List.nodup_range (n := columns))
  · have := List.nodup_range (n := rows)
    rw [List.nodup_iff_pairwise_ne] at this
    refine List.Pairwise.imp ?_ this
    intro r r' hne x hx y hy e
    simp only [List.mem_map] at hx hy
    obtain ⟨c, _, rfl⟩ := hx
    obtain ⟨c', _, rfl⟩ := hy
    simp only [Prod.mk.injEq] at e
    exact hne e.1

theorem cell_transpose_toRows (m : Matrix α) (h : m.Inv) (i j : Nat) (hi : i < m.columns)
    (hj : j < m.rows) : Rows.cell (Rows.transpose m.toRows) i j = m.tryGet j i := by
  rw [transpose_toRows m h]
  unfold Rows.cell
  simp only [List.getElem?_map, List.getElem?_range hi, Option.map_some, Option.bind_some]
  rw [getElem?_filterMap_all_some]
  · simp [List.getElem?_range hj]
  · intro r hr
    exact tryGet_isSome m h.1 (List.mem_range.mp hr) hi

theorem ofRows_result {c : Nat} (rs : Rows α) (hrect : Rect c rs) (hn : 1 ≤ rs.length)
    (hc : 1 ≤ c) : (ofRows rs c).Inv ∧ (ofRows rs c).toRows = rs :=
  ⟨inv_ofRows hrect hn hc, toRows_ofRows rs hrect⟩

/-- `transpose_mut` on an invariant-satisfying matrix -/
theorem transposeMut_spec (m : Matrix α) (h : m.Inv) :
    (m.transposeMut).panic = none ∧ (m.transposeMut).state.Inv ∧
      (m.transposeMut).state.toRows = Rows.transpose m.toRows := by
  unfold transposeMut
  by_cases hsq : m.rows = m.columns
  · -- square: the swap loop
    simp only [hsq, ne_eq, not_true_eq_false, if_false]
    have hS : Sq m.columns m := ⟨hsq, rfl, by rw [h.1, hsq]⟩
    obtain ⟨h1, h2, h3⟩ := transposeMutLoop_spec (indexPairs m.columns m.columns) m hS
      (nodup_indexPairs _ _) (fun p hp => mem_indexPairs.mp hp)
    generalize transposeMutLoop (indexPairs m.columns m.columns) m = res at h1 h2 h3
    have hinv : res.state.Inv := by
      refine ⟨by rw [h2.len, h2.rows, h2.cols], by rw [h2.rows]; exact h.2.2,
        by rw [h2.cols]; exact h.2.2⟩
    refine ⟨h1, hinv, ?_⟩
    have hr1 : Rect m.columns res.state.toRows := by
      have := rect_toRows res.state hinv; rwa [h2.cols] at this
    have hr2 : Rect m.columns (Rows.transpose m.toRows) := by
      have := rect_transpose_toRows m h; rwa [hsq] at this
    apply rows_ext hr1 hr2
    · rw [length_toRows, length_transpose_toRows m h, h2.rows]
    · intro i j hi hj
      rw [length_toRows, h2.rows] at hi
      rw [cell_toRows, cell_transpose_toRows m h i j hi (by rw [hsq]; exact hj), h3 i j hi hj]
      have : ((i, j) ∈ indexPairs m.columns m.columns ∧ i ≤ j) ∨
          ((j, i) ∈ indexPairs m.columns m.columns ∧ j ≤ i) := by
        rcases Nat.le_total i j with hle | hle
        · exact Or.inl ⟨mem_indexPairs.mpr ⟨hi, hj⟩, hle⟩
        · exact Or.inr ⟨mem_indexPairs.mpr ⟨hj, hi⟩, hle⟩
      rw [if_pos this]
  · simp only [hsq, ne_eq, not_false_eq_true, if_true, transposeP_spec m h]
    have := ofRows_result (Rows.transpose m.toRows) (rect_transpose_toRows m h)
      (by rw [length_transpose_toRows m h]; exact h.2.2) h.2.1
    exact ⟨trivial, this.1, this.2⟩

/-- `transpose` on an invariant-satisfying matrix -/
theorem transpose_spec (m : Matrix α) (h : m.Inv) :
    (m.transpose).panic = none ∧ (m.transpose).state.Inv ∧
      (m.transpose).state.toRows = Rows.transpose m.toRows := by
  unfold transpose
  simp only [transposeP_spec m h]
  have := ofRows_result (Rows.transpose m.toRows) (rect_transpose_toRows m h)
    (by rw [length_transpose_toRows m h]; exact h.2.2) h.2.1
  exact ⟨trivial, this.1, this.2⟩

/-! ## 6. map_mut_with_index -/

theorem foldl_modify_spec (cols : Nat) (f : α → Nat → Nat → α) :
    ∀ (L : List (Nat × Nat)) (data : List α), L.Nodup → (∀ p ∈ L, p.2 < cols) →
      (L.foldl (fun d (ij : Nat × Nat) => d.modify (ij.2 + ij.1 * cols) (fun x => f x ij.1 ij.2))
        data).length = data.length ∧
      ∀ a b, b < cols →
        (L.foldl (fun d (ij : Nat × Nat) => d.modify (ij.2 + ij.1 * cols) (fun x => f x ij.1 ij.2))
          data)[b + a * cols]? =
          if (a, b) ∈ L then data[b + a * cols]?.map (fun x => f x a b) else data[b + a * cols]? := by
  intro L
  induction L with
  | nil => intro data _ _; simp
  | cons p L ih =>
    intro data hnd hr
    obtain ⟨i, j⟩ := p
    have hnd' := List.nodup_cons.mp hnd
    have hj : j < cols := hr (i, j) List.mem_cons_self
    obtain ⟨h1, h2⟩ := ih (data.modify (j + i * cols) (fun x => f x i j)) hnd'.2
      (fun p hp => hr p (List.mem_cons_of_mem _ hp))
    simp only [List.foldl_cons]
    refine ⟨by rw [h1, List.length_modify], ?_⟩
    intro a b hb
    rw [h2 a b hb]
    by_cases e : a = i ∧ b = j
    · obtain ⟨rfl, rfl⟩ := e
      have : (a, b) ∉ L := hnd'.1
      simp [this]
    · have hne : j + i * cols ≠ b + a * cols := by
        intro e'
        have := getIndex_inj hj hb e'
        exact e ⟨this.1.symm, this.2.symm⟩
      have hm : ((a, b) ∈ (i, j) :: L) ↔ (a, b) ∈ L := by
        simp only [List.mem_cons, Prod.mk.injEq]
        constructor
        · rintro (h | h)
          · exact absurd h e
          · exact h
        · exact Or.inr
      simp only [List.getElem?_modify_ne _ _ hne, hm]

theorem rect_mapIdx {c : Nat} (rs : Rows α) (h : Rect c rs) (f : α → Nat → Nat → α) :
    Rect c (rs.mapIdx fun i r => r.mapIdx fun j x => f x i j) := by
  intro r hr
  obtain ⟨i, hi, rfl⟩ := List.mem_mapIdx.mp hr
  simp [h _ (List.getElem_mem hi)]

/-- `map_mut_with_index` on an invariant-satisfying matrix -/
theorem mapMutWithIndex_spec (m : Matrix α) (h : m.Inv) (f : α → Nat → Nat → α) :
    (m.mapMutWithIndex f).panic = none ∧ (m.mapMutWithIndex f).state.Inv ∧
      (m.mapMutWithIndex f).state.toRows =
        m.toRows.mapIdx fun i r => r.mapIdx fun j x => f x i j := by
  unfold mapMutWithIndex
  simp only [getIndex]
  obtain ⟨h1, h2⟩ := foldl_modify_spec m.columns f (indexPairs m.rows m.columns) m.data
    (nodup_indexPairs _ _) (fun p hp => (mem_indexPairs.mp hp).2)
  generalize (indexPairs m.rows m.columns).foldl
    (fun d (ij : Nat × Nat) => d.modify (ij.2 + ij.1 * m.columns) (fun x => f x ij.1 ij.2))
    m.data = data' at h1 h2
  have hinv : (⟨data', m.rows, m.columns⟩ : Matrix α).Inv := ⟨by rw [h1]; exact h.1, h.2.1, h.2.2⟩
  refine ⟨trivial, hinv, ?_⟩
  apply rows_ext (rect_toRows _ hinv) (rect_mapIdx _ (rect_toRows m h) f)
  · simp [length_toRows]
  · intro i j hi hj
    rw [length_toRows] at hi
    simp only at hi hj
    rw [cell_toRows]
    unfold Rows.cell
    simp only [List.getElem?_mapIdx, Option.bind_map, Function.comp_def]
    have hc := cell_toRows m i j
    unfold Rows.cell at hc
    simp only [tryGet, getIndex, hi, hj, and_self, if_true] at hc ⊢
    rw [h2 i j hj, if_pos (mem_indexPairs.mpr ⟨hi, hj⟩), ← hc]
    cases m.toRows[i]? <;> simp

/-! ## 7. retain (allocating) -/

theorem clone_inv (m : Matrix α) (h : m.Inv) : m.clone = .ok m := by
  unfold clone fromFlatRowMajor
  have hne : m.data ≠ [] := by
    intro e
    have := h.1
    rw [e] at this
    have : 1 ≤ m.rows * m.columns := Nat.mul_le_mul h.2.1 h.2.2
    simp at *; omega
  simp [h.1, hne]

theorem retain_eq (m : Matrix α) (h : m.Inv) (a b : Slice) :
    m.retain a b =
      match m.retainMut a b with
      | ⟨r, none⟩ => ⟨r, none⟩
      | ⟨_, some k⟩ => ⟨m, some k⟩ := by
  unfold retain
  simp only [clone_inv m h]
  generalize m.retainMut a b = res
  obtain ⟨r, p⟩ := res
  cases p <;> rfl

/-! ## 7b. map, map_with_index (allocating), scalar -/

theorem fromFlatRowMajor_some (rows columns : Nat) (values : List α)
    (h1 : rows * columns = values.length) (h2 : values ≠ []) :
    fromFlatRowMajor rows columns values = some ⟨values, rows, columns⟩ := by
  simp [fromFlatRowMajor, h1, h2]

/-- `map` on the stored form -/
theorem mapAlloc_ofRows {c : Nat} (rs : Rows α) (h : Rect c rs) (hn : 1 ≤ rs.length) (hc : 1 ≤ c)
    (f : α → α) : (ofRows rs c).mapAlloc f = ⟨ofRows (rs.map (·.map f)) c, none⟩ := by
  have hl : (rs.flatten.map f).length = rs.length * c := by
    rw [List.length_map, length_flatten_rect h]
  have hne : rs.flatten.map f ≠ [] := by
    intro e
    rw [e] at hl
    have : 1 ≤ rs.length * c := Nat.mul_le_mul hn hc
    simp at hl; omega
  unfold mapAlloc
  rw [show (ofRows rs c).data = rs.flatten from rfl, show (ofRows rs c).rows = rs.length from rfl,
    show (ofRows rs c).columns = c from rfl, fromFlatRowMajor_some _ _ _ hl.symm hne]
  simp [ofRows, List.map_flatten]

theorem toOption_mapped_getP (m : Matrix α) (f : α → Nat → Nat → α) (i j : Nat) :
    (m.mappedGetP f i j).toOption = (m.tryGet i j).map fun x => f x i j := by
  rw [← getP_toOption]
  unfold mappedGetP
  cases m.getP i j <;> rfl

/-- `map_with_index` on an invariant-satisfying matrix -/
theorem mapWithIndex_spec (m : Matrix α) (h : m.Inv) (f : α → Nat → Nat → α) :
    (m.mapWithIndex f).panic = none ∧ (m.mapWithIndex f).state.Inv ∧
      (m.mapWithIndex f).state.toRows =
        m.toRows.mapIdx fun i r => r.mapIdx fun j x => f x i j := by
  unfold mapWithIndex fromFn indexPairs
  have hsome : ∀ r ∈ List.range m.rows, ∀ c ∈ List.range m.columns,
      ∃ x, m.mappedGetP f r c = .ok x := by
    intro r hr c hc
    obtain ⟨x, hx⟩ := tryGet_isSome m h.1 (List.mem_range.mp hr) (List.mem_range.mp hc)
    exact ⟨f x r c, by unfold mappedGetP; rw [getP_of_tryGet m hx]⟩
  rw [fromFnLoop_pairs _ _ _ hsome]
  simp only [toOption_mapped_getP]
  generalize hR : (List.map (fun r => List.filterMap (fun c => (m.tryGet r c).map fun x => f x r c)
    (List.range m.columns)) (List.range m.rows)) = R
  have hrect : Rect m.columns R := by
    rw [← hR]
    intro r hr
    simp only [List.mem_map, List.mem_range] at hr
    obtain ⟨i, hi, rfl⟩ := hr
    rw [length_filterMap_all_some]
    · simp
    · intro c hc
      obtain ⟨x, hx⟩ := tryGet_isSome m h.1 hi (List.mem_range.mp hc)
      exact ⟨f x i c, by rw [hx]; rfl⟩
  have hlen : R.length = m.rows := by rw [← hR]; simp
  have hfl : R.flatten.length = m.rows * m.columns := by rw [length_flatten_rect hrect, hlen]
  have hne : R.flatten ≠ [] := by
    intro e
    rw [e] at hfl
    have : 1 ≤ m.rows * m.columns := Nat.mul_le_mul h.2.1 h.2.2
    simp at hfl; omega
  simp only [fromFlatRowMajor, hfl, hne, ne_eq, not_false_eq_true, and_self, if_true]
  have hres := ofRows_result R hrect (by rw [hlen]; exact h.2.1) h.2.2
  have e : (⟨R.flatten, m.rows, m.columns⟩ : Matrix α) = ofRows R m.columns := by
    simp [ofRows, hlen]
  rw [e]
  refine ⟨trivial, hres.1, ?_⟩
  rw [hres.2]
  apply rows_ext hrect (rect_mapIdx _ (rect_toRows m h) f)
  · simp [hlen, length_toRows]
  · intro i j hi hj
    rw [hlen] at hi
    unfold Rows.cell
    rw [← hR]
    simp only [List.getElem?_map, List.getElem?_range hi, Option.map_some, Option.bind_some,
      List.getElem?_mapIdx, Option.bind_map, Function.comp_def]
    rw [getElem?_filterMap_all_some]
    · simp only [List.getElem?_range hj, Option.bind_some]
      have hc := cell_toRows m i j
      unfold Rows.cell at hc
      rw [← hc]
      cases m.toRows[i]? <;> simp
    · intro c hc
      obtain ⟨x, hx⟩ := tryGet_isSome m h.1 hi (List.mem_range.mp hc)
      exact ⟨f x i c, by rw [hx]; rfl⟩

/-- a matrix satisfying the invariant whose size is 1×1 stores exactly one element -/
theorem one_by_one (m : Matrix α) (h : m.Inv) (hr : m.rows = 1) (hc : m.columns = 1) :
    ∃ x, m = ⟨[x], 1, 1⟩ := by
  cases m with
  | mk data rows columns =>
    simp only at hr hc
    subst hr hc
    have hl : data.length = 1 := by simpa using h.1
    match data, hl with
    | [x], _ => exact ⟨x, rfl⟩

theorem toRows_eq_singleton_iff (m : Matrix α) (h : m.Inv) (x : α) :
    m.toRows = [[x]] → m.rows = 1 ∧ m.columns = 1 := by
  intro e
  have h1 : m.rows = 1 := by rw [← length_toRows m, e]; rfl
  have h2 : m.columns = 1 := by rw [← ncols_toRows m h, e]; rfl
  exact ⟨h1, h2⟩

/-- `scalar()` agrees with the list of rows -/
theorem scalarP_spec (m : Matrix α) (h : m.Inv) : m.scalarP = Rows.scalar m.toRows := by
  unfold scalarP
  by_cases hr : m.rows = 1
  · by_cases hc : m.columns = 1
    · obtain ⟨x, rfl⟩ := one_by_one m h hr hc
      rfl
    · simp only [hr, hc, if_true, if_false]
      unfold Rows.scalar
      split
      · rename_i x e
        exact absurd (toRows_eq_singleton_iff m h x e).2 hc
      · rfl
  · simp only [hr, if_false]
    unfold Rows.scalar
    split
    · rename_i x e
      exact absurd (toRows_eq_singleton_iff m h x e).1 hr
    · rfl

/-- `try_into_scalar()` agrees with the list of rows and never panics -/
theorem tryIntoScalar_spec (m : Matrix α) (h : m.Inv) :
    m.tryIntoScalar = .ok (Rows.tryIntoScalar m.toRows) := by
  unfold tryIntoScalar
  by_cases hs : m.rows = 1 ∧ m.columns = 1
  · obtain ⟨x, rfl⟩ := one_by_one m h hs.1 hs.2
    rfl
  · simp only [hs, if_false]
    unfold Rows.tryIntoScalar
    split
    · rename_i x e
      exact absurd (toRows_eq_singleton_iff m h x e) hs
    · rfl

/-! ## 8. every operation, completely -/

theorem rect_map_insertIdx {c : Nat} (rs : Rows α) (h : Rect c rs) (column : Nat)
    (hcol : column ≤ c) (v : α) : Rect (c + 1) (rs.map (·.insertIdx column v)) := by
  intro r hr
  simp only [List.mem_map] at hr
  obtain ⟨x, hx, rfl⟩ := hr
  rw [List.length_insertIdx_of_le_length (by rw [h x hx]; exact hcol), h x hx]

theorem rect_eraseIdx {c : Nat} (rs : Rows α) (h : Rect c rs) (row : Nat) :
    Rect c (rs.eraseIdx row) :=
  fun r hr => h r (List.mem_of_mem_eraseIdx hr)

theorem rect_map_eraseIdx {c : Nat} (rs : Rows α) (h : Rect c rs) (column : Nat)
    (hcol : column < c) : Rect (c - 1) (rs.map (·.eraseIdx column)) := by
  intro r hr
  simp only [List.mem_map] at hr
  obtain ⟨x, hx, rfl⟩ := hr
  rw [List.length_eraseIdx_of_lt (by rw [h x hx]; exact hcol), h x hx]

/-- The complete behaviour of every operation on the stored form of a rectangular, non-empty
    list of rows: when the documented precondition holds there is no panic, the invariant is
    kept and the rows are those of the list-of-rows model; otherwise the operation panics
    (explicitly, i.e. by one of the library's own asserts) and the matrix is untouched. -/
theorem exec_spec_ofRows {c : Nat} (rs : Rows α) (hrect : Rect c rs) (hn : 1 ≤ rs.length)
    (hc : 1 ≤ c) (op : Op α) :
    (Rows.pre rs op = true →
      ((ofRows rs c).exec op).panic = none ∧ ((ofRows rs c).exec op).state.Inv ∧
      ((ofRows rs c).exec op).state.toRows = Rows.apply rs op) ∧
    (Rows.pre rs op = false →
      ((ofRows rs c).exec op).panic = some .explicit ∧
      ((ofRows rs c).exec op).state = ofRows rs c) := by
  have hcols : Rows.ncols rs = c := ncols_of_rect hrect hn
  have hinv : (ofRows rs c).Inv := inv_ofRows hrect hn hc
  have htr : (ofRows rs c).toRows = rs := toRows_ofRows rs hrect
  cases op with
  | insertRow row v =>
    simp only [exec, Rows.apply, hcols, insertRow_ofRows rs hrect]
    constructor
    · intro hp
      simp [Rows.pre, Rows.nrows] at hp
      rw [if_pos hp]
      have := ofRows_result (rs.insertIdx row (List.replicate c v))
        (rect_insertIdx rs hrect row _ (by simp))
        (by rw [List.length_insertIdx_of_le_length hp]; omega) hc
      exact ⟨rfl, this.1, this.2⟩
    · intro hp
      simp [Rows.pre, Rows.nrows] at hp
      rw [if_neg (by omega)]
      exact ⟨rfl, rfl⟩
  | insertRowWith row values =>
    simp only [exec, Rows.apply, hcols, insertRowWith_ofRows rs hrect]
    constructor
    · intro hp
      simp [Rows.pre, Rows.nrows, hcols] at hp
      rw [if_pos hp]
      have hl : (values.take c).length = c := by simp; omega
      have := ofRows_result (rs.insertIdx row (values.take c))
        (rect_insertIdx rs hrect row _ hl)
        (by rw [List.length_insertIdx_of_le_length hp.1]; omega) hc
      exact ⟨rfl, this.1, this.2⟩
    · intro hp
      simp [Rows.pre, Rows.nrows, hcols] at hp
      rw [if_neg (by omega)]
      exact ⟨rfl, rfl⟩
  | insertColumn column v =>
    simp only [exec, Rows.apply, insertColumn_ofRows rs hrect]
    constructor
    · intro hp
      simp [Rows.pre, hcols] at hp
      rw [if_pos hp]
      have := ofRows_result (rs.map (·.insertIdx column v))
        (rect_map_insertIdx rs hrect column hp v) (by simpa using hn) (by omega)
      exact ⟨rfl, this.1, this.2⟩
    · intro hp
      simp [Rows.pre, hcols] at hp
      rw [if_neg (by omega)]
      exact ⟨rfl, rfl⟩
  | insertColumnWith column values =>
    simp only [exec, Rows.apply, insertColumnWith_ofRows rs hrect]
    constructor
    · intro hp
      simp [Rows.pre, Rows.nrows, hcols] at hp
      rw [if_pos hp]
      have := ofRows_result (List.zipWith (fun r v => r.insertIdx column v) rs values)
        (rect_zipWith_insertIdx rs hrect column hp.1 values)
        (by simp; omega) (by omega)
      exact ⟨rfl, this.1, this.2⟩
    · intro hp
      simp [Rows.pre, Rows.nrows, hcols] at hp
      rw [if_neg (by omega)]
      exact ⟨rfl, rfl⟩
  | removeRow row =>
    simp only [exec, Rows.apply, removeRow_ofRows rs hrect hc]
    constructor
    · intro hp
      simp [Rows.pre, Rows.nrows] at hp
      rw [if_pos hp]
      have := ofRows_result (rs.eraseIdx row) (rect_eraseIdx rs hrect row)
        (by rw [List.length_eraseIdx_of_lt hp.2]; omega) hc
      exact ⟨rfl, this.1, this.2⟩
    · intro hp
      simp [Rows.pre, Rows.nrows] at hp
      rw [if_neg (by omega)]
      exact ⟨rfl, rfl⟩
  | removeColumn column =>
    simp only [exec, Rows.apply, removeColumn_ofRows rs hrect hc]
    constructor
    · intro hp
      simp [Rows.pre, hcols] at hp
      rw [if_pos hp]
      have := ofRows_result (rs.map (·.eraseIdx column)) (rect_map_eraseIdx rs hrect column hp.2)
        (by simpa using hn) (by omega)
      exact ⟨rfl, this.1, this.2⟩
    · intro hp
      simp [Rows.pre, hcols] at hp
      rw [if_neg (by omega)]
      exact ⟨rfl, rfl⟩
  | retainMut a b =>
    simp only [exec, Rows.pre, Rows.apply, Rows.nrows, hcols, retainMut_ofRows rs hrect hc]
    constructor
    · intro hp
      rw [if_pos hp]
      simp only [Bool.and_eq_true] at hp
      have := ofRows_result ((filterIdx a.accepts rs).map (filterIdx b.accepts))
        (rect_retain rs hrect a b)
        (by rw [List.length_map, length_filterIdx]; exact (anyAccepted_iff a _).mp hp.1)
        ((anyAccepted_iff b c).mp hp.2)
      exact ⟨rfl, this.1, this.2⟩
    · intro hp
      rw [if_neg (by rw [hp]; simp)]
      exact ⟨rfl, rfl⟩
  | retain a b =>
    simp only [exec, Rows.pre, Rows.apply, Rows.nrows, hcols, retain_eq _ hinv,
      retainMut_ofRows rs hrect hc]
    constructor
    · intro hp
      rw [if_pos hp]
      simp only [Bool.and_eq_true] at hp
      have := ofRows_result ((filterIdx a.accepts rs).map (filterIdx b.accepts))
        (rect_retain rs hrect a b)
        (by rw [List.length_map, length_filterIdx]; exact (anyAccepted_iff a _).mp hp.1)
        ((anyAccepted_iff b c).mp hp.2)
      exact ⟨rfl, this.1, this.2⟩
    · intro hp
      rw [if_neg (by rw [hp]; simp)]
      exact ⟨rfl, rfl⟩
  | transpose =>
    have := transpose_spec (ofRows rs c) hinv
    rw [htr] at this
    simp only [exec, Rows.pre, Rows.apply]
    exact ⟨fun _ => this, fun hp => by simp at hp⟩
  | transposeMut =>
    have := transposeMut_spec (ofRows rs c) hinv
    rw [htr] at this
    simp only [exec, Rows.pre, Rows.apply]
    exact ⟨fun _ => this, fun hp => by simp at hp⟩
  | set row column v =>
    simp only [exec, Rows.apply, set_ofRows rs hrect]
    constructor
    · intro hp
      simp [Rows.pre, Rows.nrows, hcols] at hp
      rw [if_pos hp]
      have := ofRows_result (rs.modify row (·.set column v)) (rect_modify_set rs hrect row column v)
        (by simpa using hn) hc
      exact ⟨rfl, this.1, this.2⟩
    · intro hp
      simp [Rows.pre, Rows.nrows, hcols] at hp
      rw [if_neg (by omega)]
      exact ⟨rfl, rfl⟩
  | mapMut f =>
    simp only [exec, Rows.pre, Rows.apply, mapMut_ofRows]
    have := ofRows_result (rs.map (·.map f)) (rect_map_map rs hrect f) (by simpa using hn) hc
    exact ⟨fun _ => ⟨trivial, this.1, this.2⟩, fun hp => by simp at hp⟩
  | mapMutWithIndex f =>
    have := mapMutWithIndex_spec (ofRows rs c) hinv f
    rw [htr] at this
    simp only [exec, Rows.pre, Rows.apply]
    exact ⟨fun _ => this, fun hp => by simp at hp⟩
  | map f =>
    simp only [exec, Rows.pre, Rows.apply, mapAlloc_ofRows rs hrect hn hc]
    have := ofRows_result (rs.map (·.map f)) (rect_map_map rs hrect f) (by simpa using hn) hc
    exact ⟨fun _ => ⟨trivial, this.1, this.2⟩, fun hp => by simp at hp⟩
  | mapWithIndex f =>
    have := mapWithIndex_spec (ofRows rs c) hinv f
    rw [htr] at this
    simp only [exec, Rows.pre, Rows.apply]
    exact ⟨fun _ => this, fun hp => by simp at hp⟩

/-- `exec_spec_ofRows` for an arbitrary matrix satisfying the invariant -/
theorem exec_spec (m : Matrix α) (h : m.Inv) (op : Op α) :
    (Rows.pre m.toRows op = true →
      (m.exec op).panic = none ∧ (m.exec op).state.Inv ∧
      (m.exec op).state.toRows = Rows.apply m.toRows op) ∧
    (Rows.pre m.toRows op = false →
      (m.exec op).panic = some .explicit ∧ (m.exec op).state = m) := by
  have e := eq_ofRows_toRows m h
  have := exec_spec_ofRows m.toRows (rect_toRows m h) (by rw [length_toRows]; exact h.2.1) h.2.2 op
  rw [← e] at this
  exact this

/-! ## 9. constructors -/

/-- the diagonal writes of `diagonal` / `from_diagonal` on an `n × n` matrix -/
theorem setDiagLoop_spec {n : Nat} :
    ∀ (vs : List α) (k : Nat) (m : Matrix α), Sq n m → k + vs.length ≤ n →
      (setDiagLoop k vs m).panic = none ∧ Sq n (setDiagLoop k vs m).state ∧
      ∀ a b, a < n → b < n →
        (setDiagLoop k vs m).state.tryGet a b =
          if a = b ∧ k ≤ a ∧ a < k + vs.length then vs[a - k]? else m.tryGet a b := by
  intro vs
  induction vs with
  | nil =>
    intro k m hm _
    refine ⟨rfl, hm, ?_⟩
    intro a b _ _
    rw [if_neg (by simp only [List.length_nil]; omega)]
    rfl
  | cons x xs ih =>
    intro k m hm hk
    simp only [List.length_cons] at hk
    have hlen : m.data.length = m.rows * m.columns := by rw [hm.len, hm.rows, hm.cols]
    have hkn : k < n := by omega
    obtain ⟨p1, r1, c1, l1, g1⟩ := tryGet_set m k k x (by rw [hm.rows]; exact hkn)
      (by rw [hm.cols]; exact hkn) hlen
    generalize hs : m.set k k x = res1 at p1 r1 c1 l1 g1
    obtain ⟨m1, pk⟩ := res1
    simp only at p1 r1 c1 l1 g1
    subst p1
    have hsq1 : Sq n m1 := ⟨by rw [r1, hm.rows], by rw [c1, hm.cols], by rw [l1, hm.len]⟩
    have e : setDiagLoop k (x :: xs) m = setDiagLoop (k + 1) xs m1 := by
      simp [setDiagLoop, hs]
    rw [e]
    obtain ⟨h1, h2, h3⟩ := ih (k + 1) m1 hsq1 (by omega)
    refine ⟨h1, h2, ?_⟩
    intro a b ha hb
    rw [h3 a b ha hb, g1 a b (by rw [hm.rows]; exact ha) (by rw [hm.cols]; exact hb)]
    by_cases q : a = b ∧ k + 1 ≤ a ∧ a < k + 1 + xs.length
    · rw [if_pos q, if_pos (by simp only [List.length_cons]; omega)]
      have : a - k = (a - (k + 1)) + 1 := by omega
      rw [this]
      simp
    · rw [if_neg q]
      by_cases q2 : a = k ∧ b = k
      · rw [if_pos q2, if_pos (by simp only [List.length_cons]; omega)]
        obtain ⟨rfl, rfl⟩ := q2
        simp
      · rw [if_neg q2, if_neg (by simp only [List.length_cons]; omega)]

theorem rect_diag (zero : α) (vs : List α) : Rect vs.length (Rows.diag zero vs) := by
  intro r hr
  unfold Rows.diag at hr
  obtain ⟨i, hi, rfl⟩ := List.mem_mapIdx.mp hr
  simp

theorem cell_diag (zero : α) (vs : List α) (a b : Nat) (ha : a < vs.length) (hb : b < vs.length) :
    Rows.cell (Rows.diag zero vs) a b = some (if b = a then vs[a] else zero) := by
  unfold Rows.cell Rows.diag
  simp [List.getElem?_mapIdx, List.getElem?_eq_getElem ha, List.getElem?_range hb]

/-- `empty(zero, (n, n))` followed by the diagonal writes is the diagonal list of rows -/
theorem diag_result (zero : α) (vs : List α) (hn : 1 ≤ vs.length) :
    (setDiagLoop 0 vs ⟨List.replicate (vs.length * vs.length) zero, vs.length, vs.length⟩).panic
        = none ∧
    (setDiagLoop 0 vs ⟨List.replicate (vs.length * vs.length) zero, vs.length, vs.length⟩).state.Inv ∧
    (setDiagLoop 0 vs ⟨List.replicate (vs.length * vs.length) zero, vs.length,
        vs.length⟩).state.toRows = Rows.diag zero vs := by
  have hS : Sq vs.length (⟨List.replicate (vs.length * vs.length) zero, vs.length, vs.length⟩ :
      Matrix α) := ⟨rfl, rfl, by simp⟩
  obtain ⟨h1, h2, h3⟩ := setDiagLoop_spec vs 0 _ hS (by omega)
  generalize setDiagLoop 0 vs ⟨List.replicate (vs.length * vs.length) zero, vs.length, vs.length⟩
    = res at h1 h2 h3
  have hinv : res.state.Inv := ⟨by rw [h2.len, h2.rows, h2.cols], by rw [h2.rows]; exact hn,
    by rw [h2.cols]; exact hn⟩
  refine ⟨h1, hinv, ?_⟩
  have hr1 : Rect vs.length res.state.toRows := by
    have := rect_toRows res.state hinv; rwa [h2.cols] at this
  apply rows_ext hr1 (rect_diag zero vs)
  · rw [length_toRows, h2.rows]; simp [Rows.diag]
  · intro a b ha hb
    rw [length_toRows, h2.rows] at ha
    rw [cell_toRows, h3 a b ha hb, cell_diag zero vs a b ha hb]
    by_cases e : a = b
    · subst e
      rw [if_pos ⟨rfl, by omega, by omega⟩]
      simp [List.getElem?_eq_getElem ha]
    · rw [if_neg (fun h => e h.1)]
      have hidx := getIndex_lt ha hb
      simp only [tryGet, getIndex, ha, hb, and_self, if_true, List.getElem?_replicate, hidx]
      rw [if_neg (fun h => e h.symm)]

theorem flatten_map_singleton (l : List α) : (l.map fun x => [x]).flatten = l := by
  induction l with
  | nil => rfl
  | cons a l ih => simp [ih]

/-- Every public constructor, completely: when the documented precondition holds it returns a
    matrix that satisfies the invariant and whose rows are the described ones; otherwise it
    panics by one of the library's assertions. -/
theorem ctor_spec (c : Ctor α) :
    (Rows.ctorPre c = true →
      ∃ m, c.build = .ok m ∧ m.Inv ∧ m.toRows = Rows.ctorRows c) ∧
    (Rows.ctorPre c = false → c.build = .panic .explicit) := by
  cases c with
  | fromScalar v =>
    refine ⟨fun _ => ⟨⟨[v], 1, 1⟩, rfl, ⟨rfl, Nat.le_refl 1, Nat.le_refl 1⟩, rfl⟩, fun h => ?_⟩
    simp [Rows.ctorPre] at h
  | row values =>
    simp only [Rows.ctorPre, Ctor.build, Rows.ctorRows]
    constructor
    · intro h
      have hne : values ≠ [] := by intro e; rw [e] at h; simp at h
      have hpos : 1 ≤ values.length := List.length_pos_iff.mpr hne
      rw [if_pos hne]
      have := ofRows_result [values] (c := values.length) (by intro r hr; simp at hr; rw [hr])
        (by simp) hpos
      exact ⟨_, rfl, by simpa [ofRows] using this.1, by simpa [ofRows] using this.2⟩
    · intro h
      have : values = [] := by cases values <;> simp_all
      rw [if_neg (by simp [this])]
  | column values =>
    simp only [Rows.ctorPre, Ctor.build, Rows.ctorRows]
    constructor
    · intro h
      have hne : values ≠ [] := by intro e; rw [e] at h; simp at h
      have hpos : 1 ≤ values.length := List.length_pos_iff.mpr hne
      rw [if_pos hne]
      have := ofRows_result (values.map fun x => [x]) (c := 1)
        (by intro r hr; simp only [List.mem_map] at hr; obtain ⟨x, _, rfl⟩ := hr; rfl)
        (by simpa using hpos) (Nat.le_refl 1)
      have e : ofRows (values.map fun x => [x]) 1 = ⟨values, values.length, 1⟩ := by
        simp [ofRows, flatten_map_singleton]
      rw [e] at this
      exact ⟨_, rfl, this.1, this.2⟩
    · intro h
      have : values = [] := by cases values <;> simp_all
      rw [if_neg (by simp [this])]
  | fromRows values =>
    simp only [Rows.ctorPre, Ctor.build, Rows.ctorRows]
    cases values with
    | nil => simp [Matrix.fromRows]
    | cons first rest =>
      unfold Matrix.fromRows
      by_cases hf : first = []
      · simp [hf]
      · have hpos : 1 ≤ first.length := List.length_pos_iff.mpr hf
        have hie : first.isEmpty = false := by cases first <;> simp_all
        simp only [hf, if_false, hie, Bool.not_false, Bool.true_and]
        by_cases hall : ((first :: rest).all fun r => r.length == first.length) = true
        · simp only [hall, if_true]
          refine ⟨fun _ => ?_, fun h => by simp at h⟩
          have hrect : Rect first.length (first :: rest) := by
            intro r hr
            simp only [List.all_eq_true, beq_iff_eq] at hall
            exact hall r hr
          have := ofRows_result (first :: rest) hrect (by simp) hpos
          exact ⟨_, rfl, this.1, this.2⟩
        · simp only [hall]
          refine ⟨fun h => by simp at h, fun _ => rfl⟩
  | fromFlatRowMajor rows columns values =>
    simp only [Rows.ctorPre, Ctor.build, Rows.ctorRows, fromFlatRowMajorC]
    constructor
    · intro h
      simp only [Bool.and_eq_true, decide_eq_true_eq, Bool.not_eq_true'] at h
      obtain ⟨⟨h1, h2⟩, h3⟩ := h
      have hne : values ≠ [] := by intro e; rw [e] at h3; simp at h3
      rw [if_pos ⟨h1, h2⟩, if_pos hne]
      have hpos : 0 < values.length := List.length_pos_iff.mpr hne
      have hr : 1 ≤ rows := by
        rcases Nat.eq_zero_or_pos rows with h0 | h0
        · rw [h0] at h2; simp at h2; omega
        · exact h0
      have hcl : 1 ≤ columns := by
        rcases Nat.eq_zero_or_pos columns with h0 | h0
        · rw [h0] at h2; simp at h2; omega
        · exact h0
      exact ⟨_, rfl, ⟨h2.symm, hr, hcl⟩, rfl⟩
    · intro h
      by_cases hc : rows * columns ≤ usizeMax ∧ rows * columns = values.length
      · rw [if_pos hc]
        have : values = [] := by
          cases values with
          | nil => rfl
          | cons a l =>
            exfalso
            have h1 := hc.1
            have h2 := hc.2
            simp [h2] at h
            simp only [List.length_cons] at h2
            omega
        rw [if_neg (by simp [this])]
      · rw [if_neg hc]
  | fromFn rows columns producer =>
    simp only [Rows.ctorPre, Ctor.build, Rows.ctorRows, fromFnC]
    have hloop : fromFnLoop (fun r c => Outcome.ok (producer r c)) (indexPairs rows columns) =
        .ok ((List.range rows).map fun r => (List.range columns).map fun c => producer r c).flatten := by
      unfold indexPairs
      rw [fromFnLoop_pairs _ _ _ (fun r _ c _ => ⟨producer r c, rfl⟩)]
      simp only [Outcome.toOption, List.filterMap_eq_map']
    generalize hR : ((List.range rows).map fun r => (List.range columns).map fun c => producer r c)
      = R at hloop
    have hrect : Rect columns R := by
      rw [← hR]; intro r hr
      simp only [List.mem_map] at hr
      obtain ⟨i, _, rfl⟩ := hr
      simp
    have hlen : R.length = rows := by rw [← hR]; simp
    have hfl : R.flatten.length = rows * columns := by rw [length_flatten_rect hrect, hlen]
    constructor
    · intro h
      simp only [Bool.and_eq_true, decide_eq_true_eq] at h
      obtain ⟨⟨h1, h2⟩, h3⟩ := h
      rw [if_pos h3]
      unfold fromFn
      rw [hloop]
      have hne : R.flatten ≠ [] := by
        intro e; rw [e] at hfl
        have : 1 ≤ rows * columns := Nat.mul_le_mul h1 h2
        simp at hfl; omega
      simp only [fromFlatRowMajor_some _ _ _ hfl.symm hne]
      have := ofRows_result R hrect (by rw [hlen]; exact h1) h2
      have e : (⟨R.flatten, rows, columns⟩ : Matrix α) = ofRows R columns := by
        simp [ofRows, hlen]
      rw [e]
      exact ⟨_, rfl, this.1, this.2⟩
    · intro h
      by_cases h3 : rows * columns ≤ usizeMax
      · rw [if_pos h3]
        unfold fromFn
        rw [hloop]
        have hz : rows * columns = 0 := by
          simp only [h3, decide_true, Bool.and_true, Bool.and_eq_false_iff,
            decide_eq_false_iff_not] at h
          rcases h with h | h
          · have : rows = 0 := by omega
            simp [this]
          · have : columns = 0 := by omega
            simp [this]
        have he : R.flatten = [] := by
          apply List.eq_nil_of_length_eq_zero; rw [hfl, hz]
        simp [fromFlatRowMajor, he]
      · rw [if_neg h3]
  | empty value rows columns =>
    simp only [Rows.ctorPre, Ctor.build, Rows.ctorRows, emptyC]
    constructor
    · intro h
      simp only [Bool.and_eq_true, decide_eq_true_eq] at h
      obtain ⟨⟨h1, h2⟩, h3⟩ := h
      rw [if_pos ⟨h1, h2⟩, if_pos h3]
      have := ofRows_result (List.replicate rows (List.replicate columns value)) (c := columns)
        (by intro r hr; rw [(List.mem_replicate.mp hr).2]; simp) (by simpa using h1) h2
      have e : ofRows (List.replicate rows (List.replicate columns value)) columns =
          ⟨List.replicate (rows * columns) value, rows, columns⟩ := by
        simp [ofRows]
      rw [e] at this
      exact ⟨_, rfl, this.1, this.2⟩
    · intro h
      by_cases hp : 0 < rows ∧ 0 < columns
      · rw [if_pos hp]
        have : ¬ rows * columns ≤ usizeMax := by
          intro h3
          have h1 : 1 ≤ rows := hp.1
          have h2 : 1 ≤ columns := hp.2
          simp [h1, h2, h3] at h
        rw [if_neg this]
      · rw [if_neg hp]
  | diagonal zero value rows columns =>
    simp only [Rows.ctorPre, Ctor.build, Rows.ctorRows, diagonalC, emptyC]
    constructor
    · intro h
      simp only [Bool.and_eq_true, decide_eq_true_eq] at h
      obtain ⟨⟨h1, h2⟩, h3⟩ := h
      subst h1
      have hp : 0 < rows ∧ 0 < rows := ⟨h2, h2⟩
      simp only [if_true, if_pos hp, if_pos h3]
      have hl : (List.replicate rows value).length = rows := by simp
      have := diag_result zero (List.replicate rows value) (by rw [hl]; exact h2)
      rw [hl] at this
      obtain ⟨d1, d2, d3⟩ := this
      generalize setDiagLoop 0 (List.replicate rows value)
        ⟨List.replicate (rows * rows) zero, rows, rows⟩ = res at d1 d2 d3
      obtain ⟨st, pk⟩ := res
      simp only at d1 d2 d3
      subst d1
      exact ⟨st, rfl, d2, d3⟩
    · intro h
      by_cases h1 : rows = columns
      · subst h1
        simp only [if_true]
        by_cases hp : 0 < rows ∧ 0 < rows
        · rw [if_pos hp]
          have : ¬ rows * rows ≤ usizeMax := by
            intro h3
            have h2 : 1 ≤ rows := hp.1
            simp [h2, h3] at h
          rw [if_neg this]
        · rw [if_neg hp]
      · rw [if_neg h1]
  | fromDiagonal zero values =>
    simp only [Rows.ctorPre, Ctor.build, Rows.ctorRows, fromDiagonalC, emptyC]
    constructor
    · intro h
      simp only [Bool.and_eq_true, decide_eq_true_eq, Bool.not_eq_true'] at h
      obtain ⟨h1, h3⟩ := h
      have hne : values ≠ [] := by intro e; rw [e] at h1; simp at h1
      have hpos : 1 ≤ values.length := List.length_pos_iff.mpr hne
      have hp : 0 < values.length ∧ 0 < values.length := ⟨hpos, hpos⟩
      simp only [if_pos hp, if_pos h3]
      obtain ⟨d1, d2, d3⟩ := diag_result zero values hpos
      generalize setDiagLoop 0 values
        ⟨List.replicate (values.length * values.length) zero, values.length, values.length⟩
        = res at d1 d2 d3
      obtain ⟨st, pk⟩ := res
      simp only at d1 d2 d3
      subst d1
      exact ⟨st, rfl, d2, d3⟩
    · intro h
      by_cases hp : 0 < values.length ∧ 0 < values.length
      · rw [if_pos hp]
        have : ¬ values.length * values.length ≤ usizeMax := by
          intro h3
          have hne : values ≠ [] := List.length_pos_iff.mp hp.1
          have : values.isEmpty = false := by cases values <;> simp_all
          simp [this, h3] at h
        rw [if_neg this]
      · rw [if_neg hp]

/-! ## 10. user code panicking on its `k`-th call (`XOp`) -/

theorem mapIdx_id' (l : List α) : (l.mapIdx fun _ x => x) = l := by
  apply List.ext_getElem?
  intro n
  simp [List.getElem?_mapIdx]

theorem mapMutLoop_spec (f : α → α) :
    ∀ (l : List α) (k : Nat),
      (mapMutLoop f k l).1 = l.mapIdx (fun n x => if n < k then f x else x) ∧
      (mapMutLoop f k l).2 = if k < l.length then some .explicit else none := by
  intro l
  induction l with
  | nil => intro k; cases k <;> simp [mapMutLoop]
  | cons x xs ih =>
    intro k
    cases k with
    | zero =>
      simp only [mapMutLoop, Nat.not_lt_zero, if_false, List.length_cons, Nat.zero_lt_succ, if_true,
        and_true]
      exact (mapIdx_id' (x :: xs)).symm
    | succ k =>
      obtain ⟨h1, h2⟩ := ih k
      simp only [mapMutLoop, h1, h2, List.mapIdx_cons, Nat.zero_lt_succ, if_true,
        List.length_cons, Nat.succ_lt_succ_iff, and_self]

/-- a pointwise rewrite of the storage is the same pointwise rewrite of the rows -/
theorem toRows_of_pointwise (m : Matrix α) (h : m.Inv) (data' : List α)
    (g : Nat → Nat → α → α) (hlen : data'.length = m.data.length)
    (hcell : ∀ i j, i < m.rows → j < m.columns →
      data'[j + i * m.columns]? = m.data[j + i * m.columns]?.map (g i j)) :
    (⟨data', m.rows, m.columns⟩ : Matrix α).Inv ∧
    (⟨data', m.rows, m.columns⟩ : Matrix α).toRows =
      m.toRows.mapIdx fun i r => r.mapIdx fun j x => g i j x := by
  have hinv : (⟨data', m.rows, m.columns⟩ : Matrix α).Inv := ⟨by rw [hlen]; exact h.1, h.2.1, h.2.2⟩
  refine ⟨hinv, ?_⟩
  have hr2 : Rect m.columns (m.toRows.mapIdx fun i r => r.mapIdx fun j x => g i j x) := by
    intro r hr
    obtain ⟨i, hi, rfl⟩ := List.mem_mapIdx.mp hr
    simp [rect_toRows m h _ (List.getElem_mem hi)]
  apply rows_ext (rect_toRows _ hinv) hr2
  · simp [length_toRows]
  · intro i j hi hj
    rw [length_toRows] at hi
    simp only at hi hj
    rw [cell_toRows]
    unfold Rows.cell
    simp only [List.getElem?_mapIdx, Option.bind_map, Function.comp_def]
    have hc := cell_toRows m i j
    unfold Rows.cell at hc
    simp only [tryGet, getIndex, hi, hj, and_self, if_true] at hc ⊢
    rw [hcell i j hi hj, ← hc]
    cases m.toRows[i]? <;> simp

theorem mapFirst_eq (k : Nat) (f : α → Nat → Nat → α) (rs : Rows α) (c : Nat)
    (hc : Rows.ncols rs = c) :
    Rows.mapFirst k f rs = rs.mapIdx fun i r => r.mapIdx fun j x => if i * c + j < k then f x i j else x := by
  unfold Rows.mapFirst; rw [hc]

/-- `map_mut` with a closure panicking on its `k`-th call -/
theorem mapMutPanic_spec (m : Matrix α) (h : m.Inv) (f : α → α) (k : Nat) :
    (m.mapMutPanic f k).state.Inv ∧
    (m.mapMutPanic f k).state.toRows = Rows.mapFirst k (fun x _ _ => f x) m.toRows ∧
    (m.mapMutPanic f k).panic = if k < m.rows * m.columns then some .explicit else none := by
  unfold mapMutPanic
  obtain ⟨h1, h2⟩ := mapMutLoop_spec f m.data k
  simp only [h1, h2, h.1]
  have := toRows_of_pointwise m h (m.data.mapIdx fun n x => if n < k then f x else x)
    (fun i j x => if i * m.columns + j < k then f x else x) (by simp)
    (by
      intro i j _ _
      simp only [List.getElem?_mapIdx, Nat.add_comm j])
  rw [mapFirst_eq k _ _ m.columns (ncols_toRows m h)]
  exact ⟨this.1, this.2, trivial⟩

/-- the index pairs in terms of the flat position -/
theorem indexPairs_eq_range_map (rows columns : Nat) (hc : 0 < columns) :
    indexPairs rows columns = (List.range (rows * columns)).map fun n => (n / columns, n % columns) := by
  induction rows with
  | zero => simp [indexPairs]
  | succ r ih =>
    have e1 : indexPairs (r + 1) columns = indexPairs r columns ++ (List.range columns).map fun c => (r, c) := by
      simp [indexPairs, List.range_succ, List.flatMap_append]
    rw [e1, ih, Nat.succ_mul, List.range_add, List.map_append, List.map_map]
    congr 1
    apply List.map_congr_left
    intro j hj
    have hj' : j < columns := List.mem_range.mp hj
    simp only [Function.comp]
    have h1 : (r * columns + j) / columns = r := by
      rw [Nat.add_comm, Nat.add_mul_div_right _ _ hc, Nat.div_eq_of_lt hj']; omega
    have h2 : (r * columns + j) % columns = j := by
      rw [Nat.add_comm, Nat.add_mul_mod_self_right, Nat.mod_eq_of_lt hj']
    rw [h1, h2]

theorem length_indexPairs (rows columns : Nat) (hc : 0 < columns) :
    (indexPairs rows columns).length = rows * columns := by
  rw [indexPairs_eq_range_map rows columns hc]; simp

theorem mem_take_indexPairs {rows columns k i j : Nat} (hi : i < rows) (hj : j < columns) :
    (i, j) ∈ (indexPairs rows columns).take k ↔ i * columns + j < k := by
  have hc : 0 < columns := by omega
  rw [indexPairs_eq_range_map rows columns hc, ← List.map_take, List.take_range]
  simp only [List.mem_map, List.mem_range, Prod.mk.injEq]
  have hlt : i * columns + j < rows * columns := by
    have := getIndex_lt hi hj; omega
  constructor
  · rintro ⟨n, hn, h1, h2⟩
    have := Nat.div_add_mod n columns
    rw [h1, h2, Nat.mul_comm] at this
    omega
  · intro hk
    refine ⟨i * columns + j, by omega, ?_, ?_⟩
    · rw [Nat.add_comm, Nat.add_mul_div_right _ _ hc, Nat.div_eq_of_lt hj]; omega
    · rw [Nat.add_comm, Nat.add_mul_mod_self_right, Nat.mod_eq_of_lt hj]

theorem mapIdxLoop_spec (columns : Nat) (f : α → Nat → Nat → α) :
    ∀ (L : List (Nat × Nat)) (k : Nat) (data : List α),
      (mapIdxLoop columns f k L data).1 =
        (L.take k).foldl (fun d (ij : Nat × Nat) =>
          d.modify (ij.2 + ij.1 * columns) (fun x => f x ij.1 ij.2)) data ∧
      (mapIdxLoop columns f k L data).2 = if k < L.length then some .explicit else none := by
  intro L
  induction L with
  | nil => intro k data; cases k <;> simp [mapIdxLoop]
  | cons p L ih =>
    intro k data
    cases k with
    | zero => simp [mapIdxLoop]
    | succ k =>
      obtain ⟨h1, h2⟩ := ih k (data.modify (p.2 + p.1 * columns) (fun x => f x p.1 p.2))
      simp only [mapIdxLoop, h1, h2, List.take_succ_cons, List.foldl_cons, List.length_cons,
        Nat.succ_lt_succ_iff, and_self]

/-- `map_mut_with_index` with a closure panicking on its `k`-th call -/
theorem mapMutWithIndexPanic_spec (m : Matrix α) (h : m.Inv) (f : α → Nat → Nat → α) (k : Nat) :
    (m.mapMutWithIndexPanic f k).state.Inv ∧
    (m.mapMutWithIndexPanic f k).state.toRows = Rows.mapFirst k f m.toRows ∧
    (m.mapMutWithIndexPanic f k).panic = if k < m.rows * m.columns then some .explicit else none := by
  unfold mapMutWithIndexPanic
  obtain ⟨h1, h2⟩ := mapIdxLoop_spec m.columns f (indexPairs m.rows m.columns) k m.data
  simp only [h1, h2, length_indexPairs m.rows m.columns h.2.2]
  have hnd : ((indexPairs m.rows m.columns).take k).Nodup :=
    List.Nodup.sublist (List.take_sublist _ _) (nodup_indexPairs _ _)
  obtain ⟨f1, f2⟩ := foldl_modify_spec m.columns f ((indexPairs m.rows m.columns).take k) m.data hnd
    (fun p hp => (mem_indexPairs.mp (List.mem_of_mem_take hp)).2)
  have := toRows_of_pointwise m h _ (fun i j x => if i * m.columns + j < k then f x i j else x) f1
    (by
      intro i j hi hj
      rw [f2 i j hj]
      by_cases hk : i * m.columns + j < k
      · rw [if_pos ((mem_take_indexPairs hi hj).mpr hk)]
        simp [hk]
      · rw [if_neg (fun hm => hk ((mem_take_indexPairs hi hj).mp hm))]
        simp [hk])
  rw [mapFirst_eq k _ _ m.columns (ncols_toRows m h)]
  exact ⟨this.1, this.2, trivial⟩

/-- Every extended operation on an invariant-satisfying matrix: the invariant is kept (also when
    user code panics part way), the rows are those the list-of-rows model prescribes, and the
    operation panics exactly when the model says so. -/
theorem xexec_spec (m : Matrix α) (h : m.Inv) (x : XOp α) :
    (m.xexec x).state.Inv ∧ (m.xexec x).state.toRows = Rows.xnext m.toRows x ∧
      (m.xexec x).panic.isSome = Rows.xpanics m.toRows x := by
  have hn : Rows.nrows m.toRows = m.rows := length_toRows m
  have hc : Rows.ncols m.toRows = m.columns := ncols_toRows m h
  cases x with
  | op o =>
    simp only [xexec, Rows.xnext, Rows.xpanics, Rows.next]
    cases hp : Rows.pre m.toRows o with
    | true =>
      obtain ⟨h1, h2, h3⟩ := (exec_spec m h o).1 hp
      simp [h1, h2, h3]
    | false =>
      obtain ⟨h1, h2⟩ := (exec_spec m h o).2 hp
      simp [h1, h2, h]
  | mapMutPanic f k =>
    obtain ⟨h1, h2, h3⟩ := mapMutPanic_spec m h f k
    simp only [xexec, Rows.xnext, Rows.xpanics, hn, hc]
    refine ⟨h1, h2, ?_⟩
    rw [h3]; split <;> simp_all
  | mapMutWithIndexPanic f k =>
    obtain ⟨h1, h2, h3⟩ := mapMutWithIndexPanic_spec m h f k
    simp only [xexec, Rows.xnext, Rows.xpanics, hn, hc]
    refine ⟨h1, h2, ?_⟩
    rw [h3]; split <;> simp_all
  | mapPanic f k =>
    simp only [xexec, Rows.xnext, Rows.xpanics, hn, hc, mapPanic, h.1]
    by_cases hk : k < m.rows * m.columns
    · simp [hk, h]
    · have := (exec_spec m h (.map f)).1 rfl
      simp only [exec, Rows.apply] at this
      simp [hk, this]
  | mapWithIndexPanic f k =>
    simp only [xexec, Rows.xnext, Rows.xpanics, hn, hc, mapWithIndexPanic,
      length_indexPairs m.rows m.columns h.2.2]
    by_cases hk : k < m.rows * m.columns
    · simp [hk, h]
    · have := (exec_spec m h (.mapWithIndex f)).1 rfl
      simp only [exec, Rows.apply] at this
      simp [hk, this]
  | insertRowWithPanic row values k =>
    simp only [xexec, Rows.xnext, Rows.xpanics, hn, hc, insertRowWithPanic]
    by_cases hr : row ≤ m.rows
    · by_cases hk : k < nextCalls m.columns values.length
      · simp [hr, hk, h]
      · cases hp : Rows.pre m.toRows (.insertRowWith row values) with
        | true =>
          have := (exec_spec m h (.insertRowWith row values)).1 hp
          simp only [exec, Rows.apply, hc] at this
          simp only [Rows.pre, hn, hc, Bool.and_eq_true, decide_eq_true_eq] at hp
          simp [hr, hk, this, hp.2]
        | false =>
          have := (exec_spec m h (.insertRowWith row values)).2 hp
          simp only [exec] at this
          simp only [Rows.pre, hn, hc, hr, decide_true, Bool.true_and, decide_eq_false_iff_not] at hp
          simp [hr, hk, this, hp, h]
    · simp [hr, h]
  | insertColumnWithPanic column values k =>
    simp only [xexec, Rows.xnext, Rows.xpanics, hn, hc, insertColumnWithPanic]
    by_cases hr : column ≤ m.columns
    · by_cases hk : k < nextCalls m.rows values.length
      · simp [hr, hk, h]
      · cases hp : Rows.pre m.toRows (.insertColumnWith column values) with
        | true =>
          have := (exec_spec m h (.insertColumnWith column values)).1 hp
          simp only [exec, Rows.apply] at this
          simp only [Rows.pre, hn, hc, Bool.and_eq_true, decide_eq_true_eq] at hp
          simp [hr, hk, this, hp.2]
        | false =>
          have := (exec_spec m h (.insertColumnWith column values)).2 hp
          simp only [exec] at this
          simp only [Rows.pre, hn, hc, hr, decide_true, Bool.true_and, decide_eq_false_iff_not] at hp
          simp [hr, hk, this, hp, h]
    · simp [hr, h]

/-! ## 11. row / column / diagonal getters -/

theorem collectUnchecked_ok (m : Matrix α) (h : m.data.length = m.rows * m.columns) :
    ∀ (L : List (Nat × Nat)), (∀ p ∈ L, p.1 < m.rows ∧ p.2 < m.columns) →
      m.collectUnchecked L = .ok (L.filterMap fun p => m.tryGet p.1 p.2) := by
  intro L
  induction L with
  | nil => intro _; rfl
  | cons p L ih =>
    intro hL
    obtain ⟨r, c⟩ := p
    have hp := hL (r, c) List.mem_cons_self
    obtain ⟨x, hx⟩ := tryGet_isSome m h hp.1 hp.2
    have hx' : m.data[m.getIndex r c]? = some x := by
      simpa [tryGet, hp.1, hp.2] using hx
    simp only [collectUnchecked, hx', ih (fun q hq => hL q (List.mem_cons_of_mem _ hq))]
    rw [List.filterMap_cons_some (f := fun p : Nat × Nat => m.tryGet p.1 p.2) (a := (r, c)) (b := x) hx]

/-- `column_iter` agrees with the list of rows -/
theorem columnIter_spec (m : Matrix α) (h : m.Inv) (c : Nat) :
    m.columnIter c = Rows.columnAt m.toRows c := by
  unfold columnIter Rows.columnAt
  rw [ncols_toRows m h]
  by_cases hc : c < m.columns
  · have hr : 0 < m.rows := h.2.1
    rw [if_pos ⟨hr, hc⟩, if_pos hc, collectUnchecked_ok m h.1]
    · rw [List.filterMap_map, column_toRows]
      rfl
    · intro p hp
      simp only [List.mem_map, List.mem_range] at hp
      obtain ⟨r, hr', rfl⟩ := hp
      exact ⟨hr', hc⟩
  · rw [if_neg (fun hh => hc hh.2), if_neg hc]

/-- `row_iter` agrees with the list of rows -/
theorem rowIter_spec (m : Matrix α) (h : m.Inv) (r : Nat) :
    m.rowIter r = Rows.rowAt m.toRows r := by
  unfold rowIter Rows.rowAt
  by_cases hr : r < m.rows
  · have hc : 0 < m.columns := h.2.2
    have hlen : r < m.toRows.length := by rw [length_toRows]; exact hr
    rw [if_pos ⟨hr, hc⟩, collectUnchecked_ok m h.1, List.getElem?_eq_getElem hlen]
    · simp only [List.filterMap_map, Outcome.ok.injEq]
      apply List.ext_getElem?
      intro j
      have hcell := cell_toRows m r j
      unfold Rows.cell at hcell
      rw [List.getElem?_eq_getElem hlen] at hcell
      simp only [Option.bind_some] at hcell
      rw [hcell, getElem?_filterMap_all_some]
      · by_cases hj : j < m.columns
        · simp [List.getElem?_range hj, Function.comp]
        · rw [List.getElem?_eq_none (by simp; omega)]
          simp [tryGet, hj]
      · intro c hc'
        exact tryGet_isSome m h.1 hr (List.mem_range.mp hc')
    · intro p hp
      simp only [List.mem_map, List.mem_range] at hp
      obtain ⟨c, hc', rfl⟩ := hp
      exact ⟨hr, hc'⟩
  · rw [if_neg (fun hh => hr hh.1), List.getElem?_eq_none (by rw [length_toRows]; omega)]

/-- `diagonal_iter` agrees with the list of rows (and never panics) -/
theorem diagonalIter_spec (m : Matrix α) (h : m.Inv) :
    m.diagonalIter = .ok (Rows.diagonal m.toRows) := by
  unfold diagonalIter Rows.diagonal
  rw [collectUnchecked_ok m h.1, ncols_toRows m h, show Rows.nrows m.toRows = m.rows from length_toRows m]
  · rw [List.filterMap_map]
    congr 1
    apply filterMap_congr'
    intro i _
    simp only [Function.comp]
    exact (cell_toRows m i i).symm
  · intro p hp
    simp only [List.mem_map, List.mem_range] at hp
    obtain ⟨i, hi, rfl⟩ := hp
    exact ⟨by omega, by omega⟩

/-! ## 12. what the property itself demands after a panicking in-place map -/

theorem cell_mapFirst (k : Nat) (g : α → Nat → Nat → α) (rs : Rows α) (i j : Nat) :
    Rows.cell (Rows.mapFirst k g rs) i j =
      (Rows.cell rs i j).map fun x => if i * Rows.ncols rs + j < k then g x i j else x := by
  unfold Rows.cell Rows.mapFirst
  simp only [List.getElem?_mapIdx]
  cases rs[i]? with
  | none => rfl
  | some r => simp [List.getElem?_mapIdx]

theorem cell_mapFirst_old_or_mapped (k : Nat) (g : α → Nat → Nat → α) (rs : Rows α) (i j : Nat) :
    Rows.cell (Rows.mapFirst k g rs) i j = Rows.cell rs i j ∨
    Rows.cell (Rows.mapFirst k g rs) i j = (Rows.cell rs i j).map fun x => g x i j := by
  rw [cell_mapFirst]
  by_cases h : i * Rows.ncols rs + j < k
  · right; simp [h]
  · left; simp [h]

/-! ## 13. equality -/

theorem zip_all_beq [BEq α] [LawfulBEq α] :
    ∀ (a b : List α), a.length = b.length →
      (((a.zip b).all fun p => p.1 == p.2) = true ↔ a = b) := by
  intro a
  induction a with
  | nil => intro b h; cases b <;> simp_all
  | cons x xs ih =>
    intro b h
    cases b with
    | nil => simp at h
    | cons y ys =>
      simp only [List.length_cons, Nat.add_right_cancel_iff] at h
      simp only [List.zip_cons_cons, List.all_cons, Bool.and_eq_true, beq_iff_eq, ih ys h,
        List.cons.injEq]

/-- `==` on matrices satisfying the invariant is equality of their lists of rows -/
theorem eqP_spec [BEq α] [LawfulBEq α] (a b : Matrix α) (ha : a.Inv) (hb : b.Inv) :
    a.eqP b = true ↔ a.toRows = b.toRows := by
  unfold eqP
  constructor
  · intro h
    by_cases hr : a.rows = b.rows
    · by_cases hc : a.columns = b.columns
      · simp only [hr, hc, bne_self_eq_false, Bool.false_eq_true, if_false] at h
        have hl : a.data.length = b.data.length := by rw [ha.1, hb.1, hr, hc]
        have hd := (zip_all_beq a.data b.data hl).mp h
        have : a = b := by
          cases a; cases b; simp_all
        rw [this]
      · simp [hr, hc] at h
    · simp [hr] at h
  · intro h
    have hr : a.rows = b.rows := by rw [← length_toRows a, ← length_toRows b, h]
    have hc : a.columns = b.columns := by rw [← ncols_toRows a ha, ← ncols_toRows b hb, h]
    have hd : a.data = b.data := by rw [← flatten_toRows a ha, ← flatten_toRows b hb, h]
    simp only [hr, hc, bne_self_eq_false, Bool.false_eq_true, if_false]
    rw [hd]
    exact (zip_all_beq b.data b.data rfl).mpr rfl

/-! ## 14. slices: `accepts` is the set semantics -/

theorem accepts_iff_mem (s : Slice) (k : Nat) : s.accepts k = true ↔ s.Mem k := by
  induction s with
  | all => simp [Slice.accepts, Slice.Mem]
  | none => simp [Slice.accepts, Slice.Mem]
  | single i =>
    simp only [Slice.accepts, Slice.Mem, beq_iff_eq]
    exact eq_comm
  | range a b => simp [Slice.accepts, Slice.Mem]
  | not s ih => simp [Slice.accepts, Slice.Mem, ← ih]
  | and a b iha ihb => simp [Slice.accepts, Slice.Mem, iha, ihb]
  | or a b iha ihb => simp [Slice.accepts, Slice.Mem, iha, ihb]

theorem mem_members (n : Nat) (s : Slice) (k : Nat) :
    k ∈ s.members n ↔ k < n ∧ s.accepts k = true := by
  induction s generalizing k with
  | all => simp [Slice.members, Slice.accepts]
  | none => simp [Slice.members, Slice.accepts]
  | single i =>
    simp only [Slice.members, Slice.accepts, beq_iff_eq]
    split
    · simp only [List.mem_singleton]; constructor
      · rintro rfl; exact ⟨by assumption, rfl⟩
      · rintro ⟨_, h⟩; exact h.symm
    · simp only [List.not_mem_nil, false_iff, not_and]
      intro hk h; subst h; contradiction
  | range a b =>
    simp only [Slice.members, Slice.accepts, List.mem_range'_1, decide_eq_true_eq,
      Bool.and_eq_true]
    omega
  | not s ih =>
    simp only [Slice.members, Slice.accepts, List.mem_filter, List.mem_range,
      List.contains_eq_mem, decide_eq_false_iff_not, ih, Bool.not_eq_eq_eq_not, Bool.not_true]
    constructor
    · rintro ⟨h1, h2⟩
      refine ⟨h1, ?_⟩
      cases h : s.accepts k with
      | false => rfl
      | true => exact absurd ⟨h1, h⟩ h2
    · rintro ⟨h1, h2⟩
      exact ⟨h1, fun h => by rw [h.2] at h2; cases h2⟩
  | and a b iha ihb =>
    simp only [Slice.members, Slice.accepts, List.mem_filter, List.contains_eq_mem, decide_eq_true_eq,
      iha, ihb, Bool.and_eq_true]
    constructor
    · rintro ⟨⟨h1, h2⟩, _, h3⟩; exact ⟨h1, h2, h3⟩
    · rintro ⟨h1, h2, h3⟩; exact ⟨⟨h1, h2⟩, h1, h3⟩
  | or a b iha ihb =>
    simp only [Slice.members, Slice.accepts, List.mem_filter, List.mem_range, List.contains_eq_mem,
      Bool.or_eq_true, decide_eq_true_eq, iha, ihb]
    constructor
    · rintro ⟨h1, h2 | h2⟩
      · exact ⟨h1, Or.inl h2.2⟩
      · exact ⟨h1, Or.inr h2.2⟩
    · rintro ⟨h1, h2 | h2⟩
      · exact ⟨h1, Or.inl ⟨h1, h2⟩⟩
      · exact ⟨h1, Or.inr ⟨h1, h2⟩⟩

/-! ## 15. a supply of values shared by a sequence of insertions -/

theorem sharedStep_spec (m : Matrix α) (h : m.Inv) (isRow : Bool) (p : Nat) (vs : List α) :
    (m.sharedStep isRow p vs).1.state.Inv ∧
    (m.sharedStep isRow p vs).1.state.toRows = (Rows.sharedStep m.toRows isRow p vs).1 ∧
    (m.sharedStep isRow p vs).1.panic.isSome = (Rows.sharedStep m.toRows isRow p vs).2.1 ∧
    (m.sharedStep isRow p vs).2 = (Rows.sharedStep m.toRows isRow p vs).2.2 := by
  have hn : Rows.nrows m.toRows = m.rows := length_toRows m
  have hc : Rows.ncols m.toRows = m.columns := ncols_toRows m h
  cases isRow with
  | true =>
    obtain ⟨h1, h2, h3⟩ := xexec_spec m h (.op (.insertRowWith p vs))
    simp only [xexec, exec, Rows.xnext, Rows.xpanics] at h1 h2 h3
    simp only [sharedStep, Rows.sharedStep, Rows.sharedOp, if_true, hn, hc]
    exact ⟨h1, h2, h3, trivial⟩
  | false =>
    obtain ⟨h1, h2, h3⟩ := xexec_spec m h (.op (.insertColumnWith p vs))
    simp only [xexec, exec, Rows.xnext, Rows.xpanics] at h1 h2 h3
    simp only [sharedStep, Rows.sharedStep, Rows.sharedOp, Bool.false_eq_true, if_false, hn, hc]
    exact ⟨h1, h2, h3, trivial⟩

theorem sharedInserts_spec (steps : List (Bool × Nat)) :
    ∀ (m : Matrix α), m.Inv → ∀ (vs : List α),
      (m.sharedInserts steps vs).1.Inv ∧
      (m.sharedInserts steps vs).1.toRows = (Rows.sharedInserts m.toRows steps vs).1 ∧
      (m.sharedInserts steps vs).2 = (Rows.sharedInserts m.toRows steps vs).2 := by
  induction steps with
  | nil => intro m h vs; exact ⟨h, rfl, rfl⟩
  | cons st steps ih =>
    intro m h vs
    obtain ⟨isRow, p⟩ := st
    obtain ⟨s1, s2, s3, s4⟩ := sharedStep_spec m h isRow p vs
    obtain ⟨i1, i2, i3⟩ := ih (m.sharedStep isRow p vs).1.state s1 (m.sharedStep isRow p vs).2
    simp only [sharedInserts, Rows.sharedInserts]
    rw [← s2, ← s3, ← s4]
    refine ⟨i1, i2, ?_⟩
    rw [i3]

/-! ## 16. the abstraction is injective on invariant matrices; round trips -/

theorem eq_of_toRows_eq (a b : Matrix α) (ha : a.Inv) (hb : b.Inv) (h : a.toRows = b.toRows) :
    a = b := by
  rw [eq_ofRows_toRows a ha, eq_ofRows_toRows b hb, ← ncols_toRows a ha, ← ncols_toRows b hb, h]

theorem insertIdx_eraseIdx_self (l : List α) :
    ∀ (i : Nat) (h : i < l.length), (l.eraseIdx i).insertIdx i l[i] = l := by
  induction l with
  | nil => intro i h; simp at h
  | cons a l ih =>
    intro i h
    cases i with
    | zero => simp
    | succ i =>
      simp only [List.eraseIdx_cons_succ, List.insertIdx_succ_cons, List.getElem_cons_succ]
      rw [ih i (by simpa using h)]

theorem transpose_transpose_toRows (m : Matrix α) (h : m.Inv) :
    Rows.transpose (Rows.transpose m.toRows) = m.toRows := by
  obtain ⟨_, hinv, ht⟩ := transpose_spec m h
  generalize m.transpose.state = t at hinv ht
  have htr : t.rows = m.columns := by rw [← length_toRows t, ht, length_transpose_toRows m h]
  have htc : t.columns = m.rows := by
    rw [← ncols_toRows t hinv, ht]
    exact ncols_of_rect (rect_transpose_toRows m h)
      (by rw [length_transpose_toRows m h]; exact h.2.2)
  rw [← ht]
  have r1 : Rect m.columns (Rows.transpose t.toRows) := by
    have := rect_transpose_toRows t hinv; rwa [htr] at this
  apply rows_ext r1 (rect_toRows m h)
  · rw [length_transpose_toRows t hinv, htc, length_toRows]
  · intro i j hi hj
    rw [length_transpose_toRows t hinv, htc] at hi
    rw [cell_transpose_toRows t hinv i j (by rw [htc]; exact hi) (by rw [htr]; exact hj),
      ← cell_toRows t j i, ht, cell_transpose_toRows m h j i hj hi, cell_toRows]

/-! ## 17. layout: the storage is the concatenation of the rows, offset `r·columns + c` -/

theorem flatten_getElem?_rect {c : Nat} (rs : Rows α) (h : Rect c rs) (i j : Nat)
    (hi : i < rs.length) (hj : j < c) : rs.flatten[i * c + j]? = Rows.cell rs i j := by
  have h1 := cell_toRows (ofRows rs c) i j
  rw [toRows_ofRows rs h] at h1
  rw [h1]
  simp only [tryGet, ofRows, getIndex, hi, hj, and_self, if_true, Nat.add_comm]

theorem range_filterMap_getElem? (l : List α) :
    (List.range l.length).filterMap (fun n => l[n]?) = l := by
  induction l with
  | nil => rfl
  | cons a l ih =>
    simp only [List.length_cons, List.range_succ_eq_map, List.filterMap_cons,
      List.getElem?_cons_zero, List.filterMap_map]
    congr 1

/-- walking the index pairs in row-major order and reading through the checked getter
    reproduces the storage -/
theorem rowMajor_tryGet_eq_data (m : Matrix α) (h : m.Inv) :
    (indexPairs m.rows m.columns).filterMap (fun p => m.tryGet p.1 p.2) = m.data := by
  rw [indexPairs_eq_range_map m.rows m.columns h.2.2, List.filterMap_map, ← h.1]
  refine Eq.trans ?_ (range_filterMap_getElem? m.data)
  apply filterMap_congr'
  intro n hn
  have hn' : n < m.rows * m.columns := by rw [← h.1]; exact List.mem_range.mp hn
  have hc : 0 < m.columns := h.2.2
  have hr : n / m.columns < m.rows :=
    (Nat.div_lt_iff_lt_mul hc).mpr hn'
  simp only [Function.comp, tryGet, getIndex, hr, Nat.mod_lt n hc, and_self, if_true]
  congr 1
  have := Nat.div_add_mod n m.columns
  rw [Nat.mul_comm] at this
  omega

/-! ## 18. Display -/

theorem formatRowLoop_ok (get : Nat → Option String) (columns : Nat) :
    ∀ (L : List Nat), (∀ c ∈ L, ∃ v, get c = some v) →
      formatRowLoop get columns L =
        .ok ((L.filterMap fun c =>
          (get c).map fun v => v :: (if c < columns - 1 then [", "] else [])).flatten) := by
  intro L
  induction L with
  | nil => intro _; rfl
  | cons c L ih =>
    intro h
    obtain ⟨v, hv⟩ := h c List.mem_cons_self
    simp only [formatRowLoop, hv, ih (fun c' hc' => h c' (List.mem_cons_of_mem _ hc')),
      List.filterMap_cons, Option.map_some, List.flatten_cons, List.cons_append]

theorem formatRowsLoop_ok (row : Nat → Outcome (List String)) (g : Nat → List String) (rows : Nat) :
    ∀ (L : List Nat), (∀ r ∈ L, row r = .ok (g r)) →
      formatRowsLoop row rows L =
        .ok ((L.map fun r =>
          (if 0 < r then ["  "] else []) ++ g r ++ (if r < rows - 1 then ["\n"] else [])).flatten) := by
  intro L
  induction L with
  | nil => intro _; rfl
  | cons r L ih =>
    intro h
    simp only [formatRowsLoop, h r List.mem_cons_self,
      ih (fun r' hr' => h r' (List.mem_cons_of_mem _ hr')), List.map_cons, List.flatten_cons,
      List.append_assoc]

/-- `Display` of a matrix satisfying the invariant is the text of its list of rows -/
theorem display_spec (sh : α → String) (m : Matrix α) (h : m.Inv) :
    m.display sh = .ok (Rows.display sh m.toRows) := by
  have hn : Rows.nrows m.toRows = m.rows := length_toRows m
  have hc : Rows.ncols m.toRows = m.columns := ncols_toRows m h
  have hrow : ∀ r ∈ List.range m.rows,
      formatRowLoop (fun c => (m.tryGet r c).map sh) m.columns (List.range m.columns) =
        .ok (Rows.rowTokens sh m.toRows r) := by
    intro r hr
    rw [formatRowLoop_ok _ _ _ (by
      intro c hc'
      obtain ⟨x, hx⟩ := tryGet_isSome m h.1 (List.mem_range.mp hr) (List.mem_range.mp hc')
      exact ⟨sh x, by simp [hx]⟩)]
    unfold Rows.rowTokens
    rw [hc]
    congr 2
    apply filterMap_congr'
    intro c _
    rw [cell_toRows, Option.map_map]
    rfl
  unfold display formatTokens
  rw [formatRowsLoop_ok _ (Rows.rowTokens sh m.toRows) m.rows _ hrow]
  simp only [Rows.display, Rows.displayTokens, hn, List.cons_append]

end Matrix
end EasyMl
