/-
  EasyMl.Lemmas.ViewLawsLayout — the layout `TensorTranspose` claims is the layout of the
  renamed `TensorAccess` it is documented to be: `map_linear_data_layout_to_transposed` (with fix
  B-12) against the composition of `TensorAccess::data_layout` (the source's) and
  `TensorRename::data_layout` — an independent route to the same list of names.
-/
import EasyMl.Lemmas.ViewLayout
import EasyMl.Lemmas.ViewLaws

namespace EasyMl
open EasyMl.Spec EasyMl.View

set_option linter.unusedSectionVars false

variable {ν : Type} [DecidableEq ν] [Inhabited ν] {α : Type}

theorem transpose_layout_eq_rename_access (s : View ν α) (m : DimensionMappings)
    (hw : (View.transpose s m).WF) :
    (View.transpose s m).layout = (View.rename (View.access s m) (namesOf s.shape)).layout := by
  simp only [View.WF] at hw
  have hs := hw.1
  have hgood := (View.correct s hs).1
  have hnod := (goodShape_iff.1 hgood).1
  have hacc : (View.access s m).WF := by simp only [View.WF]; exact hw
  have hgood' := (View.correct (View.access s m) hacc).1
  have hnod' : (namesOf (m.mapShapeToRequested s.shape)).Nodup := by
    have := (goodShape_iff.1 hgood').1; simpa only [View.shape] using this
  have hlen := mapShapeToRequested_length hw.2
  simp only [View.layout, View.shape]
  cases hl : s.layout with
  | panic k => rfl
  | ok lay =>
    cases lay with
    | nonLinear => rfl
    | other => rfl
    | linear order =>
      obtain ⟨M, leaf, data, _, _, h3, h4, _⟩ := View.layout_lin s hs order hl
      have hP : ∀ p ∈ M.map (·.pos), p < s.shape.length := by
        intro p hp
        obtain ⟨x, hx, rfl⟩ := List.mem_map.1 hp
        exact h3 x hx
      have horder : order = (M.map (·.pos)).map (nameAt s.shape) := by rw [h4, List.map_map]; rfl
      -- the same names, found in the reordered shape: position `p` of the source is position
      -- `source_to_requested[p]` of the access
      have horder' : order = ((M.map (·.pos)).map fun p => m.sourceToRequested.getD p 0).map
          (nameAt (m.mapShapeToRequested s.shape)) := by
        rw [horder]
        generalize M.map (·.pos) = P at hP ⊢
        rw [List.map_map]
        apply List.map_congr_left
        intro p hp
        simp only [Function.comp, nameAt, getD_reindex hw.2 (hP p hp)]
      have h1 : order.mapM (positionOf s.shape) = some (M.map (·.pos)) := by
        rw [horder]; exact mapM_positionOf hnod _ hP
      have h2 : order.mapM (positionOf (m.mapShapeToRequested s.shape)) =
          some ((M.map (·.pos)).map fun p => m.sourceToRequested.getD p 0) := by
        rw [horder']
        refine mapM_positionOf hnod' _ ?_
        intro q hq
        obtain ⟨p, hp, rfl⟩ := List.mem_map.1 hq
        rw [hlen]
        exact (hw.2.2.2.1 p (hP p hp)).1
      simp only [mapLinearDataLayoutToTransposed, renameLayout, h1, h2, List.map_map]
      congr 2
      apply List.map_congr_left
      intro p _
      simp only [Function.comp]
      exact nameAt_eq_names_getD s.shape _

end EasyMl
