/-
  EasyMl.Lemmas.FallibleZip — totality of the checked getters of `TensorStack`, `TensorChain`
  and `TensorIndex`.
-/
import EasyMl.Lemmas.Fallible
import Batteries.Data.List.Perm

namespace EasyMl.Fallible
open EasyMl.Spec

set_option linter.unusedSectionVars false
set_option linter.unusedVariables false

variable {ν : Type} [DecidableEq ν]

/-! ### `TensorStack` -/

/-- splitting the coordinate at position `k` off a bounds check -/
theorem inBounds_insert (ls : List Nat) (n k : Nat) (idx : List Nat) (hk : k ≤ ls.length)
    (hlen : idx.length = ls.length + 1) :
    inBounds (ls.take k ++ n :: ls.drop k) idx =
      (decide (idx.getD k 0 < n) && inBounds ls (idx.eraseIdx k)) := by
  induction k generalizing ls idx with
  | zero =>
    cases idx with
    | nil => simp at hlen
    | cons i is => simp [inBounds]
  | succ k ih =>
    cases ls with
    | nil => simp at hk
    | cons l ls =>
      cases idx with
      | nil => simp at hlen
      | cons i is =>
        simp only [List.length_cons, Nat.add_le_add_iff_right] at hk
        simp only [List.length_cons, Nat.add_right_cancel_iff] at hlen
        simp only [List.take_succ_cons, List.drop_succ_cons, List.cons_append, inBounds,
          List.eraseIdx_cons_succ, List.getD_cons_succ]
        rw [ih ls is hk hlen]
        cases decide (i < l) <;> cases decide (is.getD k 0 < n) <;> simp

/-- A `TensorStack` of `N ≥ 1` total sources of one shape, stacked at a position `≤ D` under a
    new name, is total (and its shape is valid). -/
theorem stack_wf (sources : List (TView ν)) (along : Nat × ν) (shape : Shape ν)
    (hne : sources ≠ []) (hN : sources.length ≤ usizeMax)
    (hsrc : ∀ s ∈ sources, s.WF ∧ s.shape = shape)
    (halong : along.1 ≤ shape.length) (hname : along.2 ∉ shape.map (·.1)) :
    (TView.stack sources along).WF ∧
      (TView.stack sources along).shape =
        shape.take along.1 ++ (along.2, sources.length) :: shape.drop along.1 := by
  obtain ⟨first, rest, rfl⟩ : ∃ f r, sources = f :: r := by
    cases sources with
    | nil => exact absurd rfl hne
    | cons f r => exact ⟨f, r, rfl⟩
  have hfirst := hsrc first (by simp)
  have hshape : (TView.stack (first :: rest) along).shape =
      shape.take along.1 ++ (along.2, (first :: rest).length) :: shape.drop along.1 := by
    simp [TView.stack, hfirst.2]
  have hu : UShape shape := hfirst.2 ▸ hfirst.1.1
  refine ⟨⟨?_, ?_⟩, hshape⟩
  · -- the shape is valid
    rw [hshape]
    refine ⟨?_, ?_⟩
    · have hperm : (shape.take along.1 ++ (along.2, (first :: rest).length) :: shape.drop along.1).Perm
          ((along.2, (first :: rest).length) :: shape) := by
        have := (List.perm_middle (a := (along.2, (first :: rest).length))
          (l₁ := shape.take along.1) (l₂ := shape.drop along.1))
        simpa using this
      have hp := hperm.map (·.1)
      rw [hp.nodup_iff]
      simp only [List.map_cons, List.nodup_cons]
      exact ⟨hname, hu.1⟩
    · intro d hd
      simp only [List.mem_append, List.mem_cons] at hd
      rcases hd with hd | rfl | hd
      · exact hu.2 d (List.mem_of_mem_take hd)
      · simp only [List.length_cons]; simp only [List.length_cons] at hN; omega
      · exact hu.2 d (List.mem_of_mem_drop hd)
  · -- the getter is total
    intro idx hidx
    rw [hshape] at hidx ⊢
    have hlen : idx.length = shape.length + 1 := by
      simp only [List.length_append, List.length_take, List.length_cons, List.length_drop] at hidx
      omega
    have hget : along.1 < idx.length := by omega
    simp only [TView.stack, stackIndexing, idxC_ok hget]
    have hlens : (shape.take along.1 ++ (along.2, (first :: rest).length) :: shape.drop along.1).map (·.2)
        = (shape.map (·.2)).take along.1 ++ (first :: rest).length :: (shape.map (·.2)).drop along.1 := by
      simp [List.map_take, List.map_drop]
    rw [hlens, inBounds_insert _ _ _ _ (by simpa using halong) (by simpa using hlen)]
    have hgetD : idx.getD along.1 0 = idx[along.1] := by
      simp [List.getD_eq_getElem?_getD, hget]
    rw [hgetD]
    cases hs : (first :: rest)[idx[along.1]]? with
    | none =>
      have : ¬ idx[along.1] < (first :: rest).length := by
        intro hlt
        have := List.getElem?_eq_getElem hlt
        rw [hs] at this; simp at this
      have hfalse : decide (idx[along.1] < (first :: rest).length) = false := by
        simpa using this
      exact ⟨none, rfl, by rw [hfalse]; simp⟩
    | some s =>
      have hlt : idx[along.1] < (first :: rest).length := (List.getElem?_eq_some_iff.mp hs).1
      have hmem : s ∈ first :: rest := List.mem_of_getElem? hs
      obtain ⟨hwf, hsh⟩ := hsrc s hmem
      obtain ⟨r, hr, hsome⟩ := hwf.2 (idx.eraseIdx along.1) (by
        rw [hsh, List.length_eraseIdx]; simp [hget]; omega)
      refine ⟨r, hr, ?_⟩
      rw [hsome, hsh]
      have htrue : decide (idx[along.1] < (first :: rest).length) = true := by simpa using hlt
      rw [htrue]; simp

/-! ### `TensorChain` -/

/-- splitting coordinate `k` off a bounds check -/
theorem inBounds_set (ls : List Nat) (k L : Nat) (idx : List Nat) (hk : k < ls.length)
    (hlen : idx.length = ls.length) :
    inBounds (ls.set k L) idx =
      (decide (idx.getD k 0 < L) && inBounds (ls.set k 1) (idx.set k 0)) := by
  induction k generalizing ls idx with
  | zero =>
    cases ls with
    | nil => simp at hk
    | cons l ls =>
      cases idx with
      | nil => simp at hlen
      | cons i is => simp [inBounds]
  | succ k ih =>
    cases ls with
    | nil => simp at hk
    | cons l ls =>
      cases idx with
      | nil => simp at hlen
      | cons i is =>
        simp only [List.length_cons, Nat.add_lt_add_iff_right] at hk
        simp only [List.length_cons, Nat.add_right_cancel_iff] at hlen
        simp only [List.set_cons_succ, inBounds, List.getD_cons_succ]
        rw [ih ls is hk hlen]
        cases decide (i < l) <;> cases decide (is.getD k 0 < L) <;> simp

theorem sumC_ok (l : List Nat) (acc : Nat) (h : acc + l.sum ≤ usizeMax) :
    sumC l acc = .ok (acc + l.sum) := by
  induction l generalizing acc with
  | nil => simp [sumC]
  | cons x xs ih =>
    simp only [List.sum_cons] at h
    have hx : acc + x ≤ usizeMax := by omega
    simp only [sumC, cadd_ok hx]
    rw [ih (acc + x) (by omega)]
    simp [Nat.add_assoc]

/-- length along the chained dimension -/
def chainLen (k : Nat) (s : TView ν) : Nat := ((s.shape[k]?).map (·.2)).getD 0

/-- the subtraction loop of `TensorChain`: never panics; finds the source that holds coordinate
    `i` along the chained dimension, if `i` is below the total length -/
theorem chainIndexing_spec (k : Nat) (sources : List (TView ν)) (idx : List Nat) (i : Nat)
    (hk : ∀ s ∈ sources, k < s.shape.length) :
    ∃ x, chainIndexing k sources idx i = .ok x ∧
      match x with
      | none => ¬ i < (sources.map (chainLen k)).sum
      | some (s, mapped) => i < (sources.map (chainLen k)).sum ∧ s ∈ sources ∧
          ∃ i', i' < chainLen k s ∧ mapped = idx.set k i' := by
  induction sources generalizing i with
  | nil => exact ⟨none, rfl, by simp⟩
  | cons s rest ih =>
    have hks := hk s (by simp)
    have hlen : chainLen k s = (s.shape[k]).2 := by simp [chainLen, hks]
    simp only [chainIndexing, idxC_ok hks]
    by_cases hlt : i < (s.shape[k]).2
    · refine ⟨some (s, idx.set k i), by simp [hlt], ?_⟩
      simp only [List.map_cons, List.sum_cons, hlen]
      exact ⟨by omega, by simp, i, hlt, rfl⟩
    · have hge : (s.shape[k]).2 ≤ i := by omega
      simp only [hlt, if_false, csub_ok hge]
      obtain ⟨x, hx, hspec⟩ := ih (i - (s.shape[k]).2) (fun s' hs' => hk s' (by simp [hs']))
      refine ⟨x, hx, ?_⟩
      simp only [List.map_cons, List.sum_cons, hlen]
      cases x with
      | none => simp only at hspec ⊢; omega
      | some p =>
        obtain ⟨s', mapped⟩ := p
        simp only at hspec ⊢
        obtain ⟨h1, h2, h3⟩ := hspec
        exact ⟨by omega, by simp [h2], h3⟩

/-- A `TensorChain` of `N ≥ 1` total sources whose shapes agree except for the length along
    dimension `k`, with a representable total length, is total (and its shape is valid). -/
theorem chain_wf (sources : List (TView ν)) (k : Nat) (first : TView ν) (rest : List (TView ν))
    (hs : sources = first :: rest)
    (hk : k < first.shape.length)
    (hsrc : ∀ s ∈ sources, s.WF ∧ s.shape.length = first.shape.length ∧
      s.shape.map (·.1) = first.shape.map (·.1) ∧
      (s.shape.map (·.2)).set k 1 = (first.shape.map (·.2)).set k 1)
    (htotal : (sources.map (chainLen k)).sum ≤ usizeMax) :
    ∃ v, TView.chain sources k = .ok v ∧ v.WF ∧
      v.shape = first.shape.set k ((first.shape[k]).1, (sources.map (chainLen k)).sum) := by
  subst hs
  have hsum : sumC ((first :: rest).map (chainLen k)) 0 =
      .ok (0 + ((first :: rest).map (chainLen k)).sum) := sumC_ok _ _ (by omega)
  have hfirst := hsrc first (by simp)
  simp only [TView.chain]
  have : ((first :: rest).map fun s => ((s.shape[k]?).map (·.2)).getD 0) =
      (first :: rest).map (chainLen k) := rfl
  rw [this, hsum, idxC_ok hk]
  simp only [Nat.zero_add]
  refine ⟨_, rfl, ⟨⟨?_, ?_⟩, ?_⟩, rfl⟩
  · -- names are those of the first source
    have : (first.shape.set k ((first.shape[k]).1, ((first :: rest).map (chainLen k)).sum)).map (·.1)
        = first.shape.map (·.1) := by
      rw [List.map_set]
      apply List.ext_getElem?
      intro d
      simp only [List.getElem?_set, List.getElem?_map]
      by_cases hd : k = d
      · subst hd; simp [hk]
      · simp [hd]
    rw [this]; exact hfirst.1.1.1
  · intro d hd
    have := List.mem_or_eq_of_mem_set hd
    rcases this with hmem | rfl
    · exact hfirst.1.1.2 d hmem
    · refine ⟨?_, htotal⟩
      simp only [List.map_cons, List.sum_cons]
      have h1 := hfirst.1.1.2 (first.shape[k]) (List.getElem_mem _)
      have : chainLen k first = (first.shape[k]).2 := by simp [chainLen, hk]
      omega
  · intro idx hidx
    simp only [List.length_set] at hidx
    have hki : k < idx.length := by omega
    simp only [idxC_ok hki]
    obtain ⟨x, hx, hspec⟩ := chainIndexing_spec k (first :: rest) idx idx[k]
      (fun s hs => by have := (hsrc s hs).2.1; omega)
    rw [hx]
    have hlens : (first.shape.set k ((first.shape[k]).1, ((first :: rest).map (chainLen k)).sum)).map (·.2)
        = (first.shape.map (·.2)).set k ((first :: rest).map (chainLen k)).sum := by
      rw [List.map_set]
    rw [hlens, inBounds_set _ _ _ _ (by simpa using hk) (by simpa using hidx)]
    have hgetD : idx.getD k 0 = idx[k] := by simp [List.getD_eq_getElem?_getD, hki]
    rw [hgetD]
    cases x with
    | none =>
      simp only at hspec
      have hfalse : decide (idx[k] < ((first :: rest).map (chainLen k)).sum) = false := by
        simpa using hspec
      exact ⟨none, rfl, by rw [hfalse]; simp⟩
    | some p =>
      obtain ⟨s, mapped⟩ := p
      simp only at hspec
      obtain ⟨hlt, hmem, i', hi', rfl⟩ := hspec
      obtain ⟨hwf, hl, _, hsim⟩ := hsrc s hmem
      obtain ⟨r, hr, hsome⟩ := hwf.2 (idx.set k i') (by simp [hl, hidx])
      refine ⟨r, hr, ?_⟩
      rw [hsome]
      have hks : k < (s.shape.map (·.2)).length := by simp [hl, hk]
      have hself : s.shape.map (·.2) = (s.shape.map (·.2)).set k (chainLen k s) := by
        apply List.ext_getElem?
        intro d
        simp only [List.getElem?_set]
        by_cases hd : k = d
        · subst hd
          have hks' : k < s.shape.length := by simpa using hks
          simp [hks, chainLen, hks']
        · simp [hd]
      rw [hself, inBounds_set _ _ _ _ hks (by simp [hl, hidx])]
      have h1 : (idx.set k i').getD k 0 = i' := by
        simp [List.getD_eq_getElem?_getD, hki]
      rw [h1, hsim]
      have ht1 : decide (i' < chainLen k s) = true := by simpa using hi'
      have ht2 : decide (idx[k] < ((first :: rest).map (chainLen k)).sum) = true := by simpa using hlt
      rw [ht1, ht2]
      have hset : (idx.set k i').set k 0 = idx.set k 0 := by simp
      rw [hset]

/-! ### `TensorIndex` -/

theorem zip_map_eq {α β : Type} (l : List α) (f : α → β) :
    l.zip (l.map f) = l.map fun a => (a, f a) := by
  induction l with
  | nil => simp
  | cons a as ih => simp [ih]

/-- merging the provided with the supplied indexes: with one supplied index per unprovided
    dimension the merge succeeds, and it is inside the source exactly when the supplied part is
    inside the view (the provided indexes are valid by construction) -/
theorem selectIndexes_spec (zs : List ((ν × Nat) × Option Nat))
    (hvalid : ∀ z ∈ zs, ∀ p, z.2 = some p → p < z.1.2) (idx : List Nat)
    (hlen : idx.length = (zs.filterMap fun z => if z.2.isNone then some z.1 else none).length) :
    ∃ merged, selectIndexes (zs.map (·.2)) idx = some merged ∧ merged.length = zs.length ∧
      inBounds (zs.map (·.1.2)) merged =
        inBounds ((zs.filterMap fun z => if z.2.isNone then some z.1 else none).map (·.2)) idx := by
  induction zs generalizing idx with
  | nil =>
    cases idx with
    | nil => exact ⟨[], rfl, rfl, rfl⟩
    | cons _ _ => simp at hlen
  | cons z zs ih =>
    obtain ⟨d, p⟩ := z
    have hvalid' : ∀ z ∈ zs, ∀ p, z.2 = some p → p < z.1.2 :=
      fun z hz => hvalid z (by simp [hz])
    cases p with
    | some x =>
      have hx : x < d.2 := hvalid (d, some x) (by simp) x rfl
      obtain ⟨merged, h1, h2, h3⟩ := ih hvalid' idx (by simpa using hlen)
      refine ⟨x :: merged, by simp [selectIndexes, h1], by simp [h2], ?_⟩
      simp [inBounds, hx, h3]
    | none =>
      cases idx with
      | nil => simp at hlen
      | cons i is =>
        obtain ⟨merged, h1, h2, h3⟩ := ih hvalid' is (by simpa using hlen)
        refine ⟨i :: merged, by simp [selectIndexes, h1], by simp [h2], ?_⟩
        simp [inBounds, h3]

theorem filterMap_sub {α : Type} (l : List α) (q : α → Bool) :
    ∀ x ∈ (l.filterMap fun a => if q a then some a else none), x ∈ l := by
  intro x hx
  simp only [List.mem_filterMap] at hx
  obtain ⟨a, ha, hq⟩ := hx
  split at hq
  · simp at hq; subst hq; exact ha
  · simp at hq

theorem filterMap_names_nodup (l : Shape ν) (q : ν × Nat → Bool) (h : (l.map (·.1)).Nodup) :
    ((l.filterMap fun a => if q a then some a else none).map (·.1)).Nodup := by
  induction l with
  | nil => simp
  | cons a as ih =>
    simp only [List.map_cons, List.nodup_cons] at h
    by_cases hq : q a = true
    · simp only [List.filterMap_cons, hq, if_true, List.map_cons, List.nodup_cons]
      refine ⟨?_, ih h.2⟩
      intro hmem
      simp only [List.mem_map] at hmem
      obtain ⟨b, hb, hba⟩ := hmem
      exact h.1 (by simp only [List.mem_map]; exact ⟨b, filterMap_sub as q b hb, hba⟩)
    · simp only [List.filterMap_cons, hq]
      exact ih h.2

/-- A `TensorIndex` over a total source with valid provided indexes (each names a dimension of
    the source and is below its length) is total; its `unwrap` cannot fail. -/
theorem index_wf (src : TView ν) (hsrc : src.WF) (provided : List (ν × Nat))
    (hvalid : ∀ d ∈ src.shape, ∀ p ∈ provided, p.1 = d.1 → p.2 < d.2) :
    (src.index provided).WF := by
  let f : ν × Nat → Option Nat := fun d => (provided.find? (·.1 = d.1)).map (·.2)
  let zs : List ((ν × Nat) × Option Nat) := src.shape.map fun d => (d, f d)
  have hzip : src.shape.zip (providedTable src.shape provided) = zs := by
    simp only [providedTable]; exact zip_map_eq src.shape f
  have htable : providedTable src.shape provided = zs.map (·.2) := by
    simp [zs, providedTable, f]
  have hlens : src.shape.map (·.2) = zs.map (·.1.2) := by simp [zs]
  have hzvalid : ∀ z ∈ zs, ∀ p, z.2 = some p → p < z.1.2 := by
    intro z hz p hp
    simp only [zs, List.mem_map] at hz
    obtain ⟨d, hd, rfl⟩ := hz
    simp only [f, Option.map_eq_some_iff] at hp
    obtain ⟨q, hq, rfl⟩ := hp
    have hmem := List.mem_of_find?_eq_some hq
    have hname := List.find?_some hq
    exact hvalid d hd q hmem (by simpa using hname)
  have hshape : (src.index provided).shape =
      zs.filterMap fun z => if z.2.isNone then some z.1 else none := by
    simp only [TView.index, hzip]
  refine ⟨⟨?_, ?_⟩, ?_⟩
  · rw [hshape]
    have : (zs.filterMap fun z => if z.2.isNone then some z.1 else none) =
        src.shape.filterMap fun d => if (f d).isNone then some d else none := by
      simp only [zs, List.filterMap_map]
      rfl
    rw [this]
    exact filterMap_names_nodup src.shape (fun d => (f d).isNone) hsrc.1.1
  · intro d hd
    rw [hshape] at hd
    simp only [List.mem_filterMap] at hd
    obtain ⟨z, hz, hzd⟩ := hd
    split at hzd
    · simp at hzd; subst hzd
      simp only [zs, List.mem_map] at hz
      obtain ⟨d', hd', rfl⟩ := hz
      exact hsrc.1.2 d' hd'
    · simp at hzd
  · intro idx hidx
    rw [hshape] at hidx ⊢
    obtain ⟨merged, h1, h2, h3⟩ := selectIndexes_spec zs hzvalid idx hidx
    simp only [TView.index, htable, h1, unwrapC]
    obtain ⟨r, hr, hsome⟩ := hsrc.2 merged (by simp [h2, zs])
    exact ⟨r, hr, by rw [hsome, hlens, h3]⟩

end EasyMl.Fallible
