/-
  EasyMl.Lemmas.FallibleMatrix — totality of the checked getters of the matrix views and of the
  tensor↔matrix wrappers; `try_into_scalar`, `into_tensor`, `with_names`.
-/
import EasyMl.Lemmas.Fallible

namespace EasyMl.MatrixView
open EasyMl.Spec EasyMl.Fallible

set_option linter.unusedSectionVars false
set_option linter.unusedVariables false

variable {ν : Type} [DecidableEq ν]

theorem MatrixMeta.get_eq (m : MatrixMeta) (h : m.Inv) (row column : Nat) :
    m.get row column =
      .ok (if row < m.rows ∧ column < m.columns then some (column + row * m.columns) else none) := by
  obtain ⟨hd, hr, hc, hb⟩ := h
  simp only [MatrixMeta.get]
  by_cases hin : row < m.rows ∧ column < m.columns
  · have h1 : (row + 1) * m.columns ≤ m.rows * m.columns := Nat.mul_le_mul_right _ (by omega)
    rw [Nat.add_mul] at h1
    simp only [Nat.one_mul] at h1
    have h2 : row * m.columns ≤ usizeMax := by omega
    have h3 : column + row * m.columns ≤ usizeMax := by omega
    have h4 : column + row * m.columns < m.dataLen := by omega
    simp [hin, cmul_ok h2, cadd_ok h3, h4]
  · simp [hin]

theorem matrix_total (m : MatrixMeta) (h : m.Inv) : (MView.ofMatrix m).WF := by
  obtain ⟨hd, hr, hc, hb⟩ := h
  have hrb : m.rows ≤ usizeMax := by
    calc m.rows = m.rows * 1 := by simp
      _ ≤ m.rows * m.columns := Nat.mul_le_mul_left _ hc
      _ ≤ usizeMax := by omega
  have hcb : m.columns ≤ usizeMax := by
    calc m.columns = 1 * m.columns := by simp
      _ ≤ m.rows * m.columns := Nat.mul_le_mul_right _ hr
      _ ≤ usizeMax := by omega
  refine ⟨hrb, hcb, ?_⟩
  intro row column
  simp only [MView.ofMatrix, MatrixMeta.get_eq m ⟨hd, hr, hc, hb⟩]
  by_cases hin : row < m.rows ∧ column < m.columns
  · exact ⟨_, rfl, by simp [hin]⟩
  · exact ⟨_, rfl, by simp [hin]⟩

/-- a two-coordinate adaptor built from per-coordinate maps is total when its source is -/
theorem mtotal_of_coords {src : MView} (hsrc : src.Total)
    {f g : Nat → Outcome (Option Nat)} {vr vc : Nat}
    (hf : CoordSpec f vr src.rows) (hg : CoordSpec g vc src.columns) (row column : Nat) :
    ∃ r, src.getVia f g row column = .ok r ∧
      (r.isSome = true ↔ row < vr ∧ column < vc) := by
  simp only [MView.getVia]
  obtain ⟨x, hx, hxs⟩ := hf row
  obtain ⟨y, hy, hys⟩ := hg column
  rw [hx]
  cases x with
  | none => simp only at hxs; exact ⟨none, rfl, by simp [hxs]⟩
  | some r =>
    simp only [hy]
    simp only at hxs
    cases y with
    | none => simp only at hys; exact ⟨none, rfl, by simp [hys]⟩
    | some c =>
      simp only at hys
      obtain ⟨res, hres, hsome⟩ := hsrc r c
      exact ⟨res, hres, by rw [hsome, hxs, hys]⟩

/-- `MatrixRange::from` (repaired): never panics, the size is the request clipped to the source,
    and the view is total -/
theorem mrange_total (src : MView) (hsrc : src.WF) (rows columns : IndexRange) :
    ∃ v, MView.range Arith.fixed src rows columns = .ok v ∧ v.WF ∧
      v.rows = min (rows.start + rows.length) src.rows - rows.start ∧
      v.columns = min (columns.start + columns.length) src.columns - columns.start := by
  obtain ⟨hr, hc, ht⟩ := hsrc
  refine ⟨_, rfl, ⟨?_, ?_, ?_⟩, IndexRange.clip_length rows src.rows hr,
    IndexRange.clip_length columns src.columns hc⟩
  · exact Nat.le_trans (IndexRange.clip_length_le _ _) hr
  · exact Nat.le_trans (IndexRange.clip_length_le _ _) hc
  · intro row column
    exact mtotal_of_coords ht
      (IndexRange.map_spec _ _ hr (IndexRange.clip_clipped rows src.rows hr))
      (IndexRange.map_spec _ _ hc (IndexRange.clip_clipped columns src.columns hc)) row column

/-- `MatrixReverse` (repaired): total, also over an empty source -/
theorem mreverse_total (src : MView) (hsrc : src.WF) (rows columns : Bool) :
    (src.reverse Arith.fixed rows columns).WF := by
  obtain ⟨hr, hc, ht⟩ := hsrc
  refine ⟨hr, hc, ?_⟩
  intro row column
  simp only [MView.reverse]
  by_cases hempty : src.rows = 0 ∨ src.columns = 0
  · refine ⟨none, by simp [hempty], ?_⟩
    simp only [Option.isSome_none, Bool.false_eq_true, false_iff]
    omega
  · simp only [hempty, if_false]
    have hf : CoordSpec (if rows then Arith.fixed.reverseChecked src.rows else fun i => .ok (some i))
        src.rows src.rows := by
      cases rows
      · exact id_spec _
      · exact reverseChecked_spec _
    have hg : CoordSpec (if columns then Arith.fixed.reverseChecked src.columns else fun i => .ok (some i))
        src.columns src.columns := by
      cases columns
      · exact id_spec _
      · exact reverseChecked_spec _
    exact mtotal_of_coords ht hf hg row column

theorem mmap_total (src : MView) (hsrc : src.WF) : src.map.WF := hsrc

theorem mpart_total (p : MatrixPart) (h : p.Rect) : (MView.ofPart p).Total := by
  intro row column
  simp only [MView.ofPart, MatrixPart.get]
  by_cases hout : row ≥ p.rows ∨ column ≥ p.columns
  · refine ⟨none, by simp [hout], ?_⟩
    simp only [Option.isSome_none, Bool.false_eq_true, false_iff]
    omega
  · have hrow : row < p.data.length := by have := h.1; omega
    have hcol : column < (p.data[row]).length := by
      have := h.2 p.data[row] (List.getElem_mem _); omega
    refine ⟨some (p.data[row][column]), by simp [hout, idxC_ok hrow, idxC_ok hcol], ?_⟩
    simp only [Option.isSome_some, true_iff]
    omega

/-- `MatrixRefTensor` over a total two-dimensional tensor view -/
theorem matrixRefTensor_total (t : TView ν) (ht : t.WF) (h2 : t.shape.length = 2) :
    ∃ v, MView.ofTensor t = .ok v ∧ v.WF ∧
      t.shape.map (·.2) = [v.rows, v.columns] := by
  obtain ⟨hu, htot⟩ := ht
  match hs : t.shape, h2 with
  | [a, b], _ =>
    refine ⟨⟨a.2, b.2, fun r c => t.get [r, c]⟩, by simp [MView.ofTensor, hs, idxC], ?_, by simp⟩
    have ha := hu.2 a (by simp [hs])
    have hb := hu.2 b (by simp [hs])
    refine ⟨ha.2, hb.2, ?_⟩
    intro row column
    obtain ⟨r, hr, hsome⟩ := htot [row, column] (by simp [hs])
    refine ⟨r, hr, ?_⟩
    rw [hsome, hs]
    simp [inBounds]

/-- `TensorRefMatrix::with_names`: never panics; `Err(shape)` exactly when the names coincide or
    a length is 0; otherwise a total tensor view with that shape -/
theorem withNames_spec (src : MView) (hsrc : src.WF) (rowName columnName : ν) :
    (∃ v, tensorRefMatrixWithNames src rowName columnName = .ok (.ok v) ∧ v.WF ∧
        v.shape = [(rowName, src.rows), (columnName, src.columns)] ∧
        rowName ≠ columnName ∧ 1 ≤ src.rows ∧ 1 ≤ src.columns) ∨
    (tensorRefMatrixWithNames src rowName columnName =
        .ok (.error [(rowName, src.rows), (columnName, src.columns)]) ∧
      ¬ (rowName ≠ columnName ∧ 1 ≤ src.rows ∧ 1 ≤ src.columns)) := by
  obtain ⟨hr, hc, ht⟩ := hsrc
  simp only [tensorRefMatrixWithNames]
  by_cases hv : isValidShape [(rowName, src.rows), (columnName, src.columns)] = true
  · left
    obtain ⟨hn, hpos⟩ := (isValidShape_iff _).mp hv
    have h1 : 1 ≤ src.rows := hpos (rowName, src.rows) (by simp)
    have h2 : 1 ≤ src.columns := hpos (columnName, src.columns) (by simp)
    have hne : rowName ≠ columnName := by simpa using hn
    simp only [hv, if_true]
    refine ⟨_, rfl, ⟨⟨hn, ?_⟩, ?_⟩, rfl, hne, h1, h2⟩
    · intro d hd
      simp only [List.mem_cons, List.not_mem_nil, or_false] at hd
      rcases hd with rfl | rfl
      · exact ⟨h1, hr⟩
      · exact ⟨h2, hc⟩
    · intro idx hidx
      match idx, hidx with
      | [r, c], _ =>
        obtain ⟨res, hres, hsome⟩ := ht r c
        refine ⟨res, by simp [idxC, hres], ?_⟩
        simp only [List.map_cons, List.map_nil, inBounds, Bool.and_true]
        rw [Bool.eq_iff_iff, hsome]
        simp
  · right
    refine ⟨by simp [hv], fun hc' => hv ?_⟩
    rw [isValidShape_iff]
    refine ⟨by simpa using hc'.1, ?_⟩
    intro d hd
    simp only [List.mem_cons, List.not_mem_nil, or_false] at hd
    rcases hd with rfl | rfl
    · exact hc'.2.1
    · exact hc'.2.2

/-- `Matrix::try_into_scalar`: never panics; `Ok(the element)` exactly for a 1×1 matrix -/
theorem tryIntoScalar_spec (m : MatrixMeta) (h : m.Inv) :
    tryIntoScalar m = .ok (if m.rows = 1 ∧ m.columns = 1 then some 0 else none) := by
  obtain ⟨hd, hr, hc, hb⟩ := h
  simp only [tryIntoScalar]
  by_cases h11 : m.rows = 1 ∧ m.columns = 1
  · have : 0 < m.dataLen := by rw [hd, h11.1, h11.2]; decide
    simp [h11, this, unwrapC]
  · simp [h11]

/-- `Matrix::into_tensor` (over the repaired `Tensor::from` validation): never panics — the
    inner panicking constructor is only reached with a shape it accepts; `Err(shape)` exactly
    when the two names coincide -/
theorem matrixIntoTensor_spec (m : MatrixMeta) (h : m.Inv) (rowName columnName : ν) :
    matrixIntoTensor Arith.fixed m rowName columnName =
      if rowName ≠ columnName then
        .ok (.ok { dataLen := m.dataLen, shape := [(rowName, m.rows), (columnName, m.columns)],
                   strides := computeStrides [(rowName, m.rows), (columnName, m.columns)] })
      else .ok (.error [(rowName, m.rows), (columnName, m.columns)]) := by
  obtain ⟨hd, hr, hc, hb⟩ := h
  simp only [matrixIntoTensor]
  have hvalid : isValidShape [(rowName, m.rows), (columnName, m.columns)] = true ↔
      rowName ≠ columnName := by
    rw [isValidShape_iff]
    constructor
    · intro ⟨hn, _⟩; simpa using hn
    · intro hne
      refine ⟨by simpa using hne, ?_⟩
      intro d hd'
      simp only [List.mem_cons, List.not_mem_nil, or_false] at hd'
      rcases hd' with rfl | rfl <;> assumption
  by_cases hne : rowName ≠ columnName
  · have hv := hvalid.mpr hne
    have he : m.dataLen = elements [(rowName, m.rows), (columnName, m.columns)] := by
      simp [hd]
    rw [if_pos hne]
    have hnv : (!isValidShape [(rowName, m.rows), (columnName, m.columns)]) = false := by simp [hv]
    simp only [hnv, Bool.false_eq_true, if_false, tensorTryFrom_fixed_eq _ _ hb]
    rw [if_pos ⟨he, hv⟩]
  · have hv : ¬ isValidShape [(rowName, m.rows), (columnName, m.columns)] = true :=
      fun hv => hne (hvalid.mp hv)
    simp [hv, hne]

end EasyMl.MatrixView
