/-
  EasyMl.Model.TapeExec — running a program (Spec/Prog.lean) with the code-shaped operators of
  Model/Tape.lean: with records on a tape (reverse mode) and with dual numbers (forward mode).

  This is the glue the theorems of Props/C04, C05 quantify over and the drivers execute: each
  instruction kind is mapped to the Rust operator it stands for.

  Core Lean only.
-/
import EasyMl.Model.Tape
import EasyMl.Spec.Prog

namespace EasyMl
open Spec

variable {R : Type} [Add R] [Sub R] [Mul R] [Div R] [Neg R] [Zero R] [One R] [RealFns R]

/-- An operator that cannot panic. -/
def okStep (x : Rec R × World R) : World R × Outcome (Rec R) := (x.2, .ok x.1)

/-- An operator that panics before touching any tape. -/
def liftStep (w : World R) : Outcome (Rec R × World R) → World R × Outcome (Rec R)
  | .ok (r, w') => (w', .ok r)
  | .panic k => (w, .panic k)

/-- Operand lookup; programs are well scoped, so the default is never used. -/
def getRec (recs : List (Rec R)) (a : Nat) : Rec R := recs.getD a (Rec.constant 0)

/-- The Rust operator an instruction stands for, applied to records.  `h` is the tape a new
    variable is created on; `recs` are the results of the earlier instructions. -/
def Spec.Instr.exec (h : Nat) (env : Nat → R) (recs : List (Rec R)) (w : World R) :
    Instr R → World R × Outcome (Rec R)
  | .const c => (w, .ok (Rec.constant c))
  | .var => okStep (Rec.mkVar (env recs.length) h w)
  | .arith .add a b => liftStep w ((getRec recs a).add (getRec recs b) w)
  | .arith .sub a b => liftStep w ((getRec recs a).sub (getRec recs b) w)
  | .arith .mul a b => liftStep w ((getRec recs a).mul (getRec recs b) w)
  | .arith .div a b => liftStep w ((getRec recs a).div (getRec recs b) w)
  | .arithNum .add a c => okStep ((getRec recs a).addNum c w)
  | .arithNum .sub a c => okStep ((getRec recs a).subNum c w)
  | .arithNum .mul a c => okStep ((getRec recs a).mulNum c w)
  | .arithNum .div a c => okStep ((getRec recs a).divNum c w)
  | .swapped .sub c a => okStep ((getRec recs a).subSwapped c w)
  | .swapped .div c a => okStep ((getRec recs a).divSwapped c w)
  | .neg a => okStep ((getRec recs a).neg w)
  | .sum as => Rec.sum (as.map (getRec recs)) w
  | .real .sin a => okStep ((getRec recs a).sin w)
  | .real .cos a => okStep ((getRec recs a).cos w)
  | .real .exp a => okStep ((getRec recs a).exp w)
  | .real .ln a => okStep ((getRec recs a).ln w)
  | .real .sqrt a => okStep ((getRec recs a).sqrt w)
  | .pow a b => liftStep w ((getRec recs a).pow (getRec recs b) w)
  | .powNum a c => okStep ((getRec recs a).powNum c w)
  | .numPow c a => okStep (Rec.numPow c (getRec recs a) w)
  | .unary f df a => okStep ((getRec recs a).unary f df w)
  | .binary f dfx dfy a b => liftStep w ((getRec recs a).binary (getRec recs b) f dfx dfy w)

/-- Run a program: stops at the first panic (the world keeps what was appended before). -/
def Spec.Prog.execFrom (h : Nat) (env : Nat → R) :
    Prog R → World R → List (Rec R) → World R × Outcome (List (Rec R))
  | [], w, recs => (w, .ok recs)
  | ins :: rest, w, recs =>
    match ins.exec h env recs w with
    | (w', .ok r) => Spec.Prog.execFrom h env rest w' (recs ++ [r])
    | (w', .panic k) => (w', .panic k)

def Spec.Prog.exec (h : Nat) (env : Nat → R) (p : Prog R) (w : World R) :
    World R × Outcome (List (Rec R)) :=
  Spec.Prog.execFrom h env p w []

/-! ### clear / reset cycles -/

/-- `reset()` on each record of a list, in order -/
def resetAll : List (Rec R) → World R → List (Rec R) × World R
  | [], w => ([], w)
  | r :: rest, w =>
    let (r', w') := r.reset w
    let (rs', w'') := resetAll rest w'
    (r' :: rs', w'')

/-- `Record::variable(x, &list)` for each number of a list, in order, on tape `t` -/
def mkVars : List R → Nat → World R → List (Rec R) × World R
  | [], _, w => ([], w)
  | x :: rest, t, w =>
    let (r', w') := Rec.mkVar x t w
    let (rs', w'') := mkVars rest t w'
    (r' :: rs', w'')

/-! ### forward mode -/

def getDual (ds : List (Dual R)) (a : Nat) : Dual R := ds.getD a (Dual.constant 0)

/-- The Rust operator an instruction stands for, applied to traces.  The input created by
    instruction `i` is the `Trace::variable`; every other input is a `Trace::constant`. -/
def Spec.Instr.execDual (i : Nat) (env : Nat → R) (ds : List (Dual R)) : Instr R → Dual R
  | .const c => Dual.constant c
  | .var => if ds.length = i then Dual.mkVar (env ds.length) else Dual.constant (env ds.length)
  | .arith .add a b => (getDual ds a).add (getDual ds b)
  | .arith .sub a b => (getDual ds a).sub (getDual ds b)
  | .arith .mul a b => (getDual ds a).mul (getDual ds b)
  | .arith .div a b => (getDual ds a).div (getDual ds b)
  | .arithNum .add a c => (getDual ds a).addNum c
  | .arithNum .sub a c => (getDual ds a).subNum c
  | .arithNum .mul a c => (getDual ds a).mulNum c
  | .arithNum .div a c => (getDual ds a).divNum c
  -- there is no `number − trace`: the constant is lifted with `Trace::constant`
  | .swapped .sub c a => (Dual.constant c).sub (getDual ds a)
  | .swapped .div c a => (Dual.constant c).div (getDual ds a)
  | .neg a => (getDual ds a).neg
  | .sum as => Dual.sum (as.map (getDual ds))
  | .real .sin a => (getDual ds a).sin
  | .real .cos a => (getDual ds a).cos
  | .real .exp a => (getDual ds a).exp
  | .real .ln a => (getDual ds a).ln
  | .real .sqrt a => (getDual ds a).sqrt
  | .pow a b => (getDual ds a).pow (getDual ds b)
  | .powNum a c => (getDual ds a).powNum c
  | .numPow c a => Dual.numPow c (getDual ds a)
  | .unary f df a => (getDual ds a).unary f df
  | .binary f dfx dfy a b => (getDual ds a).binary (getDual ds b) f dfx dfy

/-- the program as a function of the trace put in for input `i` (what a closure handed to
    `Trace::derivative` does): the other inputs are constants -/
def Spec.Prog.execDualWithFrom (i : Nat) (t : Dual R) (env : Nat → R) :
    Prog R → List (Dual R) → List (Dual R)
  | [], ds => ds
  | ins :: rest, ds =>
    Spec.Prog.execDualWithFrom i t env rest
      (ds ++ [if ins.isVar && ds.length == i then t else ins.execDual i env ds])

def Spec.Prog.execDualWith (i : Nat) (t : Dual R) (env : Nat → R) (p : Prog R) : List (Dual R) :=
  Spec.Prog.execDualWithFrom i t env p []

def Spec.Prog.execDualFrom (i : Nat) (env : Nat → R) : Prog R → List (Dual R) → List (Dual R)
  | [], ds => ds
  | ins :: rest, ds => Spec.Prog.execDualFrom i env rest (ds ++ [ins.execDual i env ds])

/-- forward mode with input `i` seeded -/
def Spec.Prog.execDual (i : Nat) (env : Nat → R) (p : Prog R) : List (Dual R) :=
  Spec.Prog.execDualFrom i env p []

end EasyMl
