/-
  EasyMl.Model.ApiSurface — the constructors and trait impls of the small result / parameter
  structs in the scope of C08 and C17, as the code has them:

    * `LDLTDecomposition(Tensor) { l, d }`, `QRDecomposition(Tensor) { q, r }`
      (linear_algebra.rs:1106-1130, 1175-1199, 1317-1341, 1423-1447): `from_unchecked(a, b)` stores
      its two arguments in field order, `#[derive(Clone)]` (so `clone_from` is `*self =
      source.clone()`), `Display` = `writeln!(f, "<A>:\n{}", a)?; write!(f, "<B>:\n{}", b)`.
    * `Gaussian { mean, variance }` (distributions.rs:121-137): `new(mean, variance)`,
      `#[derive(Clone)]`.

  Core Lean only.
-/
namespace EasyMl.Api

/-- a struct of two factors / parameters, in field order -/
structure Two (F : Type) where
  first : F
  second : F
  deriving DecidableEq, Repr

variable {F : Type}

/-- `from_unchecked(first, second)` / `Gaussian::new(mean, variance)` -/
def fromUnchecked (first second : F) : Two F := ⟨first, second⟩

/-- derived `Clone::clone` -/
def clone (s : Two F) : Two F := ⟨s.first, s.second⟩

/-- derived `Clone::clone_from`: `*self = source.clone()` — the old value of the target is dropped -/
def cloneFrom (_target source : Two F) : Two F := clone source

/-- `Display`: `writeln!(f, "{labelA}:\n{}", first)?; write!(f, "{labelB}:\n{}", second)` -/
def display (labelA labelB : String) (sh : F → String) (s : Two F) : String :=
  labelA ++ ":\n" ++ sh s.first ++ "\n" ++ labelB ++ ":\n" ++ sh s.second

end EasyMl.Api
