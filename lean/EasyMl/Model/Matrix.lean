/-
  EasyMl.Model.Matrix — the shared base of the `Matrix<T>` model (`src/matrices/mod.rs`):
  flat row-major data plus `rows` and `columns`, exactly the three fields of the Rust struct.
  Property-specific operations (resizing, views, iterators, arithmetic, linear algebra) live in
  their own files and build on this one.  Core Lean only.
-/
import EasyMl.Model.Basic

namespace EasyMl

structure Matrix (α : Type) where
  data : List α
  rows : Nat
  columns : Nat
  deriving Repr, DecidableEq

namespace Matrix

variable {α : Type}

/-- The invariant every public constructor/mutator must maintain ("at least 1×1"). -/
def Inv (m : Matrix α) : Prop :=
  m.data.length = m.rows * m.columns ∧ 1 ≤ m.rows ∧ 1 ≤ m.columns

instance (m : Matrix α) : Decidable m.Inv := by unfold Inv; infer_instance

/-- `get_index`: `column + row * columns` -/
def getIndex (m : Matrix α) (row column : Nat) : Nat := column + row * m.columns

/-- `Matrix::size` -/
def size (m : Matrix α) : Nat × Nat := (m.rows, m.columns)

/-- `_try_get_reference` / `MatrixRef::try_get_reference` -/
def tryGet (m : Matrix α) (row column : Nat) : Option α :=
  if row < m.rows ∧ column < m.columns then m.data[m.getIndex row column]? else none

/-- `Matrix::from_flat_row_major` (panics where this is `none`) -/
def fromFlatRowMajor (rows columns : Nat) (values : List α) : Option (Matrix α) :=
  if rows * columns = values.length ∧ values ≠ [] then some ⟨values, rows, columns⟩ else none

/-- `Matrix::from(Vec<Vec<T>>)` (panics where this is `none`) -/
def fromRows (values : List (List α)) : Option (Matrix α) :=
  match values with
  | [] => none
  | first :: _ =>
    if first = [] then none
    else if values.all (fun r => r.length == first.length) then
      some ⟨values.flatten, values.length, first.length⟩
    else none

/-- the rows of the matrix as lists (the abstraction used by the list-of-rows specs) -/
def toRows (m : Matrix α) : List (List α) :=
  (List.range m.rows).map fun r => (m.data.drop (r * m.columns)).take m.columns

end Matrix
end EasyMl
